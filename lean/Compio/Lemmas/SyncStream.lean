/-
Helper lemmas for the C12 models: `Buffer` arithmetic, the read-half invariant `RInv`, the
write-half invariant `WInv`, and their preservation by every primitive of Model/SyncStream.lean.
-/
import Compio.Model.SyncStream

set_option linter.unusedSimpArgs false

namespace Compio.SyncStream

/-! ### `Buf` -/

theorem Buf.compactTo_avail (b : Buf) (c m : Nat) (h : b.pos ≤ b.data.length) :
    (b.compactTo c m).avail = b.avail := by
  unfold Buf.compactTo Buf.avail
  split
  · simp
  · split
    · have : b.pos = b.data.length := by omega
      simp [this]
    · have : b.pos = 0 := by omega
      simp [this]

theorem Buf.compactTo_pos (b : Buf) (c m : Nat) : (b.compactTo c m).pos = 0 := by
  unfold Buf.compactTo
  split
  · rfl
  · split <;> rfl

theorem Buf.compactTo_lent (b : Buf) (c m : Nat) : (b.compactTo c m).lent = b.lent := by
  unfold Buf.compactTo
  split
  · rfl
  · split <;> rfl

theorem Buf.compactTo_cap_le (b : Buf) (c m : Nat) : (b.compactTo c m).cap ≤ b.cap := by
  unfold Buf.compactTo
  split
  · simp
  · split
    · simp only
      split
      · exact Nat.min_le_left _ _
      · exact Nat.le_refl _
    · simp

theorem Buf.compactTo_len_le (b : Buf) (c m : Nat) (h : b.data.length ≤ b.cap) :
    (b.compactTo c m).data.length ≤ (b.compactTo c m).cap := by
  unfold Buf.compactTo
  split
  · simp; omega
  · split
    · simp
    · simpa using h

theorem Buf.compactTo_len_eq_avail (b : Buf) (c m : Nat) (h : b.pos ≤ b.data.length) :
    (b.compactTo c m).data.length = b.data.length - b.pos := by
  unfold Buf.compactTo
  split
  · simp
  · split
    · simp; omega
    · have : b.pos = 0 := by omega
      simp [this]

theorem Buf.compactTo_data (b : Buf) (c m : Nat) (h : b.pos ≤ b.data.length) :
    (b.compactTo c m).data = b.avail := by
  have h1 := Buf.compactTo_avail b c m h
  have h2 := Buf.compactTo_pos b c m
  unfold Buf.avail at h1 ⊢
  rw [h2] at h1
  simpa using h1

theorem growCap_ge (len cap base : Nat) : cap ≤ growCap len cap base := by
  unfold growCap
  split
  · simp only
    split <;> omega
  · exact Nat.le_refl _

theorem growCap_le (len cap base : Nat) (h : len ≤ cap) : growCap len cap base ≤ max cap (len + base) := by
  unfold growCap
  split
  · simp only
    split <;> omega
  · omega

/-- with a positive base capacity the growth step always leaves room for at least one byte -/
theorem growCap_space (len cap base : Nat) (hb : 0 < base) (h : len ≤ cap) : len < growCap len cap base := by
  unfold growCap
  split
  · simp only
    split <;> omega
  · omega

theorem growAmortized_ge (len cap add : Nat) (h : len ≤ cap) : len + add ≤ growAmortized len cap add := by
  unfold growAmortized
  split <;> omega


/-! ### read half -/

/-- invariant of the read half; `C` is everything the inner reader delivers before its end -/
structure RInv (C : Bytes) (r : RSide) : Prop where
  fifo : r.delivered = r.taken ++ r.buf.avail
  pos_le : r.buf.pos ≤ r.buf.data.length
  len_le : r.buf.data.length ≤ r.buf.cap
  cap_le : r.buf.cap ≤ r.base + (r.max - 1)
  lent_space : 0 < r.base → r.buf.lent = true → r.buf.data.length < r.buf.cap
  eof_inner : 0 < r.base → r.eof = true → r.innerEof = true
  inner_eof : r.innerEof = true → r.eof = true
  cons : r.delivered ++ (if r.innerEof then [] else content r.script) = C

theorem RInv.new (base max : Nat) (rs : List RItem) : RInv (content rs) (RSide.new base max rs) := by
  constructor <;> simp [RSide.new, Buf.new, Buf.avail]

theorem RInv.clearObs {C r} (h : RInv C r) : RInv C r.clearObs := by
  cases h; constructor <;> simpa [RSide.clearObs]

theorem RInv.wake {C r} (h : RInv C r) : RInv C r.wake := by
  unfold RSide.wake
  split
  · cases h; constructor <;> simpa
  · exact h

@[simp] theorem RSide.wake_buf (r : RSide) : r.wake.buf = r.buf := by unfold RSide.wake; split <;> rfl
@[simp] theorem RSide.wake_eof (r : RSide) : r.wake.eof = r.eof := by unfold RSide.wake; split <;> rfl
@[simp] theorem RSide.wake_base (r : RSide) : r.wake.base = r.base := by unfold RSide.wake; split <;> rfl
@[simp] theorem RSide.wake_max (r : RSide) : r.wake.max = r.max := by unfold RSide.wake; split <;> rfl
@[simp] theorem RSide.wake_script (r : RSide) : r.wake.script = r.script := by unfold RSide.wake; split <;> rfl
@[simp] theorem RSide.wake_delivered (r : RSide) : r.wake.delivered = r.delivered := by unfold RSide.wake; split <;> rfl
@[simp] theorem RSide.wake_taken (r : RSide) : r.wake.taken = r.taken := by unfold RSide.wake; split <;> rfl
@[simp] theorem RSide.wake_innerEof (r : RSide) : r.wake.innerEof = r.innerEof := by unfold RSide.wake; split <;> rfl
@[simp] theorem RSide.wake_log (r : RSide) : r.wake.log = r.log := by unfold RSide.wake; split <;> rfl

theorem Buf.advance_panic {b : Buf} {amt : Nat} (h : b.cap < b.pos + amt) : b.advance amt = .panic := by
  simp [Buf.advance, h]

theorem Buf.advance_lost {b : Buf} {amt : Nat} (h1 : ¬ b.cap < b.pos + amt) (h2 : b.data.length < b.pos + amt) :
    b.advance amt = .lost := by
  simp [Buf.advance, h1, h2]

theorem Buf.advance_ok {b : Buf} {amt : Nat} (h1 : ¬ b.cap < b.pos + amt) (h2 : ¬ b.data.length < b.pos + amt) :
    b.advance amt = .ok { b with pos := b.pos + amt } (decide (b.data.length ≤ b.pos + amt)) := by
  simp [Buf.advance, h1, h2]

theorem RSide.consume_lent {r : RSide} (amt : Nat) (hl : r.buf.lent = true) : r.consume amt = (r, .panic) := by
  simp [RSide.consume, hl]

theorem RSide.consume_panic {r : RSide} {amt : Nat} (hl : r.buf.lent = false) (h1 : r.buf.cap < r.buf.pos + amt) :
    r.consume amt = (r, .panic) := by
  simp [RSide.consume, hl, Buf.advance_panic h1]

theorem RSide.consume_lost {r : RSide} {amt : Nat} (hl : r.buf.lent = false) (h1 : ¬ r.buf.cap < r.buf.pos + amt)
    (h2 : r.buf.data.length < r.buf.pos + amt) :
    r.consume amt = ({ r with buf := { r.buf with lent := true } }, .panic) := by
  simp [RSide.consume, hl, Buf.advance_lost h1 h2]

theorem RSide.consume_ok {r : RSide} {amt : Nat} (hl : r.buf.lent = false) (h1 : ¬ r.buf.cap < r.buf.pos + amt)
    (h2 : ¬ r.buf.data.length < r.buf.pos + amt) :
    r.consume amt =
      ({ r with buf := if r.buf.data.length ≤ r.buf.pos + amt
                        then ({ r.buf with pos := r.buf.pos + amt } : Buf).compactTo r.base r.max
                        else { r.buf with pos := r.buf.pos + amt },
                taken := r.taken ++ r.buf.avail.take amt }, .ok (r.buf.avail.take amt)) := by
  simp [RSide.consume, hl, Buf.advance_ok h1 h2]

/-- `consume` keeps the invariant -/
theorem RInv.consume {C r} (h : RInv C r) (amt : Nat) : RInv C (r.consume amt).1 := by
  by_cases hl : r.buf.lent = true
  · rw [RSide.consume_lent amt hl]; exact h
  · have hl : r.buf.lent = false := by simpa using hl
    by_cases h1 : r.buf.cap < r.buf.pos + amt
    · rw [RSide.consume_panic hl h1]; exact h
    · by_cases h2 : r.buf.data.length < r.buf.pos + amt
      · rw [RSide.consume_lost hl h1 h2]
        cases h
        constructor <;> simp_all [Buf.avail]
        intro _; omega
      · rw [RSide.consume_ok hl h1 h2]
        have hp : r.buf.pos + amt ≤ r.buf.data.length := by omega
        obtain ⟨fifo, pos_le, len_le, cap_le, lent_space, eof_inner, inner_eof, cons⟩ := h
        have hav : ({ r.buf with pos := r.buf.pos + amt } : Buf).avail = r.buf.avail.drop amt := by
          simp [Buf.avail, List.drop_drop, Nat.add_comm]
        have hfifo : r.delivered = r.taken ++ r.buf.avail.take amt ++ r.buf.avail.drop amt := by
          rw [List.append_assoc, List.take_append_drop]; exact fifo
        by_cases hd : r.buf.data.length ≤ r.buf.pos + amt
        · -- compaction
          simp only [hd, if_true]
          constructor
          · simp only
            rw [Buf.compactTo_avail _ _ _ (by simpa using hp), hav]; exact hfifo
          · simp [Buf.compactTo_pos]
          · exact Buf.compactTo_len_le _ _ _ (by simpa using len_le)
          · exact Nat.le_trans (Buf.compactTo_cap_le _ _ _) (by simpa using cap_le)
          · intro hb hl'
            simp only [Buf.compactTo_lent] at hl'
            simp_all
          · simpa using eof_inner
          · simpa using inner_eof
          · simpa using cons
        · simp only [hd, if_false]
          constructor
          · simp only; rw [hav]; exact hfifo
          · simpa using hp
          · simpa using len_le
          · simpa using cap_le
          · intro hb hl'; simp_all
          · simpa using eof_inner
          · simpa using inner_eof
          · simpa using cons

theorem RInv.read {C r} (h : RInv C r) (n : Nat) : RInv C (r.read n).1 := by
  unfold RSide.read
  split
  · exact h.consume _
  · exact h
  · exact h


theorem RSide.fillStart_oom' {r : RSide} (he : r.eof = false) (hl : r.buf.lent = false)
    (hm : r.max ≤ (r.buf.compactTo r.base r.max).data.length) :
    r.fillStart = ({ r with buf := r.buf.compactTo r.base r.max }, some (.err .oom)) := by
  simp [RSide.fillStart, he, hl, hm]

theorem RInv.fillStart {C r} (h : RInv C r) : RInv C r.fillStart.1 := by
  unfold RSide.fillStart
  by_cases he : r.eof = true
  · simpa [he] using h
  · by_cases hl : r.buf.lent = true
    · simpa [he, hl] using h
    · simp only [he, hl, if_false, Bool.false_eq_true]
      obtain ⟨fifo, pos_le, len_le, cap_le, lent_space, eof_inner, inner_eof, cons⟩ := h
      by_cases hm : r.max ≤ (r.buf.compactTo r.base r.max).data.length
      · simp only [hm, if_true]
        constructor
        · simp only; rw [Buf.compactTo_avail _ _ _ pos_le]; exact fifo
        · simp [Buf.compactTo_pos]
        · exact Buf.compactTo_len_le _ _ _ len_le
        · exact Nat.le_trans (Buf.compactTo_cap_le _ _ _) cap_le
        · intro hb hl'
          simp only [Buf.compactTo_lent] at hl'
          simp_all
        · simp_all
        · simp_all
        · simpa using cons
      · simp only [hm, if_false]
        have hlen := Buf.compactTo_len_le r.buf r.base r.max len_le
        have hcap := Buf.compactTo_cap_le r.buf r.base r.max
        constructor
        · simp only
          have := Buf.compactTo_avail r.buf r.base r.max pos_le
          simp only [Buf.avail] at this ⊢
          rw [this]; exact fifo
        · simp [Buf.compactTo_pos]
        · exact Nat.le_trans hlen (growCap_ge _ _ _)
        · have := growCap_le (r.buf.compactTo r.base r.max).data.length (r.buf.compactTo r.base r.max).cap r.base hlen
          simp only
          omega
        · intro hb _
          exact growCap_space _ _ _ hb hlen
        · simp_all
        · simp_all
        · simpa using cons

/-- a started `fill_read_buf` has not seen EOF and owns the buffer -/
theorem RSide.fillStart_started {r r' : RSide} (h : r.fillStart = (r', none)) :
    r'.eof = false ∧ r'.buf.lent = true := by
  unfold RSide.fillStart at h
  by_cases he : r.eof = true
  · simp [he] at h
  · by_cases hl : r.buf.lent = true
    · simp [he, hl] at h
    · simp only [he, hl, if_false, Bool.false_eq_true] at h
      by_cases hm : r.max ≤ (r.buf.compactTo r.base r.max).data.length
      · simp [hm] at h
      · simp only [hm, if_false, Prod.mk.injEq, and_true] at h
        subst h
        simp


theorem RInv.fillPoll {C r} (h : RInv C r) (snap : List Nat) (he : r.eof = false) (hl : r.buf.lent = true) :
    RInv C (r.fillPoll snap).1 := by
  have hie : r.innerEof = false := by
    cases hi : r.innerEof
    · rfl
    · have := h.inner_eof hi; simp_all
  obtain ⟨fifo, pos_le, len_le, cap_le, lent_space, eof_inner, inner_eof, cons⟩ := h
  unfold RSide.fillPoll
  split
  · -- Pending
    rename_i rest hs
    constructor <;> simp_all [content, Buf.avail]
  · -- error
    rename_i rest hs
    constructor <;> simp_all [content, Buf.avail]
  · -- data
    rename_i bs rest hs
    simp only [RSide.wake_buf, RSide.wake_delivered, RSide.wake_eof, RSide.wake_innerEof, RSide.wake_log]
    constructor
    · simp only [RSide.wake_taken, Buf.avail]
      rw [List.drop_append_of_le_length pos_le, ← List.append_assoc, ← Buf.avail, ← fifo]
    · simp; omega
    · simp; omega
    · simpa using cap_le
    · intro _ hf; simp at hf
    · intro hb
      simp only [RSide.wake_base] at hb
      have hsp := lent_space hb hl
      simp only [he, hie, Bool.false_or, beq_iff_eq, List.isEmpty_iff]
      intro hn
      have : bs.length = 0 := by omega
      exact List.length_eq_zero_iff.mp this
    · simp only [hie, he, Bool.false_or, List.isEmpty_iff, beq_iff_eq]
      intro hb; simp [hb]
    · simp only [hie, Bool.false_or]
      rw [hs] at cons
      simp only [hie, content, Bool.false_eq_true, if_false] at cons
      by_cases hbs : bs.isEmpty = true
      · simp only [hbs, if_true] at cons ⊢
        have : bs = [] := List.isEmpty_iff.mp hbs
        subst this
        simpa using cons
      · simp only [hbs, if_false, Bool.false_eq_true] at cons ⊢
        rw [← cons]
        by_cases hn : min bs.length (r.buf.cap - r.buf.data.length) < bs.length
        · have hne : (List.drop (min bs.length (r.buf.cap - r.buf.data.length)) bs).isEmpty = false := by
            simp only [List.isEmpty_eq_false_iff, ne_eq, List.drop_eq_nil_iff, Nat.not_le]
            exact hn
          simp only [hn, if_true, content, hne, Bool.false_eq_true, if_false]
          simp only [List.append_assoc]
          rw [← List.append_assoc (List.take _ bs), List.take_append_drop]
        · have : bs.length ≤ min bs.length (r.buf.cap - r.buf.data.length) := by omega
          simp only [hn, if_false, List.take_of_length_le this, List.append_assoc]
  · -- Ok(0)
    rename_i rest hs
    constructor <;> simp_all [content, Buf.avail]
  · rename_i hs
    constructor <;> simp_all [content, Buf.avail]

/-- a poll that returns Pending leaves the future started -/
theorem RSide.fillPoll_pending {r r' : RSide} {snap : List Nat} (h : r.fillPoll snap = (r', none)) :
    r'.eof = r.eof ∧ r'.buf = r.buf := by
  unfold RSide.fillPoll at h
  split at h <;> simp at h
  subst h
  simp

theorem RInv.fillDrive {C} (snapless : Unit) : ∀ (k : Nat) {r : RSide}, RInv C r → r.eof = false → r.buf.lent = true →
    RInv C (r.fillDrive k).1
  | 0, r, h, _, _ => by simpa [RSide.fillDrive] using h
  | k + 1, r, h, he, hl => by
    unfold RSide.fillDrive
    have hp := h.fillPoll [driverTask] he hl
    cases hq : r.fillPoll [driverTask] with
    | mk r' o =>
      rw [hq] at hp
      cases o with
      | some res => simpa using hp
      | none =>
        simp only
        have := RSide.fillPoll_pending hq
        exact RInv.fillDrive snapless k hp (by rw [this.1]; exact he) (by rw [this.2]; exact hl)

theorem RInv.fill {C r} (h : RInv C r) (budget : Nat) : RInv C (r.fill budget).1 := by
  unfold RSide.fill
  cases budget with
  | zero => simpa using h
  | succ k =>
    simp only
    have hs := h.fillStart
    cases hq : r.fillStart with
    | mk r' o =>
      rw [hq] at hs
      cases o with
      | some res => simpa using hs
      | none =>
        simp only
        obtain ⟨he, hl⟩ := RSide.fillStart_started hq
        have hp := hs.fillPoll [driverTask] he hl
        cases hq2 : r'.fillPoll [driverTask] with
        | mk r'' o2 =>
          rw [hq2] at hp
          cases o2 with
          | some res => simpa using hp
          | none =>
            simp only
            have := RSide.fillPoll_pending hq2
            exact RInv.fillDrive () k hp (by rw [this.1]; exact he) (by rw [this.2]; exact hl)


/-! ### write half -/

structure WInv (w : WSide) : Prop where
  fifo : w.accepted = w.sent ++ w.buf.avail
  pos_le : w.buf.pos ≤ w.buf.data.length
  pend_le : w.buf.data.length ≤ w.max + w.buf.pos
  len_le : w.buf.data.length ≤ w.buf.cap

theorem WInv.new (base max : Nat) (ws : List WItem) : WInv (WSide.new base max ws) := by
  constructor <;> simp [WSide.new, Buf.new, Buf.avail]

theorem WInv.clearObs {w} (h : WInv w) : WInv w.clearObs := by
  cases h; constructor <;> simpa [WSide.clearObs]

@[simp] theorem WSide.wake_buf (w : WSide) : w.wake.buf = w.buf := by unfold WSide.wake; split <;> rfl
@[simp] theorem WSide.wake_base (w : WSide) : w.wake.base = w.base := by unfold WSide.wake; split <;> rfl
@[simp] theorem WSide.wake_max (w : WSide) : w.wake.max = w.max := by unfold WSide.wake; split <;> rfl
@[simp] theorem WSide.wake_script (w : WSide) : w.wake.script = w.script := by unfold WSide.wake; split <;> rfl
@[simp] theorem WSide.wake_sent (w : WSide) : w.wake.sent = w.sent := by unfold WSide.wake; split <;> rfl
@[simp] theorem WSide.wake_accepted (w : WSide) : w.wake.accepted = w.accepted := by unfold WSide.wake; split <;> rfl
@[simp] theorem WSide.wake_log (w : WSide) : w.wake.log = w.log := by unfold WSide.wake; split <;> rfl

theorem WInv.wake {w} (h : WInv w) : WInv w.wake := by
  cases h; constructor <;> simpa

theorem Buf.extend_avail (b : Buf) (src : Bytes) (h : b.pos ≤ b.data.length) :
    (b.extend src).avail = b.avail ++ src := by
  simp [Buf.extend, Buf.avail, List.drop_append_of_le_length h]

theorem WInv.extend {w : WSide} (h : WInv w) (part : Bytes)
    (hp : w.buf.data.length - w.buf.pos + part.length ≤ w.max) :
    WInv { w with buf := w.buf.extend part, accepted := w.accepted ++ part } := by
  obtain ⟨fifo, pos_le, pend_le, len_le⟩ := h
  constructor
  · simp only; rw [Buf.extend_avail _ _ pos_le, fifo, List.append_assoc]
  · simp [Buf.extend]; omega
  · simp [Buf.extend]; omega
  · simp only [Buf.extend, List.length_append]
    exact growAmortized_ge _ _ _ len_le

theorem WInv.write {w} (h : WInv w) (src : Bytes) : WInv (w.write src).1 := by
  unfold WSide.write
  split
  · exact h
  · split
    · exact h
    · simp only
      split
      · split
        · cases h; constructor <;> simpa [Buf.avail]
        · split
          · exact h
          · apply h.extend
            simp only [List.length_take]
            omega
      · apply h.extend
        omega

/-- what `write` accepts is what it reports -/
theorem WSide.write_accepted (w : WSide) (src : Bytes) :
    (w.write src).1.accepted = w.accepted ++ (match (w.write src).2 with | .ok n => src.take n | _ => []) := by
  unfold WSide.write
  split
  · simp
  · split
    · simp
    · simp only
      split
      · split
        · simp
        · split
          · simp
          · simp
      · simp

theorem WInv.flushTail {w} (h : WInv w) (snap : List Nat) (t : Nat) : WInv (w.flushTail snap t).1 := by
  unfold WSide.flushTail
  split <;> (cases h; constructor <;> simpa)

theorem WSide.flushTail_same (w : WSide) (snap : List Nat) (t : Nat) :
    (w.flushTail snap t).1.buf = w.buf ∧ (w.flushTail snap t).1.sent = w.sent ∧
    (w.flushTail snap t).1.accepted = w.accepted ∧ (w.flushTail snap t).1.max = w.max ∧
    (w.flushTail snap t).1.base = w.base := by
  unfold WSide.flushTail
  split <;> simp

theorem WInv.compact {w} (h : WInv w) : WInv { w with buf := w.buf.compactTo w.base w.max } := by
  obtain ⟨fifo, pos_le, pend_le, len_le⟩ := h
  constructor
  · simp only; rw [Buf.compactTo_avail _ _ _ pos_le]; exact fifo
  · simp [Buf.compactTo_pos]
  · simp only [Buf.compactTo_pos, Buf.compactTo_len_eq_avail _ _ _ pos_le]; omega
  · exact Buf.compactTo_len_le _ _ _ len_le

theorem WInv.afterFlushTo {w} (h : WInv w) (snap : List Nat) (t : Nat) : WInv (w.afterFlushTo snap t).1 := by
  unfold WSide.afterFlushTo
  exact h.compact.flushTail snap t


/-- the write buffer is empty and everything accepted has been sent -/
def Flushed (w : WSide) : Prop := w.sent = w.accepted ∧ w.buf.data = [] ∧ w.buf.pos = 0

theorem WSide.flushTail_flushed {w w' : WSide} {snap : List Nat} {t : Nat} {f : WFut} {res : Option (Res Nat)}
    (hf : Flushed w) (h : w.flushTail snap t = (w', f, res)) : Flushed w' := by
  have := WSide.flushTail_same w snap t
  rw [h] at this
  unfold Flushed at *
  simp only at this
  rw [this.1, this.2.1, this.2.2.1]; exact hf

theorem WSide.afterFlushTo_flushed {w w' : WSide} {snap : List Nat} {t : Nat} {f : WFut} {res : Option (Res Nat)}
    (hi : WInv w) (he : w.buf.avail = []) (h : w.afterFlushTo snap t = (w', f, res)) : Flushed w' := by
  unfold WSide.afterFlushTo at h
  refine WSide.flushTail_flushed ?_ h
  refine ⟨?_, ?_, ?_⟩
  · simp only; rw [hi.fifo, he]; simp
  · simp only; rw [Buf.compactTo_data _ _ _ hi.pos_le]; exact he
  · simp [Buf.compactTo_pos]

/-- the state after the inner writer accepted `n` bytes of the offered slice -/
def WSide.afterSend (w : WSide) (n : Nat) : WSide :=
  { w.wake with sent := w.wake.sent ++ w.buf.avail.take n, buf := { w.wake.buf with lent := false },
                log := w.wake.log ++ [.w w.buf.avail.length n] }

theorem WSide.accepted_n_zero (w : WSide) (snap : List Nat) (total : Nat) :
    w.accepted_n snap total 0 = (some (w.afterSend 0, .idle, some (.err .wz)), w.afterSend 0) := by
  simp [WSide.accepted_n, WSide.afterSend]

theorem WSide.accepted_n_done (w : WSide) (snap : List Nat) (total n : Nat) (hn : n ≠ 0)
    (h : w.buf.pos + n = w.buf.data.length) (hc : w.buf.data.length ≤ w.buf.cap) :
    w.accepted_n snap total n =
      (some (({ w.afterSend n with buf := ({ (w.afterSend n).buf with pos := w.buf.pos + n } : Buf).reset }).afterFlushTo snap (total + n)),
       w.afterSend n) := by
  have h1 : ¬ w.buf.cap < w.buf.pos + n := by omega
  have h2 : ¬ w.buf.data.length < w.buf.pos + n := by omega
  have hadv : ({ w.wake.buf with lent := false } : Buf).advance n =
      .ok { ({ w.wake.buf with lent := false } : Buf) with pos := w.buf.pos + n } true := by
    rw [Buf.advance_ok (by simpa using h1) (by simpa using h2)]
    simp; omega
  simp only [WSide.accepted_n, hn, if_false, hadv, WSide.afterSend, if_true]

theorem WSide.accepted_n_more (w : WSide) (snap : List Nat) (total n : Nat) (hn : n ≠ 0)
    (h : w.buf.pos + n < w.buf.data.length) (hc : w.buf.data.length ≤ w.buf.cap) :
    w.accepted_n snap total n =
      (none, { w.afterSend n with buf := { (w.afterSend n).buf with pos := w.buf.pos + n } }) := by
  have h1 : ¬ w.buf.cap < w.buf.pos + n := by omega
  have h2 : ¬ w.buf.data.length < w.buf.pos + n := by omega
  have hadv : ({ w.wake.buf with lent := false } : Buf).advance n =
      .ok { ({ w.wake.buf with lent := false } : Buf) with pos := w.buf.pos + n } false := by
    rw [Buf.advance_ok (by simpa using h1) (by simpa using h2)]
    simp; omega
  simp only [WSide.accepted_n, hn, if_false, hadv, WSide.afterSend]
  simp

theorem WInv.afterSend_adv {w} (h : WInv w) (n : Nat) (hn : w.buf.pos + n ≤ w.buf.data.length) :
    WInv { w.afterSend n with buf := { (w.afterSend n).buf with pos := w.buf.pos + n } } := by
  obtain ⟨fifo, pos_le, pend_le, len_le⟩ := h
  constructor
  · simp only [WSide.afterSend, WSide.wake_accepted, WSide.wake_sent, WSide.wake_buf, Buf.avail]
    rw [fifo, Buf.avail, List.append_assoc]
    congr 1
    rw [← List.drop_drop, List.take_append_drop]
  · simpa [WSide.afterSend] using hn
  · simp [WSide.afterSend]; omega
  · simpa [WSide.afterSend] using len_le

theorem WInv.afterSend_zero {w} (h : WInv w) : WInv (w.afterSend 0) := by
  obtain ⟨fifo, pos_le, pend_le, len_le⟩ := h
  constructor
  · simpa [WSide.afterSend, Buf.avail] using fifo
  · simpa [WSide.afterSend] using pos_le
  · simpa [WSide.afterSend] using pend_le
  · simpa [WSide.afterSend] using len_le

theorem WInv.afterSend_reset {w} (h : WInv w) (n : Nat) (hn : w.buf.pos + n = w.buf.data.length) :
    WInv { w.afterSend n with buf := ({ (w.afterSend n).buf with pos := w.buf.pos + n } : Buf).reset } ∧
    ({ w.afterSend n with buf := ({ (w.afterSend n).buf with pos := w.buf.pos + n } : Buf).reset } : WSide).buf.avail = [] := by
  have hi := h.afterSend_adv n (by omega)
  obtain ⟨fifo, pos_le, pend_le, len_le⟩ := hi
  have hav : ({ (w.afterSend n).buf with pos := w.buf.pos + n } : Buf).avail = [] := by
    simp [Buf.avail, WSide.afterSend]; omega
  refine ⟨?_, by simp [Buf.reset, Buf.avail]⟩
  constructor
  · simp only [Buf.reset, Buf.avail, List.drop_nil, List.append_nil]
    simp only [hav, List.append_nil] at fifo
    exact fifo
  · simp [Buf.reset]
  · simp [Buf.reset]
  · simp [Buf.reset]

/-- postcondition of a poll of the flush future: if it ended `Ok`, or is now suspended in the inner
`flush()`, the write buffer is empty and everything accepted has been sent -/
def FlushPost (x : WSide × WFut × Option (Res Nat)) : Prop :=
  ((∃ m, x.2.2 = some (.ok m)) ∨ (∃ t, x.2.1 = .flushing t)) → Flushed x.1

/-- `writeLoop` keeps the invariant; a run that ends `Ok` has flushed everything -/
theorem WInv.writeLoop (snap : List Nat) : ∀ (script : List WItem) {w : WSide} (total : Nat), WInv w →
    WInv (w.writeLoop snap total script).1 ∧ FlushPost (w.writeLoop snap total script)
  | [], w, total, h => by
    unfold WSide.writeLoop
    by_cases h0 : w.buf.avail.length = 0
    · rw [h0, WSide.accepted_n_zero]
      refine ⟨?_, by simp [FlushPost]⟩
      have := (WInv.afterSend_zero (w := { w with script := [] }) (by cases h; constructor <;> simpa))
      simpa using this
    · have hlen : w.buf.pos + w.buf.avail.length = w.buf.data.length := by
        have := h.pos_le; simp [Buf.avail]; omega
      have hw : WInv { w with script := [] } := by cases h; constructor <;> simpa
      rw [WSide.accepted_n_done _ _ _ _ h0 (by simpa using hlen) (by simpa using h.len_le)]
      simp only
      obtain ⟨hr, he⟩ := hw.afterSend_reset w.buf.avail.length (by simpa using hlen)
      refine ⟨hr.afterFlushTo _ _, ?_⟩
      intro _
      exact WSide.afterFlushTo_flushed hr he rfl
  | .p :: rest, w, total, h => by
    unfold WSide.writeLoop
    refine ⟨?_, by simp [FlushPost]⟩
    cases h; constructor <;> simpa [Buf.avail]
  | .e :: rest, w, total, h => by
    unfold WSide.writeLoop
    refine ⟨?_, by simp [FlushPost]⟩
    cases h; constructor <;> simpa [Buf.avail]
  | .w k :: rest, w, total, h => by
    unfold WSide.writeLoop
    have hw : WInv { w with script := rest } := by cases h; constructor <;> simpa
    have hav : ({ w with script := rest } : WSide).buf.avail = w.buf.avail := rfl
    by_cases h0 : min k w.buf.avail.length = 0
    · rw [h0, WSide.accepted_n_zero]
      refine ⟨?_, by simp [FlushPost]⟩
      simpa using hw.afterSend_zero
    · have hle : w.buf.pos + min k w.buf.avail.length ≤ w.buf.data.length := by
        have := h.pos_le; simp [Buf.avail]; omega
      by_cases hd : w.buf.pos + min k w.buf.avail.length = w.buf.data.length
      · rw [WSide.accepted_n_done _ _ _ _ h0 (by simpa using hd) (by simpa using h.len_le)]
        simp only
        obtain ⟨hr, he⟩ := hw.afterSend_reset _ (by simpa using hd)
        refine ⟨hr.afterFlushTo _ _, ?_⟩
        intro _
        exact WSide.afterFlushTo_flushed hr he rfl
      · rw [WSide.accepted_n_more _ _ _ _ h0 (by simp only; omega) (by simpa using h.len_le)]
        simp only
        exact WInv.writeLoop snap rest _ (hw.afterSend_adv _ (by simpa using hle))


theorem WInv.flushBegin {w} (h : WInv w) (snap : List Nat) :
    WInv (w.flushBegin snap).1 ∧ FlushPost (w.flushBegin snap) := by
  unfold WSide.flushBegin
  split
  · exact ⟨h, by simp [FlushPost]⟩
  · split
    · rename_i he
      refine ⟨h.afterFlushTo _ _, ?_⟩
      intro _
      exact WSide.afterFlushTo_flushed h (by simpa using he) rfl
    · exact WInv.writeLoop snap w.script 0 h

/-- a future suspended in the inner `flush()` has emptied the buffer -/
def FutOK (w : WSide) (fut : WFut) : Prop := ∀ t, fut = .flushing t → Flushed w

/-- one poll of the flush future keeps the invariant; if the buffer was still empty whenever the
future was suspended in the inner `flush()` (`FutOK`), then an `Ok` result (or being suspended in
the inner `flush()`) means the buffer is empty and everything accepted was sent -/
theorem WInv.flushResume {w} (h : WInv w) (snap : List Nat) (fut : WFut) :
    WInv (w.flushResume snap fut).1 ∧ (FutOK w fut → FlushPost (w.flushResume snap fut)) := by
  cases fut with
  | idle => exact ⟨(h.flushBegin snap).1, fun _ => (h.flushBegin snap).2⟩
  | writing t => exact ⟨(WInv.writeLoop snap w.script t h).1, fun _ => (WInv.writeLoop snap w.script t h).2⟩
  | flushing t =>
    refine ⟨h.flushTail snap t, ?_⟩
    intro hf _
    exact WSide.flushTail_flushed (hf t rfl) rfl

/-- a poll that returns Pending is never in `idle`, a poll that returns a result always is -/
theorem WSide.flushTail_fut (w : WSide) (snap : List Nat) (t : Nat) :
    ((w.flushTail snap t).2.2 = none → (w.flushTail snap t).2.1 = .flushing t) ∧
    ((w.flushTail snap t).2.2 ≠ none → (w.flushTail snap t).2.1 = .idle) := by
  unfold WSide.flushTail
  split <;> simp

/-- a flush that ends `Ok` from a `flushing` future leaves the buffer as it was -/
theorem WSide.flushResume_flushing_buf (w : WSide) (snap : List Nat) (t : Nat) :
    (w.flushResume snap (.flushing t)).1.buf = w.buf ∧ (w.flushResume snap (.flushing t)).1.sent = w.sent ∧
    (w.flushResume snap (.flushing t)).1.accepted = w.accepted := by
  have := WSide.flushTail_same w snap t
  exact ⟨this.1, this.2.1, this.2.2.1⟩

theorem WInv.flushDrive : ∀ (k : Nat) {w : WSide} (fut : WFut), WInv w → FutOK w fut →
    WInv (w.flushDrive fut k).1 ∧ (∀ m, (w.flushDrive fut k).2 = some (.ok m) → Flushed (w.flushDrive fut k).1)
  | 0, w, fut, h, _ => by simpa [WSide.flushDrive] using h
  | k + 1, w, fut, h, hf => by
    unfold WSide.flushDrive
    have hp := h.flushResume [driverTask] fut
    rcases hq : w.flushResume [driverTask] fut with ⟨w', fut', o⟩
    rw [hq] at hp
    cases o with
    | some res =>
      refine ⟨hp.1, ?_⟩
      intro m hm
      simp only [Option.some.injEq] at hm
      exact hp.2 hf (Or.inl ⟨m, by simp [hm]⟩)
    | none =>
      simp only
      refine WInv.flushDrive k fut' hp.1 ?_
      intro t ht
      exact hp.2 hf (Or.inr ⟨t, ht⟩)

theorem WInv.flush {w} (h : WInv w) (budget : Nat) :
    WInv (w.flush budget).1 ∧ (∀ m, (w.flush budget).2 = some (.ok m) → Flushed (w.flush budget).1) :=
  h.flushDrive budget .idle (by intro t ht; cases ht)

theorem WInv.shutdownPoll {w} (h : WInv w) (snap : List Nat) : WInv (w.shutdownPoll snap).1 := by
  unfold WSide.shutdownPoll
  split <;> (cases h; constructor <;> simpa)

theorem WSide.shutdownPoll_same (w : WSide) (snap : List Nat) :
    (w.shutdownPoll snap).1.buf = w.buf ∧ (w.shutdownPoll snap).1.sent = w.sent ∧
    (w.shutdownPoll snap).1.accepted = w.accepted ∧ (w.shutdownPoll snap).1.max = w.max ∧
    (w.shutdownPoll snap).1.base = w.base := by
  unfold WSide.shutdownPoll
  split <;> simp


/-! ### frame lemmas: configuration is constant, `taken` / `accepted` grow by exactly what is reported -/

def resBytes : Res Bytes → Bytes
  | .ok b => b
  | _ => []

theorem RSide.consume_frame (r : RSide) (amt : Nat) :
    (r.consume amt).1.taken = r.taken ++ resBytes (r.consume amt).2 ∧
    (r.consume amt).1.base = r.base ∧ (r.consume amt).1.max = r.max := by
  by_cases hl : r.buf.lent = true
  · rw [RSide.consume_lent amt hl]; simp [resBytes]
  · have hl : r.buf.lent = false := by simpa using hl
    by_cases h1 : r.buf.cap < r.buf.pos + amt
    · rw [RSide.consume_panic hl h1]; simp [resBytes]
    · by_cases h2 : r.buf.data.length < r.buf.pos + amt
      · rw [RSide.consume_lost hl h1 h2]; simp [resBytes]
      · rw [RSide.consume_ok hl h1 h2]; simp [resBytes]

theorem RSide.read_frame (r : RSide) (n : Nat) :
    (r.read n).1.taken = r.taken ++ resBytes (r.read n).2 ∧
    (r.read n).1.base = r.base ∧ (r.read n).1.max = r.max := by
  unfold RSide.read
  split
  · exact RSide.consume_frame r _
  · simp [resBytes]
  · simp [resBytes]

theorem RSide.fillStart_frame (r : RSide) :
    r.fillStart.1.taken = r.taken ∧ r.fillStart.1.base = r.base ∧ r.fillStart.1.max = r.max := by
  unfold RSide.fillStart
  split
  · simp
  · split
    · simp
    · simp only
      split <;> simp

theorem RSide.fillPoll_frame (r : RSide) (snap : List Nat) :
    (r.fillPoll snap).1.taken = r.taken ∧ (r.fillPoll snap).1.base = r.base ∧ (r.fillPoll snap).1.max = r.max := by
  unfold RSide.fillPoll
  split <;> simp

theorem RSide.fillDrive_frame : ∀ (k : Nat) (r : RSide),
    (r.fillDrive k).1.taken = r.taken ∧ (r.fillDrive k).1.base = r.base ∧ (r.fillDrive k).1.max = r.max
  | 0, r => by simp [RSide.fillDrive]
  | k + 1, r => by
    unfold RSide.fillDrive
    have hp := RSide.fillPoll_frame r [driverTask]
    rcases hq : r.fillPoll [driverTask] with ⟨r', o⟩
    rw [hq] at hp
    cases o with
    | some res => simpa using hp
    | none =>
      have := RSide.fillDrive_frame k r'
      simp only at hp ⊢
      rw [this.1, this.2.1, this.2.2]; exact hp

theorem RSide.fill_frame (r : RSide) (budget : Nat) :
    (r.fill budget).1.taken = r.taken ∧ (r.fill budget).1.base = r.base ∧ (r.fill budget).1.max = r.max := by
  unfold RSide.fill
  cases budget with
  | zero => simp
  | succ k =>
    simp only
    have hs := RSide.fillStart_frame r
    rcases hq : r.fillStart with ⟨r', o⟩
    rw [hq] at hs
    cases o with
    | some res => simpa using hs
    | none =>
      simp only at hs ⊢
      have hp := RSide.fillPoll_frame r' [driverTask]
      rcases hq2 : r'.fillPoll [driverTask] with ⟨r'', o2⟩
      rw [hq2] at hp
      cases o2 with
      | some res => simp only at hp ⊢; rw [hp.1, hp.2.1, hp.2.2]; exact hs
      | none =>
        have := RSide.fillDrive_frame k r''
        simp only at hp ⊢
        rw [this.1, this.2.1, this.2.2, hp.1, hp.2.1, hp.2.2]; exact hs

theorem WSide.write_frame (w : WSide) (src : Bytes) : (w.write src).1.max = w.max ∧ (w.write src).1.base = w.base ∧
    (w.write src).1.sent = w.sent := by
  unfold WSide.write
  split
  · simp
  · split
    · simp
    · simp only
      split
      · split
        · simp
        · split <;> simp
      · simp

theorem WSide.afterFlushTo_frame (w : WSide) (snap : List Nat) (t : Nat) :
    (w.afterFlushTo snap t).1.accepted = w.accepted ∧ (w.afterFlushTo snap t).1.max = w.max ∧
    (w.afterFlushTo snap t).1.base = w.base := by
  unfold WSide.afterFlushTo
  have := WSide.flushTail_same ({ w with buf := w.buf.compactTo w.base w.max }) snap t
  exact ⟨this.2.2.1, this.2.2.2.1, this.2.2.2.2⟩

theorem WSide.afterSend_frame (w : WSide) (n : Nat) :
    (w.afterSend n).accepted = w.accepted ∧ (w.afterSend n).max = w.max ∧ (w.afterSend n).base = w.base := by
  simp [WSide.afterSend]

theorem WSide.accepted_n_frame (w : WSide) (snap : List Nat) (total n : Nat) :
    (∀ x, (w.accepted_n snap total n).1 = some x → x.1.accepted = w.accepted ∧ x.1.max = w.max ∧ x.1.base = w.base) ∧
    ((w.accepted_n snap total n).2.accepted = w.accepted ∧ (w.accepted_n snap total n).2.max = w.max ∧
      (w.accepted_n snap total n).2.base = w.base) := by
  unfold WSide.accepted_n
  simp only
  split
  · simp
  · split
    · simp
    · simp
    · split
      · refine ⟨?_, by simp⟩
        intro x hx
        simp only [Option.some.injEq] at hx
        subst hx
        refine ⟨?_, ?_, ?_⟩
        · rw [(WSide.afterFlushTo_frame _ _ _).1]; simp
        · rw [(WSide.afterFlushTo_frame _ _ _).2.1]; simp
        · rw [(WSide.afterFlushTo_frame _ _ _).2.2]; simp
      · simp

theorem WSide.writeLoop_frame (snap : List Nat) : ∀ (script : List WItem) (w : WSide) (total : Nat),
    (w.writeLoop snap total script).1.accepted = w.accepted ∧ (w.writeLoop snap total script).1.max = w.max ∧
    (w.writeLoop snap total script).1.base = w.base
  | [], w, total => by
    unfold WSide.writeLoop
    have := WSide.accepted_n_frame ({ w with script := [] }) snap total w.buf.avail.length
    rcases hq : ({ w with script := [] } : WSide).accepted_n snap total w.buf.avail.length with ⟨o, w'⟩
    rw [hq] at this
    cases o with
    | some r => simpa using this.1 r rfl
    | none => simpa using this.2
  | .p :: rest, w, total => by simp [WSide.writeLoop]
  | .e :: rest, w, total => by simp [WSide.writeLoop]
  | .w k :: rest, w, total => by
    unfold WSide.writeLoop
    have := WSide.accepted_n_frame ({ w with script := rest }) snap total (min k w.buf.avail.length)
    rcases hq : ({ w with script := rest } : WSide).accepted_n snap total (min k w.buf.avail.length) with ⟨o, w'⟩
    rw [hq] at this
    cases o with
    | some r => simpa using this.1 r rfl
    | none =>
      simp only
      have ih := WSide.writeLoop_frame snap rest w' (total + min k w.buf.avail.length)
      rw [ih.1, ih.2.1, ih.2.2]
      simpa using this.2

theorem WSide.flushResume_frame (w : WSide) (snap : List Nat) (fut : WFut) :
    (w.flushResume snap fut).1.accepted = w.accepted ∧ (w.flushResume snap fut).1.max = w.max ∧
    (w.flushResume snap fut).1.base = w.base := by
  cases fut with
  | idle =>
    simp only [WSide.flushResume, WSide.flushBegin]
    split
    · simp
    · split
      · exact WSide.afterFlushTo_frame w snap 0
      · exact WSide.writeLoop_frame snap w.script w 0
  | writing t => exact WSide.writeLoop_frame snap w.script w t
  | flushing t =>
    have := WSide.flushTail_same w snap t
    exact ⟨this.2.2.1, this.2.2.2.1, this.2.2.2.2⟩

theorem WSide.flushDrive_frame : ∀ (k : Nat) (w : WSide) (fut : WFut),
    (w.flushDrive fut k).1.accepted = w.accepted ∧ (w.flushDrive fut k).1.max = w.max ∧
    (w.flushDrive fut k).1.base = w.base
  | 0, w, fut => by simp [WSide.flushDrive]
  | k + 1, w, fut => by
    unfold WSide.flushDrive
    have hp := WSide.flushResume_frame w [driverTask] fut
    rcases hq : w.flushResume [driverTask] fut with ⟨w', fut', o⟩
    rw [hq] at hp
    cases o with
    | some res => simpa using hp
    | none =>
      have := WSide.flushDrive_frame k w' fut'
      simp only at hp ⊢
      rw [this.1, this.2.1, this.2.2]; exact hp


/-! ### the `SyncStream` test-case machine -/

/-- invariant of a whole `SyncStream`; `C` = what the inner reader delivers before its end -/
def Inv (C : Bytes) (s : State) : Prop := RInv C s.r ∧ WInv s.w

theorem Inv.new (base max : Nat) (rs : List RItem) (ws : List WItem) :
    Inv (content rs) (State.new base max rs ws) :=
  ⟨RInv.new base max rs, WInv.new base max ws⟩

theorem Inv.step {C s} (h : Inv C s) (op : Op) : Inv C (step s op).1 := by
  obtain ⟨hr, hw⟩ := h
  have hr' := hr.clearObs
  have hw' := hw.clearObs
  unfold SyncStream.step
  simp only
  split
  · exact ⟨hr', hw'⟩
  · cases op with
    | read n => exact ⟨hr'.read n, hw'⟩
    | rbu n => exact ⟨hr'.read n, hw'⟩
    | fillbuf => exact ⟨hr', hw'⟩
    | consume n => exact ⟨hr'.consume n, hw'⟩
    | write bs => exact ⟨hr', hw'.write bs⟩
    | flush => exact ⟨hr', hw'⟩
    | fill k => exact ⟨hr'.fill k, hw'⟩
    | wflush k => exact ⟨hr', (hw'.flush k).1⟩
    | st => exact ⟨hr', hw'⟩
    | parts => exact ⟨hr', hw'⟩

/-- what a step adds to the ghost histories is exactly what its output reports -/
theorem step_frame (s : State) (op : Op) :
    (step s op).1.r.taken = s.r.taken ++ Out.taken op (step s op).2 ∧
    (step s op).1.w.accepted = s.w.accepted ++ Out.acceptedOf op (step s op).2 ∧
    (step s op).1.r.base = s.r.base ∧ (step s op).1.r.max = s.r.max ∧
    (step s op).1.w.base = s.w.base ∧ (step s op).1.w.max = s.w.max := by
  unfold SyncStream.step
  simp only
  split
  · simp [RSide.clearObs, WSide.clearObs, Out.taken, Out.acceptedOf]
  · cases op with
    | read n =>
      have := RSide.read_frame s.r.clearObs n
      rcases hq : s.r.clearObs.read n with ⟨r', res⟩
      rw [hq] at this
      cases res <;> simp_all [RSide.clearObs, WSide.clearObs, Out.taken, Out.acceptedOf, Out.ofBytes, resBytes]
    | rbu n =>
      have := RSide.read_frame s.r.clearObs n
      rcases hq : s.r.clearObs.read n with ⟨r', res⟩
      rw [hq] at this
      cases res <;> simp_all [RSide.clearObs, WSide.clearObs, Out.taken, Out.acceptedOf, Out.ofBytes, resBytes]
    | fillbuf =>
      cases s.r.clearObs.fillBuf <;> simp [RSide.clearObs, WSide.clearObs, Out.taken, Out.acceptedOf, Out.ofBytes]
    | consume n =>
      have := RSide.consume_frame s.r.clearObs n
      rcases hq : s.r.clearObs.consume n with ⟨r', res⟩
      rw [hq] at this
      cases res <;> simp_all [RSide.clearObs, WSide.clearObs, Out.taken, Out.acceptedOf, Out.ofBytes, resBytes]
    | write bs =>
      have h1 := WSide.write_accepted s.w.clearObs bs
      have h2 := WSide.write_frame s.w.clearObs bs
      rcases hq : s.w.clearObs.write bs with ⟨w', res⟩
      rw [hq] at h1 h2
      cases res <;> simp_all [RSide.clearObs, WSide.clearObs, Out.taken, Out.acceptedOf, Out.ofNum]
    | flush => simp [RSide.clearObs, WSide.clearObs, Out.taken, Out.acceptedOf]
    | fill k =>
      have := RSide.fill_frame s.r.clearObs k
      rcases hq : s.r.clearObs.fill k with ⟨r', res⟩
      rw [hq] at this
      cases res with
      | none => simp_all [RSide.clearObs, WSide.clearObs, Out.taken, Out.acceptedOf, Out.ofDrive]
      | some x => cases x <;> simp_all [RSide.clearObs, WSide.clearObs, Out.taken, Out.acceptedOf, Out.ofDrive, Out.ofNum]
    | wflush k =>
      have := WSide.flushDrive_frame k s.w.clearObs .idle
      unfold WSide.flush
      rcases hq : s.w.clearObs.flushDrive .idle k with ⟨w', res⟩
      rw [hq] at this
      cases res with
      | none => simp_all [RSide.clearObs, WSide.clearObs, Out.taken, Out.acceptedOf, Out.ofDrive]
      | some x => cases x <;> simp_all [RSide.clearObs, WSide.clearObs, Out.taken, Out.acceptedOf, Out.ofDrive, Out.ofNum]
    | st => simp [RSide.clearObs, WSide.clearObs, Out.taken, Out.acceptedOf]
    | parts => simp [RSide.clearObs, WSide.clearObs, Out.taken, Out.acceptedOf]

/-- bytes handed to the caller / accepted from the caller over a whole run, read off the outputs -/
def takenOf : List Op → List Out → Bytes
  | op :: ops, o :: os => Out.taken op o ++ takenOf ops os
  | _, _ => []

def acceptedOf : List Op → List Out → Bytes
  | op :: ops, o :: os => Out.acceptedOf op o ++ acceptedOf ops os
  | _, _ => []

theorem Inv.run {C} : ∀ (ops : List Op) {s : State}, Inv C s → Inv C (run s ops).1
  | [], s, h => by simpa [SyncStream.run] using h
  | op :: ops, s, h => by
    simp only [SyncStream.run]
    exact Inv.run ops (h.step op)

theorem run_frame : ∀ (ops : List Op) (s : State),
    (run s ops).1.r.taken = s.r.taken ++ takenOf ops (run s ops).2 ∧
    (run s ops).1.w.accepted = s.w.accepted ++ acceptedOf ops (run s ops).2 ∧
    (run s ops).1.r.base = s.r.base ∧ (run s ops).1.r.max = s.r.max ∧
    (run s ops).1.w.base = s.w.base ∧ (run s ops).1.w.max = s.w.max
  | [], s => by simp [SyncStream.run, takenOf, acceptedOf]
  | op :: ops, s => by
    simp only [SyncStream.run, takenOf, acceptedOf]
    have h1 := step_frame s op
    have h2 := run_frame ops (step s op).1
    rw [h2.1, h2.2.1, h2.2.2.1, h2.2.2.2.1, h2.2.2.2.2.1, h2.2.2.2.2.2, h1.1, h1.2.1]
    simp only [List.append_assoc]
    exact ⟨trivial, trivial, h1.2.2.1, h1.2.2.2.1, h1.2.2.2.2.1, h1.2.2.2.2.2⟩


/-! ### a poll of the flush future that produces a result leaves no future behind -/

theorem WSide.flushTail_idle (w : WSide) (snap : List Nat) (t : Nat) :
    (w.flushTail snap t).2.2 ≠ none → (w.flushTail snap t).2.1 = .idle :=
  (WSide.flushTail_fut w snap t).2

theorem WSide.accepted_n_idle (w : WSide) (snap : List Nat) (total n : Nat) :
    ∀ x, (w.accepted_n snap total n).1 = some x → x.2.2 ≠ none → x.2.1 = .idle := by
  intro x hx
  unfold WSide.accepted_n at hx
  simp only at hx
  split at hx
  · simp only [Option.some.injEq] at hx; subst hx; simp
  · split at hx
    · simp only [Option.some.injEq] at hx; subst hx; simp
    · simp only [Option.some.injEq] at hx; subst hx; simp
    · split at hx
      · simp only [Option.some.injEq] at hx; subst hx
        unfold WSide.afterFlushTo
        exact WSide.flushTail_idle _ _ _
      · simp at hx

theorem WSide.writeLoop_idle (snap : List Nat) : ∀ (script : List WItem) (w : WSide) (total : Nat),
    (w.writeLoop snap total script).2.2 ≠ none → (w.writeLoop snap total script).2.1 = .idle
  | [], w, total => by
    unfold WSide.writeLoop
    have := WSide.accepted_n_idle ({ w with script := [] }) snap total w.buf.avail.length
    rcases hq : ({ w with script := [] } : WSide).accepted_n snap total w.buf.avail.length with ⟨o, w'⟩
    rw [hq] at this
    cases o with
    | some r => exact this r rfl
    | none => simp
  | .p :: rest, w, total => by simp [WSide.writeLoop]
  | .e :: rest, w, total => by simp [WSide.writeLoop]
  | .w k :: rest, w, total => by
    unfold WSide.writeLoop
    have := WSide.accepted_n_idle ({ w with script := rest }) snap total (min k w.buf.avail.length)
    rcases hq : ({ w with script := rest } : WSide).accepted_n snap total (min k w.buf.avail.length) with ⟨o, w'⟩
    rw [hq] at this
    cases o with
    | some r => exact this r rfl
    | none => exact WSide.writeLoop_idle snap rest w' _

theorem WSide.flushResume_idle (w : WSide) (snap : List Nat) (fut : WFut) :
    (w.flushResume snap fut).2.2 ≠ none → (w.flushResume snap fut).2.1 = .idle := by
  cases fut with
  | idle =>
    simp only [WSide.flushResume, WSide.flushBegin]
    split
    · simp
    · split
      · unfold WSide.afterFlushTo; exact WSide.flushTail_idle _ _ _
      · exact WSide.writeLoop_idle snap w.script w 0
  | writing t => exact WSide.writeLoop_idle snap w.script w t
  | flushing t => exact WSide.flushTail_idle w snap t


/-! ### no panic while the caller keeps its side of the contracts -/

theorem RSide.consume_nopanic {C r} (h : RInv C r) (amt : Nat) (hl : r.buf.lent = false)
    (ha : amt ≤ r.buf.avail.length) :
    (r.consume amt).2 ≠ .panic ∧ (r.consume amt).1.buf.lent = false := by
  have hp := h.pos_le
  have hc := h.len_le
  simp only [Buf.avail, List.length_drop] at ha
  have h1 : ¬ r.buf.cap < r.buf.pos + amt := by omega
  have h2 : ¬ r.buf.data.length < r.buf.pos + amt := by omega
  rw [RSide.consume_ok hl h1 h2]
  refine ⟨by simp, ?_⟩
  simp only
  split
  · rw [Buf.compactTo_lent]; exact hl
  · exact hl

theorem RSide.read_nopanic {C r} (h : RInv C r) (n : Nat) (hl : r.buf.lent = false) :
    (r.read n).2 ≠ .panic ∧ (r.read n).1.buf.lent = false := by
  unfold RSide.read RSide.fillBuf
  simp only [hl, Bool.false_eq_true, if_false]
  split
  · rename_i av hav
    split at hav
    · simp at hav
    · simp only [Res.ok.injEq] at hav
      subst hav
      exact RSide.consume_nopanic h _ hl (Nat.min_le_left _ _)
  · exact ⟨by simp, hl⟩
  · rename_i hav
    split at hav <;> simp at hav

theorem RSide.fillPoll_nopanic (r : RSide) (snap : List Nat) :
    (r.fillPoll snap).2 ≠ some .panic ∧ ((r.fillPoll snap).2 ≠ none → (r.fillPoll snap).1.buf.lent = false) := by
  unfold RSide.fillPoll
  split <;> simp

theorem RSide.fillDrive_nopanic : ∀ (k : Nat) (r : RSide),
    (r.fillDrive k).2 ≠ some .panic ∧ ((r.fillDrive k).2 ≠ none → (r.fillDrive k).1.buf.lent = false)
  | 0, r => by simp [RSide.fillDrive]
  | k + 1, r => by
    unfold RSide.fillDrive
    have hp := RSide.fillPoll_nopanic r [driverTask]
    rcases hq : r.fillPoll [driverTask] with ⟨r', o⟩
    rw [hq] at hp
    cases o with
    | some res => simpa using hp
    | none => exact RSide.fillDrive_nopanic k r'

theorem RSide.fillStarted_nopanic (r1 : RSide) (k : Nat) :
    (match r1.fillPoll [driverTask] with
      | (r'', some res) => (r'', some res)
      | (r'', none) => r''.fillDrive k).2 ≠ some .panic ∧
    ((match r1.fillPoll [driverTask] with
      | (r'', some res) => (r'', some res)
      | (r'', none) => r''.fillDrive k).2 ≠ none →
     (match r1.fillPoll [driverTask] with
      | (r'', some res) => (r'', some res)
      | (r'', none) => r''.fillDrive k).1.buf.lent = false) := by
  have hp := RSide.fillPoll_nopanic r1 [driverTask]
  rcases hq : r1.fillPoll [driverTask] with ⟨r', o⟩
  rw [hq] at hp
  cases o with
  | some res => simpa using hp
  | none => exact RSide.fillDrive_nopanic k r'

theorem RSide.fill_nopanic (r : RSide) (budget : Nat) (hl : r.buf.lent = false) :
    (r.fill budget).2 ≠ some .panic ∧ ((r.fill budget).2 ≠ none → (r.fill budget).1.buf.lent = false) := by
  unfold RSide.fill
  cases budget with
  | zero => simp
  | succ k =>
    simp only
    unfold RSide.fillStart
    by_cases he : r.eof = true
    · simp [he, hl]
    · simp only [he, hl, Bool.false_eq_true, if_false]
      by_cases hm : r.max ≤ (r.buf.compactTo r.base r.max).data.length
      · simp [hm, Buf.compactTo_lent, hl]
      · simp only [hm, if_false]
        exact RSide.fillStarted_nopanic _ k

theorem WSide.write_nopanic {w} (h : WInv w) (src : Bytes) :
    (w.write src).2 ≠ .panic ∧ (w.write src).1.buf.lent = w.buf.lent := by
  have := h.pend_le
  unfold WSide.write
  split
  · simp
  · split
    · simp
    · simp only
      split
      · split
        · omega
        · split
          · simp
          · simp [Buf.extend]
      · simp [Buf.extend]

theorem WSide.flushTail_nopanic (w : WSide) (snap : List Nat) (t : Nat) :
    (w.flushTail snap t).2.2 ≠ some .panic ∧ (w.flushTail snap t).1.buf.lent = w.buf.lent := by
  unfold WSide.flushTail
  split <;> simp

theorem WSide.afterFlushTo_nopanic (w : WSide) (snap : List Nat) (t : Nat) :
    (w.afterFlushTo snap t).2.2 ≠ some .panic ∧ (w.afterFlushTo snap t).1.buf.lent = w.buf.lent := by
  unfold WSide.afterFlushTo
  have := WSide.flushTail_nopanic ({ w with buf := w.buf.compactTo w.base w.max }) snap t
  simpa [Buf.compactTo_lent] using this

/-- what the state of a flush future guarantees about the buffer -/
def FutInv (w : WSide) : WFut → Prop
  | .idle => w.buf.lent = false
  | .writing _ => w.buf.lent = true ∧ w.buf.avail ≠ []
  | .flushing _ => w.buf.lent = false

theorem WSide.flushTail_futinv (w : WSide) (snap : List Nat) (t : Nat) (hl : w.buf.lent = false) :
    (w.flushTail snap t).2.2 ≠ some .panic ∧ FutInv (w.flushTail snap t).1 (w.flushTail snap t).2.1 := by
  unfold WSide.flushTail
  split <;> simp [FutInv, hl]

theorem WSide.afterFlushTo_futinv (w : WSide) (snap : List Nat) (t : Nat) (hl : w.buf.lent = false) :
    (w.afterFlushTo snap t).2.2 ≠ some .panic ∧ FutInv (w.afterFlushTo snap t).1 (w.afterFlushTo snap t).2.1 := by
  unfold WSide.afterFlushTo
  exact WSide.flushTail_futinv _ snap t (by simpa [Buf.compactTo_lent] using hl)

/-- the flush loop never panics on a buffer satisfying the invariant; afterwards the future state
and the buffer agree (`FutInv`) -/
theorem WSide.writeLoop_nopanic (snap : List Nat) : ∀ (script : List WItem) {w : WSide} (total : Nat), WInv w →
    w.buf.avail ≠ [] →
    (w.writeLoop snap total script).2.2 ≠ some .panic ∧
    FutInv (w.writeLoop snap total script).1 (w.writeLoop snap total script).2.1
  | [], w, total, h, hne => by
    unfold WSide.writeLoop
    have h0 : w.buf.avail.length ≠ 0 := by
      intro h0; exact hne (List.length_eq_zero_iff.mp h0)
    have hlen : w.buf.pos + w.buf.avail.length = w.buf.data.length := by
      have := h.pos_le; simp [Buf.avail]; omega
    rw [WSide.accepted_n_done _ _ _ _ h0 (by simpa using hlen) (by simpa using h.len_le)]
    simp only
    exact WSide.afterFlushTo_futinv _ snap _ (by simp [Buf.reset, WSide.afterSend])
  | .p :: rest, w, total, h, hne => by
    simp only [WSide.writeLoop]
    exact ⟨by simp, by simpa [FutInv, Buf.avail] using hne⟩
  | .e :: rest, w, total, h, _ => by simp [WSide.writeLoop, FutInv]
  | .w k :: rest, w, total, h, hne => by
    unfold WSide.writeLoop
    have hw : WInv { w with script := rest } := by cases h; constructor <;> simpa
    by_cases h0 : min k w.buf.avail.length = 0
    · rw [h0, WSide.accepted_n_zero]
      simp [WSide.afterSend, FutInv]
    · have hle : w.buf.pos + min k w.buf.avail.length ≤ w.buf.data.length := by
        have := h.pos_le; simp [Buf.avail]; omega
      by_cases hd : w.buf.pos + min k w.buf.avail.length = w.buf.data.length
      · rw [WSide.accepted_n_done _ _ _ _ h0 (by simpa using hd) (by simpa using h.len_le)]
        simp only
        exact WSide.afterFlushTo_futinv _ snap _ (by simp [Buf.reset, WSide.afterSend])
      · rw [WSide.accepted_n_more _ _ _ _ h0 (by simp only; omega) (by simpa using h.len_le)]
        simp only
        refine WSide.writeLoop_nopanic snap rest _ (hw.afterSend_adv _ (by simpa using hle)) ?_
        have hav : w.buf.avail.length = w.buf.data.length - w.buf.pos := by simp [Buf.avail]
        rw [hav] at hd hle
        simp only [Buf.avail, WSide.afterSend, WSide.wake_buf, ne_eq, List.drop_eq_nil_iff, Nat.not_le,
          List.length_drop]
        omega

theorem WSide.flushResume_nopanic {w} (h : WInv w) (snap : List Nat) (fut : WFut) (hf : FutInv w fut) :
    (w.flushResume snap fut).2.2 ≠ some .panic ∧ FutInv (w.flushResume snap fut).1 (w.flushResume snap fut).2.1 := by
  cases fut with
  | idle =>
    simp only [FutInv] at hf
    simp only [WSide.flushResume, WSide.flushBegin, hf, Bool.false_eq_true, if_false]
    split
    · exact WSide.afterFlushTo_futinv w snap 0 hf
    · rename_i hne
      exact WSide.writeLoop_nopanic snap w.script 0 h (by simpa using hne)
  | writing t => exact WSide.writeLoop_nopanic snap w.script t h hf.2
  | flushing t => exact WSide.flushTail_futinv w snap t hf

theorem WSide.flushDrive_nopanic : ∀ (k : Nat) {w : WSide} (fut : WFut), WInv w → FutInv w fut →
    (w.flushDrive fut k).2 ≠ some .panic ∧ ((w.flushDrive fut k).2 ≠ none → (w.flushDrive fut k).1.buf.lent = false)
  | 0, w, fut, _, _ => by simp [WSide.flushDrive]
  | k + 1, w, fut, h, hf => by
    unfold WSide.flushDrive
    have hp := WSide.flushResume_nopanic h [driverTask] fut hf
    have hi := (h.flushResume [driverTask] fut).1
    have hidle := WSide.flushResume_idle w [driverTask] fut
    rcases hq : w.flushResume [driverTask] fut with ⟨w', fut', o⟩
    rw [hq] at hp hi hidle
    cases o with
    | some res =>
      refine ⟨by simpa using hp.1, fun _ => ?_⟩
      have : fut' = .idle := hidle (by simp)
      have hf' := hp.2
      simp only at hf'
      rw [this] at hf'
      exact hf'
    | none => exact WSide.flushDrive_nopanic k fut' hi hp.2


/-- the caller's side of the contracts for one operation: `BufRead::consume(amt)` only with
`amt ≤` what `fill_buf` shows -/
def Contract (s : State) : Op → Prop
  | .consume n => n ≤ s.r.buf.avail.length
  | _ => True

/-- both buffers are in place (no future was dropped while Pending, no earlier panic) -/
def Intact (s : State) : Prop := s.r.buf.lent = false ∧ s.w.buf.lent = false

theorem step_nopanic {C s} (hi : Inv C s) (hl : Intact s) (op : Op) (hc : Contract s op) :
    (step s op).2 ≠ .panic ∧ ((step s op).2 ≠ .cancel → Intact (step s op).1) := by
  obtain ⟨hr, hw⟩ := hi
  have hr' := hr.clearObs
  have hw' := hw.clearObs
  have hlr : s.r.clearObs.buf.lent = false := hl.1
  have hlw : s.w.clearObs.buf.lent = false := hl.2
  unfold SyncStream.step
  simp only
  split
  · exact ⟨by simp, fun _ => hl⟩
  · cases op with
    | read n =>
      have := RSide.read_nopanic hr' n hlr
      rcases hq : s.r.clearObs.read n with ⟨r', res⟩
      rw [hq] at this
      cases res <;> simp_all [Out.ofBytes, Intact]
    | rbu n =>
      have := RSide.read_nopanic hr' n hlr
      rcases hq : s.r.clearObs.read n with ⟨r', res⟩
      rw [hq] at this
      cases res <;> simp_all [Out.ofBytes, Intact]
    | fillbuf =>
      refine ⟨?_, fun _ => ⟨hlr, hlw⟩⟩
      unfold RSide.fillBuf
      simp only [hlr, Bool.false_eq_true, if_false]
      split <;> simp [Out.ofBytes]
    | consume n =>
      have := RSide.consume_nopanic hr' n hlr (by simpa [Contract, RSide.clearObs] using hc)
      rcases hq : s.r.clearObs.consume n with ⟨r', res⟩
      rw [hq] at this
      cases res <;> simp_all [Out.ofBytes, Intact]
    | write bs =>
      have := WSide.write_nopanic hw' bs
      rcases hq : s.w.clearObs.write bs with ⟨w', res⟩
      rw [hq] at this
      cases res <;> simp_all [Out.ofNum, Intact]
    | flush => exact ⟨by simp, fun _ => ⟨hlr, hlw⟩⟩
    | fill k =>
      have := RSide.fill_nopanic s.r.clearObs k hlr
      rcases hq : s.r.clearObs.fill k with ⟨r', res⟩
      rw [hq] at this
      cases res with
      | none => simp [Out.ofDrive, hq]
      | some x => cases x <;> simp_all [Out.ofDrive, Out.ofNum, Intact]
    | wflush k =>
      have := WSide.flushDrive_nopanic k .idle hw' (by simpa [FutInv] using hlw)
      unfold WSide.flush
      rcases hq : s.w.clearObs.flushDrive .idle k with ⟨w', res⟩
      rw [hq] at this
      cases res with
      | none => simp [Out.ofDrive, hq]
      | some x => cases x <;> simp_all [Out.ofDrive, Out.ofNum, Intact]
    | st => exact ⟨by simp, fun _ => ⟨hlr, hlw⟩⟩
    | parts => exact ⟨by simp, fun _ => ⟨hlr, hlw⟩⟩

/-- a caller that keeps the `consume` contract and never drops a Pending `fill_read_buf` /
`flush_write_buf` future (no operation answers `cancel`) -/
def Disciplined : State → List Op → Prop
  | _, [] => True
  | s, op :: ops => Contract s op ∧ (step s op).2 ≠ .cancel ∧ Disciplined (step s op).1 ops

instance (s : State) (op : Op) : Decidable (Contract s op) := by
  cases op <;> unfold Contract <;> infer_instance

instance Disciplined.dec : (s : State) → (ops : List Op) → Decidable (Disciplined s ops)
  | _, [] => isTrue trivial
  | s, op :: ops => by
    unfold Disciplined
    exact @instDecidableAnd _ _ _ (@instDecidableAnd _ _ _ (Disciplined.dec _ ops))

theorem run_nopanic {C} : ∀ (ops : List Op) {s : State}, Inv C s → Intact s → Disciplined s ops →
    Out.panic ∉ (run s ops).2
  | [], s, _, _, _ => by simp [SyncStream.run]
  | op :: ops, s, hi, hl, hd => by
    simp only [SyncStream.run, List.mem_cons, not_or]
    have := step_nopanic hi hl op hd.1
    exact ⟨fun h => this.1 h.symm, run_nopanic ops (hi.step op) (this.2 hd.2.1) hd.2.2⟩


theorem WSide.write_futinv {w} (h : WInv w) (src : Bytes) (fut : WFut) (hf : FutInv w fut) :
    FutInv (w.write src).1 fut := by
  have hl := (WSide.write_nopanic h src).2
  cases fut with
  | idle => simpa [FutInv, hl] using hf
  | flushing t => simpa [FutInv, hl] using hf
  | writing t =>
    have : w.write src = (w, .err .wb) := by simp [WSide.write, hf.1]
    rw [this]; exact hf

theorem WSide.shutdownPoll_nopanic (w : WSide) (snap : List Nat) : (w.shutdownPoll snap).2 ≠ some .panic := by
  unfold WSide.shutdownPoll
  split <;> simp


theorem FutInv.of_buf_eq {w w' : WSide} {fut : WFut} (h : FutInv w fut) (hb : w'.buf = w.buf) : FutInv w' fut := by
  cases fut <;> simp_all [FutInv, Buf.avail]

/-- `write` answering WouldBlock changes nothing -/
theorem WSide.write_wb_same (w : WSide) (src : Bytes) (h : (w.write src).2 = .err .wb) : (w.write src).1 = w := by
  unfold WSide.write at h ⊢
  split at h
  · simp_all
  · split at h
    · simp_all
    · simp only at h
      split at h
      · split at h
        · simp at h
        · split at h
          · rename_i h1 h2 h3 h4 h5
            rw [if_neg h1, if_neg h2]
            simp only
            rw [if_pos h3, if_neg h4, if_pos h5]
          · simp at h
      · simp at h

/-- on an emptied buffer, with a positive limit, `write` accepts -/
theorem WSide.write_flushed_ok {w : WSide} (hf : Flushed w) (hl : w.buf.lent = false) (hm : 0 < w.max) (src : Bytes) :
    ∃ n, (w.write src).2 = .ok n := by
  obtain ⟨_, hd, hp⟩ := hf
  unfold WSide.write
  simp only [hl, hd, hp, List.length_nil, Bool.false_eq_true, if_false, ne_eq, not_true_eq_false, decide_false,
    Bool.and_false, Nat.sub_zero, Nat.zero_add, Nat.not_lt_zero]
  split
  · have : ¬ w.max = 0 := by omega
    simp only [this, if_false]
    exact ⟨_, rfl⟩
  · exact ⟨_, rfl⟩


/-! ### `max_buffer_size = 0` and the sticky state after a lost buffer: what the code does -/

theorem WSide.write_max0 {w : WSide} (h : WInv w) (hm : w.max = 0) {src : Bytes} (hs : src ≠ []) :
    w.write src = (w, .err .wb) := by
  have hp := h.pend_le
  have hlen : 0 < src.length := List.length_pos_iff.mpr hs
  unfold WSide.write
  split
  · rfl
  · split
    · rfl
    · simp only
      have h1 : w.max < w.buf.data.length - w.buf.pos + src.length := by omega
      have h2 : ¬ w.max < w.buf.data.length - w.buf.pos := by omega
      have h3 : w.max - (w.buf.data.length - w.buf.pos) = 0 := by omega
      rw [if_pos h1, if_neg h2, if_pos h3]

theorem RSide.fillStart_max0 {r : RSide} (hm : r.max = 0) (he : r.eof = false) (hl : r.buf.lent = false) :
    r.fillStart.2 = some (.err .oom) := by
  rw [RSide.fillStart_oom' he hl (by rw [hm]; exact Nat.zero_le _)]

theorem RSide.lost_sticky (r : RSide) (hl : r.buf.lent = true) (n k : Nat) :
    r.read n = (r, .err .wb) ∧ r.fillBuf = .err .wb ∧ r.consume n = (r, .panic) ∧ r.intoParts = [] ∧
    (r.eof = false → r.fill (k + 1) = (r, some .panic)) ∧ (r.eof = true → r.fill (k + 1) = (r, some (.ok 0))) := by
  refine ⟨by simp [RSide.read, RSide.fillBuf, hl], by simp [RSide.fillBuf, hl], RSide.consume_lent n hl,
    by simp [RSide.intoParts, hl], ?_, ?_⟩
  · intro he; simp [RSide.fill, RSide.fillStart, he, hl]
  · intro he; simp [RSide.fill, RSide.fillStart, he]

theorem WSide.lost_sticky (w : WSide) (hl : w.buf.lent = true) (src : Bytes) (k : Nat) :
    w.write src = (w, .err .wb) ∧ w.flush (k + 1) = (w, some .panic) ∧ w.hasPending = none := by
  refine ⟨by simp [WSide.write, hl], ?_, by simp [WSide.hasPending, hl]⟩
  simp [WSide.flush, WSide.flushDrive, WSide.flushResume, WSide.flushBegin, hl]

end Compio.SyncStream
