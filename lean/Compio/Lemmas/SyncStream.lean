/-
Helper lemmas for the C12 models: `Buffer` arithmetic, the read-half invariant `RInv`, the
write-half invariant `WInv`, and their preservation by every primitive of Model/SyncStream.lean.
-/
import Compio.Model.SyncStream

namespace Compio.SyncStream

/-! ### `Buf` -/

theorem Buf.compactTo_avail (b : Buf) (c m : Nat) (h : b.pos ≤ b.data.length) :
    (b.compactTo c m).avail = b.avail := by
  unfold Buf.compactTo Buf.avail
  split
  · simp
  · split
    · have : b.pos = b.data.length := by omega
      simp [this]
    · have : b.pos = 0 := by omega
      simp [this]

theorem Buf.compactTo_pos (b : Buf) (c m : Nat) : (b.compactTo c m).pos = 0 := by
  unfold Buf.compactTo
  split
  · rfl
  · split <;> rfl

theorem Buf.compactTo_lent (b : Buf) (c m : Nat) : (b.compactTo c m).lent = b.lent := by
  unfold Buf.compactTo
  split
  · rfl
  · split <;> rfl

theorem Buf.compactTo_cap_le (b : Buf) (c m : Nat) : (b.compactTo c m).cap ≤ b.cap := by
  unfold Buf.compactTo
  split
  · simp
  · split
    · simp only
      split
      · exact Nat.min_le_left _ _
      · exact Nat.le_refl _
    · simp

theorem Buf.compactTo_len_le (b : Buf) (c m : Nat) (h : b.data.length ≤ b.cap) :
    (b.compactTo c m).data.length ≤ (b.compactTo c m).cap := by
  unfold Buf.compactTo
  split
  · simp; omega
  · split
    · simp
    · simpa using h

theorem Buf.compactTo_len_eq_avail (b : Buf) (c m : Nat) (h : b.pos ≤ b.data.length) :
    (b.compactTo c m).data.length = b.data.length - b.pos := by
  unfold Buf.compactTo
  split
  · simp
  · split
    · simp; omega
    · have : b.pos = 0 := by omega
      simp [this]

theorem Buf.compactTo_data (b : Buf) (c m : Nat) (h : b.pos ≤ b.data.length) :
    (b.compactTo c m).data = b.avail := by
  have h1 := Buf.compactTo_avail b c m h
  have h2 := Buf.compactTo_pos b c m
  unfold Buf.avail at h1 ⊢
  rw [h2] at h1
  simpa using h1

theorem growCap_ge (len cap base : Nat) : cap ≤ growCap len cap base := by
  unfold growCap
  split
  · simp only
    split <;> omega
  · exact Nat.le_refl _

theorem growCap_le (len cap base : Nat) (h : len ≤ cap) : growCap len cap base ≤ max cap (len + base) := by
  unfold growCap
  split
  · simp only
    split <;> omega
  · omega

/-- with a positive base capacity the growth step always leaves room for at least one byte -/
theorem growCap_space (len cap base : Nat) (hb : 0 < base) (h : len ≤ cap) : len < growCap len cap base := by
  unfold growCap
  split
  · simp only
    split <;> omega
  · omega

theorem growAmortized_ge (len cap add : Nat) (h : len ≤ cap) : len + add ≤ growAmortized len cap add := by
  unfold growAmortized
  split <;> omega


/-! ### read half -/

/-- invariant of the read half; `C` is everything the inner reader delivers before its end -/
structure RInv (C : Bytes) (r : RSide) : Prop where
  fifo : r.delivered = r.taken ++ r.buf.avail
  pos_le : r.buf.pos ≤ r.buf.data.length
  len_le : r.buf.data.length ≤ r.buf.cap
  cap_le : r.buf.cap ≤ r.base + (r.max - 1)
  lent_space : 0 < r.base → r.buf.lent = true → r.buf.data.length < r.buf.cap
  eof_inner : 0 < r.base → r.eof = true → r.innerEof = true
  inner_eof : r.innerEof = true → r.eof = true
  cons : r.delivered ++ (if r.innerEof then [] else content r.script) = C

theorem RInv.new (base max : Nat) (rs : List RItem) : RInv (content rs) (RSide.new base max rs) := by
  constructor <;> simp [RSide.new, Buf.new, Buf.avail]

theorem RInv.clearObs {C r} (h : RInv C r) : RInv C r.clearObs := by
  cases h; constructor <;> simpa [RSide.clearObs]

theorem RInv.wake {C r} (h : RInv C r) : RInv C r.wake := by
  unfold RSide.wake
  split
  · cases h; constructor <;> simpa
  · exact h

@[simp] theorem RSide.wake_buf (r : RSide) : r.wake.buf = r.buf := by unfold RSide.wake; split <;> rfl
@[simp] theorem RSide.wake_eof (r : RSide) : r.wake.eof = r.eof := by unfold RSide.wake; split <;> rfl
@[simp] theorem RSide.wake_base (r : RSide) : r.wake.base = r.base := by unfold RSide.wake; split <;> rfl
@[simp] theorem RSide.wake_max (r : RSide) : r.wake.max = r.max := by unfold RSide.wake; split <;> rfl
@[simp] theorem RSide.wake_script (r : RSide) : r.wake.script = r.script := by unfold RSide.wake; split <;> rfl
@[simp] theorem RSide.wake_delivered (r : RSide) : r.wake.delivered = r.delivered := by unfold RSide.wake; split <;> rfl
@[simp] theorem RSide.wake_taken (r : RSide) : r.wake.taken = r.taken := by unfold RSide.wake; split <;> rfl
@[simp] theorem RSide.wake_innerEof (r : RSide) : r.wake.innerEof = r.innerEof := by unfold RSide.wake; split <;> rfl
@[simp] theorem RSide.wake_log (r : RSide) : r.wake.log = r.log := by unfold RSide.wake; split <;> rfl

theorem Buf.advance_panic {b : Buf} {amt : Nat} (h : b.cap < b.pos + amt) : b.advance amt = .panic := by
  simp [Buf.advance, h]

theorem Buf.advance_lost {b : Buf} {amt : Nat} (h1 : ¬ b.cap < b.pos + amt) (h2 : b.data.length < b.pos + amt) :
    b.advance amt = .lost := by
  simp [Buf.advance, h1, h2]

theorem Buf.advance_ok {b : Buf} {amt : Nat} (h1 : ¬ b.cap < b.pos + amt) (h2 : ¬ b.data.length < b.pos + amt) :
    b.advance amt = .ok { b with pos := b.pos + amt } (decide (b.data.length ≤ b.pos + amt)) := by
  simp [Buf.advance, h1, h2]

theorem RSide.consume_lent {r : RSide} (amt : Nat) (hl : r.buf.lent = true) : r.consume amt = (r, .panic) := by
  simp [RSide.consume, hl]

theorem RSide.consume_panic {r : RSide} {amt : Nat} (hl : r.buf.lent = false) (h1 : r.buf.cap < r.buf.pos + amt) :
    r.consume amt = (r, .panic) := by
  simp [RSide.consume, hl, Buf.advance_panic h1]

theorem RSide.consume_lost {r : RSide} {amt : Nat} (hl : r.buf.lent = false) (h1 : ¬ r.buf.cap < r.buf.pos + amt)
    (h2 : r.buf.data.length < r.buf.pos + amt) :
    r.consume amt = ({ r with buf := { r.buf with lent := true } }, .panic) := by
  simp [RSide.consume, hl, Buf.advance_lost h1 h2]

theorem RSide.consume_ok {r : RSide} {amt : Nat} (hl : r.buf.lent = false) (h1 : ¬ r.buf.cap < r.buf.pos + amt)
    (h2 : ¬ r.buf.data.length < r.buf.pos + amt) :
    r.consume amt =
      ({ r with buf := if r.buf.data.length ≤ r.buf.pos + amt
                        then ({ r.buf with pos := r.buf.pos + amt } : Buf).compactTo r.base r.max
                        else { r.buf with pos := r.buf.pos + amt },
                taken := r.taken ++ r.buf.avail.take amt }, .ok (r.buf.avail.take amt)) := by
  simp [RSide.consume, hl, Buf.advance_ok h1 h2]

/-- `consume` keeps the invariant -/
theorem RInv.consume {C r} (h : RInv C r) (amt : Nat) : RInv C (r.consume amt).1 := by
  by_cases hl : r.buf.lent = true
  · rw [RSide.consume_lent amt hl]; exact h
  · have hl : r.buf.lent = false := by simpa using hl
    by_cases h1 : r.buf.cap < r.buf.pos + amt
    · rw [RSide.consume_panic hl h1]; exact h
    · by_cases h2 : r.buf.data.length < r.buf.pos + amt
      · rw [RSide.consume_lost hl h1 h2]
        cases h
        constructor <;> simp_all [Buf.avail]
        intro _; omega
      · rw [RSide.consume_ok hl h1 h2]
        have hp : r.buf.pos + amt ≤ r.buf.data.length := by omega
        obtain ⟨fifo, pos_le, len_le, cap_le, lent_space, eof_inner, inner_eof, cons⟩ := h
        have hav : ({ r.buf with pos := r.buf.pos + amt } : Buf).avail = r.buf.avail.drop amt := by
          simp [Buf.avail, List.drop_drop, Nat.add_comm]
        have hfifo : r.delivered = r.taken ++ r.buf.avail.take amt ++ r.buf.avail.drop amt := by
          rw [List.append_assoc, List.take_append_drop]; exact fifo
        by_cases hd : r.buf.data.length ≤ r.buf.pos + amt
        · -- compaction
          simp only [hd, if_true]
          constructor
          · simp only
            rw [Buf.compactTo_avail _ _ _ (by simpa using hp), hav]; exact hfifo
          · simp [Buf.compactTo_pos]
          · exact Buf.compactTo_len_le _ _ _ (by simpa using len_le)
          · exact Nat.le_trans (Buf.compactTo_cap_le _ _ _) (by simpa using cap_le)
          · intro hb hl'
            simp only [Buf.compactTo_lent] at hl'
            simp_all
          · simpa using eof_inner
          · simpa using inner_eof
          · simpa using cons
        · simp only [hd, if_false]
          constructor
          · simp only; rw [hav]; exact hfifo
          · simpa using hp
          · simpa using len_le
          · simpa using cap_le
          · intro hb hl'; simp_all
          · simpa using eof_inner
          · simpa using inner_eof
          · simpa using cons

theorem RInv.read {C r} (h : RInv C r) (n : Nat) : RInv C (r.read n).1 := by
  unfold RSide.read
  split
  · exact h.consume _
  · exact h
  · exact h

end Compio.SyncStream
