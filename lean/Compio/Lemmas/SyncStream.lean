/-
Helper lemmas for the C12 models: `Buffer` arithmetic, the read-half invariant `RInv`, the
write-half invariant `WInv`, and their preservation by every primitive of Model/SyncStream.lean.
-/
import Compio.Model.SyncStream

namespace Compio.SyncStream

/-! ### `Buf` -/

theorem Buf.compactTo_avail (b : Buf) (c m : Nat) (h : b.pos ≤ b.data.length) :
    (b.compactTo c m).avail = b.avail := by
  unfold Buf.compactTo Buf.avail
  split
  · simp
  · split
    · have : b.pos = b.data.length := by omega
      simp [this]
    · have : b.pos = 0 := by omega
      simp [this]

theorem Buf.compactTo_pos (b : Buf) (c m : Nat) : (b.compactTo c m).pos = 0 := by
  unfold Buf.compactTo
  split
  · rfl
  · split <;> rfl

theorem Buf.compactTo_lent (b : Buf) (c m : Nat) : (b.compactTo c m).lent = b.lent := by
  unfold Buf.compactTo
  split
  · rfl
  · split <;> rfl

theorem Buf.compactTo_cap_le (b : Buf) (c m : Nat) : (b.compactTo c m).cap ≤ b.cap := by
  unfold Buf.compactTo
  split
  · simp
  · split
    · simp only
      split
      · exact Nat.min_le_left _ _
      · exact Nat.le_refl _
    · simp

theorem Buf.compactTo_len_le (b : Buf) (c m : Nat) (h : b.data.length ≤ b.cap) :
    (b.compactTo c m).data.length ≤ (b.compactTo c m).cap := by
  unfold Buf.compactTo
  split
  · simp; omega
  · split
    · simp
    · simpa using h

theorem Buf.compactTo_len_eq_avail (b : Buf) (c m : Nat) (h : b.pos ≤ b.data.length) :
    (b.compactTo c m).data.length = b.data.length - b.pos := by
  unfold Buf.compactTo
  split
  · simp
  · split
    · simp; omega
    · have : b.pos = 0 := by omega
      simp [this]

theorem Buf.compactTo_data (b : Buf) (c m : Nat) (h : b.pos ≤ b.data.length) :
    (b.compactTo c m).data = b.avail := by
  have h1 := Buf.compactTo_avail b c m h
  have h2 := Buf.compactTo_pos b c m
  unfold Buf.avail at h1 ⊢
  rw [h2] at h1
  simpa using h1

theorem growCap_ge (len cap base : Nat) : cap ≤ growCap len cap base := by
  unfold growCap
  split
  · simp only
    split <;> omega
  · exact Nat.le_refl _

theorem growCap_le (len cap base : Nat) (h : len ≤ cap) : growCap len cap base ≤ max cap (len + base) := by
  unfold growCap
  split
  · simp only
    split <;> omega
  · omega

/-- with a positive base capacity the growth step always leaves room for at least one byte -/
theorem growCap_space (len cap base : Nat) (hb : 0 < base) (h : len ≤ cap) : len < growCap len cap base := by
  unfold growCap
  split
  · simp only
    split <;> omega
  · omega

theorem growAmortized_ge (len cap add : Nat) (h : len ≤ cap) : len + add ≤ growAmortized len cap add := by
  unfold growAmortized
  split <;> omega


/-! ### read half -/

/-- invariant of the read half; `C` is everything the inner reader delivers before its end -/
structure RInv (C : Bytes) (r : RSide) : Prop where
  fifo : r.delivered = r.taken ++ r.buf.avail
  pos_le : r.buf.pos ≤ r.buf.data.length
  len_le : r.buf.data.length ≤ r.buf.cap
  cap_le : r.buf.cap ≤ r.base + (r.max - 1)
  lent_space : 0 < r.base → r.buf.lent = true → r.buf.data.length < r.buf.cap
  eof_inner : 0 < r.base → r.eof = true → r.innerEof = true
  inner_eof : r.innerEof = true → r.eof = true
  cons : r.delivered ++ (if r.innerEof then [] else content r.script) = C

theorem RInv.new (base max : Nat) (rs : List RItem) : RInv (content rs) (RSide.new base max rs) := by
  constructor <;> simp [RSide.new, Buf.new, Buf.avail]

theorem RInv.clearObs {C r} (h : RInv C r) : RInv C r.clearObs := by
  cases h; constructor <;> simpa [RSide.clearObs]

theorem RInv.wake {C r} (h : RInv C r) : RInv C r.wake := by
  unfold RSide.wake
  split
  · cases h; constructor <;> simpa
  · exact h

@[simp] theorem RSide.wake_buf (r : RSide) : r.wake.buf = r.buf := by unfold RSide.wake; split <;> rfl
@[simp] theorem RSide.wake_eof (r : RSide) : r.wake.eof = r.eof := by unfold RSide.wake; split <;> rfl
@[simp] theorem RSide.wake_base (r : RSide) : r.wake.base = r.base := by unfold RSide.wake; split <;> rfl
@[simp] theorem RSide.wake_max (r : RSide) : r.wake.max = r.max := by unfold RSide.wake; split <;> rfl
@[simp] theorem RSide.wake_script (r : RSide) : r.wake.script = r.script := by unfold RSide.wake; split <;> rfl
@[simp] theorem RSide.wake_delivered (r : RSide) : r.wake.delivered = r.delivered := by unfold RSide.wake; split <;> rfl
@[simp] theorem RSide.wake_taken (r : RSide) : r.wake.taken = r.taken := by unfold RSide.wake; split <;> rfl
@[simp] theorem RSide.wake_innerEof (r : RSide) : r.wake.innerEof = r.innerEof := by unfold RSide.wake; split <;> rfl
@[simp] theorem RSide.wake_log (r : RSide) : r.wake.log = r.log := by unfold RSide.wake; split <;> rfl

theorem Buf.advance_panic {b : Buf} {amt : Nat} (h : b.cap < b.pos + amt) : b.advance amt = .panic := by
  simp [Buf.advance, h]

theorem Buf.advance_lost {b : Buf} {amt : Nat} (h1 : ¬ b.cap < b.pos + amt) (h2 : b.data.length < b.pos + amt) :
    b.advance amt = .lost := by
  simp [Buf.advance, h1, h2]

theorem Buf.advance_ok {b : Buf} {amt : Nat} (h1 : ¬ b.cap < b.pos + amt) (h2 : ¬ b.data.length < b.pos + amt) :
    b.advance amt = .ok { b with pos := b.pos + amt } (decide (b.data.length ≤ b.pos + amt)) := by
  simp [Buf.advance, h1, h2]

theorem RSide.consume_lent {r : RSide} (amt : Nat) (hl : r.buf.lent = true) : r.consume amt = (r, .panic) := by
  simp [RSide.consume, hl]

theorem RSide.consume_panic {r : RSide} {amt : Nat} (hl : r.buf.lent = false) (h1 : r.buf.cap < r.buf.pos + amt) :
    r.consume amt = (r, .panic) := by
  simp [RSide.consume, hl, Buf.advance_panic h1]

theorem RSide.consume_lost {r : RSide} {amt : Nat} (hl : r.buf.lent = false) (h1 : ¬ r.buf.cap < r.buf.pos + amt)
    (h2 : r.buf.data.length < r.buf.pos + amt) :
    r.consume amt = ({ r with buf := { r.buf with lent := true } }, .panic) := by
  simp [RSide.consume, hl, Buf.advance_lost h1 h2]

theorem RSide.consume_ok {r : RSide} {amt : Nat} (hl : r.buf.lent = false) (h1 : ¬ r.buf.cap < r.buf.pos + amt)
    (h2 : ¬ r.buf.data.length < r.buf.pos + amt) :
    r.consume amt =
      ({ r with buf := if r.buf.data.length ≤ r.buf.pos + amt
                        then ({ r.buf with pos := r.buf.pos + amt } : Buf).compactTo r.base r.max
                        else { r.buf with pos := r.buf.pos + amt },
                taken := r.taken ++ r.buf.avail.take amt }, .ok (r.buf.avail.take amt)) := by
  simp [RSide.consume, hl, Buf.advance_ok h1 h2]

/-- `consume` keeps the invariant -/
theorem RInv.consume {C r} (h : RInv C r) (amt : Nat) : RInv C (r.consume amt).1 := by
  by_cases hl : r.buf.lent = true
  · rw [RSide.consume_lent amt hl]; exact h
  · have hl : r.buf.lent = false := by simpa using hl
    by_cases h1 : r.buf.cap < r.buf.pos + amt
    · rw [RSide.consume_panic hl h1]; exact h
    · by_cases h2 : r.buf.data.length < r.buf.pos + amt
      · rw [RSide.consume_lost hl h1 h2]
        cases h
        constructor <;> simp_all [Buf.avail]
        intro _; omega
      · rw [RSide.consume_ok hl h1 h2]
        have hp : r.buf.pos + amt ≤ r.buf.data.length := by omega
        obtain ⟨fifo, pos_le, len_le, cap_le, lent_space, eof_inner, inner_eof, cons⟩ := h
        have hav : ({ r.buf with pos := r.buf.pos + amt } : Buf).avail = r.buf.avail.drop amt := by
          simp [Buf.avail, List.drop_drop, Nat.add_comm]
        have hfifo : r.delivered = r.taken ++ r.buf.avail.take amt ++ r.buf.avail.drop amt := by
          rw [List.append_assoc, List.take_append_drop]; exact fifo
        by_cases hd : r.buf.data.length ≤ r.buf.pos + amt
        · -- compaction
          simp only [hd, if_true]
          constructor
          · simp only
            rw [Buf.compactTo_avail _ _ _ (by simpa using hp), hav]; exact hfifo
          · simp [Buf.compactTo_pos]
          · exact Buf.compactTo_len_le _ _ _ (by simpa using len_le)
          · exact Nat.le_trans (Buf.compactTo_cap_le _ _ _) (by simpa using cap_le)
          · intro hb hl'
            simp only [Buf.compactTo_lent] at hl'
            simp_all
          · simpa using eof_inner
          · simpa using inner_eof
          · simpa using cons
        · simp only [hd, if_false]
          constructor
          · simp only; rw [hav]; exact hfifo
          · simpa using hp
          · simpa using len_le
          · simpa using cap_le
          · intro hb hl'; simp_all
          · simpa using eof_inner
          · simpa using inner_eof
          · simpa using cons

theorem RInv.read {C r} (h : RInv C r) (n : Nat) : RInv C (r.read n).1 := by
  unfold RSide.read
  split
  · exact h.consume _
  · exact h
  · exact h


theorem RInv.fillStart {C r} (h : RInv C r) : RInv C r.fillStart.1 := by
  unfold RSide.fillStart
  by_cases he : r.eof = true
  · simpa [he] using h
  · by_cases hl : r.buf.lent = true
    · simpa [he, hl] using h
    · simp only [he, hl, if_false, Bool.false_eq_true]
      obtain ⟨fifo, pos_le, len_le, cap_le, lent_space, eof_inner, inner_eof, cons⟩ := h
      by_cases hm : r.max ≤ (r.buf.compactTo r.base r.max).data.length
      · simp only [hm, if_true]
        constructor
        · simp only; rw [Buf.compactTo_avail _ _ _ pos_le]; exact fifo
        · simp [Buf.compactTo_pos]
        · exact Buf.compactTo_len_le _ _ _ len_le
        · exact Nat.le_trans (Buf.compactTo_cap_le _ _ _) cap_le
        · intro hb hl'
          simp only [Buf.compactTo_lent] at hl'
          simp_all
        · simp_all
        · simp_all
        · simpa using cons
      · simp only [hm, if_false]
        have hlen := Buf.compactTo_len_le r.buf r.base r.max len_le
        have hcap := Buf.compactTo_cap_le r.buf r.base r.max
        constructor
        · simp only
          have := Buf.compactTo_avail r.buf r.base r.max pos_le
          simp only [Buf.avail] at this ⊢
          rw [this]; exact fifo
        · simp [Buf.compactTo_pos]
        · exact Nat.le_trans hlen (growCap_ge _ _ _)
        · have := growCap_le (r.buf.compactTo r.base r.max).data.length (r.buf.compactTo r.base r.max).cap r.base hlen
          simp only
          omega
        · intro hb _
          exact growCap_space _ _ _ hb hlen
        · simp_all
        · simp_all
        · simpa using cons

/-- a started `fill_read_buf` has not seen EOF and owns the buffer -/
theorem RSide.fillStart_started {r r' : RSide} (h : r.fillStart = (r', none)) :
    r'.eof = false ∧ r'.buf.lent = true := by
  unfold RSide.fillStart at h
  by_cases he : r.eof = true
  · simp [he] at h
  · by_cases hl : r.buf.lent = true
    · simp [he, hl] at h
    · simp only [he, hl, if_false, Bool.false_eq_true] at h
      by_cases hm : r.max ≤ (r.buf.compactTo r.base r.max).data.length
      · simp [hm] at h
      · simp only [hm, if_false, Prod.mk.injEq, and_true] at h
        subst h
        simp


theorem RInv.fillPoll {C r} (h : RInv C r) (snap : List Nat) (he : r.eof = false) (hl : r.buf.lent = true) :
    RInv C (r.fillPoll snap).1 := by
  have hie : r.innerEof = false := by
    cases hi : r.innerEof
    · rfl
    · have := h.inner_eof hi; simp_all
  obtain ⟨fifo, pos_le, len_le, cap_le, lent_space, eof_inner, inner_eof, cons⟩ := h
  unfold RSide.fillPoll
  split
  · -- Pending
    rename_i rest hs
    constructor <;> simp_all [content, Buf.avail]
  · -- error
    rename_i rest hs
    constructor <;> simp_all [content, Buf.avail]
  · -- data
    rename_i bs rest hs
    simp only [RSide.wake_buf, RSide.wake_delivered, RSide.wake_eof, RSide.wake_innerEof, RSide.wake_log]
    constructor
    · simp only [RSide.wake_taken, Buf.avail]
      rw [List.drop_append_of_le_length pos_le, ← List.append_assoc, ← Buf.avail, ← fifo]
    · simp; omega
    · simp; omega
    · simpa using cap_le
    · intro _ hf; simp at hf
    · intro hb
      simp only [RSide.wake_base] at hb
      have hsp := lent_space hb hl
      simp only [he, hie, Bool.false_or, beq_iff_eq, List.isEmpty_iff]
      intro hn
      have : bs.length = 0 := by omega
      exact List.length_eq_zero_iff.mp this
    · simp only [hie, he, Bool.false_or, List.isEmpty_iff, beq_iff_eq]
      intro hb; simp [hb]
    · simp only [hie, Bool.false_or]
      rw [hs] at cons
      simp only [hie, content, Bool.false_eq_true, if_false] at cons
      by_cases hbs : bs.isEmpty = true
      · simp only [hbs, if_true] at cons ⊢
        have : bs = [] := List.isEmpty_iff.mp hbs
        subst this
        simpa using cons
      · simp only [hbs, if_false, Bool.false_eq_true] at cons ⊢
        rw [← cons]
        by_cases hn : min bs.length (r.buf.cap - r.buf.data.length) < bs.length
        · have hne : (List.drop (min bs.length (r.buf.cap - r.buf.data.length)) bs).isEmpty = false := by
            simp only [List.isEmpty_eq_false_iff, ne_eq, List.drop_eq_nil_iff, Nat.not_le]
            exact hn
          simp only [hn, if_true, content, hne, Bool.false_eq_true, if_false]
          simp only [List.append_assoc]
          rw [← List.append_assoc (List.take _ bs), List.take_append_drop]
        · have : bs.length ≤ min bs.length (r.buf.cap - r.buf.data.length) := by omega
          simp only [hn, if_false, List.take_of_length_le this, List.append_assoc]
  · -- Ok(0)
    rename_i rest hs
    constructor <;> simp_all [content, Buf.avail]
  · rename_i hs
    constructor <;> simp_all [content, Buf.avail]

/-- a poll that returns Pending leaves the future started -/
theorem RSide.fillPoll_pending {r r' : RSide} {snap : List Nat} (h : r.fillPoll snap = (r', none)) :
    r'.eof = r.eof ∧ r'.buf = r.buf := by
  unfold RSide.fillPoll at h
  split at h <;> simp at h
  subst h
  simp

theorem RInv.fillDrive {C} (snapless : Unit) : ∀ (k : Nat) {r : RSide}, RInv C r → r.eof = false → r.buf.lent = true →
    RInv C (r.fillDrive k).1
  | 0, r, h, _, _ => by simpa [RSide.fillDrive] using h
  | k + 1, r, h, he, hl => by
    unfold RSide.fillDrive
    have hp := h.fillPoll [driverTask] he hl
    cases hq : r.fillPoll [driverTask] with
    | mk r' o =>
      rw [hq] at hp
      cases o with
      | some res => simpa using hp
      | none =>
        simp only
        have := RSide.fillPoll_pending hq
        exact RInv.fillDrive snapless k hp (by rw [this.1]; exact he) (by rw [this.2]; exact hl)

theorem RInv.fill {C r} (h : RInv C r) (budget : Nat) : RInv C (r.fill budget).1 := by
  unfold RSide.fill
  cases budget with
  | zero => simpa using h
  | succ k =>
    simp only
    have hs := h.fillStart
    cases hq : r.fillStart with
    | mk r' o =>
      rw [hq] at hs
      cases o with
      | some res => simpa using hs
      | none =>
        simp only
        obtain ⟨he, hl⟩ := RSide.fillStart_started hq
        have hp := hs.fillPoll [driverTask] he hl
        cases hq2 : r'.fillPoll [driverTask] with
        | mk r'' o2 =>
          rw [hq2] at hp
          cases o2 with
          | some res => simpa using hp
          | none =>
            simp only
            have := RSide.fillPoll_pending hq2
            exact RInv.fillDrive () k hp (by rw [this.1]; exact he) (by rw [this.2]; exact hl)


/-! ### write half -/

structure WInv (w : WSide) : Prop where
  fifo : w.accepted = w.sent ++ w.buf.avail
  pos_le : w.buf.pos ≤ w.buf.data.length
  pend_le : w.buf.data.length ≤ w.max + w.buf.pos
  len_le : w.buf.data.length ≤ w.buf.cap

theorem WInv.new (base max : Nat) (ws : List WItem) : WInv (WSide.new base max ws) := by
  constructor <;> simp [WSide.new, Buf.new, Buf.avail]

theorem WInv.clearObs {w} (h : WInv w) : WInv w.clearObs := by
  cases h; constructor <;> simpa [WSide.clearObs]

@[simp] theorem WSide.wake_buf (w : WSide) : w.wake.buf = w.buf := by unfold WSide.wake; split <;> rfl
@[simp] theorem WSide.wake_base (w : WSide) : w.wake.base = w.base := by unfold WSide.wake; split <;> rfl
@[simp] theorem WSide.wake_max (w : WSide) : w.wake.max = w.max := by unfold WSide.wake; split <;> rfl
@[simp] theorem WSide.wake_script (w : WSide) : w.wake.script = w.script := by unfold WSide.wake; split <;> rfl
@[simp] theorem WSide.wake_sent (w : WSide) : w.wake.sent = w.sent := by unfold WSide.wake; split <;> rfl
@[simp] theorem WSide.wake_accepted (w : WSide) : w.wake.accepted = w.accepted := by unfold WSide.wake; split <;> rfl
@[simp] theorem WSide.wake_log (w : WSide) : w.wake.log = w.log := by unfold WSide.wake; split <;> rfl

theorem WInv.wake {w} (h : WInv w) : WInv w.wake := by
  cases h; constructor <;> simpa

theorem Buf.extend_avail (b : Buf) (src : Bytes) (h : b.pos ≤ b.data.length) :
    (b.extend src).avail = b.avail ++ src := by
  simp [Buf.extend, Buf.avail, List.drop_append_of_le_length h]

theorem WInv.extend {w : WSide} (h : WInv w) (part : Bytes)
    (hp : w.buf.data.length - w.buf.pos + part.length ≤ w.max) :
    WInv { w with buf := w.buf.extend part, accepted := w.accepted ++ part } := by
  obtain ⟨fifo, pos_le, pend_le, len_le⟩ := h
  constructor
  · simp only; rw [Buf.extend_avail _ _ pos_le, fifo, List.append_assoc]
  · simp [Buf.extend]; omega
  · simp [Buf.extend]; omega
  · simp only [Buf.extend, List.length_append]
    exact growAmortized_ge _ _ _ len_le

theorem WInv.write {w} (h : WInv w) (src : Bytes) : WInv (w.write src).1 := by
  unfold WSide.write
  split
  · exact h
  · split
    · exact h
    · simp only
      split
      · split
        · cases h; constructor <;> simpa [Buf.avail]
        · split
          · exact h
          · apply h.extend
            simp only [List.length_take]
            omega
      · apply h.extend
        omega

/-- what `write` accepts is what it reports -/
theorem WSide.write_accepted (w : WSide) (src : Bytes) :
    (w.write src).1.accepted = w.accepted ++ (match (w.write src).2 with | .ok n => src.take n | _ => []) := by
  unfold WSide.write
  split
  · simp
  · split
    · simp
    · simp only
      split
      · split
        · simp
        · split
          · simp
          · simp
      · simp

theorem WInv.flushTail {w} (h : WInv w) (snap : List Nat) (t : Nat) : WInv (w.flushTail snap t).1 := by
  unfold WSide.flushTail
  split <;> (cases h; constructor <;> simpa)

theorem WSide.flushTail_same (w : WSide) (snap : List Nat) (t : Nat) :
    (w.flushTail snap t).1.buf = w.buf ∧ (w.flushTail snap t).1.sent = w.sent ∧
    (w.flushTail snap t).1.accepted = w.accepted ∧ (w.flushTail snap t).1.max = w.max ∧
    (w.flushTail snap t).1.base = w.base := by
  unfold WSide.flushTail
  split <;> simp

theorem WInv.compact {w} (h : WInv w) : WInv { w with buf := w.buf.compactTo w.base w.max } := by
  obtain ⟨fifo, pos_le, pend_le, len_le⟩ := h
  constructor
  · simp only; rw [Buf.compactTo_avail _ _ _ pos_le]; exact fifo
  · simp [Buf.compactTo_pos]
  · simp only [Buf.compactTo_pos, Buf.compactTo_len_eq_avail _ _ _ pos_le]; omega
  · exact Buf.compactTo_len_le _ _ _ len_le

theorem WInv.afterFlushTo {w} (h : WInv w) (snap : List Nat) (t : Nat) : WInv (w.afterFlushTo snap t).1 := by
  unfold WSide.afterFlushTo
  exact h.compact.flushTail snap t

end Compio.SyncStream
