/-
More invariants of Model/Actor.lean: calls (every issued call sits in exactly one place; a reply comes from a
handler), exit reasons, and the deterministic continuation of the actor task (progress).
-/
import Compio.Lemmas.Actor

namespace Compio.Actor
set_option linter.unusedSimpArgs false
set_option linter.unusedVariables false

/-! ### (Ca) every issued call is in exactly one place -/

def callCount (l : List Item) : Nat := (l.filter (·.call)).length

@[simp] theorem callCount_nil : callCount [] = 0 := rfl

@[simp] theorem callCount_append (a b : List Item) : callCount (a ++ b) = callCount a + callCount b := by
  simp [callCount]

@[simp] theorem callCount_cons (it : Item) (l : List Item) :
    callCount (it :: l) = (if it.call then 1 else 0) + callCount l := by
  unfold callCount
  by_cases h : it.call <;> simp [List.filter_cons, h] <;> omega

theorem callCount_erase (l : List Item) (it : Item) (h : it ∈ l) :
    callCount (l.erase it) + (if it.call then 1 else 0) = callCount l := by
  induction l with
  | nil => simp at h
  | cons a l ih =>
    by_cases hEq : a = it
    · subst hEq; simp; omega
    · have hm : it ∈ l := by
        cases h with
        | head => exact absurd rfl hEq
        | tail _ h => exact h
      have hne : (a == it) = false := by simpa using hEq
      rw [List.erase_cons, hne]
      simp only [Bool.false_eq_true, if_false, callCount_cons]
      have := ih hm
      omega

theorem dropCalls_length (q : List Item) : (dropCalls q).length = callCount q := by
  simp [dropCalls, callCount]

theorem resolve_length (s : St) (it : Item) (r : Res) :
    (s.resolve it r).resolved.length = s.resolved.length + (if it.call then 1 else 0) := by
  rw [resolve_resolved]; split <;> simp

/-- the call being handled and not yet answered -/
def inHand : Pc → Nat
  | .handling it false => if it.call then 1 else 0
  | _ => 0

def InvCa (s : St) : Prop :=
  s.issued = s.resolved.length + (if s.chanAlive then callCount s.queue else 0) + callCount s.inflight + inHand s.pc

theorem invCa_init (cap : Nat) (named : Bool) : InvCa (St.init cap named) := by
  simp [InvCa, St.init, inHand]

theorem invCa_step (s : St) (e : Ev) (s' : St) (hr : InvR s) (hi : InvCa s) (h : step s e = some s') :
    InvCa s' := by
  unfold InvCa at *
  have hchan := hr.chan
  cases e with
  | sendPush it =>
    simp only [step] at h
    split at h
    · rename_i hmem
      have he := callCount_erase s.inflight it hmem
      by_cases hc : s.chanAlive = true
      · step_cases h <;> simp_all [resolve_length] <;> (try split) <;> simp_all <;> omega
      · simp only [Bool.not_eq_true] at hc
        have := (hchan hc).2.1
        simp [this] at hmem
    · cases h
  | dropSenders =>
    simp only [step] at h
    step_cases h <;> simp_all [dropCalls_length, inHand] <;> omega
  | pollMsg =>
    simp only [step] at h
    by_cases hc : s.chanAlive = true
    · step_cases h <;> simp_all [St.obs, inHand] <;> (try split) <;> simp_all <;> omega
    · simp only [Bool.not_eq_true] at hc
      have := (hchan hc).1
      step_cases h <;> simp_all [Pc.terminal]
  | handlerEnd ok =>
    simp only [step] at h
    step_cases h <;> simp_all [St.obs, inHand, resolve_length] <;> (try split) <;> simp_all <;> omega
  | sendCheck it =>
    simp only [step] at h
    step_cases h <;> simp_all [St.obs, inHand, resolve_length] <;> (try split) <;> simp_all <;> omega
  | reply v =>
    simp only [step] at h
    step_cases h <;> simp_all [St.obs, inHand] <;> omega
  | _ =>
    simp only [step] at h
    step_cases h <;> simp_all [St.obs, inHand]

/-! ### (Re) an answer comes from the handler of that very call -/

structure InvRe (s : St) : Prop where
  cur : ∀ it r, s.pc = .handling it r → it.id ∈ s.handled
  reply : ∀ c v, (c, Res.reply v) ∈ s.resolved → c ∈ s.handled
  noReply : ∀ c, (c, Res.noReply) ∈ s.resolved → c ∈ s.handled ∨ s.chanAlive = false

theorem invRe_init (cap : Nat) (named : Bool) : InvRe (St.init cap named) := by
  constructor <;> simp [St.init]

theorem invRe_step (s : St) (e : Ev) (s' : St) (hi : InvRe s) (h : step s e = some s') : InvRe s' := by
  obtain ⟨h1, h2, h3⟩ := hi
  cases e <;> simp only [step] at h <;> step_cases h <;>
    (constructor <;> simp_all [St.obs, resolve_resolved, dropCalls] <;> grind)

/-! ### (X) why an actor stops: `Stopped` needs a consumed stop request (or a dropped spawn future) -/

def Pc.exit? : Pc → Option Exit
  | .finBegin e | .finPreStop e | .finDropRx e | .finPostStop e | .finRelease e | .finNotify e | .exited e => some e
  | _ => none

def InvX (s : St) : Prop := s.pc.exit? = some .stopped → s.stopConsumed = true ∨ s.detached = true

theorem invX_init (cap : Nat) (named : Bool) : InvX (St.init cap named) := by
  simp [InvX, St.init, Pc.exit?]

theorem invX_step (s : St) (e : Ev) (s' : St) (hi : InvX s) (h : step s e = some s') : InvX s' := by
  unfold InvX at *
  cases e <;> simp only [step] at h <;> step_cases h <;>
    simp_all [St.obs, Pc.exit?, Exit.orFail] <;> (try split at * ) <;> simp_all

end Compio.Actor
