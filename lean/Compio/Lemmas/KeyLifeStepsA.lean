/-
`Inv` is preserved by the events of the key life-cycle LTS that are not handled in Lemmas/KeyLifeSteps.lean:
pushes that do not touch the registry, pop, tokens, submit / poll, kernel posts, pool completions and the
driver's `Drop`.
-/
import Compio.Lemmas.KeyLifeSteps

namespace Compio.KeyLife

open Compio.PollQueues

/-! ### frames -/

/-- nothing that `Inv` reads changes -/
theorem inv_frame {c : Cfg} {s s' : State} (hi : Inv c s)
    (hops : s'.ops = s.ops) (hdrv : s'.drv = s.drv) (hring : s'.ring = s.ring) (hreg : s'.reg = s.reg)
    (halive : s'.alive = s.alive) (hpc : s'.dropPc = s.dropPc) (hch : s'.chanOpen = s.chanOpen) :
    Inv c s' := by
  obtain ⟨a, b, c1, d, e, f, g⟩ := hi
  constructor
  · rw [hops, hdrv, hring, hreg]; exact a
  · rw [hops, hreg]; exact b
  · rw [hdrv, hreg]; exact c1
  · rw [halive, hring, hpc, hch]; exact d
  · rw [hops, hdrv, hring, halive, hpc, hch]; exact e
  · rw [hops, hreg, halive, hpc, hch]; exact f
  · rw [hops, hch]; exact g

/-- the id of the next op is in no fd queue -/
theorem qcount_new {c : Cfg} {s : State} (hi : Inv c s) (o : Op) (hid : o.id = s.ops.length) :
    qcount s.reg o = 0 := by
  unfold qcount
  apply List.count_eq_zero.mpr
  intro hm
  obtain ⟨x, hx, _⟩ := hi.qmem _ _ _ hm
  have := (List.getElem?_eq_some_iff.mp hx).1
  omega

/-! ### caller-side events on one op -/

theorem inv_userPop {c : Cfg} {s s' : State} {id : Nat} (hi : Inv c s)
    (h : step c s (.userPop id) = some s') : Inv c s' := by
  simp only [step] at h
  split at h
  · rename_i o ho
    split at h
    · rename_i hg
      split at h
      · split at h
        · rename_i hrc
          obtain rfl := Option.some.inj h
          refine inv_modAt hi id _ rfl rfl rfl rfl rfl rfl rfl
            (keeps_congr (fun _ => rfl) (fun _ => rfl) (fun _ => rfl) (fun _ => rfl) (fun _ => rfl) (fun _ => rfl)) ?_
          intro o' ho' ok
          rw [ho] at ho'; obtain rfl := Option.some.inj ho'
          exact ok_takeResult ok hg.2 hrc o.cancelled
        · obtain rfl := Option.some.inj h
          refine inv_modAt hi id _ rfl rfl rfl rfl rfl rfl rfl keeps_userDrop ?_
          intro o' ho' ok
          rw [ho] at ho'; obtain rfl := Option.some.inj ho'
          exact ok_userDrop ok hg.2
      · obtain rfl := Option.some.inj h
        exact hi
    · cases h
  · cases h

theorem inv_popMulti {c : Cfg} {s s' : State} {id : Nat} (hi : Inv c s)
    (h : step c s (.popMulti id) = some s') : Inv c s' := by
  simp only [step] at h
  split at h
  · split at h
    · obtain rfl := Option.some.inj h
      refine inv_modAt hi id _ rfl rfl rfl rfl rfl rfl rfl
        (keeps_congr (fun _ => rfl) (fun _ => rfl) (fun _ => rfl) (fun _ => rfl) (fun _ => rfl) (fun _ => rfl)) ?_
      intro o' _ ok
      exact OpOk.congr ok rfl rfl rfl rfl rfl rfl rfl rfl rfl rfl rfl rfl rfl rfl
    · cases h
  · cases h

theorem inv_tokenRegister {c : Cfg} {s s' : State} {id : Nat} (hi : Inv c s)
    (h : step c s (.tokenRegister id) = some s') : Inv c s' := by
  simp only [step] at h
  split at h
  · split at h
    · obtain rfl := Option.some.inj h
      refine inv_modAt hi id _ rfl rfl rfl rfl rfl rfl rfl
        (keeps_congr (fun _ => rfl) (fun _ => rfl) (fun _ => rfl) (fun _ => rfl) (fun _ => rfl) (fun _ => rfl)) ?_
      intro o' _ ok
      exact OpOk.congr ok rfl rfl rfl rfl rfl rfl rfl rfl rfl rfl rfl rfl rfl rfl
    · cases h
  · cases h

theorem inv_tokenDrop {c : Cfg} {s s' : State} {id : Nat} (hi : Inv c s)
    (h : step c s (.tokenDrop id) = some s') : Inv c s' := by
  simp only [step] at h
  split at h
  · split at h
    · obtain rfl := Option.some.inj h
      refine inv_modAt hi id _ rfl rfl rfl rfl rfl rfl rfl
        (keeps_congr (fun _ => rfl) (fun _ => rfl) (fun _ => rfl) (fun _ => rfl) (fun _ => rfl) (fun _ => rfl)) ?_
      intro o' _ ok
      exact OpOk.congr ok rfl rfl rfl rfl rfl rfl rfl rfl rfl rfl rfl rfl rfl rfl
    · cases h
  · cases h

theorem inv_pushNotifier {c : Cfg} {s s' : State} (hi : Inv c s)
    (h : step c s .pushNotifier = some s') : Inv c s' := by
  simp only [step] at h
  split at h
  · obtain rfl := Option.some.inj h
    exact inv_frame hi rfl rfl rfl rfl rfl rfl rfl
  · cases h

theorem dropProg_length_pos (c : Cfg) (d : Drv) : 0 < (dropProg c d).length := by
  cases d <;> simp [dropProg]

theorem inv_dropBegin {c : Cfg} {s s' : State} (hi : Inv c s)
    (h : step c s .dropBegin = some s') : Inv c s' := by
  simp only [step] at h
  split at h
  · rename_i ha
    obtain rfl := Option.some.inj h
    obtain ⟨hr, hp, hc⟩ := hi.alive_ok ha
    constructor
    · exact hi.ops
    · exact hi.qmem
    · exact hi.iour_reg
    · intro h; cases h
    · intro k hk
      obtain rfl : 0 = k := Option.some.inj hk
      refine ⟨rfl, hc, dropProg_length_pos c s.drv, ?_, ?_⟩
      · simp [hr]
      · intro hf; simp at hf
    · intro _ h; cases h
    · intro h
      have : s.chanOpen = false := h
      rw [hc] at this; cases this
  · cases h

/-! ### pushes that leave the registry alone -/

theorem inv_pushSq {c : Cfg} {s s' : State} {k : Kind} {fd : Nat} {d : Dir} (hi : Inv c s)
    (h : step c s (.pushSq k fd d) = some s') : Inv c s' := by
  simp only [step] at h
  split at h
  · rename_i hg
    obtain rfl := Option.some.inj h
    refine inv_append hi _ rfl rfl rfl rfl rfl rfl hg.1 rfl ?_ (fun _ _ _ => rfl) (fun _ _ _ h => Or.inl h) hi.iour_reg
    have hq := qcount_new hi { (Op.new s.ops.length k fd d).cloneRef with inFl := true, kstat := .queued } rfl
    refine ⟨?_, ⟨?_, ?_, ?_⟩, ?_, ?_, ?_, ?_, ?_⟩
    · unfold holders; rw [hq]; rfl
    · rfl
    · intro h0; simp [Op.new, Op.cloneRef] at h0
    · intro _; rfl
    · intro _ _; rfl
    · intro _; rfl
    · intro hp; rw [hg.2.1] at hp; cases hp
    · intro hp; simp [Op.new, Op.cloneRef] at hp
    · intro _; exact ⟨rfl, rfl⟩
  · cases h

theorem inv_pushFail {c : Cfg} {s s' : State} {k : Kind} {fd : Nat} {d : Dir} {e : Nat} (hi : Inv c s)
    (h : step c s (.pushFail k fd d e) = some s') : Inv c s' := by
  simp only [step] at h
  split at h
  · rename_i hg
    obtain rfl := Option.some.inj h
    refine inv_append hi _ rfl rfl rfl rfl rfl rfl hg rfl ?_ (fun _ _ _ => rfl) (fun _ _ _ h => Or.inl h) hi.iour_reg
    have hq := qcount_new hi ({ (Op.new s.ops.length k fd d).cloneRef.dropRef with
      result := some (.err e), produced := [.err e] }.takeResult) rfl
    refine ⟨?_, ⟨?_, ?_, ?_⟩, ?_, ?_, ?_, ?_, ?_⟩
    · unfold holders; rw [hq]; rfl
    · rfl
    · intro _; rfl
    · intro h0; simp [Op.takeResult] at h0
    · intro _ hk; simp [Op.new, Op.cloneRef, Op.dropRef, Op.dropRefs, Op.takeResult] at hk
    · intro hp; simp [Op.new, Op.cloneRef, Op.dropRef, Op.dropRefs, Op.takeResult] at hp
    · intro _; exact ⟨rfl, rfl⟩
    · intro hp; simp [Op.new, Op.cloneRef, Op.dropRef, Op.dropRefs, Op.takeResult] at hp
    · intro _; exact ⟨rfl, rfl⟩
  · cases h

theorem inv_pushBlocking {c : Cfg} {s s' : State} (hi : Inv c s)
    (h : step c s .pushBlocking = some s') : Inv c s' := by
  simp only [step] at h
  split at h
  · rename_i hg
    obtain rfl := Option.some.inj h
    refine inv_append hi _ rfl rfl rfl rfl rfl rfl hg rfl ?_ (fun _ _ _ => rfl) (fun _ _ _ h => Or.inl h) hi.iour_reg
    have hq := qcount_new hi { (Op.new s.ops.length .blocking 0 .rd).cloneRef with poolRun := true } rfl
    refine ⟨?_, ⟨?_, ?_, ?_⟩, ?_, ?_, ?_, ?_, ?_⟩
    · unfold holders; rw [hq]; rfl
    · rfl
    · intro h0; simp [Op.new, Op.cloneRef] at h0
    · intro _; rfl
    · intro _ hk; simp [Op.new, Op.cloneRef] at hk
    · intro hp; simp [Op.new, Op.cloneRef] at hp
    · intro _; exact ⟨rfl, rfl⟩
    · intro hp; simp [Op.new, Op.cloneRef] at hp
    · intro _; exact ⟨rfl, rfl⟩
  · cases h

theorem inv_pushReady {c : Cfg} {s s' : State} {k : Kind} {fd : Nat} {d : Dir} {r : Res} (hi : Inv c s)
    (h : step c s (.pushReady k fd d r) = some s') : Inv c s' := by
  simp only [step] at h
  split at h
  · rename_i hg
    obtain rfl := Option.some.inj h
    refine inv_append hi _ rfl rfl rfl rfl rfl rfl hg.1 rfl ?_ (fun _ _ _ => rfl) (fun _ _ _ h => Or.inl h) hi.iour_reg
    have hq := qcount_new hi ({ (Op.new s.ops.length k fd d).cloneRef.dropRef with
      result := some r, produced := [r] }.takeResult) rfl
    refine ⟨?_, ⟨?_, ?_, ?_⟩, ?_, ?_, ?_, ?_, ?_⟩
    · unfold holders; rw [hq]; rfl
    · rfl
    · intro _; rfl
    · intro h0; simp [Op.takeResult] at h0
    · intro _ hk; simp [Op.new, Op.cloneRef, Op.dropRef, Op.dropRefs, Op.takeResult] at hk
    · intro hp; simp [Op.new, Op.cloneRef, Op.dropRef, Op.dropRefs, Op.takeResult] at hp
    · intro _; exact ⟨rfl, rfl⟩
    · intro hp; simp [Op.new, Op.cloneRef, Op.dropRef, Op.dropRefs, Op.takeResult] at hp
    · intro _; exact ⟨rfl, rfl⟩
  · cases h

/-! ### `io_uring_enter`, the kernel, `poll_entries`, `poll_blocking` -/

theorem ok_submit {drv ring reg} {o : Op} (ok : OpOk drv ring reg o) : OpOk drv ring reg o.submit := by
  obtain ⟨a, b, c, e, f, g1, g2⟩ := ok
  refine ⟨a, b.congr rfl rfl rfl rfl, ?_, e, ?_, ?_, g2⟩
  · intro hr hk
    apply c hr
    simp only [Op.submit] at hk
    split at hk
    · rename_i hq; exact Or.inl hq
    · exact hk
  · intro hp
    obtain ⟨f1, f2⟩ := f hp
    refine ⟨f1, ?_⟩
    simp only [Op.submit, f2]
    simp
  · intro hp
    have := g1 hp
    simp only [Op.submit, this]
    simp

theorem inv_submit {c : Cfg} {s s' : State} (hi : Inv c s)
    (h : step c s .submit = some s') : Inv c s' := by
  simp only [step] at h
  split at h
  · obtain rfl := Option.some.inj h
    refine inv_map hi Op.submit rfl rfl rfl rfl rfl rfl rfl
      (keeps_congr (fun _ => rfl) (fun _ => rfl) (fun _ => rfl) (fun _ => rfl) (fun _ => rfl) (fun _ => rfl)) ?_
    intro o ok
    exact ok_submit ok
  · cases h

theorem inv_kPost {c : Cfg} {s s' : State} {id : Nat} {more : Bool} {r : Res} (hi : Inv c s)
    (h : step c s (.kPost id more r) = some s') : Inv c s' := by
  simp only [step] at h
  split at h
  · rename_i o ho
    split at h
    · rename_i hg
      obtain ⟨hring, hdrv, hks, _⟩ := hg
      split at h
      · obtain rfl := Option.some.inj h
        refine inv_modAt hi id _ rfl rfl rfl rfl rfl rfl rfl
          (keeps_congr (fun _ => rfl) (fun _ => rfl) (fun _ => rfl) (fun _ => rfl) (fun _ => rfl) (fun _ => rfl)) ?_
        intro o' ho' ok
        rw [ho] at ho'; obtain rfl := Option.some.inj ho'
        obtain ⟨a, b, c1, e, f, g1, g2⟩ := ok
        refine ⟨a, b.congr rfl rfl rfl rfl, c1, fun _ => c1 hring (Or.inr hks), f, g1, ?_⟩
        intro hr; rw [hring] at hr; cases hr
      · obtain rfl := Option.some.inj h
        refine inv_modAt hi id _ rfl rfl rfl rfl rfl rfl rfl
          (keeps_congr (fun _ => rfl) (fun _ => rfl) (fun _ => rfl) (fun _ => rfl) (fun _ => rfl) (fun _ => rfl)) ?_
        intro o' ho' ok
        rw [ho] at ho'; obtain rfl := Option.some.inj ho'
        obtain ⟨a, b, c1, e, f, g1, g2⟩ := ok
        refine ⟨a, b.congr rfl rfl rfl rfl, ?_, fun _ => c1 hring (Or.inr hks), ?_, fun _ => rfl, ?_⟩
        · intro _ hk; simp at hk
        · intro hp; rw [hdrv] at hp; cases hp
        · intro hr; rw [hring] at hr; cases hr
    · cases h
  · cases h

theorem keeps_drainCq : Keeps Op.drainCq := by
  refine ⟨?_, ?_, ?_, ?_, ?_, ?_⟩ <;> intro o <;> unfold Op.drainCq <;> cases o.pendFinal <;>
    simp [Op.dropRef, Op.dropRefs]

theorem ok_drainCq {drv ring reg} {o : Op} (ok : OpOk drv ring reg o) : OpOk drv ring reg o.drainCq := by
  obtain ⟨a, b, c, e, f, g1, g2⟩ := ok
  have huaf : (o.uaf || (!o.pendMore.isEmpty && o.rc == 0)) = false := by
    rw [b.no_uaf]
    cases hpm : o.pendMore with
    | nil => simp
    | cons x xs =>
      have hfl := e (Or.inl (by rw [hpm]; simp))
      have : o.rc ≠ 0 := by
        rw [a]; unfold holders; rw [hfl]; simp only [b2n_true]; omega
      simp [this]
  cases hpf : o.pendFinal with
  | none =>
    simp only [Op.drainCq, hpf]
    refine ⟨a, ⟨huaf, b.rel0, b.rel1⟩, c, ?_, f, ?_, ?_⟩
    · intro h
      rcases h with h | h
      · exact absurd rfl h
      · simp at h
    · intro h; simp at h
    · intro _; exact ⟨rfl, rfl⟩
  | some r =>
    have hfl := e (Or.inr (by rw [hpf]; rfl))
    have hks := g1 (by rw [hpf]; rfl)
    have hrc : 0 < o.rc := by
      rw [a]; unfold holders; rw [hfl]; simp only [b2n_true]; omega
    simp only [Op.drainCq, hpf]
    refine ⟨?_, rcok_dropRef ⟨huaf, b.rel0, b.rel1⟩ hrc, ?_, ?_, ?_, ?_, ?_⟩
    · simp only [Op.dropRef, Op.dropRefs, holders, qcount] at a ⊢
      rw [hfl] at a
      simp only [b2n_true, b2n_false] at a ⊢
      omega
    · intro _ hk; simp [Op.dropRef, Op.dropRefs, hks] at hk
    · intro h; simp [Op.dropRef, Op.dropRefs] at h
    · intro hp; have := (f hp).1; rw [hfl] at this; cases this
    · intro h; simp [Op.dropRef, Op.dropRefs] at h
    · intro _; exact ⟨rfl, rfl⟩

theorem inv_pollEntries {c : Cfg} {s s' : State} (hi : Inv c s)
    (h : step c s .pollEntries = some s') : Inv c s' := by
  simp only [step] at h
  split at h
  · obtain rfl := Option.some.inj h
    exact inv_map hi Op.drainCq rfl rfl rfl rfl rfl rfl rfl keeps_drainCq (fun o ok => ok_drainCq ok)
  · cases h

theorem keeps_drainChan : Keeps Op.drainChan := by
  refine ⟨?_, ?_, ?_, ?_, ?_, ?_⟩ <;> intro o <;> unfold Op.drainChan <;> cases o.chan.getLast? <;>
    simp [Op.dropRefs]

theorem ok_drainChan {drv ring reg} {o : Op} (ok : OpOk drv ring reg o) : OpOk drv ring reg o.drainChan := by
  unfold Op.drainChan
  cases hl : o.chan.getLast? with
  | none => exact ok
  | some r =>
    obtain ⟨a, b, c, e, f, g1, g2⟩ := ok
    have hle : o.chan.length ≤ o.rc := by rw [a]; unfold holders; omega
    refine ⟨?_, rcok_dropRefs (b.congr (o' := { o with chan := [], result := some r }) rfl rfl rfl rfl) hle,
      c, e, f, g1, g2⟩
    simp only [Op.dropRefs, holders, qcount, List.length_nil] at a ⊢
    omega

theorem inv_pollBlocking {c : Cfg} {s s' : State} (hi : Inv c s)
    (h : step c s .pollBlocking = some s') : Inv c s' := by
  simp only [step] at h
  split at h
  · obtain rfl := Option.some.inj h
    exact inv_map hi Op.drainChan rfl rfl rfl rfl rfl rfl rfl keeps_drainChan (fun o ok => ok_drainChan ok)
  · cases h

/-! ### pool completions -/

theorem dropChans_eq_map (l : List Op) :
    dropChans l = l.map (fun o => if l.any (·.poolRun) = true then o else o.dropChan) := by
  unfold dropChans
  split <;> simp [*]

/-- what the drop glue of the channel establishes -/
theorem dropChans_chan {l : List Op}
    (hall : ∀ (i : Nat) (o : Op), (dropChans l)[i]? = some o → o.poolRun = false) :
    ∀ (i : Nat) (o : Op), (dropChans l)[i]? = some o → o.chan = [] := by
  unfold dropChans at hall ⊢
  by_cases hany : l.any (·.poolRun) = true
  · rw [if_pos hany] at hall
    obtain ⟨x, hx, hp⟩ := List.any_eq_true.mp hany
    obtain ⟨i, hi⟩ := List.getElem?_of_mem hx
    have := hall i x hi
    rw [this] at hp; cases hp
  · rw [if_neg hany]
    intro i o h
    rw [List.getElem?_map] at h
    cases hl : l[i]? with
    | none => simp [hl] at h
    | some x => simp [hl] at h; subst h; rfl

theorem ok_dropChan {drv ring reg} {o : Op} (ok : OpOk drv ring reg o) : OpOk drv ring reg o.dropChan := by
  obtain ⟨a, b, c, e, f, g1, g2⟩ := ok
  have hle : o.chan.length ≤ o.rc := by rw [a]; unfold holders; omega
  refine ⟨?_, rcok_dropRefs (b.congr (o' := { o with chan := [] }) rfl rfl rfl rfl) hle, c, e, f, g1, g2⟩
  simp only [Op.dropChan, Op.dropRefs, holders, qcount, List.length_nil] at a ⊢
  omega

/-- one op is modified by `g`, then every op by `h`; the channel clause is proved by the caller -/
theorem inv_modAt_map {c : Cfg} {s s' : State} (hi : Inv c s) (id : Nat) (g h : Op → Op)
    (hops : s'.ops = (modAt g s.ops id).map h) (hdrv : s'.drv = s.drv) (hring : s'.ring = s.ring)
    (hreg : s'.reg = s.reg) (halive : s'.alive = s.alive) (hpc : s'.dropPc = s.dropPc)
    (hch : s'.chanOpen = s.chanOpen)
    (kg : ∀ o, (g o).id = o.id ∧ (g o).fd = o.fd ∧ (g o).dir = o.dir ∧ ((g o).inFl = true → o.inFl = true))
    (kh : ∀ o, (h o).id = o.id ∧ (h o).fd = o.fd ∧ (h o).dir = o.dir ∧ ((h o).inFl = true → o.inFl = true))
    (hg : ∀ o, s.ops[id]? = some o → OpOk s.drv s.ring s.reg o → OpOk s.drv s.ring s.reg (g o))
    (hh : ∀ o, OpOk s.drv s.ring s.reg o → OpOk s.drv s.ring s.reg (h o))
    (hchan : s'.chanOpen = false → (∀ (i : Nat) (o : Op), s'.ops[i]? = some o → o.poolRun = false) →
      ∀ (i : Nat) (o : Op), s'.ops[i]? = some o → o.chan = []) :
    Inv c s' := by
  have key : ∀ (j : Nat) (o' : Op), s'.ops[j]? = some o' →
      ∃ o, s.ops[j]? = some o ∧ o'.id = o.id ∧ (o'.inFl = true → o.inFl = true) ∧ OpOk s.drv s.ring s.reg o' := by
    intro j o' h0
    rw [hops, List.getElem?_map] at h0
    cases hm : (modAt g s.ops id)[j]? with
    | none => simp [hm] at h0
    | some y =>
      simp [hm] at h0
      subst h0
      rcases modAt_cases hm with ⟨hij, x, hx, rfl⟩ | ⟨_, hx⟩
      · subst hij
        have okx := (hi.ops _ x hx).1
        exact ⟨x, hx, by rw [(kh _).1, (kg _).1], fun hf => (kg x).2.2.2 ((kh _).2.2.2 hf), hh _ (hg x hx okx)⟩
      · exact ⟨y, hx, (kh y).1, (kh y).2.2.2, hh _ (hi.ops _ y hx).1⟩
  have key2 : ∀ (j : Nat) (o : Op), s.ops[j]? = some o →
      ∃ o', s'.ops[j]? = some o' ∧ o'.fd = o.fd ∧ o'.dir = o.dir := by
    intro j o ho
    rw [hops, List.getElem?_map, getElem?_modAt]
    by_cases hij : id = j
    · subst hij
      simp only [if_true, ho, Option.map_some]
      exact ⟨_, rfl, by rw [(kh _).2.1, (kg _).2.1], by rw [(kh _).2.2.1, (kg _).2.2.1]⟩
    · simp only [hij, if_false, ho, Option.map_some]
      exact ⟨_, rfl, (kh _).2.1, (kh _).2.2.1⟩
  constructor
  · intro j o' h0
    rw [hdrv, hring, hreg]
    obtain ⟨o, ho, h1, _, h3⟩ := key j o' h0
    exact ⟨h3, by rw [h1]; exact (hi.ops _ o ho).2⟩
  · intro fd d i hm
    rw [hreg] at hm
    obtain ⟨o, ho, h1, h2⟩ := hi.qmem fd d i hm
    obtain ⟨o', ho', h3, h4⟩ := key2 i o ho
    exact ⟨o', ho', by rw [h3]; exact h1, by rw [h4]; exact h2⟩
  · rw [hdrv, hreg]; exact hi.iour_reg
  · rw [halive, hring, hpc, hch]; exact hi.alive_ok
  · intro k hk'
    rw [hpc] at hk'
    obtain ⟨a, b, c1, d, e⟩ := hi.pc_ok k hk'
    rw [halive, hch, hdrv, hring]
    refine ⟨a, b, c1, d, ?_⟩
    intro hfree j o' h0
    obtain ⟨o, ho, _, h2, _⟩ := key j o' h0
    have := e hfree _ o ho
    cases hfl : o'.inFl
    · rfl
    · rw [h2 hfl] at this; exact absurd this (by simp)
  · intro ha hp
    rw [halive] at ha
    rw [hpc] at hp
    obtain ⟨a, b, c1⟩ := hi.dead_ok ha hp
    rw [hch, hreg]
    refine ⟨a, b, ?_⟩
    intro j o' h0
    obtain ⟨o, ho, _, h2, _⟩ := key j o' h0
    have := c1 _ o ho
    cases hfl : o'.inFl
    · rfl
    · rw [h2 hfl] at this; exact absurd this (by simp)
  · exact hchan

theorem inv_poolDone {c : Cfg} {s s' : State} {id : Nat} {r : Res} (hi : Inv c s)
    (h : step c s (.poolDone id r) = some s') : Inv c s' := by
  simp only [step] at h
  split at h
  · rename_i o ho
    split at h
    · rename_i hpool
      split at h
      · rename_i hco
        obtain rfl := Option.some.inj h
        refine inv_modAt_map hi id
          (fun o => { o with poolRun := false, chan := o.chan ++ [r], produced := o.produced ++ [r] }) (fun o => o)
          (by simp) rfl rfl rfl rfl rfl rfl
          (fun _ => ⟨rfl, rfl, rfl, fun h => h⟩) (fun _ => ⟨rfl, rfl, rfl, fun h => h⟩) ?_ (fun _ ok => ok) ?_
        · intro o' ho' ok
          rw [ho] at ho'; obtain rfl := Option.some.inj ho'
          obtain ⟨a, b, c1, e, f, g1, g2⟩ := ok
          refine ⟨?_, b.congr rfl rfl rfl rfl, c1, e, f, g1, g2⟩
          simp only [holders, qcount, List.length_append, List.length_cons, List.length_nil] at a ⊢
          rw [hpool] at a
          simp only [b2n_true, b2n_false] at a ⊢
          omega
        · intro h0
          have : s.chanOpen = false := h0
          rw [hco] at this; cases this
      · obtain rfl := Option.some.inj h
        refine inv_modAt_map hi id
          (fun o => { o with poolRun := false, produced := o.produced ++ [r] }.dropRef)
          (fun o => if (modAt (fun o => { o with poolRun := false, produced := o.produced ++ [r] }.dropRef)
            s.ops id).any (·.poolRun) = true then o else o.dropChan)
          (dropChans_eq_map _) rfl rfl rfl rfl rfl rfl
          (fun _ => ⟨rfl, rfl, rfl, fun h => h⟩) ?_ ?_ ?_ ?_
        · intro o
          split
          · exact ⟨rfl, rfl, rfl, fun h => h⟩
          · exact ⟨rfl, rfl, rfl, fun h => h⟩
        · intro o' ho' ok
          rw [ho] at ho'; obtain rfl := Option.some.inj ho'
          obtain ⟨a, b, c1, e, f, g1, g2⟩ := ok
          have hrc : 0 < o.rc := by
            rw [a]; unfold holders; rw [hpool]; simp only [b2n_true]; omega
          refine ⟨?_, rcok_dropRef (b.congr (o' := { o with poolRun := false, produced := o.produced ++ [r] })
            rfl rfl rfl rfl) hrc, c1, e, f, g1, g2⟩
          simp only [Op.dropRef, Op.dropRefs, holders, qcount] at a ⊢
          rw [hpool] at a
          simp only [b2n_true, b2n_false] at a ⊢
          omega
        · intro o ok
          split
          · exact ok
          · exact ok_dropChan ok
        · intro _ hall
          exact dropChans_chan hall
    · cases h
  · cases h

/-! ### the driver's `Drop` -/

theorem dropProg_iour {c : Cfg} (hc : GoodCfg c) :
    dropProg c .iour = [.drainCq, .closeRing, .freeInFlight, .fields] := by
  unfold GoodCfg at hc
  simp [dropProg, hc, DStep.ofGen]

theorem dropProg_poll (c : Cfg) : dropProg c .poll = [.pollDelete, .fields] := rfl

theorem qcount_empty (o : Op) : qcount Reg.empty o = 0 := by
  unfold qcount Reg.empty FdQ.empty
  cases o.dir <;> simp [FdQ.sel]

/-- a step of `Drop` that is not the last one: every op is transformed, the registry and the channel stay -/
theorem inv_dropStep_map {c : Cfg} {s s' : State} (hi : Inv c s) (f : Op → Op) (k : Nat)
    (hk : s.dropPc = some k)
    (hops : s'.ops = s.ops.map f) (hdrv : s'.drv = s.drv) (hreg : s'.reg = s.reg)
    (halive : s'.alive = s.alive) (hch : s'.chanOpen = s.chanOpen)
    (hpc : s'.dropPc = some (k + 1)) (hlt : k + 1 < (dropProg c s.drv).length)
    (hring : s'.ring = !(((dropProg c s.drv).take (k + 1)).contains .closeRing))
    (kid : ∀ o, (f o).id = o.id ∧ (f o).fd = o.fd ∧ (f o).dir = o.dir)
    (hfree : ((dropProg c s.drv).take (k + 1)).contains .freeInFlight = true →
      ∀ (i : Nat) (o : Op), s.ops[i]? = some o → (f o).inFl = false)
    (hf : ∀ (i : Nat) (o : Op), s.ops[i]? = some o → OpOk s.drv s.ring s.reg o →
      OpOk s.drv s'.ring s.reg (f o)) :
    Inv c s' := by
  obtain ⟨hal, hco, _, _, _⟩ := hi.pc_ok k hk
  have key : ∀ (j : Nat) (o' : Op), s'.ops[j]? = some o' → ∃ o, s.ops[j]? = some o ∧ o' = f o := by
    intro j o' h
    rw [hops, List.getElem?_map] at h
    cases ho : s.ops[j]? with
    | none => simp [ho] at h
    | some o => simp [ho] at h; exact ⟨o, rfl, h.symm⟩
  have key2 : ∀ (j : Nat) (o : Op), s.ops[j]? = some o → s'.ops[j]? = some (f o) := by
    intro j o h
    rw [hops, List.getElem?_map, h]; rfl
  constructor
  · intro j o' h0
    rw [hdrv, hreg]
    obtain ⟨o, ho, rfl⟩ := key j o' h0
    exact ⟨hf j o ho (hi.ops _ o ho).1, by rw [(kid o).1]; exact (hi.ops _ o ho).2⟩
  · intro fd d i hm
    rw [hreg] at hm
    obtain ⟨o, ho, h1, h2⟩ := hi.qmem fd d i hm
    exact ⟨f o, key2 _ _ ho, by rw [(kid o).2.1]; exact h1, by rw [(kid o).2.2]; exact h2⟩
  · rw [hdrv, hreg]; exact hi.iour_reg
  · intro h0; rw [halive, hal] at h0; cases h0
  · intro k' hk'
    rw [hpc] at hk'
    obtain rfl := Option.some.inj hk'
    rw [halive, hch, hdrv]
    refine ⟨hal, hco, hlt, hring, ?_⟩
    intro hfr j o' h0
    obtain ⟨o, ho, rfl⟩ := key j o' h0
    exact hfree hfr j o ho
  · intro _ hp; rw [hpc] at hp; cases hp
  · intro h0; rw [hch, hco] at h0; cases h0

/-- the last step of `Drop`: the fd queues and the completed channel are destroyed -/
theorem inv_dropStep_fields {c : Cfg} {s s' : State} (hi : Inv c s) (k : Nat) (hk : s.dropPc = some k)
    (hinfl : ∀ (i : Nat) (o : Op), s.ops[i]? = some o → o.inFl = false)
    (hops : s'.ops = dropChans (s.ops.map fun o => o.dropRefs ((s.reg o.fd).occ o.id)))
    (hdrv : s'.drv = s.drv) (hring : s'.ring = s.ring) (hreg : s'.reg = Reg.empty)
    (halive : s'.alive = s.alive) (hch : s'.chanOpen = false) (hpc : s'.dropPc = none) :
    Inv c s' := by
  obtain ⟨hal, hco, _, _, _⟩ := hi.pc_ok k hk
  have okF : ∀ (j : Nat) (o : Op), s.ops[j]? = some o →
      OpOk s.drv s.ring Reg.empty (o.dropRefs ((s.reg o.fd).occ o.id)) := by
    intro j o ho
    obtain ⟨ok, hid⟩ := hi.ops j o ho
    have hocc : (s.reg o.fd).occ o.id = qcount s.reg o := by rw [hid]; exact occ_eq_qcount hi ho
    rw [hocc]
    obtain ⟨a, b, c1, e, f, g1, g2⟩ := ok
    have hle : qcount s.reg o ≤ o.rc := by rw [a]; unfold holders; omega
    refine ⟨?_, rcok_dropRefs b hle, c1, e, f, g1, g2⟩
    have hq0 := qcount_empty (o.dropRefs (qcount s.reg o))
    unfold holders at a ⊢
    rw [hq0]
    simp only [Op.dropRefs] at a ⊢
    omega
  have key : ∀ (j : Nat) (o' : Op), s'.ops[j]? = some o' →
      ∃ o, s.ops[j]? = some o ∧ o'.id = o.id ∧ o'.inFl = o.inFl ∧ OpOk s.drv s.ring Reg.empty o' := by
    intro j o' h0
    rw [hops, dropChans_eq_map, List.getElem?_map, List.getElem?_map] at h0
    cases ho : s.ops[j]? with
    | none => simp [ho] at h0
    | some o =>
      simp only [ho, Option.map_some, Option.some.injEq] at h0
      subst h0
      refine ⟨o, rfl, ?_⟩
      split
      · exact ⟨rfl, rfl, okF j o ho⟩
      · exact ⟨rfl, rfl, ok_dropChan (okF j o ho)⟩
  constructor
  · intro j o' h0
    rw [hdrv, hring, hreg]
    obtain ⟨o, ho, h1, _, h3⟩ := key j o' h0
    exact ⟨h3, by rw [h1]; exact (hi.ops _ o ho).2⟩
  · intro fd d i hm
    rw [hreg] at hm
    cases d <;> simp [Reg.empty, FdQ.empty, FdQ.sel] at hm
  · intro _ fd; rw [hreg]; rfl
  · intro h0; rw [halive, hal] at h0; cases h0
  · intro k' hk'; rw [hpc] at hk'; cases hk'
  · intro _ _
    refine ⟨hch, fun fd => by rw [hreg]; rfl, ?_⟩
    intro j o' h0
    obtain ⟨o, ho, _, h2, _⟩ := key j o' h0
    rw [h2]; exact hinfl j o ho
  · intro _ hall
    rw [hops] at hall ⊢
    exact dropChans_chan hall

theorem ok_dropDrain {drv reg} {chk : Bool} {o : Op} (ok : OpOk drv true reg o)
    (hcnt : o.dropDrainCount chk = if o.pendFinal.isSome then 1 else 0) :
    OpOk drv true reg (o.dropDrain chk) := by
  obtain ⟨a, b, c1, e, f, g1, g2⟩ := ok
  unfold Op.dropDrain
  rw [hcnt]
  cases hpf : o.pendFinal with
  | none =>
    simp only [Option.isSome_none, Bool.false_eq_true, if_false, if_true]
    refine ⟨?_, rcok_dropRefs (b.congr rfl rfl rfl rfl) (Nat.zero_le _), c1, ?_, f, ?_, ?_⟩
    · simp only [Op.dropRefs, holders, qcount] at a ⊢
      omega
    · intro h
      rcases h with h | h
      · exact absurd rfl h
      · simp [Op.dropRefs] at h
    · intro h; simp [Op.dropRefs] at h
    · intro h; cases h
  | some r =>
    have hfl := e (Or.inr (by rw [hpf]; rfl))
    have hks := g1 (by rw [hpf]; rfl)
    have hrc : 1 ≤ o.rc := by
      rw [a]; unfold holders; rw [hfl]; simp only [b2n_true]; omega
    simp only [Option.isSome_some, if_true]
    refine ⟨?_, rcok_dropRefs (b.congr rfl rfl rfl rfl) hrc, ?_, ?_, ?_, ?_, ?_⟩
    · simp only [Op.dropRefs, holders, qcount] at a ⊢
      rw [hfl] at a
      simp only [b2n_true] at a ⊢
      simp
      omega
    · intro _ hk; simp [Op.dropRefs, hks] at hk
    · intro h; simp [Op.dropRefs] at h
    · intro hp; have := (f hp).1; rw [hfl] at this; cases this
    · intro h; simp [Op.dropRefs] at h
    · intro h; cases h

theorem ok_closeRing {drv ring reg} {o : Op} (ok : OpOk drv ring reg o) :
    OpOk drv false reg { o with pendMore := [], pendFinal := none } := by
  obtain ⟨a, b, c1, e, f, g1, g2⟩ := ok
  refine ⟨a, b.congr rfl rfl rfl rfl, ?_, ?_, f, ?_, fun _ => ⟨rfl, rfl⟩⟩
  · intro h; cases h
  · intro h
    rcases h with h | h
    · exact absurd rfl h
    · simp at h
  · intro h; simp at h

theorem ok_freeInFlight {drv reg} {o : Op} (ok : OpOk drv false reg o) : OpOk drv false reg o.freeInFlight := by
  obtain ⟨a, b, c1, e, f, g1, g2⟩ := ok
  obtain ⟨hpm, hpf⟩ := g2 rfl
  have hle : (if o.inFl = true then 1 else 0) ≤ o.rc := by
    rw [a]; unfold holders
    cases o.inFl <;> simp <;> omega
  unfold Op.freeInFlight
  refine ⟨?_, rcok_dropRefs (b.congr rfl rfl rfl rfl) hle, ?_, ?_, ?_, ?_, fun _ => ⟨hpm, hpf⟩⟩
  · simp only [Op.dropRefs, holders, qcount] at a ⊢
    cases hfl : o.inFl
    · rw [hfl] at a; simp only [b2n_false] at a ⊢; simp; omega
    · rw [hfl] at a; simp only [b2n_true, b2n_false] at a ⊢; simp; omega
  · intro h; cases h
  · intro h
    rcases h with h | h
    · exact absurd hpm h
    · have : o.pendFinal.isSome = true := h
      rw [hpf] at this; cases this
  · intro hp; exact ⟨rfl, (f hp).2⟩
  · intro h
    have : o.pendFinal.isSome = true := h
    rw [hpf] at this; cases this

theorem inv_dropStep {c : Cfg} {s s' : State} (hi : Inv c s) (hc : GoodCfg c) (hz : s'.hazard = false)
    (h : step c s .dropStep = some s') : Inv c s' := by
  simp only [step] at h
  split at h
  · rename_i k hk
    split at h
    · rename_i st hst
      obtain rfl := Option.some.inj h
      obtain ⟨hal, hco, hlt, hrg, hfr⟩ := hi.pc_ok k hk
      cases hd : s.drv with
      | iour =>
        have hprog := dropProg_iour hc
        rw [hd] at hst hlt hrg hfr
        rw [hprog] at hst hlt hrg hfr
        rcases k with _ | _ | _ | _ | k
        · -- drainCq
          simp at hst; subst hst
          have hring : s.ring = true := by simpa using hrg
          have hz' : c.drainChecksMore = true ∨ ∀ o ∈ s.ops, o.pendMore = [] := by
            cases hchk : c.drainChecksMore
            · right
              simp [execDStep, hchk] at hz
              exact hz.2
            · left; rfl
          refine inv_dropStep_map hi (Op.dropDrain c.drainChecksMore) 0 hk rfl rfl rfl rfl rfl ?_ ?_ ?_
            (fun _ => ⟨rfl, rfl, rfl⟩) ?_ ?_
          · simp [hprog]
          · simp [hd, hprog]
          · simp [hd, hprog, execDStep, hring]
          · intro hf; simp [hd, hprog] at hf
          · intro i o ho ok
            rw [hring] at ok
            show OpOk s.drv s.ring s.reg _
            rw [hring]
            apply ok_dropDrain ok
            unfold Op.dropDrainCount
            rcases hz' with h1 | h1
            · simp [h1]
            · simp [h1 o (List.mem_of_getElem? ho)]
        · -- closeRing
          simp at hst; subst hst
          refine inv_dropStep_map hi (fun o => { o with pendMore := [], pendFinal := none }) 1 hk rfl rfl rfl rfl rfl
            ?_ ?_ ?_ (fun _ => ⟨rfl, rfl, rfl⟩) ?_ ?_
          · simp [hprog]
          · simp [hd, hprog]
          · simp [hd, hprog, execDStep]
          · intro hf; simp [hd, hprog] at hf
          · intro i o ho ok
            exact ok_closeRing ok
        · -- freeInFlight
          simp at hst; subst hst
          have hring : s.ring = false := by simpa using hrg
          refine inv_dropStep_map hi Op.freeInFlight 2 hk rfl rfl rfl rfl rfl ?_ ?_ ?_
            (fun _ => ⟨rfl, rfl, rfl⟩) ?_ ?_
          · simp [hprog]
          · simp [hd, hprog]
          · simp [hd, hprog, execDStep, hring]
          · intro _ i o _; rfl
          · intro i o ho ok
            rw [hring] at ok
            show OpOk s.drv s.ring s.reg _
            rw [hring]
            exact ok_freeInFlight ok
        · -- fields
          simp at hst; subst hst
          refine inv_dropStep_fields hi 3 hk (hfr (by simp)) rfl rfl rfl rfl rfl rfl ?_
          simp [hprog]
        · simp at hlt; omega
      | poll =>
        rw [hd, dropProg_poll] at hst hlt hrg hfr
        rcases k with _ | _ | k
        · -- pollDelete
          simp at hst; subst hst
          have hring : s.ring = true := by simpa using hrg
          refine inv_dropStep_map hi (fun o => o) 0 hk (by simp [execDStep]) rfl rfl rfl rfl ?_ ?_ ?_
            (fun _ => ⟨rfl, rfl, rfl⟩) ?_ ?_
          · simp [dropProg_poll]
          · simp [hd, dropProg_poll]
          · simp [hd, dropProg_poll, execDStep, hring]
          · intro hf; simp [hd, dropProg_poll] at hf
          · intro i o ho ok
            exact ok
        · -- fields
          simp at hst; subst hst
          refine inv_dropStep_fields hi 1 hk ?_ rfl rfl rfl rfl rfl rfl ?_
          · intro i o ho
            exact ((hi.ops i o ho).1.poll_sep hd).1
          · simp [dropProg_poll]
        · simp at hlt; omega
    · cases h
  · cases h

end Compio.KeyLife
