/- chunk loops of compio-quic's streams: in order, exactly once (helper lemmas for Props/C16) -/
import Compio.Model.QuicWakers

namespace Compio.QuicWakers

/-! ## `write_all` -/

theorem writeAll_done {buf : Bytes} {count : Nat} (sched : List WAns) (h : count ≥ buf.length) :
    writeAll buf count sched = (.ready (), [], count) := by
  unfold writeAll; simp [h]

theorem writeAll_nil {buf : Bytes} {count : Nat} (h : ¬ count ≥ buf.length) :
    writeAll buf count [] = (.pending, [], count) := by
  unfold writeAll; simp [h]

theorem writeAll_blocked {buf : Bytes} {count : Nat} (rest : List WAns) (h : ¬ count ≥ buf.length) :
    writeAll buf count (.blocked :: rest) = writeAll buf count rest := by
  conv => lhs; unfold writeAll
  simp [h, pollWrite]

theorem writeAll_stopped {buf : Bytes} {count : Nat} (c : Nat) (rest : List WAns) (h : ¬ count ≥ buf.length) :
    writeAll buf count (.stopped c :: rest) = (.err (.stopped c), [], count) := by
  conv => lhs; unfold writeAll
  simp [h, pollWrite]

theorem writeAll_closed {buf : Bytes} {count : Nat} (rest : List WAns) (h : ¬ count ≥ buf.length) :
    writeAll buf count (.closed :: rest) = (.err .closedStream, [], count) := by
  conv => lhs; unfold writeAll
  simp [h, pollWrite]

theorem writeAll_limit_zero {buf : Bytes} {count : Nat} (rest : List WAns) (h : ¬ count ≥ buf.length) :
    writeAll buf count (.limit 0 :: rest) = (.pending, [], count) := by
  conv => lhs; unfold writeAll
  simp [h, pollWrite]

theorem writeAll_limit {buf : Bytes} {count n : Nat} (rest : List WAns) (h : ¬ count ≥ buf.length) (hn : 0 < n) :
    writeAll buf count (.limit n :: rest) =
      ((writeAll buf (count + min n (buf.length - count)) rest).1,
       (buf.drop count).take n ++ (writeAll buf (count + min n (buf.length - count)) rest).2.1,
       (writeAll buf (count + min n (buf.length - count)) rest).2.2) := by
  conv => lhs; unfold writeAll
  have : ¬ (min n (buf.length - count) = 0) := by omega
  simp [h, pollWrite, this]

theorem writeAll_spec (buf : Bytes) (sched : List WAns) : ∀ count, count ≤ buf.length →
    (writeAll buf count sched).2.1 = (buf.drop count).take ((writeAll buf count sched).2.2 - count) ∧
    count ≤ (writeAll buf count sched).2.2 ∧ (writeAll buf count sched).2.2 ≤ buf.length ∧
    ((writeAll buf count sched).1 = .ready () → (writeAll buf count sched).2.1 = buf.drop count) := by
  induction sched with
  | nil =>
    intro count hc
    by_cases h : count ≥ buf.length
    · rw [writeAll_done _ h]
      have : count = buf.length := by omega
      subst this; simp
    · rw [writeAll_nil h]; simp; omega
  | cons a rest ih =>
    intro count hc
    by_cases h : count ≥ buf.length
    · rw [writeAll_done _ h]
      have : count = buf.length := by omega
      subst this; simp
    · cases a with
      | blocked => rw [writeAll_blocked _ h]; exact ih count hc
      | stopped c => rw [writeAll_stopped _ _ h]; simp; omega
      | closed => rw [writeAll_closed _ h]; simp; omega
      | limit n =>
        cases n with
        | zero => rw [writeAll_limit_zero _ h]; simp; omega
        | succ n =>
          rw [writeAll_limit _ h (Nat.succ_pos n)]
          have hm : count + min (n + 1) (buf.length - count) ≤ buf.length := by omega
          obtain ⟨h1, h2, h3, h4⟩ := ih _ hm
          generalize hW : writeAll buf (count + min (n + 1) (buf.length - count)) rest = W at *
          obtain ⟨r, acc', c'⟩ := W
          simp only at h1 h2 h3 h4 ⊢
          have htake : (buf.drop count).take (n + 1) = (buf.drop count).take (min (n + 1) (buf.length - count)) := by
            rw [List.take_eq_take_iff]; simp
          refine ⟨?_, by omega, h3, ?_⟩
          · rw [h1, htake]
            have : c' - count = min (n + 1) (buf.length - count) + (c' - (count + min (n + 1) (buf.length - count))) := by
              omega
            rw [this, List.take_add, List.drop_drop]
          · intro hr
            rw [h4 hr, htake]
            have := List.take_append_drop (min (n + 1) (buf.length - count)) (buf.drop count)
            rw [List.drop_drop] at this
            exact this

theorem writeAll_completes_aux (buf : Bytes) (n : Nat) (hn : 0 < n) : ∀ k count, count ≤ buf.length →
    buf.length - count < k → (writeAll buf count (List.replicate k (.limit n))).1 = .ready () := by
  intro k
  induction k with
  | zero => intro count _ h; omega
  | succ k ih =>
    intro count hc hk
    by_cases h : count ≥ buf.length
    · rw [writeAll_done _ h]
    · rw [List.replicate_succ, writeAll_limit _ h hn]
      apply ih <;> omega

theorem writeAll_completes (buf : Bytes) (n : Nat) (hn : 0 < n) :
    (writeAll buf 0 (List.replicate (buf.length + 1) (.limit n))).1 = .ready () :=
  writeAll_completes_aux buf n hn _ 0 (Nat.zero_le _) (by omega)

/-! ## `write_chunks` (quinn-proto's `BytesArray` contract) and `write_all_chunks` -/

theorem popChunks_spec : ∀ (bufs : List Bytes) (limit : Nat),
    (popChunks limit bufs).1 ++ (popChunks limit bufs).2.2.flatten = bufs.flatten ∧
    (popChunks limit bufs).2.2.length = bufs.length ∧
    (popChunks limit bufs).2.1 ≤ bufs.length ∧
    ((popChunks limit bufs).2.2.take (popChunks limit bufs).2.1).flatten = [] ∧
    (popChunks limit bufs).1.length ≤ limit := by
  intro bufs
  induction bufs with
  | nil => intro limit; simp [popChunks]
  | cons c rest ih =>
    intro limit
    unfold popChunks
    by_cases h1 : c.length ≤ limit
    · obtain ⟨i1, i2, i3, i4, i5⟩ := ih (limit - c.length)
      simp only [h1, if_true]
      generalize popChunks (limit - c.length) rest = P at *
      obtain ⟨acc, n, rest'⟩ := P
      simp only at i1 i2 i3 i4 i5 ⊢
      refine ⟨?_, by simp [i2], by simp; omega, ?_, by simp; omega⟩
      · simp [List.append_assoc, i1]
      · simp [List.take_succ_cons, i4]
    · by_cases h2 : limit > 0
      · simp only [h1, if_false, h2, if_true]
        refine ⟨?_, by simp, by simp, by simp, ?_⟩
        · simp only [List.flatten_cons]
          rw [← List.append_assoc, List.take_append_drop]
        · simp [List.length_take]; omega
      · simp only [h1, if_false, h2]
        simp

theorem writeAllChunks_done {bufs : List Bytes} {chunks : Nat} (sched : List WAns) (h : chunks ≥ bufs.length) :
    writeAllChunks bufs chunks sched = (.ready (), [], bufs) := by
  unfold writeAllChunks; simp [h]

theorem writeAllChunks_spec (sched : List WAns) : ∀ (bufs : List Bytes) (chunks : Nat),
    (bufs.take chunks).flatten = [] →
    (writeAllChunks bufs chunks sched).2.1 ++ (writeAllChunks bufs chunks sched).2.2.flatten = bufs.flatten ∧
    ((writeAllChunks bufs chunks sched).1 = .ready () → (writeAllChunks bufs chunks sched).2.2.flatten = []) := by
  induction sched with
  | nil =>
    intro bufs chunks hinv
    by_cases h : chunks ≥ bufs.length
    · rw [writeAllChunks_done _ h]
      simp only [List.nil_append, true_and]
      intro _
      rw [List.take_of_length_le h] at hinv; exact hinv
    · unfold writeAllChunks; simp [h]
  | cons a rest ih =>
    intro bufs chunks hinv
    by_cases h : chunks ≥ bufs.length
    · rw [writeAllChunks_done _ h]
      simp only [List.nil_append, true_and]
      intro _
      rw [List.take_of_length_le h] at hinv; exact hinv
    · cases a with
      | blocked =>
        have : writeAllChunks bufs chunks (.blocked :: rest) = writeAllChunks bufs chunks rest := by
          conv => lhs; unfold writeAllChunks
          simp [h]
        rw [this]; exact ih bufs chunks hinv
      | stopped c =>
        have : writeAllChunks bufs chunks (.stopped c :: rest) = (.err (.stopped c), [], bufs) := by
          conv => lhs; unfold writeAllChunks
          simp [h]
        rw [this]; simp
      | closed =>
        have : writeAllChunks bufs chunks (.closed :: rest) = (.err .closedStream, [], bufs) := by
          conv => lhs; unfold writeAllChunks
          simp [h]
        rw [this]; simp
      | limit n =>
        by_cases hn : n = 0
        · have : writeAllChunks bufs chunks (.limit n :: rest) = (.pending, [], bufs) := by
            conv => lhs; unfold writeAllChunks
            simp [h, hn]
          rw [this]; simp
        · obtain ⟨p1, p2, p3, p4, _⟩ := popChunks_spec (bufs.drop chunks) n
          have hstep : writeAllChunks bufs chunks (.limit n :: rest) =
              ((writeAllChunks (bufs.take chunks ++ (popChunks n (bufs.drop chunks)).2.2)
                  (chunks + (popChunks n (bufs.drop chunks)).2.1) rest).1,
               (popChunks n (bufs.drop chunks)).1 ++
                 (writeAllChunks (bufs.take chunks ++ (popChunks n (bufs.drop chunks)).2.2)
                  (chunks + (popChunks n (bufs.drop chunks)).2.1) rest).2.1,
               (writeAllChunks (bufs.take chunks ++ (popChunks n (bufs.drop chunks)).2.2)
                  (chunks + (popChunks n (bufs.drop chunks)).2.1) rest).2.2) := by
            conv => lhs; unfold writeAllChunks
            simp [h, hn]
          rw [hstep]
          generalize popChunks n (bufs.drop chunks) = P at *
          obtain ⟨acc, k, tail'⟩ := P
          simp only at p1 p2 p3 p4 ⊢
          have hlen : (bufs.take chunks).length = chunks := by
            rw [List.length_take]; omega
          have hinv' : ((bufs.take chunks ++ tail').take (chunks + k)).flatten = [] := by
            rw [List.take_append, hlen]
            simp only [Nat.add_sub_cancel_left, List.flatten_append]
            rw [List.take_of_length_le (by omega), hinv, p4]; rfl
          obtain ⟨j1, j2⟩ := ih _ _ hinv'
          generalize writeAllChunks (bufs.take chunks ++ tail') (chunks + k) rest = W at *
          obtain ⟨r, acc', rest'⟩ := W
          simp only at j1 j2 ⊢
          refine ⟨?_, j2⟩
          rw [List.append_assoc, j1, List.flatten_append, hinv, List.nil_append, p1]
          conv => rhs; rw [← List.take_append_drop chunks bufs, List.flatten_append, hinv, List.nil_append]

theorem writeAllChunks_spec0 (bufs : List Bytes) (sched : List WAns) :
    let (r, acc, rest) := writeAllChunks bufs 0 sched
    acc ++ rest.flatten = bufs.flatten ∧ (r = .ready () → acc = bufs.flatten) := by
  obtain ⟨h1, h2⟩ := writeAllChunks_spec sched bufs 0 (by simp)
  generalize writeAllChunks bufs 0 sched = W at *
  obtain ⟨r, acc, rest⟩ := W
  simp only at h1 h2 ⊢
  refine ⟨h1, fun hr => ?_⟩
  rw [h2 hr, List.append_nil] at h1; exact h1

/-! ## the receive side -/

/-- the receive buffer as quinn-proto keeps it while the stream is not reset: no empty segment -/
def SrcOk (s : Src) : Prop := s.reset = none ∧ ∀ seg ∈ s.segs, seg ≠ []

theorem next_chunk {s : Src} {max : Nat} (hmax : 0 < max) (h : SrcOk s) (seg : Bytes) (rest : List Bytes)
    (hs : s.segs = seg :: rest) :
    ∃ b s', s.next max = (.chunk b, s') ∧ b ≠ [] ∧ b.length ≤ max ∧ b ++ s'.segs.flatten = s.segs.flatten ∧
      SrcOk s' ∧ s'.fin = s.fin := by
  have hne : seg ≠ [] := h.2 seg (by rw [hs]; exact List.mem_cons_self)
  have hrest : ∀ x ∈ rest, x ≠ [] := fun x hx => h.2 x (by rw [hs]; exact List.mem_cons_of_mem _ hx)
  by_cases hl : seg.length ≤ max
  · refine ⟨seg, { s with segs := rest }, ?_, hne, hl, ?_, ⟨h.1, hrest⟩, rfl⟩
    · simp [Src.next, h.1, hs, hl]
    · simp [hs]
  · refine ⟨seg.take max, { s with segs := seg.drop max :: rest }, ?_, ?_, ?_, ?_, ⟨h.1, ?_⟩, rfl⟩
    · simp [Src.next, h.1, hs, hl]
    · intro h0
      rcases List.take_eq_nil_iff.mp h0 with h | h
      · omega
      · exact hne h
    · simp [List.length_take]; omega
    · simp only [hs, List.flatten_cons]
      rw [← List.append_assoc, List.take_append_drop]
    · intro x hx
      cases hx with
      | head =>
        intro h0
        have := List.drop_eq_nil_iff.mp h0
        omega
      | tail _ hx' => exact hrest x hx'

theorem next_empty {s : Src} (max : Nat) (h : SrcOk s) (hs : s.segs = []) :
    s.next max = (if s.fin then .finished else .blocked, s) := by
  simp [Src.next, h.1, hs]

/-- payload carried by a status / a poll result -/
def stData {α : Type} (dat : α → Bytes) : RStatus α → Bytes
  | .readable a => dat a
  | .finished a => (a.map dat).getD []
  | .failedBlocked a => (a.map dat).getD []
  | .failedReset a _ => (a.map dat).getD []

def pollData {α : Type} (dat : α → Bytes) : RPoll α → Bytes
  | .ready (some a) => dat a
  | _ => []

def isReset {α : Type} : RStatus α → Bool
  | .failedReset _ _ => true
  | _ => false

def isFinished {α : Type} : RStatus α → Bool
  | .finished _ => true
  | _ => false

def isBlockedNone {α : Type} : RStatus α → Bool
  | .failedBlocked none => true
  | _ => false

def isFinishedNone {α : Type} : RStatus α → Bool
  | .finished none => true
  | _ => false

theorem execRead_spec {α : Type} (dat : α → Bytes) (rs : RS) (st : RStatus α) (hr : isReset st = false)
    (hrs : rs.reset = none) :
    pollData dat (execRead rs none st).1 = stData dat st ∧ (execRead rs none st).2.reset = none ∧
    ((execRead rs none st).2.allDataRead = (rs.allDataRead || isFinished st)) ∧
    (∀ e, (execRead rs none st).1 ≠ .err e) ∧
    ((execRead rs none st).1 = .ready none ↔ isFinishedNone st = true) ∧
    ((execRead rs none st).1 = .pending ↔ isBlockedNone st = true) := by
  cases st with
  | readable a => simp [execRead, pollData, stData, hrs, isFinished, isFinishedNone, isBlockedNone]
  | finished a => cases a <;> simp [execRead, pollData, stData, hrs, isFinished, isFinishedNone, isBlockedNone]
  | failedBlocked a =>
    cases a <;> simp [execRead, pollData, stData, hrs, isFinished, isFinishedNone, isBlockedNone]
  | failedReset a c => simp [isReset] at hr

theorem optData_ite (acc : Bytes) :
    ((if acc.isEmpty = true then (none : Option Bytes) else some acc).map id).getD [] = acc := by
  cases acc <;> simp

/-- the closure of `poll_read_impl` -/
theorem fillLoop_spec (cap : Nat) (hcap : 0 < cap) : ∀ (fuel : Nat) (acc : Bytes) (s : Src), SrcOk s →
    stData id (fillLoop cap fuel acc s).1 ++ (fillLoop cap fuel acc s).2.segs.flatten = acc ++ s.segs.flatten ∧
    SrcOk (fillLoop cap fuel acc s).2 ∧ (fillLoop cap fuel acc s).2.fin = s.fin ∧
    isReset (fillLoop cap fuel acc s).1 = false ∧
    (isFinished (fillLoop cap fuel acc s).1 = true → (fillLoop cap fuel acc s).2.segs = [] ∧ s.fin = true) ∧
    (isFinishedNone (fillLoop cap fuel acc s).1 = true → acc = []) ∧
    (isBlockedNone (fillLoop cap fuel acc s).1 = true →
        acc = [] ∧ (fillLoop cap fuel acc s).2.segs = [] ∧ s.fin = false) ∧
    (acc.length ≤ cap → (stData id (fillLoop cap fuel acc s).1).length ≤ cap) ∧
    (0 < fuel ∨ acc ≠ [] → ∀ a, (fillLoop cap fuel acc s).1 = .readable a → a ≠ []) := by
  intro fuel
  induction fuel with
  | zero =>
    intro acc s hs
    have : fillLoop cap 0 acc s = (.readable acc, s) := rfl
    rw [this]
    refine ⟨rfl, hs, rfl, rfl, ?_, ?_, ?_, fun h => h, ?_⟩
    · intro h; simp [isFinished] at h
    · intro h; simp [isFinishedNone] at h
    · intro h; simp [isBlockedNone] at h
    · intro h a ha
      cases h with
      | inl h => omega
      | inr h => simp only [RStatus.readable.injEq] at ha; subst ha; exact h
  | succ fuel ih =>
    intro acc s hs
    by_cases hfull : acc.length ≥ cap
    · have : fillLoop cap (fuel + 1) acc s = (.readable acc, s) := by simp [fillLoop, hfull]
      rw [this]
      refine ⟨rfl, hs, rfl, rfl, ?_, ?_, ?_, fun h => h, ?_⟩
      · intro h; simp [isFinished] at h
      · intro h; simp [isFinishedNone] at h
      · intro h; simp [isBlockedNone] at h
      · intro _ a ha
        simp only [RStatus.readable.injEq] at ha; subst ha
        intro h0; subst h0; simp at hfull; omega
    · cases hsegs : s.segs with
      | nil =>
        have hn := next_empty (cap - acc.length) hs hsegs
        by_cases hfin : s.fin = true
        · have : fillLoop cap (fuel + 1) acc s = (.finished (if acc.isEmpty then none else some acc), s) := by
            simp [fillLoop, hfull, hn, hfin]
          rw [this]
          have hd : stData id (RStatus.finished (if acc.isEmpty then none else some acc)) = acc := by
            cases acc <;> rfl
          refine ⟨?_, hs, rfl, rfl, fun _ => ⟨hsegs, hfin⟩, ?_, ?_, ?_, ?_⟩
          · show stData id _ ++ s.segs.flatten = _; rw [hd, hsegs]
          · intro h; cases acc with
            | nil => rfl
            | cons x xs => simp [isFinishedNone] at h
          · intro h; cases acc <;> simp [isBlockedNone] at h
          · intro h; show (stData id _).length ≤ cap; rw [hd]; exact h
          · intro _ a ha; cases acc <;> simp at ha
        · have hfin' : s.fin = false := by simpa using hfin
          have : fillLoop cap (fuel + 1) acc s = (.failedBlocked (if acc.isEmpty then none else some acc), s) := by
            simp [fillLoop, hfull, hn, hfin']
          rw [this]
          have hd : stData id (RStatus.failedBlocked (if acc.isEmpty then none else some acc)) = acc := by
            cases acc <;> rfl
          refine ⟨?_, hs, rfl, rfl, ?_, ?_, ?_, ?_, ?_⟩
          · show stData id _ ++ s.segs.flatten = _; rw [hd, hsegs]
          · intro h; cases acc <;> simp [isFinished] at h
          · intro h; cases acc <;> simp [isFinishedNone] at h
          · intro h; cases acc with
            | nil => exact ⟨rfl, hsegs, hfin'⟩
            | cons x xs => simp [isBlockedNone] at h
          · intro h; show (stData id _).length ≤ cap; rw [hd]; exact h
          · intro _ a ha; cases acc <;> simp at ha
      | cons seg rest =>
        obtain ⟨b, s', hn, hb, hbl, hcons, hs', hfin'⟩ :=
          next_chunk (max := cap - acc.length) (by omega) hs seg rest hsegs
        have : fillLoop cap (fuel + 1) acc s = fillLoop cap fuel (acc ++ b) s' := by
          simp [fillLoop, hfull, hn]
        rw [this]
        obtain ⟨i1, i2, i3, i4, i5, i6, i7, i8, i9⟩ := ih (acc ++ b) s' hs'
        refine ⟨?_, i2, by rw [i3, hfin'], i4, ?_, ?_, ?_, ?_, ?_⟩
        · rw [i1, List.append_assoc, hcons, hsegs]
        · intro h; rw [← hfin']; exact i5 h
        · intro h; have := i6 h; simp at this; exact absurd this.2 hb
        · intro h; have := (i7 h).1; simp at this; exact absurd this.2 hb
        · intro _; apply i8; simp; omega
        · intro _ a ha
          apply i9 _ a ha
          right; simp [hb]

/-- the closure of `read_chunks` -/
theorem chunksLoop_spec (n : Nat) : ∀ (fuel : Nat) (acc : List Bytes) (s : Src), SrcOk s →
    (∀ x ∈ acc, x ≠ []) →
    stData List.flatten (chunksLoop n fuel acc s).1 ++ (chunksLoop n fuel acc s).2.segs.flatten
      = acc.flatten ++ s.segs.flatten ∧
    SrcOk (chunksLoop n fuel acc s).2 ∧ (chunksLoop n fuel acc s).2.fin = s.fin ∧
    isReset (chunksLoop n fuel acc s).1 = false ∧
    (isFinished (chunksLoop n fuel acc s).1 = true → (chunksLoop n fuel acc s).2.segs = [] ∧ s.fin = true) ∧
    (isBlockedNone (chunksLoop n fuel acc s).1 = true →
        (chunksLoop n fuel acc s).2.segs = [] ∧ s.fin = false) := by
  intro fuel
  induction fuel with
  | zero =>
    intro acc s hs _
    have : chunksLoop n 0 acc s = (.readable acc, s) := rfl
    rw [this]
    refine ⟨rfl, hs, rfl, rfl, ?_, ?_⟩
    · intro h; simp [isFinished] at h
    · intro h; simp [isBlockedNone] at h
  | succ fuel ih =>
    intro acc s hs hacc
    by_cases hfull : acc.length ≥ n
    · have : chunksLoop n (fuel + 1) acc s = (.readable acc, s) := by simp [chunksLoop, hfull]
      rw [this]
      refine ⟨rfl, hs, rfl, rfl, ?_, ?_⟩
      · intro h; simp [isFinished] at h
      · intro h; simp [isBlockedNone] at h
    · cases hsegs : s.segs with
      | nil =>
        by_cases hfin : s.fin = true
        · have : chunksLoop n (fuel + 1) acc s = (.finished (if acc.isEmpty then none else some acc), s) := by
            simp [chunksLoop, hfull, hsegs, hs.1, hfin]
          rw [this]
          have hd : stData List.flatten (RStatus.finished (if acc.isEmpty then none else some acc)) = acc.flatten := by
            cases acc <;> rfl
          refine ⟨?_, hs, rfl, rfl, fun _ => ⟨hsegs, hfin⟩, ?_⟩
          · show stData List.flatten _ ++ s.segs.flatten = _; rw [hd, hsegs]
          · intro h; cases acc <;> simp [isBlockedNone] at h
        · have hfin' : s.fin = false := by simpa using hfin
          have : chunksLoop n (fuel + 1) acc s = (.failedBlocked (if acc.isEmpty then none else some acc), s) := by
            simp [chunksLoop, hfull, hsegs, hs.1, hfin']
          rw [this]
          have hd : stData List.flatten (RStatus.failedBlocked (if acc.isEmpty then none else some acc)) = acc.flatten := by
            cases acc <;> rfl
          refine ⟨?_, hs, rfl, rfl, ?_, ?_⟩
          · show stData List.flatten _ ++ s.segs.flatten = _; rw [hd, hsegs]
          · intro h; cases acc <;> simp [isFinished] at h
          · intro _; exact ⟨hsegs, hfin'⟩
      | cons seg rest =>
        have : chunksLoop n (fuel + 1) acc s = chunksLoop n fuel (acc ++ [seg]) { s with segs := rest } := by
          simp [chunksLoop, hfull, hsegs, hs.1]
        rw [this]
        have hs' : SrcOk { s with segs := rest } :=
          ⟨hs.1, fun x hx => hs.2 x (by rw [hsegs]; exact List.mem_cons_of_mem _ hx)⟩
        have hacc' : ∀ x ∈ acc ++ [seg], x ≠ [] := by
          intro x hx
          rw [List.mem_append] at hx
          cases hx with
          | inl h => exact hacc x h
          | inr h =>
            rw [List.mem_singleton] at h; subst h
            exact hs.2 x (by rw [hsegs]; exact List.mem_cons_self)
        obtain ⟨i1, i2, i3, i4, i5, i6⟩ := ih (acc ++ [seg]) _ hs' hacc'
        refine ⟨?_, i2, i3, i4, i5, i6⟩
        rw [i1]; simp

/-- what a closure run by `execute_poll_read` guarantees about the buffer -/
structure ClosOk {α : Type} (dat : α → Bytes) (s : Src) (st : RStatus α) (s' : Src) : Prop where
  cons : stData dat st ++ s'.segs.flatten = s.segs.flatten
  ok : SrcOk s'
  fin : s'.fin = s.fin
  noReset : isReset st = false
  finished : isFinished st = true → s'.segs = [] ∧ s.fin = true

/-- what one poll of a read future guarantees -/
structure PollOk {α : Type} (dat : α → Bytes) (rs : RS) (s : Src) (p : RPoll α) (rs' : RS) (s' : Src) : Prop where
  cons : pollData dat p ++ s'.segs.flatten = s.segs.flatten
  ok : SrcOk s'
  fin : s'.fin = s.fin
  rsReset : rs'.reset = none
  adr : rs'.allDataRead = true → s'.segs = [] ∧ s'.fin = true
  noErr : ∀ e, p ≠ .err e
  eos : p = .ready none → rs'.allDataRead = true
  adrMono : rs.allDataRead = true → rs'.allDataRead = true

theorem isFinished_of_none {α : Type} {st : RStatus α} (h : isFinishedNone st = true) : isFinished st = true := by
  cases st with
  | finished a => rfl
  | readable a => simp [isFinishedNone] at h
  | failedBlocked a => simp [isFinishedNone] at h
  | failedReset a c => simp [isFinishedNone] at h

theorem pollOk_of_closure {α : Type} (dat : α → Bytes) {rs : RS} {s s' : Src} {st : RStatus α}
    (hrs : rs.reset = none) (hadr : rs.allDataRead = false) (hc : ClosOk dat s st s') :
    PollOk dat rs s (execRead rs none st).1 (execRead rs none st).2 s' := by
  obtain ⟨e1, e2, e3, e4, e5, _⟩ := execRead_spec dat rs st hc.noReset hrs
  refine ⟨by rw [e1]; exact hc.cons, hc.ok, hc.fin, e2, ?_, e4, ?_, ?_⟩
  · intro h
    rw [e3, hadr, Bool.false_or] at h
    have := hc.finished h
    exact ⟨this.1, by rw [hc.fin]; exact this.2⟩
  · intro h
    rw [e3, hadr, Bool.false_or]
    exact isFinished_of_none (e5.mp h)
  · intro h; rw [hadr] at h; cases h

theorem pollOk_refl_eos {α : Type} (dat : α → Bytes) {rs : RS} {s : Src} (hs : SrcOk s) (hrs : rs.reset = none)
    (hadr : rs.allDataRead = true → s.segs = [] ∧ s.fin = true) (h : rs.allDataRead = true) :
    PollOk dat rs s (.ready none) rs s :=
  ⟨by simp [pollData], hs, rfl, hrs, hadr, (fun e h => by cases h), (fun _ => h), (fun h => h)⟩

theorem pollRead_ok (cap : Nat) (rs : RS) (s : Src) (hs : SrcOk s) (hrs : rs.reset = none)
    (hadr : rs.allDataRead = true → s.segs = [] ∧ s.fin = true) :
    PollOk id rs s (pollRead cap rs none s).1 (pollRead cap rs none s).2.1 (pollRead cap rs none s).2.2 := by
  by_cases hcap : cap = 0
  · have : pollRead cap rs none s = (.ready (some []), rs, s) := by simp [pollRead, hcap]
    rw [this]
    exact ⟨by simp [pollData], hs, rfl, hrs, hadr, (fun e h => by cases h), (fun h => by cases h), (fun h => h)⟩
  · by_cases h : rs.allDataRead = true
    · have : pollRead cap rs none s = (.ready none, rs, s) := by simp [pollRead, hcap, h]
      rw [this]; exact pollOk_refl_eos id hs hrs hadr h
    · have hf : rs.allDataRead = false := by simpa using h
      have : pollRead cap rs none s =
          ((execRead rs none (fillLoop cap (cap + 1) [] s).1).1, (execRead rs none (fillLoop cap (cap + 1) [] s).1).2,
           (fillLoop cap (cap + 1) [] s).2) := by
        simp [pollRead, hcap, hf, hrs]
      rw [this]
      obtain ⟨i1, i2, i3, i4, i5, _⟩ := fillLoop_spec cap (by omega) (cap + 1) [] s hs
      exact pollOk_of_closure id hrs hf ⟨by simpa using i1, i2, i3, i4, i5⟩

theorem chunkOnce_clos (max : Nat) (hmax : 0 < max) (s : Src) (hs : SrcOk s) :
    ClosOk id s (chunkOnce max s).1 (chunkOnce max s).2 := by
  cases hsegs : s.segs with
  | nil =>
    have hn := next_empty max hs hsegs
    by_cases hfin : s.fin = true
    · have : chunkOnce max s = (.finished none, s) := by simp [chunkOnce, hn, hfin]
      rw [this]
      exact ⟨by simp [stData, hsegs], hs, rfl, rfl, fun _ => ⟨hsegs, hfin⟩⟩
    · have hfin' : s.fin = false := by simpa using hfin
      have : chunkOnce max s = (.failedBlocked none, s) := by simp [chunkOnce, hn, hfin']
      rw [this]
      exact ⟨by simp [stData, hsegs], hs, rfl, rfl, fun h => by simp [isFinished] at h⟩
  | cons seg rest =>
    obtain ⟨b, s', hn, _, _, hcons, hs', hfin'⟩ := next_chunk hmax hs seg rest hsegs
    have : chunkOnce max s = (.readable b, s') := by simp [chunkOnce, hn]
    rw [this]
    exact ⟨by simpa [stData, hsegs] using hcons, hs', hfin', rfl, fun h => by simp [isFinished] at h⟩

theorem pollReadChunk_ok (max : Nat) (hmax : 0 < max) (rs : RS) (s : Src) (hs : SrcOk s) (hrs : rs.reset = none)
    (hadr : rs.allDataRead = true → s.segs = [] ∧ s.fin = true) :
    PollOk id rs s (pollReadChunk max rs none s).1 (pollReadChunk max rs none s).2.1
      (pollReadChunk max rs none s).2.2 := by
  by_cases h : rs.allDataRead = true
  · have : pollReadChunk max rs none s = (.ready none, rs, s) := by simp [pollReadChunk, h]
    rw [this]; exact pollOk_refl_eos id hs hrs hadr h
  · have hf : rs.allDataRead = false := by simpa using h
    have : pollReadChunk max rs none s =
        ((execRead rs none (chunkOnce max s).1).1, (execRead rs none (chunkOnce max s).1).2, (chunkOnce max s).2) := by
      simp [pollReadChunk, hf, hrs]
    rw [this]
    exact pollOk_of_closure id hrs hf (chunkOnce_clos max hmax s hs)

theorem pollReadChunks_ok (n : Nat) (rs : RS) (s : Src) (hs : SrcOk s) (hrs : rs.reset = none)
    (hadr : rs.allDataRead = true → s.segs = [] ∧ s.fin = true) :
    PollOk List.flatten rs s (pollReadChunks n rs none s).1 (pollReadChunks n rs none s).2.1
      (pollReadChunks n rs none s).2.2 := by
  by_cases hn : n = 0
  · have : pollReadChunks n rs none s = (.ready (some []), rs, s) := by simp [pollReadChunks, hn]
    rw [this]
    exact ⟨by simp [pollData], hs, rfl, hrs, hadr, (fun e h => by cases h), (fun h => by cases h), (fun h => h)⟩
  · by_cases h : rs.allDataRead = true
    · have : pollReadChunks n rs none s = (.ready none, rs, s) := by simp [pollReadChunks, hn, h]
      rw [this]; exact pollOk_refl_eos _ hs hrs hadr h
    · have hf : rs.allDataRead = false := by simpa using h
      have : pollReadChunks n rs none s =
          ((execRead rs none (chunksLoop n (n + 1) [] s).1).1, (execRead rs none (chunksLoop n (n + 1) [] s).1).2,
           (chunksLoop n (n + 1) [] s).2) := by
        simp [pollReadChunks, hn, hf, hrs]
      rw [this]
      obtain ⟨i1, i2, i3, i4, i5, _⟩ := chunksLoop_spec n (n + 1) [] s hs (by simp)
      exact pollOk_of_closure _ hrs hf ⟨by simpa using i1, i2, i3, i4, i5⟩

/-! ### the reader -/

structure RInv (r : Reader) : Prop where
  src : SrcOk r.src
  rsReset : r.rs.reset = none
  adr : r.rs.allDataRead = true → r.src.segs = [] ∧ r.src.fin = true
  errs : r.errs = 0
  eos : 0 < r.eos → r.rs.allDataRead = true

theorem rinv_init : RInv Reader.init :=
  ⟨⟨rfl, (fun _ h => by cases h)⟩, rfl, (fun h => by cases h), rfl, (fun h => by cases h)⟩

theorem got_cons (r : Reader) (b : Bytes) (rs : RS) (s : Src) (e p er : Nat) :
    Reader.got { rs := rs, src := s, rparts := b :: r.rparts, eos := e, pendings := p, errs := er } = r.got ++ b := by
  simp [Reader.got]

theorem apply_spec (r : Reader) (hr : RInv r) (p : RPoll Bytes) (rs' : RS) (s' : Src)
    (h : PollOk id r.rs r.src p rs' s') :
    RInv (r.apply (p, rs', s')) ∧
    (r.apply (p, rs', s')).got ++ (r.apply (p, rs', s')).src.segs.flatten = r.got ++ r.src.segs.flatten ∧
    (r.apply (p, rs', s')).src.fin = r.src.fin := by
  cases p with
  | ready a =>
    cases a with
    | some b =>
      refine ⟨⟨h.ok, h.rsReset, h.adr, hr.errs, fun he => h.adrMono (hr.eos he)⟩, ?_, h.fin⟩
      have hg : (r.apply (RPoll.ready (some b), rs', s')).got = r.got ++ b := by
        simp [Reader.apply, Reader.got]
      show (r.apply (RPoll.ready (some b), rs', s')).got ++ s'.segs.flatten = _
      rw [hg, List.append_assoc]
      have := h.cons; simp only [pollData, id] at this; rw [this]
    | none =>
      refine ⟨⟨h.ok, h.rsReset, h.adr, hr.errs, fun _ => h.eos rfl⟩, ?_, h.fin⟩
      show r.got ++ s'.segs.flatten = _
      have := h.cons; simp only [pollData, List.nil_append] at this; rw [this]
  | pending =>
    refine ⟨⟨h.ok, h.rsReset, h.adr, hr.errs, fun he => h.adrMono (hr.eos he)⟩, ?_, h.fin⟩
    show r.got ++ s'.segs.flatten = _
    have := h.cons; simp only [pollData, List.nil_append] at this; rw [this]
  | err e => exact absurd rfl (h.noErr e)

theorem applyChunks_spec (r : Reader) (hr : RInv r) (p : RPoll (List Bytes)) (rs' : RS) (s' : Src)
    (h : PollOk List.flatten r.rs r.src p rs' s') :
    RInv (r.applyChunks (p, rs', s')) ∧
    (r.applyChunks (p, rs', s')).got ++ (r.applyChunks (p, rs', s')).src.segs.flatten
      = r.got ++ r.src.segs.flatten ∧
    (r.applyChunks (p, rs', s')).src.fin = r.src.fin := by
  cases p with
  | ready a =>
    cases a with
    | some bs =>
      refine ⟨⟨h.ok, h.rsReset, h.adr, hr.errs, fun he => h.adrMono (hr.eos he)⟩, ?_, h.fin⟩
      have hg : (r.applyChunks (RPoll.ready (some bs), rs', s')).got = r.got ++ bs.flatten := by
        simp [Reader.applyChunks, Reader.got]
      show (r.applyChunks (RPoll.ready (some bs), rs', s')).got ++ s'.segs.flatten = _
      rw [hg, List.append_assoc]
      have := h.cons; simp only [pollData] at this; rw [this]
    | none =>
      refine ⟨⟨h.ok, h.rsReset, h.adr, hr.errs, fun _ => h.eos rfl⟩, ?_, h.fin⟩
      show r.got ++ s'.segs.flatten = _
      have := h.cons; simp only [pollData, List.nil_append] at this; rw [this]
  | pending =>
    refine ⟨⟨h.ok, h.rsReset, h.adr, hr.errs, fun he => h.adrMono (hr.eos he)⟩, ?_, h.fin⟩
    show r.got ++ s'.segs.flatten = _
    have := h.cons; simp only [pollData, List.nil_append] at this; rw [this]
  | err e => exact absurd rfl (h.noErr e)

/-- one step: the invariant, and conservation of the byte stream -/
theorem step_spec (r : Reader) (hr : RInv r) (x : RStep) :
    RInv (r.step x) ∧
    (r.step x).got ++ (r.step x).src.segs.flatten =
      r.got ++ r.src.segs.flatten ++
        (match x with | .deliver seg => if r.src.fin then [] else seg | _ => []) ∧
    ((r.step x).src.fin = true → r.src.fin = true ∨ x = .finish) ∧
    (r.src.fin = true → (r.step x).src.fin = true) := by
  cases x with
  | deliver seg =>
    by_cases hf : r.src.fin = true
    · have : r.step (.deliver seg) = r := by simp [Reader.step, hf]
      rw [this]; simp [hf, hr]
    · have hf' : r.src.fin = false := by simpa using hf
      by_cases he : seg = []
      · have : r.step (.deliver seg) = r := by simp [Reader.step, he]
        rw [this]; simp [he, hr]
      · have : r.step (.deliver seg) = { r with src := { r.src with segs := r.src.segs ++ [seg] } } := by
          simp [Reader.step, hf', he]
        rw [this]
        refine ⟨⟨⟨hr.src.1, ?_⟩, hr.rsReset, ?_, hr.errs, hr.eos⟩, ?_, fun h => Or.inl h, fun h => h⟩
        · intro y hy
          rw [List.mem_append] at hy
          cases hy with
          | inl h => exact hr.src.2 y h
          | inr h => rw [List.mem_singleton] at h; subst h; exact he
        · intro h; have := (hr.adr h).2; rw [hf'] at this; cases this
        · show r.got ++ (r.src.segs ++ [seg]).flatten = _
          simp [hf']
  | finish =>
    have : r.step .finish = { r with src := { r.src with fin := true } } := rfl
    rw [this]
    refine ⟨⟨⟨hr.src.1, hr.src.2⟩, hr.rsReset, fun h => ⟨(hr.adr h).1, rfl⟩, hr.errs, hr.eos⟩, by simp [Reader.got],
      fun _ => Or.inr rfl, fun _ => rfl⟩
  | read cap =>
    have h := apply_spec r hr _ _ _ (pollRead_ok cap r.rs r.src hr.src hr.rsReset hr.adr)
    exact ⟨h.1, by simpa [Reader.step] using h.2.1, fun hh => Or.inl (by rw [← h.2.2]; exact hh),
      fun hh => by rw [← hh]; exact h.2.2⟩
  | readChunk max =>
    by_cases hmax : 0 < max
    · have h := apply_spec r hr _ _ _ (pollReadChunk_ok max hmax r.rs r.src hr.src hr.rsReset hr.adr)
      exact ⟨h.1, by simpa [Reader.step] using h.2.1, fun hh => Or.inl (by rw [← h.2.2]; exact hh),
        fun hh => by rw [← hh]; exact h.2.2⟩
    · have h0 : max = 0 := by omega
      subst h0
      -- `read_chunk(0, ..)`: `Chunks::next(0)` hands out an empty chunk and keeps the buffer
      have hp : PollOk id r.rs r.src (pollReadChunk 0 r.rs none r.src).1 (pollReadChunk 0 r.rs none r.src).2.1
          (pollReadChunk 0 r.rs none r.src).2.2 := by
        by_cases h : r.rs.allDataRead = true
        · have : pollReadChunk 0 r.rs none r.src = (.ready none, r.rs, r.src) := by simp [pollReadChunk, h]
          rw [this]; exact pollOk_refl_eos id hr.src hr.rsReset hr.adr h
        · have hf : r.rs.allDataRead = false := by simpa using h
          have e : pollReadChunk 0 r.rs none r.src =
              ((execRead r.rs none (chunkOnce 0 r.src).1).1, (execRead r.rs none (chunkOnce 0 r.src).1).2,
               (chunkOnce 0 r.src).2) := by
            simp [pollReadChunk, hf, hr.rsReset]
          rw [e]
          apply pollOk_of_closure id hr.rsReset hf
          cases hsegs : r.src.segs with
          | nil =>
            have hn := next_empty 0 hr.src hsegs
            by_cases hfin : r.src.fin = true
            · have : chunkOnce 0 r.src = (.finished none, r.src) := by simp [chunkOnce, hn, hfin]
              rw [this]
              exact ⟨by simp [stData, hsegs], hr.src, rfl, rfl, fun _ => ⟨hsegs, hfin⟩⟩
            · have hfin' : r.src.fin = false := by simpa using hfin
              have : chunkOnce 0 r.src = (.failedBlocked none, r.src) := by simp [chunkOnce, hn, hfin']
              rw [this]
              exact ⟨by simp [stData, hsegs], hr.src, rfl, rfl, fun h => by simp [isFinished] at h⟩
          | cons seg rest =>
            have hne : seg ≠ [] := hr.src.2 seg (by rw [hsegs]; exact List.mem_cons_self)
            have hl : ¬ seg.length ≤ 0 := by
              intro h; exact hne (List.eq_nil_of_length_eq_zero (by omega))
            have : chunkOnce 0 r.src = (.readable [], { r.src with segs := seg :: rest }) := by
              simp [chunkOnce, Src.next, hr.src.1, hsegs, hl]
            rw [this]
            refine ⟨by simp [stData, hsegs], ⟨hr.src.1, ?_⟩, rfl, rfl, fun h => by simp [isFinished] at h⟩
            intro y hy; exact hr.src.2 y (by rw [hsegs]; exact hy)
      have h := apply_spec r hr _ _ _ hp
      exact ⟨h.1, by simpa [Reader.step] using h.2.1, fun hh => Or.inl (by rw [← h.2.2]; exact hh),
        fun hh => by rw [← hh]; exact h.2.2⟩
  | readChunks n =>
    have h := applyChunks_spec r hr _ _ _ (pollReadChunks_ok n r.rs r.src hr.src hr.rsReset hr.adr)
    exact ⟨h.1, by simpa [Reader.step] using h.2.1, fun hh => Or.inl (by rw [← h.2.2]; exact hh),
      fun hh => by rw [← hh]; exact h.2.2⟩

theorem run_spec (steps : List RStep) : ∀ r : Reader, RInv r →
    RInv (r.run steps) ∧
    (r.run steps).got ++ (r.run steps).src.segs.flatten =
      r.got ++ r.src.segs.flatten ++ (if r.src.fin then [] else deliveredBefore steps) ∧
    ((r.run steps).src.fin = true → r.src.fin = true ∨ RStep.finish ∈ steps) := by
  induction steps with
  | nil => intro r hr; exact ⟨hr, by simp [Reader.run, deliveredBefore], fun h => Or.inl h⟩
  | cons x xs ih =>
    intro r hr
    obtain ⟨s1, s2, s3, s4⟩ := step_spec r hr x
    obtain ⟨i1, i2, i3⟩ := ih (r.step x) s1
    refine ⟨i1, ?_, ?_⟩
    · show ((r.step x).run xs).got ++ ((r.step x).run xs).src.segs.flatten = _
      rw [i2, s2]
      by_cases hf : r.src.fin = true
      · cases x <;> simp [hf, s4 hf]
      · have hf' : r.src.fin = false := by simpa using hf
        cases x with
        | deliver seg =>
          have : (r.step (.deliver seg)).src.fin = false := by
            cases h : (r.step (.deliver seg)).src.fin with
            | false => rfl
            | true =>
              cases s3 h with
              | inl h' => rw [hf'] at h'; cases h'
              | inr h' => cases h'
          simp [hf', this, deliveredBefore]
        | finish =>
          have : (r.step .finish).src.fin = true := rfl
          simp [hf', this, deliveredBefore]
        | read cap =>
          have : (r.step (.read cap)).src.fin = false := by
            cases h : (r.step (.read cap)).src.fin with
            | false => rfl
            | true =>
              cases s3 h with
              | inl h' => rw [hf'] at h'; cases h'
              | inr h' => cases h'
          simp [hf', this, deliveredBefore]
        | readChunk m =>
          have : (r.step (.readChunk m)).src.fin = false := by
            cases h : (r.step (.readChunk m)).src.fin with
            | false => rfl
            | true =>
              cases s3 h with
              | inl h' => rw [hf'] at h'; cases h'
              | inr h' => cases h'
          simp [hf', this, deliveredBefore]
        | readChunks m =>
          have : (r.step (.readChunks m)).src.fin = false := by
            cases h : (r.step (.readChunks m)).src.fin with
            | false => rfl
            | true =>
              cases s3 h with
              | inl h' => rw [hf'] at h'; cases h'
              | inr h' => cases h'
          simp [hf', this, deliveredBefore]
    · intro h
      cases i3 h with
      | inl h' =>
        cases s3 h' with
        | inl h'' => exact Or.inl h''
        | inr h'' => exact Or.inr (by rw [h'']; exact List.mem_cons_self)
      | inr h' => exact Or.inr (List.mem_cons_of_mem _ h')

theorem reader_conserves (steps : List RStep) :
    let r := Reader.init.run steps
    r.got ++ r.src.segs.flatten = deliveredBefore steps ∧ r.errs = 0 := by
  obtain ⟨h1, h2, _⟩ := run_spec steps Reader.init rinv_init
  refine ⟨?_, h1.errs⟩
  rw [h2]; simp [Reader.init, Reader.got]

theorem reader_eos (steps : List RStep) (h : 0 < (Reader.init.run steps).eos) :
    RStep.finish ∈ steps ∧ (Reader.init.run steps).got = deliveredBefore steps ∧
      ∀ cap, 0 < cap → ((Reader.init.run steps).step (.read cap)).eos = (Reader.init.run steps).eos + 1 ∧
        ((Reader.init.run steps).step (.read cap)).got = (Reader.init.run steps).got := by
  obtain ⟨h1, h2, h3⟩ := run_spec steps Reader.init rinv_init
  have hadr := h1.eos h
  obtain ⟨hsegs, hfin⟩ := h1.adr hadr
  refine ⟨?_, ?_, ?_⟩
  · cases h3 hfin with
    | inl h' => cases h'
    | inr h' => exact h'
  · rw [hsegs] at h2
    simpa [Reader.init, Reader.got] using h2
  · intro cap hcap
    have hc : cap ≠ 0 := by omega
    have : pollRead cap (Reader.init.run steps).rs none (Reader.init.run steps).src =
        (.ready none, (Reader.init.run steps).rs, (Reader.init.run steps).src) := by
      simp [pollRead, hc, hadr]
    simp [Reader.step, this, Reader.apply, Reader.got]

theorem reader_reports_eos (steps : List RStep) (cap : Nat) (hcap : 0 < cap)
    (hfin : (Reader.init.run steps).src.fin = true) (hempty : (Reader.init.run steps).src.segs = []) :
    ((Reader.init.run steps).step (.read cap)).eos = (Reader.init.run steps).eos + 1 := by
  obtain ⟨h1, _, _⟩ := run_spec steps Reader.init rinv_init
  generalize Reader.init.run steps = r at *
  have hc : cap ≠ 0 := by omega
  by_cases hadr : r.rs.allDataRead = true
  · have : pollRead cap r.rs none r.src = (.ready none, r.rs, r.src) := by simp [pollRead, hc, hadr]
    simp [Reader.step, this, Reader.apply]
  · have hf : r.rs.allDataRead = false := by simpa using hadr
    have hn := next_empty (cap - 0) h1.src hempty
    have hfill : fillLoop cap (cap + 1) [] r.src = (.finished none, r.src) := by
      have h0 : ¬ (0 ≥ cap) := by omega
      simp only [fillLoop, List.length_nil, hn, hfin, if_true]
      rw [if_neg h0]; rfl
    have : pollRead cap r.rs none r.src = (.ready none, { r.rs with allDataRead := true }, r.src) := by
      simp [pollRead, hc, hf, h1.rsReset, hfill, execRead]
    simp [Reader.step, this, Reader.apply]

/-! ## `read_to_end`: buffer assembly -/

theorem foldl_min_le (l : List (Nat × Bytes)) : ∀ m, l.foldl (fun m c => min m c.1) m ≤ m := by
  induction l with
  | nil => intro m; exact Nat.le_refl _
  | cons c r ih => intro m; exact Nat.le_trans (ih _) (Nat.min_le_left _ _)

theorem foldl_min_withOffsets (parts : List Bytes) : ∀ off m, m ≤ off →
    (withOffsets off parts).foldl (fun m c => min m c.1) m = m := by
  induction parts with
  | nil => intro off m _; rfl
  | cons b bs ih =>
    intro off m h
    simp only [withOffsets, List.foldl_cons]
    have : min m off = m := Nat.min_eq_left h
    rw [this]
    exact ih _ _ (by omega)

theorem foldl_max_withOffsets (parts : List Bytes) : ∀ off m, m ≤ off →
    (withOffsets off parts).foldl (fun m c => max m (c.1 + c.2.length)) m
      = if parts = [] then m else off + parts.flatten.length := by
  induction parts with
  | nil => intro off m _; rfl
  | cons b bs ih =>
    intro off m h
    simp only [withOffsets, List.foldl_cons]
    have hm : max m (off + b.length) = off + b.length := by omega
    rw [hm, ih (off + b.length) (off + b.length) (Nat.le_refl _)]
    by_cases hb : bs = []
    · subst hb; simp
    · simp [hb]; omega

theorem placeAt_prefix (p z b : Bytes) (_hz : b.length ≤ z.length) :
    placeAt (p ++ z) p.length b = p ++ b ++ z.drop b.length := by
  unfold placeAt
  rw [List.take_left' rfl]
  congr 1
  rw [List.drop_append]
  simp [List.drop_eq_nil_of_le]

theorem fold_place (parts : List Bytes) : ∀ (start off : Nat) (p : Bytes) (n : Nat),
    off = start + p.length → parts.flatten.length ≤ n →
    (withOffsets off parts).foldl (fun buf c => placeAt buf (c.1 - start) c.2) (p ++ List.replicate n 0)
      = p ++ parts.flatten ++ List.replicate (n - parts.flatten.length) 0 := by
  induction parts with
  | nil => intro start off p n _ _; simp [withOffsets]
  | cons b bs ih =>
    intro start off p n hoff hn
    simp only [withOffsets, List.foldl_cons]
    have h1 : off - start = p.length := by omega
    simp only [List.flatten_cons, List.length_append] at hn
    rw [h1, placeAt_prefix p (List.replicate n 0) b (by simp; omega)]
    have hd : (List.replicate n (0 : UInt8)).drop b.length = List.replicate (n - b.length) 0 := by
      simp
    rw [hd, ih start (off + b.length) (p ++ b) (n - b.length) (by simp; omega) (by omega)]
    simp only [List.flatten_cons, List.length_append, List.append_assoc]
    have : n - b.length - bs.flatten.length = n - (b.length + bs.flatten.length) := by omega
    rw [this]

theorem assemble_in_order (parts : List Bytes) (off : Nat) (hoff : off + parts.flatten.length < 2 ^ 64 - 1) :
    assemble (withOffsets off parts) = parts.flatten := by
  unfold assemble
  simp only
  rw [foldl_max_withOffsets parts off 0 (Nat.zero_le _)]
  by_cases hp : parts = []
  · subst hp; simp [withOffsets]
  · have hstart : (withOffsets off parts).foldl (fun m c => min m c.1) (2 ^ 64 - 1) = off := by
      cases parts with
      | nil => exact absurd rfl hp
      | cons b bs =>
        simp only [withOffsets, List.foldl_cons]
        have : min (2 ^ 64 - 1) off = off := by omega
        rw [this]
        exact foldl_min_withOffsets bs _ _ (by omega)
    rw [hstart]
    simp only [hp, if_false]
    by_cases hz : parts.flatten.length = 0
    · have : parts.flatten = [] := List.eq_nil_of_length_eq_zero hz
      simp [this]
    · have hc : ¬ (off = 2 ^ 64 - 1 ∨ off ≥ off + parts.flatten.length) := by omega
      rw [if_neg hc]
      have := fold_place parts off off [] (off + parts.flatten.length - off) (by simp) (by omega)
      simp only [List.nil_append] at this
      rw [this]
      simp

/-! ### … for chunks in ANY arrival order -/

theorem placeAt_length (buf b : Bytes) (o : Nat) (h : o + b.length ≤ buf.length) :
    (placeAt buf o b).length = buf.length := by
  simp [placeAt, List.length_take, List.length_drop]; omega

theorem placeAt_getElem? (buf b : Bytes) (o i : Nat) (h : o + b.length ≤ buf.length) :
    (placeAt buf o b)[i]? = if o ≤ i ∧ i < o + b.length then b[i - o]? else buf[i]? := by
  unfold placeAt
  have hl : (buf.take o).length = o := by rw [List.length_take]; omega
  rw [List.getElem?_append, List.length_append, hl]
  by_cases h1 : i < o + b.length
  · rw [if_pos h1, List.getElem?_append, hl]
    by_cases h2 : i < o
    · rw [if_pos h2, List.getElem?_take, if_pos h2, if_neg (by omega)]
    · rw [if_neg h2, if_pos ⟨by omega, h1⟩]
  · rw [if_neg h1, List.getElem?_drop, if_neg (by omega)]
    congr 1; omega

/-- chunk `c` is a piece of the byte string `D` that starts at stream offset `start` -/
def Piece (D : Bytes) (start : Nat) (c : Nat × Bytes) : Prop :=
  start ≤ c.1 ∧ c.1 - start + c.2.length ≤ D.length ∧ ∀ j, j < c.2.length → c.2[j]? = D[c.1 - start + j]?

def Covered (start : Nat) (L : List (Nat × Bytes)) (i : Nat) : Prop :=
  ∃ c ∈ L, c.1 - start ≤ i ∧ i < c.1 - start + c.2.length

theorem fold_place_length (D : Bytes) (start : Nat) (L : List (Nat × Bytes)) :
    ∀ buf : Bytes, buf.length = D.length → (∀ c ∈ L, Piece D start c) →
    (L.foldl (fun buf c => placeAt buf (c.1 - start) c.2) buf).length = D.length := by
  induction L with
  | nil => intro buf h _; exact h
  | cons c L ih =>
    intro buf h hp
    rw [List.foldl_cons]
    apply ih
    · rw [placeAt_length _ _ _ (by have := (hp c List.mem_cons_self).2.1; omega)]; exact h
    · intro c' hc'; exact hp c' (List.mem_cons_of_mem _ hc')

/-- placing pieces of `D` in ANY order: every position that already held `D`'s byte or is covered by some piece
    holds `D`'s byte afterwards -/
theorem fold_place_correct (D : Bytes) (start : Nat) (L : List (Nat × Bytes)) :
    ∀ buf : Bytes, buf.length = D.length → (∀ c ∈ L, Piece D start c) →
    ∀ i, (buf[i]? = D[i]? ∨ Covered start L i) →
    (L.foldl (fun buf c => placeAt buf (c.1 - start) c.2) buf)[i]? = D[i]? := by
  induction L with
  | nil =>
    intro buf _ _ i h
    cases h with
    | inl h => exact h
    | inr h => obtain ⟨c, hc, _⟩ := h; cases hc
  | cons c L ih =>
    intro buf hlen hp i h
    rw [List.foldl_cons]
    have hpc := hp c List.mem_cons_self
    have hfit : c.1 - start + c.2.length ≤ buf.length := by rw [hlen]; exact hpc.2.1
    apply ih _ (by rw [placeAt_length _ _ _ hfit]; exact hlen) (fun c' hc' => hp c' (List.mem_cons_of_mem _ hc'))
    -- after placing `c`: position `i` is right if it was right or `c` covers it
    have hget := placeAt_getElem? buf c.2 (c.1 - start) i hfit
    by_cases hin : c.1 - start ≤ i ∧ i < c.1 - start + c.2.length
    · left
      rw [hget, if_pos hin, hpc.2.2 (i - (c.1 - start)) (by omega)]
      congr 1; omega
    · cases h with
      | inl h => left; rw [hget, if_neg hin]; exact h
      | inr h =>
        obtain ⟨c', hc', hcov⟩ := h
        cases hc' with
        | head => exact absurd hcov hin
        | tail _ hc'' => right; exact ⟨c', hc'', hcov⟩

theorem pieces_withOffsets (start : Nat) (parts : List Bytes) : ∀ (pre : Bytes) (o : Nat), o = start + pre.length →
    ∀ post : Bytes, ∀ c ∈ withOffsets o parts, Piece (pre ++ parts.flatten ++ post) start c := by
  induction parts with
  | nil => intro pre o _ post c hc; cases hc
  | cons b bs ih =>
    intro pre o ho post c hc
    simp only [withOffsets, List.mem_cons] at hc
    cases hc with
    | inl h =>
      subst h
      refine ⟨by simp; omega, by simp; omega, ?_⟩
      intro j hj
      simp only at hj
      simp only [List.flatten_cons]
      have : o - start + j = pre.length + j := by omega
      rw [this, List.append_assoc, List.getElem?_append_right (by omega), List.append_assoc,
        List.getElem?_append_left (by omega)]
      congr 1; omega
    | inr h =>
      have := ih (pre ++ b) (o + b.length) (by simp; omega) post c h
      simpa [List.append_assoc] using this

theorem covered_withOffsets (start : Nat) (parts : List Bytes) : ∀ (k o : Nat), o = start + k →
    ∀ i, k ≤ i → i < k + parts.flatten.length → Covered start (withOffsets o parts) i := by
  induction parts with
  | nil => intro k o _ i h1 h2; simp at h2; omega
  | cons b bs ih =>
    intro k o ho i h1 h2
    simp only [List.flatten_cons, List.length_append] at h2
    by_cases hb : i < k + b.length
    · exact ⟨(o, b), by simp [withOffsets], by simp; omega, by simp; omega⟩
    · obtain ⟨c, hc, hcov⟩ := ih (k + b.length) (o + b.length) (by omega) i (by omega) (by omega)
      exact ⟨c, by simp [withOffsets, hc], hcov⟩

theorem min_comm3 (z x y : Nat) : min (min z x) y = min (min z y) x := by omega
theorem max_comm3 (z x y : Nat) : max (max z x) y = max (max z y) x := by omega

/-- `read_to_end`: chunks `(offset, bytes)` read UNORDERED — any chunking of the remainder of the stream from the
    current read position `off`, in any arrival order — are assembled into exactly that remainder -/
theorem assemble_any_order (parts : List Bytes) (off : Nat) (chunks : List (Nat × Bytes))
    (hperm : chunks.Perm (withOffsets off parts)) (hoff : off + parts.flatten.length < 2 ^ 64 - 1) :
    assemble chunks = parts.flatten := by
  have hmin : chunks.foldl (fun m c => min m c.1) (2 ^ 64 - 1)
      = (withOffsets off parts).foldl (fun m c => min m c.1) (2 ^ 64 - 1) :=
    hperm.foldl_eq' (fun x _ y _ z => min_comm3 z x.1 y.1) _
  have hmax : chunks.foldl (fun m c => max m (c.1 + c.2.length)) 0
      = (withOffsets off parts).foldl (fun m c => max m (c.1 + c.2.length)) 0 :=
    hperm.foldl_eq' (fun x _ y _ z => max_comm3 z _ _) _
  by_cases hz : parts.flatten.length = 0
  · -- nothing to read
    have hflat : parts.flatten = [] := List.eq_nil_of_length_eq_zero hz
    have hin := assemble_in_order parts off hoff
    unfold assemble at hin ⊢
    simp only [hmin, hmax] at hin ⊢
    rw [foldl_max_withOffsets parts off 0 (Nat.zero_le _)] at hin ⊢
    by_cases hp : parts = []
    · subst hp
      have : chunks = [] := by simpa [withOffsets] using hperm.eq_nil
      simp [withOffsets]
    · have hstart : (withOffsets off parts).foldl (fun m c => min m c.1) (2 ^ 64 - 1) = off := by
        cases parts with
        | nil => exact absurd rfl hp
        | cons b bs =>
          simp only [withOffsets, List.foldl_cons]
          have : min (2 ^ 64 - 1) off = off := by omega
          rw [this]; exact foldl_min_withOffsets bs _ _ (by omega)
      rw [hstart]; simp [hp, hflat]
  · have hp : parts ≠ [] := by intro h; subst h; simp at hz
    have hstart : (withOffsets off parts).foldl (fun m c => min m c.1) (2 ^ 64 - 1) = off := by
      cases parts with
      | nil => exact absurd rfl hp
      | cons b bs =>
        simp only [withOffsets, List.foldl_cons]
        have : min (2 ^ 64 - 1) off = off := by omega
        rw [this]; exact foldl_min_withOffsets bs _ _ (by omega)
    unfold assemble
    simp only [hmin, hmax, hstart]
    rw [foldl_max_withOffsets parts off 0 (Nat.zero_le _)]
    simp only [hp, if_false]
    have hc : ¬ (off = 2 ^ 64 - 1 ∨ off ≥ off + parts.flatten.length) := by omega
    rw [if_neg hc]
    have hn : off + parts.flatten.length - off = parts.flatten.length := by omega
    rw [hn]
    have hpieces : ∀ c ∈ chunks, Piece parts.flatten off c := by
      intro c hc
      have := pieces_withOffsets off parts [] off (by simp) [] c (hperm.subset hc)
      simpa using this
    apply List.ext_getElem?
    intro i
    by_cases hi : i < parts.flatten.length
    · apply fold_place_correct parts.flatten off chunks _ (by simp) hpieces i
      right
      obtain ⟨c, hc, hcov⟩ := covered_withOffsets off parts 0 off (by simp) i (Nat.zero_le _) (by omega)
      exact ⟨c, hperm.symm.subset hc, hcov⟩
    · have hl := fold_place_length parts.flatten off chunks (List.replicate parts.flatten.length 0) (by simp) hpieces
      rw [List.getElem?_eq_none (by omega), List.getElem?_eq_none (by omega)]

end Compio.QuicWakers
