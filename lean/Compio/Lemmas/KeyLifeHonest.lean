/-
Second invariant of the key life-cycle model, about VALUES rather than ownership:
honesty (every value that sits in a result slot, a multishot queue, a completed-channel entry or an unseen CQE
was produced by the kernel / `operate` / the pool closure, or is ECANCELED) and the zero-copy ordering
(an operation handed to the kernel gets its result — hence goes back to the caller — only after its final CQE).
-/
import Compio.Lemmas.KeyLife

namespace Compio.KeyLife

open Compio.PollQueues

/-- `r` is a result the environment produced for `o`, or the cancellation error -/
def Genuine (o : Op) (r : Res) : Prop := r ∈ o.produced ∨ r = ECANCELED

structure OpOk2 (drv : Drv) (o : Op) : Prop where
  h_result : ∀ r, o.result = some r → Genuine o r
  h_multi : ∀ r, r ∈ o.multi → Genuine o r
  h_chan : ∀ r, r ∈ o.chan → Genuine o r
  h_pm : ∀ r, r ∈ o.pendMore → Genuine o r
  h_pf : ∀ r, o.pendFinal = some r → Genuine o r
  /-- ops handed to the kernel never travel through the completed channel -/
  kern_no_chan : o.kstat ≠ .none → o.chan = [] ∧ o.poolRun = false ∧ drv = .iour
  result_final : o.result.isSome = true → o.kstat ≠ .none → o.finalSeen = true
  returned_final : 0 < o.returned → o.kstat ≠ .none → o.finalSeen = true
  final_done : o.finalSeen = true → o.kstat = .done
  fin2 : o.pendFinal.isSome = true → o.kstat = .done

def Inv2 (s : State) : Prop := ∀ (i : Nat) (o : Op), s.ops[i]? = some o → OpOk2 s.drv o

theorem inv2_init (d : Drv) (cap : Nat) : Inv2 (init d cap) := by
  intro i o h; simp [init] at h

/-- `OpOk2` only reads these fields; `produced` may grow -/
theorem OpOk2.congr {d : Drv} {o o' : Op} (ok : OpOk2 d o)
    (h1 : o'.result = o.result) (h2 : o'.multi = o.multi) (h3 : o'.chan = o.chan) (h4 : o'.pendMore = o.pendMore)
    (h5 : o'.pendFinal = o.pendFinal) (h6 : o'.kstat = o.kstat) (h7 : o'.poolRun = o.poolRun)
    (h8 : o'.finalSeen = o.finalSeen) (h9 : o'.returned = o.returned) (h10 : ∀ r, r ∈ o.produced → r ∈ o'.produced) :
    OpOk2 d o' := by
  have mono : ∀ r, Genuine o r → Genuine o' r := fun r h => h.elim (fun h => Or.inl (h10 r h)) Or.inr
  obtain ⟨a1, a2, a3, a4, a5, a6, a7, a8, a9, a10⟩ := ok
  refine ⟨?_, ?_, ?_, ?_, ?_, ?_, ?_, ?_, ?_, ?_⟩
  · intro r h; rw [h1] at h; exact mono r (a1 r h)
  · intro r h; rw [h2] at h; exact mono r (a2 r h)
  · intro r h; rw [h3] at h; exact mono r (a3 r h)
  · intro r h; rw [h4] at h; exact mono r (a4 r h)
  · intro r h; rw [h5] at h; exact mono r (a5 r h)
  · rw [h6, h3, h7]; exact a6
  · rw [h1, h6, h8]; exact a7
  · rw [h9, h6, h8]; exact a8
  · rw [h8, h6]; exact a9
  · rw [h5, h6]; exact a10

theorem inv2_modAt {s s' : State} (hi : Inv2 s) (id : Nat) (f : Op → Op)
    (hops : s'.ops = modAt f s.ops id) (hdrv : s'.drv = s.drv)
    (hf : ∀ o, s.ops[id]? = some o → OpOk2 s.drv o → OpOk2 s.drv (f o)) : Inv2 s' := by
  intro j o' h
  rw [hops] at h
  rw [hdrv]
  rcases modAt_cases h with ⟨hij, x, hx, rfl⟩ | ⟨_, h⟩
  · subst hij; exact hf x hx (hi _ x hx)
  · exact hi j o' h

theorem inv2_map {s s' : State} (hi : Inv2 s) (f : Op → Op)
    (hops : s'.ops = s.ops.map f) (hdrv : s'.drv = s.drv)
    (hf : ∀ o, OpOk2 s.drv o → OpOk2 s.drv (f o)) : Inv2 s' := by
  intro j o' h
  rw [hops, List.getElem?_map] at h
  rw [hdrv]
  cases ho : s.ops[j]? with
  | none => simp [ho] at h
  | some o => simp [ho] at h; subst h; exact hf o (hi j o ho)

theorem inv2_append {s s' : State} (hi : Inv2 s) (o : Op)
    (hops : s'.ops = s.ops ++ [o]) (hdrv : s'.drv = s.drv) (hnew : OpOk2 s.drv o) : Inv2 s' := by
  intro j o' h
  rw [hops] at h
  rw [hdrv]
  rcases getElem?_append_one h with h | ⟨_, rfl⟩
  · exact hi j o' h
  · exact hnew

/-! ### op-level steps -/

theorem ok2_same {d : Drv} {o o' : Op} (ok : OpOk2 d o)
    (h1 : o'.result = o.result) (h2 : o'.multi = o.multi) (h3 : o'.chan = o.chan) (h4 : o'.pendMore = o.pendMore)
    (h5 : o'.pendFinal = o.pendFinal) (h6 : o'.kstat = o.kstat) (h7 : o'.poolRun = o.poolRun)
    (h8 : o'.finalSeen = o.finalSeen) (h9 : o'.returned = o.returned) (h10 : o'.produced = o.produced) : OpOk2 d o' :=
  ok.congr h1 h2 h3 h4 h5 h6 h7 h8 h9 (fun _ h => by rw [h10]; exact h)

/-- handing the op back requires a result, and a result requires the final CQE -/
theorem ok2_takeResult {d : Drv} {o : Op} (ok : OpOk2 d o) (hr : o.result.isSome = true) (b : Bool) :
    OpOk2 d ({ o with cancelled := b }.takeResult) := by
  obtain ⟨a1, a2, a3, a4, a5, a6, a7, a8, a9, a10⟩ := ok
  exact ⟨a1, a2, a3, a4, a5, a6, a7, fun _ hk => a7 hr hk, a9, a10⟩

theorem ok2_takeResult' {d : Drv} {o : Op} (ok : OpOk2 d o) (hr : o.result.isSome = true) :
    OpOk2 d o.takeResult := by
  obtain ⟨a1, a2, a3, a4, a5, a6, a7, a8, a9, a10⟩ := ok
  exact ⟨a1, a2, a3, a4, a5, a6, a7, fun _ hk => a7 hr hk, a9, a10⟩

theorem ok2_pollCancel {o : Op} (ok : OpOk2 .poll o) (n : Nat) :
    OpOk2 .poll ({ (o.cloneRef.dropRefs n) with chan := o.chan ++ [ECANCELED] }) := by
  obtain ⟨a1, a2, a3, a4, a5, a6, a7, a8, a9, a10⟩ := ok
  have hk : o.kstat = .none := by
    cases h : o.kstat with
    | none => rfl
    | _ => exact absurd (a6 (by rw [h]; simp)).2.2 (by simp)
  refine ⟨a1, a2, ?_, a4, a5, ?_, a7, a8, a9, a10⟩
  · intro r hr
    rcases List.mem_append.mp hr with h | h
    · exact a3 r h
    · simp at h; exact Or.inr h
  · intro hne; exact absurd hk hne

theorem ok2_submit {d : Drv} {o : Op} (ok : OpOk2 d o) : OpOk2 d o.submit := by
  obtain ⟨a1, a2, a3, a4, a5, a6, a7, a8, a9, a10⟩ := ok
  have hk : o.submit.kstat ≠ .none → o.kstat ≠ .none := by
    intro h h0; apply h; simp [Op.submit, h0]
  have hd : o.kstat = .done → o.submit.kstat = .done := by intro h; simp [Op.submit, h]
  exact ⟨a1, a2, a3, a4, a5, fun h => a6 (hk h), fun h1 h2 => a7 h1 (hk h2), fun h1 h2 => a8 h1 (hk h2),
    fun h => hd (a9 h), fun h => hd (a10 h)⟩

theorem ok2_drainCq {d : Drv} {o : Op} (ok : OpOk2 d o) : OpOk2 d o.drainCq := by
  obtain ⟨a1, a2, a3, a4, a5, a6, a7, a8, a9, a10⟩ := ok
  have hm : ∀ r, r ∈ o.multi ++ o.pendMore → Genuine o r := by
    intro r hr
    rcases List.mem_append.mp hr with h | h
    · exact a2 r h
    · exact a4 r h
  unfold Op.drainCq
  split
  · rename_i hpf
    exact ⟨a1, hm, a3, by simp, by rw [hpf]; simp, a6, a7, a8, a9, by rw [hpf]; simp⟩
  · rename_i r hpf
    have hdone : o.kstat = .done := a10 (by rw [hpf]; rfl)
    refine ⟨?_, hm, a3, by simp [Op.dropRef, Op.dropRefs], by simp [Op.dropRef, Op.dropRefs], a6, ?_, ?_, ?_, ?_⟩
    · intro r' h
      simp only [Op.dropRef, Op.dropRefs, Option.some.injEq] at h
      subst h
      exact a5 r hpf
    · intro _ _; rfl
    · intro _ _; rfl
    · intro _; exact hdone
    · simp [Op.dropRef, Op.dropRefs]

theorem ok2_drainChan {d : Drv} {o : Op} (ok : OpOk2 d o) : OpOk2 d o.drainChan := by
  unfold Op.drainChan
  split
  · exact ok
  · rename_i r hl
    obtain ⟨a1, a2, a3, a4, a5, a6, a7, a8, a9, a10⟩ := ok
    have hmem : r ∈ o.chan := List.mem_of_getLast? hl
    have hk : o.kstat = .none := by
      cases h : o.kstat with
      | none => rfl
      | _ =>
        have := (a6 (by rw [h]; simp)).1
        rw [this] at hmem; simp at hmem
    refine ⟨?_, a2, by simp [Op.dropRefs], a4, a5, ?_, ?_, ?_, a9, a10⟩
    · intro r' h
      simp only [Op.dropRefs, Option.some.injEq] at h
      subst h; exact a3 r hmem
    · intro hne; exact absurd hk hne
    · intro _ hne; exact absurd hk hne
    · intro _ hne; exact absurd hk hne

theorem genuine_mono {o o' : Op} (h : ∀ r, r ∈ o.produced → r ∈ o'.produced) (r : Res) : Genuine o r → Genuine o' r :=
  fun g => g.elim (fun g => Or.inl (h r g)) Or.inr

/-! ### state-level steps -/

theorem inv2_same_ops {s s' : State} (hi : Inv2 s) (hops : s'.ops = s.ops) (hdrv : s'.drv = s.drv) : Inv2 s' := by
  intro i o h; rw [hops] at h; rw [hdrv]; exact hi i o h

theorem inv2_plain {s : State} (hi : Inv2 s) (id : Nat) (f : Op → Op)
    (hf : ∀ o, (f o).result = o.result ∧ (f o).multi = o.multi ∧ (f o).chan = o.chan ∧ (f o).pendMore = o.pendMore ∧
      (f o).pendFinal = o.pendFinal ∧ (f o).kstat = o.kstat ∧ (f o).poolRun = o.poolRun ∧
      (f o).finalSeen = o.finalSeen ∧ (f o).returned = o.returned ∧ (f o).produced = o.produced) :
    Inv2 { s with ops := modAt f s.ops id } :=
  inv2_modAt hi id f rfl rfl (fun o _ ok => by
    obtain ⟨h1, h2, h3, h4, h5, h6, h7, h8, h9, h10⟩ := hf o
    exact ok2_same ok h1 h2 h3 h4 h5 h6 h7 h8 h9 h10)

theorem inv2_kPostStep {s s' : State} {id : Nat} {more : Bool} {r : Res} (hi : Inv2 s)
    (h : kPostStep s id more r = some s') : Inv2 s' := by
  unfold kPostStep at h
  split at h
  · rename_i o ho
    split at h
    · rename_i hg
      split at h
      · obtain rfl := Option.some.inj h
        refine inv2_modAt hi id _ rfl rfl ?_
        intro o' ho' ok
        rw [ho] at ho'; obtain rfl := Option.some.inj ho'
        obtain ⟨a1, a2, a3, a4, a5, a6, a7, a8, a9, a10⟩ := ok
        have mono : ∀ x, Genuine o x →
            Genuine ({ o with pendMore := o.pendMore ++ [r], produced := o.produced ++ [r] }) x :=
          genuine_mono (fun x hx => by simp [hx])
        refine ⟨fun x hx => mono x (a1 x hx), fun x hx => mono x (a2 x hx), fun x hx => mono x (a3 x hx), ?_,
          fun x hx => mono x (a5 x hx), a6, a7, a8, a9, a10⟩
        intro x hx
        rcases List.mem_append.mp hx with h1 | h1
        · exact mono x (a4 x h1)
        · simp at h1; subst h1; exact Or.inl (by simp)
      · obtain rfl := Option.some.inj h
        refine inv2_modAt hi id _ rfl rfl ?_
        intro o' ho' ok
        rw [ho] at ho'; obtain rfl := Option.some.inj ho'
        obtain ⟨a1, a2, a3, a4, a5, a6, a7, a8, a9, a10⟩ := ok
        have hk : o.kstat ≠ .none := by rw [hg.2.2.1]; simp
        have mono : ∀ x, Genuine o x →
            Genuine ({ o with pendFinal := some r, kstat := .done, produced := o.produced ++ [r] }) x :=
          genuine_mono (fun x hx => by simp [hx])
        refine ⟨fun x hx => mono x (a1 x hx), fun x hx => mono x (a2 x hx), fun x hx => mono x (a3 x hx),
          fun x hx => mono x (a4 x hx), ?_, fun _ => a6 hk, fun h1 _ => a7 h1 hk, fun h1 _ => a8 h1 hk,
          fun _ => rfl, fun _ => rfl⟩
        intro x hx
        simp only [Option.some.injEq] at hx
        subst hx; exact Or.inl (by simp)
    · cases h
  · cases h

theorem inv2_overflowDrain {s : State} (hi : Inv2 s) (posts : List (Nat × Bool × Res)) :
    Inv2 (overflowDrain s posts) := by
  unfold overflowDrain drainAll
  have h1 : Inv2 (submitAll s) := inv2_map hi _ rfl rfl (fun o ok => ok2_submit ok)
  have h2 : ∀ (posts : List (Nat × Bool × Res)) (t : State), Inv2 t →
      Inv2 (posts.foldl (fun s p => (kPostStep s p.1 p.2.1 p.2.2).getD s) t) := by
    intro posts
    induction posts with
    | nil => intro t ht; exact ht
    | cons p ps ih =>
      intro t ht
      simp only [List.foldl_cons]
      apply ih
      cases hk : kPostStep t p.1 p.2.1 p.2.2 with
      | none => simpa using ht
      | some t' => simp only [Option.getD_some]; exact inv2_kPostStep ht hk
  exact inv2_map (h2 posts _ h1) _ rfl rfl (fun o ok => ok2_drainCq ok)

theorem inv2_queueCancel {s : State} (hi : Inv2 s) (id : Nat) : Inv2 (queueCancel s id) :=
  inv2_modAt hi id _ rfl rfl (fun o _ ok => ok2_same ok rfl rfl rfl rfl rfl rfl rfl rfl rfl rfl)

theorem inv2_iourCancel {c : Cfg} {s : State} (hi : Inv2 s) (id : Nat) (posts : List (Nat × Bool × Res)) :
    Inv2 (iourCancel c s id posts) := by
  unfold iourCancel
  split
  · split
    · exact inv2_queueCancel hi id
    · exact inv2_queueCancel (inv2_overflowDrain hi posts) id
  · unfold iourCancelUnfixed
    split
    · exact inv2_queueCancel hi id
    · exact inv2_modAt hi id _ rfl rfl (fun o _ ok => ok2_same ok rfl rfl rfl rfl rfl rfl rfl rfl rfl rfl)

theorem inv2_driverCancel {c : Cfg} {s : State} (hi : Inv2 s) (id : Nat) (o : Op) (posts : List (Nat × Bool × Res)) :
    Inv2 (driverCancel c s id o posts) := by
  unfold driverCancel
  split
  · exact inv2_iourCancel hi id posts
  · rename_i hd
    unfold pollCancel
    split
    · exact hi
    · refine inv2_modAt hi id _ rfl rfl ?_
      intro x _ ok
      rw [hd] at ok ⊢
      exact ok2_pollCancel ok _

theorem inv2_cancelIssue {c : Cfg} {s : State} (hi : Inv2 s) (id : Nat) (o : Op) (posts : List (Nat × Bool × Res)) :
    Inv2 (cancelIssue c s id o posts) := by
  unfold cancelIssue
  have h1 : Inv2 { s with ops := modAt (fun o => { o with cancelled := true }) s.ops id } :=
    inv2_modAt hi id _ rfl rfl (fun o _ ok => ok2_same ok rfl rfl rfl rfl rfl rfl rfl rfl rfl rfl)
  have h2 := inv2_driverCancel (c := c) h1 id o posts
  exact inv2_modAt h2 id _ rfl rfl (fun o _ ok => ok2_same ok rfl rfl rfl rfl rfl rfl rfl rfl rfl rfl)

theorem inv2_cancelKey {c : Cfg} {s : State} (hi : Inv2 s) {id : Nat} {o : Op} (ho : s.ops[id]? = some o)
    (posts : List (Nat × Bool × Res)) : Inv2 (cancelKey c s id o posts) := by
  unfold cancelKey
  split
  · exact inv2_modAt hi id _ rfl rfl (fun o _ ok => ok2_same ok rfl rfl rfl rfl rfl rfl rfl rfl rfl rfl)
  · split
    · rename_i hq
      refine inv2_modAt hi id _ rfl rfl ?_
      intro o' ho' ok
      rw [ho] at ho'; obtain rfl := Option.some.inj ho'
      exact ok2_takeResult ok hq.2 true
    · exact inv2_cancelIssue hi id o posts

theorem inv2_clone {s : State} (hi : Inv2 s) (id : Nat) :
    Inv2 { s with ops := modAt (fun o => ({ o.cloneRef with user := o.user + 1 } : Op)) s.ops id } :=
  inv2_modAt hi id _ rfl rfl (fun o _ ok => ok2_same ok rfl rfl rfl rfl rfl rfl rfl rfl rfl rfl)

theorem inv2_dropChans {s : State} (hi : Inv2 s) : Inv2 { s with ops := dropChans s.ops } := by
  unfold dropChans
  split
  · exact hi
  · refine inv2_map hi _ rfl rfl ?_
    intro o ok
    obtain ⟨a1, a2, a3, a4, a5, a6, a7, a8, a9, a10⟩ := ok
    exact ⟨a1, a2, by simp [Op.dropChan, Op.dropRefs], a4, a5,
      fun h => ⟨rfl, (a6 h).2⟩, a7, a8, a9, a10⟩

theorem inv2_execDStep (c : Cfg) {s : State} (hi : Inv2 s) (st : DStep) : Inv2 (execDStep c s st) := by
  cases st with
  | drainCq =>
    refine inv2_map hi _ rfl rfl ?_
    intro o ok
    obtain ⟨a1, a2, a3, a4, a5, a6, a7, a8, a9, a10⟩ := ok
    exact ⟨a1, a2, a3, by simp [Op.dropDrain, Op.dropRefs], by simp [Op.dropDrain, Op.dropRefs], a6, a7, a8, a9,
      by simp [Op.dropDrain, Op.dropRefs]⟩
  | closeRing =>
    refine inv2_map hi _ rfl rfl ?_
    intro o ok
    obtain ⟨a1, a2, a3, a4, a5, a6, a7, a8, a9, a10⟩ := ok
    exact ⟨a1, a2, a3, by simp, by simp, a6, a7, a8, a9, by simp⟩
  | freeInFlight =>
    exact inv2_map hi _ rfl rfl (fun o ok => ok2_same ok rfl rfl rfl rfl rfl rfl rfl rfl rfl rfl)
  | pollDelete => exact inv2_same_ops hi rfl rfl
  | fields =>
    have h1 : Inv2 { s with ops := s.ops.map fun o => o.dropRefs ((s.reg o.fd).occ o.id) } :=
      inv2_map hi _ rfl rfl (fun o ok => ok2_same ok rfl rfl rfl rfl rfl rfl rfl rfl rfl rfl)
    exact inv2_same_ops (inv2_dropChans h1) rfl rfl

theorem step_inv2 {c : Cfg} {s s' : State} {e : Event} (hi : Inv2 s) (h : step c s e = some s') : Inv2 s' := by
  cases e with
  | pushSq k fd d =>
    simp only [step] at h
    split at h
    · rename_i hg
      obtain rfl := Option.some.inj h
      refine inv2_append hi _ rfl rfl ?_
      refine ⟨by simp [Op.new, Op.cloneRef], by simp [Op.new, Op.cloneRef], by simp [Op.new, Op.cloneRef],
        by simp [Op.new, Op.cloneRef], by simp [Op.new, Op.cloneRef], ?_, by simp [Op.new, Op.cloneRef],
        by simp [Op.new, Op.cloneRef], by simp [Op.new, Op.cloneRef], by simp [Op.new, Op.cloneRef]⟩
      intro _; exact ⟨rfl, rfl, hg.2.1⟩
    · cases h
  | pushFail k fd d e =>
    simp only [step] at h
    split at h
    · obtain rfl := Option.some.inj h
      refine inv2_append hi _ rfl rfl ?_
      refine ⟨?_, by simp [Op.new, Op.cloneRef, Op.dropRef, Op.dropRefs, Op.takeResult],
        by simp [Op.new, Op.cloneRef, Op.dropRef, Op.dropRefs, Op.takeResult],
        by simp [Op.new, Op.cloneRef, Op.dropRef, Op.dropRefs, Op.takeResult],
        by simp [Op.new, Op.cloneRef, Op.dropRef, Op.dropRefs, Op.takeResult],
        by simp [Op.new, Op.cloneRef, Op.dropRef, Op.dropRefs, Op.takeResult],
        by simp [Op.new, Op.cloneRef, Op.dropRef, Op.dropRefs, Op.takeResult],
        by simp [Op.new, Op.cloneRef, Op.dropRef, Op.dropRefs, Op.takeResult],
        by simp [Op.new, Op.cloneRef, Op.dropRef, Op.dropRefs, Op.takeResult],
        by simp [Op.new, Op.cloneRef, Op.dropRef, Op.dropRefs, Op.takeResult]⟩
      intro r hr
      simp only [Op.takeResult, Option.some.injEq] at hr
      subst hr
      exact Or.inl (by simp [Op.takeResult])
    · cases h
  | pushBlocking =>
    simp only [step] at h
    split at h
    · obtain rfl := Option.some.inj h
      refine inv2_append hi _ rfl rfl ?_
      exact ⟨by simp [Op.new, Op.cloneRef], by simp [Op.new, Op.cloneRef], by simp [Op.new, Op.cloneRef],
        by simp [Op.new, Op.cloneRef], by simp [Op.new, Op.cloneRef], by simp [Op.new, Op.cloneRef],
        by simp [Op.new, Op.cloneRef], by simp [Op.new, Op.cloneRef], by simp [Op.new, Op.cloneRef],
        by simp [Op.new, Op.cloneRef]⟩
    · cases h
  | pushWait k fd d =>
    simp only [step] at h
    split at h
    · obtain rfl := Option.some.inj h
      refine inv2_append hi _ rfl rfl ?_
      exact ⟨by simp [Op.new, Op.cloneRef], by simp [Op.new, Op.cloneRef], by simp [Op.new, Op.cloneRef],
        by simp [Op.new, Op.cloneRef], by simp [Op.new, Op.cloneRef], by simp [Op.new, Op.cloneRef],
        by simp [Op.new, Op.cloneRef], by simp [Op.new, Op.cloneRef], by simp [Op.new, Op.cloneRef],
        by simp [Op.new, Op.cloneRef]⟩
    · cases h
  | pushReady k fd d r =>
    simp only [step] at h
    split at h
    · obtain rfl := Option.some.inj h
      refine inv2_append hi _ rfl rfl ?_
      refine ⟨?_, by simp [Op.new, Op.cloneRef, Op.dropRef, Op.dropRefs, Op.takeResult],
        by simp [Op.new, Op.cloneRef, Op.dropRef, Op.dropRefs, Op.takeResult],
        by simp [Op.new, Op.cloneRef, Op.dropRef, Op.dropRefs, Op.takeResult],
        by simp [Op.new, Op.cloneRef, Op.dropRef, Op.dropRefs, Op.takeResult],
        by simp [Op.new, Op.cloneRef, Op.dropRef, Op.dropRefs, Op.takeResult],
        by simp [Op.new, Op.cloneRef, Op.dropRef, Op.dropRefs, Op.takeResult],
        by simp [Op.new, Op.cloneRef, Op.dropRef, Op.dropRefs, Op.takeResult],
        by simp [Op.new, Op.cloneRef, Op.dropRef, Op.dropRefs, Op.takeResult],
        by simp [Op.new, Op.cloneRef, Op.dropRef, Op.dropRefs, Op.takeResult]⟩
      intro r' hr
      simp only [Op.takeResult, Option.some.injEq] at hr
      subst hr
      exact Or.inl (by simp [Op.takeResult])
    · cases h
  | userCancel id posts =>
    simp only [step] at h
    split at h
    · rename_i o ho
      split at h
      · obtain rfl := Option.some.inj h; exact inv2_cancelKey hi ho posts
      · cases h
    · cases h
  | cloneCancel id posts =>
    simp only [step] at h
    split at h
    · rename_i o ho
      split at h
      · obtain rfl := Option.some.inj h
        refine inv2_cancelKey (inv2_clone hi id) ?_ posts
        simp only [getElem?_modAt_self, ho, Option.map_some]
      · cases h
    · cases h
  | userDrop id =>
    simp only [step] at h
    split at h
    · split at h
      · obtain rfl := Option.some.inj h
        exact inv2_modAt hi id _ rfl rfl (fun o _ ok => ok2_same ok rfl rfl rfl rfl rfl rfl rfl rfl rfl rfl)
      · cases h
    · cases h
  | userPop id =>
    simp only [step] at h
    split at h
    · rename_i o ho
      split at h
      · split at h
        · rename_i hres
          split at h
          · obtain rfl := Option.some.inj h
            refine inv2_modAt hi id _ rfl rfl ?_
            intro o' ho' ok
            rw [ho] at ho'; obtain rfl := Option.some.inj ho'
            exact ok2_takeResult' ok hres
          · obtain rfl := Option.some.inj h
            exact inv2_modAt hi id _ rfl rfl (fun o _ ok => ok2_same ok rfl rfl rfl rfl rfl rfl rfl rfl rfl rfl)
        · obtain rfl := Option.some.inj h; exact hi
      · cases h
    · cases h
  | popMulti id =>
    simp only [step] at h
    split at h
    · split at h
      · obtain rfl := Option.some.inj h
        refine inv2_modAt hi id _ rfl rfl ?_
        intro o _ ok
        obtain ⟨a1, a2, a3, a4, a5, a6, a7, a8, a9, a10⟩ := ok
        exact ⟨a1, fun r hr => a2 r (List.mem_of_mem_drop hr), a3, a4, a5, a6, a7, a8, a9, a10⟩
      · cases h
    · cases h
  | tokenRegister id =>
    simp only [step] at h
    split at h
    · split at h
      · obtain rfl := Option.some.inj h
        exact inv2_modAt hi id _ rfl rfl (fun o _ ok => ok2_same ok rfl rfl rfl rfl rfl rfl rfl rfl rfl rfl)
      · cases h
    · cases h
  | tokenDrop id =>
    simp only [step] at h
    split at h
    · split at h
      · obtain rfl := Option.some.inj h
        exact inv2_modAt hi id _ rfl rfl (fun o _ ok => ok2_same ok rfl rfl rfl rfl rfl rfl rfl rfl rfl rfl)
      · cases h
    · cases h
  | tokenCancel id posts =>
    simp only [step] at h
    split at h
    · rename_i o ho
      split at h
      · split at h
        · obtain rfl := Option.some.inj h; exact hi
        · obtain rfl := Option.some.inj h
          unfold cancelTok
          split
          · exact inv2_modAt (inv2_clone hi id) id _ rfl rfl
              (fun o _ ok => ok2_same ok rfl rfl rfl rfl rfl rfl rfl rfl rfl rfl)
          · exact inv2_cancelIssue (inv2_clone hi id) id _ posts
      · cases h
    · cases h
  | pushNotifier =>
    simp only [step] at h
    split at h
    · obtain rfl := Option.some.inj h; exact inv2_same_ops hi rfl rfl
    · cases h
  | submit =>
    simp only [step] at h
    split at h
    · obtain rfl := Option.some.inj h; exact inv2_map hi _ rfl rfl (fun o ok => ok2_submit ok)
    · cases h
  | pollEntries =>
    simp only [step] at h
    split at h
    · obtain rfl := Option.some.inj h; exact inv2_map hi _ rfl rfl (fun o ok => ok2_drainCq ok)
    · cases h
  | pollBlocking =>
    simp only [step] at h
    split at h
    · obtain rfl := Option.some.inj h; exact inv2_map hi _ rfl rfl (fun o ok => ok2_drainChan ok)
    · cases h
  | fdEvent fd rd wr r =>
    simp only [step] at h
    split at h
    · rename_i hg
      split at h
      · obtain rfl := Option.some.inj h; exact inv2_same_ops hi rfl rfl
      · split at h
        · obtain rfl := Option.some.inj h; exact inv2_same_ops hi rfl rfl
        · rename_i v
          obtain rfl := Option.some.inj h
          refine inv2_modAt hi _ _ rfl rfl ?_
          intro o _ ok
          rw [hg.2.1] at ok ⊢
          obtain ⟨a1, a2, a3, a4, a5, a6, a7, a8, a9, a10⟩ := ok
          have hk : o.kstat = .none := by
            cases hks : o.kstat with
            | none => rfl
            | _ => exact absurd (a6 (by rw [hks]; simp)).2.2 (by simp)
          have mono : ∀ r, Genuine o r →
              Genuine ({ o with result := some v, produced := o.produced ++ [v] }.dropRef) r :=
            genuine_mono (fun r hr => by simp [Op.dropRef, Op.dropRefs, hr])
          refine ⟨?_, fun r hr => mono r (a2 r hr), fun r hr => mono r (a3 r hr), fun r hr => mono r (a4 r hr),
            fun r hr => mono r (a5 r hr), a6, ?_, ?_, a9, a10⟩
          · intro r hr
            simp only [Op.dropRef, Op.dropRefs, Option.some.injEq] at hr
            subst hr
            exact Or.inl (by simp [Op.dropRef, Op.dropRefs])
          · intro _ hne; exact absurd hk hne
          · intro _ hne; exact absurd hk hne
    · cases h
  | dropBegin =>
    simp only [step] at h
    split at h
    · obtain rfl := Option.some.inj h; exact inv2_same_ops hi rfl rfl
    · cases h
  | dropStep =>
    simp only [step] at h
    split at h
    · split at h
      · rename_i st _
        obtain rfl := Option.some.inj h
        have := inv2_execDStep c hi st
        refine inv2_same_ops this rfl ?_
        cases st <;> rfl
      · cases h
    · cases h
  | kPost id more r => exact inv2_kPostStep hi h
  | poolDone id r =>
    simp only [step] at h
    split at h
    · rename_i o ho
      split at h
      · rename_i hp
        have key : ∀ (b : Bool) (ch : List Res), (∀ x, x ∈ ch → x ∈ o.chan ∨ x = r) → OpOk2 s.drv o →
            OpOk2 s.drv ({ o with poolRun := false, chan := ch, produced := o.produced ++ [r] }) := by
          intro b ch hch ok
          obtain ⟨a1, a2, a3, a4, a5, a6, a7, a8, a9, a10⟩ := ok
          have hk : o.kstat = .none := by
            cases hks : o.kstat with
            | none => rfl
            | _ =>
              have := (a6 (by rw [hks]; simp)).2.1
              rw [hp] at this; cases this
          have mono : ∀ x, Genuine o x →
              Genuine ({ o with poolRun := false, chan := ch, produced := o.produced ++ [r] }) x :=
            genuine_mono (fun x hx => by simp [hx])
          refine ⟨fun x hx => mono x (a1 x hx), fun x hx => mono x (a2 x hx), ?_, fun x hx => mono x (a4 x hx),
            fun x hx => mono x (a5 x hx), fun hne => absurd hk hne, fun _ hne => absurd hk hne,
            fun _ hne => absurd hk hne, a9, a10⟩
          intro x hx
          rcases hch x hx with h1 | h1
          · exact mono x (a3 x h1)
          · subst h1; exact Or.inl (by simp)
        split at h
        · obtain rfl := Option.some.inj h
          refine inv2_modAt hi id _ rfl rfl ?_
          intro o' ho' ok
          rw [ho] at ho'; obtain rfl := Option.some.inj ho'
          refine key true _ ?_ ok
          intro x hx
          rcases List.mem_append.mp hx with h1 | h1
          · exact Or.inl h1
          · simp at h1; exact Or.inr h1
        · obtain rfl := Option.some.inj h
          have h1 : Inv2 { s with ops := modAt (fun o => Op.dropRef { o with poolRun := false, produced := o.produced ++ [r] }) s.ops id } := by
            refine inv2_modAt hi id _ rfl rfl ?_
            intro o' ho' ok
            rw [ho] at ho'; obtain rfl := Option.some.inj ho'
            exact ok2_same (key true o.chan (fun x hx => Or.inl hx) ok) rfl rfl rfl rfl rfl rfl rfl rfl rfl rfl
          exact inv2_same_ops (inv2_dropChans h1) rfl rfl
      · cases h
    · cases h

theorem run_inv2 {c : Cfg} : ∀ (evs : List Event) (s s' : State), Inv2 s → run c s evs = some s' → Inv2 s' := by
  intro evs
  induction evs with
  | nil => intro s s' hi h; simp [run] at h; subst h; exact hi
  | cons e es ih =>
    intro s s' hi h
    simp only [run] at h
    split at h
    · rename_i s1 hs1
      exact ih s1 s' (step_inv2 hi hs1) h
    · cases h

end Compio.KeyLife
