/- helper lemmas for Model/MultiStream.lean (C14: multishot stream adapters) -/
import Compio.Model.MultiStream

namespace Compio.MultiStream

/-! ## `SubmitMulti` under arbitrary arrival schedules -/

/-- completions the stream still owes its consumer: queued, final, and not yet posted -/
def SM.remaining (s : SM) : List Cqe :=
  match s.st with
  | .finished => []
  | _ => s.queue ++ (match s.term with | some c => [c] | none => cut s.future)

theorem cut_cons_more (c : Cqe) (r : List Cqe) (h : c.more = true) : cut (c :: r) = c :: cut r := by
  simp [cut, h]

theorem cut_cons_term (c : Cqe) (r : List Cqe) (h : c.more = false) : cut (c :: r) = [c] := by
  simp [cut, h]

theorem remaining_arrive (s : SM) : s.arrive.remaining = s.remaining := by
  unfold SM.arrive
  split
  · rename_i c rest hst hterm hfut
    by_cases hm : c.more = true
    · simp [hm, SM.remaining, hst, hterm, hfut, cut_cons_more c rest hm]
    · have hm' : c.more = false := by simpa using hm
      simp [hm', SM.remaining, hst, hterm, hfut, cut_cons_term c rest hm']
  · rfl

theorem pollSubmitted_spec (s : SM) (hst : s.st ≠ .finished) :
    (∃ c s', s.pollSubmitted = (.ready (some c), s') ∧ s.remaining = c :: s'.remaining) ∨
    (s.pollSubmitted = (.pending, s) ∧ s.queue = [] ∧ s.term = none) := by
  unfold SM.pollSubmitted
  cases hq : s.queue with
  | cons c q =>
    left
    refine ⟨c, { s with queue := q }, rfl, ?_⟩
    cases hs : s.st <;> simp_all [SM.remaining]
  | nil =>
    cases ht : s.term with
    | some c =>
      left
      refine ⟨c, { s with st := .finished, term := none }, ?_, ?_⟩
      · simp [hq]
      · cases hs : s.st <;> simp_all [SM.remaining]
    | none => right; exact ⟨rfl, rfl, rfl⟩

/-- one poll: a completion is returned and leaves `remaining`; or nothing is available and nothing
changes but the submission; or the stream is finished, owes nothing and says `None` -/
theorem poll_spec (s : SM) :
    (∃ c s', s.poll = (.ready (some c), s') ∧ s.remaining = c :: s'.remaining) ∨
    (∃ s', s.poll = (.pending, s') ∧ s'.remaining = s.remaining ∧ s'.st ≠ .finished) ∨
    (s.poll = (.ready none, s) ∧ s.remaining = [] ∧ s.st = .finished) := by
  unfold SM.poll
  cases hs : s.st with
  | idle =>
    simp only
    have hne : ({ s with st := St.submitted } : SM).st ≠ .finished := by simp
    have hr : ({ s with st := St.submitted } : SM).remaining = s.remaining := by
      simp [SM.remaining, hs]
    rcases pollSubmitted_spec { s with st := .submitted } hne with ⟨c, s', e, r⟩ | ⟨e, _, _⟩
    · left; exact ⟨c, s', e, by rw [← hr]; exact r⟩
    · right; left; exact ⟨_, e, hr, hne⟩
  | submitted =>
    simp only
    have hne : s.st ≠ .finished := by rw [hs]; simp
    rcases pollSubmitted_spec s hne with ⟨c, s', e, r⟩ | ⟨e, _, _⟩
    · left; exact ⟨c, s', e, r⟩
    · right; left; exact ⟨s, e, rfl, hne⟩
  | finished =>
    right; right
    exact ⟨rfl, by simp [SM.remaining, hs], rfl⟩

/-- the `Some` results of a run -/
def somes : List (Option Cqe) → List Cqe
  | [] => []
  | some c :: r => c :: somes r
  | none :: r => somes r

/-- **conservation under every schedule**: what the polls returned, followed by what is still owed,
is what was owed at the start — nothing lost, duplicated or reordered -/
theorem run_conserves (s : SM) (evs : List Ev) :
    somes (s.run evs).1 ++ (s.run evs).2.remaining = s.remaining := by
  induction evs generalizing s with
  | nil => simp [SM.run, somes]
  | cons e evs ih =>
    cases e with
    | arrive =>
      simp only [SM.run]
      rw [ih s.arrive, remaining_arrive]
    | poll =>
      simp only [SM.run]
      rcases poll_spec s with ⟨c, s', e, r⟩ | ⟨s', e, r, _⟩ | ⟨e, r, _⟩
      · rw [e]; simp only [somes]
        rw [List.cons_append, ih s', r]
      · rw [e]; simp only; rw [ih s', r]
      · rw [e]; simp only [somes]; rw [ih s]

/-- `Ready(None)` is only ever produced when nothing is owed any more -/
theorem run_none_only_when_done (s : SM) (evs : List Ev) (h : none ∈ (s.run evs).1) :
    somes (s.run evs).1 = s.remaining := by
  induction evs generalizing s with
  | nil => simp [SM.run] at h
  | cons e evs ih =>
    cases e with
    | arrive =>
      simp only [SM.run] at h ⊢
      rw [ih s.arrive h, remaining_arrive]
    | poll =>
      simp only [SM.run] at h ⊢
      rcases poll_spec s with ⟨c, s', e, r⟩ | ⟨s', e, r, _⟩ | ⟨e, r, hf⟩
      · rw [e] at h ⊢
        simp only [List.mem_cons, reduceCtorEq, false_or] at h
        simp only [somes]; rw [ih s' h, r]
      · rw [e] at h ⊢
        simp only at h ⊢; rw [ih s' h, r]
      · rw [e]; simp only [somes]
        have := run_conserves s evs
        rw [r] at this
        rw [r]
        exact (List.append_eq_nil_iff.mp this).1

theorem run_poll_ready (s s' : SM) (r : Option Cqe) (evs : List Ev) (h : s.poll = (.ready r, s')) :
    s.run (.poll :: evs) = (r :: (s'.run evs).1, (s'.run evs).2) := by
  simp [SM.run, h]

/-- once everything was posted (`future = []`, final result present) `queue.length + 1` polls hand out
everything that is owed, in order -/
theorem drain_all (s : SM) (hst : s.st ≠ .finished) (c : Cqe) (ht : s.term = some c) :
    (s.run (List.replicate (s.queue.length + 1) .poll)).1 = (s.queue ++ [c]).map some ∧
      (s.run (List.replicate (s.queue.length + 1) .poll)).2.st = .finished := by
  generalize hn : s.queue.length = n
  induction n generalizing s with
  | zero =>
    have hq : s.queue = [] := List.eq_nil_of_length_eq_zero hn
    have hp : s.poll = (.ready (some c), { s with st := .finished, term := none }) := by
      unfold SM.poll
      cases hs : s.st with
      | idle => simp [SM.pollSubmitted, hq, ht]
      | submitted => simp [SM.pollSubmitted, hq, ht]
      | finished => exact absurd hs hst
    simp [SM.run, hp, hq]
  | succ n ih =>
    cases hq : s.queue with
    | nil => simp [hq] at hn
    | cons x q =>
      have hp : ∃ st', st' ≠ St.finished ∧ s.poll = (.ready (some x), { s with st := st', queue := q }) := by
        unfold SM.poll
        cases hs : s.st with
        | idle => exact ⟨.submitted, by simp, by simp [SM.pollSubmitted, hq]⟩
        | submitted => exact ⟨.submitted, by simp, by simp [SM.pollSubmitted, hq, hs]⟩
        | finished => exact absurd hs hst
      obtain ⟨st', hne, hp⟩ := hp
      have hlen : q.length = n := by simp [hq] at hn; omega
      have := ih { s with st := st', queue := q } hne ht hlen
      rw [List.replicate_succ, run_poll_ready _ _ _ _ hp]
      simp only at this
      simp [this]


/-- how the driver files completions: `F_MORE` ones in the queue, the one without as final result -/
def SM.WF (s : SM) : Prop :=
  (∀ c ∈ s.queue, c.more = true) ∧ (∀ c, s.term = some c → c.more = false)

theorem wf_new (script : List Cqe) : (SM.new script).WF := by
  simp [SM.WF, SM.new]

theorem wf_arrive (s : SM) (h : s.WF) : s.arrive.WF := by
  unfold SM.arrive
  split
  · rename_i c rest hst hterm hfut
    by_cases hm : c.more = true
    · simp only [hm, if_true]
      refine ⟨?_, ?_⟩
      · intro x hx
        simp only [List.mem_append, List.mem_singleton] at hx
        rcases hx with hx | hx
        · exact h.1 x hx
        · rw [hx]; exact hm
      · intro x hx; exact h.2 x hx
    · have hm' : c.more = false := by simpa using hm
      simp only [hm', Bool.false_eq_true, if_false]
      refine ⟨h.1, ?_⟩
      intro x hx
      simp only [Option.some.injEq] at hx
      rw [← hx]; exact hm'
  · exact h

/-- `inner.is_terminated()` right after a completion was returned says exactly "that completion had
no `F_MORE`" — the test the await form of `SubmitMultiManaged` uses -/
theorem poll_terminated_iff (s s' : SM) (c : Cqe) (h : s.WF) (hst : s.st ≠ .finished)
    (hp : s.poll = (.ready (some c), s')) : (s'.st = .finished ↔ c.more = false) ∧ s'.WF := by
  have key : ∀ t : SM, t.WF → t.st ≠ .finished → t.pollSubmitted = (.ready (some c), s') →
      (s'.st = .finished ↔ c.more = false) ∧ s'.WF := by
    intro t ht hts hpt
    unfold SM.pollSubmitted at hpt
    cases hq : t.queue with
    | cons x q =>
      rw [hq] at hpt
      simp only [Prod.mk.injEq, P.ready.injEq, Option.some.injEq] at hpt
      obtain ⟨hx, hs'⟩ := hpt
      subst hx
      have hm : x.more = true := ht.1 x (by rw [hq]; simp)
      rw [← hs']
      refine ⟨?_, ?_, ?_⟩
      · simp only [hm]
        constructor
        · intro hf; exact absurd hf hts
        · intro hf; cases hf
      · intro y hy; exact ht.1 y (by rw [hq]; simp [hy])
      · exact ht.2
    | nil =>
      rw [hq] at hpt
      cases htm : t.term with
      | none => rw [htm] at hpt; simp at hpt
      | some y =>
        rw [htm] at hpt
        simp only [Prod.mk.injEq, P.ready.injEq, Option.some.injEq] at hpt
        obtain ⟨hx, hs'⟩ := hpt
        subst hx
        have hm : y.more = false := ht.2 y htm
        rw [← hs']
        refine ⟨?_, ?_, ?_⟩
        · simp [hm]
        · intro z hz; simp at hz
        · intro z hz; simp at hz
  unfold SM.poll at hp
  cases hs : s.st with
  | idle =>
    rw [hs] at hp
    exact key { s with st := .submitted } h (by simp) hp
  | submitted =>
    rw [hs] at hp
    exact key s h hst hp
  | finished => exact absurd hs hst

/-! ## `SubmitMultiStream` (await form) -/

/-- consuming one completion of the live submission: exactly one token, `tokOf` of that completion -/
theorem nextF_live (f : Nat) (s : Stream) (c : Cqe) (rest : List Cqe)
    (h : s.op = some ⟨some (c :: rest)⟩) :
    Stream.nextF (f + 1) s =
      (tokOf s.fl c, { s with op := some ⟨if c.more then some rest else none⟩ }) := by
  unfold Stream.nextF
  rw [h]
  simp only [Managed.next]
  by_cases hm : c.more = true
  · simp only [hm, if_true]
    cases hb : c.buf with
    | none => simp [tokOf, hm, hb]
    | some b =>
      cases hr : c.res with
      | err e => simp [tokOf, hm, hb, hr]
      | ok n =>
        simp only [tokOf, hm, hb, hr, if_true, itemOrEnd]
        split <;> rfl
  · have hm' : c.more = false := by simpa using hm
    simp only [hm', Bool.false_eq_true, if_false]
    cases hr : c.res with
    | err e => simp [tokOf, hm', hr]
    | ok n =>
      cases hb : c.buf with
      | none => simp [tokOf, hm', hr, hb]
      | some b =>
        simp only [tokOf, hm', hr, hb, Option.map_some, Bool.false_eq_true, if_false, itemOrEnd]
        split <;> rfl

/-- nothing in flight: no op, or the previous op was taken after its terminal completion -/
def Stream.Idle (s : Stream) : Prop := s.op = none ∨ s.op = some ⟨none⟩

/-- what one `poll_next` does when no op is stored -/
def Stream.idleStep (s : Stream) : Tok × Stream :=
  if s.cancelled then (.end_, s)
  else
    match s.subs with
    | [] => (.pending, { s with op := some ⟨some []⟩, nsub := s.nsub + 1 })
    | .fail k :: rest => (.err (.factory k), { s with subs := rest })
    | .op [] :: rest => (.pending, { s with op := some ⟨some []⟩, subs := rest, nsub := s.nsub + 1 })
    | .op (c :: r) :: rest =>
      (tokOf s.fl c, { s with op := some ⟨if c.more then some r else none⟩, subs := rest, nsub := s.nsub + 1 })

theorem nextF_pending (f : Nat) (s : Stream) (h : s.op = some ⟨some []⟩) :
    Stream.nextF (f + 1) s = (.pending, s) := by
  unfold Stream.nextF
  rw [h]
  simp only [Managed.next]
  cases s; simp_all

theorem nextF_none (f : Nat) (s : Stream) (h : s.op = none) :
    Stream.nextF (f + 2) s = s.idleStep := by
  unfold Stream.nextF Stream.idleStep
  rw [h]
  by_cases hc : s.cancelled = true
  · simp [hc]
  · simp only [hc]
    cases hs : s.subs with
    | nil => simp only; rw [nextF_pending f _ rfl]
    | cons x rest =>
      cases x with
      | fail k => simp
      | op script =>
        cases script with
        | nil => simp only; rw [nextF_pending f _ rfl]
        | cons c r => simp only; rw [nextF_live f _ c r rfl]

theorem nextF_taken (f : Nat) (s : Stream) (h : s.op = some ⟨none⟩) :
    Stream.nextF (f + 3) s = ({ s with op := none } : Stream).idleStep := by
  conv => lhs; unfold Stream.nextF
  rw [h]
  simp only [Managed.next]
  exact nextF_none f _ rfl

theorem next_idle (s : Stream) (h : s.Idle) : s.next = ({ s with op := none } : Stream).idleStep := by
  rcases h with h | h
  · have e : ({ s with op := none } : Stream) = s := by cases s; simp_all
    rw [e]; exact nextF_none 1 s h
  · exact nextF_taken 0 s h

/-- re-submission: an idle, un-cancelled stream whose factory produces `c :: r` submits it
(`nsub + 1`) and yields the token of its first completion -/
theorem next_resubmit (s : Stream) (c : Cqe) (r : List Cqe) (rest : List Sub) (h : s.Idle)
    (hc : s.cancelled = false) (hs : s.subs = .op (c :: r) :: rest) :
    s.next = (tokOf s.fl c,
      { s with op := some ⟨if c.more then some r else none⟩, subs := rest, nsub := s.nsub + 1 }) := by
  rw [next_idle s h]
  simp [Stream.idleStep, hc, hs]

/-- a cancelled idle stream ends without submitting anything -/
theorem next_cancelled (s : Stream) (h : s.Idle) (hc : s.cancelled = true) :
    s.next = (.end_, { s with op := none }) := by
  rw [next_idle s h]
  simp [Stream.idleStep, hc]

/-- a failing factory: the error is yielded, nothing is submitted -/
theorem next_factory_fail (s : Stream) (k : Nat) (rest : List Sub) (h : s.Idle)
    (hc : s.cancelled = false) (hs : s.subs = .fail k :: rest) :
    s.next = (.err (.factory k), { s with op := none, subs := rest }) := by
  rw [next_idle s h]
  simp [Stream.idleStep, hc, hs]

theorem next_live (s : Stream) (c : Cqe) (rest : List Cqe) (h : s.op = some ⟨some (c :: rest)⟩) :
    s.next = (tokOf s.fl c, { s with op := some ⟨if c.more then some rest else none⟩ }) :=
  nextF_live 2 s c rest h

/-- a submission whose completions are exhausted without a terminal one stays pending -/
theorem next_live_pending (s : Stream) (h : s.op = some ⟨some []⟩) : s.next = (.pending, s) :=
  nextF_pending 2 s h

theorem take_append (a b : Nat) (s : Stream) :
    Stream.take (a + b) s =
      ((Stream.take a s).1 ++ (Stream.take b (Stream.take a s).2).1, (Stream.take b (Stream.take a s).2).2) := by
  induction a generalizing s with
  | zero => simp [Stream.take]
  | succ n ih =>
    have : n + 1 + b = (n + b) + 1 := by omega
    rw [this]
    simp only [Stream.take]
    rw [ih]
    simp

/-- a submission's script as the kernel posts it: `more … more terminal` -/
def complete : List Cqe → Bool
  | [] => false
  | [c] => !c.more
  | c :: r => c.more && complete r

theorem take_live (s : Stream) (script : List Cqe) (hc : complete script = true)
    (h : s.op = some ⟨some script⟩) :
    Stream.take script.length s = (script.map (tokOf s.fl), { s with op := some ⟨none⟩ }) := by
  induction script generalizing s with
  | nil => simp [complete] at hc
  | cons c r ih =>
    cases r with
    | nil =>
      have hm : c.more = false := by simpa [complete] using hc
      simp [Stream.take, next_live s c [] h, hm]
    | cons c' r' =>
      have hm : c.more = true := by
        simp only [complete, Bool.and_eq_true] at hc; exact hc.1
      have hr : complete (c' :: r') = true := by
        simp only [complete, Bool.and_eq_true] at hc; exact hc.2
      have hl : (c :: c' :: r').length = (c' :: r').length + 1 := rfl
      rw [hl]
      simp only [Stream.take, next_live s c (c' :: r') h, hm, if_true]
      have := ih { s with op := some ⟨some (c' :: r')⟩ } hr rfl
      rw [this]
      simp

/-- all factory products are complete submissions -/
def allComplete : List Sub → Bool
  | [] => true
  | .op script :: rest => complete script && allComplete rest
  | .fail _ :: _ => false

def scriptsOf : List Sub → List Cqe
  | [] => []
  | .op script :: rest => script ++ scriptsOf rest
  | .fail _ :: rest => scriptsOf rest

theorem complete_ne_nil (script : List Cqe) (h : complete script = true) : script ≠ [] := by
  intro e; subst e; simp [complete] at h

theorem take_first_eq (n : Nat) (s s' : Stream) (h : s.next = s'.next) :
    Stream.take (n + 1) s = Stream.take (n + 1) s' := by
  simp [Stream.take, h]

/-- the state after a whole submission was consumed is idle -/
theorem idle_after (s : Stream) : ({ s with op := some ⟨none⟩ } : Stream).Idle := Or.inr rfl

/-- **every script**: with an un-cancelled stream and complete submissions, `next` called once per
completion yields the tokens of all completions of all submissions, in order, each exactly once; every
terminal completion is followed by a re-submission (`nsub` grows by the number of submissions). -/
theorem take_all (s : Stream) (subs : List Sub) (hi : s.Idle) (hcn : s.cancelled = false)
    (hsub : s.subs = subs) (hs : allComplete subs = true) :
    (Stream.take (scriptsOf subs).length s).1 = (scriptsOf subs).map (tokOf s.fl) ∧
    (Stream.take (scriptsOf subs).length s).2.nsub = s.nsub + subs.length ∧
    (Stream.take (scriptsOf subs).length s).2.subs = [] ∧
    (Stream.take (scriptsOf subs).length s).2.fl = s.fl := by
  induction subs generalizing s with
  | nil => simp [scriptsOf, Stream.take, hsub]
  | cons x rest ih =>
    cases x with
    | fail k => simp [allComplete] at hs
    | op script =>
      simp only [allComplete, Bool.and_eq_true] at hs
      obtain ⟨hc, hrest⟩ := hs
      obtain ⟨c, r, rfl⟩ := List.exists_cons_of_ne_nil (complete_ne_nil script hc)
      -- the stream with this submission live
      let s' : Stream := { s with op := some ⟨some (c :: r)⟩, subs := rest, nsub := s.nsub + 1 }
      have e1 : s.next = s'.next := by
        rw [next_resubmit s c r rest hi hcn hsub, next_live s' c r rfl]
      have hlen : (scriptsOf (Sub.op (c :: r) :: rest)).length
          = (r.length + 1) + (scriptsOf rest).length := by
        simp [scriptsOf]; omega
      have hl2 : (c :: r).length = r.length + 1 := rfl
      have e3 : Stream.take (r.length + 1) s = Stream.take (r.length + 1) s' := take_first_eq _ _ _ e1
      have e4 := take_live s' (c :: r) hc rfl
      rw [hl2] at e4
      rw [hlen, take_append, e3, e4]
      have hi' : ({ s' with op := some ⟨none⟩ } : Stream).Idle := Or.inr rfl
      have := ih { s' with op := some ⟨none⟩ } hi' hcn rfl hrest
      obtain ⟨t1, t2, t3, t4⟩ := this
      refine ⟨?_, ?_, ?_, ?_⟩
      · simp only [t1]; simp [scriptsOf, s']
      · simp only [t2]; simp [s']; omega
      · exact t3
      · simp only [t4]; rfl


/-! ## `Incoming` -/

def atokOf (c : ACqe) : ATok :=
  match c.res with
  | .fd id => .conn id
  | .err e => .err e

def fdOf (c : ACqe) : List Nat :=
  match c.res with
  | .fd id => [id]
  | .err _ => []

/-- state of the op slot after completion `c` was handed out -/
def afterOp (c : ACqe) (rest : List ACqe) : AOp :=
  if c.more then .live rest
  else match c.res with
    | .fd _ => .none
    | .err _ => .finished

theorem inc_nextF_live (f : Nat) (s : Inc) (c : ACqe) (rest : List ACqe) (h : s.op = .live (c :: rest)) :
    Inc.nextF (f + 1) s = (atokOf c, { s with op := afterOp c rest, yielded := s.yielded ++ fdOf c }) := by
  unfold Inc.nextF
  rw [h]
  simp only
  by_cases hm : c.more = true
  · cases hr : c.res <;> simp [hm, hr, atokOf, fdOf, afterOp]
  · have hm' : c.more = false := by simpa using hm
    cases hr : c.res <;> simp [hm', hr, atokOf, fdOf, afterOp]

theorem inc_nextF_pending (f : Nat) (s : Inc) (h : s.op = .live []) : Inc.nextF (f + 1) s = (.pending, s) := by
  unfold Inc.nextF; rw [h]

/-- one `poll_next` with no live op: submit the next accept and look at its first completion -/
def Inc.idleStep (s : Inc) : ATok × Inc :=
  match s.subs with
  | [] => (.pending, { s with op := .live [], nsub := s.nsub + 1 })
  | [] :: rest => (.pending, { s with op := .live [], subs := rest, nsub := s.nsub + 1 })
  | (c :: r) :: rest =>
    (atokOf c, { s with op := afterOp c r, subs := rest, nsub := s.nsub + 1, yielded := s.yielded ++ fdOf c })

theorem inc_nextF_none (f : Nat) (s : Inc) (h : s.op = .none) : Inc.nextF (f + 2) s = s.idleStep := by
  unfold Inc.nextF Inc.idleStep
  rw [h]
  cases hs : s.subs with
  | nil => simp only; rw [inc_nextF_pending f _ rfl]
  | cons sc rest =>
    cases sc with
    | nil => simp only; rw [inc_nextF_pending f _ rfl]
    | cons c r => simp only; rw [inc_nextF_live f _ c r rfl]

theorem inc_next_spec (s : Inc) :
    (∃ c rest, s.op = .live (c :: rest) ∧
      s.next = (atokOf c, { s with op := afterOp c rest, yielded := s.yielded ++ fdOf c })) ∨
    (s.op = .live [] ∧ s.next = (.pending, s)) ∨
    ((s.op = .none ∨ s.op = .finished) ∧ s.next = ({ s with op := .none } : Inc).idleStep) := by
  cases h : s.op with
  | live l =>
    cases l with
    | nil => right; left; exact ⟨rfl, inc_nextF_pending 2 s h⟩
    | cons c rest => left; exact ⟨c, rest, rfl, inc_nextF_live 2 s c rest h⟩
  | none =>
    right; right
    have e : ({ s with op := .none } : Inc) = s := by cases s; simp_all
    exact ⟨Or.inl rfl, by rw [e]; exact inc_nextF_none 1 s h⟩
  | finished =>
    right; right
    refine ⟨Or.inr rfl, ?_⟩
    show Inc.nextF 3 s = _
    conv => lhs; unfold Inc.nextF
    rw [h]
    exact inc_nextF_none 0 _ rfl

/-- descriptors the current accept op holds or will still receive -/
def Inc.owed (s : Inc) : List Nat :=
  match s.op with
  | .live rest => fdsOf (acut rest)
  | _ => []

/-- descriptors of the submissions not made yet (those connections stay in the listen backlog) -/
def backlog : List (List ACqe) → List Nat
  | [] => []
  | sc :: rest => fdsOf (acut sc) ++ backlog rest

/-- every descriptor the scripts will ever hand to compio, in kernel order -/
def Inc.acc (s : Inc) : List Nat := s.yielded ++ s.owed ++ backlog s.subs

theorem fdsOf_acut_cons (c : ACqe) (rest : List ACqe) :
    fdsOf (acut (c :: rest)) = fdOf c ++ (if c.more then fdsOf (acut rest) else []) := by
  by_cases hm : c.more = true
  · cases hr : c.res <;> simp [acut, hm, fdsOf, fdOf, hr]
  · have hm' : c.more = false := by simpa using hm
    cases hr : c.res <;> simp [acut, hm', fdsOf, fdOf, hr]

theorem owed_afterOp (s : Inc) (c : ACqe) (rest : List ACqe) :
    ({ s with op := afterOp c rest } : Inc).owed = (if c.more then fdsOf (acut rest) else []) := by
  unfold afterOp Inc.owed
  by_cases hm : c.more = true
  · simp [hm]
  · have hm' : c.more = false := by simpa using hm
    cases hr : c.res <;> simp [hm']

/-- one `next`: the ledger of descriptors is unchanged and nothing is closed -/
theorem inc_next_acc (s : Inc) : s.next.2.acc = s.acc ∧ s.next.2.closed = s.closed := by
  rcases inc_next_spec s with ⟨c, rest, h, e⟩ | ⟨_, e⟩ | ⟨h, e⟩
  · rw [e]
    refine ⟨?_, rfl⟩
    simp only [Inc.acc]
    have ho : s.owed = fdsOf (acut (c :: rest)) := by simp [Inc.owed, h]
    rw [ho, fdsOf_acut_cons]
    have := owed_afterOp { s with yielded := s.yielded ++ fdOf c } c rest
    simp only at this
    rw [this]
    simp [List.append_assoc]
  · rw [e]; exact ⟨rfl, rfl⟩
  · rw [e]
    have ho : s.owed = [] := by rcases h with h | h <;> simp [Inc.owed, h]
    simp only [Inc.acc, ho, List.append_nil]
    unfold Inc.idleStep
    cases hs : s.subs with
    | nil => simp [Inc.owed, backlog, acut, fdsOf]
    | cons sc rest =>
      cases sc with
      | nil => simp [Inc.owed, backlog, acut, fdsOf]
      | cons c r =>
        refine ⟨?_, rfl⟩
        simp only
        have := owed_afterOp { s with subs := rest, nsub := s.nsub + 1, yielded := s.yielded ++ fdOf c } c r
        simp only at this
        rw [this]
        simp [backlog, fdsOf_acut_cons, List.append_assoc]

theorem inc_take_acc (n : Nat) (s : Inc) : (Inc.take n s).2.acc = s.acc ∧ (Inc.take n s).2.closed = s.closed := by
  induction n generalizing s with
  | zero => exact ⟨rfl, rfl⟩
  | succ n ih =>
    simp only [Inc.take]
    obtain ⟨a, b⟩ := ih s.next.2
    obtain ⟨c, d⟩ := inc_next_acc s
    exact ⟨a.trans c, b.trans d⟩

/-- the connections handed to the caller are exactly the `conn` tokens, in order -/
def conns : List ATok → List Nat
  | [] => []
  | .conn id :: r => id :: conns r
  | _ :: r => conns r

theorem inc_next_yielded (s : Inc) : s.next.2.yielded = s.yielded ++ conns [s.next.1] := by
  rcases inc_next_spec s with ⟨c, rest, _, e⟩ | ⟨_, e⟩ | ⟨_, e⟩
  · rw [e]; cases hr : c.res <;> simp [atokOf, fdOf, conns, hr]
  · rw [e]; simp [conns]
  · rw [e]; unfold Inc.idleStep
    cases hs : s.subs with
    | nil => simp [conns]
    | cons sc rest =>
      cases sc with
      | nil => simp [conns]
      | cons c r => cases hr : c.res <;> simp [atokOf, fdOf, conns, hr]

theorem conns_cons (t : ATok) (r : List ATok) : conns (t :: r) = conns [t] ++ conns r := by
  cases t <;> simp [conns]

theorem inc_take_yielded (n : Nat) (s : Inc) :
    (Inc.take n s).2.yielded = s.yielded ++ conns (Inc.take n s).1 := by
  induction n generalizing s with
  | zero => simp [Inc.take, conns]
  | succ n ih =>
    simp only [Inc.take]
    rw [ih s.next.2, inc_next_yielded s, conns_cons s.next.1 (Inc.take n s.next.2).1, List.append_assoc]

end Compio.MultiStream
