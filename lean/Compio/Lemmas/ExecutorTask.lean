/-
Helper lemmas for the home-thread executor model (Compio/Model/Executor.lean): what every function
regenerated from task/state.rs does to the explicit fields of the word, the per-task lifecycle invariant
`TInv` and its preservation by every per-task step, the queue well-formedness and the whole-state
invariant `Inv` with its preservation by every operation.
-/
import Compio.Model.Executor

namespace Compio.Executor
open Compio.TaskWord Compio.Gen
set_option linter.unusedSimpArgs false
set_option linter.unusedVariables false

/-! ## The generated word operations on explicit fields
(these `rfl` lemmas break when task/state.rs changes a mask — intended) -/

@[simp] theorem g_new (n : Nat) : TaskState.new n =
    ⟨false, false, true, false, false, false, true, n⟩ := rfl
@[simp] theorem g_unschedule (w : Word) : TaskState.unschedule w = { w with scheduled := false } := rfl
@[simp] theorem g_setDropped (w : Word) :
    TaskState.setDropped w = { w with hasWaker := false, notCancelled := false } := rfl
@[simp] theorem g_setCancelled (w : Word) : TaskState.setCancelled w = { w with notCancelled := false } := rfl
@[simp] theorem g_finishRunning (w : Word) :
    TaskState.finishRunning w = { w with completed := true, hasResult := true } := rfl
@[simp] theorem g_setHasResultFalse (w : Word) : TaskState.setHasResultFalse w = { w with hasResult := false } := rfl
@[simp] theorem g_setHasWakerTrue (w : Word) : TaskState.setHasWakerTrue w = { w with hasWaker := true } := rfl
@[simp] theorem g_inc (w : Word) : TaskState.inc w = { w with count := w.count + 1 } := rfl
@[simp] theorem g_dec (w : Word) : TaskState.dec w = { w with count := w.count - 1 } := rfl
@[simp] theorem g_load (w : Word) : TaskState.load w = w := rfl
@[simp] theorem g_isCancelled (w : Word) : TaskState.isCancelled w = !w.notCancelled := rfl
@[simp] theorem g_isCompleted (w : Word) : TaskState.isCompleted w = w.completed := rfl
@[simp] theorem g_isSettingWaker (w : Word) : TaskState.isSettingWaker w = !w.notSettingWaker := rfl
@[simp] theorem g_hasWaker (w : Word) : TaskState.hasWaker w = w.hasWaker := rfl
@[simp] theorem g_hasResult (w : Word) : TaskState.hasResult w = w.hasResult := rfl
@[simp] theorem g_count (w : Word) : TaskState.count w = w.count := rfl
@[simp] theorem g_startScheduling (w : Word) :
    TaskState.startScheduling w = { w with scheduled := true, scheduling := true } := rfl
@[simp] theorem g_finishScheduling (w : Word) : TaskState.finishScheduling w = { w with scheduling := false } := rfl
@[simp] theorem g_isScheduled (w : Word) : TaskState.isScheduled w = w.scheduled := rfl
@[simp] theorem g_startSettingWaker (w : Word) :
    TaskState.startSettingWaker w = { w with notSettingWaker := false } := rfl
@[simp] theorem g_finishSettingWakerTrue (w : Word) :
    TaskState.finishSettingWakerTrue w = { w with notSettingWaker := true, hasWaker := true } := rfl

/-! ## Per-task invariant -/

/-- number of `Task` references that exist: the executor's (while the task is in the queue), the
join handle's, and one per live waker clone -/
def holders (inQ : Bool) (t : TaskSt) : Nat :=
  (if inQ then 1 else 0) + (if t.handle then 1 else 0) + t.wakers

def isRes : Storage → Bool
  | .resultOk | .resultPanic => true
  | _ => false

/-- lifecycle invariant of one task; `inQ` = the task is still in the executor's map (hot or cold) -/
structure TInv (inQ : Bool) (t : TaskSt) : Prop where
  /-- (R) reference count = number of holders, while allocated -/
  rc : t.deallocs = 0 → t.word.count = holders inQ t
  /-- (D) freed exactly when there is no holder left, at most once -/
  dl : t.deallocs = (if holders inQ t = 0 then 1 else 0)
  /-- (D) nothing touches the allocation after it was freed -/
  uaf : t.uaf = 0
  /-- (F) in the queue: the future is there, not dropped, not completed, `shared` valid -/
  inq_st : inQ = true → t.storage = .future
  inq_fd : inQ = true → t.futDrops = 0
  inq_c : inQ = true → t.word.completed = false
  inq_sh : inQ = true → t.shared = true
  /-- (F) out of the queue: the future was dropped exactly once, `Task::drop` ran -/
  outq_fd : inQ = false → t.futDrops = 1
  outq_sh : inQ = false → t.shared = false
  outq_nc : inQ = false → t.word.notCancelled = false
  outq_slot : inQ = false → t.slot = none
  outq_st : inQ = false → t.storage ≠ .future
  outq_empty : inQ = false → t.word.hasResult = false ∨ t.deallocs = 1 → t.storage = .empty
  /-- (P) never polled after completion -/
  bp : t.badPolls = 0
  /-- the home thread never leaves the SETTING_WAKER section open -/
  nsw : t.word.notSettingWaker = true
  /-- (S) HAS_RESULT ⇔ the storage holds a result, while allocated -/
  res : t.deallocs = 0 → t.word.hasResult = isRes t.storage
  resc : t.word.hasResult = true → t.word.completed = true
  /-- (S) the result is taken or dropped exactly once after it left the storage -/
  cnt : t.resTaken + t.resDrops = (if t.word.completed && (!t.word.hasResult || t.deallocs == 1) then 1 else 0)
  /-- (W) HAS_WAKER ⇔ the slot is occupied -/
  wk : t.word.hasWaker = t.slot.isSome
  /-- (W) every join waker written is dropped once, except the one still in the slot -/
  sl : t.slotSets = t.slotDrops + (if t.slot.isSome then 1 else 0)
  /-- a live handle on a completed task finds the result (`unreachable!` in `Local::poll`) -/
  hd : t.handle = true → t.word.completed = true → t.word.hasResult = true

/-! ## `Task::run` branch by branch -/

/-- the task after a poll that returned Pending -/
def polledTask (t : TaskSt) : TaskSt :=
  { t with word := TaskState.unschedule t.word, polls := t.polls + 1, script := t.script.drop 1 }

/-- the task after a poll that cloned the task waker and returned Pending -/
def clonedTask (t : TaskSt) : TaskSt :=
  { polledTask t with word := TaskState.inc (TaskState.unschedule t.word), wakers := t.wakers + 1 }

/-- the task after its future returned Ready / panicked: result published, `Task::drop`, reference released -/
def finishedTask (t : TaskSt) (o : Outcome) : TaskSt :=
  dropRef (taskDropByExecutor
    { t with word := TaskState.finishRunning (TaskState.unschedule t.word), polls := t.polls + 1,
             script := t.script.drop 1, futDrops := t.futDrops + 1,
             storage := if o.panics then .resultPanic else .resultOk })

/-- the task after `Task::run` found it cancelled: `Task::drop`, reference released -/
def droppedTask (t : TaskSt) : TaskSt :=
  dropRef (taskDropByExecutor { t with word := TaskState.unschedule t.word })

theorem runTask_cancelled (t : TaskSt) (hc : t.word.notCancelled = false) :
    runTask t = (droppedTask t, .dropped, none) := by
  simp [runTask, hc, droppedTask]

theorem runTask_pending (t : TaskSt) (hc : t.word.notCancelled = true) (hb : t.word.completed = false)
    (hs : t.script = [] ∨ ∃ r, t.script = .pending :: r) :
    runTask t = (polledTask t, .pending, none) := by
  rcases hs with hs | ⟨r, hs⟩ <;> simp [runTask, hc, hb, hs, polledTask]

theorem runTask_wakeSelf (t : TaskSt) (hc : t.word.notCancelled = true) (hb : t.word.completed = false)
    (r : List Outcome) (hs : t.script = .wakeSelf :: r) :
    runTask t = (polledTask t, .wokeSelf, none) := by
  simp [runTask, hc, hb, hs, polledTask]

theorem runTask_clone (t : TaskSt) (hc : t.word.notCancelled = true) (hb : t.word.completed = false)
    (r : List Outcome) (hs : t.script = .cloneWaker :: r) :
    runTask t = (clonedTask t, .pending, none) := by
  simp [runTask, hc, hb, hs, polledTask, clonedTask]

theorem runTask_remote (t : TaskSt) (hc : t.word.notCancelled = true) (hb : t.word.completed = false)
    (r : List Outcome) (hs : t.script = .remoteWake :: r) :
    runTask t = (polledTask t, .remoteWoke, none) := by
  simp [runTask, hc, hb, hs, polledTask]

theorem runTask_ready (t : TaskSt) (hc : t.word.notCancelled = true) (hb : t.word.completed = false)
    (o : Outcome) (r : List Outcome) (hs : t.script = o :: r) (ho : o = .ready ∨ o = .panic) :
    runTask t = (finishedTask t o, .finished,
                 if t.word.hasWaker && t.word.notSettingWaker then t.slot else none) := by
  rcases ho with ho | ho <;> subst ho <;> simp [runTask, hc, hb, hs, finishedTask, Outcome.panics]

/-- the future wakes its own task and returns Ready / panics in the same poll -/
theorem runTask_wakeReady (t : TaskSt) (hc : t.word.notCancelled = true) (hb : t.word.completed = false)
    (o : Outcome) (r : List Outcome) (hs : t.script = o :: r) (ho : o = .wakeReady ∨ o = .wakePanic) :
    runTask t = (finishedTask t o, .finishedWoke,
                 if t.word.hasWaker && t.word.notSettingWaker then t.slot else none) := by
  rcases ho with ho | ho <;> subst ho <;> simp [runTask, hc, hb, hs, finishedTask, Outcome.panics]

/-- the task with one more waker clone (made during the poll) -/
def cloneInc (t : TaskSt) : TaskSt := { t with word := TaskState.inc t.word, wakers := t.wakers + 1 }

/-- the future clones its waker and returns Ready in the same poll -/
theorem runTask_cloneReady (t : TaskSt) (hc : t.word.notCancelled = true) (hb : t.word.completed = false)
    (r : List Outcome) (hs : t.script = .cloneReady :: r) :
    runTask t = (finishedTask (cloneInc t) .cloneReady, .finished,
                 if t.word.hasWaker && t.word.notSettingWaker then t.slot else none) := by
  simp [runTask, hc, hb, hs, finishedTask, Outcome.panics, cloneInc]

set_option hygiene false in
/-- split task `t` and invariant `h` into explicit fields, decide the flags, finish by `simp`/`omega` -/
macro "task_tac" "[" defs:Lean.Parser.Tactic.simpLemma,* "]" : tactic => `(tactic| (
  obtain ⟨⟨s, sg, nsw, hw, c, hr, nc, cnt⟩, st, slot, script, sh, hd, wk, polls, fd, rt, rd, ss, sd, de, uaf, bp⟩ := t
  obtain ⟨h1, h2, h3, h4a, h4b, h4c, h4d, h5a, h5b, h5c, h5d, h5e, h5f, h6, h7, h8, h9, h10, h11, h12, h13⟩ := h
  cases nsw <;> cases c <;> cases hr <;> cases hw <;> cases hd <;> simp [holders] at * <;>
    subst_vars <;> simp [isRes] at * <;> constructor <;>
    simp [$defs,*, dropRef, taskDropByExecutor, holders, isRes] <;> (try split) <;> (try simp_all) <;> (try omega)))

theorem polledTask_inv (t : TaskSt) (h : TInv true t) : TInv true (polledTask t) := by
  task_tac [polledTask]

theorem clonedTask_inv (t : TaskSt) (h : TInv true t) : TInv true (clonedTask t) := by
  task_tac [polledTask, clonedTask]

theorem finishedTask_inv (t : TaskSt) (o : Outcome) (h : TInv true t) : TInv false (finishedTask t o) := by
  cases ho : o.panics
  · have e : finishedTask t o = finishedTask t .ready := by unfold finishedTask; rw [ho]; rfl
    rw [e]
    task_tac [finishedTask, Outcome.panics]
  · have e : finishedTask t o = finishedTask t .panic := by unfold finishedTask; rw [ho]; rfl
    rw [e]
    task_tac [finishedTask, Outcome.panics]

theorem cloneInc_inv (t : TaskSt) (h : TInv true t) : TInv true (cloneInc t) := by
  task_tac [cloneInc]

theorem droppedTask_inv (t : TaskSt) (h : TInv true t) : TInv false (droppedTask t) := by
  task_tac [droppedTask]

theorem clearedTask_inv (t : TaskSt) (h : TInv true t) : TInv false (dropRef (taskDropByExecutor t)) := by
  task_tac [dropRef]

theorem spawnedTask_inv (sc : List Outcome) :
    TInv true { word := TaskState.new 2, storage := .future, slot := none, script := sc,
                shared := true, handle := true, wakers := 0, polls := 0, futDrops := 0,
                resTaken := 0, resDrops := 0, slotSets := 0, slotDrops := 0, deallocs := 0, uaf := 0,
                badPolls := 0 } := by
  constructor <;> simp [holders, isRes]

/-! ## handle and waker steps -/

theorem pollTask_inv (q : Bool) (t : TaskSt) (w : Nat) (h : TInv q t) (hh : t.handle = true) :
    TInv q (pollTask t w).1 := by
  cases q <;> cases hn : t.word.notCancelled <;> task_tac [pollTask]

theorem remotePollTask_inv (q : Bool) (t : TaskSt) (w : Nat) (h : TInv q t) (hh : t.handle = true) :
    TInv q (remotePollTask t w).1 := by
  cases q <;> cases hn : t.word.notCancelled <;> task_tac [remotePollTask]

/-- the SCHEDULED / SCHEDULING bits play no role in the per-task invariant -/
theorem sched_bits_inv (q : Bool) (t : TaskSt) (a b : Bool) (h : TInv q t) :
    TInv q { t with word := { t.word with scheduled := a, scheduling := b } } := by
  obtain ⟨h1, h2, h3, h4a, h4b, h4c, h4d, h5a, h5b, h5c, h5d, h5e, h5f, h6, h7, h8, h9, h10, h11, h12, h13⟩ := h
  exact ⟨h1, h2, h3, h4a, h4b, h4c, h4d, h5a, h5b, h5c, h5d, h5e, h5f, h6, h7, h8, h9, h10, h11, h12, h13⟩

theorem remoteSchedTask_eq (t : TaskSt) :
    ∃ a b, (remoteSchedTask t).1 = { t with word := { t.word with scheduled := a, scheduling := b } } := by
  unfold remoteSchedTask
  simp only
  split
  · exact ⟨true, false, by simp⟩
  · split
    · exact ⟨true, false, by simp⟩
    · exact ⟨true, true, by simp⟩

theorem remoteSchedTask_inv (q : Bool) (t : TaskSt) (h : TInv q t) : TInv q (remoteSchedTask t).1 := by
  obtain ⟨a, b, he⟩ := remoteSchedTask_eq t
  rw [he]; exact sched_bits_inv q t a b h

theorem finishSched_inv (q : Bool) (t : TaskSt) (h : TInv q t) :
    TInv q { t with word := TaskState.finishScheduling t.word } := by
  have := sched_bits_inv q t t.word.scheduled false h
  simpa using this

theorem detachedTask_inv (q : Bool) (t : TaskSt) (h : TInv q t) (hh : t.handle = true) :
    TInv q (dropRef { t with handle := false }) := by
  cases q <;> task_tac [dropRef]

theorem handleDropTask_inv (q : Bool) (t : TaskSt) (h : TInv q t) (hh : t.handle = true) :
    TInv q (dropRef { cancelWord t true with handle := false }) := by
  cases q <;> task_tac [cancelWord]

theorem cancelWord_inv (q : Bool) (t : TaskSt) (h : TInv q t) :
    TInv q (cancelWord t false) := by
  have e : cancelWord t false = { t with word := { t.word with notCancelled := false } } := by
    simp [cancelWord]
  rw [e]
  cases q <;> task_tac [cancelWord]

theorem wakerDropTask_inv' (q : Bool) (t : TaskSt) (k : Nat) (h : TInv q t) (hh : t.wakers = k + 1) :
    TInv q (dropRef { t with wakers := k }) := by
  cases q <;> task_tac [dropRef]

theorem wakerDropTask_inv (q : Bool) (t : TaskSt) (h : TInv q t) (hh : t.wakers ≠ 0) :
    TInv q (dropRef { t with wakers := t.wakers - 1 }) := by
  obtain ⟨k, hk⟩ : ∃ k, t.wakers = k + 1 := ⟨t.wakers - 1, by omega⟩
  have := wakerDropTask_inv' q t k h hk
  rw [hk]; simpa using this

end Compio.Executor
