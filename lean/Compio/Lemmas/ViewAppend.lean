/-
Helper lemmas for Compio/Model/ViewAppend.lean (appending fills through one `Uninit`, pool buffers).
-/
import Compio.Lemmas.View
import Compio.Model.ViewAppend

namespace Compio.View

theorem appendRoot_cap (r : Root) (d : Bytes) (h : r.len + d.length ≤ r.cap) : (appendRoot r d).cap = r.cap := by
  simp only [appendRoot, Root.cap] at *
  exact splice_length _ _ _ h

theorem uninit_root_asInit (r : Root) (b : Nat) (hb : b ≤ r.len) :
    (Buf.uninit (.root r) b).asInit = .ok (b, r.len - b) := by
  simp [Buf.asInit, subRange, hb]

theorem uninit_root_asUninit (r : Root) (b : Nat) (hb : b ≤ r.len) (hl : r.len ≤ r.cap) :
    (Buf.uninit (.root r) b).asUninit = .ok (r.len, r.cap - r.len) := by
  have h1 : b ≤ r.cap := by omega
  have h2 : r.len - b ≤ r.cap - b := by omega
  simp only [Buf.asUninit, Buf.asInit, subRange, Option.getD_none, Nat.min_self, hb, h1, h2, if_true, Nat.zero_add]
  congr 2 <;> omega

/-- the growable root kinds record every in-capacity `set_len` that does not shrink -/
theorem Root.setLen_grow (r : Root) (n : Nat) (hk : r.kind ≠ .arr ∧ r.kind ≠ .boxed) (hn : n ≤ r.cap)
    (hg : r.len ≤ n) : r.setLen n = .ok { r with len := n } := by
  obtain ⟨k, l, m⟩ := r
  simp only [Root.cap] at *
  cases k <;> simp_all [Root.setLen, Root.cap]
  all_goals (intro h; omega)


/-- `splice` composes: two adjacent stores are one store of the concatenation -/
theorem splice_splice (m : Bytes) (o : Nat) (d1 d2 : Bytes) (h : o + d1.length ≤ m.length) :
    splice (splice m o d1) (o + d1.length) d2 = splice m o (d1 ++ d2) := by
  unfold splice
  have h1 : (m.take o ++ d1).length = o + d1.length := by
    simp only [List.length_append, List.length_take]; omega
  have ht : List.take (o + d1.length) (m.take o ++ d1 ++ m.drop (o + d1.length)) = m.take o ++ d1 := by
    rw [← h1]; exact List.take_left
  have hd : List.drop (o + d1.length + d2.length) (m.take o ++ d1 ++ m.drop (o + d1.length))
      = m.drop (o + (d1 ++ d2).length) := by
    rw [List.drop_append, h1, List.drop_drop]
    have hn : List.drop (o + d1.length + d2.length) (m.take o ++ d1) = [] := by
      apply List.drop_eq_nil_of_le; omega
    rw [hn, List.nil_append, List.length_append]
    congr 1; omega
  rw [ht, hd]
  simp [List.append_assoc]

/-- one appending fill through `Uninit` directly over a growable root: stored right behind the initialised bytes,
recorded there -/
theorem uninit_append_step (r : Root) (b : Nat) (d : Bytes) (hk : r.kind ≠ .arr ∧ r.kind ≠ .boxed)
    (hb : b ≤ r.len) (hl : r.len + d.length ≤ r.cap) :
    (Buf.uninit (.root r) b).fillAdv d = .ok (.uninit (.root (appendRoot r d)) b) := by
  have hu := uninit_root_asUninit r b hb (by omega)
  have hd : d.length ≤ r.cap - r.len := by omega
  let r1 : Root := { r with mem := splice r.mem r.len d }
  have hcap : r1.cap = r.cap := by
    simp only [r1, Root.cap] at *
    exact splice_length _ _ _ hl
  have hw : (Buf.uninit (.root r) b).write r.len d = .uninit (.root r1) b := by
    simp [Buf.write, Buf.setRoot, Buf.getRoot, r1]
  have hi : (Buf.uninit (.root r1) b).asInit = .ok (b, r.len - b) := uninit_root_asInit r1 b hb
  have hs : r1.setLen (b + (r.len - b + d.length)) = .ok { r1 with len := r.len + d.length } := by
    have : b + (r.len - b + d.length) = r.len + d.length := by omega
    rw [this]
    exact Root.setLen_grow r1 _ hk (by rw [hcap]; exact hl) (by simp [r1])
  simp only [Buf.fillAdv, Buf.noUninit, if_true, hu, hd, hw, Buf.advance, hi, Buf.setLen, hs]
  rfl

end Compio.View

namespace Compio.Pool
open Compio Compio.View

/-- the invariant of a pool buffer: `len ≤ cap ≤ full_cap` -/
structure PBuf.WF (p : PBuf) : Prop where
  le : p.len ≤ p.cap
  cap : p.cap ≤ p.mem.length

theorem PBuf.setLen_wf {p p' : PBuf} {n : Nat} (h : p.WF) (hs : p.setLen n = .ok p') : p'.WF := by
  unfold PBuf.setLen at hs
  split at hs
  · injection hs with hs
    subst hs
    exact ⟨Nat.min_le_right _ _, h.cap⟩
  · cases hs

theorem PBuf.setCap_wf {p : PBuf} (c : Nat) (h : p.WF) : (p.setCap c).WF := by
  unfold PBuf.setCap
  split
  · exact h
  · exact ⟨Nat.min_le_right _ _, Nat.min_le_right _ _⟩

theorem PBuf.advanceTo_wf {p p' : PBuf} {n : Nat} (h : p.WF) (hs : p.advanceTo n = .ok p') : p'.WF := by
  unfold PBuf.advanceTo at hs
  split at hs
  · exact PBuf.setLen_wf h hs
  · injection hs with hs
    subst hs
    exact h

theorem PBuf.fill_wf {p p' : PBuf} {d : Bytes} (h : p.WF) (hs : p.fill d = .ok p') : p'.WF := by
  unfold PBuf.fill at hs
  split at hs
  · rename_i hd
    have hl : (splice p.mem 0 d).length = p.mem.length :=
      splice_length _ _ _ (by have := h.cap; omega)
    exact PBuf.advanceTo_wf (p := { p with mem := splice p.mem 0 d }) ⟨h.le, by simpa [hl] using h.cap⟩ hs
  · cases hs

theorem PBuf.step_wf {p p' : PBuf} {op : Op} (h : p.WF) (hs : p.step op = .ok p') : p'.WF := by
  cases op <;> simp only [PBuf.step] at hs
  · exact PBuf.setLen_wf h hs
  · exact PBuf.advanceTo_wf h hs
  · exact PBuf.setLen_wf h hs
  · exact PBuf.setLen_wf h hs
  · injection hs with hs
    subst hs
    exact PBuf.setCap_wf _ h
  · exact PBuf.fill_wf h hs

end Compio.Pool
