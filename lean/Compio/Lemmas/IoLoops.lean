/- helper lemmas for Model/IoLoops.lean: the one-call contract of every reader composition -/
import Compio.Lemmas.Buffer
import Compio.Model.IoLoops

namespace Compio.Io

/-! ## what a reader still has to deliver -/

/-- the bytes a reader composition will hand out, in order: buffered bytes first, limits applied -/
def Rd.rest : Rd → Bytes
  | .script s _ => s
  | .mem d => d
  | .cursor d pos => d.drop pos
  | .take i lim => i.rest.take lim
  | .buf i b => b.pending ++ i.rest

/-- script entries not yet consumed -/
def Rd.entries : Rd → Nat
  | .script _ sc => sc.length
  | .mem _ => 0
  | .cursor _ _ => 0
  | .take i _ => i.entries
  | .buf i _ => i.entries

/-- every `BufReader` buffer inside is well-formed -/
def Rd.WF : Rd → Prop
  | .script _ _ => True
  | .mem _ => True
  | .cursor _ _ => True
  | .take i _ => i.WF
  | .buf i b => i.WF ∧ b.WF

/-- error kinds the base script can still produce -/
def Rd.errs : Rd → List Nat
  | .script _ sc => sc.filterMap fun | .err k => some k | _ => none
  | .mem _ => []
  | .cursor _ _ => []
  | .take i _ => i.errs
  | .buf i _ => i.errs

/-- post-condition of one `read` call offering `off` bytes of room -/
def ReadPost (r : Rd) (off : Nat) : Res Bytes × Rd → Prop
  | (.ok bs, r') =>
    bs = r.rest.take bs.length ∧ bs.length ≤ off ∧ r'.rest = r.rest.drop bs.length ∧ r'.WF ∧
      r'.entries ≤ r.entries ∧ (∀ k, k ∈ r'.errs → k ∈ r.errs)
  | (.err .interrupted, r') =>
    r'.rest = r.rest ∧ r'.WF ∧ r'.entries < r.entries ∧ (∀ k, k ∈ r'.errs → k ∈ r.errs)
  | (.err (.other k), r') => r'.rest = r.rest ∧ r'.WF ∧ r'.entries ≤ r.entries ∧ k ∈ r.errs
  | _ => False

theorem take_take_length (s : Bytes) (m : Nat) : s.take m = s.take (s.take m).length := by
  rw [List.length_take]
  rcases Nat.le_total m s.length with h | h
  · rw [Nat.min_eq_left h]
  · rw [Nat.min_eq_right h, List.take_of_length_le h, List.take_of_length_le (Nat.le_refl _)]

theorem drop_take_length (s : Bytes) (m : Nat) : s.drop m = s.drop (s.take m).length := by
  rw [List.length_take]
  rcases Nat.le_total m s.length with h | h
  · rw [Nat.min_eq_left h]
  · rw [Nat.min_eq_right h, List.drop_of_length_le h, List.drop_of_length_le (Nat.le_refl _)]

theorem scriptRead_post (s : Bytes) (sc : List Outcome) (off : Nat) :
    ReadPost (.script s sc) off
      ((scriptRead s sc off).1, .script (scriptRead s sc off).2.1 (scriptRead s sc off).2.2) := by
  cases sc with
  | nil => simp [scriptRead, ReadPost, Rd.rest, Rd.WF, Rd.entries, Rd.errs]
  | cons o rest =>
    cases o with
    | eof => simp [scriptRead, ReadPost, Rd.rest, Rd.WF, Rd.entries, Rd.errs]
    | intr => simp [scriptRead, ReadPost, Rd.rest, Rd.WF, Rd.entries, Rd.errs]
    | err k => simp [scriptRead, ReadPost, Rd.rest, Rd.WF, Rd.entries, Rd.errs]
    | ok n =>
      simp only [scriptRead, ReadPost, Rd.rest, Rd.WF, Rd.entries, Rd.errs]
      refine ⟨take_take_length s _, ?_, drop_take_length s _, trivial, by simp, ?_⟩
      · rw [List.length_take]; omega
      · intro k hk
        simpa using hk

theorem Rd.read_post (r : Rd) : ∀ (off : Nat), r.WF → ReadPost r off (r.read off) := by
  induction r with
  | script s sc =>
    intro off _
    exact scriptRead_post s sc off
  | mem d =>
    intro off _
    simp only [Rd.read, ReadPost, Rd.rest, Rd.WF, Rd.entries, Rd.errs]
    refine ⟨take_take_length d off, ?_, drop_take_length d off, trivial, Nat.le_refl _, fun _ h => h⟩
    rw [List.length_take]; omega
  | cursor d pos =>
    intro off _
    have hd : d.drop (min pos d.length) = d.drop pos := by
      rcases Nat.le_total pos d.length with h | h
      · rw [Nat.min_eq_left h]
      · rw [Nat.min_eq_right h, List.drop_of_length_le h, List.drop_of_length_le (Nat.le_refl _)]
    simp only [Rd.read, ReadPost, Rd.rest, Rd.WF, Rd.entries, Rd.errs, readAt, hd]
    refine ⟨take_take_length _ off, ?_, ?_, trivial, Nat.le_refl _, fun _ h => h⟩
    · rw [List.length_take]; omega
    · rw [List.drop_drop]
  | take i lim ih =>
    intro off hw
    simp only [Rd.WF] at hw
    unfold Rd.read
    split
    · rename_i hl
      subst hl
      simp [ReadPost, Rd.rest, Rd.WF, Rd.entries, Rd.errs, hw]
    · rename_i hl
      have hp := ih (min lim off) hw
      generalize hrd : i.read (min lim off) = out at hp
      obtain ⟨res, i'⟩ := out
      cases res with
      | ok bs =>
        simp only [ReadPost] at hp
        obtain ⟨h1, h2, h3, h4, h5, h6⟩ := hp
        have hbl : bs.length ≤ lim := by omega
        simp only [hbl, if_true, ReadPost, Rd.rest, Rd.WF, Rd.entries, Rd.errs]
        refine ⟨?_, by omega, ?_, h4, h5, h6⟩
        · rw [List.take_take, Nat.min_eq_left hbl]
          exact h1
        · rw [h3, List.drop_take]
      | err e =>
        cases e with
        | interrupted =>
          simp only [ReadPost] at hp
          obtain ⟨h1, h2, h3, h4⟩ := hp
          simp only [ReadPost, Rd.rest, Rd.WF, Rd.entries, Rd.errs]
          exact ⟨by rw [h1], h2, h3, h4⟩
        | other k =>
          simp only [ReadPost] at hp
          obtain ⟨h1, h2, h3, h4⟩ := hp
          simp only [ReadPost, Rd.rest, Rd.WF, Rd.entries, Rd.errs]
          exact ⟨by rw [h1], h2, h3, h4⟩
        | unexpectedEof => simp [ReadPost] at hp
        | writeZero => simp [ReadPost] at hp
      | panic => simp [ReadPost] at hp
      | ub => simp [ReadPost] at hp
      | fuel => simp [ReadPost] at hp
  | buf i b ih =>
    intro off hw
    simp only [Rd.WF] at hw
    obtain ⟨hwi, hwb⟩ := hw
    have hpw := Buffer.prep_wf b hwb
    have hpp := Buffer.prep_pending b
    -- serving from a well-formed buffer
    have serve : ∀ (i' : Rd) (b2 : Buffer), i'.WF → b2.WF → b2.pending ++ i'.rest = b.pending ++ i.rest →
        i'.entries ≤ i.entries → (∀ k, k ∈ i'.errs → k ∈ i.errs) →
        ReadPost (.buf i b) off (bufServe i' b2 off) := by
      intro i' b2 hwi' hwb2 hrest hent herr
      have hk : (b2.pending.take off).length ≤ b2.pending.length := by
        rw [List.length_take]; omega
      unfold bufServe
      rw [Buffer.advance_some b2 _ hwb2 hk]
      simp only [ReadPost, Rd.rest, Rd.WF, Rd.entries, Rd.errs]
      have hadv := Buffer.advance_pending b2 _ _ (Buffer.advance_some b2 _ hwb2 hk)
      have hawf := Buffer.advance_wf b2 _ _ hwb2 (Buffer.advance_some b2 _ hwb2 hk)
      refine ⟨?_, ?_, ?_, ⟨hwi', hawf⟩, hent, herr⟩
      · rw [← hrest, List.take_append_of_le_length hk]
        exact take_take_length _ _
      · rw [List.length_take]; omega
      · rw [hadv.1, ← hrest, List.drop_append_of_le_length hk]
    unfold Rd.read bufFill
    by_cases hnf : b.prep.needFill = true
    · simp only [hnf, if_true]
      have hp := ih (b.prep.cap - b.prep.data.length) hwi
      generalize hrd : i.read (b.prep.cap - b.prep.data.length) = out at hp
      obtain ⟨res, i'⟩ := out
      have hpe : b.prep.pending = [] := Buffer.prep_needFill_pending b hnf
      have hde : b.prep.data = [] := by simpa [Buffer.needFill] using hnf
      cases res with
      | ok bs =>
        simp only [ReadPost] at hp
        obtain ⟨h1, h2, h3, h4, h5, h6⟩ := hp
        apply serve i' _ h4 _ _ h5 h6
        · constructor
          · simp [hde]
            have := hpw.1
            simp [hde] at this
            omega
          · simp [hde]
            simp [hde] at h2
            exact h2
        · have hb0 : b.prep.begin = 0 := by
            have := hpw.1
            simp [hde] at this
            exact this
          have hbp : b.pending = [] := by rw [← hpp]; exact hpe
          simp only [Buffer.pending, hde, List.nil_append, hb0, List.drop_zero]
          simp only [Buffer.pending] at hbp
          rw [hbp, List.nil_append, h3]
          conv => rhs; rw [← List.take_append_drop bs.length i.rest]
          rw [← h1]
      | err e =>
        cases e with
        | interrupted =>
          simp only [ReadPost] at hp
          obtain ⟨h1, h2, h3, h4⟩ := hp
          simp only [ReadPost, Rd.rest, Rd.WF, Rd.entries, Rd.errs]
          exact ⟨by rw [hpp, h1], ⟨h2, hpw⟩, h3, h4⟩
        | other k =>
          simp only [ReadPost] at hp
          obtain ⟨h1, h2, h3, h4⟩ := hp
          simp only [ReadPost, Rd.rest, Rd.WF, Rd.entries, Rd.errs]
          exact ⟨by rw [hpp, h1], ⟨h2, hpw⟩, h3, h4⟩
        | unexpectedEof => simp [ReadPost] at hp
        | writeZero => simp [ReadPost] at hp
      | panic => simp [ReadPost] at hp
      | ub => simp [ReadPost] at hp
      | fuel => simp [ReadPost] at hp
    · simp only [hnf]
      apply serve i b.prep hwi hpw (by rw [hpp]) (Nat.le_refl _) (fun _ h => h)

/-! ## consequences of the one-call contract -/

theorem Rd.read_ok {r : Rd} {off : Nat} {bs : Bytes} {r' : Rd} (hw : r.WF)
    (h : r.read off = (.ok bs, r')) :
    bs = r.rest.take bs.length ∧ bs.length ≤ off ∧ r'.rest = r.rest.drop bs.length ∧ r'.WF ∧
      r'.entries ≤ r.entries ∧ (∀ k, k ∈ r'.errs → k ∈ r.errs) := by
  have := Rd.read_post r off hw
  rw [h] at this
  exact this

theorem Rd.read_intr {r : Rd} {off : Nat} {r' : Rd} (hw : r.WF)
    (h : r.read off = (.err .interrupted, r')) :
    r'.rest = r.rest ∧ r'.WF ∧ r'.entries < r.entries ∧ (∀ k, k ∈ r'.errs → k ∈ r.errs) := by
  have := Rd.read_post r off hw
  rw [h] at this
  exact this

theorem Rd.read_other {r : Rd} {off : Nat} {k : Nat} {r' : Rd} (hw : r.WF)
    (h : r.read off = (.err (.other k), r')) :
    r'.rest = r.rest ∧ r'.WF ∧ r'.entries ≤ r.entries ∧ k ∈ r.errs := by
  have := Rd.read_post r off hw
  rw [h] at this
  exact this

/-- a `read` on a well-formed reader answers with bytes, `Interrupted`, or a script error: it never
panics and never invents another error kind -/
theorem Rd.read_cases (r : Rd) (off : Nat) (hw : r.WF) :
    (∃ bs r', r.read off = (.ok bs, r')) ∨ (∃ r', r.read off = (.err .interrupted, r')) ∨
      (∃ k r', r.read off = (.err (.other k), r')) := by
  have hp := Rd.read_post r off hw
  generalize hrd : r.read off = out at hp
  obtain ⟨res, r'⟩ := out
  cases res with
  | ok bs => exact Or.inl ⟨bs, r', rfl⟩
  | err e =>
    cases e with
    | interrupted => exact Or.inr (Or.inl ⟨r', rfl⟩)
    | other k => exact Or.inr (Or.inr ⟨k, r', rfl⟩)
    | unexpectedEof => simp [ReadPost] at hp
    | writeZero => simp [ReadPost] at hp
  | panic => simp [ReadPost] at hp
  | ub => simp [ReadPost] at hp
  | fuel => simp [ReadPost] at hp

theorem take_length_le_of_eq {bs s : Bytes} (h : bs = s.take bs.length) : bs.length ≤ s.length := by
  have : bs.length = (s.take bs.length).length := by rw [← h]
  rw [List.length_take] at this
  omega

/-! ## readers that never report a premature end -/

/-- number of `ok` entries -/
def countOk : List Outcome → Nat
  | [] => 0
  | .ok _ :: r => countOk r + 1
  | _ :: r => countOk r

/-- only positive transfers and interruptions -/
def Honest (sc : List Outcome) : Prop := ∀ o, o ∈ sc → o = .intr ∨ ∃ n, 0 < n ∧ o = .ok n

/-- a reader composition that answers `Ok(0)` to a call offering room only when nothing is left:
an honest script with enough entries, in-memory sources, limits, and `BufReader`s **with a non-zero
capacity**. -/
def Rd.Live : Rd → Prop
  | .script s sc => Honest sc ∧ s.length ≤ countOk sc
  | .mem _ => True
  | .cursor _ _ => True
  | .take i _ => i.Live
  | .buf i b => 0 < b.cap ∧ i.Live

def LivePost (r : Rd) : Res Bytes × Rd → Prop
  | (.ok bs, r') => r'.Live ∧ (bs.length = 0 → r.rest = [])
  | (.err .interrupted, r') => r'.Live
  | _ => False

theorem Honest.tail {o : Outcome} {sc : List Outcome} (h : Honest (o :: sc)) : Honest sc :=
  fun x hx => h x (List.mem_cons_of_mem _ hx)

theorem Rd.read_live (r : Rd) : ∀ (off : Nat), 0 < off → r.WF → r.Live → LivePost r (r.read off) := by
  induction r with
  | script s sc =>
    intro off ho _ hl
    obtain ⟨hh, hc⟩ := hl
    cases sc with
    | nil =>
      simp only [countOk] at hc
      have : s = [] := List.eq_nil_of_length_eq_zero (by omega)
      simp [Rd.read, scriptRead, LivePost, Rd.Live, Rd.rest, Honest, countOk, this]
    | cons o rest =>
      have ht := hh.tail
      rcases hh o (List.mem_cons_self) with ho' | ⟨n, hn, ho'⟩
      · subst ho'
        simp only [countOk] at hc
        simp only [Rd.read, scriptRead, LivePost, Rd.Live]
        exact ⟨ht, hc⟩
      · subst ho'
        simp only [countOk] at hc
        simp only [Rd.read, scriptRead, LivePost, Rd.Live, Rd.rest]
        refine ⟨⟨ht, ?_⟩, ?_⟩
        · rw [List.length_drop]; omega
        · intro hz
          rw [List.length_take] at hz
          exact List.eq_nil_of_length_eq_zero (by omega)
  | mem d =>
    intro off ho _ _
    simp only [Rd.read, LivePost, Rd.Live, Rd.rest, true_and]
    intro hz
    rw [List.length_take] at hz
    exact List.eq_nil_of_length_eq_zero (by omega)
  | cursor d pos =>
    intro off ho _ _
    simp only [Rd.read, LivePost, Rd.Live, Rd.rest, true_and, readAt]
    intro hz
    rw [List.length_take, List.length_drop] at hz
    apply List.eq_nil_of_length_eq_zero
    rw [List.length_drop]
    omega
  | take i lim ih =>
    intro off ho hw hl
    simp only [Rd.WF] at hw
    simp only [Rd.Live] at hl
    unfold Rd.read
    split
    · rename_i h0
      subst h0
      simp [LivePost, Rd.Live, Rd.rest, hl]
    · rename_i h0
      have hp := ih (min lim off) (by omega) hw hl
      have hq := Rd.read_post i (min lim off) hw
      generalize hrd : i.read (min lim off) = out at hp hq
      obtain ⟨res, i'⟩ := out
      cases res with
      | ok bs =>
        simp only [LivePost] at hp
        simp only [ReadPost] at hq
        have hbl : bs.length ≤ lim := by omega
        simp only [hbl, if_true, LivePost, Rd.Live, Rd.rest]
        exact ⟨hp.1, fun hz => by rw [hp.2 hz]; simp⟩
      | err e =>
        cases e with
        | interrupted => simpa [LivePost, Rd.Live] using hp
        | other k => simp [LivePost] at hp
        | unexpectedEof => simp [LivePost] at hp
        | writeZero => simp [LivePost] at hp
      | panic => simp [LivePost] at hp
      | ub => simp [LivePost] at hp
      | fuel => simp [LivePost] at hp
  | buf i b ih =>
    intro off ho hw hl
    simp only [Rd.WF] at hw
    simp only [Rd.Live] at hl
    obtain ⟨hwi, hwb⟩ := hw
    obtain ⟨hcap, hli⟩ := hl
    have hpw := Buffer.prep_wf b hwb
    have hpp := Buffer.prep_pending b
    have serve : ∀ (i' : Rd) (b2 : Buffer), i'.Live → b2.WF → b2.cap = b.cap →
        (b2.pending = [] → b.pending = [] ∧ i.rest = []) → LivePost (.buf i b) (bufServe i' b2 off) := by
      intro i' b2 hl' hwb2 hc hem
      have hk : (b2.pending.take off).length ≤ b2.pending.length := by
        rw [List.length_take]; omega
      unfold bufServe
      rw [Buffer.advance_some b2 _ hwb2 hk]
      simp only [LivePost, Rd.Live, Rd.rest]
      refine ⟨⟨by rw [hc]; exact hcap, hl'⟩, ?_⟩
      intro hz
      rw [List.length_take] at hz
      have : b2.pending = [] := List.eq_nil_of_length_eq_zero (by omega)
      obtain ⟨e1, e2⟩ := hem this
      rw [e1, e2]; rfl
    unfold Rd.read bufFill
    by_cases hnf : b.prep.needFill = true
    · simp only [hnf, if_true]
      have hde : b.prep.data = [] := by simpa [Buffer.needFill] using hnf
      have hpe : b.prep.pending = [] := Buffer.prep_needFill_pending b hnf
      have hoff : 0 < b.prep.cap - b.prep.data.length := by simp [hde]; exact hcap
      have hp := ih _ hoff hwi hli
      have hq := Rd.read_post i (b.prep.cap - b.prep.data.length) hwi
      generalize hrd : i.read (b.prep.cap - b.prep.data.length) = out at hp hq
      obtain ⟨res, i'⟩ := out
      cases res with
      | ok bs =>
        simp only [LivePost] at hp
        simp only [ReadPost] at hq
        have hb0 : b.prep.begin = 0 := by
          have := hpw.1
          simp [hde] at this
          exact this
        apply serve i' _ hp.1
        · constructor
          · simp [hde, hb0]
          · simp [hde]
            have := hq.2.1
            simp [hde] at this
            exact this
        · simp
        · intro hem
          simp [Buffer.pending, hde, hb0] at hem
          refine ⟨by rw [← hpp]; exact hpe, hp.2 (by simp [hem])⟩
      | err e =>
        cases e with
        | interrupted =>
          simp only [LivePost] at hp
          simp only [LivePost, Rd.Live]
          exact ⟨by simpa using hcap, hp⟩
        | other k => simp [LivePost] at hp
        | unexpectedEof => simp [LivePost] at hp
        | writeZero => simp [LivePost] at hp
      | panic => simp [LivePost] at hp
      | ub => simp [LivePost] at hp
      | fuel => simp [LivePost] at hp
    · simp only [hnf]
      apply serve i b.prep hli hpw (by simp)
      intro hem
      exact absurd hem (Buffer.prep_not_needFill_pending b (by simpa using hnf))

theorem Rd.live_ok {r : Rd} {off : Nat} {bs : Bytes} {r' : Rd} (hw : r.WF) (hl : r.Live) (ho : 0 < off)
    (h : r.read off = (.ok bs, r')) : r'.Live ∧ (bs.length = 0 → r.rest = []) := by
  have := Rd.read_live r off ho hw hl
  rw [h] at this
  exact this

theorem Rd.live_intr {r : Rd} {off : Nat} {r' : Rd} (hw : r.WF) (hl : r.Live) (ho : 0 < off)
    (h : r.read off = (.err .interrupted, r')) : r'.Live := by
  have := Rd.read_live r off ho hw hl
  rw [h] at this
  exact this

theorem Rd.live_other {r : Rd} {off : Nat} {k : Nat} {r' : Rd} (hw : r.WF) (hl : r.Live) (ho : 0 < off)
    (h : r.read off = (.err (.other k), r')) : False := by
  have := Rd.read_live r off ho hw hl
  rw [h] at this
  exact this

/-! ## read_exact -/

theorem readExactLoop_succ (fuel : Nat) (r : Rd) (b : VBuf) (len read : Nat) :
    readExactLoop (fuel + 1) r b len read =
      if read < len then
        if b.data.length < read then (.panic, r, b)
        else
          match r.read (b.cap - read) with
          | (.ok bs, r') =>
            if bs.length = 0 then (.err .unexpectedEof, r', b)
            else readExactLoop fuel r' (b.place read bs) len (read + bs.length)
          | (.err .interrupted, r') => readExactLoop fuel r' b len read
          | (.err e, r') => (.err e, r', b)
          | (.panic, r') => (.panic, r', b)
          | (.ub, r') => (.ub, r', b)
          | (.fuel, r') => (.fuel, r', b)
      else (.ok (), r, b) := rfl

/-- `read_exact` over any well-formed reader composition: the destination receives a prefix of what
the reader had to deliver, at the start of the view; the reader keeps exactly the rest; the result
is `Ok` (filled), `UnexpectedEof` (short) or the script's error. Never a panic. -/
theorem readExactLoop_spec : ∀ (fuel : Nat) (r : Rd) (b : VBuf) (read : Nat), r.WF →
    read ≤ b.data.length → read ≤ b.cap → (b.cap - read) + r.entries < fuel →
    ∃ (t : Nat) (res : Res Unit) (r' : Rd),
      readExactLoop fuel r b b.cap read = (res, r', ⟨overlay b.data read (r.rest.take t), b.cap⟩) ∧
      t ≤ r.rest.length ∧ read + t ≤ b.cap ∧ r'.rest = r.rest.drop t ∧ r'.WF ∧
      ((res = .ok () ∧ read + t = b.cap) ∨
        (res = .err .unexpectedEof ∧ read + t < b.cap ∧ (r.Live → t = r.rest.length)) ∨
        (∃ k, res = .err (.other k) ∧ k ∈ r.errs ∧ read + t < b.cap ∧ ¬ r.Live)) := by
  intro fuel
  induction fuel with
  | zero => intro r b read _ _ _ hf; omega
  | succ fuel ih =>
    intro r b read hw hrd hrc hf
    rw [readExactLoop_succ]
    by_cases hlt : read < b.cap
    · rw [if_pos hlt, if_neg (by omega)]
      rcases Rd.read_cases r (b.cap - read) hw with ⟨bs, r1, h⟩ | ⟨r1, h⟩ | ⟨k, r1, h⟩
      · obtain ⟨h1, h2, h3, h4, h5, h6⟩ := Rd.read_ok hw h
        rw [h]
        by_cases hz : bs.length = 0
        · simp only [hz, if_true]
          refine ⟨0, _, r1, ?_, by omega, by omega, ?_, h4, Or.inr (Or.inl ⟨rfl, by omega, ?_⟩)⟩
          · simp
          · rw [h3, hz]
          · intro hl
            rw [(Rd.live_ok hw hl (by omega) h).2 hz]; rfl
        · simp only [hz, if_false]
          have hpl : read + bs.length ≤ (b.place read bs).data.length := by
            simp only [VBuf.place]
            rw [overlay_length _ _ _ hrd]
            omega
          obtain ⟨t, res, r2, he, ht1, ht2, ht3, ht4, ht5⟩ :=
            ih r1 (b.place read bs) (read + bs.length) h4 hpl (by simp [VBuf.place]; omega)
              (by simp [VBuf.place]; omega)
          have hbl := take_length_le_of_eq h1
          refine ⟨bs.length + t, res, r2, ?_, ?_, ?_, ?_, ht4, ?_⟩
          · simp only [VBuf.place] at he
            show readExactLoop fuel r1 ⟨overlay b.data read bs, b.cap⟩ b.cap (read + bs.length) = _
            rw [he, overlay_overlay _ _ _ _ hrd, ← take_add_drop, ← h1, ← h3]
          · rw [h3, List.length_drop] at ht1; omega
          · simp only [VBuf.place] at ht2; omega
          · rw [ht3, h3, List.drop_drop]
          · simp only [VBuf.place] at ht5
            rcases ht5 with ⟨e1, e2⟩ | ⟨e1, e2, e3⟩ | ⟨k, e1, e2, e3, e4⟩
            · exact Or.inl ⟨e1, by omega⟩
            · refine Or.inr (Or.inl ⟨e1, by omega, ?_⟩)
              intro hl
              have := e3 (Rd.live_ok hw hl (by omega) h).1
              rw [h3, List.length_drop] at this
              omega
            · exact Or.inr (Or.inr ⟨k, e1, h6 k e2, by omega,
                fun hl => e4 (Rd.live_ok hw hl (by omega) h).1⟩)
      · obtain ⟨h1, h2, h3, h4⟩ := Rd.read_intr hw h
        rw [h]
        obtain ⟨t, res, r2, he, ht1, ht2, ht3, ht4, ht5⟩ := ih r1 b read h2 hrd hrc (by omega)
        refine ⟨t, res, r2, ?_, ?_, ht2, ?_, ht4, ?_⟩
        · simp only []
          rw [he, h1]
        · rw [← h1]; exact ht1
        · rw [ht3, h1]
        · rcases ht5 with h' | ⟨e1, e2, e3⟩ | ⟨k, e1, e2, e3, e4⟩
          · exact Or.inl h'
          · refine Or.inr (Or.inl ⟨e1, e2, ?_⟩)
            intro hl
            rw [← h1]
            exact e3 (Rd.live_intr hw hl (by omega) h)
          · exact Or.inr (Or.inr ⟨k, e1, h4 k e2, e3, fun hl => e4 (Rd.live_intr hw hl (by omega) h)⟩)
      · obtain ⟨h1, h2, h3, h4⟩ := Rd.read_other hw h
        rw [h]
        refine ⟨0, _, r1, ?_, by omega, by omega, ?_, h2, Or.inr (Or.inr ⟨k, rfl, h4, by omega,
          fun hl => Rd.live_other hw hl (by omega) h⟩)⟩
        · simp
        · simp [h1]
    · rw [if_neg hlt]
      refine ⟨0, _, r, ?_, by omega, by omega, by simp, hw, Or.inl ⟨rfl, by omega⟩⟩
      simp

/-! ## read_to_end -/

/-- the buffer `read_to_end` offers: grown by `reserve(32)` when full -/
def roomFor (b : VBuf) : VBuf := if b.data.length = b.cap then b.reserve 32 else b

theorem roomFor_data (b : VBuf) : (roomFor b).data = b.data := by
  unfold roomFor VBuf.reserve
  split
  · split <;> rfl
  · rfl

/-- there is always room after `reserve` -/
theorem roomFor_room (b : VBuf) (h : b.data.length ≤ b.cap) : b.data.length < (roomFor b).cap := by
  unfold roomFor VBuf.reserve
  split
  · rename_i he
    rw [if_neg (by omega)]
    simp only [growAmortized]
    omega
  · omega

theorem readToEndLoop_succ (fuel : Nat) (r : Rd) (b : VBuf) (start total : Nat) :
    readToEndLoop (fuel + 1) r b start total =
      if (roomFor b).data.length < start + total then (.panic, r, roomFor b)
      else
        match r.read ((roomFor b).cap - (start + total)) with
        | (.ok bs, r') =>
          if bs.length = 0 then (.ok total, r', roomFor b)
          else readToEndLoop fuel r' ((roomFor b).place (start + total) bs) start (total + bs.length)
        | (.err .interrupted, r') => readToEndLoop fuel r' (roomFor b) start total
        | (.err e, r') => (.err e, r', roomFor b)
        | (.panic, r') => (.panic, r', roomFor b)
        | (.ub, r') => (.ub, r', roomFor b)
        | (.fuel, r') => (.fuel, r', roomFor b) := rfl

/-- `read_to_end` over any well-formed reader composition: a prefix of what the reader had to
deliver is *appended* after the existing content, the reader keeps exactly the rest, the result is
the number of bytes appended or the script's error. Never a panic. -/
theorem readToEndLoop_spec : ∀ (fuel : Nat) (r : Rd) (b : VBuf) (start total : Nat), r.WF →
    start + total = b.data.length → b.data.length ≤ b.cap → r.rest.length + r.entries < fuel →
    ∃ (t : Nat) (res : Res Nat) (r' : Rd) (cap' : Nat),
      readToEndLoop fuel r b start total = (res, r', ⟨b.data ++ r.rest.take t, cap'⟩) ∧
      t ≤ r.rest.length ∧ b.data.length + t ≤ cap' ∧ r'.rest = r.rest.drop t ∧ r'.WF ∧
      ((res = .ok (total + t) ∧ (r.Live → t = r.rest.length)) ∨
        (∃ k, res = .err (.other k) ∧ k ∈ r.errs ∧ ¬ r.Live)) := by
  intro fuel
  induction fuel with
  | zero => intro r b start total _ _ _ hf; omega
  | succ fuel ih =>
    intro r b start total hw hst hcap hf
    rw [readToEndLoop_succ]
    have hrd := roomFor_data b
    have hroom := roomFor_room b hcap
    rw [if_neg (by rw [hrd]; omega)]
    rcases Rd.read_cases r ((roomFor b).cap - (start + total)) hw with ⟨bs, r1, h⟩ | ⟨r1, h⟩ | ⟨k, r1, h⟩
    · obtain ⟨h1, h2, h3, h4, h5, h6⟩ := Rd.read_ok hw h
      rw [h]
      by_cases hz : bs.length = 0
      · simp only [hz, if_true]
        refine ⟨0, _, r1, (roomFor b).cap, ?_, by omega, by omega, ?_, h4, Or.inl ⟨rfl, ?_⟩⟩
        · have : roomFor b = ⟨b.data, (roomFor b).cap⟩ := by
            cases hb : roomFor b with
            | mk d c => rw [hb] at hrd; simp at hrd; simp [hrd]
          rw [this]; simp
        · rw [h3, hz]
        · intro hl
          rw [(Rd.live_ok hw hl (by omega) h).2 hz]; rfl
      · simp only [hz, if_false]
        have hbl := take_length_le_of_eq h1
        have hpd : ((roomFor b).place (start + total) bs).data = b.data ++ bs := by
          simp only [VBuf.place, hrd, hst]
          exact overlay_at_end _ _
        obtain ⟨t, res, r2, cap', he, ht1, ht2, ht3, ht4, ht5⟩ :=
          ih r1 ((roomFor b).place (start + total) bs) start (total + bs.length) h4
            (by rw [hpd]; simp; omega)
            (by rw [hpd]; simp [VBuf.place]; omega)
            (by rw [h3, List.length_drop]; omega)
        refine ⟨bs.length + t, res, r2, cap', ?_, ?_, ?_, ?_, ht4, ?_⟩
        · rw [he, hpd, List.append_assoc, ← take_add_drop, ← h1, ← h3]
        · rw [h3, List.length_drop] at ht1; omega
        · rw [hpd] at ht2; simp at ht2; omega
        · rw [ht3, h3, List.drop_drop]
        · rcases ht5 with ⟨e, e'⟩ | ⟨k, e1, e2, e3⟩
          · refine Or.inl ⟨by rw [e]; congr 1; omega, ?_⟩
            intro hl
            have := e' (Rd.live_ok hw hl (by omega) h).1
            rw [h3, List.length_drop] at this
            omega
          · exact Or.inr ⟨k, e1, h6 k e2, fun hl => e3 (Rd.live_ok hw hl (by omega) h).1⟩
    · obtain ⟨h1, h2, h3, h4⟩ := Rd.read_intr hw h
      rw [h]
      obtain ⟨t, res, r2, cap', he, ht1, ht2, ht3, ht4, ht5⟩ :=
        ih r1 (roomFor b) start total h2 (by rw [hrd]; exact hst) (by rw [hrd]; omega) (by rw [h1]; omega)
      refine ⟨t, res, r2, cap', ?_, ?_, ?_, ?_, ht4, ?_⟩
      · simp only []
        rw [he, hrd, h1]
      · rw [← h1]; exact ht1
      · rw [hrd] at ht2; exact ht2
      · rw [ht3, h1]
      · rcases ht5 with ⟨e, e'⟩ | ⟨k, e1, e2, e3⟩
        · refine Or.inl ⟨e, ?_⟩
          intro hl
          rw [← h1]
          exact e' (Rd.live_intr hw hl (by omega) h)
        · exact Or.inr ⟨k, e1, h4 k e2, fun hl => e3 (Rd.live_intr hw hl (by omega) h)⟩
    · obtain ⟨h1, h2, h3, h4⟩ := Rd.read_other hw h
      rw [h]
      refine ⟨0, _, r1, (roomFor b).cap, ?_, by omega, by omega, ?_, h2, Or.inr ⟨k, rfl, h4,
        fun hl => Rd.live_other hw hl (by omega) h⟩⟩
      · have : roomFor b = ⟨b.data, (roomFor b).cap⟩ := by
          cases hb : roomFor b with
          | mk d c => rw [hb] at hrd; simp at hrd; simp [hrd]
        simp only []
        rw [this]; simp
      · simp [h1]

end Compio.Io
