/- helper lemmas for Model/IoLoops.lean: the one-call contract of every reader composition -/
import Compio.Lemmas.Buffer
import Compio.Model.IoLoops

namespace Compio.Io

/-! ## what a reader still has to deliver -/

/-- the bytes a reader composition will hand out, in order: buffered bytes first, limits applied -/
def Rd.rest : Rd → Bytes
  | .script s _ => s
  | .mem d => d
  | .cursor d pos => d.drop pos
  | .take i lim => i.rest.take lim
  | .buf i b => b.pending ++ i.rest

/-- script entries not yet consumed -/
def Rd.entries : Rd → Nat
  | .script _ sc => sc.length
  | .mem _ => 0
  | .cursor _ _ => 0
  | .take i _ => i.entries
  | .buf i _ => i.entries

/-- every `BufReader` buffer inside is well-formed -/
def Rd.WF : Rd → Prop
  | .script _ _ => True
  | .mem _ => True
  | .cursor _ _ => True
  | .take i _ => i.WF
  | .buf i b => i.WF ∧ b.WF

/-- error kinds the base script can still produce -/
def Rd.errs : Rd → List Nat
  | .script _ sc => sc.filterMap fun | .err k => some k | _ => none
  | .mem _ => []
  | .cursor _ _ => []
  | .take i _ => i.errs
  | .buf i _ => i.errs

/-- post-condition of one `read` call offering `off` bytes of room -/
def ReadPost (r : Rd) (off : Nat) : Res Bytes × Rd → Prop
  | (.ok bs, r') =>
    bs = r.rest.take bs.length ∧ bs.length ≤ off ∧ r'.rest = r.rest.drop bs.length ∧ r'.WF ∧
      r'.entries ≤ r.entries ∧ (∀ k, k ∈ r'.errs → k ∈ r.errs)
  | (.err .interrupted, r') =>
    r'.rest = r.rest ∧ r'.WF ∧ r'.entries < r.entries ∧ (∀ k, k ∈ r'.errs → k ∈ r.errs)
  | (.err (.other k), r') => r'.rest = r.rest ∧ r'.WF ∧ r'.entries ≤ r.entries ∧ k ∈ r.errs
  | _ => False

theorem take_take_length (s : Bytes) (m : Nat) : s.take m = s.take (s.take m).length := by
  rw [List.length_take]
  rcases Nat.le_total m s.length with h | h
  · rw [Nat.min_eq_left h]
  · rw [Nat.min_eq_right h, List.take_of_length_le h, List.take_of_length_le (Nat.le_refl _)]

theorem drop_take_length (s : Bytes) (m : Nat) : s.drop m = s.drop (s.take m).length := by
  rw [List.length_take]
  rcases Nat.le_total m s.length with h | h
  · rw [Nat.min_eq_left h]
  · rw [Nat.min_eq_right h, List.drop_of_length_le h, List.drop_of_length_le (Nat.le_refl _)]

theorem scriptRead_post (s : Bytes) (sc : List Outcome) (off : Nat) :
    ReadPost (.script s sc) off
      ((scriptRead s sc off).1, .script (scriptRead s sc off).2.1 (scriptRead s sc off).2.2) := by
  cases sc with
  | nil => simp [scriptRead, ReadPost, Rd.rest, Rd.WF, Rd.entries, Rd.errs]
  | cons o rest =>
    cases o with
    | eof => simp [scriptRead, ReadPost, Rd.rest, Rd.WF, Rd.entries, Rd.errs]
    | intr => simp [scriptRead, ReadPost, Rd.rest, Rd.WF, Rd.entries, Rd.errs]
    | err k => simp [scriptRead, ReadPost, Rd.rest, Rd.WF, Rd.entries, Rd.errs]
    | ok n =>
      simp only [scriptRead, ReadPost, Rd.rest, Rd.WF, Rd.entries, Rd.errs]
      refine ⟨take_take_length s _, ?_, drop_take_length s _, trivial, by simp, ?_⟩
      · rw [List.length_take]; omega
      · intro k hk
        simpa using hk

theorem Rd.read_post (r : Rd) : ∀ (off : Nat), r.WF → ReadPost r off (r.read off) := by
  induction r with
  | script s sc =>
    intro off _
    exact scriptRead_post s sc off
  | mem d =>
    intro off _
    simp only [Rd.read, ReadPost, Rd.rest, Rd.WF, Rd.entries, Rd.errs]
    refine ⟨take_take_length d off, ?_, drop_take_length d off, trivial, Nat.le_refl _, fun _ h => h⟩
    rw [List.length_take]; omega
  | cursor d pos =>
    intro off _
    have hd : d.drop (min pos d.length) = d.drop pos := by
      rcases Nat.le_total pos d.length with h | h
      · rw [Nat.min_eq_left h]
      · rw [Nat.min_eq_right h, List.drop_of_length_le h, List.drop_of_length_le (Nat.le_refl _)]
    simp only [Rd.read, ReadPost, Rd.rest, Rd.WF, Rd.entries, Rd.errs, readAt, hd]
    refine ⟨take_take_length _ off, ?_, ?_, trivial, Nat.le_refl _, fun _ h => h⟩
    · rw [List.length_take]; omega
    · rw [List.drop_drop]
  | take i lim ih =>
    intro off hw
    simp only [Rd.WF] at hw
    unfold Rd.read
    split
    · rename_i hl
      subst hl
      simp [ReadPost, Rd.rest, Rd.WF, Rd.entries, Rd.errs, hw]
    · rename_i hl
      have hp := ih (min lim off) hw
      generalize hrd : i.read (min lim off) = out at hp
      obtain ⟨res, i'⟩ := out
      cases res with
      | ok bs =>
        simp only [ReadPost] at hp
        obtain ⟨h1, h2, h3, h4, h5, h6⟩ := hp
        have hbl : bs.length ≤ lim := by omega
        simp only [hbl, if_true, ReadPost, Rd.rest, Rd.WF, Rd.entries, Rd.errs]
        refine ⟨?_, by omega, ?_, h4, h5, h6⟩
        · rw [List.take_take, Nat.min_eq_left hbl]
          exact h1
        · rw [h3, List.drop_take]
      | err e =>
        cases e with
        | interrupted =>
          simp only [ReadPost] at hp
          obtain ⟨h1, h2, h3, h4⟩ := hp
          simp only [ReadPost, Rd.rest, Rd.WF, Rd.entries, Rd.errs]
          exact ⟨by rw [h1], h2, h3, h4⟩
        | other k =>
          simp only [ReadPost] at hp
          obtain ⟨h1, h2, h3, h4⟩ := hp
          simp only [ReadPost, Rd.rest, Rd.WF, Rd.entries, Rd.errs]
          exact ⟨by rw [h1], h2, h3, h4⟩
        | unexpectedEof => simp [ReadPost] at hp
        | writeZero => simp [ReadPost] at hp
      | panic => simp [ReadPost] at hp
      | ub => simp [ReadPost] at hp
      | fuel => simp [ReadPost] at hp
  | buf i b ih =>
    intro off hw
    simp only [Rd.WF] at hw
    obtain ⟨hwi, hwb⟩ := hw
    have hpw := Buffer.prep_wf b hwb
    have hpp := Buffer.prep_pending b
    -- serving from a well-formed buffer
    have serve : ∀ (i' : Rd) (b2 : Buffer), i'.WF → b2.WF → b2.pending ++ i'.rest = b.pending ++ i.rest →
        i'.entries ≤ i.entries → (∀ k, k ∈ i'.errs → k ∈ i.errs) →
        ReadPost (.buf i b) off (bufServe i' b2 off) := by
      intro i' b2 hwi' hwb2 hrest hent herr
      have hk : (b2.pending.take off).length ≤ b2.pending.length := by
        rw [List.length_take]; omega
      unfold bufServe
      rw [Buffer.advance_some b2 _ hwb2 hk]
      simp only [ReadPost, Rd.rest, Rd.WF, Rd.entries, Rd.errs]
      have hadv := Buffer.advance_pending b2 _ _ (Buffer.advance_some b2 _ hwb2 hk)
      have hawf := Buffer.advance_wf b2 _ _ hwb2 (Buffer.advance_some b2 _ hwb2 hk)
      refine ⟨?_, ?_, ?_, ⟨hwi', hawf⟩, hent, herr⟩
      · rw [← hrest, List.take_append_of_le_length hk]
        exact take_take_length _ _
      · rw [List.length_take]; omega
      · rw [hadv.1, ← hrest, List.drop_append_of_le_length hk]
    unfold Rd.read bufFill
    by_cases hnf : b.prep.needFill = true
    · simp only [hnf, if_true]
      have hp := ih (b.prep.cap - b.prep.data.length) hwi
      generalize hrd : i.read (b.prep.cap - b.prep.data.length) = out at hp
      obtain ⟨res, i'⟩ := out
      have hpe : b.prep.pending = [] := Buffer.prep_needFill_pending b hnf
      have hde : b.prep.data = [] := by simpa [Buffer.needFill] using hnf
      cases res with
      | ok bs =>
        simp only [ReadPost] at hp
        obtain ⟨h1, h2, h3, h4, h5, h6⟩ := hp
        apply serve i' _ h4 _ _ h5 h6
        · constructor
          · simp [hde]
            have := hpw.1
            simp [hde] at this
            omega
          · simp [hde]
            simp [hde] at h2
            exact h2
        · have hb0 : b.prep.begin = 0 := by
            have := hpw.1
            simp [hde] at this
            exact this
          have hbp : b.pending = [] := by rw [← hpp]; exact hpe
          simp only [Buffer.pending, hde, List.nil_append, hb0, List.drop_zero]
          simp only [Buffer.pending] at hbp
          rw [hbp, List.nil_append, h3]
          conv => rhs; rw [← List.take_append_drop bs.length i.rest]
          rw [← h1]
      | err e =>
        cases e with
        | interrupted =>
          simp only [ReadPost] at hp
          obtain ⟨h1, h2, h3, h4⟩ := hp
          simp only [ReadPost, Rd.rest, Rd.WF, Rd.entries, Rd.errs]
          exact ⟨by rw [hpp, h1], ⟨h2, hpw⟩, h3, h4⟩
        | other k =>
          simp only [ReadPost] at hp
          obtain ⟨h1, h2, h3, h4⟩ := hp
          simp only [ReadPost, Rd.rest, Rd.WF, Rd.entries, Rd.errs]
          exact ⟨by rw [hpp, h1], ⟨h2, hpw⟩, h3, h4⟩
        | unexpectedEof => simp [ReadPost] at hp
        | writeZero => simp [ReadPost] at hp
      | panic => simp [ReadPost] at hp
      | ub => simp [ReadPost] at hp
      | fuel => simp [ReadPost] at hp
    · simp only [hnf]
      apply serve i b.prep hwi hpw (by rw [hpp]) (Nat.le_refl _) (fun _ h => h)

/-! ## consequences of the one-call contract -/

theorem Rd.read_ok {r : Rd} {off : Nat} {bs : Bytes} {r' : Rd} (hw : r.WF)
    (h : r.read off = (.ok bs, r')) :
    bs = r.rest.take bs.length ∧ bs.length ≤ off ∧ r'.rest = r.rest.drop bs.length ∧ r'.WF ∧
      r'.entries ≤ r.entries ∧ (∀ k, k ∈ r'.errs → k ∈ r.errs) := by
  have := Rd.read_post r off hw
  rw [h] at this
  exact this

theorem Rd.read_intr {r : Rd} {off : Nat} {r' : Rd} (hw : r.WF)
    (h : r.read off = (.err .interrupted, r')) :
    r'.rest = r.rest ∧ r'.WF ∧ r'.entries < r.entries ∧ (∀ k, k ∈ r'.errs → k ∈ r.errs) := by
  have := Rd.read_post r off hw
  rw [h] at this
  exact this

theorem Rd.read_other {r : Rd} {off : Nat} {k : Nat} {r' : Rd} (hw : r.WF)
    (h : r.read off = (.err (.other k), r')) :
    r'.rest = r.rest ∧ r'.WF ∧ r'.entries ≤ r.entries ∧ k ∈ r.errs := by
  have := Rd.read_post r off hw
  rw [h] at this
  exact this

/-- a `read` on a well-formed reader answers with bytes, `Interrupted`, or a script error: it never
panics and never invents another error kind -/
theorem Rd.read_cases (r : Rd) (off : Nat) (hw : r.WF) :
    (∃ bs r', r.read off = (.ok bs, r')) ∨ (∃ r', r.read off = (.err .interrupted, r')) ∨
      (∃ k r', r.read off = (.err (.other k), r')) := by
  have hp := Rd.read_post r off hw
  generalize hrd : r.read off = out at hp
  obtain ⟨res, r'⟩ := out
  cases res with
  | ok bs => exact Or.inl ⟨bs, r', rfl⟩
  | err e =>
    cases e with
    | interrupted => exact Or.inr (Or.inl ⟨r', rfl⟩)
    | other k => exact Or.inr (Or.inr ⟨k, r', rfl⟩)
    | unexpectedEof => simp [ReadPost] at hp
    | writeZero => simp [ReadPost] at hp
  | panic => simp [ReadPost] at hp
  | ub => simp [ReadPost] at hp
  | fuel => simp [ReadPost] at hp

theorem take_length_le_of_eq {bs s : Bytes} (h : bs = s.take bs.length) : bs.length ≤ s.length := by
  have : bs.length = (s.take bs.length).length := by rw [← h]
  rw [List.length_take] at this
  omega

/-! ## readers that never report a premature end -/

/-- number of `ok` entries -/
def countOk : List Outcome → Nat
  | [] => 0
  | .ok _ :: r => countOk r + 1
  | _ :: r => countOk r

/-- only positive transfers and interruptions -/
def Honest (sc : List Outcome) : Prop := ∀ o, o ∈ sc → o = .intr ∨ ∃ n, 0 < n ∧ o = .ok n

/-- a reader composition that answers `Ok(0)` to a call offering room only when nothing is left:
an honest script with enough entries, in-memory sources, limits, and `BufReader`s **with a non-zero
capacity**. -/
def Rd.Live : Rd → Prop
  | .script s sc => Honest sc ∧ s.length ≤ countOk sc
  | .mem _ => True
  | .cursor _ _ => True
  | .take i _ => i.Live
  | .buf i b => 0 < b.cap ∧ i.Live

def LivePost (r : Rd) : Res Bytes × Rd → Prop
  | (.ok bs, r') => r'.Live ∧ (bs.length = 0 → r.rest = [])
  | (.err .interrupted, r') => r'.Live
  | _ => False

theorem Honest.tail {o : Outcome} {sc : List Outcome} (h : Honest (o :: sc)) : Honest sc :=
  fun x hx => h x (List.mem_cons_of_mem _ hx)

theorem Rd.read_live (r : Rd) : ∀ (off : Nat), 0 < off → r.WF → r.Live → LivePost r (r.read off) := by
  induction r with
  | script s sc =>
    intro off ho _ hl
    obtain ⟨hh, hc⟩ := hl
    cases sc with
    | nil =>
      simp only [countOk] at hc
      have : s = [] := List.eq_nil_of_length_eq_zero (by omega)
      simp [Rd.read, scriptRead, LivePost, Rd.Live, Rd.rest, Honest, countOk, this]
    | cons o rest =>
      have ht := hh.tail
      rcases hh o (List.mem_cons_self) with ho' | ⟨n, hn, ho'⟩
      · subst ho'
        simp only [countOk] at hc
        simp only [Rd.read, scriptRead, LivePost, Rd.Live]
        exact ⟨ht, hc⟩
      · subst ho'
        simp only [countOk] at hc
        simp only [Rd.read, scriptRead, LivePost, Rd.Live, Rd.rest]
        refine ⟨⟨ht, ?_⟩, ?_⟩
        · rw [List.length_drop]; omega
        · intro hz
          rw [List.length_take] at hz
          exact List.eq_nil_of_length_eq_zero (by omega)
  | mem d =>
    intro off ho _ _
    simp only [Rd.read, LivePost, Rd.Live, Rd.rest, true_and]
    intro hz
    rw [List.length_take] at hz
    exact List.eq_nil_of_length_eq_zero (by omega)
  | cursor d pos =>
    intro off ho _ _
    simp only [Rd.read, LivePost, Rd.Live, Rd.rest, true_and, readAt]
    intro hz
    rw [List.length_take, List.length_drop] at hz
    apply List.eq_nil_of_length_eq_zero
    rw [List.length_drop]
    omega
  | take i lim ih =>
    intro off ho hw hl
    simp only [Rd.WF] at hw
    simp only [Rd.Live] at hl
    unfold Rd.read
    split
    · rename_i h0
      subst h0
      simp [LivePost, Rd.Live, Rd.rest, hl]
    · rename_i h0
      have hp := ih (min lim off) (by omega) hw hl
      have hq := Rd.read_post i (min lim off) hw
      generalize hrd : i.read (min lim off) = out at hp hq
      obtain ⟨res, i'⟩ := out
      cases res with
      | ok bs =>
        simp only [LivePost] at hp
        simp only [ReadPost] at hq
        have hbl : bs.length ≤ lim := by omega
        simp only [hbl, if_true, LivePost, Rd.Live, Rd.rest]
        exact ⟨hp.1, fun hz => by rw [hp.2 hz]; simp⟩
      | err e =>
        cases e with
        | interrupted => simpa [LivePost, Rd.Live] using hp
        | other k => simp [LivePost] at hp
        | unexpectedEof => simp [LivePost] at hp
        | writeZero => simp [LivePost] at hp
      | panic => simp [LivePost] at hp
      | ub => simp [LivePost] at hp
      | fuel => simp [LivePost] at hp
  | buf i b ih =>
    intro off ho hw hl
    simp only [Rd.WF] at hw
    simp only [Rd.Live] at hl
    obtain ⟨hwi, hwb⟩ := hw
    obtain ⟨hcap, hli⟩ := hl
    have hpw := Buffer.prep_wf b hwb
    have hpp := Buffer.prep_pending b
    have serve : ∀ (i' : Rd) (b2 : Buffer), i'.Live → b2.WF → b2.cap = b.cap →
        (b2.pending = [] → b.pending = [] ∧ i.rest = []) → LivePost (.buf i b) (bufServe i' b2 off) := by
      intro i' b2 hl' hwb2 hc hem
      have hk : (b2.pending.take off).length ≤ b2.pending.length := by
        rw [List.length_take]; omega
      unfold bufServe
      rw [Buffer.advance_some b2 _ hwb2 hk]
      simp only [LivePost, Rd.Live, Rd.rest]
      refine ⟨⟨by rw [hc]; exact hcap, hl'⟩, ?_⟩
      intro hz
      rw [List.length_take] at hz
      have : b2.pending = [] := List.eq_nil_of_length_eq_zero (by omega)
      obtain ⟨e1, e2⟩ := hem this
      rw [e1, e2]; rfl
    unfold Rd.read bufFill
    by_cases hnf : b.prep.needFill = true
    · simp only [hnf, if_true]
      have hde : b.prep.data = [] := by simpa [Buffer.needFill] using hnf
      have hpe : b.prep.pending = [] := Buffer.prep_needFill_pending b hnf
      have hoff : 0 < b.prep.cap - b.prep.data.length := by simp [hde]; exact hcap
      have hp := ih _ hoff hwi hli
      have hq := Rd.read_post i (b.prep.cap - b.prep.data.length) hwi
      generalize hrd : i.read (b.prep.cap - b.prep.data.length) = out at hp hq
      obtain ⟨res, i'⟩ := out
      cases res with
      | ok bs =>
        simp only [LivePost] at hp
        simp only [ReadPost] at hq
        have hb0 : b.prep.begin = 0 := by
          have := hpw.1
          simp [hde] at this
          exact this
        apply serve i' _ hp.1
        · constructor
          · simp [hde, hb0]
          · simp [hde]
            have := hq.2.1
            simp [hde] at this
            exact this
        · simp
        · intro hem
          simp [Buffer.pending, hde, hb0] at hem
          refine ⟨by rw [← hpp]; exact hpe, hp.2 (by simp [hem])⟩
      | err e =>
        cases e with
        | interrupted =>
          simp only [LivePost] at hp
          simp only [LivePost, Rd.Live]
          exact ⟨by simpa using hcap, hp⟩
        | other k => simp [LivePost] at hp
        | unexpectedEof => simp [LivePost] at hp
        | writeZero => simp [LivePost] at hp
      | panic => simp [LivePost] at hp
      | ub => simp [LivePost] at hp
      | fuel => simp [LivePost] at hp
    · simp only [hnf]
      apply serve i b.prep hli hpw (by simp)
      intro hem
      exact absurd hem (Buffer.prep_not_needFill_pending b (by simpa using hnf))

theorem Rd.live_ok {r : Rd} {off : Nat} {bs : Bytes} {r' : Rd} (hw : r.WF) (hl : r.Live) (ho : 0 < off)
    (h : r.read off = (.ok bs, r')) : r'.Live ∧ (bs.length = 0 → r.rest = []) := by
  have := Rd.read_live r off ho hw hl
  rw [h] at this
  exact this

theorem Rd.live_intr {r : Rd} {off : Nat} {r' : Rd} (hw : r.WF) (hl : r.Live) (ho : 0 < off)
    (h : r.read off = (.err .interrupted, r')) : r'.Live := by
  have := Rd.read_live r off ho hw hl
  rw [h] at this
  exact this

theorem Rd.live_other {r : Rd} {off : Nat} {k : Nat} {r' : Rd} (hw : r.WF) (hl : r.Live) (ho : 0 < off)
    (h : r.read off = (.err (.other k), r')) : False := by
  have := Rd.read_live r off ho hw hl
  rw [h] at this
  exact this

/-! ## read_exact -/

theorem readExactLoop_succ (fuel : Nat) (r : Rd) (b : VBuf) (len read : Nat) :
    readExactLoop (fuel + 1) r b len read =
      if read < len then
        if b.data.length < read then (.panic, r, b)
        else
          match r.read (b.cap - read) with
          | (.ok bs, r') =>
            if bs.length = 0 then (.err .unexpectedEof, r', b)
            else readExactLoop fuel r' (b.place read bs) len (read + bs.length)
          | (.err .interrupted, r') => readExactLoop fuel r' b len read
          | (.err e, r') => (.err e, r', b)
          | (.panic, r') => (.panic, r', b)
          | (.ub, r') => (.ub, r', b)
          | (.fuel, r') => (.fuel, r', b)
      else (.ok (), r, b) := rfl

/-- `read_exact` over any well-formed reader composition: the destination receives a prefix of what
the reader had to deliver, at the start of the view; the reader keeps exactly the rest; the result
is `Ok` (filled), `UnexpectedEof` (short) or the script's error. Never a panic. -/
theorem readExactLoop_spec : ∀ (fuel : Nat) (r : Rd) (b : VBuf) (read : Nat), r.WF →
    read ≤ b.data.length → read ≤ b.cap → (b.cap - read) + r.entries < fuel →
    ∃ (t : Nat) (res : Res Unit) (r' : Rd),
      readExactLoop fuel r b b.cap read = (res, r', ⟨overlay b.data read (r.rest.take t), b.cap⟩) ∧
      t ≤ r.rest.length ∧ read + t ≤ b.cap ∧ r'.rest = r.rest.drop t ∧ r'.WF ∧
      ((res = .ok () ∧ read + t = b.cap) ∨
        (res = .err .unexpectedEof ∧ read + t < b.cap ∧ (r.Live → t = r.rest.length)) ∨
        (∃ k, res = .err (.other k) ∧ k ∈ r.errs ∧ read + t < b.cap ∧ ¬ r.Live)) := by
  intro fuel
  induction fuel with
  | zero => intro r b read _ _ _ hf; omega
  | succ fuel ih =>
    intro r b read hw hrd hrc hf
    rw [readExactLoop_succ]
    by_cases hlt : read < b.cap
    · rw [if_pos hlt, if_neg (by omega)]
      rcases Rd.read_cases r (b.cap - read) hw with ⟨bs, r1, h⟩ | ⟨r1, h⟩ | ⟨k, r1, h⟩
      · obtain ⟨h1, h2, h3, h4, h5, h6⟩ := Rd.read_ok hw h
        rw [h]
        by_cases hz : bs.length = 0
        · simp only [hz, if_true]
          refine ⟨0, _, r1, ?_, by omega, by omega, ?_, h4, Or.inr (Or.inl ⟨rfl, by omega, ?_⟩)⟩
          · simp
          · rw [h3, hz]
          · intro hl
            rw [(Rd.live_ok hw hl (by omega) h).2 hz]; rfl
        · simp only [hz, if_false]
          have hpl : read + bs.length ≤ (b.place read bs).data.length := by
            simp only [VBuf.place]
            rw [overlay_length _ _ _ hrd]
            omega
          obtain ⟨t, res, r2, he, ht1, ht2, ht3, ht4, ht5⟩ :=
            ih r1 (b.place read bs) (read + bs.length) h4 hpl (by simp [VBuf.place]; omega)
              (by simp [VBuf.place]; omega)
          have hbl := take_length_le_of_eq h1
          refine ⟨bs.length + t, res, r2, ?_, ?_, ?_, ?_, ht4, ?_⟩
          · simp only [VBuf.place] at he
            show readExactLoop fuel r1 ⟨overlay b.data read bs, b.cap⟩ b.cap (read + bs.length) = _
            rw [he, overlay_overlay _ _ _ _ hrd, ← take_add_drop, ← h1, ← h3]
          · rw [h3, List.length_drop] at ht1; omega
          · simp only [VBuf.place] at ht2; omega
          · rw [ht3, h3, List.drop_drop]
          · simp only [VBuf.place] at ht5
            rcases ht5 with ⟨e1, e2⟩ | ⟨e1, e2, e3⟩ | ⟨k, e1, e2, e3, e4⟩
            · exact Or.inl ⟨e1, by omega⟩
            · refine Or.inr (Or.inl ⟨e1, by omega, ?_⟩)
              intro hl
              have := e3 (Rd.live_ok hw hl (by omega) h).1
              rw [h3, List.length_drop] at this
              omega
            · exact Or.inr (Or.inr ⟨k, e1, h6 k e2, by omega,
                fun hl => e4 (Rd.live_ok hw hl (by omega) h).1⟩)
      · obtain ⟨h1, h2, h3, h4⟩ := Rd.read_intr hw h
        rw [h]
        obtain ⟨t, res, r2, he, ht1, ht2, ht3, ht4, ht5⟩ := ih r1 b read h2 hrd hrc (by omega)
        refine ⟨t, res, r2, ?_, ?_, ht2, ?_, ht4, ?_⟩
        · simp only []
          rw [he, h1]
        · rw [← h1]; exact ht1
        · rw [ht3, h1]
        · rcases ht5 with h' | ⟨e1, e2, e3⟩ | ⟨k, e1, e2, e3, e4⟩
          · exact Or.inl h'
          · refine Or.inr (Or.inl ⟨e1, e2, ?_⟩)
            intro hl
            rw [← h1]
            exact e3 (Rd.live_intr hw hl (by omega) h)
          · exact Or.inr (Or.inr ⟨k, e1, h4 k e2, e3, fun hl => e4 (Rd.live_intr hw hl (by omega) h)⟩)
      · obtain ⟨h1, h2, h3, h4⟩ := Rd.read_other hw h
        rw [h]
        refine ⟨0, _, r1, ?_, by omega, by omega, ?_, h2, Or.inr (Or.inr ⟨k, rfl, h4, by omega,
          fun hl => Rd.live_other hw hl (by omega) h⟩)⟩
        · simp
        · simp [h1]
    · rw [if_neg hlt]
      refine ⟨0, _, r, ?_, by omega, by omega, by simp, hw, Or.inl ⟨rfl, by omega⟩⟩
      simp

/-! ## read_to_end -/

/-- the buffer `read_to_end` offers: grown by `reserve(32)` when full -/
def roomFor (b : VBuf) : VBuf := if b.data.length = b.cap then b.reserve 32 else b

theorem roomFor_data (b : VBuf) : (roomFor b).data = b.data := by
  unfold roomFor VBuf.reserve
  split
  · split <;> rfl
  · rfl

/-- there is always room after `reserve` -/
theorem roomFor_room (b : VBuf) (h : b.data.length ≤ b.cap) : b.data.length < (roomFor b).cap := by
  unfold roomFor VBuf.reserve
  split
  · rename_i he
    rw [if_neg (by omega)]
    simp only [growAmortized]
    omega
  · omega

theorem readToEndLoop_succ (fuel : Nat) (r : Rd) (b : VBuf) (start total : Nat) :
    readToEndLoop (fuel + 1) r b start total =
      if (roomFor b).data.length < start + total then (.panic, r, roomFor b)
      else
        match r.read ((roomFor b).cap - (start + total)) with
        | (.ok bs, r') =>
          if bs.length = 0 then (.ok total, r', roomFor b)
          else readToEndLoop fuel r' ((roomFor b).place (start + total) bs) start (total + bs.length)
        | (.err .interrupted, r') => readToEndLoop fuel r' (roomFor b) start total
        | (.err e, r') => (.err e, r', roomFor b)
        | (.panic, r') => (.panic, r', roomFor b)
        | (.ub, r') => (.ub, r', roomFor b)
        | (.fuel, r') => (.fuel, r', roomFor b) := rfl

/-- `read_to_end` over any well-formed reader composition: a prefix of what the reader had to
deliver is *appended* after the existing content, the reader keeps exactly the rest, the result is
the number of bytes appended or the script's error. Never a panic. -/
theorem readToEndLoop_spec : ∀ (fuel : Nat) (r : Rd) (b : VBuf) (start total : Nat), r.WF →
    start + total = b.data.length → b.data.length ≤ b.cap → r.rest.length + r.entries < fuel →
    ∃ (t : Nat) (res : Res Nat) (r' : Rd) (cap' : Nat),
      readToEndLoop fuel r b start total = (res, r', ⟨b.data ++ r.rest.take t, cap'⟩) ∧
      t ≤ r.rest.length ∧ b.data.length + t ≤ cap' ∧ r'.rest = r.rest.drop t ∧ r'.WF ∧
      ((res = .ok (total + t) ∧ (r.Live → t = r.rest.length)) ∨
        (∃ k, res = .err (.other k) ∧ k ∈ r.errs ∧ ¬ r.Live)) := by
  intro fuel
  induction fuel with
  | zero => intro r b start total _ _ _ hf; omega
  | succ fuel ih =>
    intro r b start total hw hst hcap hf
    rw [readToEndLoop_succ]
    have hrd := roomFor_data b
    have hroom := roomFor_room b hcap
    rw [if_neg (by rw [hrd]; omega)]
    rcases Rd.read_cases r ((roomFor b).cap - (start + total)) hw with ⟨bs, r1, h⟩ | ⟨r1, h⟩ | ⟨k, r1, h⟩
    · obtain ⟨h1, h2, h3, h4, h5, h6⟩ := Rd.read_ok hw h
      rw [h]
      by_cases hz : bs.length = 0
      · simp only [hz, if_true]
        refine ⟨0, _, r1, (roomFor b).cap, ?_, by omega, by omega, ?_, h4, Or.inl ⟨rfl, ?_⟩⟩
        · have : roomFor b = ⟨b.data, (roomFor b).cap⟩ := by
            cases hb : roomFor b with
            | mk d c => rw [hb] at hrd; simp at hrd; simp [hrd]
          rw [this]; simp
        · rw [h3, hz]
        · intro hl
          rw [(Rd.live_ok hw hl (by omega) h).2 hz]; rfl
      · simp only [hz, if_false]
        have hbl := take_length_le_of_eq h1
        have hpd : ((roomFor b).place (start + total) bs).data = b.data ++ bs := by
          simp only [VBuf.place, hrd, hst]
          exact overlay_at_end _ _
        obtain ⟨t, res, r2, cap', he, ht1, ht2, ht3, ht4, ht5⟩ :=
          ih r1 ((roomFor b).place (start + total) bs) start (total + bs.length) h4
            (by rw [hpd]; simp; omega)
            (by rw [hpd]; simp [VBuf.place]; omega)
            (by rw [h3, List.length_drop]; omega)
        refine ⟨bs.length + t, res, r2, cap', ?_, ?_, ?_, ?_, ht4, ?_⟩
        · rw [he, hpd, List.append_assoc, ← take_add_drop, ← h1, ← h3]
        · rw [h3, List.length_drop] at ht1; omega
        · rw [hpd] at ht2; simp at ht2; omega
        · rw [ht3, h3, List.drop_drop]
        · rcases ht5 with ⟨e, e'⟩ | ⟨k, e1, e2, e3⟩
          · refine Or.inl ⟨by rw [e]; congr 1; omega, ?_⟩
            intro hl
            have := e' (Rd.live_ok hw hl (by omega) h).1
            rw [h3, List.length_drop] at this
            omega
          · exact Or.inr ⟨k, e1, h6 k e2, fun hl => e3 (Rd.live_ok hw hl (by omega) h).1⟩
    · obtain ⟨h1, h2, h3, h4⟩ := Rd.read_intr hw h
      rw [h]
      obtain ⟨t, res, r2, cap', he, ht1, ht2, ht3, ht4, ht5⟩ :=
        ih r1 (roomFor b) start total h2 (by rw [hrd]; exact hst) (by rw [hrd]; omega) (by rw [h1]; omega)
      refine ⟨t, res, r2, cap', ?_, ?_, ?_, ?_, ht4, ?_⟩
      · simp only []
        rw [he, hrd, h1]
      · rw [← h1]; exact ht1
      · rw [hrd] at ht2; exact ht2
      · rw [ht3, h1]
      · rcases ht5 with ⟨e, e'⟩ | ⟨k, e1, e2, e3⟩
        · refine Or.inl ⟨e, ?_⟩
          intro hl
          rw [← h1]
          exact e' (Rd.live_intr hw hl (by omega) h)
        · exact Or.inr ⟨k, e1, h4 k e2, fun hl => e3 (Rd.live_intr hw hl (by omega) h)⟩
    · obtain ⟨h1, h2, h3, h4⟩ := Rd.read_other hw h
      rw [h]
      refine ⟨0, _, r1, (roomFor b).cap, ?_, by omega, by omega, ?_, h2, Or.inr ⟨k, rfl, h4,
        fun hl => Rd.live_other hw hl (by omega) h⟩⟩
      · have : roomFor b = ⟨b.data, (roomFor b).cap⟩ := by
          cases hb : roomFor b with
          | mk d c => rw [hb] at hrd; simp at hrd; simp [hrd]
        simp only []
        rw [this]; simp
      · simp [h1]

/-! ## writers -/

/-- everything a FIFO writer has accepted so far, in order -/
def BaseWr.sink : BaseWr → Bytes
  | .script got _ _ _ => got
  | .vec v => v
  | .sliceMut s => s.done
  | .cursorVec v _ => v
  | .cursorArr a _ => a

/-- the writers that append what they accept (cursors overwrite at a position instead) -/
def BaseWr.Fifo : BaseWr → Prop
  | .script _ _ _ _ => True
  | .vec _ => True
  | .sliceMut _ => True
  | _ => False

def BaseWr.entries : BaseWr → Nat
  | .script _ sc _ _ => sc.length
  | _ => 0

def BaseWr.errs : BaseWr → List Nat
  | .script _ sc _ _ => sc.filterMap fun | .err k => some k | _ => none
  | _ => []

def WritePost (w : BaseWr) (data : Bytes) : Res Nat × BaseWr → Prop
  | (.ok n, w') =>
    n ≤ data.length ∧ w'.sink = w.sink ++ data.take n ∧ w'.Fifo ∧ w'.entries ≤ w.entries ∧
      (∀ k, k ∈ w'.errs → k ∈ w.errs)
  | (.err .interrupted, w') =>
    w'.sink = w.sink ∧ w'.Fifo ∧ w'.entries < w.entries ∧ (∀ k, k ∈ w'.errs → k ∈ w.errs)
  | (.err (.other k), w') => w'.sink = w.sink ∧ w'.Fifo ∧ w'.entries ≤ w.entries ∧ k ∈ w.errs
  | _ => False

theorem BaseWr.write_post (w : BaseWr) (data : Bytes) (hf : w.Fifo) : WritePost w data (w.write data) := by
  cases w with
  | script got sc f s =>
    cases sc with
    | nil => simp [BaseWr.write, scriptWrite, WritePost, BaseWr.sink, BaseWr.Fifo, BaseWr.entries, BaseWr.errs]
    | cons o rest =>
      cases o with
      | eof => simp [BaseWr.write, scriptWrite, WritePost, BaseWr.sink, BaseWr.Fifo, BaseWr.entries, BaseWr.errs]
      | intr => simp [BaseWr.write, scriptWrite, WritePost, BaseWr.sink, BaseWr.Fifo, BaseWr.entries, BaseWr.errs]
      | err k => simp [BaseWr.write, scriptWrite, WritePost, BaseWr.sink, BaseWr.Fifo, BaseWr.entries, BaseWr.errs]
      | ok n =>
        simp only [BaseWr.write, scriptWrite, WritePost, BaseWr.sink, BaseWr.Fifo, BaseWr.entries, BaseWr.errs]
        refine ⟨by omega, trivial, trivial, by simp, ?_⟩
        intro k hk
        simpa using hk
  | vec v => simp [BaseWr.write, WritePost, BaseWr.sink, BaseWr.Fifo, BaseWr.entries, BaseWr.errs]
  | sliceMut sm =>
    simp [BaseWr.write, SliceMut.write, WritePost, BaseWr.sink, BaseWr.Fifo, BaseWr.entries, BaseWr.errs]
    omega
  | cursorVec v p => simp [BaseWr.Fifo] at hf
  | cursorArr a p => simp [BaseWr.Fifo] at hf

theorem BaseWr.write_cases (w : BaseWr) (data : Bytes) (hf : w.Fifo) :
    (∃ n w', w.write data = (.ok n, w')) ∨ (∃ w', w.write data = (.err .interrupted, w')) ∨
      (∃ k w', w.write data = (.err (.other k), w')) := by
  have hp := BaseWr.write_post w data hf
  generalize hrd : w.write data = out at hp
  obtain ⟨res, w'⟩ := out
  cases res with
  | ok n => exact Or.inl ⟨n, w', rfl⟩
  | err e =>
    cases e with
    | interrupted => exact Or.inr (Or.inl ⟨w', rfl⟩)
    | other k => exact Or.inr (Or.inr ⟨k, w', rfl⟩)
    | unexpectedEof => simp [WritePost] at hp
    | writeZero => simp [WritePost] at hp
  | panic => simp [WritePost] at hp
  | ub => simp [WritePost] at hp
  | fuel => simp [WritePost] at hp

theorem BaseWr.write_ok {w : BaseWr} {data : Bytes} {n : Nat} {w' : BaseWr} (hf : w.Fifo)
    (h : w.write data = (.ok n, w')) :
    n ≤ data.length ∧ w'.sink = w.sink ++ data.take n ∧ w'.Fifo ∧ w'.entries ≤ w.entries ∧
      (∀ k, k ∈ w'.errs → k ∈ w.errs) := by
  have := BaseWr.write_post w data hf
  rw [h] at this
  exact this

theorem BaseWr.write_intr {w : BaseWr} {data : Bytes} {w' : BaseWr} (hf : w.Fifo)
    (h : w.write data = (.err .interrupted, w')) :
    w'.sink = w.sink ∧ w'.Fifo ∧ w'.entries < w.entries ∧ (∀ k, k ∈ w'.errs → k ∈ w.errs) := by
  have := BaseWr.write_post w data hf
  rw [h] at this
  exact this

theorem BaseWr.write_other {w : BaseWr} {data : Bytes} {k : Nat} {w' : BaseWr} (hf : w.Fifo)
    (h : w.write data = (.err (.other k), w')) :
    w'.sink = w.sink ∧ w'.Fifo ∧ w'.entries ≤ w.entries ∧ k ∈ w.errs := by
  have := BaseWr.write_post w data hf
  rw [h] at this
  exact this

/-! ## `Buffer::flush_to` -/

theorem flushLoop_succ (fuel : Nat) (w : BaseWr) (b : Buffer) (total : Nat) :
    flushLoop (fuel + 1) w b total =
      match w.write b.pending with
      | (.ok n, w') =>
        if n = 0 then (.err .writeZero, w', b)
        else
          match b.advance n with
          | none => (.panic, w', b)
          | some b' =>
            if b'.allDone then (.ok (total + n), w', b'.reset) else flushLoop fuel w' b' (total + n)
      | (.err e, w') => (.err e, w', b)
      | (.panic, w') => (.panic, w', b)
      | (.ub, w') => (.ub, w', b)
      | (.fuel, w') => (.fuel, w', b) := rfl

/-- outcome of a flush: `t` bytes of the pending data went to the inner writer, in order, and the
buffer keeps exactly the unsent tail (so a retry sends exactly the rest); on success nothing is
left. Errors: `WriteZero`, or what the inner writer reported. Never a panic. -/
def FlushPost (w : BaseWr) (b : Buffer) (total : Nat) (out : Res Nat × BaseWr × Buffer) : Prop :=
  ∃ t, out.2.1.sink = w.sink ++ b.pending.take t ∧ out.2.2.pending = b.pending.drop t ∧
    out.2.2.WF ∧ out.2.2.cap = b.cap ∧ out.2.1.Fifo ∧ out.2.1.entries ≤ w.entries ∧
    (∀ k, k ∈ out.2.1.errs → k ∈ w.errs) ∧
    ((out.1 = .ok (total + t) ∧ t = b.pending.length) ∨
      (out.1 = .err .writeZero ∧ t < b.pending.length) ∨
      (out.1 = .err .interrupted ∧ t < b.pending.length ∧ out.2.1.entries < w.entries) ∨
      (∃ k, out.1 = .err (.other k) ∧ k ∈ w.errs ∧ t < b.pending.length))

theorem flushLoop_spec : ∀ (fuel : Nat) (w : BaseWr) (b : Buffer) (total : Nat), w.Fifo → b.WF →
    b.pending ≠ [] → b.pending.length ≤ fuel → FlushPost w b total (flushLoop fuel w b total) := by
  intro fuel
  induction fuel with
  | zero =>
    intro w b total _ _ hne hf
    exfalso
    apply hne
    exact List.eq_nil_of_length_eq_zero (by omega)
  | succ fuel ih =>
    intro w b total hfifo hwf hne hf
    have hpl : 0 < b.pending.length := List.length_pos_iff.mpr hne
    rw [flushLoop_succ]
    rcases BaseWr.write_cases w b.pending hfifo with ⟨n, w1, h⟩ | ⟨w1, h⟩ | ⟨k, w1, h⟩
    · obtain ⟨h1, h2, h3, h4, h5⟩ := BaseWr.write_ok hfifo h
      rw [h]
      by_cases hz : n = 0
      · simp only [hz, if_true]
        show FlushPost w b total (.err .writeZero, w1, b)
        refine ⟨0, ?_, by simp, hwf, rfl, h3, h4, h5, Or.inr (Or.inl ⟨rfl, hpl⟩)⟩
        simp [h2, hz]
      · simp only [hz, if_false]
        have hadv := Buffer.advance_some b n hwf h1
        rw [hadv]
        simp only []
        have hap := Buffer.advance_pending b _ n hadv
        have haw := Buffer.advance_wf b _ n hwf hadv
        by_cases hd : ({ b with begin := b.begin + n } : Buffer).allDone = true
        · simp only [hd, if_true]
          have hpe := Buffer.allDone_pending _ hd
          rw [hap.1] at hpe
          have hnl : n = b.pending.length := by
            have := congrArg List.length hpe
            simp [List.length_drop] at this
            omega
          refine ⟨n, ?_, ?_, Buffer.reset_wf _, rfl, h3, h4, h5, Or.inl ⟨rfl, hnl⟩⟩
          · exact h2
          · simp [hpe]
        · rw [if_neg hd]
          have hd' : ({ b with begin := b.begin + n } : Buffer).allDone = false := by simpa using hd
          have hne' := Buffer.not_allDone_pending _ hd'
          have hlen' : ({ b with begin := b.begin + n } : Buffer).pending.length ≤ fuel := by
            rw [hap.1, List.length_drop]; omega
          obtain ⟨t, e1, e2, e3, e4, e5, e6, e7, e8⟩ := ih w1 _ (total + n) h3 haw hne' hlen'
          refine ⟨n + t, ?_, ?_, e3, e4, e5, by omega, fun k hk => h5 k (e7 k hk), ?_⟩
          · rw [e1, h2, hap.1, List.append_assoc, take_add_drop]
          · rw [e2, hap.1, List.drop_drop]
          · rw [hap.1, List.length_drop] at e8
            rcases e8 with ⟨a1, a2⟩ | ⟨a1, a2⟩ | ⟨a1, a2, a3⟩ | ⟨k, a1, a2, a3⟩
            · exact Or.inl ⟨by rw [a1]; congr 1; omega, by omega⟩
            · exact Or.inr (Or.inl ⟨a1, by omega⟩)
            · exact Or.inr (Or.inr (Or.inl ⟨a1, by omega, by omega⟩))
            · exact Or.inr (Or.inr (Or.inr ⟨k, a1, h5 k a2, by omega⟩))
    · obtain ⟨h1, h2, h3, h4⟩ := BaseWr.write_intr hfifo h
      rw [h]
      show FlushPost w b total (.err .interrupted, w1, b)
      refine ⟨0, by simp [h1], by simp, hwf, rfl, h2, Nat.le_of_lt h3, h4,
        Or.inr (Or.inr (Or.inl ⟨rfl, hpl, h3⟩))⟩
    · obtain ⟨h1, h2, h3, h4⟩ := BaseWr.write_other hfifo h
      rw [h]
      show FlushPost w b total (.err (.other k), w1, b)
      exact ⟨0, by simp [h1], by simp, hwf, rfl, h2, h3, fun k' hk' => by
        have := BaseWr.write_post w b.pending hfifo
        rw [h] at this
        -- the error list can only shrink
        cases w with
        | script got sc f s =>
          cases sc with
          | nil => simp [BaseWr.write, scriptWrite] at h
          | cons o rest =>
            cases o <;> simp [BaseWr.write, scriptWrite] at h
            obtain ⟨_, hw1⟩ := h
            subst hw1
            simp [BaseWr.errs] at hk' ⊢
            exact Or.inr hk'
        | vec v => simp [BaseWr.write] at h
        | sliceMut sm => simp [BaseWr.write] at h
        | cursorVec v p => simp [BaseWr.Fifo] at hfifo
        | cursorArr a p => simp [BaseWr.Fifo] at hfifo,
        Or.inr (Or.inr (Or.inr ⟨k, rfl, h4, hpl⟩))⟩

/-- `flush_to` -/
theorem flushTo_spec (w : BaseWr) (b : Buffer) (hf : w.Fifo) (hw : b.WF) :
    FlushPost w b 0 (flushTo w b) := by
  unfold flushTo
  split
  · rename_i hd
    have hp := Buffer.allDone_pending b hd
    exact ⟨0, by simp, by simp, hw, rfl, hf, Nat.le_refl _, fun _ h => h, Or.inl ⟨rfl, by simp [hp]⟩⟩
  · rename_i hd
    exact flushLoop_spec _ w b 0 hf hw (Buffer.not_allDone_pending b (by simpa using hd)) (Nat.le_refl _)

/-! ## `BufWriter::write` -/

/-- the inner writer never answers `Interrupted` -/
def BaseWr.NoIntr : BaseWr → Prop
  | .script _ sc _ _ => Outcome.intr ∉ sc
  | _ => True

theorem BaseWr.noIntr_write (w : BaseWr) (data : Bytes) (hf : w.Fifo) (h : w.NoIntr) :
    (w.write data).2.NoIntr ∧ (w.write data).1 ≠ .err .interrupted := by
  cases w with
  | script got sc f s =>
    cases sc with
    | nil => simp [BaseWr.write, scriptWrite, BaseWr.NoIntr]
    | cons o rest =>
      simp only [BaseWr.NoIntr, List.mem_cons, not_or] at h
      cases o with
      | intr => exact absurd rfl h.1
      | eof => simp [BaseWr.write, scriptWrite, BaseWr.NoIntr, h.2]
      | err k => simp [BaseWr.write, scriptWrite, BaseWr.NoIntr, h.2]
      | ok n => simp [BaseWr.write, scriptWrite, BaseWr.NoIntr, h.2]
  | vec v => simp [BaseWr.write, BaseWr.NoIntr]
  | sliceMut sm => simp [BaseWr.write, BaseWr.NoIntr]
  | cursorVec v p => simp [BaseWr.Fifo] at hf
  | cursorArr a p => simp [BaseWr.Fifo] at hf

/-- `flush_if_needed`: like a flush that may also do nothing -/
def FlushIfPost (w : BaseWr) (b : Buffer) (out : Res Unit × BaseWr × Buffer) : Prop :=
  ∃ t, out.2.1.sink = w.sink ++ b.pending.take t ∧ out.2.2.pending = b.pending.drop t ∧
    out.2.2.WF ∧ out.2.2.cap = b.cap ∧ out.2.1.Fifo ∧ out.2.1.entries ≤ w.entries ∧
    (w.NoIntr → out.2.1.NoIntr) ∧
    (out.1 = .ok () ∨ out.1 = .err .writeZero ∨
      (out.1 = .err .interrupted ∧ out.2.1.entries < w.entries ∧ ¬ w.NoIntr) ∨
      (∃ k, out.1 = .err (.other k)))

theorem flushLoop_noIntr : ∀ (fuel : Nat) (w : BaseWr) (b : Buffer) (total : Nat), w.Fifo → w.NoIntr →
    (flushLoop fuel w b total).2.1.NoIntr ∧ (flushLoop fuel w b total).1 ≠ .err .interrupted := by
  intro fuel
  induction fuel with
  | zero => intro w b total _ h; simp [flushLoop, h]
  | succ fuel ih =>
    intro w b total hf hn
    rw [flushLoop_succ]
    have hw := BaseWr.noIntr_write w b.pending hf hn
    have hp := BaseWr.write_post w b.pending hf
    generalize hrd : w.write b.pending = out at hw hp
    obtain ⟨res, w1⟩ := out
    cases res with
    | ok n =>
      simp only [WritePost] at hp
      simp only []
      split
      · exact ⟨hw.1, by simp⟩
      · split
        · exact ⟨hw.1, by simp⟩
        · split
          · exact ⟨hw.1, by simp⟩
          · exact ih w1 _ _ hp.2.2.1 hw.1
    | err e =>
      cases e with
      | interrupted => exact absurd rfl hw.2
      | other k => exact ⟨hw.1, by simp⟩
      | unexpectedEof => exact ⟨hw.1, by simp⟩
      | writeZero => exact ⟨hw.1, by simp⟩
    | panic => exact ⟨hw.1, by simp⟩
    | ub => exact ⟨hw.1, by simp⟩
    | fuel => exact ⟨hw.1, by simp⟩

theorem flushIfNeeded_spec (w : BaseWr) (b : Buffer) (hf : w.Fifo) (hw : b.WF) :
    FlushIfPost w b (flushIfNeeded w b) := by
  unfold flushIfNeeded
  split
  · have hp := flushTo_spec w b hf hw
    have hn : w.NoIntr → (flushTo w b).2.1.NoIntr ∧ (flushTo w b).1 ≠ .err .interrupted := by
      intro hn
      unfold flushTo
      split
      · exact ⟨hn, by simp⟩
      · exact flushLoop_noIntr _ w b 0 hf hn
    generalize hrd : flushTo w b = out at hp hn
    obtain ⟨res, w1, b1⟩ := out
    obtain ⟨t, e1, e2, e3, e4, e5, e6, e7, e8⟩ := hp
    simp only [] at e1 e2 e3 e4 e5 e6 e7 e8 hn
    rcases e8 with ⟨a1, a2⟩ | ⟨a1, a2⟩ | ⟨a1, a2, a3⟩ | ⟨k, a1, a2, a3⟩
    · subst a1
      exact ⟨t, e1, e2, e3, e4, e5, e6, fun h => (hn h).1, Or.inl rfl⟩
    · subst a1
      exact ⟨t, e1, e2, e3, e4, e5, e6, fun h => (hn h).1, Or.inr (Or.inl rfl)⟩
    · subst a1
      exact ⟨t, e1, e2, e3, e4, e5, e6, fun h => (hn h).1,
        Or.inr (Or.inr (Or.inl ⟨rfl, a3, fun h => (hn h).2 rfl⟩))⟩
    · subst a1
      exact ⟨t, e1, e2, e3, e4, e5, e6, fun h => (hn h).1, Or.inr (Or.inr (Or.inr ⟨k, rfl⟩))⟩
  · exact ⟨0, by simp, by simp, hw, rfl, hf, Nat.le_refl _, fun h => h, Or.inl rfl⟩

/-! ## writers with or without a `BufWriter` -/

/-- bytes accepted and not lost: what reached the inner writer followed by what is buffered -/
def Wr.sink : Wr → Bytes
  | .base w => w.sink
  | .buf w b => w.sink ++ b.pending

def Wr.entries : Wr → Nat
  | .base w => w.entries
  | .buf w _ => w.entries

/-- a FIFO writer, or a `BufWriter` over a FIFO writer that never answers `Interrupted` -/
def Wr.Good : Wr → Prop
  | .base w => w.Fifo
  | .buf w b => w.Fifo ∧ b.WF ∧ w.NoIntr

/-- post-condition of one `write` on a good writer: `Ok(n)` takes exactly the first `n` bytes;
`Interrupted` takes nothing; another error may leave a prefix of the data in a `BufWriter`'s buffer -/
def WrPost (w : Wr) (data : Bytes) : Res Nat × Wr → Prop
  | (.ok n, w') => n ≤ data.length ∧ w'.sink = w.sink ++ data.take n ∧ w'.Good ∧ w'.entries ≤ w.entries
  | (.err .interrupted, w') => w'.sink = w.sink ∧ w'.Good ∧ w'.entries < w.entries
  | (.err .unexpectedEof, _) => False
  | (.err _, w') => (∃ k, k ≤ data.length ∧ w'.sink = w.sink ++ data.take k) ∧ w'.Good
  | _ => False

theorem bufWrite_post (w : BaseWr) (b : Buffer) (data : Bytes) (hf : w.Fifo) (hw : b.WF) (hn : w.NoIntr) :
    WrPost (.buf w b) data
      ((bufWrite w b data).1, .buf (bufWrite w b data).2.1 (bufWrite w b data).2.2) := by
  unfold bufWrite
  have h1 := flushIfNeeded_spec w b hf hw
  generalize hrd : flushIfNeeded w b = out at h1
  obtain ⟨res, w1, b1⟩ := out
  obtain ⟨t, e1, e2, e3, e4, e5, e6, e7, e8⟩ := h1
  simp only [] at e1 e2 e3 e4 e5 e6 e7 e8
  have hs1 : w1.sink ++ b1.pending = w.sink ++ b.pending := by
    rw [e1, e2, List.append_assoc, List.take_append_drop]
  rcases e8 with a | a | ⟨a, _, a3⟩ | ⟨k, a⟩
  · subst a
    simp only []
    have hps := Buffer.push_spec b1 data e3
    have h2 := flushIfNeeded_spec w1 (b1.push data).2 e5 hps.2.1
    generalize hrd2 : flushIfNeeded w1 (b1.push data).2 = out2 at h2
    obtain ⟨res2, w2, b2⟩ := out2
    obtain ⟨t2, f1, f2, f3, f4, f5, f6, f7, f8⟩ := h2
    simp only [] at f1 f2 f3 f4 f5 f6 f7 f8
    have hs2 : w2.sink ++ b2.pending = (w.sink ++ b.pending) ++ data.take (b1.push data).1 := by
      rw [f1, f2, List.append_assoc, List.take_append_drop, hps.1, ← List.append_assoc, hs1]
    have hle : (b1.push data).1 ≤ data.length := by rw [hps.2.2.1]; omega
    rcases f8 with a | a | ⟨a, _, a3⟩ | ⟨k, a⟩
    · subst a
      exact ⟨hle, hs2, ⟨f5, f3, f7 (e7 hn)⟩, by simp only [Wr.entries]; omega⟩
    · subst a
      exact ⟨⟨_, hle, hs2⟩, ⟨f5, f3, f7 (e7 hn)⟩⟩
    · exact absurd (e7 hn) a3
    · subst a
      exact ⟨⟨_, hle, hs2⟩, ⟨f5, f3, f7 (e7 hn)⟩⟩
  · subst a
    exact ⟨⟨0, by omega, by simp [Wr.sink, hs1]⟩, ⟨e5, e3, e7 hn⟩⟩
  · exact absurd hn a3
  · subst a
    exact ⟨⟨0, by omega, by simp [Wr.sink, hs1]⟩, ⟨e5, e3, e7 hn⟩⟩

theorem Wr.write_post (w : Wr) (data : Bytes) (hg : w.Good) : WrPost w data (w.write data) := by
  cases w with
  | base w =>
    simp only [Wr.Good] at hg
    have hp := BaseWr.write_post w data hg
    simp only [Wr.write]
    generalize hrd : w.write data = out at hp
    obtain ⟨res, w1⟩ := out
    cases res with
    | ok n =>
      simp only [WritePost] at hp
      exact ⟨hp.1, hp.2.1, hp.2.2.1, hp.2.2.2.1⟩
    | err e =>
      cases e with
      | interrupted =>
        simp only [WritePost] at hp
        exact ⟨hp.1, hp.2.1, hp.2.2.1⟩
      | other k =>
        simp only [WritePost] at hp
        exact ⟨⟨0, by omega, by simp [Wr.sink, hp.1]⟩, hp.2.1⟩
      | unexpectedEof => simp [WritePost] at hp
      | writeZero => simp [WritePost] at hp
    | panic => simp [WritePost] at hp
    | ub => simp [WritePost] at hp
    | fuel => simp [WritePost] at hp
  | buf w b =>
    obtain ⟨h1, h2, h3⟩ := hg
    exact bufWrite_post w b data h1 h2 h3

/-! ## write_all -/

theorem writeAllLoop_succ (fuel : Nat) (w : Wr) (data : Bytes) (needle : Nat) :
    writeAllLoop (fuel + 1) w data needle =
      if needle < data.length then
        match w.write (data.drop needle) with
        | (.ok n, w') =>
          if n = 0 then (.err .writeZero, w') else writeAllLoop fuel w' data (needle + n)
        | (.err .interrupted, w') => writeAllLoop fuel w' data needle
        | (.err e, w') => (.err e, w')
        | (.panic, w') => (.panic, w')
        | (.ub, w') => (.ub, w')
        | (.fuel, w') => (.fuel, w')
      else (.ok (), w) := rfl

/-- `write_all` on a good writer: what the writer holds afterwards is what it held before followed
by a prefix of the data (nothing lost, duplicated or reordered); `Ok` exactly when everything was
taken; otherwise `WriteZero` or the inner writer's error. Never a panic. -/
theorem writeAllLoop_spec : ∀ (fuel : Nat) (w : Wr) (data : Bytes) (needle : Nat), w.Good →
    needle ≤ data.length → (data.length - needle) + w.entries < fuel →
    ∃ (t : Nat) (res : Res Unit) (w' : Wr),
      writeAllLoop fuel w data needle = (res, w') ∧ needle + t ≤ data.length ∧
      w'.sink = w.sink ++ (data.drop needle).take t ∧ w'.Good ∧
      ((res = .ok () ∧ needle + t = data.length ∧ w'.entries ≤ w.entries) ∨ res = .err .writeZero ∨
        (∃ k, res = .err (.other k))) := by
  intro fuel
  induction fuel with
  | zero => intro w data needle _ _ hf; omega
  | succ fuel ih =>
    intro w data needle hg hn hf
    rw [writeAllLoop_succ]
    by_cases hlt : needle < data.length
    · rw [if_pos hlt]
      have hp := Wr.write_post w (data.drop needle) hg
      generalize hrd : w.write (data.drop needle) = out at hp
      obtain ⟨res, w1⟩ := out
      have hdl : (data.drop needle).length = data.length - needle := List.length_drop
      cases res with
      | ok n =>
        simp only [WrPost] at hp
        obtain ⟨h1, h2, h3, h4⟩ := hp
        by_cases hz : n = 0
        · simp only [hz, if_true]
          exact ⟨0, _, w1, rfl, by omega, by simp [h2, hz], h3, Or.inr (Or.inl rfl)⟩
        · simp only [hz, if_false]
          obtain ⟨t, res, w2, e1, e2, e3, e4, e5⟩ := ih w1 data (needle + n) h3 (by omega) (by omega)
          refine ⟨n + t, res, w2, e1, by omega, ?_, e4, ?_⟩
          · rw [e3, h2, List.append_assoc, ← List.drop_drop, take_add_drop]
          · rcases e5 with ⟨a, b, c⟩ | a | a
            · exact Or.inl ⟨a, by omega, by omega⟩
            · exact Or.inr (Or.inl a)
            · exact Or.inr (Or.inr a)
      | err e =>
        cases e with
        | interrupted =>
          simp only [WrPost] at hp
          obtain ⟨h1, h2, h3⟩ := hp
          obtain ⟨t, res, w2, e1, e2, e3, e4, e5⟩ := ih w1 data needle h2 hn (by omega)
          refine ⟨t, res, w2, e1, e2, by rw [e3, h1], e4, ?_⟩
          rcases e5 with ⟨a, b, c⟩ | a | a
          · exact Or.inl ⟨a, b, by omega⟩
          · exact Or.inr (Or.inl a)
          · exact Or.inr (Or.inr a)
        | other k =>
          simp only [WrPost] at hp
          obtain ⟨⟨k', hk1, hk2⟩, h3⟩ := hp
          exact ⟨k', _, w1, rfl, by omega, hk2, h3, Or.inr (Or.inr ⟨k, rfl⟩)⟩
        | writeZero =>
          simp only [WrPost] at hp
          obtain ⟨⟨k', hk1, hk2⟩, h3⟩ := hp
          exact ⟨k', _, w1, rfl, by omega, hk2, h3, Or.inr (Or.inl rfl)⟩
        | unexpectedEof => simp [WrPost] at hp
      | panic => simp [WrPost] at hp
      | ub => simp [WrPost] at hp
      | fuel => simp [WrPost] at hp
    · rw [if_neg hlt]
      exact ⟨0, _, w, rfl, by omega, by simp, hg, Or.inl ⟨rfl, by omega, Nat.le_refl _⟩⟩


/-! ## flush / shutdown on a good writer -/

/-- nothing left in the `BufWriter` -/
def Wr.Flushed : Wr → Prop
  | .base _ => True
  | .buf _ b => b.pending = []

theorem BaseWr.flush_keeps (w : BaseWr) :
    w.flush.sink = w.sink ∧ (w.Fifo → w.flush.Fifo) ∧ (w.NoIntr → w.flush.NoIntr) ∧
      w.flush.entries = w.entries := by
  cases w <;> simp [BaseWr.flush, BaseWr.sink, BaseWr.Fifo, BaseWr.NoIntr, BaseWr.entries]

theorem BaseWr.shutdown_keeps (w : BaseWr) :
    w.shutdown.sink = w.sink ∧ (w.Fifo → w.shutdown.Fifo) ∧ (w.NoIntr → w.shutdown.NoIntr) ∧
      w.shutdown.entries = w.entries := by
  cases w <;> simp [BaseWr.shutdown, BaseWr.sink, BaseWr.Fifo, BaseWr.NoIntr, BaseWr.entries]

/-- outcome of `flush`/`shutdown` on a good writer: nothing is lost or reordered; after `Ok`
everything accepted so far is at the inner writer; the only errors are `WriteZero` and the inner
writer's own -/
def CtlPost (w : Wr) (out : Res Unit × Wr) : Prop :=
  out.2.sink = w.sink ∧ out.2.Good ∧ out.2.entries ≤ w.entries ∧
    ((out.1 = .ok () ∧ out.2.Flushed) ∨ out.1 = .err .writeZero ∨ (∃ k, out.1 = .err (.other k)))

theorem flushTo_good (w : BaseWr) (b : Buffer) (hf : w.Fifo) (hw : b.WF) (hn : w.NoIntr) :
    ∃ (t : Nat) (res : Res Nat) (w1 : BaseWr) (b1 : Buffer), flushTo w b = (res, w1, b1) ∧
      w1.sink ++ b1.pending = w.sink ++ b.pending ∧ w1.Fifo ∧ b1.WF ∧ w1.NoIntr ∧ w1.entries ≤ w.entries ∧
      w1.sink = w.sink ++ b.pending.take t ∧ b1.pending = b.pending.drop t ∧
      ((res = .ok t ∧ b1.pending = []) ∨ res = .err .writeZero ∨ (∃ k, res = .err (.other k))) := by
  have hp := flushTo_spec w b hf hw
  have hni : (flushTo w b).2.1.NoIntr ∧ (flushTo w b).1 ≠ .err .interrupted := by
    unfold flushTo
    split
    · exact ⟨hn, by simp⟩
    · exact flushLoop_noIntr _ w b 0 hf hn
  generalize hrd : flushTo w b = out at hp hni
  obtain ⟨res, w1, b1⟩ := out
  obtain ⟨t, e1, e2, e3, e4, e5, e6, e7, e8⟩ := hp
  simp only [] at e1 e2 e3 e4 e5 e6 e7 e8 hni
  refine ⟨t, res, w1, b1, rfl, ?_, e5, e3, hni.1, e6, e1, e2, ?_⟩
  · rw [e1, e2, List.append_assoc, List.take_append_drop]
  · rcases e8 with ⟨a1, a2⟩ | ⟨a1, a2⟩ | ⟨a1, a2, a3⟩ | ⟨k, a1, a2, a3⟩
    · refine Or.inl ⟨by rw [a1]; simp, ?_⟩
      rw [e2, a2]; simp
    · exact Or.inr (Or.inl a1)
    · exact absurd a1 hni.2
    · exact Or.inr (Or.inr ⟨k, a1⟩)

theorem Wr.flush_post (w : Wr) (hg : w.Good) : CtlPost w w.flush := by
  cases w with
  | base w =>
    have hk := BaseWr.flush_keeps w
    exact ⟨hk.1, hk.2.1 hg, by simp [Wr.flush, Wr.entries, hk.2.2.2], Or.inl ⟨rfl, trivial⟩⟩
  | buf w b =>
    obtain ⟨h1, h2, h3⟩ := hg
    obtain ⟨t, res, w1, b1, e, e1, e2, e3, e4, e5, _, _, e6⟩ := flushTo_good w b h1 h2 h3
    simp only [Wr.flush, e]
    rcases e6 with ⟨a1, a2⟩ | a1 | ⟨k, a1⟩
    · subst a1
      exact ⟨e1, ⟨e2, e3, e4⟩, e5, Or.inl ⟨rfl, a2⟩⟩
    · subst a1
      exact ⟨e1, ⟨e2, e3, e4⟩, e5, Or.inr (Or.inl rfl)⟩
    · subst a1
      exact ⟨e1, ⟨e2, e3, e4⟩, e5, Or.inr (Or.inr ⟨k, rfl⟩)⟩

theorem Wr.shutdown_post (w : Wr) (hg : w.Good) : CtlPost w w.shutdown := by
  cases w with
  | base w =>
    have hk := BaseWr.shutdown_keeps w
    exact ⟨hk.1, hk.2.1 hg, by simp [Wr.shutdown, Wr.entries, hk.2.2.2], Or.inl ⟨rfl, trivial⟩⟩
  | buf w b =>
    obtain ⟨h1, h2, h3⟩ := hg
    obtain ⟨t, res, w1, b1, e, e1, e2, e3, e4, e5, _, _, e6⟩ := flushTo_good w b h1 h2 h3
    have hk := BaseWr.shutdown_keeps w1
    simp only [Wr.shutdown, e]
    rcases e6 with ⟨a1, a2⟩ | a1 | ⟨k, a1⟩
    · subst a1
      refine ⟨?_, ⟨hk.2.1 e2, e3, hk.2.2.1 e4⟩, ?_, Or.inl ⟨rfl, a2⟩⟩
      · simp only [Wr.sink, hk.1]; exact e1
      · simp only [Wr.entries, hk.2.2.2]; exact e5
    · subst a1
      exact ⟨e1, ⟨e2, e3, e4⟩, e5, Or.inr (Or.inl rfl)⟩
    · subst a1
      exact ⟨e1, ⟨e2, e3, e4⟩, e5, Or.inr (Or.inr ⟨k, rfl⟩)⟩

/-! ## copy -/

theorem copyLoop_succ (fuel : Nat) (r : Rd) (w : Wr) (size total : Nat) :
    copyLoop (fuel + 1) r w size total =
      match r.read size with
      | (.ok bs, r') =>
        if bs.length = 0 then
          match w.flush with
          | (.ok (), w1) =>
            match w1.shutdown with
            | (.ok (), w2) => (.ok total, r', w2)
            | (.err e, w2) => (.err e, r', w2)
            | (.panic, w2) => (.panic, r', w2)
            | (.ub, w2) => (.ub, r', w2)
            | (.fuel, w2) => (.fuel, r', w2)
          | (.err e, w1) => (.err e, r', w1)
          | (.panic, w1) => (.panic, r', w1)
          | (.ub, w1) => (.ub, r', w1)
          | (.fuel, w1) => (.fuel, r', w1)
        else
          match writeAll (fuel + 1) w bs with
          | (.ok (), w') => copyLoop fuel r' w' size (total + bs.length)
          | (.err e, w') => (.err e, r', w')
          | (.panic, w') => (.panic, r', w')
          | (.ub, w') => (.ub, r', w')
          | (.fuel, w') => (.fuel, r', w')
      | (.err .interrupted, r') => copyLoop fuel r' w size total
      | (.err e, r') => (.err e, r', w)
      | (.panic, r') => (.panic, r', w)
      | (.ub, r') => (.ub, r', w)
      | (.fuel, r') => (.fuel, r', w) := rfl

/-- `copy_with_size` from any well-formed reader into a good writer: the writer ends up with a
prefix `tw` of what the reader had, the reader has handed out `tr >= tw` bytes (the difference is
the chunk in flight when an error stopped the copy); `Ok(n)`: `n = tr = tw`, everything flushed,
and from a live reader with a non-empty copy buffer that is everything. Never a panic. -/
theorem copyLoop_spec : ∀ (fuel : Nat) (r : Rd) (w : Wr) (size total : Nat), r.WF → w.Good →
    r.rest.length + r.entries + w.entries < fuel →
    ∃ (tr tw : Nat) (res : Res Nat) (r' : Rd) (w' : Wr),
      copyLoop fuel r w size total = (res, r', w') ∧ tw ≤ tr ∧ tr ≤ r.rest.length ∧
      r'.rest = r.rest.drop tr ∧ w'.sink = w.sink ++ r.rest.take tw ∧ r'.WF ∧ w'.Good ∧
      ((res = .ok (total + tr) ∧ tw = tr ∧ w'.Flushed ∧ (r.Live → 0 < size → tr = r.rest.length)) ∨
        res = .err .writeZero ∨ (∃ k, res = .err (.other k))) := by
  intro fuel
  induction fuel with
  | zero => intro r w size total _ _ hf; omega
  | succ fuel ih =>
    intro r w size total hw hg hf
    rw [copyLoop_succ]
    rcases Rd.read_cases r size hw with ⟨bs, r1, h⟩ | ⟨r1, h⟩ | ⟨k, r1, h⟩
    · obtain ⟨h1, h2, h3, h4, h5, h6⟩ := Rd.read_ok hw h
      rw [h]
      by_cases hz : bs.length = 0
      · simp only [hz, if_true]
        have hr1 : r1.rest = r.rest.drop 0 := by rw [h3, hz]
        have hlive : r.Live → 0 < size → 0 = r.rest.length := by
          intro hl hs
          rw [(Rd.live_ok hw hl hs h).2 hz]; rfl
        have hfp := Wr.flush_post w hg
        generalize hfl : w.flush = outf at hfp
        obtain ⟨resf, w1⟩ := outf
        obtain ⟨f1, f2, f3, f4⟩ := hfp
        simp only [] at f1 f2 f3 f4
        rcases f4 with ⟨a1, a2⟩ | a1 | ⟨k, a1⟩
        · subst a1
          simp only []
          have hsp := Wr.shutdown_post w1 f2
          generalize hsl : w1.shutdown = outs at hsp
          obtain ⟨ress, w2⟩ := outs
          obtain ⟨s1, s2, s3, s4⟩ := hsp
          simp only [] at s1 s2 s3 s4
          rcases s4 with ⟨b1, b2⟩ | b1 | ⟨k, b1⟩
          · subst b1
            exact ⟨0, 0, _, r1, w2, rfl, Nat.le_refl _, by omega, hr1, by simp [s1, f1], h4, s2,
              Or.inl ⟨rfl, rfl, b2, hlive⟩⟩
          · subst b1
            exact ⟨0, 0, _, r1, w2, rfl, Nat.le_refl _, by omega, hr1, by simp [s1, f1], h4, s2,
              Or.inr (Or.inl rfl)⟩
          · subst b1
            exact ⟨0, 0, _, r1, w2, rfl, Nat.le_refl _, by omega, hr1, by simp [s1, f1], h4, s2,
              Or.inr (Or.inr ⟨k, rfl⟩)⟩
        · subst a1
          exact ⟨0, 0, _, r1, w1, rfl, Nat.le_refl _, by omega, hr1, by simp [f1], h4, f2,
            Or.inr (Or.inl rfl)⟩
        · subst a1
          exact ⟨0, 0, _, r1, w1, rfl, Nat.le_refl _, by omega, hr1, by simp [f1], h4, f2,
            Or.inr (Or.inr ⟨k, rfl⟩)⟩
      · simp only [hz, if_false]
        have hbl := take_length_le_of_eq h1
        obtain ⟨t, resw, w1, e1, e2, e3, e4, e5⟩ :=
          writeAllLoop_spec (fuel + 1) w bs 0 hg (by omega) (by omega)
        unfold writeAll
        rw [e1]
        simp only [List.drop_zero, Nat.zero_add] at e2 e3 e5
        have hsk : w1.sink = w.sink ++ r.rest.take t := by
          rw [e3, h1, List.take_take, Nat.min_eq_left e2]
        rcases e5 with ⟨a1, a2, hent⟩ | a1 | ⟨k, a1⟩
        · subst a1
          simp only []
          obtain ⟨tr, tw, res, r2, w2, c1, c2, c3, c4, c5, c6, c7, c8⟩ :=
            ih r1 w1 size (total + bs.length) h4 e4 (by rw [h3, List.length_drop]; omega)
          rw [h3, List.length_drop] at c3
          refine ⟨bs.length + tr, bs.length + tw, res, r2, w2, c1, by omega, by omega, ?_, ?_, c6, c7, ?_⟩
          · rw [c4, h3, List.drop_drop]
          · rw [c5, hsk, a2, h3, List.append_assoc, take_add_drop]
          · rcases c8 with ⟨d1, d2, d3, d4⟩ | d1 | d1
            · refine Or.inl ⟨by rw [d1]; congr 1; omega, by omega, d3, ?_⟩
              intro hl hs
              have := d4 (Rd.live_ok hw hl hs h).1 hs
              rw [h3, List.length_drop] at this
              omega
            · exact Or.inr (Or.inl d1)
            · exact Or.inr (Or.inr d1)
        · subst a1
          exact ⟨bs.length, t, _, r1, w1, rfl, e2, hbl, h3, hsk, h4, e4, Or.inr (Or.inl rfl)⟩
        · subst a1
          exact ⟨bs.length, t, _, r1, w1, rfl, e2, hbl, h3, hsk, h4, e4, Or.inr (Or.inr ⟨k, rfl⟩)⟩
    · obtain ⟨h1, h2, h3, h4⟩ := Rd.read_intr hw h
      rw [h]
      obtain ⟨tr, tw, res, r2, w2, c1, c2, c3, c4, c5, c6, c7, c8⟩ :=
        ih r1 w size total h2 hg (by rw [h1]; omega)
      rw [h1] at c3 c4 c5 c8
      refine ⟨tr, tw, res, r2, w2, c1, c2, c3, c4, c5, c6, c7, ?_⟩
      rcases c8 with ⟨d1, d2, d3, d4⟩ | d1 | d1
      · exact Or.inl ⟨d1, d2, d3, fun hl hs => d4 (Rd.live_intr hw hl hs h) hs⟩
      · exact Or.inr (Or.inl d1)
      · exact Or.inr (Or.inr d1)
    · obtain ⟨h1, h2, h3, h4⟩ := Rd.read_other hw h
      rw [h]
      exact ⟨0, 0, _, r1, w, rfl, Nat.le_refl _, by omega, by simp [h1], by simp, h2, hg,
        Or.inr (Or.inr ⟨k, rfl⟩)⟩


/-! ## `Interrupted` entries are transparent -/

/-- the script without its `Interrupted` entries -/
def stripIntr : List Outcome → List Outcome
  | [] => []
  | .intr :: r => stripIntr r
  | .ok n :: r => .ok n :: stripIntr r
  | .err k :: r => .err k :: stripIntr r
  | .eof :: r => .eof :: stripIntr r

theorem stripIntr_length_le (sc : List Outcome) : (stripIntr sc).length ≤ sc.length := by
  induction sc with
  | nil => simp [stripIntr]
  | cons o r ih => cases o <;> simp [stripIntr] <;> omega

/-- forget the `Interrupted` entries left in a scripted reader -/
def Rd.strip : Rd → Rd
  | .script s sc => .script s (stripIntr sc)
  | r => r

theorem readExactLoop_strip : ∀ (sc : List Outcome) (f1 f2 : Nat) (s : Bytes) (b : VBuf) (len read : Nat),
    (len - read) + sc.length < f1 → (len - read) + (stripIntr sc).length < f2 →
    readExactLoop f2 (.script s (stripIntr sc)) b len read =
      ((readExactLoop f1 (.script s sc) b len read).1, (readExactLoop f1 (.script s sc) b len read).2.1.strip,
        (readExactLoop f1 (.script s sc) b len read).2.2) := by
  intro sc
  induction sc with
  | nil =>
    intro f1 f2 s b len read h1 h2
    cases f1 with
    | zero => omega
    | succ f1 =>
      cases f2 with
      | zero => omega
      | succ f2 =>
        simp only [stripIntr, readExactLoop_succ, Rd.read, scriptRead]
        split
        · split <;> simp [Rd.strip, stripIntr]
        · simp [Rd.strip, stripIntr]
  | cons o rest ih =>
    intro f1 f2 s b len read h1 h2
    cases f1 with
    | zero => omega
    | succ f1 =>
      cases f2 with
      | zero => omega
      | succ f2 =>
        cases o with
        | intr =>
          simp only [stripIntr]
          rw [readExactLoop_succ (fuel := f1)]
          by_cases hlt : read < len
          · by_cases hp : b.data.length < read
            · simp only [hlt, hp, if_true, Rd.strip, stripIntr]
              rw [readExactLoop_succ]
              simp [hlt, hp]
            · simp only [hlt, hp, if_true, if_false, Rd.read, scriptRead]
              exact ih f1 (f2 + 1) s b len read (by simp at h1; omega) (by simp [stripIntr] at h2; omega)
          · simp only [hlt, if_false, Rd.strip, stripIntr]
            rw [readExactLoop_succ]
            simp [hlt]
        | ok n =>
          simp only [stripIntr, readExactLoop_succ, Rd.read, scriptRead]
          by_cases hlt : read < len
          · by_cases hp : b.data.length < read
            · simp [hlt, hp, Rd.strip, stripIntr]
            · simp only [hlt, hp, if_true, if_false]
              by_cases hz : (s.take (min n (b.cap - read))).length = 0
              · simp [hz, Rd.strip, stripIntr]
              · simp only [hz, if_false]
                exact ih f1 f2 _ _ len _ (by simp at h1; omega) (by simp [stripIntr] at h2; omega)
          · simp [hlt, Rd.strip, stripIntr]
        | err k =>
          simp only [stripIntr, readExactLoop_succ, Rd.read, scriptRead]
          by_cases hlt : read < len
          · by_cases hp : b.data.length < read
            · simp [hlt, hp, Rd.strip, stripIntr]
            · simp [hlt, hp, Rd.strip, stripIntr]
          · simp [hlt, Rd.strip, stripIntr]
        | eof =>
          simp only [stripIntr, readExactLoop_succ, Rd.read, scriptRead]
          by_cases hlt : read < len
          · by_cases hp : b.data.length < read
            · simp [hlt, hp, Rd.strip, stripIntr]
            · simp [hlt, hp, Rd.strip, stripIntr]
          · simp [hlt, Rd.strip, stripIntr]


theorem roomFor_idem (b : VBuf) : roomFor (roomFor b) = roomFor b := by
  by_cases h : b.data.length = b.cap
  · have h1 : roomFor b = { b with cap := growAmortized b.data.length b.cap 32 } := by
      unfold roomFor VBuf.reserve
      rw [if_pos h, if_neg (by omega)]
    rw [h1]
    unfold roomFor
    rw [if_neg]
    simp only [growAmortized]
    omega
  · have h1 : roomFor b = b := by
      unfold roomFor
      rw [if_neg h]
    rw [h1, h1]

/-- entering the loop with the buffer already grown makes no difference -/
theorem readToEndLoop_roomFor (fuel : Nat) (r : Rd) (b : VBuf) (start total : Nat) :
    readToEndLoop (fuel + 1) r (roomFor b) start total = readToEndLoop (fuel + 1) r b start total := by
  rw [readToEndLoop_succ, readToEndLoop_succ, roomFor_idem]

theorem readToEndLoop_strip : ∀ (sc : List Outcome) (f1 f2 : Nat) (s : Bytes) (b : VBuf) (start total : Nat),
    s.length + sc.length < f1 → s.length + (stripIntr sc).length < f2 →
    readToEndLoop f2 (.script s (stripIntr sc)) b start total =
      ((readToEndLoop f1 (.script s sc) b start total).1,
        (readToEndLoop f1 (.script s sc) b start total).2.1.strip,
        (readToEndLoop f1 (.script s sc) b start total).2.2) := by
  intro sc
  induction sc with
  | nil =>
    intro f1 f2 s b start total h1 h2
    cases f1 with
    | zero => omega
    | succ f1 =>
      cases f2 with
      | zero => omega
      | succ f2 =>
        simp only [stripIntr, readToEndLoop_succ, Rd.read, scriptRead]
        split <;> simp [Rd.strip, stripIntr]
  | cons o rest ih =>
    intro f1 f2 s b start total h1 h2
    cases f1 with
    | zero => omega
    | succ f1 =>
      cases f2 with
      | zero => omega
      | succ f2 =>
        cases o with
        | intr =>
          simp only [stripIntr]
          rw [readToEndLoop_succ (fuel := f1)]
          by_cases hp : (roomFor b).data.length < start + total
          · simp only [hp, if_true, Rd.strip, stripIntr]
            rw [readToEndLoop_succ]
            simp [hp]
          · simp only [hp, if_false, Rd.read, scriptRead]
            -- the stripped run has not taken its step yet: it starts from `b`, the original
            -- continues from `roomFor b`; `roomFor` is idempotent
            rw [← readToEndLoop_roomFor]
            exact ih f1 (f2 + 1) s (roomFor b) start total (by simp at h1; omega)
              (by simp [stripIntr] at h2; omega)
        | ok n =>
          simp only [stripIntr, readToEndLoop_succ, Rd.read, scriptRead]
          by_cases hp : (roomFor b).data.length < start + total
          · simp [hp, Rd.strip, stripIntr]
          · simp only [hp, if_false]
            by_cases hz : (s.take (min n ((roomFor b).cap - (start + total)))).length = 0
            · simp [hz, Rd.strip, stripIntr]
            · simp only [hz, if_false]
              have hl : (s.drop (min n ((roomFor b).cap - (start + total)))).length ≤ s.length := by
                rw [List.length_drop]; omega
              exact ih f1 f2 _ _ start _ (by simp at h1; omega) (by simp [stripIntr] at h2; omega)
        | err k =>
          simp only [stripIntr, readToEndLoop_succ, Rd.read, scriptRead]
          by_cases hp : (roomFor b).data.length < start + total <;> simp [hp, Rd.strip, stripIntr]
        | eof =>
          simp only [stripIntr, readToEndLoop_succ, Rd.read, scriptRead]
          by_cases hp : (roomFor b).data.length < start + total <;> simp [hp, Rd.strip, stripIntr]


/-- forget the `Interrupted` entries left in a scripted writer -/
def Wr.strip : Wr → Wr
  | .base (.script got sc f s) => .base (.script got (stripIntr sc) f s)
  | w => w

theorem writeAllLoop_strip : ∀ (sc : List Outcome) (f1 f2 : Nat) (got : Bytes) (fl sh : Nat) (data : Bytes)
    (needle : Nat), (data.length - needle) + sc.length < f1 →
    (data.length - needle) + (stripIntr sc).length < f2 →
    writeAllLoop f2 (.base (.script got (stripIntr sc) fl sh)) data needle =
      ((writeAllLoop f1 (.base (.script got sc fl sh)) data needle).1,
        (writeAllLoop f1 (.base (.script got sc fl sh)) data needle).2.strip) := by
  intro sc
  induction sc with
  | nil =>
    intro f1 f2 got fl sh data needle h1 h2
    cases f1 with
    | zero => omega
    | succ f1 =>
      cases f2 with
      | zero => omega
      | succ f2 =>
        simp only [stripIntr, writeAllLoop_succ, Wr.write, BaseWr.write, scriptWrite]
        split <;> simp [Wr.strip, stripIntr]
  | cons o rest ih =>
    intro f1 f2 got fl sh data needle h1 h2
    cases f1 with
    | zero => omega
    | succ f1 =>
      cases f2 with
      | zero => omega
      | succ f2 =>
        cases o with
        | intr =>
          simp only [stripIntr]
          rw [writeAllLoop_succ (fuel := f1)]
          by_cases hlt : needle < data.length
          · simp only [hlt, if_true, Wr.write, BaseWr.write, scriptWrite]
            exact ih f1 (f2 + 1) got fl sh data needle (by simp at h1; omega)
              (by simp [stripIntr] at h2; omega)
          · simp only [hlt, if_false, Wr.strip, stripIntr]
            rw [writeAllLoop_succ]
            simp [hlt]
        | ok n =>
          simp only [stripIntr, writeAllLoop_succ, Wr.write, BaseWr.write, scriptWrite]
          by_cases hlt : needle < data.length
          · simp only [hlt, if_true]
            by_cases hz : min n (data.drop needle).length = 0
            · rw [if_pos hz, if_pos hz]
              simp [Wr.strip, stripIntr]
            · rw [if_neg hz, if_neg hz]
              have : 0 < min n (data.drop needle).length := by omega
              exact ih f1 f2 _ fl sh data _ (by simp at h1; omega) (by simp [stripIntr] at h2; omega)
          · simp [hlt, Wr.strip, stripIntr]
        | err k =>
          simp only [stripIntr, writeAllLoop_succ, Wr.write, BaseWr.write, scriptWrite]
          by_cases hlt : needle < data.length <;> simp [hlt, Wr.strip, stripIntr]
        | eof =>
          simp only [stripIntr, writeAllLoop_succ, Wr.write, BaseWr.write, scriptWrite]
          by_cases hlt : needle < data.length <;> simp [hlt, Wr.strip, stripIntr]


/-! ## vectored writes -/

theorem vslice_flatten : ∀ (bufs : List Bytes) (n : Nat), (vslice bufs n).flatten = bufs.flatten.drop n := by
  intro bufs
  induction bufs with
  | nil => intro n; simp [vslice]
  | cons b rest ih =>
    intro n
    unfold vslice
    split
    · rename_i h
      simp only [List.flatten_cons]
      rw [List.drop_append_of_le_length (by omega)]
    · rename_i h
      have hle : b.length ≤ n := Nat.le_of_not_gt h
      rw [ih]
      simp only [List.flatten_cons]
      rw [List.drop_append, List.drop_of_length_le hle]
      simp

theorem firstNonEmpty_none : ∀ (vs : List Bytes), firstNonEmpty vs = none → vs.flatten = [] := by
  intro vs
  induction vs with
  | nil => intro _; rfl
  | cons b rest ih =>
    intro h
    unfold firstNonEmpty at h
    split at h
    · cases h
    · rename_i hb
      have : b = [] := List.eq_nil_of_length_eq_zero (by omega)
      simp [this, ih h]

theorem firstNonEmpty_some : ∀ (vs : List Bytes) (b : Bytes), firstNonEmpty vs = some b →
    b ≠ [] ∧ ∃ rest, vs.flatten = b ++ rest := by
  intro vs
  induction vs with
  | nil => intro b h; simp [firstNonEmpty] at h
  | cons a rest ih =>
    intro b h
    unfold firstNonEmpty at h
    split at h
    · rename_i ha
      cases h
      exact ⟨by intro h0; rw [h0] at ha; simp at ha, rest.flatten, by simp⟩
    · rename_i ha
      have : a = [] := List.eq_nil_of_length_eq_zero (by omega)
      obtain ⟨h1, r, h2⟩ := ih b h
      exact ⟨h1, r, by simp [this, h2]⟩

/-- `BufWriter::write_vectored`'s closure takes a prefix of the concatenation -/
theorem pushAll_spec : ∀ (views : List Bytes) (b : Buffer) (written : Nat), b.WF →
    ∃ k, (pushAll b written views).1 = written + k ∧ k ≤ views.flatten.length ∧
      (pushAll b written views).2.pending = b.pending ++ views.flatten.take k ∧
      (pushAll b written views).2.WF ∧ (pushAll b written views).2.cap = b.cap := by
  intro views
  induction views with
  | nil => intro b written hw; exact ⟨0, by simp [pushAll], by simp, by simp [pushAll], hw, rfl⟩
  | cons s rest ih =>
    intro b written hw
    have hp := Buffer.push_spec b s hw
    have hfl : (s :: rest).flatten.length = s.length + rest.flatten.length := by simp
    have hn : (b.push s).1 ≤ s.length := by rw [hp.2.2.1]; omega
    unfold pushAll
    simp only []
    split
    · refine ⟨(b.push s).1, rfl, by omega, ?_, hp.2.1, hp.2.2.2.2⟩
      rw [hp.1, List.flatten_cons, List.take_append_of_le_length hn]
    · rename_i hfull
      -- not full: the whole member was taken
      have hdl : (b.push s).2.data.length = b.data.length + (b.push s).1 := by
        have : (b.push s).1 = min s.length (b.cap - b.data.length) := hp.2.2.1
        simp only [Buffer.push, List.length_append, List.length_take]
        omega
      have hall : (b.push s).1 = s.length := by
        have h1 := hp.2.2.1
        have h2 := hw.2
        rw [hp.2.2.2.2] at hfull
        omega
      obtain ⟨k, e1, e2, e3, e4, e5⟩ := ih (b.push s).2 (written + (b.push s).1) hp.2.1
      have htk : (s :: rest).flatten.take (s.length + k) = s ++ rest.flatten.take k := by
        rw [List.flatten_cons, List.take_append, List.take_of_length_le (by omega)]
        simp
      refine ⟨s.length + k, by rw [e1, hall]; omega, by rw [hfl]; omega, ?_, e4, by rw [e5, hp.2.2.2.2]⟩
      rw [e3, hp.1, hall, List.take_of_length_le (Nat.le_refl _), htk, List.append_assoc]

/-! ### the kind of a writer never changes -/

def BaseWr.isScript : BaseWr → Bool
  | .script _ _ _ _ => true
  | _ => false

theorem BaseWr.write_isScript (w : BaseWr) (d : Bytes) (h : w.isScript = true) :
    (w.write d).2.isScript = true := by
  cases w <;> simp_all [BaseWr.isScript, BaseWr.write]

theorem flushLoop_isScript : ∀ (fuel : Nat) (w : BaseWr) (b : Buffer) (total : Nat), w.isScript = true →
    (flushLoop fuel w b total).2.1.isScript = true := by
  intro fuel
  induction fuel with
  | zero => intro w b total h; simpa [flushLoop] using h
  | succ fuel ih =>
    intro w b total h
    rw [flushLoop_succ]
    have hw := BaseWr.write_isScript w b.pending h
    generalize w.write b.pending = out at hw
    obtain ⟨res, w1⟩ := out
    cases res with
    | ok n =>
      simp only []
      split
      · exact hw
      · split
        · exact hw
        · split
          · exact hw
          · exact ih w1 _ _ hw
    | err e => exact hw
    | panic => exact hw
    | ub => exact hw
    | fuel => exact hw

theorem flushIfNeeded_isScript (w : BaseWr) (b : Buffer) (h : w.isScript = true) :
    (flushIfNeeded w b).2.1.isScript = true := by
  unfold flushIfNeeded
  split
  · have : (flushTo w b).2.1.isScript = true := by
      unfold flushTo
      split
      · exact h
      · exact flushLoop_isScript _ w b 0 h
    generalize flushTo w b = out at this
    obtain ⟨res, w1, b1⟩ := out
    cases res <;> exact this
  · exact h

/-- a scripted writer, bare or behind a `BufWriter` (the vectored theorems are stated for these) -/
def Wr.Scripted : Wr → Prop
  | .base w => w.isScript = true
  | .buf w _ => w.isScript = true

theorem bufWriteVectored_isScript (w : BaseWr) (b : Buffer) (views : List Bytes) (h : w.isScript = true) :
    (bufWriteVectored w b views).2.1.isScript = true := by
  unfold bufWriteVectored
  have h1 := flushIfNeeded_isScript w b h
  generalize flushIfNeeded w b = out at h1
  obtain ⟨res, w1, b1⟩ := out
  cases res with
  | ok u =>
    simp only []
    have h2 := flushIfNeeded_isScript w1 (pushAll b1 0 views).2 h1
    generalize flushIfNeeded w1 (pushAll b1 0 views).2 = out2 at h2
    obtain ⟨res2, w2, b2⟩ := out2
    cases res2 <;> exact h2
  | err e => exact h1
  | panic => exact h1
  | ub => exact h1
  | fuel => exact h1

theorem Wr.writeVectored_scripted (w : Wr) (views : List Bytes) (hs : w.Scripted) :
    (w.writeVectored views).2.Scripted := by
  cases w with
  | base bw =>
    cases bw with
    | script got sc f s =>
      simp only [Wr.writeVectored, BaseWr.writeVectored, Wr.Scripted]
      cases firstNonEmpty views with
      | none => rfl
      | some b => exact BaseWr.write_isScript _ b rfl
    | vec v => simp [Wr.Scripted, BaseWr.isScript] at hs
    | sliceMut sm => simp [Wr.Scripted, BaseWr.isScript] at hs
    | cursorVec v p => simp [Wr.Scripted, BaseWr.isScript] at hs
    | cursorArr a p => simp [Wr.Scripted, BaseWr.isScript] at hs
  | buf bw b => exact bufWriteVectored_isScript bw b views hs

theorem bufWriteVectored_post (w : BaseWr) (b : Buffer) (views : List Bytes) (hf : w.Fifo) (hw : b.WF)
    (hn : w.NoIntr) :
    WrPost (.buf w b) views.flatten
      ((bufWriteVectored w b views).1, .buf (bufWriteVectored w b views).2.1 (bufWriteVectored w b views).2.2) := by
  unfold bufWriteVectored
  have h1 := flushIfNeeded_spec w b hf hw
  generalize hrd : flushIfNeeded w b = out at h1
  obtain ⟨res, w1, b1⟩ := out
  obtain ⟨t, e1, e2, e3, e4, e5, e6, e7, e8⟩ := h1
  simp only [] at e1 e2 e3 e4 e5 e6 e7 e8
  have hs1 : w1.sink ++ b1.pending = w.sink ++ b.pending := by
    rw [e1, e2, List.append_assoc, List.take_append_drop]
  rcases e8 with a | a | ⟨a, _, a3⟩ | ⟨k, a⟩
  · subst a
    simp only []
    obtain ⟨k, p1, p2, p3, p4, p5⟩ := pushAll_spec views b1 0 e3
    have h2 := flushIfNeeded_spec w1 (pushAll b1 0 views).2 e5 p4
    generalize hrd2 : flushIfNeeded w1 (pushAll b1 0 views).2 = out2 at h2
    obtain ⟨res2, w2, b2⟩ := out2
    obtain ⟨t2, f1, f2, f3, f4, f5, f6, f7, f8⟩ := h2
    simp only [] at f1 f2 f3 f4 f5 f6 f7 f8
    have hs2 : w2.sink ++ b2.pending = (w.sink ++ b.pending) ++ views.flatten.take (pushAll b1 0 views).1 := by
      rw [f1, f2, List.append_assoc, List.take_append_drop, p3, ← List.append_assoc, hs1, p1]
      simp
    have hle : (pushAll b1 0 views).1 ≤ views.flatten.length := by rw [p1]; omega
    rcases f8 with a | a | ⟨a, _, a3⟩ | ⟨k', a⟩
    · subst a
      exact ⟨hle, hs2, ⟨f5, f3, f7 (e7 hn)⟩, by simp only [Wr.entries]; omega⟩
    · subst a
      exact ⟨⟨_, hle, hs2⟩, ⟨f5, f3, f7 (e7 hn)⟩⟩
    · exact absurd (e7 hn) a3
    · subst a
      exact ⟨⟨_, hle, hs2⟩, ⟨f5, f3, f7 (e7 hn)⟩⟩
  · subst a
    exact ⟨⟨0, by omega, by simp [Wr.sink, hs1]⟩, ⟨e5, e3, e7 hn⟩⟩
  · exact absurd hn a3
  · subst a
    exact ⟨⟨0, by omega, by simp [Wr.sink, hs1]⟩, ⟨e5, e3, e7 hn⟩⟩

/-- **one `write_vectored`** on a scripted good writer behaves like a `write` of a prefix of the
concatenation of the views -/
theorem Wr.writeVectored_post (w : Wr) (views : List Bytes) (hg : w.Good) (hs : w.Scripted) :
    WrPost w views.flatten (w.writeVectored views) := by
  cases w with
  | base bw =>
    cases bw with
    | script got sc f s =>
      simp only [Wr.writeVectored, BaseWr.writeVectored]
      cases hfn : firstNonEmpty views with
      | none =>
        have := firstNonEmpty_none views hfn
        simp [WrPost, this, Wr.sink, Wr.Good, BaseWr.Fifo, Wr.entries]
      | some b =>
        obtain ⟨hne, rest, hfl⟩ := firstNonEmpty_some views b hfn
        have hp := Wr.write_post (.base (.script got sc f s)) b hg
        simp only [Wr.write] at hp
        simp only []
        generalize hrd : (BaseWr.script got sc f s).write b = out at hp
        obtain ⟨res, w1⟩ := out
        have hbl : b.length ≤ views.flatten.length := by rw [hfl]; simp
        cases res with
        | ok n =>
          simp only [WrPost] at hp ⊢
          obtain ⟨h1, h2, h3, h4⟩ := hp
          refine ⟨by omega, ?_, h3, h4⟩
          rw [h2, hfl, List.take_append_of_le_length h1]
        | err e =>
          cases e with
          | interrupted => exact hp
          | other k =>
            simp only [WrPost] at hp ⊢
            obtain ⟨⟨k', hk1, hk2⟩, h3⟩ := hp
            exact ⟨⟨k', by omega, by rw [hk2, hfl, List.take_append_of_le_length hk1]⟩, h3⟩
          | writeZero =>
            simp only [WrPost] at hp ⊢
            obtain ⟨⟨k', hk1, hk2⟩, h3⟩ := hp
            exact ⟨⟨k', by omega, by rw [hk2, hfl, List.take_append_of_le_length hk1]⟩, h3⟩
          | unexpectedEof => simp [WrPost] at hp
        | panic => simp [WrPost] at hp
        | ub => simp [WrPost] at hp
        | fuel => simp [WrPost] at hp
    | vec v => simp [Wr.Scripted, BaseWr.isScript] at hs
    | sliceMut sm => simp [Wr.Scripted, BaseWr.isScript] at hs
    | cursorVec v p => simp [Wr.Scripted, BaseWr.isScript] at hs
    | cursorArr a p => simp [Wr.Scripted, BaseWr.isScript] at hs
  | buf bw b =>
    obtain ⟨h1, h2, h3⟩ := hg
    exact bufWriteVectored_post bw b views h1 h2 h3

/-! ## write_vectored_all -/

theorem writeVectoredAllLoop_succ (fuel : Nat) (w : Wr) (bufs : List Bytes) (len needle : Nat) :
    writeVectoredAllLoop (fuel + 1) w bufs len needle =
      if needle < len then
        match w.writeVectored (vslice bufs needle) with
        | (.ok n, w') =>
          if n = 0 then (.err .writeZero, w') else writeVectoredAllLoop fuel w' bufs len (needle + n)
        | (.err .interrupted, w') => writeVectoredAllLoop fuel w' bufs len needle
        | (.err e, w') => (.err e, w')
        | (.panic, w') => (.panic, w')
        | (.ub, w') => (.ub, w')
        | (.fuel, w') => (.fuel, w')
      else (.ok (), w) := rfl

/-- `write_vectored_all` on a scripted good writer: exactly like `write_all` of the concatenation -/
theorem writeVectoredAllLoop_spec : ∀ (fuel : Nat) (w : Wr) (bufs : List Bytes) (needle : Nat), w.Good →
    w.Scripted → needle ≤ bufs.flatten.length → (bufs.flatten.length - needle) + w.entries < fuel →
    ∃ (t : Nat) (res : Res Unit) (w' : Wr),
      writeVectoredAllLoop fuel w bufs bufs.flatten.length needle = (res, w') ∧
      needle + t ≤ bufs.flatten.length ∧ w'.sink = w.sink ++ (bufs.flatten.drop needle).take t ∧ w'.Good ∧
      ((res = .ok () ∧ needle + t = bufs.flatten.length) ∨ res = .err .writeZero ∨
        (∃ k, res = .err (.other k))) := by
  intro fuel
  induction fuel with
  | zero => intro w bufs needle _ _ _ hf; omega
  | succ fuel ih =>
    intro w bufs needle hg hsc hn hf
    rw [writeVectoredAllLoop_succ]
    by_cases hlt : needle < bufs.flatten.length
    · rw [if_pos hlt]
      have hp := Wr.writeVectored_post w (vslice bufs needle) hg hsc
      have hs' := Wr.writeVectored_scripted w (vslice bufs needle) hsc
      rw [vslice_flatten] at hp
      generalize hrd : w.writeVectored (vslice bufs needle) = out at hp hs'
      obtain ⟨res, w1⟩ := out
      have hdl : (bufs.flatten.drop needle).length = bufs.flatten.length - needle := List.length_drop
      cases res with
      | ok n =>
        simp only [WrPost] at hp
        obtain ⟨h1, h2, h3, h4⟩ := hp
        by_cases hz : n = 0
        · simp only [hz, if_true]
          exact ⟨0, _, w1, rfl, by omega, by simp [h2, hz], h3, Or.inr (Or.inl rfl)⟩
        · simp only [hz, if_false]
          obtain ⟨t, res, w2, e1, e2, e3, e4, e5⟩ := ih w1 bufs (needle + n) h3 hs' (by omega) (by omega)
          refine ⟨n + t, res, w2, e1, by omega, ?_, e4, ?_⟩
          · rw [e3, h2, List.append_assoc, ← List.drop_drop, take_add_drop]
          · rcases e5 with ⟨a, b⟩ | a | a
            · exact Or.inl ⟨a, by omega⟩
            · exact Or.inr (Or.inl a)
            · exact Or.inr (Or.inr a)
      | err e =>
        cases e with
        | interrupted =>
          simp only [WrPost] at hp
          obtain ⟨h1, h2, h3⟩ := hp
          obtain ⟨t, res, w2, e1, e2, e3, e4, e5⟩ := ih w1 bufs needle h2 hs' hn (by omega)
          exact ⟨t, res, w2, e1, e2, by rw [e3, h1], e4, e5⟩
        | other k =>
          simp only [WrPost] at hp
          obtain ⟨⟨k', hk1, hk2⟩, h3⟩ := hp
          exact ⟨k', _, w1, rfl, by omega, hk2, h3, Or.inr (Or.inr ⟨k, rfl⟩)⟩
        | writeZero =>
          simp only [WrPost] at hp
          obtain ⟨⟨k', hk1, hk2⟩, h3⟩ := hp
          exact ⟨k', _, w1, rfl, by omega, hk2, h3, Or.inr (Or.inl rfl)⟩
        | unexpectedEof => simp [WrPost] at hp
      | panic => simp [WrPost] at hp
      | ub => simp [WrPost] at hp
      | fuel => simp [WrPost] at hp
    · rw [if_neg hlt]
      exact ⟨0, _, w, rfl, by omega, by simp, hg, Or.inl ⟨rfl, by omega⟩⟩


/-! ## the positional loops are the cursor loops -/

theorem readExactAtLoop_succ (fuel : Nat) (src : Bytes) (b : VBuf) (pos len read : Nat) :
    readExactAtLoop (fuel + 1) src b pos len read =
      if read < len then
        if b.data.length < read then (.panic, b)
        else if (readAt src (pos + read) (b.cap - read)).length = 0 then (.err .unexpectedEof, b)
        else
          readExactAtLoop fuel src (b.place read (readAt src (pos + read) (b.cap - read))) pos len
            (read + (readAt src (pos + read) (b.cap - read)).length)
      else (.ok (), b) := rfl

/-- `read_exact_at(buf, pos)` on an in-memory source is `read_exact` on a cursor placed at `pos` -/
theorem readExactAtLoop_eq_cursor : ∀ (fuel : Nat) (src : Bytes) (b : VBuf) (pos len read : Nat),
    readExactAtLoop fuel src b pos len read =
      ((readExactLoop fuel (.cursor src (pos + read)) b len read).1,
        (readExactLoop fuel (.cursor src (pos + read)) b len read).2.2) := by
  intro fuel
  induction fuel with
  | zero => intro src b pos len read; rfl
  | succ fuel ih =>
    intro src b pos len read
    rw [readExactAtLoop_succ, readExactLoop_succ]
    by_cases hlt : read < len
    · rw [if_pos hlt, if_pos hlt]
      by_cases hp : b.data.length < read
      · rw [if_pos hp, if_pos hp]
      · rw [if_neg hp, if_neg hp]
        simp only [Rd.read]
        by_cases hz : (readAt src (pos + read) (b.cap - read)).length = 0
        · rw [if_pos hz, if_pos hz]
        · rw [if_neg hz, if_neg hz, ih, Nat.add_assoc]
    · rw [if_neg hlt, if_neg hlt]

theorem readToEndAtLoop_succ (fuel : Nat) (src : Bytes) (b : VBuf) (pos start total : Nat) :
    readToEndAtLoop (fuel + 1) src b pos start total =
      if (roomFor b).data.length < start + total then (.panic, roomFor b)
      else if (readAt src (pos + total) ((roomFor b).cap - (start + total))).length = 0 then
        (.ok total, roomFor b)
      else
        readToEndAtLoop fuel src
          ((roomFor b).place (start + total) (readAt src (pos + total) ((roomFor b).cap - (start + total))))
          pos start (total + (readAt src (pos + total) ((roomFor b).cap - (start + total))).length) := rfl

/-- `read_to_end_at(buf, pos)` on an in-memory source is `read_to_end` on a cursor placed at `pos` -/
theorem readToEndAtLoop_eq_cursor : ∀ (fuel : Nat) (src : Bytes) (b : VBuf) (pos start total : Nat),
    readToEndAtLoop fuel src b pos start total =
      ((readToEndLoop fuel (.cursor src (pos + total)) b start total).1,
        (readToEndLoop fuel (.cursor src (pos + total)) b start total).2.2) := by
  intro fuel
  induction fuel with
  | zero => intro src b pos start total; rfl
  | succ fuel ih =>
    intro src b pos start total
    rw [readToEndAtLoop_succ, readToEndLoop_succ]
    by_cases hp : (roomFor b).data.length < start + total
    · rw [if_pos hp, if_pos hp]
    · rw [if_neg hp, if_neg hp]
      simp only [Rd.read]
      by_cases hz : (readAt src (pos + total) ((roomFor b).cap - (start + total))).length = 0
      · rw [if_pos hz, if_pos hz]
      · rw [if_neg hz, if_neg hz, ih, Nat.add_assoc]


/-! ## read_vectored_exact through the default `read_vectored` loop -/

/-- readers whose `read_vectored` is the default loop (`loop_read_vectored!`) -/
def Rd.UsesDefault : Rd → Prop
  | .script _ _ => True
  | .take _ _ => True
  | _ => False

theorem Rd.readVectored_default (r : Rd) (h : r.UsesDefault) (vs : VS) :
    r.readVectored vs = defaultReadVectored r vs := by
  cases r <;> simp_all [Rd.UsesDefault, Rd.readVectored]

theorem Rd.usesDefault_read (r : Rd) (off : Nat) (h : r.UsesDefault) : (r.read off).2.UsesDefault := by
  cases r with
  | script s sc => simp [Rd.read, Rd.UsesDefault]
  | take i lim =>
    unfold Rd.read
    split
    · exact h
    · generalize i.read (min lim off) = out
      obtain ⟨res, i'⟩ := out
      cases res with
      | ok bs =>
        simp only []
        split <;> simp [Rd.UsesDefault]
      | err e => simp [Rd.UsesDefault]
      | panic => simp [Rd.UsesDefault]
      | ub => simp [Rd.UsesDefault]
      | fuel => simp [Rd.UsesDefault]
  | mem d => simp [Rd.UsesDefault] at h
  | cursor d p => simp [Rd.UsesDefault] at h
  | buf i b => simp [Rd.UsesDefault] at h

theorem readVectoredExactLoop_succ (fuel : Nat) (r : Rd) (bufs : List MBuf) (len read : Nat) :
    readVectoredExactLoop (fuel + 1) r bufs len read =
      if read < len then
        match r.readVectored (VS.sliceMut bufs read) with
        | (.ok n, r', vs) =>
          if n = 0 then (.err .unexpectedEof, r', vs.bufs)
          else readVectoredExactLoop fuel r' vs.bufs len (read + n)
        | (.err .interrupted, r', vs) => readVectoredExactLoop fuel r' vs.bufs len read
        | (.err e, r', vs) => (.err e, r', vs.bufs)
        | (.panic, r', vs) => (.panic, r', vs.bufs)
        | (.ub, r', vs) => (.ub, r', vs.bufs)
        | (.fuel, r', vs) => (.fuel, r', vs.bufs)
      else (.ok (), r, bufs) := rfl

/-- `read_vectored_exact` into fresh buffers over a scripted stream (or a `Take` of one): after `d`
has been delivered the buffers are `filled caps d`; the loop delivers a further prefix `t` of the
stream, in order, across member boundaries, zero-capacity members included. -/
theorem readVectoredExactLoop_spec : ∀ (fuel : Nat) (r : Rd) (caps : List Nat) (d : Bytes), r.WF →
    r.UsesDefault → d.length ≤ sumNat caps → (sumNat caps - d.length) + r.entries < fuel →
    ∃ (t : Nat) (res : Res Unit) (r' : Rd),
      readVectoredExactLoop fuel r (filled caps d) (sumNat caps) d.length =
        (res, r', filled caps (d ++ r.rest.take t)) ∧
      t ≤ r.rest.length ∧ d.length + t ≤ sumNat caps ∧ r'.rest = r.rest.drop t ∧ r'.WF ∧
      ((res = .ok () ∧ d.length + t = sumNat caps) ∨
        (res = .err .unexpectedEof ∧ d.length + t < sumNat caps ∧ (r.Live → t = r.rest.length)) ∨
        (∃ k, res = .err (.other k) ∧ k ∈ r.errs ∧ d.length + t < sumNat caps ∧ ¬ r.Live)) := by
  intro fuel
  induction fuel with
  | zero => intro r caps d _ _ _ hf; omega
  | succ fuel ih =>
    intro r caps d hw hu hd hf
    rw [readVectoredExactLoop_succ]
    by_cases hlt : d.length < sumNat caps
    · rw [if_pos hlt, Rd.readVectored_default r hu]
      unfold defaultReadVectored
      obtain ⟨room, hroom, hrle, hfr, hfill⟩ := fillView_filled caps d ([] : Bytes) hlt
      rw [hfr]
      simp only []
      rcases Rd.read_cases r room hw with ⟨bs, r1, h⟩ | ⟨r1, h⟩ | ⟨k, r1, h⟩
      · obtain ⟨h1, h2, h3, h4, h5, h6⟩ := Rd.read_ok hw h
        have hu1 : r1.UsesDefault := by have := Rd.usesDefault_read r room hu; rw [h] at this; exact this
        obtain ⟨room', _, _, hfr', hfill'⟩ := fillView_filled caps d bs hlt
        have hre : room' = room := by
          rw [hfr] at hfr'
          cases hfr'
          rfl
        rw [h]
        simp only []
        rw [hfill' (by omega)]
        simp only []
        by_cases hz : bs.length = 0
        · have hbs : bs = [] := List.eq_nil_of_length_eq_zero hz
          simp only [hz, if_true]
          refine ⟨0, _, r1, ?_, by omega, by omega, ?_, h4, Or.inr (Or.inl ⟨rfl, by omega, ?_⟩)⟩
          · simp [hbs]
          · rw [h3, hz]
          · intro hl
            rw [(Rd.live_ok hw hl hroom h).2 hz]; rfl
        · simp only [hz, if_false]
          have hbl := take_length_le_of_eq h1
          have hlen : d.length + bs.length = (d ++ bs).length := by simp
          rw [hlen]
          obtain ⟨t, res, r2, he, ht1, ht2, ht3, ht4, ht5⟩ :=
            ih r1 caps (d ++ bs) h4 hu1 (by simp; omega) (by simp; omega)
          simp only [List.length_append] at ht2 ht5
          refine ⟨bs.length + t, res, r2, ?_, ?_, by omega, ?_, ht4, ?_⟩
          · rw [he, List.append_assoc, ← take_add_drop, ← h1, ← h3]
          · rw [h3, List.length_drop] at ht1; omega
          · rw [ht3, h3, List.drop_drop]
          · rcases ht5 with ⟨e1, e2⟩ | ⟨e1, e2, e3⟩ | ⟨k, e1, e2, e3, e4⟩
            · exact Or.inl ⟨e1, by omega⟩
            · refine Or.inr (Or.inl ⟨e1, by omega, ?_⟩)
              intro hl
              have := e3 (Rd.live_ok hw hl hroom h).1
              rw [h3, List.length_drop] at this
              omega
            · exact Or.inr (Or.inr ⟨k, e1, h6 k e2, by omega,
                fun hl => e4 (Rd.live_ok hw hl hroom h).1⟩)
      · obtain ⟨h1, h2, h3, h4⟩ := Rd.read_intr hw h
        have hu1 : r1.UsesDefault := by have := Rd.usesDefault_read r room hu; rw [h] at this; exact this
        rw [h]
        simp only [VS.sliceMut]
        obtain ⟨t, res, r2, he, ht1, ht2, ht3, ht4, ht5⟩ := ih r1 caps d h2 hu1 hd (by omega)
        refine ⟨t, res, r2, ?_, ?_, ht2, ?_, ht4, ?_⟩
        · rw [he, h1]
        · rw [← h1]; exact ht1
        · rw [ht3, h1]
        · rcases ht5 with h' | ⟨e1, e2, e3⟩ | ⟨k, e1, e2, e3, e4⟩
          · exact Or.inl h'
          · refine Or.inr (Or.inl ⟨e1, e2, ?_⟩)
            intro hl
            rw [← h1]
            exact e3 (Rd.live_intr hw hl hroom h)
          · exact Or.inr (Or.inr ⟨k, e1, h4 k e2, e3, fun hl => e4 (Rd.live_intr hw hl hroom h)⟩)
      · obtain ⟨h1, h2, h3, h4⟩ := Rd.read_other hw h
        rw [h]
        simp only [VS.sliceMut]
        refine ⟨0, _, r1, ?_, by omega, by omega, ?_, h2, Or.inr (Or.inr ⟨k, rfl, h4, by omega,
          fun hl => Rd.live_other hw hl hroom h⟩)⟩
        · simp
        · simp [h1]
    · rw [if_neg hlt]
      refine ⟨0, _, r, ?_, by omega, by omega, by simp, hw, Or.inl ⟨rfl, by omega⟩⟩
      simp

end Compio.Io
