/-
Helper lemmas about the single-buffer view model (Compio/Model/View.lean).
-/
import Compio.Model.View

namespace Compio.View

/-! ### roots -/

/-- what every real root container guarantees: `len ≤ cap`, fixed-size kinds are always full -/
structure Root.WF (r : Root) : Prop where
  le : r.len ≤ r.cap
  full : r.kind = .arr ∨ r.kind = .boxed → r.len = r.cap

theorem Root.setLen_mem {r r' : Root} {n : Nat} (h : r.setLen n = .ok r') :
    r'.mem = r.mem ∧ r'.kind = r.kind := by
  unfold Root.setLen at h
  cases hk : r.kind <;> simp only [hk] at h
  all_goals (repeat' split at h) <;> simp_all <;> (subst h; simp)

theorem Root.setLen_cap {r r' : Root} {n : Nat} (h : r.setLen n = .ok r') : r'.cap = r.cap := by
  unfold Root.cap; rw [(Root.setLen_mem h).1]

/-- under the contract `n ≤ cap` no root `set_len` panics or is UB, and `len ≤ cap` is kept -/
theorem Root.setLen_ok (r : Root) (n : Nat) (hw : r.WF) (hn : n ≤ r.cap) :
    ∃ r', r.setLen n = .ok r' ∧ r'.WF := by
  obtain ⟨hle, hfull⟩ := hw
  unfold Root.setLen
  cases hk : r.kind <;> simp only [hn, if_true]
  · exact ⟨_, rfl, ⟨hn, by simp⟩⟩
  · exact ⟨_, rfl, ⟨hn, by simp⟩⟩
  · exact ⟨_, rfl, ⟨hle, hfull⟩⟩
  · exact ⟨_, rfl, ⟨hle, hfull⟩⟩
  · by_cases h : r.len < n
    · simp only [h, if_true]; exact ⟨_, rfl, ⟨hn, by simp⟩⟩
    · simp only [h, if_false]; exact ⟨_, rfl, ⟨hle, hfull⟩⟩
  · by_cases h : r.len < n
    · simp only [h, if_true]; exact ⟨_, rfl, ⟨hn, by simp⟩⟩
    · simp only [h, if_false]; exact ⟨_, rfl, ⟨hle, hfull⟩⟩
  · refine ⟨_, rfl, ⟨?_, by simp⟩⟩
    show min n r.cap ≤ r.cap
    omega

/-- growing (or keeping) the length within the capacity sets it exactly, for every root kind -/
theorem Root.setLen_of_ge (r : Root) (n : Nat) (hw : r.WF) (hge : r.len ≤ n) (hn : n ≤ r.cap) :
    r.setLen n = .ok { r with len := n } := by
  obtain ⟨hle, hfull⟩ := hw
  obtain ⟨kind, len, mem⟩ := r
  simp only [Root.cap] at hle hfull hge hn
  unfold Root.setLen
  simp only [Root.cap]
  cases kind <;> simp only [hn, if_true]
  · have : len = n := by have := hfull (Or.inl rfl); omega
    subst this; rfl
  · have : len = n := by have := hfull (Or.inr rfl); omega
    subst this; rfl
  · by_cases h : len < n
    · simp [h]
    · have : len = n := by omega
      subst this; simp
  · by_cases h : len < n
    · simp [h]
    · have : len = n := by omega
      subst this; simp
  · have : min n mem.length = n := by omega
    simp [this]

/-! ### sub-ranges -/

theorem subRange_ok {p : Nat × Nat} {b : Nat} {e : Option Nat} {q : Nat × Nat}
    (h : subRange p b e = .ok q) :
    b ≤ min (e.getD p.2) p.2 ∧ q = (p.1 + b, min (e.getD p.2) p.2 - b) := by
  unfold subRange at h
  simp only at h
  split at h
  · rename_i hb
    exact ⟨hb, by cases h; rfl⟩
  · cases h

theorem subRange_inside {p : Nat × Nat} {b : Nat} {e : Option Nat} {q : Nat × Nat}
    (h : subRange p b e = .ok q) : p.1 ≤ q.1 ∧ q.1 + q.2 ≤ p.1 + p.2 := by
  obtain ⟨hb, rfl⟩ := subRange_ok h
  simp only
  omega

theorem subRange_of_le {p : Nat × Nat} {b : Nat} {e : Option Nat}
    (hb : b ≤ min (e.getD p.2) p.2) :
    subRange p b e = .ok (p.1 + b, min (e.getD p.2) p.2 - b) := by
  unfold subRange
  simp only [hb, if_true]

/-! ### structure: roots of views -/

@[simp] theorem Buf.getRoot_setRoot (v : Buf) (r : Root) : (v.setRoot r).getRoot = r := by
  induction v with
  | root _ => rfl
  | slice i b e ih => simpa [Buf.setRoot, Buf.getRoot] using ih
  | uninit i b ih => simpa [Buf.setRoot, Buf.getRoot] using ih

@[simp] theorem Buf.setRoot_setRoot (v : Buf) (r r' : Root) : (v.setRoot r).setRoot r' = v.setRoot r' := by
  induction v with
  | root _ => rfl
  | slice i b e ih => simp [Buf.setRoot, ih]
  | uninit i b ih => simp [Buf.setRoot, ih]

@[simp] theorem Buf.setRoot_getRoot (v : Buf) : v.setRoot v.getRoot = v := by
  induction v with
  | root _ => rfl
  | slice i b e ih => simp [Buf.setRoot, Buf.getRoot, ih]
  | uninit i b ih => simp [Buf.setRoot, Buf.getRoot, ih]

/-- sum of the `begin`s of the stack: where the view starts in the root -/
def Buf.off : Buf → Nat
  | .root _ => 0
  | .slice i b _ => i.off + b
  | .uninit i b => i.off + b

@[simp] theorem Buf.off_setRoot (v : Buf) (r : Root) : (v.setRoot r).off = v.off := by
  induction v with
  | root _ => rfl
  | slice i b e ih => simp [Buf.setRoot, Buf.off, ih]
  | uninit i b ih => simp [Buf.setRoot, Buf.off, ih]

/-- `set_len` through any stack is the root's `set_len` at `off + n`; the stack itself is unchanged -/
theorem Buf.setLen_eq (v : Buf) (n : Nat) :
    v.setLen n = match v.getRoot.setLen (v.off + n) with
      | .ok r' => .ok (v.setRoot r')
      | .error f => .error f := by
  induction v generalizing n with
  | root r =>
    simp only [Buf.setLen, Buf.getRoot, Buf.off, Nat.zero_add]
    cases r.setLen n <;> rfl
  | slice i b e ih =>
    simp only [Buf.setLen, Buf.getRoot, Buf.off, ih, Nat.add_assoc]
    cases i.getRoot.setLen (i.off + (b + n)) <;> rfl
  | uninit i b ih =>
    simp only [Buf.setLen, Buf.getRoot, Buf.off, ih, Nat.add_assoc]
    cases i.getRoot.setLen (i.off + (b + n)) <;> rfl

/-! ### where the reported ranges lie -/

theorem Buf.asInit_inside {v : Buf} {p : Nat × Nat} (h : v.asInit = .ok p) :
    p.1 = v.off ∧ p.1 + p.2 ≤ v.getRoot.len := by
  induction v generalizing p with
  | root r =>
    simp only [Buf.asInit] at h
    cases h
    simp [Buf.off, Buf.getRoot]
  | slice i b e ih =>
    simp only [Buf.asInit] at h
    cases hi : i.asInit with
    | error f => simp [hi] at h
    | ok pi =>
      simp only [hi] at h
      obtain ⟨h1, h2⟩ := ih hi
      obtain ⟨hb, rfl⟩ := subRange_ok h
      simp only [Buf.off, Buf.getRoot]
      omega
  | uninit i b ih =>
    simp only [Buf.asInit] at h
    cases hi : i.asInit with
    | error f => simp [hi] at h
    | ok pi =>
      simp only [hi] at h
      obtain ⟨h1, h2⟩ := ih hi
      obtain ⟨hb, rfl⟩ := subRange_ok h
      simp only [Buf.off, Buf.getRoot]
      simp only [Option.getD_none] at hb ⊢
      omega

theorem Buf.asUninit_inside {v : Buf} {p : Nat × Nat} (h : v.asUninit = .ok p) :
    v.off ≤ p.1 ∧ p.1 + p.2 ≤ v.getRoot.cap := by
  induction v generalizing p with
  | root r =>
    simp only [Buf.asUninit] at h
    cases h
    simp [Buf.off, Buf.getRoot]
  | slice i b e ih =>
    simp only [Buf.asUninit] at h
    cases hi : i.asUninit with
    | error f => simp [hi] at h
    | ok pi =>
      simp only [hi] at h
      obtain ⟨h1, h2⟩ := ih hi
      obtain ⟨hb, rfl⟩ := subRange_ok h
      simp only [Buf.off, Buf.getRoot]
      omega
  | uninit i b ih =>
    simp only [Buf.asUninit] at h
    cases hi : i.asInit with
    | error f => simp [hi] at h
    | ok pi =>
      simp only [hi] at h
      cases hs : subRange pi b none with
      | error f => simp [hs] at h
      | ok q =>
        obtain ⟨qo, li⟩ := q
        simp only [hs] at h
        cases hu : i.asUninit with
        | error f => simp [hu] at h
        | ok pu =>
          simp only [hu] at h
          cases hs2 : subRange pu b none with
          | error f => simp [hs2] at h
          | ok q2 =>
            obtain ⟨o, c⟩ := q2
            simp only [hs2] at h
            split at h
            · rename_i hle
              cases h
              obtain ⟨h1, h2⟩ := ih hu
              obtain ⟨hb, heq⟩ := subRange_ok hs2
              cases heq
              simp only [Buf.off, Buf.getRoot]
              simp only [Option.getD_none] at hb hle ⊢
              omega
            · cases h

/-! ### the ranges do not depend on the bytes, and only grow with the root's length -/

theorem Buf.asInit_setRoot_mem (v : Buf) (r' : Root) (hl : r'.len = v.getRoot.len) :
    (v.setRoot r').asInit = v.asInit := by
  induction v with
  | root r => simp [Buf.setRoot, Buf.asInit, Buf.getRoot] at hl ⊢; exact hl
  | slice i b e ih => simp only [Buf.setRoot, Buf.asInit, ih hl]
  | uninit i b ih => simp only [Buf.setRoot, Buf.asInit, ih hl]

theorem Buf.asUninit_setRoot_mem (v : Buf) (r' : Root) (hl : r'.len = v.getRoot.len)
    (hc : r'.cap = v.getRoot.cap) : (v.setRoot r').asUninit = v.asUninit := by
  induction v with
  | root r => simp [Buf.setRoot, Buf.asUninit, Buf.getRoot] at hc ⊢; exact hc
  | slice i b e ih => simp only [Buf.setRoot, Buf.asUninit, ih hl hc]
  | uninit i b ih =>
    simp only [Buf.setRoot, Buf.asUninit, ih hl hc, Buf.asInit_setRoot_mem i r' hl]

/-! ### fresh views: no `Uninit` layer has been filled through yet -/

/-- every `Uninit` layer still sits exactly at the end of the initialised part of what it wraps
(true when it was just created by `uninit()`, and for every stack without `Uninit` layers) -/
def Buf.Fresh : Buf → Prop
  | .root _ => True
  | .slice i _ _ => i.Fresh
  | .uninit i b => i.Fresh ∧ ∃ o, i.asInit = .ok (o, b)

def Buf.NoUninit : Buf → Prop
  | .root _ => True
  | .slice i _ _ => i.NoUninit
  | .uninit _ _ => False

theorem Buf.NoUninit.fresh {v : Buf} (h : v.NoUninit) : v.Fresh := by
  induction v with
  | root _ => trivial
  | slice i b e ih => exact ih h
  | uninit i b ih => exact h.elim

theorem Buf.NoUninit_setRoot {v : Buf} (r : Root) (h : v.NoUninit) : (v.setRoot r).NoUninit := by
  induction v with
  | root _ => trivial
  | slice i b e ih => exact ih h
  | uninit i b ih => exact h.elim

/-- for a fresh view the initialised bytes are a prefix of the writable region, and if the writable
region is longer then the view's initialised part ends exactly where the root's does -/
theorem Buf.fresh_aligned {v : Buf} (hf : v.Fresh) (hw : v.getRoot.len ≤ v.getRoot.cap)
    {pi pu : Nat × Nat} (hi : v.asInit = .ok pi) (hu : v.asUninit = .ok pu) :
    pi.1 = pu.1 ∧ pi.2 ≤ pu.2 ∧ (pi.2 < pu.2 → pi.1 + pi.2 = v.getRoot.len) := by
  induction v generalizing pi pu with
  | root r =>
    simp only [Buf.asInit, Buf.asUninit] at hi hu
    cases hi; cases hu
    simp only [Buf.getRoot] at hw ⊢
    simp [hw]
  | slice i b e ih =>
    simp only [Buf.asInit] at hi
    simp only [Buf.asUninit] at hu
    cases hii : i.asInit with
    | error f => simp [hii] at hi
    | ok qi =>
      cases hiu : i.asUninit with
      | error f => simp [hiu] at hu
      | ok qu =>
        simp only [hii] at hi
        simp only [hiu] at hu
        obtain ⟨h1, h2, h3⟩ := ih hf hw hii hiu
        obtain ⟨hbi, rfl⟩ := subRange_ok hi
        obtain ⟨hbu, rfl⟩ := subRange_ok hu
        simp only [Buf.getRoot]
        cases e with
        | none =>
          simp only [Option.getD_none] at hbi hbu ⊢
          refine ⟨by omega, by omega, fun hlt => ?_⟩
          have := h3 (by omega)
          omega
        | some e =>
          simp only [Option.getD_some] at hbi hbu ⊢
          refine ⟨by omega, by omega, fun hlt => ?_⟩
          have := h3 (by omega)
          omega
  | uninit i b ih =>
    obtain ⟨hfi, o, hib⟩ := hf
    simp only [Buf.asInit, hib] at hi
    simp only [Buf.asUninit, hib] at hu
    have hs : subRange (o, b) b none = .ok (o + b, 0) := by
      rw [subRange_of_le (by simp)]; simp
    rw [hs] at hi
    cases hi
    simp only [hs] at hu
    cases hiu : i.asUninit with
    | error f => simp [hiu] at hu
    | ok qu =>
      simp only [hiu] at hu
      obtain ⟨h1, h2, h3⟩ := ih hfi hw hib hiu
      cases hs2 : subRange qu b none with
      | error f => simp [hs2] at hu
      | ok q2 =>
        obtain ⟨o2, c2⟩ := q2
        simp only [hs2, Nat.zero_le, if_true] at hu
        cases hu
        obtain ⟨hb2, heq⟩ := subRange_ok hs2
        cases heq
        simp only [Option.getD_none, Buf.getRoot] at hb2 ⊢
        simp only at h1 h2 h3
        refine ⟨by omega, by omega, fun hlt => ?_⟩
        have := h3 (by omega)
        omega

/-! ### writing through a view and the fill law -/

theorem splice_length (mem : Bytes) (off : Nat) (data : Bytes) (h : off + data.length ≤ mem.length) :
    (splice mem off data).length = mem.length := by
  unfold splice
  simp only [List.length_append, List.length_take, List.length_drop]
  omega

/-- the bytes stored by `splice` are exactly `data`, at `off` -/
theorem splice_read (mem : Bytes) (off : Nat) (data : Bytes) (h : off + data.length ≤ mem.length) :
    ((splice mem off data).drop off).take data.length = data := by
  unfold splice
  have h1 : (mem.take off).length = off := by simp only [List.length_take]; omega
  rw [List.append_assoc, List.drop_append, h1]
  have h2 : List.drop off (List.take off mem) = [] := by
    apply List.drop_eq_nil_of_le; omega
  simp [h2]

/-- every byte outside `off .. off + |data|` is untouched -/
theorem splice_other (mem : Bytes) (off : Nat) (data : Bytes) (h : off + data.length ≤ mem.length)
    (j : Nat) (hj : j < off ∨ off + data.length ≤ j) : (splice mem off data)[j]? = mem[j]? := by
  unfold splice
  have h1 : (mem.take off).length = off := by simp only [List.length_take]; omega
  rcases hj with hj | hj
  · rw [List.append_assoc, List.getElem?_append_left (by omega)]
    simp [hj]
  · rw [List.getElem?_append_right (by simp only [List.length_append, h1]; omega)]
    simp only [List.length_append, h1, List.getElem?_drop]
    congr 1
    omega

theorem splice_nil (mem : Bytes) (off : Nat) : splice mem off [] = mem := by
  unfold splice
  simp

@[simp] theorem Buf.getRoot_write (v : Buf) (o : Nat) (d : Bytes) :
    (v.write o d).getRoot = { v.getRoot with mem := splice v.getRoot.mem o d } := by
  simp [Buf.write]

@[simp] theorem Buf.off_write (v : Buf) (o : Nat) (d : Bytes) : (v.write o d).off = v.off := by
  simp [Buf.write]

theorem Buf.asInit_write (v : Buf) (o : Nat) (d : Bytes) : (v.write o d).asInit = v.asInit :=
  Buf.asInit_setRoot_mem v _ rfl

theorem Buf.asUninit_write (v : Buf) (o : Nat) (d : Bytes) (h : o + d.length ≤ v.getRoot.cap) :
    (v.write o d).asUninit = v.asUninit :=
  Buf.asUninit_setRoot_mem v _ rfl (by simp only [Root.cap]; exact splice_length _ _ _ h)

/-- **Fill law, exact form.** For a fresh view (any nesting of slices; `Uninit` layers not yet filled
through) over a well-formed root: writing `data` (`|data| ≤ |as_uninit|`) at the start of the writable region and
recording it with `advance_to(|data|)` never faults, leaves the view stack as it is, and changes the root
to: the same kind, `len = max len (o + |data|)`, memory = old memory with `data` spliced in at `o` —
where `o` is the offset of the view's writable region. -/
theorem Buf.fill_law {v : Buf} (hw : v.getRoot.WF) (hf : v.Fresh) {pi pu : Nat × Nat}
    (hi : v.asInit = .ok pi) (hu : v.asUninit = .ok pu) (data : Bytes) (hk : data.length ≤ pu.2) :
    v.fill data = .ok (v.setRoot { v.getRoot with
      len := max v.getRoot.len (pu.1 + data.length), mem := splice v.getRoot.mem pu.1 data }) := by
  obtain ⟨oi, li⟩ := pi
  obtain ⟨o, lu⟩ := pu
  obtain ⟨ha1, ha2, ha3⟩ := Buf.fresh_aligned hf hw.le hi hu
  obtain ⟨hi1, hi2⟩ := Buf.asInit_inside hi
  obtain ⟨hu1, hu2⟩ := Buf.asUninit_inside hu
  simp only at ha1 ha2 ha3 hi1 hi2 hu1 hu2 hk
  subst ha1
  unfold Buf.fill
  simp only [hu, hk, if_true]
  unfold Buf.advanceTo
  rw [Buf.asInit_write, hi]
  simp only
  split
  · rename_i hgt
    have hlen : oi + li = v.getRoot.len := ha3 (by omega)
    rw [Buf.setLen_eq]
    simp only [Buf.getRoot_write, Buf.off_write, ← hi1]
    have hwf2 : ({ v.getRoot with mem := splice v.getRoot.mem oi data } : Root).WF := by
      constructor
      · simp only [Root.cap]
        rw [splice_length _ _ _ (by simp only [Root.cap] at hu2; omega)]
        exact hw.le
      · intro hkind
        simp only [Root.cap]
        rw [splice_length _ _ _ (by simp only [Root.cap] at hu2; omega)]
        exact hw.full hkind
    rw [Root.setLen_of_ge _ _ hwf2 (by simp only; omega)
      (by simp only [Root.cap]
          rw [splice_length _ _ _ (by simp only [Root.cap] at hu2; omega)]
          simp only [Root.cap] at hu2; omega)]
    simp only [Buf.write, Buf.setRoot_setRoot]
    have : max v.getRoot.len (oi + data.length) = oi + data.length := by omega
    rw [this]
  · rename_i hle
    have : max v.getRoot.len (oi + data.length) = v.getRoot.len := by omega
    rw [this]
    simp only [Buf.write]

/-- after a fill that had to grow the root (`li < k ≤ c`, new root length `o + k`) a fresh view reports
exactly the `k` written bytes as its initialised range -/
theorem Buf.asInit_after_grow {v : Buf} (hf : v.Fresh) (hw : v.getRoot.len ≤ v.getRoot.cap)
    {o li c k : Nat} (hi : v.asInit = .ok (o, li)) (hu : v.asUninit = .ok (o, c))
    (hlt : li < k) (hk : k ≤ c) (r' : Root) (hl : r'.len = o + k) :
    (v.setRoot r').asInit = .ok (o, k) := by
  induction v generalizing o li c k with
  | root r =>
    simp only [Buf.asInit] at hi
    cases hi
    simp [Buf.setRoot, Buf.asInit, hl]
  | slice i b e ih =>
    simp only [Buf.asInit] at hi
    simp only [Buf.asUninit] at hu
    cases hii : i.asInit with
    | error f => simp [hii] at hi
    | ok qi =>
      cases hiu : i.asUninit with
      | error f => simp [hiu] at hu
      | ok qu =>
        obtain ⟨oi, lii⟩ := qi
        obtain ⟨ou, ci⟩ := qu
        simp only [hii] at hi
        simp only [hiu] at hu
        obtain ⟨h1, h2, h3⟩ := Buf.fresh_aligned (v := i) hf hw hii hiu
        simp only at h1 h2 h3
        subst h1
        obtain ⟨hbi, heqi⟩ := subRange_ok hi
        obtain ⟨hbu, hequ⟩ := subRange_ok hu
        simp only [Prod.mk.injEq] at heqi hequ hbi hbu
        have hinner := ih (o := oi) (li := lii) (c := ci) (k := b + k) hf hw hii hiu
          (by cases e <;> simp only [Option.getD_none, Option.getD_some] at * <;> omega)
          (by cases e <;> simp only [Option.getD_none, Option.getD_some] at * <;> omega)
          (by omega)
        simp only [Buf.setRoot, Buf.asInit, hinner]
        rw [subRange_of_le (by cases e <;> simp only [Option.getD_none, Option.getD_some] at * <;> omega)]
        simp only [Except.ok.injEq, Prod.mk.injEq]
        cases e <;> simp only [Option.getD_none, Option.getD_some] at * <;> omega
  | uninit i b ih =>
    obtain ⟨hfi, o0, hib⟩ := hf
    simp only [Buf.asInit, hib] at hi
    simp only [Buf.asUninit, hib] at hu
    have hs : subRange (o0, b) b none = .ok (o0 + b, 0) := by
      rw [subRange_of_le (by simp)]; simp
    rw [hs] at hi
    cases hi
    simp only [hs] at hu
    cases hiu : i.asUninit with
    | error f => simp [hiu] at hu
    | ok qu =>
      obtain ⟨ou, ci⟩ := qu
      simp only [hiu] at hu
      obtain ⟨h1, h2, h3⟩ := Buf.fresh_aligned (v := i) hfi hw hib hiu
      simp only at h1 h2 h3
      subst h1
      rw [subRange_of_le (p := (o0, ci)) (by simpa using h2)] at hu
      simp only [Nat.zero_le, if_true, Except.ok.injEq, Prod.mk.injEq, Option.getD_none, Nat.min_self] at hu
      have hinner := ih (o := o0) (li := b) (c := ci) (k := b + k) hfi hw hib hiu
        (by omega) (by omega) (by omega)
      simp only [Buf.setRoot, Buf.asInit, hinner]
      rw [subRange_of_le (by simp)]
      simp

/-- without `Uninit` layers the writable range depends on the capacity only -/
theorem Buf.NoUninit.asUninit_setRoot {v : Buf} (h : v.NoUninit) (r' : Root)
    (hc : r'.cap = v.getRoot.cap) : (v.setRoot r').asUninit = v.asUninit := by
  induction v with
  | root r => simp [Buf.setRoot, Buf.asUninit, Buf.getRoot] at hc ⊢; exact hc
  | slice i b e ih => simp only [Buf.setRoot, Buf.asUninit, ih h hc]
  | uninit i b ih => exact h.elim

/-! ### `len ≤ cap` is kept by everything; the contract excludes faults -/

theorem Root.setLen_wf_of_ok {r r' : Root} {n : Nat} (hw : r.WF) (h : r.setLen n = .ok r') : r'.WF := by
  by_cases hn : n ≤ r.cap
  · obtain ⟨r'', h2, hw2⟩ := Root.setLen_ok r n hw hn
    rw [h] at h2
    cases h2
    exact hw2
  · obtain ⟨hle, hfull⟩ := hw
    unfold Root.setLen at h
    cases hk : r.kind <;> simp only [hk, hn, if_false] at h
    · cases h
    · cases h
    · cases h
    · cases h
    · by_cases hl : r.len < n
      · simp only [hl, if_true] at h; cases h
      · simp only [hl, if_false] at h; cases h; exact ⟨hle, hfull⟩
    · by_cases hl : r.len < n
      · simp only [hl, if_true] at h; cases h
      · simp only [hl, if_false] at h; cases h; exact ⟨hle, hfull⟩
    · cases h
      refine ⟨?_, by simp⟩
      show min n r.cap ≤ r.cap
      omega

theorem Buf.setLen_wf_of_ok {v v' : Buf} {n : Nat} (hw : v.getRoot.WF) (h : v.setLen n = .ok v') :
    v'.getRoot.WF ∧ ∃ r', v' = v.setRoot r' ∧ r'.mem = v.getRoot.mem ∧ r'.kind = v.getRoot.kind := by
  rw [Buf.setLen_eq] at h
  cases hr : v.getRoot.setLen (v.off + n) with
  | error f => simp [hr] at h
  | ok r' =>
    simp only [hr] at h
    cases h
    exact ⟨by simpa using Root.setLen_wf_of_ok hw hr, r', rfl, Root.setLen_mem hr⟩

/-- the documented contract of `set_len` (`n ≤ as_uninit().len()`) is enough: no view stack turns it
into a root `set_len` beyond the capacity -/
theorem Buf.setLen_ok_of_contract {v : Buf} {p : Nat × Nat} {n : Nat} (hw : v.getRoot.WF)
    (hu : v.asUninit = .ok p) (hn : n ≤ p.2) : ∃ v', v.setLen n = .ok v' := by
  obtain ⟨h1, h2⟩ := Buf.asUninit_inside hu
  rw [Buf.setLen_eq]
  obtain ⟨r', hr, _⟩ := Root.setLen_ok v.getRoot (v.off + n) hw (by omega)
  exact ⟨v.setRoot r', by simp [hr]⟩

theorem Buf.write_wf {v : Buf} (hw : v.getRoot.WF) (o : Nat) (d : Bytes)
    (h : o + d.length ≤ v.getRoot.cap) : (v.write o d).getRoot.WF := by
  simp only [Buf.getRoot_write]
  constructor
  · simp only [Root.cap]; rw [splice_length _ _ _ h]; exact hw.le
  · intro hk; simp only [Root.cap]; rw [splice_length _ _ _ h]; exact hw.full hk

theorem Buf.advanceTo_wf {v v' : Buf} {n : Nat} (hw : v.getRoot.WF) (h : v.advanceTo n = .ok v') :
    v'.getRoot.WF := by
  unfold Buf.advanceTo at h
  cases hi : v.asInit with
  | error f => simp [hi] at h
  | ok p =>
    obtain ⟨o, li⟩ := p
    simp only [hi] at h
    split at h
    · exact (Buf.setLen_wf_of_ok hw h).1
    · cases h; exact hw

theorem Buf.fill_wf {v v' : Buf} {d : Bytes} (hw : v.getRoot.WF) (h : v.fill d = .ok v') :
    v'.getRoot.WF := by
  unfold Buf.fill at h
  cases hu : v.asUninit with
  | error f => simp [hu] at h
  | ok p =>
    obtain ⟨o, c⟩ := p
    simp only [hu] at h
    split at h
    · rename_i hk
      have := (Buf.asUninit_inside hu).2
      exact Buf.advanceTo_wf (Buf.write_wf hw o d (by simp only at this; omega)) h
    · cases h

theorem Buf.checked_ok {v v' : Buf} {n : Nat} {k : Res Buf} (h : v.checked n k = .ok v') : k = .ok v' := by
  unfold Buf.checked at h
  cases hu : v.asUninit with
  | error f => simp [hu] at h
  | ok p =>
    simp only [hu] at h
    split at h
    · exact h
    · cases h

theorem Buf.mkSlice_ok {v s : Buf} {b : Nat} {e : Option Nat} (h : v.mkSlice b e = .ok s) :
    s = .slice v b e ∧ ∃ p, v.asInit = .ok p ∧ b ≤ p.2 ∧ (∀ x, e = some x → b ≤ x) := by
  unfold Buf.mkSlice at h
  cases hi : v.asInit with
  | error f => simp [hi] at h
  | ok p =>
    obtain ⟨o, li⟩ := p
    simp only [hi] at h
    split at h
    · rename_i hb
      cases e with
      | none => simp only at h; cases h; exact ⟨rfl, _, rfl, hb, by simp⟩
      | some x =>
        simp only at h
        split at h
        · rename_i hx; cases h; exact ⟨rfl, _, rfl, hb, by simp; exact hx⟩
        · cases h
    · cases h

theorem Buf.mkUninit_ok {v u : Buf} (h : v.mkUninit = .ok u) :
    ∃ o li, v.asInit = .ok (o, li) ∧ u = .uninit v li := by
  unfold Buf.mkUninit at h
  cases hi : v.asInit with
  | error f => simp [hi] at h
  | ok p =>
    obtain ⟨o, li⟩ := p
    simp only [hi] at h
    cases h
    exact ⟨o, li, rfl, rfl⟩

@[simp] theorem Buf.getRoot_flatten (v : Buf) : v.flatten.getRoot = v.getRoot := by
  unfold Buf.flatten
  split <;> simp [Buf.getRoot]

theorem Buf.getRoot_peel (v : Buf) : v.peel.getRoot = v.getRoot := by
  cases v <;> simp [Buf.peel, Buf.getRoot]

/-- every step of every program keeps `len ≤ cap` (and full fixed-size roots full) -/
theorem Buf.step_wf {v v' : Buf} {op : Op} (hw : v.getRoot.WF) (h : v.step op = .ok v') :
    v'.getRoot.WF := by
  cases op with
  | slice b e =>
    obtain ⟨rfl, _⟩ := Buf.mkSlice_ok h
    exact hw
  | uninit =>
    obtain ⟨o, li, _, rfl⟩ := Buf.mkUninit_ok h
    exact hw
  | flat b1 e1 b2 e2 =>
    simp only [Buf.step] at h
    cases h1 : v.mkSlice b1 e1 with
    | error f => simp [h1] at h
    | ok s =>
      simp only [h1] at h
      cases h2 : s.mkSlice b2 e2 with
      | error f => simp [h2] at h
      | ok s2 =>
        simp only [h2] at h
        cases h
        obtain ⟨rfl, _⟩ := Buf.mkSlice_ok h1
        obtain ⟨rfl, _⟩ := Buf.mkSlice_ok h2
        simpa [Buf.getRoot] using hw
  | peel =>
    simp only [Buf.step] at h
    cases h
    rw [Buf.getRoot_peel]; exact hw
  | fill d => exact Buf.fill_wf hw h
  | setLen n => exact (Buf.setLen_wf_of_ok hw (Buf.checked_ok h)).1
  | advanceTo n => exact Buf.advanceTo_wf hw (Buf.checked_ok h)
  | advance n =>
    simp only [Buf.step] at h
    cases hi : v.asInit with
    | error f => simp [hi] at h
    | ok p =>
      obtain ⟨o, li⟩ := p
      simp only [hi] at h
      have := Buf.checked_ok h
      unfold Buf.advance at this
      simp only [hi] at this
      exact (Buf.setLen_wf_of_ok hw this).1
  | clear => exact (Buf.setLen_wf_of_ok hw h).1

theorem Buf.run_wf {v v' : Buf} {ops : List Op} (hw : v.getRoot.WF) (h : v.run ops = .ok v') :
    v'.getRoot.WF := by
  induction ops generalizing v with
  | nil => simp only [Buf.run] at h; cases h; exact hw
  | cons op rest ih =>
    simp only [Buf.run] at h
    cases hs : v.step op with
    | error f => simp [hs] at h
    | ok v1 =>
      simp only [hs] at h
      exact ih (Buf.step_wf hw hs) h

/-! ### flatten shows the same view -/

theorem subRange_of_not_le {p : Nat × Nat} {b : Nat} {e : Option Nat}
    (hb : ¬ b ≤ min (e.getD p.2) p.2) : subRange p b e = .error .panic := by
  unfold subRange
  simp only [hb, if_false]

theorem subRange_subRange (p : Nat × Nat) (lb : Nat) (le : Option Nat) (b : Nat) (e : Option Nat) :
    (match subRange p lb le with
      | .ok q => subRange q b e
      | .error f => .error f) =
    subRange p (lb + b) (match e, le with
      | some se, some le => some (min (lb + se) le)
      | some se, none => some (lb + se)
      | none, le => le) := by
  obtain ⟨o, l⟩ := p
  by_cases h1 : lb ≤ min (le.getD l) l
  · rw [subRange_of_le (p := (o, l)) h1]
    simp only
    by_cases h2 : b ≤ min (e.getD (min (le.getD l) l - lb)) (min (le.getD l) l - lb)
    · rw [subRange_of_le (p := (o + lb, min (le.getD l) l - lb)) h2]
      rw [subRange_of_le (p := (o, l))
        (by cases e <;> cases le <;> simp only [Option.getD_none, Option.getD_some] at h1 h2 ⊢ <;> omega)]
      simp only [Except.ok.injEq, Prod.mk.injEq]
      cases e <;> cases le <;> simp only [Option.getD_none, Option.getD_some] at h1 h2 ⊢ <;> omega
    · rw [subRange_of_not_le (p := (o + lb, min (le.getD l) l - lb)) h2]
      rw [subRange_of_not_le (p := (o, l))
        (by cases e <;> cases le <;> simp only [Option.getD_none, Option.getD_some] at h1 h2 ⊢ <;> omega)]
  · rw [subRange_of_not_le (p := (o, l)) h1]
    simp only
    rw [subRange_of_not_le (p := (o, l))
      (by cases e <;> cases le <;> simp only [Option.getD_none, Option.getD_some] at h1 ⊢ <;> omega)]

theorem Buf.flatten_asInit (v : Buf) : v.flatten.asInit = v.asInit := by
  unfold Buf.flatten
  split
  · rename_i i lb le b e
    simp only [Buf.asInit]
    cases hi : i.asInit with
    | error f => rfl
    | ok p => exact (subRange_subRange p lb le b e).symm
  · rfl

theorem Buf.flatten_asUninit (v : Buf) : v.flatten.asUninit = v.asUninit := by
  unfold Buf.flatten
  split
  · rename_i i lb le b e
    simp only [Buf.asUninit]
    cases hi : i.asUninit with
    | error f => rfl
    | ok p => exact (subRange_subRange p lb le b e).symm
  · rfl

theorem Buf.flatten_off (v : Buf) : v.flatten.off = v.off := by
  unfold Buf.flatten
  split
  · simp only [Buf.off]; omega
  · rfl

end Compio.View
