/-
Progress of the actor task of Model/Actor.lean: what `recv` does next, that the task's own next actions are
always enabled, and that the deterministic continuation (`settle`, the scheduler the driver uses) handles
everything queued when nothing stops it.
-/
import Compio.Lemmas.ActorCalls

namespace Compio.Actor
set_option linter.unusedSimpArgs false
set_option linter.unusedVariables false

/-- `recv` with an empty stop channel takes the head of the queue -/
theorem recv_takes_head (s : St) (it : Item) (q : List Item)
    (h1 : s.pc = .atRecv) (h2 : s.stopSlot = false) (h3 : s.queue = it :: q) :
    ∃ s', run s [.pollStop, .pollMsg] = some s' ∧ s'.pc = .handling it false ∧ s'.queue = q ∧
      s'.handled = s.handled ++ [it.id] ∧ s'.log = s.log ++ [.hs it.id] ∧ s'.stopSlot = false ∧
      s'.accepted = s.accepted ∧ s'.cap = s.cap ∧ s'.resolved = s.resolved := by
  simp [run, step, h1, h2, h3, St.obs]

/-- `select_biased!`: a pending stop request wins over queued messages, which stay queued -/
theorem recv_prefers_stop (s : St) (h1 : s.pc = .atRecv) (h2 : s.stopSlot = true) :
    ∃ s', step s .pollStop = some s' ∧ s'.pc = .finBegin .stopped ∧ s'.queue = s.queue ∧
      s'.handled = s.handled := by
  simp [step, h1, h2]

/-- the actor task is never stuck on one of its own actions -/
theorem nextEvents_enabled (sc : Script) (s : St) (hr : InvR s) :
    (run s (nextEvents sc s)).isSome = true := by
  have hchan : s.pc.terminal = false → s.chanAlive = true := by
    intro ht
    cases hc : s.chanAlive with
    | true => rfl
    | false => have := (hr.chan hc).1; simp [ht] at this
  unfold nextEvents
  cases hpc : s.pc with
  | handling it replied =>
    have hc := hchan (by simp [hpc, Pc.terminal])
    simp only []
    by_cases h1 : sc.stopsSelf it = true <;> by_cases h2 : s.stopping = true <;>
      by_cases h3 : (it.call && sc.replies it && !replied) = true <;>
      simp [h1, h2, h3, run, step, hpc, hc, St.obs] <;>
      (cases replied <;> simp_all [run, step, St.obs])
  | atRecv =>
    simp only []
    by_cases h1 : s.stopSlot = true
    · simp [h1, run, step, hpc]
    · by_cases h2 : s.queue.isEmpty = true <;> simp [h1, h2, run, step, hpc]
  | polledStop =>
    simp [run, step, hpc]
    cases s.queue <;> simp
  | preStarted =>
    by_cases h1 : s.futureAlive = true <;> simp [run, step, hpc, h1]
  | init =>
    by_cases h1 : sc.preStart = true <;> simp [run, step, hpc, h1]
  | _ => simp [run, step, hpc]

/-- one message: three rounds of the scheduler (`pollStop`; `pollMsg`; the handler body) -/
theorem settle_one (sc : Script) (s : St) (it : Item) (q : List Item) (k : Nat)
    (h1 : s.pc = .atRecv) (h2 : s.stopSlot = false) (h3 : s.queue = it :: q)
    (hok : sc.handlerOk it = true) (hns : sc.stopsSelf it = false) :
    ∃ s3, settle sc (k + 3) s = settle sc k s3 ∧ s3.pc = .atRecv ∧ s3.stopSlot = false ∧ s3.queue = q ∧
      s3.handled = s.handled ++ [it.id] ∧ s3.accepted = s.accepted := by
  by_cases hc : it.call = true <;> by_cases hrp : sc.replies it = true <;>
    simp [settle, nextEvents, run, step, h1, h2, h3, hok, hns, hc, hrp, St.obs] <;>
    refine ⟨_, rfl, ?_⟩ <;> simp

/-- If nothing stops it, the actor task handles everything that was accepted, in order. -/
theorem settle_drains (sc : Script) :
    ∀ (q : List Item) (s : St) (n : Nat), s.pc = .atRecv → s.stopSlot = false → s.queue = q →
      (∀ it ∈ q, sc.handlerOk it = true ∧ sc.stopsSelf it = false) →
      (settle sc (3 * q.length + n) s).pc = .atRecv ∧
      (settle sc (3 * q.length + n) s).queue = [] ∧
      (settle sc (3 * q.length + n) s).handled = s.handled ++ q.map (·.id) ∧
      (settle sc (3 * q.length + n) s).accepted = s.accepted := by
  intro q
  induction q with
  | nil =>
    intro s n h1 h2 h3 _
    cases n with
    | zero => simp [settle, h1, h3]
    | succ n => simp [settle, nextEvents, h1, h2, h3]
  | cons it q ih =>
    intro s n h1 h2 h3 hall
    have hit := hall it (by simp)
    obtain ⟨s3, he, p1, p2, p3, p4, p5⟩ := settle_one sc s it q (3 * q.length + n) h1 h2 h3 hit.1 hit.2
    have hfuel : 3 * (it :: q).length + n = (3 * q.length + n) + 3 := by simp; omega
    rw [hfuel, he]
    have := ih s3 n p1 p2 p3 (fun x hx => hall x (by simp [hx]))
    simp [this, p4, p5]

/-- what a group sees as a member's status is what the member's `send` answers -/
theorem sendNow_result (s : St) (it : Item) (r : SendRes) (s' : St) (h : sendNow s it = some (r, s')) :
    r = (if s.isClosed then SendRes.closed else s.pushRes) := by
  unfold sendNow at h
  by_cases hc : s.isClosed = true
  · rw [if_pos hc] at h
    rw [if_pos hc]
    cases hs : step s (.sendCheck it) with
    | none => simp [hs] at h
    | some s1 => simp [hs] at h; exact h.1.symm
  · rw [if_neg hc] at h
    rw [if_neg hc]
    cases hs : step s (.sendCheck it) with
    | none => simp [hs] at h
    | some s1 =>
      simp only [hs] at h
      cases hs2 : step s1 (.sendPush it) with
      | none => simp [hs2] at h
      | some s2 =>
        simp [hs2] at h
        have hc' : s.isClosed = false := by simpa using hc
        have : s1.pushRes = s.pushRes := by
          simp only [step] at hs
          step_cases hs <;> simp_all [St.pushRes, St.isClosed]
        rw [← h.1, this]

end Compio.Actor
