/-
Preservation of the invariant `Inv` (Compio.Lemmas.Wake), part A: bookkeeping (pending counter, hot queue, flag range) and the SCHEDULED bit.
-/
import Compio.Lemmas.WakeTac

namespace Compio.Wake
open Compio.TaskWord Compio.Gen

set_option maxRecDepth 4000 in
theorem g1_rt (s s' : State) (e : RtEv) (h : Inv s) (hs : rtStep s e = some s') :
    s'.flag ≤ 3 ∧ s'.uflow = false ∧ s'.pending = s'.sync.length + cnt s' resvP + drained s'.rt ∧
    (∀ t, t ∈ s'.hot → s'.dropped t = false) ∧
    (∀ t, TaskState.isCompleted (s'.word t) = true → s'.dropped t = true) ∧
    s'.hot.Nodup ∧ (∀ w, prePush (s'.wk w).pc = true → (s'.wk w).pushed = false) ∧
    (waitPcs s'.rt = true → s'.hot ≠ [] → s'.zero = true) ∧ (extPc s'.rt = true → s'.cfg.loop = .ext) := by
  have hx := h.extOnly
  have hn := h.hotNodup
  have hnp := h.notPushed
  have hp := h.pend
  have hu := h.noUflow
  have hf := h.flagLe
  have hh := h.hotLive
  have hc := h.compl
  have hz := h.zeroHot
  rt_step hs
  all_goals (refine ⟨?_, ?_, ?_, ?_, ?_, ?_, ?_, ?_, ?_⟩)
  all_goals (try (first | exact hf | exact hu | exact hh | exact hc | exact wake_le hf | (simp only [reset_fst]; omega) | (simp only [set_eq]; omega) | exact hotLive_push _ hh | exact hotLive_erase _ hh | exact hn | exact hnp | exact nodup_hotPush _ hn | exact hn.erase _ | exact (hn.erase _).erase _ | exact hotLive_erase_upd _ hn hh | exact hotLive_erase_upd _ (hn.erase _) (hotLive_erase _ hh)))
  all_goals (try (simp_all [cnt, drained, waitPcs, extPc, upd]; done))
  all_goals (try (simp_all [cnt, drained, waitPcs, upd]; omega))
  all_goals (try (intro t; simp only [upd]; split <;> simp_all [compl_unsched, compl_dropped]; done))
  all_goals (try simp_all [cnt, drained, waitPcs, upd])

set_option maxRecDepth 4000 in
theorem g1_w (s s' : State) (w : Nat) (hw : w < s.cfg.nw) (h : Inv s) (hs : wStep s w = some s') :
    s'.flag ≤ 3 ∧ s'.uflow = false ∧ s'.pending = s'.sync.length + cnt s' resvP + drained s'.rt ∧
    (∀ t, t ∈ s'.hot → s'.dropped t = false) ∧
    (∀ t, TaskState.isCompleted (s'.word t) = true → s'.dropped t = true) ∧
    s'.hot.Nodup ∧ (∀ w, prePush (s'.wk w).pc = true → (s'.wk w).pushed = false) ∧
    (waitPcs s'.rt = true → s'.hot ≠ [] → s'.zero = true) ∧ (extPc s'.rt = true → s'.cfg.loop = .ext) := by
  have hx := h.extOnly
  have hp := h.pend
  have hu := h.noUflow
  have hf := h.flagLe
  have hh := h.hotLive
  have hc := h.compl
  have hz := h.zeroHot
  have hn := h.hotNodup
  have hnp := h.notPushed
  have hnpw := h.notPushed w
  simp only [cnt, cntUpTo_split _ _ _ _ hw] at hp
  w_step hs
  all_goals (refine ⟨?_, ?_, ?_, ?_, ?_, ?_, ?_, ?_, ?_⟩)
  all_goals (try (first | exact hf | exact hu | exact hh | exact hc | exact wake_le hf | exact hn | exact hz | exact hx))
  all_goals (try (intro t; simp only [upd]; split <;> simp_all [compl_start, compl_finish]; done))
  all_goals (try (intro w1; by_cases h1 : w1 = w <;> simp_all [upd, prePush]; done))
  all_goals (try (try simp only [cnt, cntUpTo_split _ _ _ _ hw, cntExcept_upd, upd_same]; simp_all [resvP, isTaskKind, prePush]; done))
  all_goals (try (try simp only [cnt, cntUpTo_split _ _ _ _ hw, cntExcept_upd, upd_same]; simp_all [resvP, isTaskKind, prePush]; omega))
  all_goals (try (try simp only [cnt, cntUpTo_split _ _ _ _ hw, cntExcept_upd, upd_same]; simp_all [resvP, isTaskKind, prePush]))
  all_goals (try (
    have hr : resvP (s.wk w) = true := by simp_all [resvP, isTaskKind, prePush]
    simp only [hr, if_true] at hp
    simp only [hu, Bool.false_or, decide_eq_false_iff_not]
    omega))

set_option maxRecDepth 4000 in
theorem g2_rt (s s' : State) (e : RtEv) (h : Inv s) (hs : rtStep s e = some s') :
    (∀ t, TaskState.isScheduled (s'.word t) = true → s'.dropped t = false →
      TaskState.isCancelled (s'.word t) = false → t ∈ s'.sync ∨ t ∈ s'.hot ∨ 0 < cnt s' (holdsP t)) ∧
    (∀ w t, (s'.wk w).kind = .task t → inCall (s'.wk w) = true → (s'.wk w).seq0 ≤ s'.pollSeq t) ∧
    (∀ w t, (s'.wk w).kind = .task t → inCall (s'.wk w) = true → (s'.wk w).seq0 = s'.pollSeq t →
      TaskState.isScheduled (s'.word t) = true) ∧
    (∀ t, s'.woken t = true → TaskState.isScheduled (s'.word t) = true) := by
  have h1 := h.sched
  have h2 := h.seqLe
  have h3 := h.unserved
  have h4 := h.wokenSched
  rt_step hs
  all_goals (refine ⟨?_, ?_, ?_, ?_⟩)
  all_goals (try (first | exact h1 | exact h2 | exact h3 | exact h4))
  all_goals (try (simp only [cnt, upd] at *; grind [mem_hotPush, sched_unsched, sched_dropped, sched_finrun, List.mem_erase_of_ne]))


set_option maxRecDepth 4000 in
theorem g2_w (s s' : State) (w : Nat) (hw : w < s.cfg.nw) (h : Inv s) (hs : wStep s w = some s') :
    (∀ t, TaskState.isScheduled (s'.word t) = true → s'.dropped t = false →
      TaskState.isCancelled (s'.word t) = false → t ∈ s'.sync ∨ t ∈ s'.hot ∨ 0 < cnt s' (holdsP t)) ∧
    (∀ w t, (s'.wk w).kind = .task t → inCall (s'.wk w) = true → (s'.wk w).seq0 ≤ s'.pollSeq t) ∧
    (∀ w t, (s'.wk w).kind = .task t → inCall (s'.wk w) = true → (s'.wk w).seq0 = s'.pollSeq t →
      TaskState.isScheduled (s'.word t) = true) ∧
    (∀ t, s'.woken t = true → TaskState.isScheduled (s'.word t) = true) := by
  have h1 := h.sched
  have h2 := h.seqLe
  have h3 := h.unserved
  have h4 := h.wokenSched
  have h5 := h.compl
  have hnpw := h.notPushed w
  simp only [cnt, cntUpTo_split _ _ _ _ hw] at h1
  w_step hs
  all_goals (refine ⟨?_, ?_, ?_, ?_⟩)
  all_goals (try (first | exact h2 | exact h3 | exact h4))
  all_goals (try (simp only [cnt, cntUpTo_split _ _ _ _ hw, cntExcept_upd, upd_same, upd, holdsP, inCall, prePush] at *; grind [sched_start, sched_finish, canc_start, canc_finish, compl_start]))

end Compio.Wake
