/-
Alignment of the two remaining handshake tapes with the cells in flight (used by the progress proof of C15).
-/
import Compio.Lemmas.TlsNet
import Compio.Model.TlsShim

namespace Compio.TlsShim
open Compio.TlsNet

def hsN (n : Nat) : List Cell := List.replicate n Cell.hs
def postN (n : Nat) : List Cell := List.replicate n Cell.post

@[simp] theorem Side.other_other (s : Side) : s.other.other = s := by cases s <;> rfl
theorem Side.other_ne (s : Side) : s.other ≠ s := by cases s <;> simp [Side.other]
theorem Side.ne_other (s : Side) : s ≠ s.other := by cases s <;> simp [Side.other]
theorem Side.eq_or_other (s t : Side) : t = s ∨ t = s.other := by cases s <;> cases t <;> simp [Side.other]

/-- `me`'s remaining tape `m`, the peer's remaining tape `p`, `a` handshake cells travelling me → peer and
`a'` travelling peer → me: one tape is the other one plus exactly the cells in flight, all sent by the side
that is ahead. -/
def Align (me : Side) (m p : List Side) (a a' : Nat) : Prop :=
  (∃ X, p = X ++ m ∧ (∀ x ∈ X, x = me) ∧ X.length = a ∧ a' = 0) ∨
  (∃ Y, m = Y ++ p ∧ (∀ y ∈ Y, y = me.other) ∧ Y.length = a' ∧ a = 0)

theorem Align.symm {me : Side} {m p : List Side} {a a' : Nat} (h : Align me m p a a') :
    Align me.other p m a' a := by
  rcases h with ⟨X, h1, h2, h3, h4⟩ | ⟨Y, h1, h2, h3, h4⟩
  · right; exact ⟨X, h1, by simpa using h2, h3, h4⟩
  · left; exact ⟨Y, h1, h2, h3, h4⟩

theorem leadRun_le (s : Side) : ∀ l : List Side, leadRun s l ≤ l.length
  | [] => by simp [leadRun]
  | x :: xs => by
    unfold leadRun; split
    · have := leadRun_le s xs; simp; omega
    · simp

theorem leadRun_pos {s : Side} {l : List Side} (t : List Side) (h : l = s :: t) : 1 ≤ leadRun s l := by
  subst h; simp [leadRun]

/-- the first `n ≤ leadRun s l` cells of `l` belong to `s` -/
theorem take_leadRun (s : Side) : ∀ (l : List Side) (n : Nat), n ≤ leadRun s l → ∀ x ∈ l.take n, x = s
  | [], n, _ => by simp
  | y :: ys, 0, _ => by simp
  | y :: ys, n + 1, h => by
    unfold leadRun at h
    split at h
    · rename_i hy
      intro x hx
      simp only [List.take_succ_cons, List.mem_cons] at hx
      rcases hx with hx | hx
      · exact hx ▸ hy
      · exact take_leadRun s ys n (by omega) x hx
    · omega

theorem leadRun_all (s : Side) : ∀ l : List Side, (∀ x ∈ l, x = s) → leadRun s l = l.length
  | [], _ => by simp [leadRun]
  | y :: ys, h => by
    have hy : y = s := h y (by simp)
    have := leadRun_all s ys (fun x hx => h x (by simp [hx]))
    simp [leadRun, hy, this]

theorem leadRun_append_all (s : Side) : ∀ (l r : List Side), (∀ x ∈ l, x = s) →
    leadRun s (l ++ r) = l.length + leadRun s r
  | [], r, _ => by simp
  | y :: ys, r, h => by
    have hy : y = s := h y (by simp)
    have := leadRun_append_all s ys r (fun x hx => h x (by simp [hx]))
    simp [leadRun, hy, this]; omega

/-- `me` writes `j` of its own leading cells -/
theorem Align.write {me : Side} {m p : List Side} {a a' : Nat} (h : Align me m p a a')
    {j : Nat} (hj : j ≤ leadRun me m) (hpos : 1 ≤ leadRun me m) :
    Align me (m.drop j) p (a + j) a' := by
  have hmine := take_leadRun me m j hj
  have hsplit : m = m.take j ++ m.drop j := (List.take_append_drop j m).symm
  have hlen : (m.take j).length = j := by
    have := leadRun_le me m
    simp [List.length_take]; omega
  rcases h with ⟨X, h1, h2, h3, h4⟩ | ⟨Y, h1, h2, h3, h4⟩
  · left
    refine ⟨X ++ m.take j, ?_, ?_, ?_, h4⟩
    · rw [List.append_assoc, ← hsplit]; exact h1
    · intro x hx; rcases List.mem_append.1 hx with hx | hx
      · exact h2 x hx
      · exact hmine x hx
    · simp [h3, hlen]
  · -- `m` starts with one of my cells, so nothing of the peer's is in front of it
    have hY : Y = [] := by
      cases Y with
      | nil => rfl
      | cons y ys =>
        exfalso
        have hy : y = me.other := h2 y (by simp)
        cases m with
        | nil => simp [leadRun] at hpos
        | cons x xs =>
          simp only [List.cons_append, List.cons.injEq] at h1
          have hx : x = me := by
            unfold leadRun at hpos; split at hpos
            · assumption
            · omega
          exact Side.other_ne me (by rw [← hy, ← h1.1, hx])
    subst hY
    simp at h1 h3
    left
    refine ⟨m.take j, ?_, hmine, ?_, h3.symm⟩
    · rw [← h1]; exact hsplit
    · simp [h4, hlen]

/-- `me` reads `j ≥ 1` handshake cells: its tape starts with the peer's cells that are in flight -/
theorem Align.read {me : Side} {m p : List Side} {a a' : Nat} (h : Align me m p a a')
    {j : Nat} (hj : j ≤ a') (hpos : 1 ≤ j) :
    Align me (m.drop j) p a (a' - j) := by
  rcases h with ⟨X, h1, h2, h3, h4⟩ | ⟨Y, h1, h2, h3, h4⟩
  · omega
  · right
    refine ⟨Y.drop j, ?_, ?_, ?_, h4⟩
    · rw [h1, List.drop_append_of_le_length (by omega)]
    · intro y hy; exact h2 y (List.mem_of_mem_drop hy)
    · simp [h3]

/-- when it is the peer's turn on my tape and nothing of the peer's is in flight, the peer has cells to send
or to wait for: its tape is mine with my in-flight cells in front -/
theorem Align.peer_tape_of_empty {me : Side} {m p : List Side} {a : Nat} (h : Align me m p a 0) :
    ∃ X, p = X ++ m ∧ (∀ x ∈ X, x = me) ∧ X.length = a := by
  rcases h with ⟨X, h1, h2, h3, _⟩ | ⟨Y, h1, _, h3, h4⟩
  · exact ⟨X, h1, h2, h3⟩
  · have : Y = [] := List.eq_nil_of_length_eq_zero h3
    subst this
    exact ⟨[], by simpa using h1.symm, by simp, by simpa using h4.symm⟩

/-- what I may ask for when it is the peer's turn: the run I need is covered by the handshake cells in
flight as soon as the peer has finished its tape -/
theorem Align.need_le {me : Side} {m : List Side} {a a' : Nat} (h : Align me m [] a a') :
    leadRun me.other m ≤ a' := by
  rcases h with ⟨X, h1, _, _, _⟩ | ⟨Y, h1, h2, h3, _⟩
  · have : m = [] := by
      have := congrArg List.length h1; simp at this; exact List.eq_nil_of_length_eq_zero (by omega)
    subst this; simp [leadRun]
  · simp at h1; subst h1
    rw [leadRun_all _ _ h2]; omega

end Compio.TlsShim
