/-
Helper lemmas about the timer wheel model (Model/Timer.lean). Core Lean only.
-/
import Compio.Model.Timer

namespace Compio.Timer

/-! ## the key order -/

theorem Key.lt_irrefl (a : Key) : ¬ a.lt a := by
  unfold Key.lt; omega

theorem Key.lt_trans {a b c : Key} (h1 : a.lt b) (h2 : b.lt c) : a.lt c := by
  unfold Key.lt at *; omega

theorem Key.lt_asymm {a b : Key} (h : a.lt b) : ¬ b.lt a := by
  unfold Key.lt at *; omega

theorem Key.ext' {a b : Key} (h1 : a.deadline = b.deadline) (h2 : a.gen = b.gen) : a = b := by
  cases a; cases b; simp_all

/-- the derived order is total -/
theorem Key.lt_total (a b : Key) : a.lt b ∨ a = b ∨ b.lt a := by
  by_cases h1 : a.deadline = b.deadline
  · by_cases h2 : a.gen = b.gen
    · exact Or.inr (Or.inl (Key.ext' h1 h2))
    · unfold Key.lt; omega
  · unfold Key.lt; omega

theorem Key.lt_deadline_le {a b : Key} (h : a.lt b) : a.deadline ≤ b.deadline := by
  unfold Key.lt at h; omega

theorem Key.ne_of_lt {a b : Key} (h : a.lt b) : a ≠ b := by
  intro e; subst e; exact Key.lt_irrefl a h

/-- below the split point of `wake` = deadline reached (and, exactly at the deadline, generation not `u64::MAX`) -/
theorem lt_splitKey_iff (k : Key) (now : Nat) :
    k.lt (splitKey now) ↔ k.deadline < now ∨ (k.deadline = now ∧ k.gen < u64Max) := by
  unfold Key.lt splitKey; simp

/-! ## sortedness -/

/-- the representation invariant of the map: keys strictly increasing -/
def Sorted (es : List Entry) : Prop := (keys es).Pairwise Key.lt

theorem keys_cons (e : Entry) (es : List Entry) : keys (e :: es) = e.1 :: keys es := rfl

theorem mem_keys {k : Key} {es : List Entry} : k ∈ keys es ↔ ∃ v, (k, v) ∈ es := by
  unfold keys
  constructor
  · intro h
    obtain ⟨e, he, rfl⟩ := List.mem_map.mp h
    exact ⟨e.2, he⟩
  · rintro ⟨v, hv⟩
    exact List.mem_map.mpr ⟨(k, v), hv, rfl⟩

theorem mem_keys_of_mem {e : Entry} {es : List Entry} (h : e ∈ es) : e.1 ∈ keys es :=
  List.mem_map.mpr ⟨e, h, rfl⟩

theorem sorted_nil : Sorted [] := by simp [Sorted, keys]

theorem sorted_cons {e : Entry} {es : List Entry} :
    Sorted (e :: es) ↔ (∀ k ∈ keys es, e.1.lt k) ∧ Sorted es := by
  simp [Sorted, keys_cons, List.pairwise_cons]

theorem Sorted.nodup {es : List Entry} (h : Sorted es) : (keys es).Nodup := by
  unfold Sorted at h
  exact h.imp (fun hab => Key.ne_of_lt hab)

theorem keys_filter_sublist (p : Entry → Bool) (es : List Entry) :
    (keys (es.filter p)).Sublist (keys es) := by
  unfold keys
  exact List.Sublist.map _ List.filter_sublist

theorem Sorted.filter {es : List Entry} (p : Entry → Bool) (h : Sorted es) : Sorted (es.filter p) :=
  List.Pairwise.sublist (keys_filter_sublist p es) h

/-- a sorted map holds one value per key -/
theorem sorted_unique_value {es : List Entry} (hs : Sorted es) {k : Key} {v1 v2 : Option Nat}
    (h1 : (k, v1) ∈ es) (h2 : (k, v2) ∈ es) : v1 = v2 := by
  induction es with
  | nil => simp at h1
  | cons e rest ih =>
    have ⟨hhead, hrest⟩ := sorted_cons.mp hs
    rw [List.mem_cons] at h1 h2
    rcases h1 with h1 | h1 <;> rcases h2 with h2 | h2
    · rw [← h2] at h1
      exact (Prod.mk.inj h1).2
    · have := hhead k (mem_keys_of_mem h2)
      rw [← h1] at this
      exact absurd this (Key.lt_irrefl k)
    · have := hhead k (mem_keys_of_mem h1)
      rw [← h2] at this
      exact absurd this (Key.lt_irrefl k)
    · exact ih hrest h1 h2

/-! ## `insertEntry` -/

theorem mem_keys_insertEntry (k : Key) (v : Option Nat) (es : List Entry) (k' : Key) :
    k' ∈ keys (insertEntry k v es) ↔ k' = k ∨ k' ∈ keys es := by
  induction es with
  | nil => simp [insertEntry, keys]
  | cons e rest ih =>
    obtain ⟨ke, ve⟩ := e
    unfold insertEntry
    split
    · simp [keys]
    · split
      · rename_i _ heq
        subst heq
        simp [keys]
      · rw [keys_cons, List.mem_cons, ih, keys_cons, List.mem_cons]
        simp only []
        constructor
        · rintro (h | h | h)
          · exact Or.inr (Or.inl h)
          · exact Or.inl h
          · exact Or.inr (Or.inr h)
        · rintro (h | h | h)
          · exact Or.inr (Or.inl h)
          · exact Or.inl h
          · exact Or.inr (Or.inr h)

theorem sorted_insertEntry (k : Key) (v : Option Nat) (es : List Entry) (h : Sorted es) :
    Sorted (insertEntry k v es) := by
  induction es with
  | nil => simp [insertEntry, Sorted, keys]
  | cons e rest ih =>
    obtain ⟨ke, ve⟩ := e
    have ⟨hhead, hrest⟩ := sorted_cons.mp h
    simp only [] at hhead
    unfold insertEntry
    split
    · rename_i hlt
      refine sorted_cons.mpr ⟨?_, h⟩
      intro k' hk'
      rw [keys_cons, List.mem_cons] at hk'
      rcases hk' with rfl | hk'
      · exact hlt
      · exact Key.lt_trans hlt (hhead k' hk')
    · split
      · rename_i _ heq
        subst heq
        exact sorted_cons.mpr ⟨hhead, hrest⟩
      · rename_i hnlt hne
        refine sorted_cons.mpr ⟨?_, ih hrest⟩
        intro k' hk'
        rw [mem_keys_insertEntry] at hk'
        rcases hk' with rfl | hk'
        · rcases Key.lt_total k' ke with h1 | h1 | h1
          · exact absurd h1 hnlt
          · exact absurd h1 hne
          · exact h1
        · exact hhead k' hk'

/-- entries other than the inserted key are untouched (with their wakers) -/
theorem mem_insertEntry_of_ne (k : Key) (v : Option Nat) (es : List Entry) (e : Entry) (hne : e.1 ≠ k) :
    e ∈ insertEntry k v es ↔ e ∈ es := by
  induction es with
  | nil =>
    simp only [insertEntry, List.mem_singleton, List.not_mem_nil, iff_false]
    intro h; exact hne (by rw [h])
  | cons e0 rest ih =>
    obtain ⟨ke, ve⟩ := e0
    unfold insertEntry
    split
    · rw [List.mem_cons]
      constructor
      · rintro (h | h)
        · exact absurd (by rw [h]) hne
        · exact h
      · exact Or.inr
    · split
      · rename_i _ heq
        subst heq
        simp only [List.mem_cons]
        constructor
        · rintro (h | h)
          · exact absurd (by rw [h]) hne
          · exact Or.inr h
        · rintro (h | h)
          · exact absurd (by rw [h]) hne
          · exact Or.inr h
      · simp only [List.mem_cons, ih]

theorem mem_insertEntry_self (k : Key) (v : Option Nat) (es : List Entry) : (k, v) ∈ insertEntry k v es := by
  induction es with
  | nil => simp [insertEntry]
  | cons e0 rest ih =>
    obtain ⟨ke, ve⟩ := e0
    unfold insertEntry
    split
    · simp
    · split
      · simp
      · exact List.mem_cons_of_mem _ ih

/-! ## `lookup` / `setValue` -/

theorem keys_setValue (k : Key) (v : Option Nat) (es : List Entry) : keys (setValue k v es) = keys es := by
  induction es with
  | nil => rfl
  | cons e rest ih =>
    obtain ⟨ke, ve⟩ := e
    unfold setValue
    split
    · rfl
    · rw [keys_cons, keys_cons, ih]

theorem lookup_none_iff (k : Key) (es : List Entry) : lookup k es = none ↔ k ∉ keys es := by
  induction es with
  | nil => simp [lookup, keys]
  | cons e rest ih =>
    obtain ⟨ke, ve⟩ := e
    unfold lookup
    split
    · rename_i heq
      subst heq
      simp [keys]
    · rename_i hne
      rw [ih, keys_cons, List.mem_cons]
      simp only []
      constructor
      · intro h1 h2
        rcases h2 with h2 | h2
        · exact hne h2
        · exact h1 h2
      · intro h1 h2
        exact h1 (Or.inr h2)

theorem lookup_setValue_self (k : Key) (v : Option Nat) (es : List Entry) (h : k ∈ keys es) :
    lookup k (setValue k v es) = some v := by
  induction es with
  | nil => simp [keys] at h
  | cons e rest ih =>
    obtain ⟨ke, ve⟩ := e
    unfold setValue
    split
    · rename_i heq
      simp [lookup, heq]
    · rename_i hne
      rw [keys_cons, List.mem_cons] at h
      rcases h with h | h
      · exact absurd h hne
      · simp only [lookup, hne, if_false]
        exact ih h

theorem lookup_setValue_ne (k k' : Key) (v : Option Nat) (es : List Entry) (hne : k' ≠ k) :
    lookup k' (setValue k v es) = lookup k' es := by
  induction es with
  | nil => rfl
  | cons e rest ih =>
    obtain ⟨ke, ve⟩ := e
    unfold setValue
    split
    · rename_i heq
      subst heq
      simp [lookup, hne]
    · simp only [lookup]
      split
      · rfl
      · exact ih

/-! ## single operations: keys and generation -/

theorem isCompleted_iff (w : Wheel) (k : Key) : isCompleted w k = true ↔ k ∉ keys w.entries := by
  simp [isCompleted]

theorem isCompleted_false_iff (w : Wheel) (k : Key) : isCompleted w k = false ↔ k ∈ keys w.entries := by
  simp [isCompleted]

theorem updateWaker_keys (w : Wheel) (k : Key) (wk : Nat) :
    keys (updateWaker w k wk).entries = keys w.entries := by
  unfold updateWaker
  split
  · rfl
  · split
    · rfl
    · exact keys_setValue _ _ _
  · exact keys_setValue _ _ _

theorem updateWaker_gen (w : Wheel) (k : Key) (wk : Nat) : (updateWaker w k wk).gen = w.gen := by
  unfold updateWaker
  split
  · rfl
  · split <;> rfl
  · rfl

theorem cancel_gen (w : Wheel) (k : Key) : (cancel w k).gen = w.gen := rfl

theorem mem_cancel (w : Wheel) (k : Key) (e : Entry) :
    e ∈ (cancel w k).entries ↔ e ∈ w.entries ∧ e.1 ≠ k := by
  simp [cancel]

theorem mem_keys_cancel (w : Wheel) (k k' : Key) :
    k' ∈ keys (cancel w k).entries ↔ k' ∈ keys w.entries ∧ k' ≠ k := by
  rw [mem_keys, mem_keys]
  constructor
  · rintro ⟨v, hv⟩
    have := (mem_cancel w k (k', v)).mp hv
    exact ⟨⟨v, this.1⟩, this.2⟩
  · rintro ⟨⟨v, hv⟩, hne⟩
    exact ⟨v, (mem_cancel w k (k', v)).mpr ⟨hv, hne⟩⟩

theorem pollTimer_keys (w : Wheel) (k : Key) (wk : Nat) :
    keys (pollTimer w k wk).1.entries = keys w.entries := by
  unfold pollTimer
  split
  · rfl
  · exact updateWaker_keys _ _ _

theorem pollTimer_gen (w : Wheel) (k : Key) (wk : Nat) : (pollTimer w k wk).1.gen = w.gen := by
  unfold pollTimer
  split
  · rfl
  · exact updateWaker_gen _ _ _

theorem pollTimer_ready (w : Wheel) (k : Key) (wk : Nat) :
    (pollTimer w k wk).2 = isCompleted w k := by
  unfold pollTimer
  split <;> simp_all

/-! ### insert -/

theorem insert_due (w : Wheel) (now d : Nat) (h : d ≤ now) : insert w now d = (w, .none) := by
  simp [insert, h]

theorem insert_ok (w : Wheel) (now d : Nat) (h : now < d) (hg : w.gen < u64Max) :
    insert w now d = (⟨w.gen + 1, insertEntry ⟨d, w.gen⟩ none w.entries⟩, .some ⟨d, w.gen⟩) := by
  have h1 : ¬ d ≤ now := by omega
  have h2 : ¬ w.gen ≥ u64Max := by omega
  simp [insert, h1, h2]

theorem insert_panic (w : Wheel) (now d : Nat) (h : now < d) (hg : u64Max ≤ w.gen) :
    insert w now d = ({ w with entries := insertEntry ⟨d, w.gen⟩ none w.entries }, .panic) := by
  have h1 : ¬ d ≤ now := by omega
  simp [insert, h1, hg]

theorem insert_gen_le (w : Wheel) (now d : Nat) : w.gen ≤ (insert w now d).1.gen := by
  unfold insert
  split
  · exact Nat.le_refl _
  · simp only []
    split
    · exact Nat.le_refl _
    · exact Nat.le_succ _

/-- the keys after an insert: the old ones plus possibly the key `⟨d, old generation⟩` -/
theorem mem_keys_insert (w : Wheel) (now d : Nat) (k : Key) :
    k ∈ keys (insert w now d).1.entries ↔
      k ∈ keys w.entries ∨ (now < d ∧ k = ⟨d, w.gen⟩) := by
  unfold insert
  split
  · rename_i h
    constructor
    · exact Or.inl
    · rintro (h' | ⟨h', _⟩)
      · exact h'
      · omega
  · rename_i h
    have hlt : now < d := by omega
    simp only []
    split <;>
    · simp only [mem_keys_insertEntry]
      constructor
      · rintro (h' | h')
        · exact Or.inr ⟨hlt, h'⟩
        · exact Or.inl h'
      · rintro (h' | ⟨_, h'⟩)
        · exact Or.inr h'
        · exact Or.inl h'

theorem insert_sorted (w : Wheel) (now d : Nat) (h : Sorted w.entries) : Sorted (insert w now d).1.entries := by
  unfold insert
  split
  · exact h
  · simp only []
    split <;> exact sorted_insertEntry _ _ _ h

/-! ### wake -/

theorem wake_gen (w : Wheel) (now : Nat) : (wake w now).1.gen = w.gen := by
  unfold wake
  split <;> rfl

theorem mem_wake_pending (w : Wheel) (now : Nat) (e : Entry) :
    e ∈ (wake w now).1.entries ↔ e ∈ w.entries ∧ ¬ e.1.lt (splitKey now) := by
  unfold wake
  split
  · rename_i h
    have : w.entries = [] := by simpa using h
    simp [this]
  · simp

theorem mem_wake_expired (w : Wheel) (now : Nat) (e : Entry) :
    e ∈ (wake w now).2 ↔ e ∈ w.entries ∧ e.1.lt (splitKey now) := by
  unfold wake
  split
  · rename_i h
    have : w.entries = [] := by simpa using h
    simp [this]
  · simp

theorem mem_keys_wake (w : Wheel) (now : Nat) (k : Key) :
    k ∈ keys (wake w now).1.entries ↔ k ∈ keys w.entries ∧ ¬ k.lt (splitKey now) := by
  rw [mem_keys, mem_keys]
  constructor
  · rintro ⟨v, hv⟩
    have := (mem_wake_pending w now (k, v)).mp hv
    exact ⟨⟨v, this.1⟩, this.2⟩
  · rintro ⟨⟨v, hv⟩, hn⟩
    exact ⟨v, (mem_wake_pending w now (k, v)).mpr ⟨hv, hn⟩⟩

theorem wake_sorted (w : Wheel) (now : Nat) (h : Sorted w.entries) : Sorted (wake w now).1.entries := by
  unfold wake
  split
  · exact h
  · exact Sorted.filter _ h

/-- On a sorted list a downward-closed predicate cuts the list in two: `filter p ++ filter ¬p`. -/
theorem filter_split_sorted (p : Entry → Bool) (es : List Entry) (hs : Sorted es)
    (hp : ∀ a b : Entry, a.1.lt b.1 → p b = true → p a = true) :
    es.filter p ++ es.filter (fun e => !p e) = es := by
  induction es with
  | nil => rfl
  | cons e rest ih =>
    have ⟨hhead, hrest⟩ := sorted_cons.mp hs
    by_cases hpe : p e = true
    · simp only [List.filter_cons, hpe, if_true, Bool.not_true, List.cons_append]
      simp only [Bool.false_eq_true, if_false]
      rw [ih hrest]
    · have hall : ∀ x ∈ rest, p x = false := by
        intro x hx
        cases hpx : p x with
        | false => rfl
        | true => exact absurd (hp e x (hhead x.1 (mem_keys_of_mem hx)) hpx) hpe
      have h1 : rest.filter p = [] := by
        rw [List.filter_eq_nil_iff]
        intro x hx
        simp [hall x hx]
      have h2 : rest.filter (fun e => !p e) = rest := by
        rw [List.filter_eq_self]
        intro x hx
        simp [hall x hx]
      have hpe' : p e = false := by simpa using hpe
      simp [hpe', h1, h2]

/-- `wake` cuts the sorted map in two: the expired prefix and the pending suffix; nothing is lost,
nothing duplicated, order kept. -/
theorem wake_partition (w : Wheel) (now : Nat) (hs : Sorted w.entries) :
    (wake w now).2 ++ (wake w now).1.entries = w.entries := by
  unfold wake
  split
  · rename_i h
    have : w.entries = [] := by simpa using h
    simp [this]
  · simp only []
    have := filter_split_sorted (fun e => decide (e.1.lt (splitKey now))) w.entries hs (by
      intro a b hab hb
      simp only [decide_eq_true_eq] at *
      exact Key.lt_trans hab hb)
    simpa using this

/-! ## the invariant -/

/-- What holds of a wheel as long as no `insert` has panicked. -/
structure WF (w : Wheel) : Prop where
  sorted : Sorted w.entries
  /-- every key in the map was issued before: its generation is below the counter -/
  fresh : ∀ k ∈ keys w.entries, k.gen < w.gen
  bound : w.gen ≤ u64Max

theorem WF.new : WF Wheel.new := ⟨sorted_nil, by simp [Wheel.new, keys], by simp [Wheel.new]⟩

theorem WF.insert {w : Wheel} (h : WF w) (now d : Nat) (hnp : (insert w now d).2 ≠ .panic) :
    WF (insert w now d).1 := by
  refine ⟨insert_sorted w now d h.sorted, ?_, ?_⟩
  · intro k hk
    rw [mem_keys_insert] at hk
    have hge := insert_gen_le w now d
    rcases hk with hk | ⟨hlt, rfl⟩
    · exact Nat.lt_of_lt_of_le (h.fresh k hk) hge
    · by_cases hg : w.gen < u64Max
      · rw [insert_ok w now d hlt hg]; simp
      · rw [insert_panic w now d hlt (by omega)] at hnp
        exact absurd rfl hnp
  · by_cases hd : d ≤ now
    · rw [insert_due w now d hd]; exact h.bound
    · by_cases hg : w.gen < u64Max
      · rw [insert_ok w now d (by omega) hg]; simp only []; omega
      · rw [insert_panic w now d (by omega) (by omega)]; exact h.bound

theorem WF.updateWaker {w : Wheel} (h : WF w) (k : Key) (wk : Nat) : WF (updateWaker w k wk) := by
  refine ⟨?_, ?_, ?_⟩
  · unfold Sorted; rw [updateWaker_keys]; exact h.sorted
  · rw [updateWaker_keys, updateWaker_gen]; exact h.fresh
  · rw [updateWaker_gen]; exact h.bound

theorem WF.cancel {w : Wheel} (h : WF w) (k : Key) : WF (cancel w k) := by
  refine ⟨Sorted.filter _ h.sorted, ?_, h.bound⟩
  intro k' hk'
  exact h.fresh k' ((mem_keys_cancel w k k').mp hk').1

theorem WF.wake {w : Wheel} (h : WF w) (now : Nat) : WF (wake w now).1 := by
  refine ⟨wake_sorted w now h.sorted, ?_, ?_⟩
  · intro k hk
    rw [wake_gen]
    exact h.fresh k ((mem_keys_wake w now k).mp hk).1
  · rw [wake_gen]; exact h.bound

theorem WF.pollTimer {w : Wheel} (h : WF w) (k : Key) (wk : Nat) : WF (pollTimer w k wk).1 := by
  unfold Timer.pollTimer
  split
  · exact h
  · exact h.updateWaker k wk

/-! ## worlds -/

theorem step_now_le (s : World) (op : Op) : s.now ≤ (step s op).1.now := by
  cases op <;> simp [step]

theorem run_now_le (s : World) (ops : List Op) : s.now ≤ (run s ops).now := by
  induction ops generalizing s with
  | nil => exact Nat.le_refl _
  | cons op rest ih => exact Nat.le_trans (step_now_le s op) (ih _)

theorem step_gen_le (s : World) (op : Op) : s.wheel.gen ≤ (step s op).1.wheel.gen := by
  cases op with
  | insert d => exact insert_gen_le _ _ _
  | updateWaker k wk => simp [step, updateWaker_gen]
  | cancel k => simp [step, cancel_gen]
  | wake => simp [step, wake_gen]
  | pollTimer k wk => simp [step, pollTimer_gen]
  | advance dt => simp [step]

theorem run_gen_le (s : World) (ops : List Op) : s.wheel.gen ≤ (run s ops).wheel.gen := by
  induction ops generalizing s with
  | nil => exact Nat.le_refl _
  | cons op rest ih => exact Nat.le_trans (step_gen_le s op) (ih _)

theorem run_append (s : World) (a b : List Op) : run s (a ++ b) = run (run s a) b := by
  induction a generalizing s with
  | nil => rfl
  | cons op rest ih => exact ih _

theorem step_sorted (s : World) (op : Op) (h : Sorted s.wheel.entries) :
    Sorted (step s op).1.wheel.entries := by
  cases op with
  | insert d => exact insert_sorted _ _ _ h
  | updateWaker k wk => unfold Sorted; simp only [step]; rw [updateWaker_keys]; exact h
  | cancel k => exact Sorted.filter _ h
  | wake => exact wake_sorted _ _ h
  | pollTimer k wk => unfold Sorted; simp only [step]; rw [pollTimer_keys]; exact h
  | advance dt => exact h

theorem step_wf (s : World) (op : Op) (h : WF s.wheel) (hnp : (step s op).2 ≠ .ins .panic) :
    WF (step s op).1.wheel := by
  cases op with
  | insert d =>
    apply h.insert
    intro hp
    apply hnp
    simp [step, hp]
  | updateWaker k wk => exact h.updateWaker k wk
  | cancel k => exact h.cancel k
  | wake => exact h.wake _
  | pollTimer k wk => exact h.pollTimer k wk
  | advance dt => exact h

/-- the keys handed out by the `insert`s of a run -/
def issued : List Out → List Key
  | [] => []
  | .ins (.some k) :: rest => k :: issued rest
  | _ :: rest => issued rest

/-- a key that is in the map leaves it only by `cancel` of that very key, or by a `wake` at or
after its deadline -/
theorem key_leaves (s : World) (op : Op) (k : Key) (hin : k ∈ keys s.wheel.entries)
    (hout : k ∉ keys (step s op).1.wheel.entries) :
    op = .cancel k ∨ (op = .wake ∧ k.deadline ≤ s.now) := by
  cases op with
  | insert d =>
    exact absurd ((mem_keys_insert _ _ _ _).mpr (Or.inl hin)) hout
  | updateWaker k' wk =>
    simp only [step] at hout
    rw [updateWaker_keys] at hout
    exact absurd hin hout
  | cancel k' =>
    simp only [step] at hout
    rw [mem_keys_cancel] at hout
    by_cases hk : k = k'
    · subst hk; exact Or.inl rfl
    · exact absurd ⟨hin, hk⟩ hout
  | wake =>
    simp only [step] at hout
    rw [mem_keys_wake] at hout
    have hlt : k.lt (splitKey s.now) := by
      apply Classical.byContradiction
      intro hn
      exact hout ⟨hin, hn⟩
    rw [lt_splitKey_iff] at hlt
    exact Or.inr ⟨rfl, by omega⟩
  | pollTimer k' wk =>
    simp only [step] at hout
    rw [pollTimer_keys] at hout
    exact absurd hin hout
  | advance dt =>
    exact absurd hin hout

/-- a key that is not in the map and was issued before never (re)appears -/
theorem absent_step (s : World) (op : Op) (k : Key) (hout : k ∉ keys s.wheel.entries)
    (hg : k.gen < s.wheel.gen) : k ∉ keys (step s op).1.wheel.entries := by
  cases op with
  | insert d =>
    simp only [step]
    rw [mem_keys_insert]
    rintro (h | ⟨_, rfl⟩)
    · exact hout h
    · simp at hg
  | updateWaker k' wk => simp only [step]; rw [updateWaker_keys]; exact hout
  | cancel k' => simp only [step]; rw [mem_keys_cancel]; exact fun h => hout h.1
  | wake => simp only [step]; rw [mem_keys_wake]; exact fun h => hout h.1
  | pollTimer k' wk => simp only [step]; rw [pollTimer_keys]; exact hout
  | advance dt => exact hout

theorem absent_run (s : World) (ops : List Op) (k : Key) (hout : k ∉ keys s.wheel.entries)
    (hg : k.gen < s.wheel.gen) : k ∉ keys (run s ops).wheel.entries := by
  induction ops generalizing s with
  | nil => exact hout
  | cons op rest ih =>
    exact ih _ (absent_step s op k hout hg) (Nat.lt_of_lt_of_le hg (step_gen_le s op))

/-- "still registered, or the deadline has been reached" -/
def Inv (k : Key) (s : World) : Prop := k ∈ keys s.wheel.entries ∨ k.deadline ≤ s.now

theorem inv_step (s : World) (op : Op) (k : Key) (h : Inv k s) (hc : op ≠ .cancel k) :
    Inv k (step s op).1 := by
  rcases h with h | h
  · by_cases hin : k ∈ keys (step s op).1.wheel.entries
    · exact Or.inl hin
    · rcases key_leaves s op k h hin with h1 | ⟨_, h1⟩
      · exact absurd h1 hc
      · exact Or.inr (Nat.le_trans h1 (step_now_le s op))
  · exact Or.inr (Nat.le_trans h (step_now_le s op))

theorem inv_run (s : World) (ops : List Op) (k : Key) (h : Inv k s) (hc : Op.cancel k ∉ ops) :
    Inv k (run s ops) := by
  induction ops generalizing s with
  | nil => exact h
  | cons op rest ih =>
    apply ih
    · exact inv_step s op k h (fun e => hc (by rw [e]; exact List.mem_cons_self))
    · exact fun hm => hc (List.mem_cons_of_mem _ hm)

/-- `ka` has left the wheel whenever `kb` has -/
def Before (ka kb : Key) (s : World) : Prop :=
  kb ∉ keys s.wheel.entries → ka ∉ keys s.wheel.entries

theorem before_step (s : World) (op : Op) (ka kb : Key) (hwf : WF s.wheel)
    (hd : ka.deadline ≤ kb.deadline) (hga : ka.gen < s.wheel.gen) (h : Before ka kb s)
    (hc : op ≠ .cancel kb) : Before ka kb (step s op).1 := by
  intro hout
  by_cases hin : kb ∈ keys s.wheel.entries
  · rcases key_leaves s op kb hin hout with h1 | ⟨h1, h2⟩
    · exact absurd h1 hc
    · subst h1
      intro hka
      have hlt : s.now < ka.deadline := by
        have := (mem_keys_wake s.wheel s.now ka).mp (by simpa [step] using hka)
        have hf := hwf.fresh ka this.1
        have hb := hwf.bound
        have hn := this.2
        rw [lt_splitKey_iff] at hn
        omega
      omega
  · exact absent_step s op ka (h hin) hga

theorem before_run (s : World) (ops : List Op) (ka kb : Key) (hwf : WF s.wheel)
    (hnp : Out.ins .panic ∉ outs s ops)
    (hd : ka.deadline ≤ kb.deadline) (hga : ka.gen < s.wheel.gen) (h : Before ka kb s)
    (hc : Op.cancel kb ∉ ops) : Before ka kb (run s ops) := by
  induction ops generalizing s with
  | nil => exact h
  | cons op rest ih =>
    simp only [outs, List.mem_cons, not_or] at hnp
    apply ih
    · exact step_wf s op hwf (fun e => hnp.1 e.symm)
    · exact hnp.2
    · exact Nat.lt_of_lt_of_le hga (step_gen_le s op)
    · exact before_step s op ka kb hwf hd hga h (fun e => hc (by rw [e]; exact List.mem_cons_self))
    · exact fun hm => hc (List.mem_cons_of_mem _ hm)

/-! ## `Sleep` and `Timeout` -/

/-- what a poll of the sleep will find: no timer was needed, or the key has left the wheel -/
def sleepDone (w : Wheel) (s : Sleep) : Bool :=
  match s.key with
  | none => true
  | some k => isCompleted w k

theorem Sleep.poll_ready (w : Wheel) (s : Sleep) (wk : Nat) : (Sleep.poll w s wk).2 = sleepDone w s := by
  unfold Sleep.poll sleepDone
  cases s.key with
  | none => rfl
  | some k => exact pollTimer_ready _ _ _

theorem Sleep.poll_keys (w : Wheel) (s : Sleep) (wk : Nat) :
    keys (Sleep.poll w s wk).1.entries = keys w.entries := by
  unfold Sleep.poll
  split
  · rfl
  · exact pollTimer_keys _ _ _

theorem Sleep.poll_gen (w : Wheel) (s : Sleep) (wk : Nat) : (Sleep.poll w s wk).1.gen = w.gen := by
  unfold Sleep.poll
  split
  · rfl
  · exact pollTimer_gen _ _ _

theorem Sleep.poll_wf {w : Wheel} (h : WF w) (s : Sleep) (wk : Nat) : WF (Sleep.poll w s wk).1 := by
  unfold Sleep.poll
  split
  · exact h
  · exact h.pollTimer _ _

theorem Timeout.poll_result (w : Wheel) (s : Sleep) (inner : Bool) (wk : Nat) :
    (Timeout.poll w s inner wk).2 =
      if inner then .ok else if sleepDone w s then .elapsed else .pending := by
  unfold Timeout.poll
  cases inner with
  | true => simp
  | false =>
    simp only [Bool.false_eq_true, if_false]
    rw [← Sleep.poll_ready w s wk]
    cases h : Sleep.poll w s wk with
    | mk w' r => cases r <;> simp

theorem Timeout.poll_wheel (w : Wheel) (s : Sleep) (inner : Bool) (wk : Nat) :
    (Timeout.poll w s inner wk).1 = if inner then w else (Sleep.poll w s wk).1 := by
  unfold Timeout.poll
  cases inner with
  | true => simp
  | false =>
    simp only [Bool.false_eq_true, if_false]
    cases h : Sleep.poll w s wk with
    | mk w' r => cases r <;> simp

/-- the world right after a (pending or elapsed) poll of the sleep -/
def afterPoll (s : World) (slp : Sleep) (wk : Nat) : World := ⟨s.now, (Sleep.poll s.wheel slp wk).1⟩

theorem Timeout.drive_nil (s : World) (slp : Sleep) (wk : Nat) :
    Timeout.drive s slp wk [] = (s, .pending) := rfl

theorem Timeout.drive_ok (s : World) (slp : Sleep) (wk : Nat) (ops : List Op)
    (rest : List (List Op × Bool)) :
    Timeout.drive s slp wk ((ops, true) :: rest) = (run s ops, .ok) := by
  simp [Timeout.drive, Timeout.poll]

theorem Timeout.drive_elapsed (s : World) (slp : Sleep) (wk : Nat) (ops : List Op)
    (rest : List (List Op × Bool)) (hd : sleepDone (run s ops).wheel slp = true) :
    Timeout.drive s slp wk ((ops, false) :: rest) = (afterPoll (run s ops) slp wk, .elapsed) := by
  have h1 := Timeout.poll_result (run s ops).wheel slp false wk
  have h2 := Timeout.poll_wheel (run s ops).wheel slp false wk
  simp only [Bool.false_eq_true, if_false, hd, if_true] at h1 h2
  unfold Timeout.drive
  simp only []
  cases h : Timeout.poll (run s ops).wheel slp false wk with
  | mk w r =>
    rw [h] at h1 h2
    simp only [] at h1 h2
    subst h1 h2
    rfl

theorem Timeout.drive_pending (s : World) (slp : Sleep) (wk : Nat) (ops : List Op)
    (rest : List (List Op × Bool)) (hd : sleepDone (run s ops).wheel slp = false) :
    Timeout.drive s slp wk ((ops, false) :: rest) =
      Timeout.drive (afterPoll (run s ops) slp wk) slp wk rest := by
  have h1 := Timeout.poll_result (run s ops).wheel slp false wk
  have h2 := Timeout.poll_wheel (run s ops).wheel slp false wk
  simp only [Bool.false_eq_true, if_false, hd] at h1 h2
  conv => lhs; unfold Timeout.drive
  simp only []
  cases h : Timeout.poll (run s ops).wheel slp false wk with
  | mk w r =>
    rw [h] at h1 h2
    simp only [] at h1 h2
    subst h1 h2
    rfl

/-- the world in which poll number `j` of the timeout happens, if all earlier polls were pending -/
def worldAt (s : World) (slp : Sleep) (wk : Nat) : List (List Op × Bool) → Nat → World
  | [], _ => s
  | (ops, _) :: _, 0 => run s ops
  | (ops, _) :: rest, j + 1 => worldAt (afterPoll (run s ops) slp wk) slp wk rest j

/-- all polls before poll `i` found the inner future pending and the sleep not expired -/
def PendingBefore (s : World) (slp : Sleep) (wk : Nat) (rounds : List (List Op × Bool)) (i : Nat) : Prop :=
  ∀ j, j < i → (∃ ops, rounds[j]? = some (ops, false)) ∧
    sleepDone (worldAt s slp wk rounds j).wheel slp = false

theorem pendingBefore_zero (s : World) (slp : Sleep) (wk : Nat) (rounds : List (List Op × Bool)) :
    PendingBefore s slp wk rounds 0 := by
  intro j hj; omega

theorem pendingBefore_succ (s : World) (slp : Sleep) (wk : Nat) (ops : List Op) (b : Bool)
    (rest : List (List Op × Bool)) (i : Nat) :
    PendingBefore s slp wk ((ops, b) :: rest) (i + 1) ↔
      (b = false ∧ sleepDone (run s ops).wheel slp = false) ∧
        PendingBefore (afterPoll (run s ops) slp wk) slp wk rest i := by
  constructor
  · intro h
    refine ⟨?_, ?_⟩
    · have h0 := h 0 (by omega)
      obtain ⟨⟨ops', ho⟩, hd⟩ := h0
      simp only [List.getElem?_cons_zero, Option.some.injEq, Prod.mk.injEq] at ho
      exact ⟨ho.2, hd⟩
    · intro j hj
      have hj' := h (j + 1) (by omega)
      simpa [worldAt] using hj'
  · rintro ⟨⟨hb, hd⟩, hrest⟩ j hj
    cases j with
    | zero =>
      subst hb
      exact ⟨⟨ops, by simp⟩, hd⟩
    | succ j =>
      have := hrest j (by omega)
      simpa [worldAt] using this

theorem Timeout.drive_ok_iff (s : World) (slp : Sleep) (wk : Nat) (rounds : List (List Op × Bool)) :
    (Timeout.drive s slp wk rounds).2 = .ok ↔
      ∃ i ops, rounds[i]? = some (ops, true) ∧ PendingBefore s slp wk rounds i := by
  induction rounds generalizing s with
  | nil => simp [Timeout.drive_nil]
  | cons r rest ih =>
    obtain ⟨ops, b⟩ := r
    cases b with
    | true =>
      rw [Timeout.drive_ok]
      simp only [true_iff]
      exact ⟨0, ops, by simp, pendingBefore_zero _ _ _ _⟩
    | false =>
      cases hd : sleepDone (run s ops).wheel slp with
      | true =>
        rw [Timeout.drive_elapsed _ _ _ _ _ hd]
        simp only [reduceCtorEq, false_iff]
        rintro ⟨i, ops', hi, hp⟩
        cases i with
        | zero => simp at hi
        | succ i =>
          have := ((pendingBefore_succ s slp wk ops false rest i).mp hp).1.2
          rw [hd] at this
          exact absurd this (by simp)
      | false =>
        rw [Timeout.drive_pending _ _ _ _ _ hd, ih]
        constructor
        · rintro ⟨i, ops', hi, hp⟩
          refine ⟨i + 1, ops', by simpa using hi, ?_⟩
          exact (pendingBefore_succ s slp wk ops false rest i).mpr ⟨⟨rfl, hd⟩, hp⟩
        · rintro ⟨i, ops', hi, hp⟩
          cases i with
          | zero => simp at hi
          | succ i =>
            exact ⟨i, ops', by simpa using hi, ((pendingBefore_succ s slp wk ops false rest i).mp hp).2⟩

theorem Timeout.drive_elapsed_iff (s : World) (slp : Sleep) (wk : Nat) (rounds : List (List Op × Bool)) :
    (Timeout.drive s slp wk rounds).2 = .elapsed ↔
      ∃ i ops, rounds[i]? = some (ops, false) ∧
        sleepDone (worldAt s slp wk rounds i).wheel slp = true ∧ PendingBefore s slp wk rounds i := by
  induction rounds generalizing s with
  | nil => simp [Timeout.drive_nil]
  | cons r rest ih =>
    obtain ⟨ops, b⟩ := r
    cases b with
    | true =>
      rw [Timeout.drive_ok]
      simp only [reduceCtorEq, false_iff]
      rintro ⟨i, ops', hi, _, hp⟩
      cases i with
      | zero => simp at hi
      | succ i =>
        have := ((pendingBefore_succ s slp wk ops true rest i).mp hp).1.1
        exact absurd this (by simp)
    | false =>
      cases hd : sleepDone (run s ops).wheel slp with
      | true =>
        rw [Timeout.drive_elapsed _ _ _ _ _ hd]
        simp only [true_iff]
        exact ⟨0, ops, by simp, by simpa [worldAt] using hd, pendingBefore_zero _ _ _ _⟩
      | false =>
        rw [Timeout.drive_pending _ _ _ _ _ hd, ih]
        constructor
        · rintro ⟨i, ops', hi, hdone, hp⟩
          refine ⟨i + 1, ops', by simpa using hi, by simpa [worldAt] using hdone, ?_⟩
          exact (pendingBefore_succ s slp wk ops false rest i).mpr ⟨⟨rfl, hd⟩, hp⟩
        · rintro ⟨i, ops', hi, hdone, hp⟩
          cases i with
          | zero =>
            simp only [worldAt] at hdone
            rw [hd] at hdone
            exact absurd hdone (by simp)
          | succ i =>
            exact ⟨i, ops', by simpa using hi, by simpa [worldAt] using hdone,
              ((pendingBefore_succ s slp wk ops false rest i).mp hp).2⟩

theorem inv_afterPoll (k : Key) (s : World) (slp : Sleep) (wk : Nat) (h : Inv k s) :
    Inv k (afterPoll s slp wk) := by
  unfold Inv afterPoll at *
  simp only []
  rw [Sleep.poll_keys]
  exact h

/-- while nobody cancels `k`, "registered or due" survives a whole `drive` -/
theorem Timeout.drive_inv (k : Key) (s : World) (slp : Sleep) (wk : Nat)
    (rounds : List (List Op × Bool)) (h : Inv k s) (hc : ∀ r ∈ rounds, Op.cancel k ∉ r.1) :
    Inv k (Timeout.drive s slp wk rounds).1 := by
  induction rounds generalizing s with
  | nil => exact h
  | cons r rest ih =>
    obtain ⟨ops, b⟩ := r
    have h1 : Inv k (run s ops) := inv_run s ops k h (hc (ops, b) List.mem_cons_self)
    cases b with
    | true => rw [Timeout.drive_ok]; exact h1
    | false =>
      cases hd : sleepDone (run s ops).wheel slp with
      | true => rw [Timeout.drive_elapsed _ _ _ _ _ hd]; exact inv_afterPoll k _ slp wk h1
      | false =>
        rw [Timeout.drive_pending _ _ _ _ _ hd]
        exact ih _ (inv_afterPoll k _ slp wk h1) (fun r hr => hc r (List.mem_cons_of_mem _ hr))

/-- when `drive` ends with `Elapsed`, the sleep is expired in the final world -/
theorem Timeout.drive_elapsed_done (s : World) (slp : Sleep) (wk : Nat)
    (rounds : List (List Op × Bool)) (h : (Timeout.drive s slp wk rounds).2 = .elapsed) :
    sleepDone (Timeout.drive s slp wk rounds).1.wheel slp = true := by
  induction rounds generalizing s with
  | nil => simp [Timeout.drive_nil] at h
  | cons r rest ih =>
    obtain ⟨ops, b⟩ := r
    cases b with
    | true => rw [Timeout.drive_ok] at h; simp at h
    | false =>
      cases hd : sleepDone (run s ops).wheel slp with
      | true =>
        rw [Timeout.drive_elapsed _ _ _ _ _ hd]
        unfold sleepDone afterPoll at *
        simp only []
        split
        · rfl
        · rename_i k hk
          rw [hk] at hd
          simp only [] at hd
          rw [isCompleted_iff] at *
          rw [Sleep.poll_keys]
          exact hd
      | false =>
        rw [Timeout.drive_pending _ _ _ _ _ hd] at h ⊢
        exact ih _ h

theorem Timeout.drive_now_le (s : World) (slp : Sleep) (wk : Nat) (rounds : List (List Op × Bool)) :
    s.now ≤ (Timeout.drive s slp wk rounds).1.now := by
  induction rounds generalizing s with
  | nil => exact Nat.le_refl _
  | cons r rest ih =>
    obtain ⟨ops, b⟩ := r
    have h1 : s.now ≤ (run s ops).now := run_now_le s ops
    cases b with
    | true => rw [Timeout.drive_ok]; exact h1
    | false =>
      cases hsd : sleepDone (run s ops).wheel slp with
      | true => rw [Timeout.drive_elapsed _ _ _ _ _ hsd]; exact h1
      | false =>
        rw [Timeout.drive_pending _ _ _ _ _ hsd]
        exact Nat.le_trans h1 (ih (afterPoll (run s ops) slp wk))

/-! ## `Interval::tick` arithmetic -/

theorem tick_first (iv : Interval) (now : Nat) (h : iv.firstTicked = false) :
    iv.tickDeadline now = .deadline iv.start := by
  simp [Interval.tickDeadline, h]

/-- The regular case: the next tick is the first instant `start + k * period` strictly after `now`. -/
theorem tick_next (iv : Interval) (now : Nat) (hf : iv.firstTicked = true) (hp : 0 < iv.period)
    (hp64 : iv.period ≤ 2 ^ 64) (hs : iv.start ≤ now) (hmax : now + iv.period ≤ instMax) :
    iv.tickDeadline now =
      .deadline (iv.start + ((now - iv.start) / iv.period + 1) * iv.period) := by
  have hp0 : iv.period ≠ 0 := by omega
  have hlt : (now - iv.start) % iv.period < iv.period := Nat.mod_lt _ hp
  have htr : (now - iv.start) % iv.period % 2 ^ 64 = (now - iv.start) % iv.period :=
    Nat.mod_eq_of_lt (by omega)
  have hdm := Nat.div_add_mod (now - iv.start) iv.period
  have hnm : ¬ now + iv.period > instMax := by omega
  simp only [Interval.tickDeadline, hf, hp0, htr, hnm, Bool.not_true, Bool.false_eq_true, if_false]
  congr 1
  rw [Nat.add_mul, Nat.one_mul, Nat.mul_comm]
  generalize iv.period * ((now - iv.start) / iv.period) = m at *
  generalize (now - iv.start) % iv.period = r at *
  omega

/-! ## `tick` as a coroutine: the four facts that depend on the extracted statement order -/

/-- in the first branch nothing is written to `self` before the await … -/
theorem tickBegin_first (iv : Interval) (now : Nat) (h : iv.firstTicked = false) :
    iv.tickBegin now = some (iv, .first, iv.start) := by
  simp [Interval.tickBegin, h, stmtsBeforeAwait, Compio.Gen.IntervalTick.firstBranch,
    Interval.applyStmts]

/-- … `first_ticked` is set after it -/
theorem tickEnd_first (iv : Interval) :
    iv.tickEnd .first = ({ iv with firstTicked := true }, iv.start) := by
  simp [Interval.tickEnd, stmtsAfterAwait, Compio.Gen.IntervalTick.firstBranch, Interval.applyStmts]

/-- the periodic branch never writes to `self` -/
theorem tickBegin_periodic (iv : Interval) (now : Nat) (h : iv.firstTicked = true) :
    iv.tickBegin now =
      match iv.tickDeadline now with
      | .panic => none
      | .deadline d => some (iv, .periodic d, d) := by
  simp only [Interval.tickBegin, h, Bool.not_true, Bool.false_eq_true, if_false]
  cases iv.tickDeadline now <;>
    simp [stmtsBeforeAwait, Compio.Gen.IntervalTick.periodicBranch, Interval.applyStmts]

theorem tickEnd_periodic (iv : Interval) (d : Nat) : iv.tickEnd (.periodic d) = (iv, d) := by
  simp [Interval.tickEnd, stmtsAfterAwait, Compio.Gen.IntervalTick.periodicBranch, Interval.applyStmts]

/-- a periodic deadline that was computed (no panic) is the aligned one -/
theorem tick_deadline_aligned (iv : Interval) (now d : Nat) (hf : iv.firstTicked = true)
    (hp : 0 < iv.period) (hp64 : iv.period ≤ 2 ^ 64) (hs : iv.start ≤ now)
    (h : iv.tickDeadline now = .deadline d) :
    d = iv.start + ((now - iv.start) / iv.period + 1) * iv.period := by
  by_cases hmax : now + iv.period ≤ instMax
  · rw [tick_next iv now hf hp hp64 hs hmax] at h
    exact (TickRes.deadline.inj h).symm
  · have hp0 : iv.period ≠ 0 := by omega
    have : now + iv.period > instMax := by omega
    simp [Interval.tickDeadline, hf, hp0, this] at h

/-! ## `poll_with`: the fact that depends on the extracted statement list -/

/-- whatever way the driver poll returned (short of an unexpected error), `poll_with` is `wake` -/
theorem pollWith_eq_wake (w : Wheel) (now : Nat) (o : PollOutcome) (ho : o ≠ .otherError) :
    pollWith w now o = some (wake w now) := by
  cases o <;>
    simp_all [pollWith, pollWithStmts, Compio.Gen.PollWith.body, Compio.Gen.PollWith.swallowedErrors,
      PollOutcome.errName]

theorem pollWith_panics (w : Wheel) (now : Nat) : pollWith w now .otherError = none := by
  simp [pollWith, pollWithStmts, Compio.Gen.PollWith.body, Compio.Gen.PollWith.swallowedErrors,
    PollOutcome.errName]

end Compio.Timer
