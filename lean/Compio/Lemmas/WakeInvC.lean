/-
Preservation of `Inv`, part C: kernel side (eventfd, notifier poll, completion, polling crate's flag).
-/
import Compio.Lemmas.WakeInvB

namespace Compio.Wake
open Compio.TaskWord Compio.Gen

def G4 (s' : State) : Prop :=
    (s'.cfg.drv = .iour → s'.rt ≠ .clear → s'.arm = .live → 0 < s'.efd → s'.cq = true) ∧
    (s'.cfg.drv = .iour → s'.rt = .wait → s'.arm = .live) ∧
    (s'.cfg.drv = .iour → s'.rt = .submit → s'.arm ≠ .needPush) ∧
    (s'.cfg.drv = .iour → (s'.rt = .xwait ∨ s'.rt = .xreset) → s'.arm = .live) ∧
    (s'.cfg.drv = .iour → s'.rt = .xsubmit → s'.arm ≠ .needPush) ∧
    ((phase s'.cfg.loop s'.rt = .sleep ∨ phase s'.cfg.loop s'.rt = .xsleep) → s'.flag ≤ 1) ∧
    (phase s'.cfg.loop s'.rt = .sleep → nbit s'.flag = true → 0 < cnt s' inflightP ∨ 0 < s'.efd) ∧
    (phase s'.cfg.loop s'.rt = .xsleep → nbit s'.flag = true → 0 < cnt s' inflightP ∨ fdReadable s' = true) ∧
    (s'.pnot = true → 0 < s'.efd ∨ 0 < cnt s' writeP ∨ s'.rt = .pswap ∨ isLwrite s'.rt = true) ∧
    ((s'.rt = .consume ∨ s'.rt = .clear) → s'.cfg.drv = .iour) ∧
    (s'.pnot = true → s'.cfg.drv = .poll) ∧
    (∀ w, (s'.wk w).pc = .cas → s'.cfg.drv = .poll) ∧
    (isLcas s'.rt = true → s'.cfg.drv = .poll) ∧
    (s'.cq = true → s'.arm = .live)

theorem G4_of_inv {s : State} (h : Inv s) : G4 s :=
  ⟨h.kq, h.armW, h.armS, h.armXW, h.armXS, h.sleepFlag, h.sig, h.xsig, h.pn, h.iourPc, h.pnotPoll, h.casPoll, h.lcasPoll, h.cqLive⟩

set_option maxRecDepth 4000 in
set_option maxHeartbeats 4000000 in
theorem g4_rt (s s' : State) (e : RtEv) (hfa : s.cfg.flushArms = true) (h : Inv s) (hs : rtStep s e = some s') :
    G4 s' := by
  have h1 := h.kq
  have h2 := h.armW
  have h3 := h.armS
  have h4 := h.armXW
  have h5 := h.armXS
  have h6 := h.sleepFlag
  have h7 := h.sig
  have h8 := h.xsig
  have h9 := h.pn
  have h10 := h.iourPc
  have h11 := h.pnotPoll
  have h12 := h.casPoll
  have h13 := h.lcasPoll
  have h14 := h.cqLive
  have hf := h.flagLe
  have hx := h.extOnly
  have hwn := wake_nbit hf
  have hrs := reset_snd hf
  unfold G4
  rt_step hs
  all_goals (refine ⟨?_, ?_, ?_, ?_, ?_, ?_, ?_, ?_, ?_, ?_, ?_, ?_, ?_, ?_⟩)
  all_goals (try (first | exact h1 | exact h2 | exact h3 | exact h4 | exact h5 | exact h6 | exact h7 | exact h8 | exact h9 | exact h10 | exact h11 | exact h12 | exact h13 | exact h14))
  all_goals (try (intro hd _; simp only [submits, hd]; cases ha : s.arm <;> simp_all; done))
  all_goals (try (simp only [cnt, phase, retPhase, backPhase, reset_fst, set_eq, extPc, isLwrite, isLcas, fdReadable, posts, submits, armPushes] at *; grind [nbit]))

theorem cntExcept_mono (n : Nat) (f : Nat → Wk) (p q : Wk → Bool) (w : Nat)
    (hpq : ∀ k, p k = true → q k = true) : cntExcept n f p w ≤ cntExcept n f q w := by
  induction n with
  | zero => exact Nat.le_refl _
  | succ n ih =>
    simp only [cntExcept]
    by_cases h : n = w
    · simp [h]; simpa [h] using ih
    · by_cases hp : p (f n) = true
      · simp [h, hp, hpq _ hp]; omega
      · simp [h, hp]; split <;> omega

theorem backPhase_cases (b : Back) : backPhase b = .pre ∨ backPhase b = .post := by
  cases b <;> simp [backPhase]

theorem retPhase_cases (r : Ret) : retPhase r = .pre ∨ retPhase r = .post := by
  cases r with
  | tick => simp [retPhase]
  | loc t b => simpa [retPhase] using backPhase_cases b

theorem sleep_pc {l : Loop} {pc : RtPc} (h : phase l pc = .sleep) : pc = .arm ∨ pc = .submit ∨ pc = .wait := by
  cases pc <;> simp only [phase] at h <;> first
    | (simp; done)
    | (exfalso; rename_i b; rcases backPhase_cases b with hb | hb <;> rw [hb] at h <;> cases h)
    | (exfalso; rename_i r; rcases retPhase_cases r with hb | hb <;> rw [hb] at h <;> cases h)
    | (exfalso; rename_i r d; rcases retPhase_cases r with hb | hb <;> rw [hb] at h <;> cases h)
    | (exfalso; cases l <;> cases h)
    | (exfalso; cases h)

theorem xsleep_pc {l : Loop} {pc : RtPc} (h : phase l pc = .xsleep) : pc = .xwait := by
  cases pc <;> simp only [phase] at h <;> first
    | rfl
    | (exfalso; rename_i b; rcases backPhase_cases b with hb | hb <;> rw [hb] at h <;> cases h)
    | (exfalso; rename_i r; rcases retPhase_cases r with hb | hb <;> rw [hb] at h <;> cases h)
    | (exfalso; rename_i r d; rcases retPhase_cases r with hb | hb <;> rw [hb] at h <;> cases h)
    | (exfalso; cases l <;> cases h)
    | (exfalso; cases h)

set_option maxRecDepth 4000 in
set_option maxHeartbeats 4000000 in
theorem g4_w (s s' : State) (w : Nat) (hw : w < s.cfg.nw) (hfa : s.cfg.flushArms = true) (h : Inv s)
    (hs : wStep s w = some s') : G4 s' := by
  have h1 := h.kq
  have h2 := h.armW
  have h3 := h.armS
  have h4 := h.armXW
  have h5 := h.armXS
  have h6 := h.sleepFlag
  have h7 := h.sig
  have h8 := h.xsig
  have h9 := h.pn
  have h10 := h.iourPc
  have h11 := h.pnotPoll
  have h12 := h.casPoll
  have h13 := h.lcasPoll
  have h14 := h.cqLive
  have h12w := h.casPoll w
  have hf := h.flagLe
  have hx := h.extOnly
  have hwn := wake_nbit hf
  have hwr := wake_ret hf
  have hw1 : s.flag ≤ 1 → (AwakeFlag.wake s.flag).1 = 1 := wake_le1
  simp only [cnt, cntUpTo_split _ _ _ _ hw] at h7 h8 h9
  have hmono := cntExcept_mono s.cfg.nw s.wk writeP inflightP w (by intro k hk; simp only [writeP, inflightP] at *; simp [hk])
  have hsl := @sleep_pc s.cfg.loop s.rt
  have hxsl := @xsleep_pc s.cfg.loop s.rt
  unfold G4
  w_step hs
  all_goals (refine ⟨?_, ?_, ?_, ?_, ?_, ?_, ?_, ?_, ?_, ?_, ?_, ?_, ?_, ?_⟩)
  all_goals (try (first | exact h1 | exact h2 | exact h3 | exact h4 | exact h5 | exact h6 | exact h10 | exact h11 | exact h12 | exact h13 | exact h14))
  all_goals (try (simp only [cnt, cntUpTo_split _ _ _ _ hw, cntExcept_upd, upd_same, upd, inflightP, writeP, fdReadable, posts] at *; grind [nbit, isLwrite]))

end Compio.Wake
