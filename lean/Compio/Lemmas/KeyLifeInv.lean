/-
The global invariant `Inv` of the key life-cycle model is preserved by every step (under `GoodCfg`:
the statement order extracted from `impl Drop for iour::Driver` is drain → close ring → free in-flight keys,
and as long as the `Drop` drain loop met no CQE flagged `more`, finding F13).
-/
import Compio.Lemmas.KeyLife

namespace Compio.KeyLife

open Compio.PollQueues

/-! ### frames: how `Inv` moves along the three shapes of update -/

/-- fields of an op that the global parts of `Inv` look at -/
structure Keeps (f : Op → Op) : Prop where
  id : ∀ o, (f o).id = o.id
  fd : ∀ o, (f o).fd = o.fd
  dir : ∀ o, (f o).dir = o.dir
  inFl : ∀ o, (f o).inFl = true → o.inFl = true
  pool : ∀ o, (f o).poolRun = o.poolRun
  chan : ∀ o, (f o).chan = o.chan ∨ (f o).chan = []

/-- one op is modified, the parts of the state `Inv` reads are otherwise unchanged -/
theorem inv_modAt {c : Cfg} {s s' : State} (hi : Inv c s) (id : Nat) (f : Op → Op)
    (hops : s'.ops = modAt f s.ops id) (hdrv : s'.drv = s.drv) (hring : s'.ring = s.ring) (hreg : s'.reg = s.reg)
    (halive : s'.alive = s.alive) (hpc : s'.dropPc = s.dropPc) (hch : s'.chanOpen = s.chanOpen)
    (hk : Keeps f)
    (hf : ∀ o, s.ops[id]? = some o → OpOk s.drv s.ring s.reg o → OpOk s.drv s.ring s.reg (f o)) :
    Inv c s' := by
  have key : ∀ (j : Nat) (o' : Op), s'.ops[j]? = some o' →
      ∃ o, s.ops[j]? = some o ∧ (o' = o ∨ (j = id ∧ o' = f o)) := by
    intro j o' h
    rw [hops] at h
    rcases modAt_cases h with ⟨hij, x, hx, rfl⟩ | ⟨_, h⟩
    · exact ⟨x, hx, Or.inr ⟨hij.symm, rfl⟩⟩
    · exact ⟨o', h, Or.inl rfl⟩
  constructor
  · intro j o' h
    rw [hdrv, hring, hreg]
    obtain ⟨o, ho, h2⟩ := key j o' h
    rcases h2 with rfl | ⟨rfl, rfl⟩
    · exact hi.ops j _ ho
    · exact ⟨hf o ho (hi.ops _ o ho).1, by rw [hk.id]; exact (hi.ops _ o ho).2⟩
  · intro fd d i hm
    rw [hreg] at hm
    obtain ⟨o, ho, h1, h2⟩ := hi.qmem fd d i hm
    rw [hops, getElem?_modAt]
    by_cases hij : id = i
    · subst hij
      simp only [if_true, ho, Option.map_some]
      exact ⟨f o, rfl, by rw [hk.fd]; exact h1, by rw [hk.dir]; exact h2⟩
    · simp only [hij, if_false]
      exact ⟨o, ho, h1, h2⟩
  · rw [hdrv, hreg]; exact hi.iour_reg
  · rw [halive, hring, hpc, hch]; exact hi.alive_ok
  · intro k hk'
    rw [hpc] at hk'
    obtain ⟨a, b, c1, d, e⟩ := hi.pc_ok k hk'
    rw [halive, hch, hdrv, hring]
    refine ⟨a, b, c1, d, ?_⟩
    intro hfree j o' h
    obtain ⟨o, ho, h2⟩ := key j o' h
    rcases h2 with rfl | ⟨rfl, rfl⟩
    · exact e hfree j _ ho
    · have := e hfree _ o ho
      cases hfl : (f o).inFl
      · rfl
      · rw [hk.inFl o hfl] at this; exact absurd this (by simp)
  · intro ha hp
    rw [halive] at ha
    rw [hpc] at hp
    obtain ⟨a, b, c1⟩ := hi.dead_ok ha hp
    rw [hch, hreg]
    refine ⟨a, b, ?_⟩
    intro j o' h
    obtain ⟨o, ho, h2⟩ := key j o' h
    rcases h2 with rfl | ⟨rfl, rfl⟩
    · exact c1 j _ ho
    · have := c1 _ o ho
      cases hfl : (f o).inFl
      · rfl
      · rw [hk.inFl o hfl] at this; exact absurd this (by simp)
  · intro hc hall j o' h
    rw [hch] at hc
    have hall' : ∀ (i : Nat) (o : Op), s.ops[i]? = some o → o.poolRun = false := by
      intro i o ho
      by_cases hii : id = i
      · subst hii
        have := hall id (f o) (by rw [hops, getElem?_modAt_self, ho]; rfl)
        rw [hk.pool] at this; exact this
      · exact hall i o (by rw [hops, getElem?_modAt_ne _ _ hii]; exact ho)
    obtain ⟨o, ho, h2⟩ := key j o' h
    rcases h2 with rfl | ⟨rfl, rfl⟩
    · exact hi.chan_ok hc hall' j _ ho
    · rcases hk.chan o with h3 | h3
      · rw [h3]; exact hi.chan_ok hc hall' _ o ho
      · exact h3

/-- every op is transformed by `f` -/
theorem inv_map {c : Cfg} {s s' : State} (hi : Inv c s) (f : Op → Op)
    (hops : s'.ops = s.ops.map f) (hdrv : s'.drv = s.drv) (hring : s'.ring = s.ring) (hreg : s'.reg = s.reg)
    (halive : s'.alive = s.alive) (hpc : s'.dropPc = s.dropPc) (hch : s'.chanOpen = s.chanOpen)
    (hk : Keeps f)
    (hf : ∀ o, OpOk s.drv s.ring s.reg o → OpOk s.drv s.ring s.reg (f o)) :
    Inv c s' := by
  have key : ∀ (j : Nat) (o' : Op), s'.ops[j]? = some o' → ∃ o, s.ops[j]? = some o ∧ o' = f o := by
    intro j o' h
    rw [hops, List.getElem?_map] at h
    cases ho : s.ops[j]? with
    | none => simp [ho] at h
    | some o => simp [ho] at h; exact ⟨o, rfl, h.symm⟩
  have key2 : ∀ (j : Nat) (o : Op), s.ops[j]? = some o → s'.ops[j]? = some (f o) := by
    intro j o h
    rw [hops, List.getElem?_map, h]; rfl
  constructor
  · intro j o' h
    rw [hdrv, hring, hreg]
    obtain ⟨o, ho, rfl⟩ := key j o' h
    exact ⟨hf o (hi.ops _ o ho).1, by rw [hk.id]; exact (hi.ops _ o ho).2⟩
  · intro fd d i hm
    rw [hreg] at hm
    obtain ⟨o, ho, h1, h2⟩ := hi.qmem fd d i hm
    exact ⟨f o, key2 _ _ ho, by rw [hk.fd]; exact h1, by rw [hk.dir]; exact h2⟩
  · rw [hdrv, hreg]; exact hi.iour_reg
  · rw [halive, hring, hpc, hch]; exact hi.alive_ok
  · intro k hk'
    rw [hpc] at hk'
    obtain ⟨a, b, c1, d, e⟩ := hi.pc_ok k hk'
    rw [halive, hch, hdrv, hring]
    refine ⟨a, b, c1, d, ?_⟩
    intro hfree j o' h
    obtain ⟨o, ho, rfl⟩ := key j o' h
    have := e hfree _ o ho
    cases hfl : (f o).inFl
    · rfl
    · rw [hk.inFl o hfl] at this; exact absurd this (by simp)
  · intro ha hp
    rw [halive] at ha
    rw [hpc] at hp
    obtain ⟨a, b, c1⟩ := hi.dead_ok ha hp
    rw [hch, hreg]
    refine ⟨a, b, ?_⟩
    intro j o' h
    obtain ⟨o, ho, rfl⟩ := key j o' h
    have := c1 _ o ho
    cases hfl : (f o).inFl
    · rfl
    · rw [hk.inFl o hfl] at this; exact absurd this (by simp)
  · intro hc hall j o' h
    rw [hch] at hc
    have hall' : ∀ (i : Nat) (o : Op), s.ops[i]? = some o → o.poolRun = false := by
      intro i o ho
      have := hall i (f o) (key2 _ _ ho)
      rw [hk.pool] at this; exact this
    obtain ⟨o, ho, rfl⟩ := key j o' h
    rcases hk.chan o with h3 | h3
    · rw [h3]; exact hi.chan_ok hc hall' _ o ho
    · exact h3

/-- a new op is appended while the proactor is alive; the registry may change as long as the old ops'
queue counts stay and queue members resolve -/
theorem inv_append {c : Cfg} {s s' : State} (hi : Inv c s) (o : Op)
    (hops : s'.ops = s.ops ++ [o]) (hdrv : s'.drv = s.drv) (hring : s'.ring = s.ring)
    (halive : s'.alive = s.alive) (hpc : s'.dropPc = s.dropPc) (hch : s'.chanOpen = s.chanOpen)
    (ha : s.alive = true)
    (hid : o.id = s.ops.length)
    (hnew : OpOk s.drv s.ring s'.reg o)
    (hold : ∀ (j : Nat) (x : Op), s.ops[j]? = some x → qcount s'.reg x = qcount s.reg x)
    (hq : ∀ fd d i, i ∈ (s'.reg fd).sel d → i ∈ (s.reg fd).sel d ∨ (i = s.ops.length ∧ o.fd = fd ∧ o.dir = d))
    (hir : s.drv = .iour → ∀ fd, s'.reg fd = FdQ.empty) :
    Inv c s' := by
  obtain ⟨hr, hp, hc⟩ := hi.alive_ok ha
  constructor
  · intro j o' h
    rw [hops] at h
    rw [hdrv, hring]
    rcases getElem?_append_one h with h | ⟨rfl, rfl⟩
    · obtain ⟨ok, hid'⟩ := hi.ops j o' h
      refine ⟨⟨?_, ok.rcok, ok.kern, ok.pend, ok.poll_sep, ok.fin, ok.closed⟩, hid'⟩
      rw [ok.rc_eq]; unfold holders; rw [hold j o' h]
    · exact ⟨hnew, hid⟩
  · intro fd d i hm
    rcases hq fd d i hm with h | ⟨rfl, h1, h2⟩
    · obtain ⟨x, hx, h1, h2⟩ := hi.qmem fd d i h
      refine ⟨x, ?_, h1, h2⟩
      rw [hops, List.getElem?_append_left]
      · exact hx
      · exact (List.getElem?_eq_some_iff.mp hx).1
    · refine ⟨o, ?_, h1, h2⟩
      rw [hops]; simp
  · rw [hdrv]; exact hir
  · intro _; rw [hring, hpc, hch]; exact ⟨hr, hp, hc⟩
  · intro k hk; rw [hpc, hp] at hk; cases hk
  · intro h; rw [halive, ha] at h; cases h
  · intro h; rw [hch, hc] at h; cases h

end Compio.KeyLife
