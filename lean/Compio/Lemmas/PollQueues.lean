/-
Lemmas about the polling driver's per-descriptor queues: what `remove` (cancel), `pushBack` (submit),
`popInterest` (readiness) do to the members, their order and their multiplicities.
-/
import Compio.Model.PollQueues

namespace Compio.PollQueues

theorem count_filter_ne (l : List Nat) (k j : Nat) :
    (l.filter (· != k)).count j = if j = k then 0 else l.count j := by
  induction l with
  | nil => simp
  | cons x xs ih =>
    by_cases hx : x = k
    · subst hx
      simp only [List.filter_cons, bne_self_eq_false, Bool.false_eq_true, if_false, ih]
      by_cases hj : j = x
      · simp [hj]
      · simp [hj, Ne.symm hj]
    · have : (x != k) = true := by simp [hx]
      simp only [List.filter_cons, this, if_true, List.count_cons, ih]
      by_cases hj : j = k
      · subst hj; simp [hx]
      · simp [hj]

theorem mem_filter_ne {l : List Nat} {k i : Nat} : i ∈ l.filter (· != k) ↔ i ∈ l ∧ i ≠ k := by
  simp [List.mem_filter]

theorem count_append_one (l : List Nat) (k j : Nat) :
    (l ++ [k]).count j = l.count j + (if j = k then 1 else 0) := by
  simp [List.count_append, List.count_cons]
  by_cases h : k = j
  · simp [h]
  · simp [h, Ne.symm h]

namespace FdQ

theorem sel_remove (q : FdQ) (k : Nat) (d : Dir) : (q.remove k).sel d = (q.sel d).filter (· != k) := by
  cases d <;> rfl

/-- **locality of cancel, queue part**: removing key `k` filters exactly `k` out of both queues and keeps the
order of everything else -/
theorem remove_spec (q : FdQ) (k : Nat) :
    (q.remove k).rq = q.rq.filter (· != k) ∧ (q.remove k).wq = q.wq.filter (· != k) := ⟨rfl, rfl⟩

theorem sel_pushBack (q : FdQ) (d d' : Dir) (k : Nat) :
    (q.pushBack d k).sel d' = if d' = d then q.sel d' ++ [k] else q.sel d' := by
  cases d <;> cases d' <;> simp [pushBack, sel]

theorem popInterest_spec {q q' : FdQ} {r w : Bool} {k : Nat} {d : Dir} (h : q.popInterest r w = some (k, d, q')) :
    q.sel d = k :: q'.sel d ∧ (∀ d', d' ≠ d → q'.sel d' = q.sel d') := by
  unfold popInterest at h
  split at h
  · rename_i k' rest hr hq
    simp only [Option.some.injEq, Prod.mk.injEq] at h
    obtain ⟨rfl, rfl, rfl⟩ := h
    refine ⟨by simp [sel, hq], ?_⟩
    intro d' hd'
    cases d' <;> simp_all [sel]
  · split at h
    · rename_i k' rest hr hq
      simp only [Option.some.injEq, Prod.mk.injEq] at h
      obtain ⟨rfl, rfl, rfl⟩ := h
      refine ⟨by simp [sel, hq], ?_⟩
      intro d' hd'
      cases d' <;> simp_all [sel]
    · cases h

end FdQ

end Compio.PollQueues
