/- helper lemmas for Model/Buffer.lean -/
import Compio.Model.Buffer

namespace Compio.Io

/-! ## overlay -/

@[simp] theorem overlay_nil (d : Bytes) (p : Nat) : overlay d p [] = d := by
  simp [overlay]

theorem overlay_length (d : Bytes) (p : Nat) (x : Bytes) (h : p ≤ d.length) :
    (overlay d p x).length = max d.length (p + x.length) := by
  simp [overlay, List.length_take, List.length_drop]
  omega

/-- two consecutive fills are one fill with the concatenation -/
theorem overlay_overlay (d : Bytes) (p : Nat) (x y : Bytes) (h : p ≤ d.length) :
    overlay (overlay d p x) (p + x.length) y = overlay d p (x ++ y) := by
  unfold overlay
  have h1 : (d.take p).length = p := by simp [List.length_take]; omega
  have e1 : (d.take p ++ x ++ d.drop (p + x.length)).take (p + x.length) = d.take p ++ x := by
    rw [List.take_append_of_le_length (by simp [h1])]
    rw [List.take_of_length_le (by simp [h1])]
  have e2 : (d.take p ++ x ++ d.drop (p + x.length)).drop (p + x.length + y.length)
      = d.drop (p + (x ++ y).length) := by
    rw [List.drop_append]
    have : (d.take p ++ x).length = p + x.length := by simp [h1]
    rw [List.drop_of_length_le (by omega)]
    simp only [this, List.nil_append, List.drop_drop, List.length_append]
    congr 1
    omega
  rw [e1, e2]
  simp [List.append_assoc]

/-- filling at the very end is appending -/
theorem overlay_at_end (d x : Bytes) : overlay d d.length x = d ++ x := by
  simp [overlay]

theorem overlay_zero_take (d x : Bytes) : overlay d 0 x = x ++ d.drop x.length := by
  simp [overlay]

/-- bytes outside the filled range are untouched -/
theorem overlay_getElem?_lt (d : Bytes) (p : Nat) (x : Bytes) (i : Nat) (h : p ≤ d.length) (hi : i < p) :
    (overlay d p x)[i]? = d[i]? := by
  unfold overlay
  rw [List.append_assoc, List.getElem?_append_left (by simp [List.length_take]; omega)]
  simp [List.getElem?_take, hi]

theorem overlay_getElem?_ge (d : Bytes) (p : Nat) (x : Bytes) (i : Nat) (h : p ≤ d.length)
    (hi : p + x.length ≤ i) : (overlay d p x)[i]? = d[i]? := by
  unfold overlay
  have h1 : (d.take p).length = p := by simp [List.length_take]; omega
  rw [List.getElem?_append_right (by simp [h1]; omega)]
  simp only [List.length_append, h1, List.getElem?_drop]
  congr 1
  omega

/-- the filled range holds the source -/
theorem overlay_getElem?_mid (d : Bytes) (p : Nat) (x : Bytes) (i : Nat) (h : p ≤ d.length)
    (hi : i < x.length) : (overlay d p x)[p + i]? = x[i]? := by
  unfold overlay
  have h1 : (d.take p).length = p := by simp [List.length_take]; omega
  rw [List.append_assoc, List.getElem?_append_right (by simp [h1])]
  simp only [h1, Nat.add_sub_cancel_left]
  rw [List.getElem?_append_left hi]

/-! ## take/drop of a stream -/

theorem take_add_drop (s : Bytes) (a b : Nat) : s.take a ++ (s.drop a).take b = s.take (a + b) := by
  rw [List.take_add]

theorem take_length_zero_drop (s : Bytes) (m : Nat) (h : (s.take m).length = 0) : s.drop m = s := by
  rw [List.length_take] at h
  rcases Nat.eq_zero_or_pos m with hm | hm
  · simp [hm]
  · have : s.length = 0 := by omega
    have : s = [] := List.eq_nil_of_length_eq_zero this
    simp [this]

theorem take_length_zero_take (s : Bytes) (m : Nat) (h : (s.take m).length = 0) : s.take m = [] :=
  List.eq_nil_of_length_eq_zero h

/-! ## Buffer -/

/-- well-formed: `begin <= len <= capacity` (maintained by every operation) -/
def Buffer.WF (b : Buffer) : Prop := b.begin ≤ b.data.length ∧ b.data.length ≤ b.cap

theorem Buffer.withCapacity_wf (c : Nat) : (Buffer.withCapacity c).WF := by
  simp [Buffer.WF, Buffer.withCapacity]

theorem Buffer.reset_wf (b : Buffer) : b.reset.WF := by
  simp [Buffer.WF, Buffer.reset]

@[simp] theorem Buffer.reset_pending (b : Buffer) : b.reset.pending = [] := by
  simp [Buffer.reset, Buffer.pending]

@[simp] theorem Buffer.reset_cap (b : Buffer) : b.reset.cap = b.cap := rfl

theorem Buffer.allDone_iff (b : Buffer) : b.allDone = true ↔ b.data.length ≤ b.begin := by
  simp [Buffer.allDone]

theorem Buffer.pending_length (b : Buffer) : b.pending.length = b.data.length - b.begin := by
  simp [Buffer.pending]

theorem Buffer.allDone_pending (b : Buffer) (h : b.allDone = true) : b.pending = [] := by
  rw [Buffer.allDone_iff] at h
  apply List.eq_nil_of_length_eq_zero
  rw [Buffer.pending_length]
  omega

theorem Buffer.not_allDone_pending (b : Buffer) (h : b.allDone = false) : b.pending ≠ [] := by
  have : ¬ b.data.length ≤ b.begin := by
    intro hh
    have := (Buffer.allDone_iff b).2 hh
    simp [this] at h
  intro he
  have hl := Buffer.pending_length b
  rw [he] at hl
  simp at hl
  omega

theorem Buffer.prep_wf (b : Buffer) (h : b.WF) : b.prep.WF := by
  unfold Buffer.prep
  split
  · exact Buffer.reset_wf b
  · exact h

theorem Buffer.prep_pending (b : Buffer) : b.prep.pending = b.pending := by
  unfold Buffer.prep
  split
  · rename_i h
    rw [Buffer.allDone_pending b h]
    simp
  · rfl

@[simp] theorem Buffer.prep_cap (b : Buffer) : b.prep.cap = b.cap := by
  unfold Buffer.prep
  split <;> rfl

/-- after `prep`, "needs fill" means nothing is pending -/
theorem Buffer.prep_needFill_pending (b : Buffer) (h : b.prep.needFill = true) : b.prep.pending = [] := by
  simp [Buffer.needFill] at h
  simp [Buffer.pending, h]

/-- after `prep` of a well-formed buffer, "no fill needed" means something is pending -/
theorem Buffer.prep_not_needFill_pending (b : Buffer) (h : b.prep.needFill = false) :
    b.prep.pending ≠ [] := by
  unfold Buffer.prep at *
  split
  · rename_i hd
    simp [hd, Buffer.needFill, Buffer.reset] at h
  · rename_i hd
    exact Buffer.not_allDone_pending b (by simpa using hd)

theorem Buffer.advance_some (b : Buffer) (n : Nat) (h : b.WF) (hn : n ≤ b.pending.length) :
    b.advance n = some { b with begin := b.begin + n } := by
  unfold Buffer.advance
  rw [Buffer.pending_length] at hn
  rw [if_pos]
  obtain ⟨h1, h2⟩ := h
  constructor <;> omega

theorem Buffer.advance_pending (b b' : Buffer) (n : Nat) (h : b.advance n = some b') :
    b'.pending = b.pending.drop n ∧ b'.data = b.data ∧ b'.cap = b.cap ∧ b'.begin = b.begin + n := by
  unfold Buffer.advance at h
  split at h
  · cases h
    simp [Buffer.pending, List.drop_drop]
  · cases h

theorem Buffer.advance_wf (b b' : Buffer) (n : Nat) (hw : b.WF) (h : b.advance n = some b') : b'.WF := by
  unfold Buffer.advance at h
  split at h
  · rename_i hc
    cases h
    exact ⟨hc.2, hw.2⟩
  · cases h

/-- `compact_to` keeps exactly the unread bytes, moved to the front -/
theorem Buffer.compactTo_pending (b : Buffer) (c m : Nat) (h : b.WF) :
    (b.compactTo c m).pending = b.pending ∧ (b.compactTo c m).begin = 0 := by
  unfold Buffer.compactTo
  split
  · simp [Buffer.pending]
  · split
    · rename_i h2
      simp [Buffer.pending]
      omega
    · rename_i h1 h2
      have : b.begin = 0 := by
        obtain ⟨hb, _⟩ := h
        omega
      simp [Buffer.pending, this]

theorem Buffer.compactTo_wf (b : Buffer) (c m : Nat) (h : b.WF) : (b.compactTo c m).WF := by
  unfold Buffer.compactTo
  obtain ⟨h1, h2⟩ := h
  split
  · simp [Buffer.WF, List.length_drop]
    omega
  · split
    · simp [Buffer.WF]
    · simp [Buffer.WF]
      omega

/-- `push` appends what fits -/
theorem Buffer.push_spec (b : Buffer) (src : Bytes) (h : b.WF) :
    (b.push src).2.pending = b.pending ++ src.take (b.push src).1 ∧ (b.push src).2.WF ∧
    (b.push src).1 = min src.length (b.cap - b.data.length) ∧ (b.push src).2.begin = b.begin ∧
    (b.push src).2.cap = b.cap := by
  obtain ⟨h1, h2⟩ := h
  refine ⟨?_, ⟨?_, ?_⟩, rfl, rfl, rfl⟩
  · simp only [Buffer.push, Buffer.pending]
    rw [List.drop_append_of_le_length h1]
  · simp [Buffer.push]; omega
  · simp [Buffer.push, List.length_take]; omega

end Compio.Io
