/- helper lemmas for Model/Buffer.lean -/
import Compio.Model.Buffer

namespace Compio.Io

/-! ## overlay -/

@[simp] theorem overlay_nil (d : Bytes) (p : Nat) : overlay d p [] = d := by
  simp [overlay]

theorem overlay_length (d : Bytes) (p : Nat) (x : Bytes) (h : p ≤ d.length) :
    (overlay d p x).length = max d.length (p + x.length) := by
  simp [overlay, List.length_take, List.length_drop]
  omega

/-- two consecutive fills are one fill with the concatenation -/
theorem overlay_overlay (d : Bytes) (p : Nat) (x y : Bytes) (h : p ≤ d.length) :
    overlay (overlay d p x) (p + x.length) y = overlay d p (x ++ y) := by
  unfold overlay
  have h1 : (d.take p).length = p := by simp [List.length_take]; omega
  have e1 : (d.take p ++ x ++ d.drop (p + x.length)).take (p + x.length) = d.take p ++ x := by
    rw [List.take_append_of_le_length (by simp [h1])]
    rw [List.take_of_length_le (by simp [h1])]
  have e2 : (d.take p ++ x ++ d.drop (p + x.length)).drop (p + x.length + y.length)
      = d.drop (p + (x ++ y).length) := by
    rw [List.drop_append]
    have : (d.take p ++ x).length = p + x.length := by simp [h1]
    rw [List.drop_of_length_le (by omega)]
    simp only [this, List.nil_append, List.drop_drop, List.length_append]
    congr 1
    omega
  rw [e1, e2]
  simp [List.append_assoc]

/-- filling at the very end is appending -/
theorem overlay_at_end (d x : Bytes) : overlay d d.length x = d ++ x := by
  simp [overlay]

theorem overlay_zero_take (d x : Bytes) : overlay d 0 x = x ++ d.drop x.length := by
  simp [overlay]

/-- bytes outside the filled range are untouched -/
theorem overlay_getElem?_lt (d : Bytes) (p : Nat) (x : Bytes) (i : Nat) (h : p ≤ d.length) (hi : i < p) :
    (overlay d p x)[i]? = d[i]? := by
  unfold overlay
  rw [List.append_assoc, List.getElem?_append_left (by simp [List.length_take]; omega)]
  simp [List.getElem?_take, hi]

theorem overlay_getElem?_ge (d : Bytes) (p : Nat) (x : Bytes) (i : Nat) (h : p ≤ d.length)
    (hi : p + x.length ≤ i) : (overlay d p x)[i]? = d[i]? := by
  unfold overlay
  have h1 : (d.take p).length = p := by simp [List.length_take]; omega
  rw [List.getElem?_append_right (by simp [h1]; omega)]
  simp only [List.length_append, h1, List.getElem?_drop]
  congr 1
  omega

/-- the filled range holds the source -/
theorem overlay_getElem?_mid (d : Bytes) (p : Nat) (x : Bytes) (i : Nat) (h : p ≤ d.length)
    (hi : i < x.length) : (overlay d p x)[p + i]? = x[i]? := by
  unfold overlay
  have h1 : (d.take p).length = p := by simp [List.length_take]; omega
  rw [List.append_assoc, List.getElem?_append_right (by simp [h1])]
  simp only [h1, Nat.add_sub_cancel_left]
  rw [List.getElem?_append_left hi]

/-! ## take/drop of a stream -/

theorem take_add_drop (s : Bytes) (a b : Nat) : s.take a ++ (s.drop a).take b = s.take (a + b) := by
  rw [List.take_add]

theorem take_length_zero_drop (s : Bytes) (m : Nat) (h : (s.take m).length = 0) : s.drop m = s := by
  rw [List.length_take] at h
  rcases Nat.eq_zero_or_pos m with hm | hm
  · simp [hm]
  · have : s.length = 0 := by omega
    have : s = [] := List.eq_nil_of_length_eq_zero this
    simp [this]

theorem take_length_zero_take (s : Bytes) (m : Nat) (h : (s.take m).length = 0) : s.take m = [] :=
  List.eq_nil_of_length_eq_zero h

/-! ## Buffer -/

/-- well-formed: `begin <= len <= capacity` (maintained by every operation) -/
def Buffer.WF (b : Buffer) : Prop := b.begin ≤ b.data.length ∧ b.data.length ≤ b.cap

theorem Buffer.withCapacity_wf (c : Nat) : (Buffer.withCapacity c).WF := by
  simp [Buffer.WF, Buffer.withCapacity]

theorem Buffer.reset_wf (b : Buffer) : b.reset.WF := by
  simp [Buffer.WF, Buffer.reset]

@[simp] theorem Buffer.reset_pending (b : Buffer) : b.reset.pending = [] := by
  simp [Buffer.reset, Buffer.pending]

@[simp] theorem Buffer.reset_cap (b : Buffer) : b.reset.cap = b.cap := rfl

theorem Buffer.allDone_iff (b : Buffer) : b.allDone = true ↔ b.data.length ≤ b.begin := by
  simp [Buffer.allDone]

theorem Buffer.pending_length (b : Buffer) : b.pending.length = b.data.length - b.begin := by
  simp [Buffer.pending]

theorem Buffer.allDone_pending (b : Buffer) (h : b.allDone = true) : b.pending = [] := by
  rw [Buffer.allDone_iff] at h
  apply List.eq_nil_of_length_eq_zero
  rw [Buffer.pending_length]
  omega

theorem Buffer.not_allDone_pending (b : Buffer) (h : b.allDone = false) : b.pending ≠ [] := by
  have : ¬ b.data.length ≤ b.begin := by
    intro hh
    have := (Buffer.allDone_iff b).2 hh
    simp [this] at h
  intro he
  have hl := Buffer.pending_length b
  rw [he] at hl
  simp at hl
  omega

theorem Buffer.prep_wf (b : Buffer) (h : b.WF) : b.prep.WF := by
  unfold Buffer.prep
  split
  · exact Buffer.reset_wf b
  · exact h

theorem Buffer.prep_pending (b : Buffer) : b.prep.pending = b.pending := by
  unfold Buffer.prep
  split
  · rename_i h
    rw [Buffer.allDone_pending b h]
    simp
  · rfl

@[simp] theorem Buffer.prep_cap (b : Buffer) : b.prep.cap = b.cap := by
  unfold Buffer.prep
  split <;> rfl

/-- after `prep`, "needs fill" means nothing is pending -/
theorem Buffer.prep_needFill_pending (b : Buffer) (h : b.prep.needFill = true) : b.prep.pending = [] := by
  simp [Buffer.needFill] at h
  simp [Buffer.pending, h]

/-- after `prep` of a well-formed buffer, "no fill needed" means something is pending -/
theorem Buffer.prep_not_needFill_pending (b : Buffer) (h : b.prep.needFill = false) :
    b.prep.pending ≠ [] := by
  unfold Buffer.prep at *
  split
  · rename_i hd
    simp [hd, Buffer.needFill, Buffer.reset] at h
  · rename_i hd
    exact Buffer.not_allDone_pending b (by simpa using hd)

theorem Buffer.advance_some (b : Buffer) (n : Nat) (h : b.WF) (hn : n ≤ b.pending.length) :
    b.advance n = some { b with begin := b.begin + n } := by
  unfold Buffer.advance
  rw [Buffer.pending_length] at hn
  rw [if_pos]
  obtain ⟨h1, h2⟩ := h
  constructor <;> omega

theorem Buffer.advance_pending (b b' : Buffer) (n : Nat) (h : b.advance n = some b') :
    b'.pending = b.pending.drop n ∧ b'.data = b.data ∧ b'.cap = b.cap ∧ b'.begin = b.begin + n := by
  unfold Buffer.advance at h
  split at h
  · cases h
    simp [Buffer.pending, List.drop_drop]
  · cases h

theorem Buffer.advance_wf (b b' : Buffer) (n : Nat) (hw : b.WF) (h : b.advance n = some b') : b'.WF := by
  unfold Buffer.advance at h
  split at h
  · rename_i hc
    cases h
    exact ⟨hc.2, hw.2⟩
  · cases h

/-- `compact_to` keeps exactly the unread bytes, moved to the front -/
theorem Buffer.compactTo_pending (b : Buffer) (c m : Nat) (h : b.WF) :
    (b.compactTo c m).pending = b.pending ∧ (b.compactTo c m).begin = 0 := by
  unfold Buffer.compactTo
  split
  · simp [Buffer.pending]
  · split
    · rename_i h2
      simp [Buffer.pending]
      omega
    · rename_i h1 h2
      have : b.begin = 0 := by
        obtain ⟨hb, _⟩ := h
        omega
      simp [Buffer.pending, this]

theorem Buffer.compactTo_wf (b : Buffer) (c m : Nat) (h : b.WF) : (b.compactTo c m).WF := by
  unfold Buffer.compactTo
  obtain ⟨h1, h2⟩ := h
  split
  · simp [Buffer.WF, List.length_drop]
    omega
  · split
    · simp [Buffer.WF]
    · simp [Buffer.WF]
      omega

/-- `push` appends what fits -/
theorem Buffer.push_spec (b : Buffer) (src : Bytes) (h : b.WF) :
    (b.push src).2.pending = b.pending ++ src.take (b.push src).1 ∧ (b.push src).2.WF ∧
    (b.push src).1 = min src.length (b.cap - b.data.length) ∧ (b.push src).2.begin = b.begin ∧
    (b.push src).2.cap = b.cap := by
  obtain ⟨h1, h2⟩ := h
  refine ⟨?_, ⟨?_, ?_⟩, rfl, rfl, rfl⟩
  · simp only [Buffer.push, Buffer.pending]
    rw [List.drop_append_of_le_length h1]
  · simp [Buffer.push]; omega
  · simp [Buffer.push, List.length_take]; omega


/-! ## in-memory vectored read into fresh buffers -/

/-- `Vec::with_capacity(c)` for each capacity -/
def fresh (caps : List Nat) : List MBuf := caps.map fun c => ⟨[], 0, c⟩

/-- members after the copy loop, before the length is recorded -/
def written : List Nat → Bytes → List MBuf
  | [], _ => []
  | c :: cs, s => ⟨s.take c, 0, c⟩ :: written cs (s.drop c)

/-- the reference: the source cut by capacities, each member holding (and recording) its chunk -/
def filled : List Nat → Bytes → List MBuf
  | [], _ => []
  | c :: cs, s => ⟨s.take c, (s.take c).length, c⟩ :: filled cs (s.drop c)

theorem written_nil (caps : List Nat) : written caps [] = fresh caps := by
  induction caps with
  | nil => rfl
  | cons c cs ih => simp [written, fresh] at ih ⊢; exact ih

theorem viewCaps_fresh (caps : List Nat) : viewCaps (fresh caps) 0 = caps := by
  induction caps with
  | nil => rfl
  | cons c cs ih => simp only [fresh, List.map_cons, viewCaps] at ih ⊢; rw [ih]; simp

theorem take_min_length (s : Bytes) (c : Nat) : s.take (min s.length c) = s.take c := by
  rcases Nat.le_total s.length c with h | h
  · rw [Nat.min_eq_left h, List.take_of_length_le (Nat.le_refl _), List.take_of_length_le h]
  · rw [Nat.min_eq_right h]

theorem scatterGo_fresh : ∀ (caps : List Nat) (s : Bytes), scatterGo (fresh caps) 0 s = written caps s := by
  intro caps
  induction caps with
  | nil => intro s; rfl
  | cons c cs ih =>
    intro s
    simp only [fresh, List.map_cons, scatterGo, written, Nat.sub_zero]
    have hov : overlay ([] : Bytes) 0 (s.take (min s.length c)) = s.take c := by
      simp [overlay, take_min_length]
    rw [hov]
    split
    · rename_i he
      have hd : s.drop c = [] := by
        have : s.drop (min s.length c) = [] := by simpa using he
        apply List.eq_nil_of_length_eq_zero
        have hl := congrArg List.length this
        simp [List.length_drop] at hl ⊢
        omega
      rw [hd, written_nil]
      rfl
    · rename_i he
      have hmin : min s.length c = c := by
        rcases Nat.le_total s.length c with h | h
        · exfalso
          apply he
          rw [Nat.min_eq_left h]
          simp
        · exact Nat.min_eq_right h
      rw [hmin]
      have := ih (s.drop c)
      simp only [fresh] at this
      rw [this]

theorem sumNat_initLens_written (caps : List Nat) (s : Bytes) : sumNat (initLens (written caps s) 0) = 0 := by
  induction caps generalizing s with
  | nil => rfl
  | cons c cs ih => simp [written, initLens, sumNat, ih]

theorem written_eq_filled_of_zero : ∀ (caps : List Nat) (s : Bytes), min s.length (sumNat caps) = 0 →
    written caps s = filled caps s := by
  intro caps
  induction caps with
  | nil => intro s _; rfl
  | cons c cs ih =>
    intro s h
    simp only [sumNat] at h
    simp only [written, filled]
    have h0 : (s.take c).length = 0 := by rw [List.length_take]; omega
    rw [h0, ih (s.drop c) (by rw [List.length_drop]; omega)]

theorem setLenAll_written : ∀ (caps : List Nat) (s : Bytes),
    setLenAll (written caps s) (min s.length (sumNat caps)) = .ok (filled caps s) := by
  intro caps
  induction caps with
  | nil => intro s; rfl
  | cons c cs ih =>
    intro s
    by_cases h0 : min s.length (sumNat (c :: cs)) = 0
    · rw [h0, ← written_eq_filled_of_zero (c :: cs) s h0]
      simp [written, setLenAll]
    · simp only [written, filled, setLenAll, if_neg h0]
      simp only [sumNat] at h0 ⊢
      have hsub : min c (min s.length (c + sumNat cs)) = (s.take c).length := by
        rw [List.length_take]; omega
      have hrest : min s.length (c + sumNat cs) - (s.take c).length =
          min (s.drop c).length (sumNat cs) := by
        rw [List.length_drop, List.length_take]; omega
      simp only [MBuf.setLen, hsub, Nat.le_refl, if_true, hrest, ih (s.drop c)]

/-- **in-memory vectored read into fresh buffers** (`&[u8]::read_vectored`, `[u8]::read_vectored_at`,
`Cursor`, `BufReader::read_vectored`): the source is cut by capacities, in order, every member
records exactly its chunk, the count is `min(|src|, total capacity)`. No panic. -/
theorem memReadVectored_fresh (src : Bytes) (caps : List Nat) :
    memReadVectored src (VS.plain (fresh caps)) =
      (.ok (min src.length (sumNat caps)), VS.plain (filled caps src)) := by
  unfold memReadVectored
  simp only [VS.plain, VS.viewCaps, List.drop_zero, List.take_zero, List.nil_append, viewCaps_fresh,
    scatterGo_fresh]
  unfold VS.advanceVecTo
  have hinit : (⟨written caps src, 0, 0, 0⟩ : VS).initOk = true := by
    unfold VS.initOk
    split <;> simp
  simp only [hinit, Bool.not_true, Bool.false_eq_true, if_false, VS.initLens, List.drop_zero,
    sumNat_initLens_written, Nat.zero_add]
  by_cases h0 : min src.length (sumNat caps) = 0
  · rw [h0, if_neg (by omega), written_eq_filled_of_zero caps src h0]
  · rw [if_pos (by omega), setLenAll_written]

/-- the concatenation of the chunks is the prefix of the source that fits -/
theorem filled_flatten : ∀ (caps : List Nat) (s : Bytes),
    ((filled caps s).map MBuf.data).flatten = s.take (sumNat caps) := by
  intro caps
  induction caps with
  | nil => intro s; simp [filled, sumNat]
  | cons c cs ih =>
    intro s
    simp only [filled, List.map_cons, List.flatten_cons, ih, sumNat, MBuf.data]
    rw [List.take_of_length_le (Nat.le_refl _), List.take_add]


/-! ## the default vectored loop on partially filled fresh buffers -/

/-- `slice_mut(n)` only looks at capacities -/
def posAt : List Nat → Nat → Nat × Nat
  | [], off => (0, off)
  | c :: cs, off => if c > off then (0, off) else ((posAt cs (off - c)).1 + 1, (posAt cs (off - c)).2)

theorem sliceMutPos_filled : ∀ (caps : List Nat) (d : Bytes) (n : Nat),
    sliceMutPos (filled caps d) n = posAt caps n := by
  intro caps
  induction caps with
  | nil => intro d n; rfl
  | cons c cs ih =>
    intro d n
    simp only [filled, sliceMutPos, posAt]
    split
    · rfl
    · rw [ih]

theorem filled_nil (caps : List Nat) : filled caps [] = fresh caps := by
  induction caps with
  | nil => rfl
  | cons c cs ih => simp [filled, fresh] at ih ⊢; exact ih

theorem viewCaps_filled (caps : List Nat) (d : Bytes) : viewCaps (filled caps d) 0 = caps := by
  induction caps generalizing d with
  | nil => rfl
  | cons c cs ih => simp only [filled, viewCaps, ih]; simp

/-- the member `slice_mut(|d|)` points into: recorded length = offset = what was written, room left -/
theorem filled_at_pos : ∀ (caps : List Nat) (d : Bytes), d.length < sumNat caps →
    ∃ m, (filled caps d)[(posAt caps d.length).1]? = some m ∧ m.len = (posAt caps d.length).2 ∧
      m.mem.length = m.len ∧ (posAt caps d.length).2 < m.cap ∧
      m.cap - (posAt caps d.length).2 ≤ sumNat caps - d.length := by
  intro caps
  induction caps with
  | nil => intro d h; simp [sumNat] at h
  | cons c cs ih =>
    intro d h
    simp only [sumNat] at h
    simp only [filled, posAt, sumNat]
    split
    · rename_i hc
      refine ⟨_, rfl, ?_, rfl, hc, ?_⟩
      · simp [List.length_take]; omega
      · simp only []; omega
    · rename_i hc
      have hl : (d.drop c).length = d.length - c := List.length_drop
      obtain ⟨m, h1, h2, h3, h4, h5⟩ := ih (d.drop c) (by omega)
      rw [hl] at h1 h2 h4 h5
      exact ⟨m, by simpa using h1, h2, h3, h4, by simp only []; omega⟩

theorem setLenAll_zero (bufs : List MBuf) : setLenAll bufs 0 = .ok bufs := by
  cases bufs <;> simp [setLenAll]

/-- the bytes of one `read` land behind what is already there and the recorded lengths follow -/
theorem setLenAll_fill : ∀ (caps : List Nat) (d bs : Bytes), d.length < sumNat caps → 0 < bs.length →
    (∀ m, (filled caps d)[(posAt caps d.length).1]? = some m → bs.length ≤ m.cap - (posAt caps d.length).2) →
    setLenAll
      (modifyNth (fun b => { b with mem := overlay b.mem (posAt caps d.length).2 bs }) (filled caps d)
        (posAt caps d.length).1)
      (d.length + bs.length) = .ok (filled caps (d ++ bs)) := by
  intro caps
  induction caps with
  | nil => intro d bs h; simp [sumNat] at h
  | cons c cs ih =>
    intro d bs h hb hroom
    simp only [sumNat] at h
    simp only [filled, posAt] at hroom ⊢
    split
    · rename_i hc
      have hdt : d.take c = d := List.take_of_length_le (by omega)
      have hdd : d.drop c = [] := List.drop_of_length_le (by omega)
      have hr := hroom ⟨d.take c, (d.take c).length, c⟩ (by simp [hc])
      simp only [hc, if_true] at hr
      simp only [modifyNth, setLenAll, hdt, hdd]
      rw [if_neg (by omega)]
      have hov : overlay d d.length bs = d ++ bs := overlay_at_end d bs
      have hsub : min c (d.length + bs.length) = d.length + bs.length := by omega
      simp only [hov, MBuf.setLen, hsub, List.length_append, Nat.le_refl, if_true, Nat.sub_self,
        setLenAll_zero]
      have h1 : (d ++ bs).take c = d ++ bs := List.take_of_length_le (by simp; omega)
      have h2 : (d ++ bs).drop c = [] := List.drop_of_length_le (by simp; omega)
      rw [h1, h2]
      simp
    · rename_i hc
      have hl : (d.drop c).length = d.length - c := List.length_drop
      have htl : (d.take c).length = c := by rw [List.length_take]; omega
      simp only [hc, if_false] at hroom
      simp only [modifyNth, setLenAll]
      rw [if_neg (by omega)]
      have hsub : min c (d.length + bs.length) = c := by omega
      simp only [MBuf.setLen, hsub, htl, Nat.le_refl, if_true]
      have hih := ih (d.drop c) bs (by omega) hb (by
        intro m hm
        rw [hl] at hm ⊢
        exact hroom m (by simpa using hm))
      rw [hl] at hih
      have hlen : d.length + bs.length - c = d.length - c + bs.length := by omega
      rw [hlen, hih]
      have h1 : (d ++ bs).take c = d.take c := by rw [List.take_append_of_le_length (by omega)]
      have h2 : (d ++ bs).drop c = d.drop c ++ bs := by rw [List.drop_append_of_le_length (by omega)]
      rw [h1, h2, htl]

theorem modifyNth_id {α : Type} (f : α → α) (hf : ∀ a, f a = a) : ∀ (l : List α) (n : Nat), modifyNth f l n = l := by
  intro l
  induction l with
  | nil => intro n; rfl
  | cons a r ih => intro n; cases n <;> simp [modifyNth, hf, ih]

/-- **filling the view the default loop selects** (`VectoredBufIter` over `slice_mut(|d|)`): after `d`
was delivered into fresh buffers, a read of `bs` (at most the room of the current member) leaves the
buffers as if `d ++ bs` had been delivered; the loop picks the first view, which has room. -/
theorem fillView_filled (caps : List Nat) (d bs : Bytes) (h : d.length < sumNat caps) :
    ∃ room, 0 < room ∧ room ≤ sumNat caps - d.length ∧
      firstRoom (VS.sliceMut (filled caps d) d.length).viewCaps 0 = some (0, room) ∧
      (bs.length ≤ room →
        (VS.sliceMut (filled caps d) d.length).fillView 0 bs =
          .ok { (VS.sliceMut (filled caps d) d.length) with bufs := filled caps (d ++ bs) }) := by
  obtain ⟨m, h1, h2, h3, h4, h5⟩ := filled_at_pos caps d h
  have hdrop : (filled caps d).drop (posAt caps d.length).1 = m :: (filled caps d).drop ((posAt caps d.length).1 + 1) := by
    rw [List.getElem?_eq_some_iff] at h1
    obtain ⟨hlt, he⟩ := h1
    rw [← he]
    exact List.drop_eq_getElem_cons hlt
  refine ⟨m.cap - (posAt caps d.length).2, by omega, h5, ?_, ?_⟩
  · simp only [VS.sliceMut, VS.viewCaps, sliceMutPos_filled, hdrop, viewCaps, firstRoom]
    rw [if_pos (by omega)]
  · intro hb
    simp only [VS.fillView, VS.sliceMut, sliceMutPos_filled, VS.initOk, h1, h2, VS.initLens, hdrop, initLens]
    simp only [Nat.le_refl, decide_true, Bool.not_true, Bool.false_eq_true, if_false, if_true,
      List.getElem?_cons_zero, Option.getD_some, Nat.sub_self, Nat.add_zero]
    by_cases hz : bs.length = 0
    · have hbs : bs = [] := List.eq_nil_of_length_eq_zero hz
      subst hbs
      simp only [List.length_nil, Nat.lt_irrefl, if_false, List.append_nil]
      rw [modifyNth_id]
      intro a
      simp
    · rw [if_pos (by omega)]
      have := setLenAll_fill caps d bs h (by omega) (by
        intro m' hm'
        rw [h1] at hm'
        cases hm'
        exact hb)
      rw [this]

end Compio.Io
