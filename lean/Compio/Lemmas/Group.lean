/-
Helper lemmas for Model/Group.lean: the `while` loop of `ProcessGroup::send` characterised segment by
segment (`scan_seg`: a stretch without wrap-around, `scan_wrap`: the stretch up to the end of the vector
followed by the wrapped stretch).
-/
import Compio.Model.Group

namespace Compio.Group
set_option linter.unusedSimpArgs false

variable {α : Type}

@[simp] theorem scan_zero (status : α → Status) (ms : List α) (i : Nat) (sf : Bool) :
    scan status 0 ms i sf = (giveUp sf, ms) := by
  simp [scan]

/-- the members not accepting: asked and passed over -/
abbrev nonOk (status : α → Status) : α → Bool := fun m => !isOk status m

/-- outcome after a fully scanned segment `T`, continuing with `k` -/
def segOutcome (status : α → Status) (T : List α) (k : Outcome α) : Outcome α :=
  match T.dropWhile (nonOk status) with
  | m :: _ => .delivered m
  | [] => k

theorem status_cases (status : α → Status) (m : α) :
    (status m = .ok ∧ isOk status m = true ∧ isFull status m = false ∧ isClosed status m = false) ∨
    (status m = .full ∧ isOk status m = false ∧ isFull status m = true ∧ isClosed status m = false) ∨
    (status m = .closed ∧ isOk status m = false ∧ isFull status m = false ∧ isClosed status m = true) := by
  unfold isOk isFull isClosed
  cases h : status m <;> simp

theorem length_append3_pos (A T B : List α) (m : α) : A.length < (A ++ m :: T ++ B).length := by
  simp

/-- A stretch `T` of the vector scanned without wrapping: `A` before it, `B` after it, exactly `|T|`
attempts left. -/
theorem scan_seg (status : α → Status) :
    ∀ (T A B : List α) (sf : Bool) (idx : Nat), (T ≠ [] → idx = A.length) →
      scan status T.length (A ++ T ++ B) idx sf =
        (segOutcome status T (giveUp (sf || T.any (isFull status))),
         A ++ evictSeg status T ++ B) := by
  intro T
  induction T with
  | nil =>
    intro A B sf idx _
    simp [segOutcome, evictSeg, met]
  | cons m T ih =>
    intro A B sf idx hidx
    have hi : idx = A.length := hidx (by simp)
    subst hi
    have hne : (A ++ m :: T ++ B).isEmpty = false := by simp
    have hget : (A ++ m :: T ++ B)[A.length]? = some m := by simp
    rw [List.length_cons, scan]
    simp only [hne, hget]
    rcases status_cases status m with ⟨hs, hok, hfu, hcl⟩ | ⟨hs, hok, hfu, hcl⟩ | ⟨hs, hok, hfu, hcl⟩
    · -- accepts
      simp [hs, segOutcome, evictSeg, met, List.dropWhile_cons, List.takeWhile_cons, hok]
    · -- full: kept, go on with the next index
      simp only [hs]
      have key := ih (A ++ [m]) B true ((A.length + 1) % (A ++ m :: T ++ B).length) (by
        intro hT
        have : A.length + 1 < (A ++ m :: T ++ B).length := by
          cases T with
          | nil => exact absurd rfl hT
          | cons t T' => simp only [List.length_append, List.length_cons]; omega
        rw [Nat.mod_eq_of_lt this]; simp)
      have e1 : A ++ [m] ++ T ++ B = A ++ m :: T ++ B := by simp
      rw [e1] at key
      rw [key]
      simp [segOutcome, evictSeg, met, List.dropWhile_cons, List.takeWhile_cons, hok, hfu, hcl, List.filter_cons]
    · -- closed: evicted, same index
      simp only [hs]
      have herase : (A ++ m :: T ++ B).eraseIdx A.length = A ++ T ++ B := by
        rw [List.append_assoc, List.eraseIdx_append_of_length_le (Nat.le_refl _)]
        simp
      rw [herase]
      have key := ih A B sf (if (A ++ T ++ B).isEmpty then A.length else A.length % (A ++ T ++ B).length) (by
        intro hT
        have hlt : A.length < (A ++ T ++ B).length := by
          cases T with
          | nil => exact absurd rfl hT
          | cons t T' => simp only [List.length_append, List.length_cons]; omega
        have hne' : (A ++ T ++ B).isEmpty = false := by
          cases T with
          | nil => exact absurd rfl hT
          | cons t T' => simp
        rw [hne', Nat.mod_eq_of_lt hlt]; simp)
      rw [key]
      simp [segOutcome, evictSeg, met, List.dropWhile_cons, List.takeWhile_cons, hok, hfu, hcl, List.filter_cons]

/-- The first stretch `T` reaches the end of the vector; `A` (the front, asked after wrapping) and `K`
(members already asked and kept) precede it; `|T| + |A|` attempts left. -/
theorem scan_wrap (status : α → Status) :
    ∀ (T A K : List α) (sf : Bool) (idx : Nat),
      (T ≠ [] → idx = (A ++ K).length) → (T = [] → A ≠ [] → idx = 0) →
      scan status (T.length + A.length) (A ++ K ++ T) idx sf =
        (segOutcome status T (segOutcome status A
            (giveUp ((sf || T.any (isFull status)) || A.any (isFull status)))),
         if (T.dropWhile (nonOk status)).isEmpty then evictSeg status A ++ K ++ evictSeg status T
         else A ++ K ++ evictSeg status T) := by
  intro T
  induction T with
  | nil =>
    intro A K sf idx _ h0
    have := scan_seg status A [] K sf idx (by intro hA; simpa using h0 rfl hA)
    simp at this
    simp [this, segOutcome, evictSeg, met]
  | cons m T ih =>
    intro A K sf idx hidx _
    have hi : idx = (A ++ K).length := hidx (by simp)
    subst hi
    have hne : (A ++ K ++ m :: T).isEmpty = false := by simp
    have hget : (A ++ K ++ m :: T)[(A ++ K).length]? = some m := by
      rw [List.getElem?_append_right (Nat.le_refl _)]; simp
    have hfuel : (m :: T).length + A.length = (T.length + A.length) + 1 := by simp; omega
    rw [hfuel, scan]
    simp only [hne, hget]
    rcases status_cases status m with ⟨hs, hok, hfu, hcl⟩ | ⟨hs, hok, hfu, hcl⟩ | ⟨hs, hok, hfu, hcl⟩
    · simp [hs, segOutcome, evictSeg, met, List.dropWhile_cons, List.takeWhile_cons, hok]
    · simp only [hs]
      have key := ih A (K ++ [m]) true (((A ++ K).length + 1) % (A ++ K ++ m :: T).length)
        (by
          intro hT
          have : (A ++ K).length + 1 < (A ++ K ++ m :: T).length := by
            cases T with
            | nil => exact absurd rfl hT
            | cons t T' => simp only [List.length_append, List.length_cons]; omega
          rw [Nat.mod_eq_of_lt this]; simp only [List.length_append, List.length_cons, List.length_nil]; omega)
        (by
          intro hT _
          subst hT
          have : (A ++ K ++ [m]).length = (A ++ K).length + 1 := by
            simp only [List.length_append, List.length_cons, List.length_nil]
          rw [this, Nat.mod_self])
      have e1 : A ++ (K ++ [m]) ++ T = A ++ K ++ m :: T := by simp
      rw [e1] at key
      rw [key]
      simp [segOutcome, evictSeg, met, List.dropWhile_cons, List.takeWhile_cons, hok, hfu, hcl, List.filter_cons]
    · simp only [hs]
      have herase : (A ++ K ++ m :: T).eraseIdx (A ++ K).length = A ++ K ++ T := by
        rw [List.eraseIdx_append_of_length_le (Nat.le_refl _)]
        simp
      rw [herase]
      have key := ih A K sf
        (if (A ++ K ++ T).isEmpty then (A ++ K).length else (A ++ K).length % (A ++ K ++ T).length)
        (by
          intro hT
          have hlt : (A ++ K).length < (A ++ K ++ T).length := by
            cases T with
            | nil => exact absurd rfl hT
            | cons t T' => simp
          have hne' : (A ++ K ++ T).isEmpty = false := by
            cases T with
            | nil => exact absurd rfl hT
            | cons t T' => simp
          rw [hne', Nat.mod_eq_of_lt hlt]; simp)
        (by
          intro hT hA
          subst hT
          have hne' : (A ++ K ++ []).isEmpty = false := by
            cases A with
            | nil => exact absurd rfl hA
            | cons a A' => simp
          rw [hne']
          simp)
      rw [key]
      simp [segOutcome, evictSeg, met, List.dropWhile_cons, List.takeWhile_cons, hok, hfu, hcl, List.filter_cons]

/-! ### relating the segment forms to `find?` -/

theorem dropWhile_nonOk_find (status : α → Status) (l : List α) :
    (l.dropWhile (nonOk status)).head? = l.find? (isOk status) := by
  induction l with
  | nil => simp
  | cons a l ih =>
    by_cases h : isOk status a = true
    · simp [List.dropWhile_cons, List.find?_cons, h]
    · simp only [Bool.not_eq_true] at h
      simp [List.dropWhile_cons, List.find?_cons, h, ih]

theorem segOutcome_eq (status : α → Status) (T : List α) (k : Outcome α) :
    segOutcome status T k = match T.find? (isOk status) with
      | some m => .delivered m
      | none => k := by
  unfold segOutcome
  rw [← dropWhile_nonOk_find]
  cases T.dropWhile (nonOk status) <;> simp

theorem dropWhile_isEmpty_iff (status : α → Status) (T : List α) :
    (T.dropWhile (nonOk status)).isEmpty = T.all (nonOk status) := by
  induction T with
  | nil => simp
  | cons a l ih =>
    by_cases h : isOk status a = true
    · simp [List.dropWhile_cons, h]
    · simp only [Bool.not_eq_true] at h
      simp [List.dropWhile_cons, h, ih]

end Compio.Group
