/-
Preservation of the invariant by every operation other than `tick`: spawn, JoinHandle poll / drop /
detach / cancel, waker wake / drop, executor drop; then by `apply` and `run`.
-/
import Compio.Lemmas.ExecutorTick

namespace Compio.Executor
open Compio.TaskWord Compio.Gen
set_option linter.unusedSimpArgs false
set_option linter.unusedVariables false

/-! ## more per-task facts -/

theorem dropRef_nc (t : TaskSt) : (dropRef t).word.notCancelled = t.word.notCancelled := by
  obtain ⟨⟨s, sg, nsw, hw, c, hr, nc, cnt⟩, st, slot, script, sh, hd, wk, polls, fd, rt, rd, ss, sd, de, uaf, bp⟩ := t
  cases hr <;> cases hw <;> simp [dropRef] <;> split <;> split <;> rfl

theorem pollTask_nc (t : TaskSt) (w : Nat) : (pollTask t w).1.word.notCancelled = t.word.notCancelled := by
  obtain ⟨⟨s, sg, nsw, hw, c, hr, nc, cnt⟩, st, slot, script, sh, hd, wk, polls, fd, rt, rd, ss, sd, de, uaf, bp⟩ := t
  cases hr <;> cases nc <;> cases c <;> cases hw <;> simp [pollTask, dropRef_nc] <;> split <;> rfl

theorem pollTask_polls (t : TaskSt) (w : Nat) : (pollTask t w).1.polls = t.polls := by
  obtain ⟨⟨s, sg, nsw, hw, c, hr, nc, cnt⟩, st, slot, script, sh, hd, wk, polls, fd, rt, rd, ss, sd, de, uaf, bp⟩ := t
  cases hr <;> cases nc <;> cases c <;> cases hw <;> simp [pollTask, dropRef_polls] <;> split <;> rfl

/-- `unreachable!("Task is completed but has no result")` in `Local::poll` is unreachable -/
theorem pollTask_valid (q : Bool) (t : TaskSt) (w : Nat) (h : TInv q t) (hh : t.handle = true) :
    (pollTask t w).2 ≠ .invalid := by
  have := h.hd hh
  obtain ⟨⟨s, sg, nsw, hw, c, hr, nc, cnt⟩, st, slot, script, sh, hd, wk, polls, fd, rt, rd, ss, sd, de, uaf, bp⟩ := t
  cases hr <;> cases nc <;> cases c <;> cases hw <;> simp [pollTask] at this ⊢ <;> split <;> simp

/-- a cancelled task's handle never returns Pending (`JoinHandle::cancel` completes at once) -/
theorem pollTask_cancelled (t : TaskSt) (w : Nat) (hc : t.word.notCancelled = false) :
    (pollTask t w).2 = .ok ∨ (pollTask t w).2 = .panicked ∨ (pollTask t w).2 = .cancelled := by
  obtain ⟨⟨s, sg, nsw, hw, c, hr, nc, cnt⟩, st, slot, script, sh, hd, wk, polls, fd, rt, rd, ss, sd, de, uaf, bp⟩ := t
  simp at hc; subst hc
  cases hr <;> simp [pollTask]
  split <;> simp_all

/-! ## `Local::schedule` -/

theorem scheduleLocal_cases (e : Exec) (id : Nat) :
    scheduleLocal e id = e ∨
    (id ∈ e.cold ∧ scheduleLocal e id = { e with cold := e.cold.erase id, hot := e.hot ++ [id] }) := by
  unfold scheduleLocal
  cases hg : e.get? id with
  | none => exact Or.inl rfl
  | some t =>
    simp only
    cases t.shared
    · exact Or.inl (by simp)
    · simp only [if_true, makeHot]
      by_cases hc : id ∈ e.cold
      · exact Or.inr ⟨hc, by simp [hc]⟩
      · exact Or.inl (by simp [hc])

theorem scheduleLocal_tasks (e : Exec) (id : Nat) : (scheduleLocal e id).tasks = e.tasks := by
  rcases scheduleLocal_cases e id with h | ⟨_, h⟩ <;> rw [h]

theorem scheduleLocal_alive (e : Exec) (id : Nat) : (scheduleLocal e id).alive = e.alive := by
  rcases scheduleLocal_cases e id with h | ⟨_, h⟩ <;> rw [h]

theorem scheduleLocal_woken (e : Exec) (id : Nat) : (scheduleLocal e id).woken = e.woken := by
  rcases scheduleLocal_cases e id with h | ⟨_, h⟩ <;> rw [h]

theorem scheduleLocal_get? (e : Exec) (id x : Nat) : (scheduleLocal e id).get? x = e.get? x := by
  simp [Exec.get?, scheduleLocal_tasks]

theorem scheduleLocal_qstep {e : Exec} (q : QWf e) (id : Nat) :
    QStep e.hot e.cold id (scheduleLocal e id).hot (scheduleLocal e id).cold := by
  rcases scheduleLocal_cases e id with h | ⟨hc, h⟩ <;> rw [h]
  · exact QStep.refl q id
  · exact QStep.makeHot q hc

theorem scheduleLocal_mem {e : Exec} (q : QWf e) (id : Nat) :
    (id ∈ (scheduleLocal e id).hot ∨ id ∈ (scheduleLocal e id).cold) ↔ (id ∈ e.hot ∨ id ∈ e.cold) := by
  rcases scheduleLocal_cases e id with h | ⟨hc, h⟩ <;> rw [h]
  simp [hc]

/-- after `schedule()` a task that is in the queue (hence has a valid `shared`) is hot -/
theorem scheduleLocal_not_cold {e : Exec} (h : Inv e) {id : Nat} {t : TaskSt} (hg : e.get? id = some t) :
    id ∈ (scheduleLocal e id).cold → False := by
  intro hc
  unfold scheduleLocal at hc
  rw [hg] at hc
  simp only at hc
  by_cases hcold : id ∈ e.cold
  · have ht := h.t id t hg
    rw [(inMap_iff e id).mpr (Or.inr hcold)] at ht
    rw [ht.inq_sh rfl] at hc
    simp [makeHot, hcold] at hc
    exact ((h.q.cnd.mem_erase_iff).mp hc).1 rfl
  · cases hs : t.shared <;> rw [hs] at hc <;> simp [makeHot, hcold] at hc

/-- invariant after an operation that calls `schedule()` (or not) and then rewrites task `id` -/
theorem Inv.update_sched {e : Exec} (h : Inv e) {id : Nat} {t t' : TaskSt} (hg : e.get? id = some t)
    (ht : TInv (inMap e id) t') : Inv ((scheduleLocal e id).setTask id t') := by
  refine h.update hg (scheduleLocal_qstep h.q id) (inMap e id) ?_ ht (fun _ => scheduleLocal_not_cold h hg) _
    (by simp [Exec.setTask, scheduleLocal_tasks]) rfl rfl (by simp [Exec.setTask, scheduleLocal_alive])
  rw [scheduleLocal_mem h.q, inMap_iff]

/-- invariant after an operation that only rewrites task `id` and keeps its cancellation flag -/
theorem Inv.update_task {e : Exec} (h : Inv e) {id : Nat} {t t' : TaskSt} (hg : e.get? id = some t)
    (ht : TInv (inMap e id) t') (hn : t'.word.notCancelled = t.word.notCancelled) : Inv (e.setTask id t') := by
  refine h.update hg (QStep.refl h.q id) (inMap e id) (by rw [inMap_iff]) ht ?_ _ rfl rfl rfl rfl
  intro hc hcold
  exact h.c id t hg (by rw [← hn]; exact hc) hcold

/-! ## the operations -/

theorem handlePoll_inv {e : Exec} (h : Inv e) (id w : Nat) : Inv (handlePoll e id w).1 := by
  unfold handlePoll
  cases hg : e.get? id with
  | none => exact h
  | some t =>
    simp only
    cases hh : t.handle
    · exact h
    · exact h.update_task hg (pollTask_inv _ t w (h.t id t hg) hh) (pollTask_nc t w)

theorem handleDetach_inv {e : Exec} (h : Inv e) (id : Nat) : Inv (handleDetach e id).1 := by
  unfold handleDetach
  cases hg : e.get? id with
  | none => exact h
  | some t =>
    simp only
    cases hh : t.handle
    · exact h
    · exact h.update_task hg (detachedTask_inv _ t (h.t id t hg) hh) (by rw [dropRef_nc])

theorem handleDrop_inv {e : Exec} (h : Inv e) (id : Nat) : Inv (handleDrop e id).1 := by
  unfold handleDrop
  cases hg : e.get? id with
  | none => exact h
  | some t =>
    simp only
    cases hh : t.handle
    · exact h
    · exact h.update_sched hg (handleDropTask_inv _ t (h.t id t hg) hh)

theorem cancelTask_inv {e : Exec} (h : Inv e) (id : Nat) : Inv (cancelTask e id false) := by
  unfold cancelTask
  cases hg : e.get? id with
  | none => exact h
  | some t => exact h.update_sched hg (cancelWord_inv _ t (h.t id t hg))

theorem handleCancel_inv {e : Exec} (h : Inv e) (id : Nat) : Inv (handleCancel e id).1 := by
  unfold handleCancel
  cases hg : e.get? id with
  | none => exact h
  | some t =>
    simp only
    cases hh : t.handle
    · exact h
    · exact cancelTask_inv h id

theorem wakerDrop_inv {e : Exec} (h : Inv e) (id : Nat) : Inv (wakerDrop e id).1 := by
  unfold wakerDrop
  cases hg : e.get? id with
  | none => exact h
  | some t =>
    simp only
    by_cases hw : t.wakers = 0
    · simp [hw]; exact h
    · simp only [hw, if_false]
      exact h.update_task hg (wakerDropTask_inv _ t (h.t id t hg) hw) (by rw [dropRef_nc])

theorem scheduleLocal_inv {e : Exec} (h : Inv e) (id : Nat) : Inv (scheduleLocal e id) := by
  cases hg : e.get? id with
  | none => simp [scheduleLocal, hg]; exact h
  | some t =>
    have := h.update_sched hg (t' := t) (h.t id t hg)
    have he : (scheduleLocal e id).setTask id t = scheduleLocal e id := by
      have : (scheduleLocal e id).tasks.set id t = (scheduleLocal e id).tasks := by
        rw [scheduleLocal_tasks]
        apply List.ext_getElem?
        intro i
        by_cases hi : id = i
        · subst hi; rw [List.getElem?_set_self (get?_lt hg)]; exact hg.symm
        · rw [List.getElem?_set_ne hi]
      simp [Exec.setTask, this]
    rwa [he] at this

theorem wakeLocal_inv {e : Exec} (h : Inv e) (id : Nat) : Inv (wakeLocal e id).1 := by
  unfold wakeLocal
  cases hg : e.get? id with
  | none => exact h
  | some t =>
    simp only
    by_cases hw : t.wakers = 0
    · simp [hw]; exact h
    · simp only [hw, if_false]
      exact scheduleLocal_inv h id

theorem spawn_inv {e : Exec} (h : Inv e) (ha : e.alive = true) (sc : List Outcome) : Inv (spawn e sc).1 := by
  have hnh : e.tasks.length ∉ e.hot := fun hm => Nat.lt_irrefl _ (h.q.hval _ hm)
  have hnc : e.tasks.length ∉ e.cold := fun hm => Nat.lt_irrefl _ (h.q.cval _ hm)
  refine ⟨⟨?_, h.q.cnd, ?_, ?_, ?_⟩, ?_, ?_, ?_⟩
  · simp only [spawn]
    rw [List.nodup_append]
    refine ⟨h.q.hnd, by simp, ?_⟩
    intro a ha b hb
    simp at hb; subst hb
    intro hab; subst hab; exact hnh ha
  · intro x hx hx'
    simp [spawn] at hx hx'
    rcases hx with hx | hx
    · exact h.q.disj x hx hx'
    · subst hx; exact hnc hx'
  · intro x hx
    simp [spawn] at hx ⊢
    rcases hx with hx | hx
    · have := h.q.hval x hx; omega
    · omega
  · intro x hx
    simp [spawn] at hx ⊢
    have := h.q.cval x hx; omega
  · intro x t hx
    simp only [spawn, Exec.get?] at hx
    by_cases hl : x < e.tasks.length
    · rw [List.getElem?_append_left hl] at hx
      have hne : x ≠ e.tasks.length := by omega
      have : inMap (spawn e sc).1 x = inMap e x := by
        apply inMap_eq_of_iff
        simp [spawn, hne]
      rw [this]; exact h.t x t hx
    · rw [List.getElem?_append_right (by omega)] at hx
      have hxe : x = e.tasks.length := by
        rcases Nat.lt_or_ge (x - e.tasks.length) 1 with h1 | h1
        · omega
        · rw [List.getElem?_eq_none (by simpa using h1)] at hx; cases hx
      subst hxe
      simp at hx; subst hx
      have : inMap (spawn e sc).1 e.tasks.length = true := by
        rw [inMap_iff]; simp [spawn]
      rw [this]; exact spawnedTask_inv sc
  · intro x t hx hc hcold
    simp only [spawn, Exec.get?] at hx hcold
    by_cases hl : x < e.tasks.length
    · rw [List.getElem?_append_left hl] at hx
      exact h.c x t hx hc hcold
    · exact hl (h.q.cval x hcold)
  · intro hd
    simp [spawn, ha] at hd

/-! ## `Executor::clear` -/

/-- what `Executor::clear` does to a task that is still in the map -/
def clearedTask (t : TaskSt) : TaskSt := dropRef (taskDropByExecutor t)

theorem clearTask_get? (e : Exec) (id x : Nat) :
    (clearTask e id).get? x = if x = id then (e.get? id).map clearedTask else e.get? x := by
  unfold clearTask
  cases hg : e.get? id with
  | none =>
    by_cases hx : x = id
    · subst hx; simp [hg]
    · simp [hx]
  | some t =>
    by_cases hx : x = id
    · subst hx; simp [get?_setTask_self _ hg, clearedTask]
    · simp [hx, get?_setTask_ne e _ hx]

theorem clearTask_fields (e : Exec) (id : Nat) :
    (clearTask e id).hot = e.hot ∧ (clearTask e id).cold = e.cold ∧ (clearTask e id).woken = e.woken ∧
    (clearTask e id).alive = e.alive := by
  unfold clearTask
  cases e.get? id <;> simp [Exec.setTask]

theorem foldl_clearTask (l : List Nat) : ∀ (e : Exec), l.Nodup →
    (∀ x, (l.foldl clearTask e).get? x = if x ∈ l then (e.get? x).map clearedTask else e.get? x) ∧
    (l.foldl clearTask e).woken = e.woken := by
  induction l with
  | nil => intro e _; simp
  | cons a l ih =>
    intro e hnd
    rw [List.nodup_cons] at hnd
    obtain ⟨ih1, ih2⟩ := ih (clearTask e a) hnd.2
    refine ⟨?_, by simp [List.foldl_cons, ih2, (clearTask_fields e a).2.2.1]⟩
    intro x
    rw [List.foldl_cons, ih1, clearTask_get?]
    by_cases hxa : x = a
    · subst hxa; simp [hnd.1]
    · simp [hxa]

theorem execDrop_inv {e : Exec} (h : Inv e) : Inv (execDrop e) := by
  have hnd : (e.hot ++ e.cold).Nodup := by
    rw [List.nodup_append]
    refine ⟨h.q.hnd, h.q.cnd, ?_⟩
    intro a ha b hb hab; subst hab; exact h.q.disj a ha hb
  obtain ⟨f1, f2⟩ := foldl_clearTask (e.hot ++ e.cold) e hnd
  have hin : ∀ x, inMap (execDrop e) x = false := by
    intro x; rw [inMap_false_iff]; simp [execDrop, clearAll]
  refine ⟨⟨by simp [execDrop, clearAll], by simp [execDrop, clearAll], by simp [execDrop, clearAll],
    by simp [execDrop, clearAll], by simp [execDrop, clearAll]⟩, ?_, by simp [execDrop, clearAll], by simp [execDrop, clearAll]⟩
  intro x t hx
  rw [hin x]
  have hx' : ((e.hot ++ e.cold).foldl clearTask e).get? x = some t := hx
  rw [f1] at hx'
  by_cases hm : x ∈ e.hot ++ e.cold
  · rw [if_pos hm] at hx'
    obtain ⟨t0, hg0, ht0⟩ := h.get_of_mem (id := x) (by simpa using hm)
    rw [hg0] at hx'
    simp at hx'; subst hx'
    exact clearedTask_inv t0 ht0
  · rw [if_neg hm] at hx'
    have := h.t x t hx'
    rwa [(inMap_false_iff e x).mpr (by simpa using hm)] at this

theorem tick_inv {e : Exec} (h : Inv e) (n : Nat) : Inv (tick e n).1 := tickLoop_inv n e h

theorem apply_inv {e : Exec} (h : Inv e) (op : Op) : Inv (apply e op) := by
  unfold apply applyR
  cases op with
  | spawn sc => cases ha : e.alive <;> simp [ha]; exact h; exact spawn_inv h ha sc
  | tick n => cases ha : e.alive <;> simp [ha]; exact h; exact tick_inv h n
  | hpoll id w => exact handlePoll_inv h id w
  | hdrop id => exact handleDrop_inv h id
  | hdetach id => exact handleDetach_inv h id
  | hcancel id =>
    simp only
    cases hb : (handleCancel e id).2
    · exact h
    · exact handlePoll_inv (handleCancel_inv h id) id noopWaker
  | wake id => exact wakeLocal_inv h id
  | wdrop id => exact wakerDrop_inv h id
  | xdrop => cases ha : e.alive <;> simp [ha]; exact h; exact execDrop_inv h

theorem init_inv : Inv Exec.init := by
  refine ⟨⟨by simp [Exec.init], by simp [Exec.init], by simp [Exec.init], by simp [Exec.init],
    by simp [Exec.init]⟩, ?_, by simp [Exec.init], by simp [Exec.init]⟩
  intro x t hx; simp [Exec.init, Exec.get?] at hx

theorem run_append (ops : List Op) (op : Op) : run (ops ++ [op]) = apply (run ops) op := by
  simp [run, List.foldl_append]

/-- the invariant holds after every program -/
theorem run_inv (ops : List Op) : Inv (run ops) := by
  have : ∀ (e : Exec), Inv e → Inv (ops.foldl apply e) := by
    induction ops with
    | nil => intro e h; exact h
    | cons op ops ih => intro e h; exact ih _ (apply_inv h op)
  exact this _ init_inv

/-! ## closed forms of the handle / waker operations -/

theorem handlePoll_live {e : Exec} {id : Nat} {t : TaskSt} (w : Nat) (hg : e.get? id = some t)
    (hh : t.handle = true) : handlePoll e id w = (e.setTask id (pollTask t w).1, (pollTask t w).2) := by
  simp [handlePoll, hg, hh]

theorem handlePoll_dead {e : Exec} {id : Nat} (w : Nat) (hd : ∀ t, e.get? id = some t → t.handle = false) :
    handlePoll e id w = (e, .invalid) := by
  unfold handlePoll
  cases hg : e.get? id with
  | none => rfl
  | some t => simp [hd t hg]

theorem handleDrop_live {e : Exec} {id : Nat} {t : TaskSt} (hg : e.get? id = some t) (hh : t.handle = true) :
    handleDrop e id = ((scheduleLocal e id).setTask id (dropRef { cancelWord t true with handle := false }), true) := by
  simp [handleDrop, hg, hh]

theorem handleDrop_dead {e : Exec} {id : Nat} (hd : ∀ t, e.get? id = some t → t.handle = false) :
    handleDrop e id = (e, false) := by
  unfold handleDrop
  cases hg : e.get? id with
  | none => rfl
  | some t => simp [hd t hg]

theorem handleDetach_live {e : Exec} {id : Nat} {t : TaskSt} (hg : e.get? id = some t) (hh : t.handle = true) :
    handleDetach e id = (e.setTask id (dropRef { t with handle := false }), true) := by
  simp [handleDetach, hg, hh]

theorem handleDetach_dead {e : Exec} {id : Nat} (hd : ∀ t, e.get? id = some t → t.handle = false) :
    handleDetach e id = (e, false) := by
  unfold handleDetach
  cases hg : e.get? id with
  | none => rfl
  | some t => simp [hd t hg]

theorem handleCancel_live {e : Exec} {id : Nat} {t : TaskSt} (hg : e.get? id = some t) (hh : t.handle = true) :
    handleCancel e id = ((scheduleLocal e id).setTask id (cancelWord t false), true) := by
  simp [handleCancel, cancelTask, hg, hh]

theorem handleCancel_dead {e : Exec} {id : Nat} (hd : ∀ t, e.get? id = some t → t.handle = false) :
    handleCancel e id = (e, false) := by
  unfold handleCancel
  cases hg : e.get? id with
  | none => rfl
  | some t => simp [hd t hg]

theorem cancelWord_handle (t : TaskSt) (b : Bool) : (cancelWord t b).handle = t.handle := by
  unfold cancelWord; simp only; split <;> rfl

theorem cancelWord_polls (t : TaskSt) (b : Bool) : (cancelWord t b).polls = t.polls := by
  unfold cancelWord; simp only; split <;> rfl

theorem cancelWord_nc (t : TaskSt) (b : Bool) : (cancelWord t b).word.notCancelled = false := by
  unfold cancelWord; simp only; split <;> rfl

theorem setTask_setTask (e : Exec) (id : Nat) (t t' : TaskSt) : (e.setTask id t).setTask id t' = e.setTask id t' := by
  simp [Exec.setTask]

/-- `JoinHandle::cancel(self).await` on a live handle: cancel, then the first poll -/
theorem hcancel_live {e : Exec} {id : Nat} {t : TaskSt} (hg : e.get? id = some t) (hh : t.handle = true) :
    applyR e (.hcancel id) =
      ((scheduleLocal e id).setTask id (pollTask (cancelWord t false) noopWaker).1,
       .cancel (pollTask (cancelWord t false) noopWaker).2) := by
  have hg2 : ((scheduleLocal e id).setTask id (cancelWord t false)).get? id = some (cancelWord t false) :=
    get?_setTask_self _ (by rw [scheduleLocal_get?]; exact hg)
  simp only [applyR, handleCancel_live hg hh]
  rw [handlePoll_live _ hg2 (by rw [cancelWord_handle]; exact hh)]
  simp [setTask_setTask]

theorem hcancel_dead {e : Exec} {id : Nat} (hd : ∀ t, e.get? id = some t → t.handle = false) :
    applyR e (.hcancel id) = (e, .invalid) := by
  simp [applyR, handleCancel_dead hd]

theorem wakeLocal_live {e : Exec} {id : Nat} {t : TaskSt} (hg : e.get? id = some t) (hw : t.wakers ≠ 0) :
    wakeLocal e id = (scheduleLocal e id, true) := by
  simp [wakeLocal, hg, hw]

theorem wakeLocal_dead {e : Exec} {id : Nat} (hd : ∀ t, e.get? id = some t → t.wakers = 0) :
    wakeLocal e id = (e, false) := by
  unfold wakeLocal
  cases hg : e.get? id with
  | none => rfl
  | some t => simp [hd t hg]

theorem wakerDrop_live {e : Exec} {id : Nat} {t : TaskSt} (hg : e.get? id = some t) (hw : t.wakers ≠ 0) :
    wakerDrop e id = (e.setTask id (dropRef { t with wakers := t.wakers - 1 }), true) := by
  simp [wakerDrop, hg, hw]

theorem wakerDrop_dead {e : Exec} {id : Nat} (hd : ∀ t, e.get? id = some t → t.wakers = 0) :
    wakerDrop e id = (e, false) := by
  unfold wakerDrop
  cases hg : e.get? id with
  | none => rfl
  | some t => simp [hd t hg]

theorem handle_dead_or_live (e : Exec) (id : Nat) :
    (∀ t, e.get? id = some t → t.handle = false) ∨ ∃ t, e.get? id = some t ∧ t.handle = true := by
  cases hg : e.get? id with
  | none => exact Or.inl (by simp)
  | some t =>
    cases hh : t.handle
    · exact Or.inl (by intro t' ht'; cases ht'; exact hh)
    · exact Or.inr ⟨t, rfl, hh⟩

theorem wakers_dead_or_live (e : Exec) (id : Nat) :
    (∀ t, e.get? id = some t → t.wakers = 0) ∨ ∃ t, e.get? id = some t ∧ t.wakers ≠ 0 := by
  cases hg : e.get? id with
  | none => exact Or.inl (by simp)
  | some t =>
    by_cases hh : t.wakers = 0
    · exact Or.inl (by intro t' ht'; cases ht'; exact hh)
    · exact Or.inr ⟨t, rfl, hh⟩

/-- what an operation other than spawn / tick / executor drop can do: nothing, or rewrite ONE task that
still has a live holder (its handle or a waker clone), without polling it, possibly after `schedule()` -/
theorem apply_cases (e : Exec) (op : Op) :
    apply e op = e ∨
    (∃ id t t', e.get? id = some t ∧ (t.handle = true ∨ t.wakers ≠ 0) ∧ t'.polls = t.polls ∧
        (apply e op = e.setTask id t' ∨ apply e op = (scheduleLocal e id).setTask id t')) ∨
    (e.alive = true ∧ ((∃ sc, op = .spawn sc) ∨ (∃ n, op = .tick n) ∨ op = .xdrop)) := by
  cases op with
  | spawn sc =>
    cases ha : e.alive
    · exact Or.inl (by simp [apply, applyR, ha])
    · exact Or.inr (Or.inr ⟨rfl, Or.inl ⟨sc, rfl⟩⟩)
  | tick n =>
    cases ha : e.alive
    · exact Or.inl (by simp [apply, applyR, ha])
    · exact Or.inr (Or.inr ⟨rfl, Or.inr (Or.inl ⟨n, rfl⟩)⟩)
  | xdrop =>
    cases ha : e.alive
    · exact Or.inl (by simp [apply, applyR, ha])
    · exact Or.inr (Or.inr ⟨rfl, Or.inr (Or.inr rfl)⟩)
  | hpoll id w =>
    rcases handle_dead_or_live e id with hd | ⟨t, hg, hh⟩
    · exact Or.inl (by simp [apply, applyR, handlePoll_dead w hd])
    · exact Or.inr (Or.inl ⟨id, t, (pollTask t w).1, hg, Or.inl hh, pollTask_polls t w,
        Or.inl (by simp [apply, applyR, handlePoll_live w hg hh])⟩)
  | hdrop id =>
    rcases handle_dead_or_live e id with hd | ⟨t, hg, hh⟩
    · exact Or.inl (by simp [apply, applyR, handleDrop_dead hd])
    · exact Or.inr (Or.inl ⟨id, t, dropRef { cancelWord t true with handle := false }, hg, Or.inl hh,
        by rw [dropRef_polls]; exact cancelWord_polls t true,
        Or.inr (by simp [apply, applyR, handleDrop_live hg hh])⟩)
  | hdetach id =>
    rcases handle_dead_or_live e id with hd | ⟨t, hg, hh⟩
    · exact Or.inl (by simp [apply, applyR, handleDetach_dead hd])
    · exact Or.inr (Or.inl ⟨id, t, dropRef { t with handle := false }, hg, Or.inl hh, by rw [dropRef_polls],
        Or.inl (by simp [apply, applyR, handleDetach_live hg hh])⟩)
  | hcancel id =>
    rcases handle_dead_or_live e id with hd | ⟨t, hg, hh⟩
    · exact Or.inl (by simp [apply, hcancel_dead hd])
    · exact Or.inr (Or.inl ⟨id, t, (pollTask (cancelWord t false) noopWaker).1, hg, Or.inl hh,
        by rw [pollTask_polls]; exact cancelWord_polls t false,
        Or.inr (by simp [apply, hcancel_live hg hh])⟩)
  | wake id =>
    rcases wakers_dead_or_live e id with hd | ⟨t, hg, hw⟩
    · exact Or.inl (by simp [apply, applyR, wakeLocal_dead hd])
    · refine Or.inr (Or.inl ⟨id, t, t, hg, Or.inr hw, rfl, Or.inr ?_⟩)
      have : (scheduleLocal e id).setTask id t = scheduleLocal e id := by
        have : (scheduleLocal e id).tasks.set id t = (scheduleLocal e id).tasks := by
          rw [scheduleLocal_tasks]
          apply List.ext_getElem?
          intro i
          by_cases hi : id = i
          · subst hi; rw [List.getElem?_set_self (get?_lt hg)]; exact hg.symm
          · rw [List.getElem?_set_ne hi]
        simp [Exec.setTask, this]
      simp [apply, applyR, wakeLocal_live hg hw, this]
  | wdrop id =>
    rcases wakers_dead_or_live e id with hd | ⟨t, hg, hw⟩
    · exact Or.inl (by simp [apply, applyR, wakerDrop_dead hd])
    · exact Or.inr (Or.inl ⟨id, t, dropRef { t with wakers := t.wakers - 1 }, hg, Or.inr hw, by rw [dropRef_polls],
        Or.inl (by simp [apply, applyR, wakerDrop_live hg hw])⟩)

end Compio.Executor
