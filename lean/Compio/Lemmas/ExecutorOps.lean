/-
Preservation of the invariant by every operation other than the loop of `tick`: spawn, JoinHandle poll / drop /
detach / cancel, waker wake / drop — on the home thread and (sequentially) on another thread —, executor
drop; then by `apply` and `run`.
-/
import Compio.Lemmas.ExecutorTick

namespace Compio.Executor
open Compio.TaskWord Compio.Gen
set_option linter.unusedSimpArgs false
set_option linter.unusedVariables false

/-! ## more per-task facts -/

theorem dropRef_nc (t : TaskSt) : (dropRef t).word.notCancelled = t.word.notCancelled := by
  obtain ⟨⟨s, sg, nsw, hw, c, hr, nc, cnt⟩, st, slot, script, sh, hd, wk, polls, fd, rt, rd, ss, sd, de, uaf, bp⟩ := t
  cases hr <;> cases hw <;> simp [dropRef] <;> split <;> split <;> rfl

theorem dropRef_sched (t : TaskSt) : (dropRef t).word.scheduled = t.word.scheduled := by
  obtain ⟨⟨s, sg, nsw, hw, c, hr, nc, cnt⟩, st, slot, script, sh, hd, wk, polls, fd, rt, rd, ss, sd, de, uaf, bp⟩ := t
  cases hr <;> cases hw <;> simp [dropRef] <;> split <;> split <;> rfl

theorem pollTask_nc (t : TaskSt) (w : Nat) : (pollTask t w).1.word.notCancelled = t.word.notCancelled := by
  obtain ⟨⟨s, sg, nsw, hw, c, hr, nc, cnt⟩, st, slot, script, sh, hd, wk, polls, fd, rt, rd, ss, sd, de, uaf, bp⟩ := t
  cases hr <;> cases nc <;> cases c <;> cases hw <;> simp [pollTask, dropRef_nc] <;> split <;> rfl

theorem pollTask_sched (t : TaskSt) (w : Nat) : (pollTask t w).1.word.scheduled = t.word.scheduled := by
  obtain ⟨⟨s, sg, nsw, hw, c, hr, nc, cnt⟩, st, slot, script, sh, hd, wk, polls, fd, rt, rd, ss, sd, de, uaf, bp⟩ := t
  cases hr <;> cases nc <;> cases c <;> cases hw <;> simp [pollTask, dropRef_sched] <;> split <;> rfl

theorem pollTask_polls (t : TaskSt) (w : Nat) : (pollTask t w).1.polls = t.polls := by
  obtain ⟨⟨s, sg, nsw, hw, c, hr, nc, cnt⟩, st, slot, script, sh, hd, wk, polls, fd, rt, rd, ss, sd, de, uaf, bp⟩ := t
  cases hr <;> cases nc <;> cases c <;> cases hw <;> simp [pollTask, dropRef_polls] <;> split <;> rfl

/-- `unreachable!("Task is completed but has no result")` in `Local::poll` is unreachable -/
theorem pollTask_valid (q : Bool) (t : TaskSt) (w : Nat) (h : TInv q t) (hh : t.handle = true) :
    (pollTask t w).2 ≠ .invalid := by
  have := h.hd hh
  obtain ⟨⟨s, sg, nsw, hw, c, hr, nc, cnt⟩, st, slot, script, sh, hd, wk, polls, fd, rt, rd, ss, sd, de, uaf, bp⟩ := t
  cases hr <;> cases nc <;> cases c <;> cases hw <;> simp [pollTask] at this ⊢ <;> split <;> simp

/-- a cancelled task's handle never returns Pending (`JoinHandle::cancel` completes at once) -/
theorem pollTask_cancelled (t : TaskSt) (w : Nat) (hc : t.word.notCancelled = false) :
    (pollTask t w).2 = .ok ∨ (pollTask t w).2 = .panicked ∨ (pollTask t w).2 = .cancelled := by
  obtain ⟨⟨s, sg, nsw, hw, c, hr, nc, cnt⟩, st, slot, script, sh, hd, wk, polls, fd, rt, rd, ss, sd, de, uaf, bp⟩ := t
  simp at hc; subst hc
  cases hr <;> simp [pollTask]
  split <;> simp_all

theorem remotePollTask_nc (t : TaskSt) (w : Nat) : (remotePollTask t w).1.word.notCancelled = t.word.notCancelled := by
  obtain ⟨⟨s, sg, nsw, hw, c, hr, nc, cnt⟩, st, slot, script, sh, hd, wk, polls, fd, rt, rd, ss, sd, de, uaf, bp⟩ := t
  cases hr <;> cases nc <;> cases c <;> cases hw <;> simp [remotePollTask, dropRef_nc] <;> split <;> rfl

theorem remotePollTask_sched (t : TaskSt) (w : Nat) : (remotePollTask t w).1.word.scheduled = t.word.scheduled := by
  obtain ⟨⟨s, sg, nsw, hw, c, hr, nc, cnt⟩, st, slot, script, sh, hd, wk, polls, fd, rt, rd, ss, sd, de, uaf, bp⟩ := t
  cases hr <;> cases nc <;> cases c <;> cases hw <;> simp [remotePollTask, dropRef_sched] <;> split <;> rfl

theorem remotePollTask_polls (t : TaskSt) (w : Nat) : (remotePollTask t w).1.polls = t.polls := by
  obtain ⟨⟨s, sg, nsw, hw, c, hr, nc, cnt⟩, st, slot, script, sh, hd, wk, polls, fd, rt, rd, ss, sd, de, uaf, bp⟩ := t
  cases hr <;> cases nc <;> cases c <;> cases hw <;> simp [remotePollTask, dropRef_polls] <;> split <;> rfl

/-- `Remote::poll` never spins on "completed without result" -/
theorem remotePollTask_valid (q : Bool) (t : TaskSt) (w : Nat) (h : TInv q t) (hh : t.handle = true) :
    (remotePollTask t w).2 ≠ .invalid := by
  have := h.hd hh
  obtain ⟨⟨s, sg, nsw, hw, c, hr, nc, cnt⟩, st, slot, script, sh, hd, wk, polls, fd, rt, rd, ss, sd, de, uaf, bp⟩ := t
  cases hr <;> cases nc <;> cases c <;> cases hw <;> simp [remotePollTask] at this ⊢ <;> split <;> simp

theorem remotePollTask_cancelled (t : TaskSt) (w : Nat) (hc : t.word.notCancelled = false) :
    (remotePollTask t w).2 = .ok ∨ (remotePollTask t w).2 = .panicked ∨ (remotePollTask t w).2 = .cancelled := by
  obtain ⟨⟨s, sg, nsw, hw, c, hr, nc, cnt⟩, st, slot, script, sh, hd, wk, polls, fd, rt, rd, ss, sd, de, uaf, bp⟩ := t
  simp at hc; subst hc
  cases hr <;> simp [remotePollTask]
  split <;> simp_all

/-- on a sequential schedule `Remote::poll` and `Local::poll` do the same to the task and return the same -/
theorem remotePollTask_eq_pollTask (t : TaskSt) (w : Nat) (hn : t.word.notSettingWaker = true)
    (hv : (pollTask t w).2 ≠ .invalid) : remotePollTask t w = pollTask t w := by
  obtain ⟨⟨s, sg, nsw, hw, c, hr, nc, cnt⟩, st, slot, script, sh, hd, wk, polls, fd, rt, rd, ss, sd, de, uaf, bp⟩ := t
  simp at hn; subst hn
  cases hr <;> cases nc <;> cases c <;> cases hw <;> simp [remotePollTask, pollTask] at hv ⊢ <;> split <;> simp_all

theorem cancelWord_handle (t : TaskSt) (b : Bool) : (cancelWord t b).handle = t.handle := by
  unfold cancelWord; simp only; split <;> rfl

theorem cancelWord_polls (t : TaskSt) (b : Bool) : (cancelWord t b).polls = t.polls := by
  unfold cancelWord; simp only; split <;> rfl

theorem cancelWord_nc (t : TaskSt) (b : Bool) : (cancelWord t b).word.notCancelled = false := by
  unfold cancelWord; simp only; split <;> rfl

theorem cancelWord_sched (t : TaskSt) (b : Bool) : (cancelWord t b).word.scheduled = t.word.scheduled := by
  unfold cancelWord; simp only; split <;> rfl

/-! ## rewriting one task -/

theorem Inv.setTask {e : Exec} (h : Inv e) {id : Nat} {t t' : TaskSt} (hg : e.get? id = some t)
    (ht : TInv (inMap e id) t')
    (hn : t'.word.notCancelled = false → id ∈ e.cold → id ∈ e.sync ∨ e.inflight = some id)
    (hs : t'.word.scheduled = true → id ∈ e.cold → id ∈ e.sync ∨ e.inflight = some id) :
    Inv (e.setTask id t') :=
  h.update hg (QStep.refl h.q id) (inMap e id) (by rw [inMap_iff]) ht _ rfl rfl rfl rfl hn hs
    (fun _ _ _ hx => hx) h.p

/-- an operation that only rewrites task `id` and keeps its cancellation and SCHEDULED flags -/
theorem Inv.update_task {e : Exec} (h : Inv e) {id : Nat} {t t' : TaskSt} (hg : e.get? id = some t)
    (ht : TInv (inMap e id) t') (hn : t'.word.notCancelled = t.word.notCancelled)
    (hs : t'.word.scheduled = t.word.scheduled) : Inv (e.setTask id t') :=
  h.setTask hg ht (fun hc hcold => h.c id t hg (by rw [← hn]; exact hc) hcold)
    (fun hc hcold => h.s id t hg (by rw [← hs]; exact hc) hcold)

/-- an operation that calls `Local::schedule` and then rewrites task `id` -/
theorem Inv.update_sched {e : Exec} (h : Inv e) {id : Nat} {t t' : TaskSt} (hg : e.get? id = some t)
    (ht : TInv (inMap e id) t') : Inv ((scheduleLocal e id).setTask id t') := by
  have hg1 : (scheduleLocal e id).get? id = some t := by rw [scheduleLocal_get? h]; exact hg
  refine (scheduleLocal_inv h id).setTask hg1 (by rw [scheduleLocal_inMap h]; exact ht) ?_ ?_
  · intro _ hc; exact absurd hc (fun hc => scheduleLocal_not_cold h hg hc)
  · intro _ hc; exact absurd hc (fun hc => scheduleLocal_not_cold h hg hc)

/-- after `Remote::schedule` a task that is still queued and cold waits in the sync queue -/
theorem remoteSchedule_reach {e : Exec} (h : Inv e) {id : Nat} {t : TaskSt} (hg : e.get? id = some t)
    (hc : id ∈ (remoteSchedule e id).cold) :
    id ∈ (remoteSchedule e id).sync ∨ (remoteSchedule e id).inflight = some id :=
  (remoteSchedule_inv h id).s id _ (remoteSchedule_get?_self hg) rfl hc

/-- an operation that calls `Remote::schedule` and then rewrites task `id` -/
theorem Inv.update_rsched {e : Exec} (h : Inv e) {id : Nat} {t t' : TaskSt} (hg : e.get? id = some t)
    (ht : TInv (inMap e id) t') : Inv ((remoteSchedule e id).setTask id t') := by
  have f := remoteSchedule_fields e id
  have hm : inMap (remoteSchedule e id) id = inMap e id := by
    apply inMap_eq_of_iff; rw [f.1, f.2.1]
  exact (remoteSchedule_inv h id).setTask (remoteSchedule_get?_self hg) (by rw [hm]; exact ht)
    (fun _ hc => remoteSchedule_reach h hg hc) (fun _ hc => remoteSchedule_reach h hg hc)

/-! ## the operations -/

theorem handlePoll_inv {e : Exec} (h : Inv e) (id w : Nat) : Inv (handlePoll e id w).1 := by
  unfold handlePoll
  cases hg : e.get? id with
  | none => exact h
  | some t =>
    simp only
    cases hh : t.handle
    · exact h
    · exact h.update_task hg (pollTask_inv _ t w (h.t id t hg) hh) (pollTask_nc t w) (pollTask_sched t w)

theorem remoteHandlePoll_inv {e : Exec} (h : Inv e) (id w : Nat) : Inv (remoteHandlePoll e id w).1 := by
  unfold remoteHandlePoll
  cases hg : e.get? id with
  | none => exact h
  | some t =>
    simp only
    cases hh : t.handle
    · exact h
    · exact h.update_task hg (remotePollTask_inv _ t w (h.t id t hg) hh) (remotePollTask_nc t w)
        (remotePollTask_sched t w)

theorem handleDetach_inv {e : Exec} (h : Inv e) (id : Nat) : Inv (handleDetach e id).1 := by
  unfold handleDetach
  cases hg : e.get? id with
  | none => exact h
  | some t =>
    simp only
    cases hh : t.handle
    · exact h
    · exact h.update_task hg (detachedTask_inv _ t (h.t id t hg) hh) (by rw [dropRef_nc]) (by rw [dropRef_sched])

theorem handleDrop_inv {e : Exec} (h : Inv e) (id : Nat) : Inv (handleDrop e id).1 := by
  unfold handleDrop
  cases hg : e.get? id with
  | none => exact h
  | some t =>
    simp only
    cases hh : t.handle
    · exact h
    · exact h.update_sched hg (handleDropTask_inv _ t (h.t id t hg) hh)

theorem cancelTask_inv {e : Exec} (h : Inv e) (id : Nat) : Inv (cancelTask e id false) := by
  unfold cancelTask
  cases hg : e.get? id with
  | none => exact h
  | some t => exact h.update_sched hg (cancelWord_inv _ t (h.t id t hg))

theorem handleCancel_inv {e : Exec} (h : Inv e) (id : Nat) : Inv (handleCancel e id).1 := by
  unfold handleCancel
  cases hg : e.get? id with
  | none => exact h
  | some t =>
    simp only
    cases hh : t.handle
    · exact h
    · exact cancelTask_inv h id

theorem wakerDrop_inv {e : Exec} (h : Inv e) (id : Nat) : Inv (wakerDrop e id).1 := by
  unfold wakerDrop
  cases hg : e.get? id with
  | none => exact h
  | some t =>
    simp only
    by_cases hw : t.wakers = 0
    · simp [hw]; exact h
    · simp only [hw, if_false]
      exact h.update_task hg (wakerDropTask_inv _ t (h.t id t hg) hw) (by rw [dropRef_nc]) (by rw [dropRef_sched])

theorem wakeLocal_inv {e : Exec} (h : Inv e) (id : Nat) : Inv (wakeLocal e id).1 := by
  unfold wakeLocal
  cases hg : e.get? id with
  | none => exact h
  | some t =>
    simp only
    by_cases hw : t.wakers = 0
    · simp [hw]; exact h
    · simp only [hw, if_false]
      exact scheduleLocal_inv h id

theorem hasHandle_iff (e : Exec) (id : Nat) : hasHandle e id = true ↔ ∃ t, e.get? id = some t ∧ t.handle = true := by
  unfold hasHandle; cases e.get? id <;> simp

theorem hasWakerClone_iff (e : Exec) (id : Nat) :
    hasWakerClone e id = true ↔ ∃ t, e.get? id = some t ∧ t.wakers ≠ 0 := by
  unfold hasWakerClone; cases e.get? id <;> simp

theorem remoteHandleDrop_inv {e : Exec} (h : Inv e) (id : Nat) (hh : hasHandle e id = true) :
    Inv (remoteHandleDrop e id) := by
  obtain ⟨t, hg, hh⟩ := (hasHandle_iff e id).mp hh
  unfold remoteHandleDrop
  simp only [remoteSchedule_get?_self hg]
  exact h.update_rsched hg (handleDropTask_inv _ _ (sched_bits_inv _ t true false (h.t id t hg)) hh)

theorem remoteHandleCancel_inv {e : Exec} (h : Inv e) (id : Nat) (hh : hasHandle e id = true) :
    Inv (remoteHandleCancel e id).1 := by
  obtain ⟨t, hg, hh⟩ := (hasHandle_iff e id).mp hh
  unfold remoteHandleCancel
  simp only [remoteSchedule_get?_self hg]
  refine h.update_rsched hg (remotePollTask_inv _ _ noopWaker
    (cancelWord_inv _ _ (sched_bits_inv _ t true false (h.t id t hg))) ?_)
  rw [cancelWord_handle]; exact hh

/-- the reserve-and-push part of `Remote::schedule` (the SCHEDULING bit may still be set: `b`) -/
theorem push_inv {e : Exec} (h : Inv e) {id : Nat} {t : TaskSt} (hg : e.get? id = some t) (b : Bool) (k : Nat) :
    Inv ({ e.setTask id { t with word := { t.word with scheduled := true, scheduling := b } } with
            pending := e.pending + 1, sync := e.sync ++ [id], outstanding := k } : Exec) := by
  refine h.update hg (QStep.refl h.q id) (inMap e id) (by rw [inMap_iff]) (sched_bits_inv _ t true b (h.t id t hg))
    _ rfl rfl rfl rfl ?_ ?_ ?_ ?_
  · intro _ _; exact Or.inl (by simp)
  · intro _ _; exact Or.inl (by simp)
  · intro x _ _ hx
    rcases hx with hx | hx
    · exact Or.inl (by simp [hx])
    · exact Or.inr hx
  · have := h.p
    cases hi : e.inflight <;> simp [Exec.setTask, hi] at this ⊢ <;> omega

theorem finishSched_inv' {e : Exec} (h : Inv e) (id : Nat) : Inv (finishSched e id) := by
  unfold finishSched
  cases hg : e.get? id with
  | none => exact h
  | some t => exact h.update_task hg (finishSched_inv _ t (h.t id t hg)) (by simp) (by simp)

/-! ## spawn, executor drop, tick -/

theorem spawn_inv {e : Exec} (h : Inv e) (ha : e.alive = true) (sc : List Outcome) : Inv (spawn e sc).1 := by
  have hnh : e.tasks.length ∉ e.hot := fun hm => Nat.lt_irrefl _ (h.q.hval _ hm)
  have hnc : e.tasks.length ∉ e.cold := fun hm => Nat.lt_irrefl _ (h.q.cval _ hm)
  refine ⟨⟨?_, h.q.cnd, ?_, ?_, ?_⟩, ?_, ?_, ?_, ?_, h.p⟩
  · simp only [spawn]
    rw [List.nodup_append]
    refine ⟨h.q.hnd, by simp, ?_⟩
    intro a ha b hb
    simp at hb; subst hb
    intro hab; subst hab; exact hnh ha
  · intro x hx hx'
    simp [spawn] at hx hx'
    rcases hx with hx | hx
    · exact h.q.disj x hx hx'
    · subst hx; exact hnc hx'
  · intro x hx
    simp [spawn] at hx ⊢
    rcases hx with hx | hx
    · have := h.q.hval x hx; omega
    · omega
  · intro x hx
    simp [spawn] at hx ⊢
    have := h.q.cval x hx; omega
  · intro x t hx
    simp only [spawn, Exec.get?] at hx
    by_cases hl : x < e.tasks.length
    · rw [List.getElem?_append_left hl] at hx
      have hne : x ≠ e.tasks.length := by omega
      have : inMap (spawn e sc).1 x = inMap e x := by
        apply inMap_eq_of_iff
        simp [spawn, hne]
      rw [this]; exact h.t x t hx
    · rw [List.getElem?_append_right (by omega)] at hx
      have hxe : x = e.tasks.length := by
        rcases Nat.lt_or_ge (x - e.tasks.length) 1 with h1 | h1
        · omega
        · rw [List.getElem?_eq_none (by simpa using h1)] at hx; cases hx
      subst hxe
      simp at hx; subst hx
      have : inMap (spawn e sc).1 e.tasks.length = true := by
        rw [inMap_iff]; simp [spawn]
      rw [this]; exact spawnedTask_inv sc
  · intro x t hx hc hcold
    simp only [spawn, Exec.get?] at hx hcold
    by_cases hl : x < e.tasks.length
    · rw [List.getElem?_append_left hl] at hx
      exact h.c x t hx hc hcold
    · exact absurd (h.q.cval x hcold) hl
  · intro x t hx hc hcold
    simp only [spawn, Exec.get?] at hx hcold
    by_cases hl : x < e.tasks.length
    · rw [List.getElem?_append_left hl] at hx
      exact h.s x t hx hc hcold
    · exact absurd (h.q.cval x hcold) hl
  · intro hd
    simp [spawn, ha] at hd

/-! ## `Executor::clear` -/

/-- what `Executor::clear` does to a task that is still in the map -/
def clearedTask (t : TaskSt) : TaskSt := dropRef (taskDropByExecutor t)

theorem clearTask_get? (e : Exec) (id x : Nat) :
    (clearTask e id).get? x = if x = id then (e.get? id).map clearedTask else e.get? x := by
  unfold clearTask
  cases hg : e.get? id with
  | none =>
    by_cases hx : x = id
    · subst hx; simp [hg]
    · simp [hx]
  | some t =>
    by_cases hx : x = id
    · subst hx; simp [get?_setTask_self _ hg, clearedTask]
    · simp [hx, get?_setTask_ne e _ hx]

theorem clearTask_fields (e : Exec) (id : Nat) :
    (clearTask e id).hot = e.hot ∧ (clearTask e id).cold = e.cold ∧ (clearTask e id).woken = e.woken ∧
    (clearTask e id).alive = e.alive ∧ (clearTask e id).pending = e.pending ∧
    (clearTask e id).inflight = e.inflight ∧ (clearTask e id).cap = e.cap := by
  unfold clearTask
  cases e.get? id <;> simp [Exec.setTask]

theorem foldl_clearTask (l : List Nat) : ∀ (e : Exec), l.Nodup →
    (∀ x, (l.foldl clearTask e).get? x = if x ∈ l then (e.get? x).map clearedTask else e.get? x) ∧
    (l.foldl clearTask e).woken = e.woken ∧ (l.foldl clearTask e).pending = e.pending ∧
    (l.foldl clearTask e).inflight = e.inflight ∧ (l.foldl clearTask e).cap = e.cap := by
  induction l with
  | nil => intro e _; simp
  | cons a l ih =>
    intro e hnd
    rw [List.nodup_cons] at hnd
    obtain ⟨ih1, ih2, ih3, ih4, ih5⟩ := ih (clearTask e a) hnd.2
    have cf := clearTask_fields e a
    refine ⟨?_, by simp [List.foldl_cons, ih2, cf.2.2.1], by simp [List.foldl_cons, ih3, cf.2.2.2.2.1],
      by simp [List.foldl_cons, ih4, cf.2.2.2.2.2.1], by simp [List.foldl_cons, ih5, cf.2.2.2.2.2.2]⟩
    intro x
    rw [List.foldl_cons, ih1, clearTask_get?]
    by_cases hxa : x = a
    · subst hxa; simp [hnd.1]
    · simp [hxa]

theorem execDrop_inv {e : Exec} (h : Inv e) : Inv (execDrop e) := by
  have hnd : (e.hot ++ e.cold).Nodup := by
    rw [List.nodup_append]
    refine ⟨h.q.hnd, h.q.cnd, ?_⟩
    intro a ha b hb hab; subst hab; exact h.q.disj a ha hb
  obtain ⟨f1, f2, f3, f4, f5⟩ := foldl_clearTask (e.hot ++ e.cold) e hnd
  have hin : ∀ x, inMap (execDrop e) x = false := by
    intro x; rw [inMap_false_iff]; simp [execDrop, clearAll]
  refine ⟨⟨by simp [execDrop, clearAll], by simp [execDrop, clearAll], by simp [execDrop, clearAll],
    by simp [execDrop, clearAll], by simp [execDrop, clearAll]⟩, ?_, by simp [execDrop, clearAll],
    by simp [execDrop, clearAll], by simp [execDrop, clearAll], ?_⟩
  rotate_left
  · have hp := h.p
    show (0 : Nat) + (if ((e.hot ++ e.cold).foldl clearTask e).inflight.isSome then 1 else 0) ≤
      ((e.hot ++ e.cold).foldl clearTask e).pending
    rw [f3, f4]; omega
  intro x t hx
  rw [hin x]
  have hx' : ((e.hot ++ e.cold).foldl clearTask e).get? x = some t := hx
  rw [f1] at hx'
  by_cases hm : x ∈ e.hot ++ e.cold
  · rw [if_pos hm] at hx'
    obtain ⟨t0, hg0, ht0⟩ := h.get_of_mem (id := x) (by simpa using hm)
    rw [hg0] at hx'
    simp at hx'; subst hx'
    exact clearedTask_inv t0 ht0
  · rw [if_neg hm] at hx'
    have := h.t x t hx'
    rwa [(inMap_false_iff e x).mpr (by simpa using hm)] at this


/-- what the loop of `tick` leaves alone -/
theorem tickLoop_fields (n : Nat) (e : Exec) (h : Inv e) :
    (tickLoop n e.hot.head? e []).1.alive = e.alive ∧ (tickLoop n e.hot.head? e []).1.inflight = e.inflight ∧
    (tickLoop n e.hot.head? e []).1.cap = e.cap := by
  refine tickLoop_induct (fun _ e r => r.1.alive = e.alive ∧ r.1.inflight = e.inflight ∧ r.1.cap = e.cap)
    ?_ ?_ ?_ ?_ n e h
  · intro e _; exact ⟨rfl, rfl, rfl⟩
  · intro _ e _ _; exact ⟨rfl, rfl, rfl⟩
  · intro _ e id t h hh hg sf; exact sf.fields
  · intro _ e id rest t r h hh hne hg sf _ hr
    exact ⟨hr.1.trans sf.fields.1, hr.2.1.trans sf.fields.2.1, hr.2.2.trans sf.fields.2.2⟩

theorem tickFrom_inv {e : Exec} (h : Inv e) (n : Nat) : Inv (tickFrom e n).1 :=
  tickLoop_inv n (drainSync e) (drainSync_inv h)

theorem tickFrom_fields {e : Exec} (h : Inv e) (n : Nat) :
    (tickFrom e n).1.alive = e.alive ∧ (tickFrom e n).1.inflight = e.inflight ∧ (tickFrom e n).1.cap = e.cap := by
  have f := tickLoop_fields n (drainSync e) (drainSync_inv h)
  have d := drainSync_facts h
  exact ⟨f.1.trans d.alive, f.2.1.trans d.inflight, f.2.2.trans d.cap⟩

theorem tick_inv {e : Exec} (h : Inv e) (n : Nat) : Inv (tick e n).1 := tickFrom_inv (h.outstanding 0) n


/-! ## remote wake while the executor ticks -/

theorem remoteSchedTask_cases (t : TaskSt) :
    ((t.word.scheduled = true ∨ t.word.completed = true ∨ t.word.notCancelled = false ∨ t.shared = false) ∧
      remoteSchedTask t = ({ t with word := { t.word with scheduled := true, scheduling := false } }, false)) ∨
    (t.word.scheduled = false ∧ t.word.completed = false ∧ t.word.notCancelled = true ∧ t.shared = true ∧
      remoteSchedTask t = ({ t with word := { t.word with scheduled := true, scheduling := true } }, true)) := by
  unfold remoteSchedTask
  cases h1 : t.word.scheduled <;> cases h2 : t.word.completed <;> cases h3 : t.word.notCancelled <;>
    cases h4 : t.shared <;> simp [h1, h2, h3, h4]

/-- when `Remote::schedule` returns early, the blocking variant is the plain one and no tick happens -/
theorem remoteWakeB_early {e : Exec} {id : Nat} {t : TaskSt} (n : Nat) (hg : e.get? id = some t)
    (he : t.word.scheduled = true ∨ t.word.completed = true ∨ t.word.notCancelled = false ∨ t.shared = false) :
    remoteWakeB e id n = (remoteSchedule e id, none) := by
  rcases remoteSchedTask_cases t with ⟨_, hr⟩ | ⟨h1, h2, h3, h4, _⟩
  · simp [remoteWakeB, remoteSchedule, hg, hr]
  · rcases he with he | he | he | he <;> simp_all

/-- the state in which the executor runs its tick, and what is left to do afterwards -/
theorem remoteWakeB_push {e : Exec} {id : Nat} {t : TaskSt} (n : Nat) (hg : e.get? id = some t)
    (h1 : t.word.scheduled = false) (h2 : t.word.completed = false) (h3 : t.word.notCancelled = true)
    (h4 : t.shared = true) :
    (e.sync.length < e.cap ∧
      remoteWakeB e id n =
        (finishSched (tickFrom ({ e.setTask id { t with word := { t.word with scheduled := true, scheduling := true } } with
            pending := e.pending + 1, sync := e.sync ++ [id], outstanding := 1 } : Exec) n).1 id,
         some (tickFrom ({ e.setTask id { t with word := { t.word with scheduled := true, scheduling := true } } with
            pending := e.pending + 1, sync := e.sync ++ [id], outstanding := 1 } : Exec) n).2)) ∨
    (¬ e.sync.length < e.cap ∧
      remoteWakeB e id n =
        (finishSched ({ (tickFrom ({ e.setTask id { t with word := { t.word with scheduled := true, scheduling := true } } with
            pending := e.pending + 1, outstanding := 1, inflight := some id } : Exec) n).1 with
              sync := (tickFrom ({ e.setTask id { t with word := { t.word with scheduled := true, scheduling := true } } with
                pending := e.pending + 1, outstanding := 1, inflight := some id } : Exec) n).1.sync ++ [id],
              inflight := none } : Exec) id,
         some (tickFrom ({ e.setTask id { t with word := { t.word with scheduled := true, scheduling := true } } with
            pending := e.pending + 1, outstanding := 1, inflight := some id } : Exec) n).2)) := by
  rcases remoteSchedTask_cases t with ⟨he, _⟩ | ⟨_, _, _, _, hr⟩
  · rcases he with he | he | he | he <;> simp_all
  · by_cases hl : e.sync.length < e.cap
    · exact Or.inl ⟨hl, by simp [remoteWakeB, hg, hr, Exec.setTask, hl]⟩
    · exact Or.inr ⟨hl, by simp [remoteWakeB, hg, hr, Exec.setTask, hl]⟩

/-- the blocked pusher's state: the id is reserved (`inflight`), not yet in the sync queue -/
theorem reserve_inv {e : Exec} (h : Inv e) (hi : e.inflight = none) {id : Nat} {t : TaskSt}
    (hg : e.get? id = some t) :
    Inv ({ e.setTask id { t with word := { t.word with scheduled := true, scheduling := true } } with
            pending := e.pending + 1, outstanding := 1, inflight := some id } : Exec) := by
  refine h.update hg (QStep.refl h.q id) (inMap e id) (by rw [inMap_iff]) (sched_bits_inv _ t true true (h.t id t hg))
    _ rfl rfl rfl rfl ?_ ?_ ?_ ?_
  · intro _ _; exact Or.inr rfl
  · intro _ _; exact Or.inr rfl
  · intro x _ _ hx
    rcases hx with hx | hx
    · exact Or.inl hx
    · rw [hi] at hx; cases hx
  · have := h.p
    simp [Exec.setTask, hi] at this ⊢; omega

/-- the push that ends the wait: the reserved id enters the sync queue -/
theorem unreserve_inv {e : Exec} (h : Inv e) {id : Nat} (hi : e.inflight = some id) :
    Inv ({ e with sync := e.sync ++ [id], inflight := none } : Exec) := by
  refine ⟨⟨h.q.hnd, h.q.cnd, h.q.disj, h.q.hval, h.q.cval⟩, h.t, ?_, ?_, h.dead, ?_⟩
  · intro x t hx hn hc
    rcases h.c x t hx hn hc with h1 | h1
    · exact Or.inl (by simp [h1])
    · rw [hi] at h1; cases h1; exact Or.inl (by simp)
  · intro x t hx hn hc
    rcases h.s x t hx hn hc with h1 | h1
    · exact Or.inl (by simp [h1])
    · rw [hi] at h1; cases h1; exact Or.inl (by simp)
  · have := h.p
    simp [hi] at this ⊢; omega

theorem remoteWakeB_inv {e : Exec} (h : Inv e) (hi : e.inflight = none) (id n : Nat) :
    Inv (remoteWakeB e id n).1 ∧ (remoteWakeB e id n).1.inflight = none := by
  cases hg : e.get? id with
  | none => simp [remoteWakeB, hg]; exact ⟨h, hi⟩
  | some t =>
    by_cases he : t.word.scheduled = true ∨ t.word.completed = true ∨ t.word.notCancelled = false ∨ t.shared = false
    · rw [remoteWakeB_early n hg he]
      exact ⟨remoteSchedule_inv h id, by rw [(remoteSchedule_fields e id).2.2.2.2.2.2.1]; exact hi⟩
    · have h1 : t.word.scheduled = false := by cases hx : t.word.scheduled <;> simp_all
      have h2 : t.word.completed = false := by cases hx : t.word.completed <;> simp_all
      have h3 : t.word.notCancelled = true := by cases hx : t.word.notCancelled <;> simp_all
      have h4 : t.shared = true := by cases hx : t.shared <;> simp_all
      have fin_inflight : ∀ e' : Exec, (finishSched e' id).inflight = e'.inflight := by
        intro e'; unfold finishSched; cases e'.get? id <;> simp [Exec.setTask]
      rcases remoteWakeB_push n hg h1 h2 h3 h4 with ⟨_, hr⟩ | ⟨_, hr⟩ <;> rw [hr]
      · have hA := push_inv h hg true 1
        refine ⟨finishSched_inv' (tickFrom_inv hA n) id, ?_⟩
        rw [fin_inflight, (tickFrom_fields hA n).2.1]; exact hi
      · have hB := reserve_inv h hi hg
        have hB' := tickFrom_inv hB n
        have hfl := (tickFrom_fields hB n).2.1
        exact ⟨finishSched_inv' (unreserve_inv hB' hfl) id, by rw [fin_inflight]⟩

/-! ## every operation -/

/-- the invariant between the operations of a program: no blocked pusher -/
structure InvB (e : Exec) : Prop where
  inv : Inv e
  idle : e.inflight = none

theorem remoteSchedule_inflight (e : Exec) (id : Nat) : (remoteSchedule e id).inflight = e.inflight :=
  (remoteSchedule_fields e id).2.2.2.2.2.2.1

theorem setTask_inflight (e : Exec) (id : Nat) (t : TaskSt) : (e.setTask id t).inflight = e.inflight := rfl

theorem apply_invB {e : Exec} (h : InvB e) (op : Op) : InvB (apply e op) := by
  obtain ⟨h, hi⟩ := h
  unfold apply applyR
  cases op with
  | spawn sc =>
    cases ha : e.alive <;> simp [ha]
    · exact ⟨h, hi⟩
    · exact ⟨spawn_inv h ha sc, hi⟩
  | tick n =>
    cases ha : e.alive <;> simp [ha]
    · exact ⟨h, hi⟩
    · exact ⟨tick_inv h n, by rw [tick, (tickFrom_fields (h.outstanding 0) n).2.1]; exact hi⟩
  | hpoll id w =>
    refine ⟨handlePoll_inv h id w, ?_⟩
    simp only [handlePoll]; cases e.get? id with
    | none => exact hi
    | some t => simp only; cases t.handle <;> simpa [setTask_inflight] using hi
  | hdrop id =>
    refine ⟨handleDrop_inv h id, ?_⟩
    simp only [handleDrop]; cases e.get? id with
    | none => exact hi
    | some t =>
      simp only; cases t.handle <;> simp [setTask_inflight, (scheduleLocal_fields h id).2.2.2.2.2, hi]
  | hdetach id =>
    refine ⟨handleDetach_inv h id, ?_⟩
    simp only [handleDetach]; cases e.get? id with
    | none => exact hi
    | some t => simp only; cases t.handle <;> simpa [setTask_inflight] using hi
  | hcancel id =>
    simp only
    cases hb : (handleCancel e id).2
    · exact ⟨h, hi⟩
    · refine ⟨handlePoll_inv (handleCancel_inv h id) id noopWaker, ?_⟩
      have h1 : (handleCancel e id).1.inflight = none := by
        simp only [handleCancel, cancelTask]; cases e.get? id with
        | none => exact hi
        | some t =>
          simp only; cases t.handle <;> simp [setTask_inflight, (scheduleLocal_fields h id).2.2.2.2.2, hi]
      simp only [handlePoll]; cases (handleCancel e id).1.get? id with
      | none => exact h1
      | some t => simp only; cases t.handle <;> simpa [setTask_inflight] using h1
  | wake id =>
    refine ⟨wakeLocal_inv h id, ?_⟩
    simp only [wakeLocal]; cases e.get? id with
    | none => exact hi
    | some t => simp only; split <;> simp [(scheduleLocal_fields h id).2.2.2.2.2, hi]
  | wdrop id =>
    refine ⟨wakerDrop_inv h id, ?_⟩
    simp only [wakerDrop]; cases e.get? id with
    | none => exact hi
    | some t => simp only; split <;> simpa [setTask_inflight] using hi
  | xdrop =>
    cases ha : e.alive <;> simp [ha]
    · exact ⟨h, hi⟩
    · refine ⟨execDrop_inv h, ?_⟩
      have hnd : (e.hot ++ e.cold).Nodup := by
        rw [List.nodup_append]
        refine ⟨h.q.hnd, h.q.cnd, ?_⟩
        intro a ha b hb hab; subst hab; exact h.q.disj a ha hb
      show ((e.hot ++ e.cold).foldl clearTask e).inflight = none
      rw [(foldl_clearTask (e.hot ++ e.cold) e hnd).2.2.2.1]; exact hi
  | rhpoll id w =>
    refine ⟨remoteHandlePoll_inv h id w, ?_⟩
    simp only [remoteHandlePoll]; cases e.get? id with
    | none => exact hi
    | some t => simp only; cases t.handle <;> simpa [setTask_inflight] using hi
  | rhdrop id =>
    cases hh : hasHandle e id <;> simp [hh]
    · exact ⟨h, hi⟩
    · split
      · exact ⟨h, hi⟩
      · have hh' : hasHandle (chargeBudget e) id = true := hh
        refine ⟨remoteHandleDrop_inv (h.outstanding _) id hh', ?_⟩
        simp only [remoteHandleDrop]
        cases (remoteSchedule (chargeBudget e) id).get? id <;>
          simp [setTask_inflight, remoteSchedule_inflight, chargeBudget, hi]
  | rhcancel id =>
    cases hh : hasHandle e id <;> simp [hh]
    · exact ⟨h, hi⟩
    · split
      · exact ⟨h, hi⟩
      · have hh' : hasHandle (chargeBudget e) id = true := hh
        refine ⟨remoteHandleCancel_inv (h.outstanding _) id hh', ?_⟩
        simp only [remoteHandleCancel]
        cases (remoteSchedule (chargeBudget e) id).get? id <;>
          simp [setTask_inflight, remoteSchedule_inflight, chargeBudget, hi]
  | rwake id =>
    cases hh : hasWakerClone e id <;> simp [hh]
    · exact ⟨h, hi⟩
    · split
      · exact ⟨h, hi⟩
      · exact ⟨remoteSchedule_inv (h.outstanding _) id,
          by rw [(remoteSchedule_fields (chargeBudget e) id).2.2.2.2.2.2.1]; exact hi⟩
  | rwakeb id n =>
    cases hh : hasWakerClone e id <;> simp [hh]
    · exact ⟨h, hi⟩
    · exact ⟨(remoteWakeB_inv h hi id n).1, (remoteWakeB_inv h hi id n).2⟩
  | rwdrop id =>
    refine ⟨wakerDrop_inv h id, ?_⟩
    simp only [wakerDrop]; cases e.get? id with
    | none => exact hi
    | some t => simp only; split <;> simpa [setTask_inflight] using hi

theorem apply_inv {e : Exec} (h : InvB e) (op : Op) : Inv (apply e op) := (apply_invB h op).inv

theorem new_invB (q : Nat) : InvB (Exec.new q) := by
  refine ⟨⟨⟨by simp [Exec.new], by simp [Exec.new], by simp [Exec.new], by simp [Exec.new],
    by simp [Exec.new]⟩, ?_, by simp [Exec.new], by simp [Exec.new], by simp [Exec.new], by simp [Exec.new]⟩, rfl⟩
  intro x t hx; simp [Exec.new, Exec.get?] at hx

theorem run_append (q : Nat) (ops : List Op) (op : Op) : run q (ops ++ [op]) = apply (run q ops) op := by
  simp [run, List.foldl_append]

theorem foldl_invB (ops : List Op) : ∀ (e : Exec), InvB e → InvB (ops.foldl apply e) := by
  induction ops with
  | nil => intro e h; exact h
  | cons op ops ih => intro e h; exact ih _ (apply_invB h op)

/-- the invariant holds after every program -/
theorem run_invB (q : Nat) (ops : List Op) : InvB (run q ops) := foldl_invB ops _ (new_invB q)

theorem run_inv (q : Nat) (ops : List Op) : Inv (run q ops) := (run_invB q ops).inv

/-! ## closed forms of the handle / waker operations -/

theorem handlePoll_live {e : Exec} {id : Nat} {t : TaskSt} (w : Nat) (hg : e.get? id = some t)
    (hh : t.handle = true) : handlePoll e id w = (e.setTask id (pollTask t w).1, (pollTask t w).2) := by
  simp [handlePoll, hg, hh]

theorem handlePoll_dead {e : Exec} {id : Nat} (w : Nat) (hd : ∀ t, e.get? id = some t → t.handle = false) :
    handlePoll e id w = (e, .invalid) := by
  unfold handlePoll
  cases hg : e.get? id with
  | none => rfl
  | some t => simp [hd t hg]

theorem handleDrop_live {e : Exec} {id : Nat} {t : TaskSt} (hg : e.get? id = some t) (hh : t.handle = true) :
    handleDrop e id = ((scheduleLocal e id).setTask id (dropRef { cancelWord t true with handle := false }), true) := by
  simp [handleDrop, hg, hh]

theorem handleDrop_dead {e : Exec} {id : Nat} (hd : ∀ t, e.get? id = some t → t.handle = false) :
    handleDrop e id = (e, false) := by
  unfold handleDrop
  cases hg : e.get? id with
  | none => rfl
  | some t => simp [hd t hg]

theorem handleDetach_live {e : Exec} {id : Nat} {t : TaskSt} (hg : e.get? id = some t) (hh : t.handle = true) :
    handleDetach e id = (e.setTask id (dropRef { t with handle := false }), true) := by
  simp [handleDetach, hg, hh]

theorem handleDetach_dead {e : Exec} {id : Nat} (hd : ∀ t, e.get? id = some t → t.handle = false) :
    handleDetach e id = (e, false) := by
  unfold handleDetach
  cases hg : e.get? id with
  | none => rfl
  | some t => simp [hd t hg]

theorem handleCancel_live {e : Exec} {id : Nat} {t : TaskSt} (hg : e.get? id = some t) (hh : t.handle = true) :
    handleCancel e id = ((scheduleLocal e id).setTask id (cancelWord t false), true) := by
  simp [handleCancel, cancelTask, hg, hh]

theorem handleCancel_dead {e : Exec} {id : Nat} (hd : ∀ t, e.get? id = some t → t.handle = false) :
    handleCancel e id = (e, false) := by
  unfold handleCancel
  cases hg : e.get? id with
  | none => rfl
  | some t => simp [hd t hg]

theorem setTask_setTask (e : Exec) (id : Nat) (t t' : TaskSt) : (e.setTask id t).setTask id t' = e.setTask id t' := by
  simp [Exec.setTask]

/-- `JoinHandle::cancel(self).await` on a live handle: cancel, then the first poll -/
theorem hcancel_live {e : Exec} (h : Inv e) {id : Nat} {t : TaskSt} (hg : e.get? id = some t) (hh : t.handle = true) :
    applyR e (.hcancel id) =
      ((scheduleLocal e id).setTask id (pollTask (cancelWord t false) noopWaker).1,
       .cancel (pollTask (cancelWord t false) noopWaker).2) := by
  have hg2 : ((scheduleLocal e id).setTask id (cancelWord t false)).get? id = some (cancelWord t false) :=
    get?_setTask_self _ (by rw [scheduleLocal_get? h]; exact hg)
  simp only [applyR, handleCancel_live hg hh]
  rw [handlePoll_live _ hg2 (by rw [cancelWord_handle]; exact hh)]
  simp [setTask_setTask]

theorem hcancel_dead {e : Exec} {id : Nat} (hd : ∀ t, e.get? id = some t → t.handle = false) :
    applyR e (.hcancel id) = (e, .invalid) := by
  simp [applyR, handleCancel_dead hd]

theorem wakeLocal_live {e : Exec} {id : Nat} {t : TaskSt} (hg : e.get? id = some t) (hw : t.wakers ≠ 0) :
    wakeLocal e id = (scheduleLocal e id, true) := by
  simp [wakeLocal, hg, hw]

theorem wakeLocal_dead {e : Exec} {id : Nat} (hd : ∀ t, e.get? id = some t → t.wakers = 0) :
    wakeLocal e id = (e, false) := by
  unfold wakeLocal
  cases hg : e.get? id with
  | none => rfl
  | some t => simp [hd t hg]

theorem wakerDrop_live {e : Exec} {id : Nat} {t : TaskSt} (hg : e.get? id = some t) (hw : t.wakers ≠ 0) :
    wakerDrop e id = (e.setTask id (dropRef { t with wakers := t.wakers - 1 }), true) := by
  simp [wakerDrop, hg, hw]

theorem wakerDrop_dead {e : Exec} {id : Nat} (hd : ∀ t, e.get? id = some t → t.wakers = 0) :
    wakerDrop e id = (e, false) := by
  unfold wakerDrop
  cases hg : e.get? id with
  | none => rfl
  | some t => simp [hd t hg]

theorem handle_dead_or_live (e : Exec) (id : Nat) :
    (∀ t, e.get? id = some t → t.handle = false) ∨ ∃ t, e.get? id = some t ∧ t.handle = true := by
  cases hg : e.get? id with
  | none => exact Or.inl (by simp)
  | some t =>
    cases hh : t.handle
    · exact Or.inl (by intro t' ht'; cases ht'; exact hh)
    · exact Or.inr ⟨t, rfl, hh⟩

theorem wakers_dead_or_live (e : Exec) (id : Nat) :
    (∀ t, e.get? id = some t → t.wakers = 0) ∨ ∃ t, e.get? id = some t ∧ t.wakers ≠ 0 := by
  cases hg : e.get? id with
  | none => exact Or.inl (by simp)
  | some t =>
    by_cases hh : t.wakers = 0
    · exact Or.inl (by intro t' ht'; cases ht'; exact hh)
    · exact Or.inr ⟨t, rfl, hh⟩

end Compio.Executor
