/-
Refinement of the intrusive hot/cold queue of compio-executor/src/queue.rs (Compio.Model.QueueIntrusive) to the
abstract pair of id lists used by the executor model (Compio.Executor): representation predicate `Rep`,
preservation by every operation, the abstraction function `abs`, removed keys, reachability.
-/
import Compio.Model.QueueIntrusive
import Compio.Model.Executor
namespace Compio.QueueIntrusive

/-! ## successor / predecessor in a duplicate-free list -/

/-- successor of `k` in `l` -/
def succIn : List Nat → Nat → Option Nat
  | [], _ => none
  | x :: rest, k => if x = k then rest.head? else succIn rest k

/-- predecessor of `k` in `l` -/
def predIn (l : List Nat) (k : Nat) : Option Nat := succIn l.reverse k

theorem succIn_eq_nextHot (l : List Nat) (k : Nat) : succIn l k = Compio.Executor.nextHot l k := by
  induction l with
  | nil => rfl
  | cons x rest ih => simp [succIn, Compio.Executor.nextHot, ih]

theorem nodup_reverse {l : List Nat} : l.reverse.Nodup ↔ l.Nodup := by
  simp only [List.Nodup, List.pairwise_reverse]
  constructor <;> (intro h; exact h.imp (fun h => Ne.symm h))

theorem succIn_not_mem {l : List Nat} {k : Nat} (h : k ∉ l) : succIn l k = none := by
  induction l with
  | nil => rfl
  | cons x rest ih =>
    simp only [List.mem_cons, not_or] at h
    simp [succIn, Ne.symm h.1, ih h.2]

theorem succIn_mem {l : List Nat} {k j : Nat} (h : succIn l k = some j) : k ∈ l ∧ j ∈ l := by
  induction l with
  | nil => simp [succIn] at h
  | cons x rest ih =>
    simp only [succIn] at h
    split at h
    · rename_i hx; subst hx
      exact ⟨by simp, List.mem_cons_of_mem _ (List.mem_of_mem_head? h)⟩
    · have := ih h; exact ⟨List.mem_cons_of_mem _ this.1, List.mem_cons_of_mem _ this.2⟩

theorem succIn_ne {l : List Nat} (hn : l.Nodup) {k j : Nat} (h : succIn l k = some j) : j ≠ k := by
  induction l with
  | nil => simp [succIn] at h
  | cons x rest ih =>
    simp only [succIn] at h
    rw [List.nodup_cons] at hn
    split at h
    · rename_i hx; subst hx
      intro e; subst e; exact hn.1 (List.mem_of_mem_head? h)
    · exact ih hn.2 h

/-- successor in `l ++ [x]` -/
theorem succIn_concat {l : List Nat} {x k : Nat} (hn : l.Nodup) (hx : x ∉ l) :
    succIn (l ++ [x]) k = if k = x then none else if l.getLast? = some k then some x else succIn l k := by
  induction l with
  | nil => simp [succIn]
  | cons y rest ih =>
    rw [List.nodup_cons] at hn
    simp only [List.mem_cons, not_or] at hx
    simp only [List.cons_append, succIn, ih hn.2 hx.2]
    cases rest with
    | nil => simp [succIn]; grind
    | cons z r => simp [List.getLast?_cons_cons]; grind [succIn]

theorem head?_erase {l : List Nat} {x : Nat} :
    (l.erase x).head? = if l.head? = some x then succIn l x else l.head? := by
  cases l with
  | nil => simp
  | cons y r =>
    by_cases hy : y = x
    · subst hy; simp [succIn]
    · simp [hy]

theorem succIn_erase {l : List Nat} {x k : Nat} (hn : l.Nodup) (hk : k ≠ x) :
    succIn (l.erase x) k = if succIn l k = some x then succIn l x else succIn l k := by
  induction l with
  | nil => simp [succIn]
  | cons y rest ih =>
    rw [List.nodup_cons] at hn
    have ih := ih hn.2
    by_cases hy : y = x
    · subst hy
      have h1 : ∀ j, succIn rest j ≠ some y := fun j e => hn.1 (succIn_mem e).2
      simp [succIn, Ne.symm hk, h1]
    · have he : (y :: rest).erase x = y :: rest.erase x := by simp [hy]
      rw [he]
      simp only [succIn]
      by_cases hyk : y = k
      · subst hyk; simp [head?_erase, hy]
      · simp [hyk, ih, hy]

/-- `succIn` at the position: `pre ++ k :: rest` -/
theorem succIn_split {pre rest : List Nat} {k : Nat} (hn : (pre ++ k :: rest).Nodup) :
    succIn (pre ++ k :: rest) k = rest.head? := by
  induction pre with
  | nil => simp [succIn]
  | cons y p ih =>
    rw [List.cons_append, List.nodup_cons] at hn
    have : y ≠ k := by intro e; subst e; exact hn.1 (by simp)
    simp [succIn, this, ih hn.2]

/-! predecessor lemmas, through `reverse` -/

theorem reverse_erase {l : List Nat} (hn : l.Nodup) (x : Nat) : (l.erase x).reverse = l.reverse.erase x := by
  rw [hn.erase_eq_filter, (nodup_reverse.2 hn).erase_eq_filter, List.filter_reverse]

theorem predIn_not_mem {l : List Nat} {k : Nat} (h : k ∉ l) : predIn l k = none :=
  succIn_not_mem (by simpa using h)

theorem predIn_mem {l : List Nat} {k j : Nat} (h : predIn l k = some j) : k ∈ l ∧ j ∈ l := by
  have := succIn_mem h; simpa using this

theorem predIn_erase {l : List Nat} {x k : Nat} (hn : l.Nodup) (hk : k ≠ x) :
    predIn (l.erase x) k = if predIn l k = some x then predIn l x else predIn l k := by
  unfold predIn; rw [reverse_erase hn, succIn_erase (nodup_reverse.2 hn) hk]

theorem predIn_concat {l : List Nat} {x k : Nat} :
    predIn (l ++ [x]) k = if x = k then l.getLast? else predIn l k := by
  simp [predIn, succIn, List.head?_reverse]

theorem getLast?_erase {l : List Nat} {x : Nat} (hn : l.Nodup) :
    (l.erase x).getLast? = if l.getLast? = some x then predIn l x else l.getLast? := by
  rw [← List.head?_reverse, reverse_erase hn, head?_erase, List.head?_reverse]; rfl

theorem predIn_head {l : List Nat} {k : Nat} (hn : l.Nodup) (h : l.head? = some k) : predIn l k = none := by
  cases l with
  | nil => simp at h
  | cons y r =>
    simp at h; subst h
    rw [List.nodup_cons] at hn
    simp only [predIn, List.reverse_cons]
    rw [succIn_concat (nodup_reverse.2 hn.2) (by simpa using hn.1)]; simp

theorem succIn_last {l : List Nat} {k : Nat} (hn : l.Nodup) (h : l.getLast? = some k) : succIn l k = none := by
  have := predIn_head (l := l.reverse) (k := k) (nodup_reverse.2 hn) (by simpa [List.head?_reverse] using h)
  simpa [predIn] using this

/-- duality: `j` is the successor of `k` iff `k` is the predecessor of `j` -/
theorem succIn_eq_some_iff_predIn {l : List Nat} (hn : l.Nodup) {k j : Nat} :
    succIn l k = some j ↔ predIn l j = some k := by
  induction l with
  | nil => simp [succIn, predIn]
  | cons y rest ih =>
    rw [List.nodup_cons] at hn
    have ih := ih hn.2
    have hyr : y ∉ rest.reverse := by simpa using hn.1
    simp only [predIn, List.reverse_cons, succIn_concat (nodup_reverse.2 hn.2) hyr, succIn,
      List.getLast?_reverse]
    have h1 : ∀ a b, succIn rest a = some b → a ∈ rest ∧ b ∈ rest := fun a b h => succIn_mem h
    have h2 : ∀ a b, succIn rest.reverse a = some b → a ∈ rest ∧ b ∈ rest := fun a b h => by
      have := succIn_mem h; simpa using this
    have h3 : ∀ a, rest.head? = some a → succIn rest.reverse a = none := fun a h => predIn_head hn.2 h
    have h4 : ∀ a, rest.head? = some a → a ∈ rest := fun a h => List.mem_of_mem_head? h
    simp only [predIn] at ih
    grind

/-! ## `get` / `setItem` / ends -/

theorem get_lt {c : IQ} {k : Nat} {it : Item} (h : c.get k = some it) : k < c.map.length := by
  unfold IQ.get at h
  split at h
  · rename_i h1; exact (List.getElem?_eq_some_iff.1 h1).1
  · cases h

theorem get_eq_some_iff {c : IQ} {k : Nat} {it : Item} : c.get k = some it ↔ c.map[k]? = some (some it) := by
  unfold IQ.get
  split
  · rename_i h1; simp [h1]
  · rename_i h1; constructor
    · intro h; cases h
    · intro h; exact absurd h (h1 it)

theorem get_setItem {c : IQ} {k j : Nat} {it : Item} (hk : k < c.map.length) :
    (c.setItem k it).get j = if j = k then some it else c.get j := by
  unfold IQ.get IQ.setItem
  simp only [List.getElem?_set, hk, if_true]
  by_cases h : k = j
  · subst h; simp
  · simp [h, Ne.symm h]

@[simp] theorem map_setItem_length {c : IQ} {k : Nat} {it : Item} : (c.setItem k it).map.length = c.map.length := by
  simp [IQ.setItem]

@[simp] theorem get_setHead {c : IQ} {f : Bool} {v : Option Nat} {j : Nat} : (c.setHead f v).get j = c.get j := by
  cases f <;> rfl
@[simp] theorem get_setTail {c : IQ} {f : Bool} {v : Option Nat} {j : Nat} : (c.setTail f v).get j = c.get j := by
  cases f <;> rfl
@[simp] theorem map_setHead {c : IQ} {f : Bool} {v : Option Nat} : (c.setHead f v).map = c.map := by
  cases f <;> rfl
@[simp] theorem map_setTail {c : IQ} {f : Bool} {v : Option Nat} : (c.setTail f v).map = c.map := by
  cases f <;> rfl
@[simp] theorem head_setHead {c : IQ} {f g : Bool} {v : Option Nat} :
    (c.setHead f v).head g = if g = f then v else c.head g := by
  cases f <;> cases g <;> simp [IQ.setHead, IQ.head]
@[simp] theorem tail_setHead {c : IQ} {f g : Bool} {v : Option Nat} : (c.setHead f v).tail g = c.tail g := by
  cases f <;> cases g <;> simp [IQ.setHead, IQ.tail]
@[simp] theorem head_setTail {c : IQ} {f g : Bool} {v : Option Nat} : (c.setTail f v).head g = c.head g := by
  cases f <;> cases g <;> simp [IQ.setTail, IQ.head]
@[simp] theorem tail_setTail {c : IQ} {f g : Bool} {v : Option Nat} :
    (c.setTail f v).tail g = if g = f then v else c.tail g := by
  cases f <;> cases g <;> simp [IQ.setTail, IQ.tail]
@[simp] theorem head_setItem {c : IQ} {k : Nat} {it : Item} {g : Bool} : (c.setItem k it).head g = c.head g := rfl
@[simp] theorem tail_setItem {c : IQ} {k : Nat} {it : Item} {g : Bool} : (c.setItem k it).tail g = c.tail g := rfl

theorem get_setNextOf {c : IQ} {o v : Option Nat} {j : Nat} :
    (c.setNextOf o v).get j = (c.get j).map fun ij => if o = some j then { ij with next := v } else ij := by
  unfold IQ.setNextOf
  split
  · simp
  · rename_i k
    split
    · rename_i hk
      by_cases hjk : k = j
      · subst hjk; simp [hk]
      · simp [hjk]
    · rename_i it hk
      rw [get_setItem (get_lt hk)]
      by_cases hjk : j = k
      · subst hjk; simp [hk]
      · have : ¬ k = j := fun e => hjk e.symm
        simp [hjk, this]

theorem get_setPrevOf {c : IQ} {o v : Option Nat} {j : Nat} :
    (c.setPrevOf o v).get j = (c.get j).map fun ij => if o = some j then { ij with prev := v } else ij := by
  unfold IQ.setPrevOf
  split
  · simp
  · rename_i k
    split
    · rename_i hk
      by_cases hjk : k = j
      · subst hjk; simp [hk]
      · simp [hjk]
    · rename_i it hk
      rw [get_setItem (get_lt hk)]
      by_cases hjk : j = k
      · subst hjk; simp [hk]
      · have : ¬ k = j := fun e => hjk e.symm
        simp [hjk, this]

@[simp] theorem length_setNextOf {c : IQ} {o v : Option Nat} : (c.setNextOf o v).map.length = c.map.length := by
  unfold IQ.setNextOf; (repeat' split) <;> first | rfl | simp
@[simp] theorem length_setPrevOf {c : IQ} {o v : Option Nat} : (c.setPrevOf o v).map.length = c.map.length := by
  unfold IQ.setPrevOf; (repeat' split) <;> first | rfl | simp
@[simp] theorem head_setNextOf {c : IQ} {o v : Option Nat} {g : Bool} : (c.setNextOf o v).head g = c.head g := by
  unfold IQ.setNextOf; (repeat' split) <;> rfl
@[simp] theorem tail_setNextOf {c : IQ} {o v : Option Nat} {g : Bool} : (c.setNextOf o v).tail g = c.tail g := by
  unfold IQ.setNextOf; (repeat' split) <;> rfl
@[simp] theorem head_setPrevOf {c : IQ} {o v : Option Nat} {g : Bool} : (c.setPrevOf o v).head g = c.head g := by
  unfold IQ.setPrevOf; (repeat' split) <;> rfl
@[simp] theorem tail_setPrevOf {c : IQ} {o v : Option Nat} {g : Bool} : (c.setPrevOf o v).tail g = c.tail g := by
  unfold IQ.setPrevOf; (repeat' split) <;> rfl

theorem unlink_eq {c : IQ} {f : Bool} {key : Nat} {it : Item} (h : c.get key = some it) :
    unlink f c key = some
      (((let c1 := if c.head f = some key then c.setHead f it.next else c
         if c1.tail f = some key then c1.setTail f it.prev else c1).setNextOf it.prev it.next).setPrevOf
        it.next it.prev) := by
  simp only [unlink, h]

/-- what `unlink` does, pointwise, on ANY queue in which `key` is live -/
theorem unlink_spec {c : IQ} {f : Bool} {key : Nat} {it : Item} (h : c.get key = some it) :
    ∃ c', unlink f c key = some c' ∧
      (∀ j, c'.get j = (c.get j).map fun ij =>
        { prev := if it.next = some j then it.prev else ij.prev,
          next := if it.prev = some j then it.next else ij.next, isHot := ij.isHot }) ∧
      (∀ g, c'.head g = if g = f ∧ c.head f = some key then it.next else c.head g) ∧
      (∀ g, c'.tail g = if g = f ∧ c.tail f = some key then it.prev else c.tail g) ∧
      c'.map.length = c.map.length := by
  refine ⟨_, unlink_eq h, ?_⟩
  by_cases h1 : c.head f = some key <;> by_cases h2 : c.tail f = some key <;>
    simp only [h1, h2, if_true, if_false, tail_setHead, and_true, and_false] <;>
    refine ⟨fun j => ?_, fun g => ?_, fun g => ?_, by simp⟩ <;>
    simp [get_setPrevOf, get_setNextOf] <;>
    (congr 1; funext ij; cases ij; by_cases ha : it.next = some j <;> by_cases hb : it.prev = some j <;> simp [ha, hb])


theorem linkTail_eq {c : IQ} {f : Bool} {key : Nat} {it : Item} (h : c.get key = some it) :
    linkTail f c key = some
      (((let c1 := c.setTail f (some key)
         if (c1.head f).isNone then c1.setHead f (some key) else c1).setItem key
          { prev := c.tail f, next := none, isHot := f }).setNextOf (c.tail f) (some key)) := by
  have : ((let c1 := c.setTail f (some key)
      if (c1.head f).isNone then c1.setHead f (some key) else c1)).get key = some it := by
    simp only []; split <;> simp [h]
  simp only [linkTail] at this ⊢
  rw [this]

/-- what `link_tail` does, pointwise, on ANY queue in which `key` is live -/
theorem linkTail_spec {c : IQ} {f : Bool} {key : Nat} {it : Item} (h : c.get key = some it) :
    ∃ c', linkTail f c key = some c' ∧
      (∀ j, c'.get j = (if j = key then some { prev := c.tail f, next := none, isHot := f } else c.get j).map
        fun ij => if c.tail f = some j then { ij with next := some key } else ij) ∧
      (∀ g, c'.head g = if g = f ∧ c.head f = none then some key else c.head g) ∧
      (∀ g, c'.tail g = if g = f then some key else c.tail g) ∧
      c'.map.length = c.map.length := by
  refine ⟨_, linkTail_eq h, ?_⟩
  have hlt := get_lt h
  by_cases h1 : c.head f = none <;>
    simp only [h1, head_setTail, Option.isNone_none, if_true] <;>
    refine ⟨fun j => ?_, fun g => ?_, fun g => ?_, by simp [h1]⟩ <;>
    simp [get_setNextOf, get_setItem, hlt, h1]

/-! ## representation -/

/-- one intrusive list of `c` (selected by `f`) represents the id list `l` -/
structure ListRep (c : IQ) (f : Bool) (l : List Nat) : Prop where
  head : c.head f = l.head?
  tail : c.tail f = l.getLast?
  items : ∀ k ∈ l, c.get k = some { prev := predIn l k, next := succIn l k, isHot := f }

/-- `c` represents `(hot, cold)` with the extra live but unlinked keys `fl` (the state between `unlink`
and `link_tail` inside `make_hot` / `make_cold`, between `insert_with_key` and `link_tail` inside
`insert`, between `unlink` and `map.remove` inside `remove`) -/
structure RepF (c : IQ) (hot cold fl : List Nat) : Prop where
  nodupH : hot.Nodup
  nodupC : cold.Nodup
  nodupF : fl.Nodup
  disjHC : ∀ k ∈ hot, k ∉ cold
  disjHF : ∀ k ∈ hot, k ∉ fl
  disjCF : ∀ k ∈ cold, k ∉ fl
  live : ∀ k, (c.get k).isSome = true ↔ (k ∈ hot ∨ k ∈ cold ∨ k ∈ fl)
  hotRep : ListRep c true hot
  coldRep : ListRep c false cold

/-- `c` represents the abstract queue `(hot, cold)` -/
def Rep (c : IQ) (hot cold : List Nat) : Prop := RepF c hot cold []

def WF (c : IQ) : Prop := ∃ hot cold, Rep c hot cold

theorem getLast?_mem {l : List Nat} {k : Nat} (h : l.getLast? = some k) : k ∈ l :=
  List.mem_of_getLast? h

/-- unlinking `k` from the list it is in -/
theorem ListRep.unlink_same {c c' : IQ} {f : Bool} {l : List Nat} {k : Nat} (hr : ListRep c f l)
    (hn : l.Nodup)
    (hget : ∀ j, c'.get j = (c.get j).map fun ij =>
        { prev := if succIn l k = some j then predIn l k else ij.prev,
          next := if predIn l k = some j then succIn l k else ij.next, isHot := ij.isHot })
    (hhead : c'.head f = if c.head f = some k then succIn l k else c.head f)
    (htail : c'.tail f = if c.tail f = some k then predIn l k else c.tail f) :
    ListRep c' f (l.erase k) := by
  constructor
  · rw [hhead, hr.head, head?_erase]
  · rw [htail, hr.tail, getLast?_erase hn]
  · intro j hj
    rw [hn.mem_erase_iff] at hj
    rw [hget, hr.items j hj.2, succIn_erase hn hj.1, predIn_erase hn hj.1]
    simp only [Option.map_some, Option.some.injEq, Item.mk.injEq, and_true]
    have e1 := succIn_eq_some_iff_predIn hn (k := k) (j := j)
    have e2 := succIn_eq_some_iff_predIn hn (k := j) (j := k)
    simp only [e1, e2, and_self]

/-- a list whose members and ends are untouched is still represented -/
theorem ListRep.frame {c c' : IQ} {g : Bool} {l : List Nat} (hr : ListRep c g l)
    (hget : ∀ j ∈ l, c'.get j = c.get j) (hh : c'.head g = c.head g) (ht : c'.tail g = c.tail g) :
    ListRep c' g l :=
  ⟨hh.trans hr.head, ht.trans hr.tail, fun k hk => (hget k hk).trans (hr.items k hk)⟩

/-- linking the live, unlinked key `k` at the tail -/
theorem ListRep.linkTail_same {c c' : IQ} {f : Bool} {l : List Nat} {k : Nat} (hr : ListRep c f l)
    (hn : l.Nodup) (hk : k ∉ l)
    (hget : ∀ j, c'.get j = (if j = k then some { prev := c.tail f, next := none, isHot := f } else c.get j).map
        fun ij => if c.tail f = some j then { ij with next := some k } else ij)
    (hhead : c'.head f = if c.head f = none then some k else c.head f)
    (htail : c'.tail f = some k) :
    ListRep c' f (l ++ [k]) := by
  have hlast : l.getLast? ≠ some k := fun e => hk (getLast?_mem e)
  constructor
  · rw [hhead, hr.head]; cases l <;> simp
  · rw [htail]; simp
  · intro j hj
    rw [hget, hr.tail, succIn_concat hn hk, predIn_concat]
    by_cases hjk : j = k
    · subst hjk; simp [hlast]
    · have hjl : j ∈ l := by simpa [hjk] using hj
      have : ¬ k = j := fun e => hjk e.symm
      simp only [hjk, this, if_false, hr.items j hjl, Option.map_some]
      by_cases hl : l.getLast? = some j <;> simp [hl]

theorem RepF.mem_live {c : IQ} {hot cold fl : List Nat} (h : RepF c hot cold fl) {k : Nat}
    (hk : k ∈ hot ∨ k ∈ cold ∨ k ∈ fl) : ∃ it, c.get k = some it :=
  Option.isSome_iff_exists.1 ((h.live k).2 hk)

/-- `unlink::<HOT>` of a hot key: it becomes live-but-unlinked -/
theorem RepF.unlink_hot {c : IQ} {hot cold fl : List Nat} (h : RepF c hot cold fl) {k : Nat} (hk : k ∈ hot) :
    ∃ c', unlink true c k = some c' ∧ RepF c' (hot.erase k) cold (k :: fl) ∧ c'.map.length = c.map.length := by
  have hit := h.hotRep.items k hk
  obtain ⟨c', hc', hget, hhead, htail, hlen⟩ := unlink_spec (f := true) hit
  simp only at hget hhead htail
  refine ⟨c', hc', ?_, hlen⟩
  have hsucc : ∀ j, succIn hot k = some j → j ∈ hot := fun j e => (succIn_mem e).2
  have hpred : ∀ j, predIn hot k = some j → j ∈ hot := fun j e => (predIn_mem e).2
  constructor
  · exact h.nodupH.erase k
  · exact h.nodupC
  · rw [List.nodup_cons]; exact ⟨h.disjHF k hk, h.nodupF⟩
  · intro j hj; exact h.disjHC j (List.mem_of_mem_erase hj)
  · intro j hj
    rw [h.nodupH.mem_erase_iff] at hj
    simp only [List.mem_cons, not_or]; exact ⟨hj.1, h.disjHF j hj.2⟩
  · intro j hj
    simp only [List.mem_cons, not_or]
    exact ⟨fun e => h.disjHC k hk (e ▸ hj), h.disjCF j hj⟩
  · intro j
    rw [hget, Option.isSome_map, h.live j, h.nodupH.mem_erase_iff]
    by_cases e : j = k
    · subst e; simp [hk]
    · simp [e]
  · exact h.hotRep.unlink_same h.nodupH hget (by simpa using hhead true) (by simpa using htail true)
  · refine h.coldRep.frame (fun j hj => ?_) (by simpa using hhead false) (by simpa using htail false)
    rw [hget, h.coldRep.items j hj]
    have h1 : ¬ succIn hot k = some j := fun e => h.disjHC j (hsucc j e) hj
    have h2 : ¬ predIn hot k = some j := fun e => h.disjHC j (hpred j e) hj
    simp [h1, h2]

/-- `unlink::<COLD>` of a cold key -/
theorem RepF.unlink_cold {c : IQ} {hot cold fl : List Nat} (h : RepF c hot cold fl) {k : Nat} (hk : k ∈ cold) :
    ∃ c', unlink false c k = some c' ∧ RepF c' hot (cold.erase k) (k :: fl) ∧ c'.map.length = c.map.length := by
  have hit := h.coldRep.items k hk
  obtain ⟨c', hc', hget, hhead, htail, hlen⟩ := unlink_spec (f := false) hit
  simp only at hget hhead htail
  refine ⟨c', hc', ?_, hlen⟩
  have hsucc : ∀ j, succIn cold k = some j → j ∈ cold := fun j e => (succIn_mem e).2
  have hpred : ∀ j, predIn cold k = some j → j ∈ cold := fun j e => (predIn_mem e).2
  constructor
  · exact h.nodupH
  · exact h.nodupC.erase k
  · rw [List.nodup_cons]; exact ⟨h.disjCF k hk, h.nodupF⟩
  · intro j hj hj2; exact h.disjHC j hj (List.mem_of_mem_erase hj2)
  · intro j hj
    simp only [List.mem_cons, not_or]
    exact ⟨fun e => h.disjHC j hj (e ▸ hk), h.disjHF j hj⟩
  · intro j hj
    rw [h.nodupC.mem_erase_iff] at hj
    simp only [List.mem_cons, not_or]; exact ⟨hj.1, h.disjCF j hj.2⟩
  · intro j
    rw [hget, Option.isSome_map, h.live j, h.nodupC.mem_erase_iff]
    by_cases e : j = k
    · subst e; simp [hk]
    · simp [e]
  · refine h.hotRep.frame (fun j hj => ?_) (by simpa using hhead true) (by simpa using htail true)
    rw [hget, h.hotRep.items j hj]
    have h1 : ¬ succIn cold k = some j := fun e => h.disjHC j hj (hsucc j e)
    have h2 : ¬ predIn cold k = some j := fun e => h.disjHC j hj (hpred j e)
    simp [h1, h2]
  · exact h.coldRep.unlink_same h.nodupC hget (by simpa using hhead false) (by simpa using htail false)

/-- `link_tail::<HOT>` of a live, unlinked key -/
theorem RepF.linkTail_hot {c : IQ} {hot cold fl : List Nat} (h : RepF c hot cold fl) {k : Nat} (hk : k ∈ fl) :
    ∃ c', linkTail true c k = some c' ∧ RepF c' (hot ++ [k]) cold (fl.erase k) ∧ c'.map.length = c.map.length := by
  obtain ⟨it, hit⟩ := h.mem_live (Or.inr (Or.inr hk))
  obtain ⟨c', hc', hget, hhead, htail, hlen⟩ := linkTail_spec (f := true) hit
  refine ⟨c', hc', ?_, hlen⟩
  have hkh : k ∉ hot := fun e => h.disjHF k e hk
  have hkc : k ∉ cold := fun e => h.disjCF k e hk
  have htl : ∀ j, c.tail true = some j → j ∈ hot := fun j e => getLast?_mem (h.hotRep.tail ▸ e)
  constructor
  · rw [List.nodup_append]
    refine ⟨h.nodupH, by simp, ?_⟩
    intro a ha b hb; simp at hb; subst hb; intro e; exact hkh (e ▸ ha)
  · exact h.nodupC
  · exact h.nodupF.erase k
  · intro j hj; simp only [List.mem_append, List.mem_singleton] at hj
    rcases hj with hj | hj
    · exact h.disjHC j hj
    · subst hj; exact hkc
  · intro j hj; simp only [List.mem_append, List.mem_singleton] at hj
    rw [h.nodupF.mem_erase_iff]
    rcases hj with hj | hj
    · exact fun e => h.disjHF j hj e.2
    · subst hj; exact fun e => e.1 rfl
  · intro j hj e; exact h.disjCF j hj (List.mem_of_mem_erase e)
  · intro j
    rw [hget, Option.isSome_map, h.nodupF.mem_erase_iff]
    by_cases e : j = k
    · subst e; simp
    · simp [e, h.live j]
  · exact h.hotRep.linkTail_same h.nodupH hkh hget (by simpa using hhead true) (by simpa using htail true)
  · refine h.coldRep.frame (fun j hj => ?_) (by simpa using hhead false) (by simpa using htail false)
    rw [hget]
    have h1 : ¬ j = k := fun e => hkc (e ▸ hj)
    have h2 : ¬ c.tail true = some j := fun e => h.disjHC j (htl j e) hj
    simp [h1, h2]

/-- `link_tail::<COLD>` of a live, unlinked key -/
theorem RepF.linkTail_cold {c : IQ} {hot cold fl : List Nat} (h : RepF c hot cold fl) {k : Nat} (hk : k ∈ fl) :
    ∃ c', linkTail false c k = some c' ∧ RepF c' hot (cold ++ [k]) (fl.erase k) ∧ c'.map.length = c.map.length := by
  obtain ⟨it, hit⟩ := h.mem_live (Or.inr (Or.inr hk))
  obtain ⟨c', hc', hget, hhead, htail, hlen⟩ := linkTail_spec (f := false) hit
  refine ⟨c', hc', ?_, hlen⟩
  have hkh : k ∉ hot := fun e => h.disjHF k e hk
  have hkc : k ∉ cold := fun e => h.disjCF k e hk
  have htl : ∀ j, c.tail false = some j → j ∈ cold := fun j e => getLast?_mem (h.coldRep.tail ▸ e)
  constructor
  · exact h.nodupH
  · rw [List.nodup_append]
    refine ⟨h.nodupC, by simp, ?_⟩
    intro a ha b hb; simp at hb; subst hb; intro e; exact hkc (e ▸ ha)
  · exact h.nodupF.erase k
  · intro j hj e; simp only [List.mem_append, List.mem_singleton] at e
    rcases e with e | e
    · exact h.disjHC j hj e
    · subst e; exact hkh hj
  · intro j hj e; exact h.disjHF j hj (List.mem_of_mem_erase e)
  · intro j hj; simp only [List.mem_append, List.mem_singleton] at hj
    rw [h.nodupF.mem_erase_iff]
    rcases hj with hj | hj
    · exact fun e => h.disjCF j hj e.2
    · subst hj; exact fun e => e.1 rfl
  · intro j
    rw [hget, Option.isSome_map, h.nodupF.mem_erase_iff]
    by_cases e : j = k
    · subst e; simp
    · simp [e, h.live j]
  · refine h.hotRep.frame (fun j hj => ?_) (by simpa using hhead true) (by simpa using htail true)
    rw [hget]
    have h1 : ¬ j = k := fun e => hkh (e ▸ hj)
    have h2 : ¬ c.tail false = some j := fun e => h.disjHC j hj (htl j e)
    simp [h1, h2]
  · exact h.coldRep.linkTail_same h.nodupC hkc hget (by simpa using hhead false) (by simpa using htail false)

/-! ## the operations preserve the representation -/

def specMakeHot (hot cold : List Nat) (k : Nat) : List Nat × List Nat :=
  if k ∈ cold then (hot ++ [k], cold.erase k) else (hot, cold)

def specMakeCold (hot cold : List Nat) (k : Nat) : List Nat × List Nat :=
  if k ∈ hot then (hot.erase k, cold ++ [k]) else (hot, cold)

def specRemove (hot cold : List Nat) (k : Nat) : List Nat × List Nat := (hot.erase k, cold.erase k)

def specInsert (hot cold : List Nat) (fresh : Nat) : List Nat × List Nat := (hot ++ [fresh], cold)

theorem Rep.get_none {c : IQ} {hot cold : List Nat} (h : Rep c hot cold) {k : Nat} (hh : k ∉ hot) (hc : k ∉ cold) :
    c.get k = none := by
  cases hg : c.get k with
  | none => rfl
  | some it =>
    have := (h.live k).1 (by simp [hg])
    simp [hh, hc] at this

theorem Rep.get_hot {c : IQ} {hot cold : List Nat} (h : Rep c hot cold) {k : Nat} (hk : k ∈ hot) :
    c.get k = some { prev := predIn hot k, next := succIn hot k, isHot := true } := h.hotRep.items k hk

theorem Rep.get_cold {c : IQ} {hot cold : List Nat} (h : Rep c hot cold) {k : Nat} (hk : k ∈ cold) :
    c.get k = some { prev := predIn cold k, next := succIn cold k, isHot := false } := h.coldRep.items k hk

/-- `make_hot` refines `specMakeHot`; it never panics on a well-formed queue -/
theorem rep_makeHot {c : IQ} {hot cold : List Nat} (h : Rep c hot cold) (k : Nat) :
    ∃ c', makeHot c k = some c' ∧ Rep c' (specMakeHot hot cold k).1 (specMakeHot hot cold k).2 ∧
      c'.map.length = c.map.length := by
  unfold specMakeHot
  by_cases hc : k ∈ cold
  · simp only [hc, if_true]
    obtain ⟨c1, h1, r1, l1⟩ := RepF.unlink_cold h hc
    obtain ⟨c2, h2, r2, l2⟩ := r1.linkTail_hot (k := k) (by simp)
    refine ⟨c2, ?_, by simpa [Rep] using r2, l2.trans l1⟩
    simp [makeHot, h.get_cold hc, h1, h2]
  · simp only [hc, if_false]
    refine ⟨c, ?_, h, rfl⟩
    by_cases hh : k ∈ hot
    · simp [makeHot, h.get_hot hh]
    · simp [makeHot, h.get_none hh hc]

/-- `make_cold` refines `specMakeCold` when the key is hot or not in the queue (its `debug_assert!`) -/
theorem rep_makeCold {c : IQ} {hot cold : List Nat} (h : Rep c hot cold) (k : Nat) (hpre : k ∉ cold) :
    ∃ c', makeCold c k = some c' ∧ Rep c' (specMakeCold hot cold k).1 (specMakeCold hot cold k).2 ∧
      c'.map.length = c.map.length ∧ makeColdAssert c k = true := by
  unfold specMakeCold
  by_cases hh : k ∈ hot
  · simp only [hh, if_true]
    obtain ⟨c1, h1, r1, l1⟩ := RepF.unlink_hot h hh
    obtain ⟨c2, h2, r2, l2⟩ := r1.linkTail_cold (k := k) (by simp)
    refine ⟨c2, ?_, by simpa [Rep] using r2, l2.trans l1, by simp [makeColdAssert, h.get_hot hh]⟩
    simp [makeCold, h.get_hot hh, h1, h2]
  · simp only [hh, if_false]
    exact ⟨c, by simp [makeCold, h.get_none hh hpre], h, rfl, by simp [makeColdAssert, h.get_none hh hpre]⟩

theorem get_push {c : IQ} {it : Item} {j : Nat} :
    ({ c with map := c.map ++ [some it] } : IQ).get j = if j = c.map.length then some it else c.get j := by
  unfold IQ.get
  by_cases hj : j = c.map.length
  · subst hj; simp
  · simp only [hj, if_false]
    by_cases hlt : j < c.map.length
    · simp [List.getElem?_append_left hlt]
    · have : c.map.length < j := by omega
      rw [List.getElem?_eq_none (by simp; omega), List.getElem?_eq_none (by omega)]

theorem get_unset {c : IQ} {k j : Nat} :
    ({ c with map := c.map.set k none } : IQ).get j = if j = k then none else c.get j := by
  unfold IQ.get
  simp only [List.getElem?_set]
  by_cases hj : k = j
  · subst hj; by_cases hlt : k < c.map.length <;> simp [hlt]
  · have : ¬ j = k := fun e => hj e.symm
    simp [hj, this]

theorem RepF.lt_length {c : IQ} {hot cold fl : List Nat} (h : RepF c hot cold fl) {k : Nat}
    (hk : k ∈ hot ∨ k ∈ cold ∨ k ∈ fl) : k < c.map.length := by
  obtain ⟨it, hit⟩ := h.mem_live hk; exact get_lt hit

/-- `insert` refines `specInsert` with the fresh key `map.length` -/
theorem rep_insert {c : IQ} {hot cold : List Nat} (h : Rep c hot cold) :
    ∃ c', insert c = some (c', c.map.length) ∧
      Rep c' (specInsert hot cold c.map.length).1 (specInsert hot cold c.map.length).2 ∧
      c.map.length ∉ hot ∧ c.map.length ∉ cold ∧ c'.map.length = c.map.length + 1 := by
  have hfh : c.map.length ∉ hot := fun e => Nat.lt_irrefl _ (h.lt_length (Or.inl e))
  have hfc : c.map.length ∉ cold := fun e => Nat.lt_irrefl _ (h.lt_length (Or.inr (Or.inl e)))
  let c0 : IQ := { c with map := c.map ++ [some { prev := none, next := none, isHot := true }] }
  have hne : ∀ j, j ∈ hot ∨ j ∈ cold → ¬ j = c.map.length := fun j hj e => by
    have := h.lt_length (k := j) (by simpa using hj); omega
  have r0 : RepF c0 hot cold [c.map.length] := by
    constructor
    · exact h.nodupH
    · exact h.nodupC
    · simp
    · exact h.disjHC
    · intro j hj; simpa using hne j (Or.inl hj)
    · intro j hj; simpa using hne j (Or.inr hj)
    · intro j
      rw [get_push]
      by_cases e : j = c.map.length
      · simp [e]
      · have := h.live j; simp [e] at this ⊢; exact this
    · exact h.hotRep.frame (fun j hj => by rw [get_push]; simp [hne j (Or.inl hj)]) rfl rfl
    · exact h.coldRep.frame (fun j hj => by rw [get_push]; simp [hne j (Or.inr hj)]) rfl rfl
  obtain ⟨c1, h1, r1, l1⟩ := r0.linkTail_hot (k := c.map.length) (by simp)
  refine ⟨c1, ?_, by simpa [Rep, specInsert] using r1, hfh, hfc, by simp [l1, c0]⟩
  simp only [insert]
  show (linkTail true c0 c.map.length).map _ = _
  rw [h1]; rfl

/-- `remove` refines `specRemove`; a key that is not in the queue leaves it untouched and returns `None` -/
theorem rep_remove {c : IQ} {hot cold : List Nat} (h : Rep c hot cold) (k : Nat) :
    ∃ c', remove c k = some (c', decide (k ∈ hot ∨ k ∈ cold)) ∧
      Rep c' (specRemove hot cold k).1 (specRemove hot cold k).2 ∧ c'.map.length = c.map.length ∧
      (k ∉ hot → k ∉ cold → c' = c) := by
  unfold specRemove
  have drop : ∀ {c1 : IQ} {a b : List Nat}, RepF c1 a b [k] →
      Rep ({ c1 with map := c1.map.set k none } : IQ) a b := by
    intro c1 a b r
    have hka : k ∉ a := fun e => r.disjHF k e (by simp)
    have hkb : k ∉ b := fun e => r.disjCF k e (by simp)
    constructor
    · exact r.nodupH
    · exact r.nodupC
    · simp
    · exact r.disjHC
    · simp
    · simp
    · intro j
      rw [get_unset]
      by_cases e : j = k
      · subst e; simp [hka, hkb]
      · have := r.live j; simp [e] at this ⊢; exact this
    · exact r.hotRep.frame (fun j hj => by rw [get_unset]; simp [show ¬ j = k from fun e => hka (e ▸ hj)]) rfl rfl
    · exact r.coldRep.frame (fun j hj => by rw [get_unset]; simp [show ¬ j = k from fun e => hkb (e ▸ hj)]) rfl rfl
  by_cases hh : k ∈ hot
  · have hc : k ∉ cold := h.disjHC k hh
    obtain ⟨c1, h1, r1, l1⟩ := RepF.unlink_hot h hh
    refine ⟨{ c1 with map := c1.map.set k none }, ?_, ?_, ?_, fun e => absurd hh e⟩
    · simp [remove, h.get_hot hh, h1, hh]
    · rw [List.erase_of_not_mem hc]; exact drop r1
    · simp [l1]
  · by_cases hc : k ∈ cold
    · obtain ⟨c1, h1, r1, l1⟩ := RepF.unlink_cold h hc
      refine ⟨{ c1 with map := c1.map.set k none }, ?_, ?_, ?_, fun _ e => absurd hc e⟩
      · simp [remove, h.get_cold hc, h1, hc]
      · rw [List.erase_of_not_mem hh]; exact drop r1
      · simp [l1]
    · refine ⟨c, by simp [remove, h.get_none hh hc, hh, hc], ?_, rfl, fun _ _ => rfl⟩
      rw [List.erase_of_not_mem hh, List.erase_of_not_mem hc]; exact h

theorem rep_empty : Rep IQ.empty [] [] := by
  constructor <;> simp [IQ.empty, IQ.get]
  · exact ⟨rfl, rfl, by simp⟩
  · exact ⟨rfl, rfl, by simp⟩

theorem get_none_of_all {c : IQ} (h : c.map.all (·.isNone) = true) (k : Nat) : c.get k = none := by
  unfold IQ.get
  split
  · rename_i it hk
    have hm := List.mem_of_getElem? hk
    have := List.all_eq_true.1 h _ hm
    simp at this
  · rfl

/-- `clear` refines "both lists empty"; the key counter is kept -/
theorem rep_clear {c : IQ} {hot cold : List Nat} (h : Rep c hot cold) :
    Rep (clear c) [] [] ∧ (clear c).map.length = c.map.length := by
  unfold clear
  split
  · rename_i hall
    have hh : hot = [] := List.eq_nil_iff_forall_not_mem.2 fun k hk => by
      have := h.get_hot hk; rw [get_none_of_all hall] at this; cases this
    have hc : cold = [] := List.eq_nil_iff_forall_not_mem.2 fun k hk => by
      have := h.get_cold hk; rw [get_none_of_all hall] at this; cases this
    subst hh; subst hc; exact ⟨h, rfl⟩
  · refine ⟨?_, by simp⟩
    have hg : ∀ k, (IQ.mk (c.map.map (fun _ => none)) none none none none).get k = none := by
      intro k; unfold IQ.get; simp only [List.getElem?_map]
      cases c.map[k]? <;> simp
    constructor <;> (try simp [hg])
    · exact ⟨rfl, rfl, by simp⟩
    · exact ⟨rfl, rfl, by simp⟩

/-! ## the abstraction function -/

theorem length_le_of_lt {l : List Nat} {n : Nat} (hn : l.Nodup) (h : ∀ x ∈ l, x < n) : l.length ≤ n := by
  have := hn.length_le_of_subset (l₂ := List.range n) (fun x hx => List.mem_range.2 (h x hx))
  simpa using this

theorem ListRep.nextHot {c : IQ} {f : Bool} {l : List Nat} (hr : ListRep c f l) {k : Nat} (hk : k ∈ l) :
    nextHot c k = succIn l k := by
  simp [Compio.QueueIntrusive.nextHot, hr.items k hk]

theorem ListRep.walk_suffix {c : IQ} {f : Bool} {l : List Nat} (hr : ListRep c f l) (hn : l.Nodup) :
    ∀ (suf pre : List Nat), l = pre ++ suf → ∀ n, suf.length ≤ n → walk n c suf.head? = suf := by
  intro suf
  induction suf with
  | nil => intro pre _ n _; cases n <;> rfl
  | cons k r ih =>
    intro pre hl n hlen
    cases n with
    | zero => simp at hlen
    | succ m =>
      have hk : k ∈ l := by rw [hl]; simp
      have hs : succIn l k = r.head? := by rw [hl] at hn ⊢; exact succIn_split hn
      simp only [List.head?_cons, walk, hr.nextHot hk, hs]
      rw [ih (pre ++ [k]) (by simp [hl]) m (by simpa using hlen)]

theorem ListRep.walk_eq {c : IQ} {f : Bool} {l : List Nat} (hr : ListRep c f l) (hn : l.Nodup) {n : Nat}
    (hlen : l.length ≤ n) : walk n c (c.head f) = l := by
  rw [hr.head]; exact hr.walk_suffix hn l [] rfl n hlen

/-- the abstraction of a represented queue is the pair of lists it represents -/
theorem abs_of_rep {c : IQ} {hot cold : List Nat} (h : Rep c hot cold) : abs c = (hot, cold) := by
  have hh : hot.length ≤ c.map.length + 1 :=
    Nat.le_succ_of_le (length_le_of_lt h.nodupH fun x hx => h.lt_length (Or.inl hx))
  have hc : cold.length ≤ c.map.length + 1 :=
    Nat.le_succ_of_le (length_le_of_lt h.nodupC fun x hx => h.lt_length (Or.inr (Or.inl hx)))
  have e1 := h.hotRep.walk_eq h.nodupH hh
  have e2 := h.coldRep.walk_eq h.nodupC hc
  simp only [IQ.head, if_true] at e1
  simp only [IQ.head, Bool.false_eq_true, if_false] at e2
  simp [abs, e1, e2]

theorem rep_unique {c : IQ} {hot cold hot' cold' : List Nat} (h : Rep c hot cold) (h' : Rep c hot' cold') :
    hot = hot' ∧ cold = cold' := by
  have := (abs_of_rep h).symm.trans (abs_of_rep h'); simpa using this

/-! ### refinement equations -/

theorem abs_makeHot {c : IQ} (h : WF c) (k : Nat) :
    ∃ c', makeHot c k = some c' ∧ WF c' ∧ abs c' = specMakeHot (abs c).1 (abs c).2 k := by
  obtain ⟨hot, cold, hr⟩ := h
  obtain ⟨c', h1, r1, _⟩ := rep_makeHot hr k
  exact ⟨c', h1, ⟨_, _, r1⟩, by rw [abs_of_rep r1, abs_of_rep hr]⟩

theorem abs_makeCold {c : IQ} (h : WF c) (k : Nat) (hpre : k ∉ (abs c).2) :
    ∃ c', makeCold c k = some c' ∧ WF c' ∧ abs c' = specMakeCold (abs c).1 (abs c).2 k := by
  obtain ⟨hot, cold, hr⟩ := h
  rw [abs_of_rep hr] at hpre
  obtain ⟨c', h1, r1, _⟩ := rep_makeCold hr k hpre
  exact ⟨c', h1, ⟨_, _, r1⟩, by rw [abs_of_rep r1, abs_of_rep hr]⟩

theorem abs_insert {c : IQ} (h : WF c) :
    ∃ c', insert c = some (c', c.map.length) ∧ WF c' ∧
      abs c' = specInsert (abs c).1 (abs c).2 c.map.length ∧
      c.map.length ∉ (abs c).1 ∧ c.map.length ∉ (abs c).2 := by
  obtain ⟨hot, cold, hr⟩ := h
  obtain ⟨c', h1, r1, f1, f2, _⟩ := rep_insert hr
  exact ⟨c', h1, ⟨_, _, r1⟩, by rw [abs_of_rep r1, abs_of_rep hr], by rw [abs_of_rep hr]; exact ⟨f1, f2⟩⟩

theorem abs_remove {c : IQ} (h : WF c) (k : Nat) :
    ∃ c' b, remove c k = some (c', b) ∧ WF c' ∧ abs c' = specRemove (abs c).1 (abs c).2 k ∧
      (b = true ↔ (k ∈ (abs c).1 ∨ k ∈ (abs c).2)) := by
  obtain ⟨hot, cold, hr⟩ := h
  obtain ⟨c', h1, r1, _⟩ := rep_remove hr k
  exact ⟨c', _, h1, ⟨_, _, r1⟩, by rw [abs_of_rep r1, abs_of_rep hr], by rw [abs_of_rep hr]; simp⟩

theorem abs_clear {c : IQ} (h : WF c) : WF (clear c) ∧ abs (clear c) = ([], []) := by
  obtain ⟨hot, cold, hr⟩ := h
  exact ⟨⟨_, _, (rep_clear hr).1⟩, abs_of_rep (rep_clear hr).1⟩

/-- `next_hot` of a hot key is its successor in the abstract hot list (`Compio.Executor.nextHot`), and its
`debug_assert!(item.is_hot)` holds -/
theorem nextHot_refines {c : IQ} {hot cold : List Nat} (h : Rep c hot cold) {k : Nat} (hk : k ∈ hot) :
    nextHot c k = Compio.Executor.nextHot hot k ∧ nextHotAssert c k = true := by
  refine ⟨by rw [h.hotRep.nextHot hk, succIn_eq_nextHot], by simp [nextHotAssert, h.get_hot hk]⟩

theorem hotHead_refines {c : IQ} {hot cold : List Nat} (h : Rep c hot cold) : c.hotHead = hot.head? := by
  have := h.hotRep.head; simpa [IQ.head] using this

theorem hasHot_refines {c : IQ} {hot cold : List Nat} (h : Rep c hot cold) : hasHot c = !hot.isEmpty := by
  rw [hasHot, hotHead_refines h]; cases hot <;> rfl

theorem iterCollect_eq_walk (n : Nat) (c : IQ) (o : Option Nat) : iterCollect n c ⟨o⟩ = walk n c o := by
  induction n generalizing o with
  | zero => rfl
  | succ m ih => cases o with
    | none => rfl
    | some k => simp [iterCollect, Iter.next, walk, ih]

/-- the ids yielded by `iter_hot()` on an unmodified well-formed queue are the hot list, in order -/
theorem iterHot_yields_hot {c : IQ} {hot cold : List Nat} (h : Rep c hot cold) :
    iterCollect (c.map.length + 1) c (iterHot c) = hot := by
  rw [iterHot, iterCollect_eq_walk]
  have := abs_of_rep h
  simp only [abs, Prod.mk.injEq] at this
  exact this.1

/-- `Rep` in one piece: no duplicates, live slots = members (no dangling key, removed keys unreachable),
the four ends, and every member's `prev` / `next` / `is_hot` -/
theorem rep_iff {c : IQ} {hot cold : List Nat} :
    Rep c hot cold ↔
      (hot ++ cold).Nodup ∧ (∀ k, (∃ it, c.map[k]? = some (some it)) ↔ k ∈ hot ++ cold) ∧
      c.hotHead = hot.head? ∧ c.hotTail = hot.getLast? ∧ c.coldHead = cold.head? ∧ c.coldTail = cold.getLast? ∧
      (∀ k ∈ hot, c.map[k]? = some (some { prev := predIn hot k, next := succIn hot k, isHot := true })) ∧
      (∀ k ∈ cold, c.map[k]? = some (some { prev := predIn cold k, next := succIn cold k, isHot := false })) := by
  constructor
  · intro h
    refine ⟨?_, ?_, by simpa [IQ.head] using h.hotRep.head, by simpa [IQ.tail] using h.hotRep.tail,
      by simpa [IQ.head] using h.coldRep.head, by simpa [IQ.tail] using h.coldRep.tail,
      fun k hk => get_eq_some_iff.1 (h.get_hot hk), fun k hk => get_eq_some_iff.1 (h.get_cold hk)⟩
    · rw [List.nodup_append]
      exact ⟨h.nodupH, h.nodupC, fun a ha b hb e => h.disjHC a ha (e ▸ hb)⟩
    · intro k
      have := h.live k
      simp only [Option.isSome_iff_exists, get_eq_some_iff, List.not_mem_nil, or_false] at this
      simpa using this
  · rintro ⟨hn, hl, h1, h2, h3, h4, h5, h6⟩
    rw [List.nodup_append] at hn
    constructor
    · exact hn.1
    · exact hn.2.1
    · simp
    · intro k hk hk2; exact hn.2.2 k hk k hk2 rfl
    · simp
    · simp
    · intro k
      simp only [Option.isSome_iff_exists, get_eq_some_iff, List.not_mem_nil, or_false]
      simpa using hl k
    · exact ⟨by simpa [IQ.head] using h1, by simpa [IQ.tail] using h2, fun k hk => get_eq_some_iff.2 (h5 k hk)⟩
    · exact ⟨by simpa [IQ.head] using h3, by simpa [IQ.tail] using h4, fun k hk => get_eq_some_iff.2 (h6 k hk)⟩

/-- the `debug_assert_eq!(item.is_hot, HOT)` of `unlink` holds when a member is unlinked from its own list -/
theorem unlinkAssert_holds {c : IQ} {hot cold : List Nat} (h : Rep c hot cold) {k : Nat} :
    (k ∈ hot → unlinkAssert true c k = true) ∧ (k ∈ cold → unlinkAssert false c k = true) :=
  ⟨fun hk => by simp [unlinkAssert, h.get_hot hk], fun hk => by simp [unlinkAssert, h.get_cold hk]⟩

/-! ## removed keys -/

theorem makeHot_dead {c : IQ} {k : Nat} (h : c.get k = none) : makeHot c k = some c := by simp [makeHot, h]
theorem makeCold_dead {c : IQ} {k : Nat} (h : c.get k = none) : makeCold c k = some c := by simp [makeCold, h]
theorem remove_dead {c : IQ} {k : Nat} (h : c.get k = none) : remove c k = some (c, false) := by simp [remove, h]
theorem nextHot_dead {c : IQ} {k : Nat} (h : c.get k = none) : nextHot c k = none := by simp [nextHot, h]

/-- after `remove c k`: `k` is in neither abstract list, its slot misses, and every later operation on `k`
is a no-op -/
theorem removed_key {c : IQ} (h : WF c) (k : Nat) :
    ∃ c' b, remove c k = some (c', b) ∧ WF c' ∧ k ∉ (abs c').1 ∧ k ∉ (abs c').2 ∧ c'.get k = none ∧
      makeHot c' k = some c' ∧ makeCold c' k = some c' ∧ nextHot c' k = none ∧
      remove c' k = some (c', false) := by
  obtain ⟨hot, cold, hr⟩ := h
  obtain ⟨c', h1, r1, _⟩ := rep_remove hr k
  have n1 : k ∉ hot.erase k := fun e => ((hr.nodupH.mem_erase_iff).1 e).1 rfl
  have n2 : k ∉ cold.erase k := fun e => ((hr.nodupC.mem_erase_iff).1 e).1 rfl
  have hg : c'.get k = none := Rep.get_none r1 n1 n2
  refine ⟨c', _, h1, ⟨_, _, r1⟩, ?_, ?_, hg, makeHot_dead hg, makeCold_dead hg, nextHot_dead hg, remove_dead hg⟩
  · rw [abs_of_rep r1]; exact n1
  · rw [abs_of_rep r1]; exact n2

/-! ## reachability: every program of queue operations simulates the abstract two-list queue -/

/-- the abstract queue of `Compio.Executor` plus the key counter -/
structure Spec where
  hot : List Nat
  cold : List Nat
  next : Nat
  deriving DecidableEq, Repr

def Spec.init : Spec := ⟨[], [], 0⟩

/-- abstract effect of an operation; `none` = outside `make_cold`'s precondition (key is cold) -/
def specOp (s : Spec) : Op → Option Spec
  | .insert => some ⟨s.hot ++ [s.next], s.cold, s.next + 1⟩
  | .makeHot k => some ⟨(specMakeHot s.hot s.cold k).1, (specMakeHot s.hot s.cold k).2, s.next⟩
  | .makeCold k =>
    if k ∈ s.cold then none
    else some ⟨(specMakeCold s.hot s.cold k).1, (specMakeCold s.hot s.cold k).2, s.next⟩
  | .remove k => some ⟨s.hot.erase k, s.cold.erase k, s.next⟩
  | .clear => some ⟨[], [], s.next⟩

def specRun : Spec → List Op → Option Spec
  | s, [] => some s
  | s, op :: ops => (specOp s op).bind fun s => specRun s ops

/-- simulation relation -/
def Sim (c : IQ) (s : Spec) : Prop := Rep c s.hot s.cold ∧ c.map.length = s.next

theorem sim_init : Sim IQ.empty Spec.init := ⟨rep_empty, rfl⟩

theorem sim_step {c : IQ} {s s' : Spec} {op : Op} (h : Sim c s) (hs : specOp s op = some s') :
    ∃ c', applyOp c op = some c' ∧ Sim c' s' := by
  obtain ⟨hr, hl⟩ := h
  cases op with
  | insert =>
    obtain ⟨c', h1, r1, _, _, l1⟩ := rep_insert hr
    simp only [specOp, Option.some.injEq] at hs; subst hs
    exact ⟨c', by simp [applyOp, h1], by simpa [hl, specInsert] using r1, by simp [l1, hl]⟩
  | makeHot k =>
    obtain ⟨c', h1, r1, l1⟩ := rep_makeHot hr k
    simp only [specOp, Option.some.injEq] at hs; subst hs
    exact ⟨c', h1, r1, l1.trans hl⟩
  | makeCold k =>
    simp only [specOp] at hs
    split at hs
    · cases hs
    · rename_i hk
      obtain ⟨c', h1, r1, l1, _⟩ := rep_makeCold hr k hk
      simp only [Option.some.injEq] at hs; subst hs
      exact ⟨c', h1, r1, l1.trans hl⟩
  | remove k =>
    obtain ⟨c', h1, r1, l1, _⟩ := rep_remove hr k
    simp only [specOp, Option.some.injEq] at hs; subst hs
    exact ⟨c', by simp [applyOp, h1], r1, l1.trans hl⟩
  | clear =>
    simp only [specOp, Option.some.injEq] at hs; subst hs
    exact ⟨clear c, rfl, (rep_clear hr).1, (rep_clear hr).2.trans hl⟩

theorem sim_run {c : IQ} {s s' : Spec} {ops : List Op} (h : Sim c s) (hs : specRun s ops = some s') :
    ∃ c', runOps c ops = some c' ∧ Sim c' s' := by
  induction ops generalizing c s with
  | nil => simp only [specRun, Option.some.injEq] at hs; subst hs; exact ⟨c, rfl, h⟩
  | cons op ops ih =>
    simp only [specRun] at hs
    cases h1 : specOp s op with
    | none => simp [h1] at hs
    | some s1 =>
      simp only [h1, Option.bind_some] at hs
      obtain ⟨c1, e1, m1⟩ := sim_step h h1
      obtain ⟨c', e2, m2⟩ := ih m1 hs
      exact ⟨c', by simp [runOps, e1, e2], m2⟩

/-- every queue reached from the empty one by inserts, `make_hot`, `make_cold` of non-cold keys, removes
and clears is well-formed, never panics, and its abstraction is the fold of the abstract operations -/
theorem reachable_wf {ops : List Op} {s : Spec} (hs : specRun Spec.init ops = some s) :
    ∃ c, runOps IQ.empty ops = some c ∧ WF c ∧ abs c = (s.hot, s.cold) ∧ c.map.length = s.next := by
  obtain ⟨c, e, m⟩ := sim_run sim_init hs
  exact ⟨c, e, ⟨_, _, m.1⟩, abs_of_rep m.1, m.2⟩

/-- keys are never reused: all members are below the key counter, which never decreases -/
theorem Sim.keys_lt {c : IQ} {s : Spec} (h : Sim c s) : ∀ k, k ∈ s.hot ∨ k ∈ s.cold → k < s.next := by
  intro k hk; rw [← h.2]; exact h.1.lt_length (by simpa using hk)

theorem specOp_next_le {s s' : Spec} {op : Op} (hs : specOp s op = some s') : s.next ≤ s'.next := by
  cases op <;> simp only [specOp] at hs
  · cases hs; simp
  · cases hs; simp
  · split at hs
    · cases hs
    · cases hs; simp
  · cases hs; simp
  · cases hs; simp

/-- a key that is below the counter and in neither list (removed, or dropped by `clear`) never comes back -/
theorem specOp_dead_stays {s s' : Spec} {op : Op} (hs : specOp s op = some s') {k : Nat}
    (hlt : k < s.next) (hh : k ∉ s.hot) (hc : k ∉ s.cold) : k ∉ s'.hot ∧ k ∉ s'.cold := by
  cases op <;> simp only [specOp] at hs
  · cases hs; simp [hh, hc]; omega
  · rename_i k'
    cases hs; simp only [specMakeHot]
    split
    · rename_i hk'
      have : k ≠ k' := fun e => hc (e ▸ hk')
      exact ⟨by simp [hh, this], fun e => hc (List.mem_of_mem_erase e)⟩
    · exact ⟨hh, hc⟩
  · rename_i k'
    split at hs
    · cases hs
    · cases hs; simp only [specMakeCold]
      split
      · rename_i hk'
        have : k ≠ k' := fun e => hh (e ▸ hk')
        exact ⟨fun e => hh (List.mem_of_mem_erase e), by simp [hc, this]⟩
      · exact ⟨hh, hc⟩
  · cases hs; exact ⟨fun e => hh (List.mem_of_mem_erase e), fun e => hc (List.mem_of_mem_erase e)⟩
  · cases hs; simp

theorem dead_key_forever {c : IQ} {s s' : Spec} {ops : List Op} (h : Sim c s) (hs : specRun s ops = some s')
    {k : Nat} (hlt : k < s.next) (hh : k ∉ s.hot) (hc : k ∉ s.cold) :
    ∃ c', runOps c ops = some c' ∧ Sim c' s' ∧ k ∉ s'.hot ∧ k ∉ s'.cold ∧ c'.get k = none := by
  induction ops generalizing c s with
  | nil =>
    simp only [specRun, Option.some.injEq] at hs; subst hs
    exact ⟨c, rfl, h, hh, hc, h.1.get_none hh hc⟩
  | cons op ops ih =>
    simp only [specRun] at hs
    cases h1 : specOp s op with
    | none => simp [h1] at hs
    | some s1 =>
      simp only [h1, Option.bind_some] at hs
      obtain ⟨c1, e1, m1⟩ := sim_step h h1
      have d := specOp_dead_stays h1 hlt hh hc
      obtain ⟨c', e2, m2, r⟩ := ih m1 hs (Nat.lt_of_lt_of_le hlt (specOp_next_le h1)) d.1 d.2
      exact ⟨c', by simp [runOps, e1, e2], m2, r⟩

/-! ## non-vacuity: concrete programs (checked by evaluation) -/

example : (runOps IQ.empty [.insert, .insert, .insert]).map abs = some ([0, 1, 2], []) := by decide
example : (runOps IQ.empty [.insert, .insert, .insert, .makeCold 1]).map abs = some ([0, 2], [1]) := by decide
example : (runOps IQ.empty [.insert, .insert, .insert, .makeCold 1, .makeHot 1]).map abs = some ([0, 2, 1], []) := by
  decide
example : (runOps IQ.empty [.insert, .insert, .insert, .remove 0]).map abs = some ([1, 2], []) := by decide
example : (runOps IQ.empty [.insert, .insert, .insert, .remove 2]).map abs = some ([0, 1], []) := by decide
example : (runOps IQ.empty [.insert, .insert, .insert, .remove 1]).map abs = some ([0, 2], []) := by decide
/-- requeue then remove: insert a, b; make_cold a; make_hot a; remove a -/
example : (runOps IQ.empty [.insert, .insert, .makeCold 0, .makeHot 0, .remove 0]).map abs = some ([1], []) := by
  decide
example : specRun Spec.init [.insert, .insert, .makeCold 0, .makeHot 0, .remove 0] = some ⟨[1], [], 2⟩ := by decide
/-- a removed key is never handed out again, later operations on it do nothing -/
example : (runOps IQ.empty [.insert, .insert, .remove 0, .insert, .makeHot 0, .makeCold 0, .remove 0]).map abs =
    some ([1, 2], []) := by decide
example : (runOps IQ.empty [.insert, .insert, .makeCold 1, .clear, .insert]).map abs = some ([2], []) := by decide
example : (runOps IQ.empty [.insert, .insert, .insert, .makeCold 1]).map
    (fun c => iterCollect 10 c (iterHot c)) = some [0, 2] := by decide
/-- `make_cold` of a cold key is outside the simulated programs -/
example : specRun Spec.init [.insert, .makeCold 0, .makeCold 0] = none := by decide

/-! ## calls OUTSIDE the preconditions corrupt the structure (release build: `debug_assert!` off) -/

theorem not_wf_of_dead_tail {c : IQ} {k : Nat} (h1 : c.hotTail = some k) (h2 : c.get k = none) : ¬ WF c := by
  rintro ⟨hot, cold, hr⟩
  have ht : hot.getLast? = some k := by
    have := hr.hotRep.tail; simp only [IQ.tail, if_true, h1] at this; exact this.symm
  have := hr.get_hot (getLast?_mem ht)
  rw [h2] at this; cases this

theorem not_wf_of_self_loop {c : IQ} {k : Nat} (h : nextHot c k = some k) : ¬ WF c := by
  rintro ⟨hot, cold, hr⟩
  cases hg : c.get k with
  | none => simp [nextHot, hg] at h
  | some it =>
    have hl := (hr.live k).1 (by simp [hg])
    simp only [List.not_mem_nil, or_false] at hl
    rcases hl with hk | hk
    · rw [hr.hotRep.nextHot hk] at h; exact succIn_ne hr.nodupH h rfl
    · rw [hr.coldRep.nextHot hk] at h; exact succIn_ne hr.nodupC h rfl

/-- `unlink` with the WRONG list flag (what `remove` would do if it trusted a stale `is_hot`): on hot = [0, 1],
unlinking key 1 through the COLD list and then freeing its slot leaves the dead key 1 as `hot.tail`; the
next `insert` links key 2 behind the dead key, so key 2 is live but unreachable from `hot.head`
(its task would never be polled). -/
example :
    let c := (runOps IQ.empty [.insert, .insert]).bind fun c =>
      (unlink false c 1).map fun c => ({ c with map := c.map.set 1 none } : IQ)
    c.map (fun c => (c.hotTail, c.get 1, unlinkAssert false c 1)) = some (some 1, none, true) ∧
    (c.bind fun c => (insert c).map fun r => (abs r.1, (r.1.get 2).isSome)) = some (([0], []), true) := by
  decide

example : ∀ c, ((runOps IQ.empty [.insert, .insert]).bind fun c =>
      (unlink false c 1).map fun c => ({ c with map := c.map.set 1 none } : IQ)) = some c → ¬ WF c := by
  intro c hc
  have : c.hotTail = some 1 ∧ c.get 1 = none := by
    have e : ((runOps IQ.empty [.insert, .insert]).bind fun c =>
      (unlink false c 1).map fun c => ({ c with map := c.map.set 1 none } : IQ)).map
        (fun c => (c.hotTail, c.get 1)) = some (some 1, none) := by decide
    rw [hc] at e; simpa using e
  exact not_wf_of_dead_tail this.1 this.2

/-- the `debug_assert` of `unlink` catches the wrong flag while the item is still there -/
example : (runOps IQ.empty [.insert, .insert]).map (fun c => unlinkAssert false c 1) = some false := by decide

/-- `make_cold` of a key that is ALREADY cold (only guarded by `debug_assert!(item.is_hot)`): with cold = [0],
`unlink::<HOT>` leaves `cold.head = cold.tail = 0`, then `link_tail::<COLD>` takes `old_tail = 0 = key` and
sets `item(0).next = Some(0)`: a self loop; `iter`-style walks over the cold list never end. -/
example :
    ((runOps IQ.empty [.insert, .makeCold 0]).bind fun c => makeCold c 0).map
      (fun c => (nextHot c 0, walk 5 c c.coldHead, makeColdAssert c 0)) = some (some 0, [0, 0, 0, 0, 0], false) := by
  decide

example : ∀ c, ((runOps IQ.empty [.insert, .makeCold 0]).bind fun c => makeCold c 0) = some c → ¬ WF c := by
  intro c hc
  have e : ((runOps IQ.empty [.insert, .makeCold 0]).bind fun c => makeCold c 0).map (fun c => nextHot c 0) =
      some (some 0) := by decide
  rw [hc] at e
  exact not_wf_of_self_loop (by simpa using e)

/-- `link_tail` of a key that is already linked (here: the hot tail itself) also creates a self loop -/
example : ((runOps IQ.empty [.insert, .insert]).bind fun c => linkTail true c 1).map
    (fun c => (nextHot c 1, walk 5 c c.hotHead)) = some (some 1, [0, 1, 1, 1, 1]) := by decide

end Compio.QueueIntrusive
