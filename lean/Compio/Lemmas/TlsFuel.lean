/-
Fuel independence of the engine's handshake loop: any two budgets above the number of cells still to be
processed give the same result (the loop never runs out of fuel, the value of `Sched.fuel` is irrelevant).
-/
import Compio.Lemmas.TlsShim

namespace Compio.TlsShim
open Compio.TlsNet

theorem bioWrite_fields (sc : Sched) (o : Ossl) (v : View) (cs : List Cell) :
    (bioWrite sc o v cs).1.tape = o.tape ∧ (bioWrite sc o v cs).1.post = o.post := by
  unfold bioWrite
  split
  · exact ⟨rfl, rfl⟩
  · split <;> exact ⟨rfl, rfl⟩

theorem bioFlush_fields (sc : Sched) (o : Ossl) (v : View) :
    (bioFlush sc o v).1.tape = o.tape ∧ (bioFlush sc o v).1.post = o.post := by
  unfold bioFlush
  split
  · exact ⟨rfl, rfl⟩
  · split
    · split <;> exact ⟨rfl, rfl⟩
    · exact ⟨rfl, rfl⟩

theorem bioRead_fields (sc : Sched) (o : Ossl) (v : View) (n : Nat) :
    (bioRead sc o v n).1.tape = o.tape ∧ (bioRead sc o v n).1.post = o.post := by
  unfold bioRead
  split
  · exact ⟨rfl, rfl⟩
  · simp only
    split
    · split
      · exact ⟨rfl, rfl⟩
      · exact ⟨rfl, rfl⟩
      · split <;> exact ⟨rfl, rfl⟩
    · split <;> exact ⟨rfl, rfl⟩

/-- the end-of-flight flush followed by the rest of the loop, for two budgets -/
theorem flush_then (sc : Sched) (f1 f2 : Nat)
    (ih : ∀ (o : Ossl) (v : View), o.tape.length + o.post < f1 → o.tape.length + o.post < f2 →
      sslDoHandshake sc f1 o v = sslDoHandshake sc f2 o v)
    (o' : Ossl) (v' : View) (h1 : o'.tape.length + o'.post < f1) (h2 : o'.tape.length + o'.post < f2) :
    (match bioFlush sc o' v' with
      | (o, v, .ok ()) => sslDoHandshake sc f1 o v
      | (o, v, .wouldBlock p) => (o, v, .wouldBlock p)
      | (o, v, .err) => (o, v, .err)
      | (o, v, .panic) => (o, v, .panic)) =
    (match bioFlush sc o' v' with
      | (o, v, .ok ()) => sslDoHandshake sc f2 o v
      | (o, v, .wouldBlock p) => (o, v, .wouldBlock p)
      | (o, v, .err) => (o, v, .err)
      | (o, v, .panic) => (o, v, .panic)) := by
  have hg := bioFlush_fields sc o' v'
  generalize bioFlush sc o' v' = res2 at hg
  obtain ⟨o2, v2, r2⟩ := res2
  simp only at hg
  cases r2 with
  | ok u => cases u; exact ih o2 v2 (by rw [hg.1, hg.2]; exact h1) (by rw [hg.1, hg.2]; exact h2)
  | wouldBlock p => rfl
  | err => rfl
  | panic => rfl

theorem sslDoHandshake_fuel_indep (sc : Sched) : ∀ (f1 f2 : Nat) (o : Ossl) (v : View),
    o.tape.length + o.post < f1 → o.tape.length + o.post < f2 →
    sslDoHandshake sc f1 o v = sslDoHandshake sc f2 o v := by
  intro f1
  induction f1 with
  | zero => intro f2 o v h; omega
  | succ f1 ih =>
    intro f2 o v h1 h2
    cases f2 with
    | zero => omega
    | succ f2 =>
      rw [sslDoHandshake, sslDoHandshake]
      cases ht : o.tape with
      | nil =>
        simp only
        by_cases hp : o.post = 0
        · simp [hp]
        · simp only [hp, if_false]
          have hf := bioWrite_fields sc o v (List.replicate o.post Cell.post)
          generalize bioWrite sc o v (List.replicate o.post Cell.post) = res at hf
          obtain ⟨o1, v1, r1⟩ := res
          simp only at hf
          cases r1 with
          | ok n =>
            simp only
            by_cases hn : n = 0
            · simp [hn]
            · simp only [hn, if_false]
              have hm : ({ o1 with post := o1.post - n } : Ossl).tape.length + ({ o1 with post := o1.post - n } : Ossl).post
                  < o.tape.length + o.post := by
                simp only [hf.1, hf.2]; omega
              by_cases hz : o1.post - n = 0
              · rw [if_pos hz, if_pos hz]
                exact flush_then sc f1 f2 (fun o v a b => ih f2 o v a b) _ v1 (by omega) (by omega)
              · rw [if_neg hz, if_neg hz]
                exact ih f2 _ v1 (by omega) (by omega)
          | wouldBlock p => rfl
          | err => rfl
          | panic => rfl
      | cons d t =>
        simp only
        by_cases hd : d = o.me
        · simp only [hd, if_true]
          have hf := bioWrite_fields sc o v (List.replicate (leadRun o.me (o.me :: t)) Cell.hs)
          generalize bioWrite sc o v (List.replicate (leadRun o.me (o.me :: t)) Cell.hs) = res at hf
          obtain ⟨o1, v1, r1⟩ := res
          simp only at hf
          cases r1 with
          | ok n =>
            simp only
            by_cases hn : n = 0
            · simp [hn]
            · simp only [hn, if_false]
              have hlen : o1.tape.length = t.length + 1 := by rw [hf.1, ht, hd]; simp
              have hm : ({ o1 with tape := o1.tape.drop n } : Ossl).tape.length + ({ o1 with tape := o1.tape.drop n } : Ossl).post
                  < o.tape.length + o.post := by
                simp only [List.length_drop, hf.2, hlen, ht, List.length_cons]; omega
              by_cases hz : n = leadRun o.me (o.me :: t)
              · rw [if_pos hz, if_pos hz]
                exact flush_then sc f1 f2 (fun o v a b => ih f2 o v a b) _ v1 (by omega) (by omega)
              · rw [if_neg hz, if_neg hz]
                exact ih f2 _ v1 (by omega) (by omega)
          | wouldBlock p => rfl
          | err => rfl
          | panic => rfl
        · simp only [hd, if_false]
          have hf := bioRead_fields sc o v (leadRun o.me.other (d :: t))
          generalize bioRead sc o v (leadRun o.me.other (d :: t)) = res at hf
          obtain ⟨o1, v1, r1⟩ := res
          simp only at hf
          cases r1 with
          | ok cs =>
            simp only
            split
            · rfl
            · rename_i hc
              have hcs : 1 ≤ cs.length := by
                cases cs with
                | nil => simp at hc
                | cons _ _ => simp
              have hlen : o1.tape.length = t.length + 1 := by rw [hf.1, ht]; simp
              exact ih f2 _ v1 (by simp only [List.length_drop, hf.2, hlen, ht, List.length_cons] at h1 ⊢; omega)
                (by simp only [List.length_drop, hf.2, hlen, ht, List.length_cons] at h2 ⊢; omega)
          | wouldBlock p => rfl
          | err => rfl
          | panic => rfl

end Compio.TlsShim
