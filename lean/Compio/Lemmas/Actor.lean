/-
Invariants of the actor transition system of Model/Actor.lean, each preserved by every atomic action
(`step`), hence by every schedule (`run`).
-/
import Compio.Model.Actor

namespace Compio.Actor
set_option linter.unusedSimpArgs false
set_option linter.unusedVariables false

/-- finished cases of `step` are closed by this: split every `if`/`match` of the hypothesis -/
macro "step_cases" h:ident : tactic =>
  `(tactic| (repeat' (first | (split at $h:ident) | (cases $h:ident))))


/-! ### `resolve` only touches `resolved` -/

@[simp] theorem resolve_cap (s : St) (it : Item) (r : Res) : (s.resolve it r).cap = s.cap := by
  unfold St.resolve; split <;> rfl

@[simp] theorem resolve_queue (s : St) (it : Item) (r : Res) : (s.resolve it r).queue = s.queue := by
  unfold St.resolve; split <;> rfl

@[simp] theorem resolve_stopSlot (s : St) (it : Item) (r : Res) : (s.resolve it r).stopSlot = s.stopSlot := by
  unfold St.resolve; split <;> rfl

@[simp] theorem resolve_stopping (s : St) (it : Item) (r : Res) : (s.resolve it r).stopping = s.stopping := by
  unfold St.resolve; split <;> rfl

@[simp] theorem resolve_rxAlive (s : St) (it : Item) (r : Res) : (s.resolve it r).rxAlive = s.rxAlive := by
  unfold St.resolve; split <;> rfl

@[simp] theorem resolve_chanAlive (s : St) (it : Item) (r : Res) : (s.resolve it r).chanAlive = s.chanAlive := by
  unfold St.resolve; split <;> rfl

@[simp] theorem resolve_futureAlive (s : St) (it : Item) (r : Res) : (s.resolve it r).futureAlive = s.futureAlive := by
  unfold St.resolve; split <;> rfl

@[simp] theorem resolve_detached (s : St) (it : Item) (r : Res) : (s.resolve it r).detached = s.detached := by
  unfold St.resolve; split <;> rfl

@[simp] theorem resolve_pc (s : St) (it : Item) (r : Res) : (s.resolve it r).pc = s.pc := by
  unfold St.resolve; split <;> rfl

@[simp] theorem resolve_tok (s : St) (it : Item) (r : Res) : (s.resolve it r).tok = s.tok := by
  unfold St.resolve; split <;> rfl

@[simp] theorem resolve_inflight (s : St) (it : Item) (r : Res) : (s.resolve it r).inflight = s.inflight := by
  unfold St.resolve; split <;> rfl

@[simp] theorem resolve_stopsInFlight (s : St) (it : Item) (r : Res) : (s.resolve it r).stopsInFlight = s.stopsInFlight := by
  unfold St.resolve; split <;> rfl

@[simp] theorem resolve_accepted (s : St) (it : Item) (r : Res) : (s.resolve it r).accepted = s.accepted := by
  unfold St.resolve; split <;> rfl

@[simp] theorem resolve_handled (s : St) (it : Item) (r : Res) : (s.resolve it r).handled = s.handled := by
  unfold St.resolve; split <;> rfl

@[simp] theorem resolve_log (s : St) (it : Item) (r : Res) : (s.resolve it r).log = s.log := by
  unfold St.resolve; split <;> rfl

@[simp] theorem resolve_issued (s : St) (it : Item) (r : Res) : (s.resolve it r).issued = s.issued := by
  unfold St.resolve; split <;> rfl

@[simp] theorem resolve_stopConsumed (s : St) (it : Item) (r : Res) : (s.resolve it r).stopConsumed = s.stopConsumed := by
  unfold St.resolve; split <;> rfl

@[simp] theorem resolve_notified (s : St) (it : Item) (r : Res) :
    (s.resolve it r).notified = s.notified := by
  unfold St.resolve; split <;> rfl

@[simp] theorem resolve_startReported (s : St) (it : Item) (r : Res) :
    (s.resolve it r).startReported = s.startReported := by
  unfold St.resolve; split <;> rfl

theorem resolve_resolved (s : St) (it : Item) (r : Res) :
    (s.resolve it r).resolved = if it.call then s.resolved ++ [(it.id, r)] else s.resolved := by
  unfold St.resolve; split <;> rfl

@[simp] theorem resolve_isClosed (s : St) (it : Item) (r : Res) : (s.resolve it r).isClosed = s.isClosed := by
  simp [St.isClosed]

/-! ### reachability -/

theorem run_append (s : St) (es fs : List Ev) :
    run s (es ++ fs) = (run s es).bind fun s' => run s' fs := by
  induction es generalizing s with
  | nil => simp [run]
  | cons e es ih =>
    simp only [List.cons_append, run]
    cases step s e <;> simp [ih]

/-- induction principle: a property of the initial state preserved by `step` holds after every schedule -/
theorem run_induct {P : St → Prop} {s s' : St} {es : List Ev}
    (h0 : P s) (hstep : ∀ s e s', P s → step s e = some s' → P s') (hr : run s es = some s') : P s' := by
  induction es generalizing s with
  | nil => simp [run] at hr; subst hr; exact h0
  | cons e es ih =>
    simp only [run] at hr
    cases hs : step s e with
    | none => simp [hs] at hr
    | some s1 =>
      simp [hs] at hr
      exact ih (hstep s e s1 h0 hs) hr

/-! ### (Q) nothing accepted is lost or duplicated: `accepted = handled ++ queue` -/

def InvQ (s : St) : Prop := s.accepted = s.handled ++ s.queue.map (·.id)

theorem invQ_init (cap : Nat) (named : Bool) : InvQ (St.init cap named) := by
  simp [InvQ, St.init]

theorem invQ_step (s : St) (e : Ev) (s' : St) (hi : InvQ s) (h : step s e = some s') : InvQ s' := by
  unfold InvQ at *
  cases e <;> simp only [step] at h <;> step_cases h <;>
    simp_all [St.obs]

/-! ### (C) the message channel never holds more than `cap` envelopes -/

def InvC (s : St) : Prop := s.queue.length ≤ s.cap

theorem invC_init (cap : Nat) (named : Bool) : InvC (St.init cap named) := by
  simp [InvC, St.init]

theorem invC_step (s : St) (e : Ev) (s' : St) (hi : InvC s) (h : step s e = some s') : InvC s' := by
  unfold InvC at *
  cases e <;> simp only [step] at h <;> step_cases h <;>
    simp_all [St.obs, St.pushRes] <;> (try split at * ) <;> (try simp_all) <;> omega

/-! ### (H) `handled` is exactly the sequence of handler entries in the log -/

def hsId : Obs → Option Nat
  | .hs m => some m
  | _ => none

def hsIds (log : List Obs) : List Nat := log.filterMap hsId

def InvH (s : St) : Prop := s.handled = hsIds s.log

theorem invH_init (cap : Nat) (named : Bool) : InvH (St.init cap named) := by
  simp [InvH, St.init, hsIds]

theorem invH_step (s : St) (e : Ev) (s' : St) (hi : InvH s) (h : step s e = some s') : InvH s' := by
  unfold InvH hsIds at *
  cases e <;> simp only [step] at h <;> step_cases h <;>
    simp_all [St.obs, hsId, List.filterMap_append]

/-! ### (R) receiver dropped exactly at the program points after `drop(receiver)`; (F) `stopping` set from
`begin_stop` on; the channel outlives the task -/

def Pc.rxDropped : Pc → Bool
  | .startFailed | .finPostStop _ | .finRelease _ | .finNotify _ | .exited _ => true
  | _ => false

def Pc.afterBeginStop : Pc → Bool
  | .finPreStop _ | .finDropRx _ | .finPostStop _ | .finRelease _ | .finNotify _ | .exited _ => true
  | _ => false

def Pc.terminal : Pc → Bool
  | .startFailed | .exited _ => true
  | _ => false

structure InvR (s : St) : Prop where
  rx : s.rxAlive = !s.pc.rxDropped
  stopping : s.pc.afterBeginStop = true → s.stopping = true
  chan : s.chanAlive = false → s.pc.terminal = true ∧ s.inflight = [] ∧ s.stopsInFlight = 0

theorem invR_init (cap : Nat) (named : Bool) : InvR (St.init cap named) := by
  constructor <;> simp [St.init, Pc.rxDropped, Pc.afterBeginStop, Pc.terminal]

theorem invR_step (s : St) (e : Ev) (s' : St) (hi : InvR s) (h : step s e = some s') : InvR s' := by
  obtain ⟨h1, h2, h3⟩ := hi
  cases e <;> simp only [step] at h <;> step_cases h <;>
    (constructor <;> simp_all [St.obs, Pc.rxDropped, Pc.afterBeginStop, Pc.terminal])

/-! ### (K) the registration token follows the program counter -/

def tokOk : Pc → Tok → Bool
  | _, .unnamed => true
  | .init, .reserved => true
  | .failRelease, .reserved => true
  | .failRelease, _ => false
  | .failReport, .dropped => true
  | .failReport, _ => false
  | .failReturn, .dropped => true
  | .failReturn, _ => false
  | .startFailed, .dropped => true
  | .exited _, .dropped => true
  | .finNotify _, .dropped => true
  | .finNotify _, _ => false
  | .init, _ => false
  | .startFailed, _ => false
  | .exited _, _ => false
  | _, .active => true
  | _, _ => false

def InvK (s : St) : Prop := tokOk s.pc s.tok = true

theorem invK_init (cap : Nat) (named : Bool) : InvK (St.init cap named) := by
  cases named <;> simp [InvK, St.init, tokOk]

theorem invK_step (s : St) (e : Ev) (s' : St) (hi : InvK s) (h : step s e = some s') : InvK s' := by
  unfold InvK at *
  cases e <;> simp only [step] at h <;> step_cases h <;>
    (cases ht : s.tok <;> simp_all [St.obs, tokOk, Tok.activate, Tok.release])

/-! ### (L) the log is a word of the lifecycle automaton, in the state the program counter says -/

def agree : Life → Pc → Bool
  | .fresh, .init => true
  | .deadStart, .failRelease => true
  | .deadStart, .failReport => true
  | .deadStart, .failReturn => true
  | .deadStart, .startFailed => true
  | .started, .preStarted => true
  | .started, .postStart => true
  | .running, .atRecv => true
  | .running, .polledStop => true
  | .inHandler m, .handling it _ => m == it.id
  | .started, .finBegin _ => true
  | .running, .finBegin _ => true
  | .closing, .finBegin _ => true
  | .started, .finPreStop _ => true
  | .running, .finPreStop _ => true
  | .closing, .finPreStop _ => true
  | .stopped1, .finDropRx _ => true
  | .stopped1, .finPostStop _ => true
  | .done, .finRelease _ => true
  | .done, .finNotify _ => true
  | .done, .exited _ => true
  | _, _ => false

theorem lifeRun_append (l : Life) (a b : List Obs) :
    lifeRun l (a ++ b) = (lifeRun l a).bind fun l' => lifeRun l' b := by
  induction a generalizing l with
  | nil => simp [lifeRun]
  | cons o a ih =>
    simp only [List.cons_append, lifeRun]
    cases lifeStep l o <;> simp [ih]

theorem lifeRun_snoc (l : Life) (a : List Obs) (o : Obs) :
    lifeRun l (a ++ [o]) = (lifeRun l a).bind fun l' => lifeStep l' o := by
  rw [lifeRun_append]
  cases lifeRun l a with
  | none => rfl
  | some l' =>
    simp only [Option.bind_some, lifeRun]
    cases lifeStep l' o <;> rfl

def InvL (s : St) : Prop := ∃ l, lifeRun .fresh s.log = some l ∧ agree l s.pc = true

theorem invL_init (cap : Nat) (named : Bool) : InvL (St.init cap named) :=
  ⟨.fresh, by simp [St.init, lifeRun], by simp [St.init, agree]⟩

theorem invL_step (s : St) (e : Ev) (s' : St) (hi : InvL s) (h : step s e = some s') : InvL s' := by
  obtain ⟨l, hl, ha⟩ := hi
  unfold InvL
  cases e <;> simp only [step] at h <;> step_cases h <;>
    (cases l <;> simp_all [St.obs, agree, lifeRun_snoc, lifeStep])

end Compio.Actor
