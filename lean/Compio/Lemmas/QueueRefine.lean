/-
The two-list queue of the executor model (Model/Executor.lean: `hot`, `cold`, manipulated by `makeHot`,
`makeCold`, `removeTask`, `spawn`, `clearAll`, `drainSync`) is, in every state reachable by any program, the
abstraction of a well-formed INTRUSIVE queue (Model/QueueIntrusive.lean: slot map + prev/next/is_hot +
head/tail, as queue.rs codes it) obtained by the corresponding `make_hot` / `make_cold` / `remove` /
`insert` / `clear` calls — so every theorem about the two lists is a theorem about the structure the code uses.
-/
import Compio.Lemmas.QueueIntrusive
import Compio.Model.Executor

namespace Compio.Executor
open Compio.QueueIntrusive

/-- the queue lists of `e` are represented by some well-formed intrusive queue whose key counter is the
number of tasks spawned so far (the next `insert` returns the id the model gives the next task) -/
def QRep (e : Exec) : Prop :=
  ∃ c : IQ, runOps IQ.empty e.qlog = some c ∧ Rep c e.hot e.cold ∧ c.map.length = e.tasks.length

theorem runOps_append (l1 : List QueueIntrusive.Op) : ∀ (c : IQ) (l2 : List QueueIntrusive.Op),
    runOps c (l1 ++ l2) = (runOps c l1).bind fun c' => runOps c' l2 := by
  induction l1 with
  | nil => intro c l2; simp [runOps]
  | cons a l1 ih =>
    intro c l2
    simp only [List.cons_append, runOps]
    cases applyOp c a with
    | none => rfl
    | some c1 => simpa using ih c1 l2

theorem runOps_snoc {c0 c c' : IQ} {l : List QueueIntrusive.Op} {op : QueueIntrusive.Op}
    (h : runOps c0 l = some c) (h' : applyOp c op = some c') : runOps c0 (l ++ [op]) = some c' := by
  rw [runOps_append, h]; simp [runOps, h']

theorem QRep.congr {e e' : Exec} (h : QRep e) (h1 : e'.hot = e.hot) (h2 : e'.cold = e.cold)
    (h3 : e'.tasks.length = e.tasks.length) (h4 : e'.qlog = e.qlog := by rfl) : QRep e' := by
  obtain ⟨c, q, r, l⟩ := h
  exact ⟨c, by rw [h4]; exact q, by rw [h1, h2]; exact r, by rw [h3]; exact l⟩

theorem QRep.wf_abs {e : Exec} (h : QRep e) : ∃ c : IQ, WF c ∧ abs c = (e.hot, e.cold) := by
  obtain ⟨c, _, r, _⟩ := h
  exact ⟨c, ⟨_, _, r⟩, abs_of_rep r⟩

theorem qrep_makeHot {e : Exec} (h : QRep e) (id : Nat) : QRep (makeHot e id) := by
  obtain ⟨c, q, r, l⟩ := h
  unfold makeHot
  by_cases hc : id ∈ e.cold
  · obtain ⟨c', hm, r', l'⟩ := rep_makeHot r id
    unfold specMakeHot at r'
    exact ⟨c', by simpa [hc] using runOps_snoc q (show applyOp c (.makeHot id) = some c' from hm),
      by simpa [hc] using r', by simp [hc, l', l]⟩
  · simp only [List.contains_iff_mem, hc, if_false, Bool.false_eq_true]
    exact ⟨c, q, r, l⟩

theorem qrep_makeCold {e : Exec} (h : QRep e) (id : Nat) : QRep (makeCold e id) := by
  obtain ⟨c, q, r, l⟩ := h
  unfold makeCold
  by_cases hh : id ∈ e.hot
  · have hpre : id ∉ e.cold := by
      intro hc
      have := (rep_iff.mp r).1
      rw [List.nodup_append] at this
      exact this.2.2 id hh id hc rfl
    obtain ⟨c', hm, r', l', _⟩ := rep_makeCold r id hpre
    unfold specMakeCold at r'
    exact ⟨c', by simpa [hh] using runOps_snoc q (show applyOp c (.makeCold id) = some c' from hm),
      by simpa [hh] using r', by simp [hh, l', l]⟩
  · simp only [List.contains_iff_mem, hh, if_false, Bool.false_eq_true]
    exact ⟨c, q, r, l⟩

theorem qrep_removeTask {e : Exec} (h : QRep e) (id : Nat) : QRep (removeTask e id) := by
  obtain ⟨c, q, r, l⟩ := h
  obtain ⟨c', hm, r', l', _⟩ := rep_remove r id
  exact ⟨c', by simpa [removeTask] using runOps_snoc q (show applyOp c (.remove id) = some c' by simp [applyOp, hm]),
    by simpa [specRemove, removeTask] using r', by simp [removeTask, l', l]⟩

theorem qrep_foldl_makeHot (l : List Nat) : ∀ {e : Exec}, QRep e → QRep (l.foldl makeHot e) := by
  induction l with
  | nil => intro e h; exact h
  | cons a l ih => intro e h; exact ih (qrep_makeHot h a)

theorem foldl_makeHot_len (l : List Nat) : ∀ e : Exec, (l.foldl makeHot e).tasks.length = e.tasks.length := by
  induction l with
  | nil => intro e; rfl
  | cons a l ih =>
    intro e
    rw [List.foldl_cons, ih]
    unfold makeHot; split <;> rfl

theorem qrep_drainSync {e : Exec} (h : QRep e) : QRep (drainSync e) := by
  unfold drainSync
  split
  · exact h
  · have h0 : QRep ({ e with sync := [] } : Exec) := h.congr rfl rfl rfl
    have := qrep_foldl_makeHot e.sync h0
    simp only
    split
    · exact this
    · exact this.congr rfl rfl rfl

theorem qrep_setTask {e : Exec} (h : QRep e) (id : Nat) (t : TaskSt) : QRep (e.setTask id t) :=
  h.congr rfl rfl (by simp [Exec.setTask])

theorem qrep_scheduleLocal {e : Exec} (h : QRep e) (id : Nat) : QRep (scheduleLocal e id) := by
  unfold scheduleLocal
  cases e.get? id with
  | none => exact h
  | some t =>
    simp only
    split
    · exact qrep_makeHot (qrep_drainSync h) id
    · exact h

theorem qrep_remoteSchedule {e : Exec} (h : QRep e) (id : Nat) : QRep (remoteSchedule e id) := by
  unfold remoteSchedule
  cases e.get? id with
  | none => exact h
  | some t =>
    simp only
    split
    · exact qrep_setTask h _ _
    · exact (qrep_setTask h id _).congr rfl rfl rfl

theorem qrep_remoteScheduleGuarded {e : Exec} (h : QRep e) (id : Nat) : QRep (remoteScheduleGuarded e id) := by
  unfold remoteScheduleGuarded
  split
  · exact qrep_remoteSchedule (e := { e with outstanding := e.outstanding + 1 })
      (QRep.congr (e := e) h rfl rfl rfl) id
  · exact h

theorem qrep_runOne {e : Exec} (h : QRep e) (id : Nat) : QRep (runOne e id).1 := by
  unfold runOne
  cases e.get? id with
  | none => exact h
  | some t0 =>
    simp only
    rcases runTask t0 with ⟨t, k, w⟩
    cases k <;> simp only
    · exact qrep_removeTask (qrep_setTask h id t) id
    · exact qrep_setTask h id t
    · exact qrep_scheduleLocal (qrep_setTask h id t) id
    · exact qrep_remoteScheduleGuarded (qrep_setTask h id t) id
    · exact (qrep_removeTask (qrep_setTask h id t) id).congr rfl rfl rfl
    · exact (qrep_removeTask (qrep_setTask (qrep_scheduleLocal (qrep_setTask h id _) id) id t) id).congr rfl rfl rfl

theorem qrep_tickStep {e : Exec} (h : QRep e) (id : Nat) : QRep (tickStep e id).1 :=
  qrep_runOne (qrep_makeCold h id) id

theorem qrep_tickLoop (n : Nat) : ∀ (c : Option Nat) {e : Exec} (log : List Nat), QRep e →
    QRep (tickLoop n c e log).1 := by
  induction n with
  | zero => intro c e log h; simpa [tickLoop] using h
  | succ n ih =>
    intro c e log h
    cases c with
    | none => simpa [tickLoop] using h
    | some id => simp only [tickLoop]; exact ih _ _ (qrep_tickStep h id)

theorem qrep_tickFrom {e : Exec} (h : QRep e) (n : Nat) : QRep (tickFrom e n).1 :=
  qrep_tickLoop n _ _ (qrep_drainSync h)

theorem qrep_finishSched {e : Exec} (h : QRep e) (id : Nat) : QRep (finishSched e id) := by
  unfold finishSched
  cases e.get? id with
  | none => exact h
  | some t => exact qrep_setTask h _ _

/-- `Executor::spawn`: the key `insert` returns is the id the model gives the task -/
theorem qrep_spawn {e : Exec} (h : QRep e) (sc : List Outcome) : QRep (spawn e sc).1 := by
  obtain ⟨c, q, r, l⟩ := h
  obtain ⟨c', hm, r', _, _, l'⟩ := rep_insert r
  refine ⟨c', by simpa [spawn] using runOps_snoc q (show applyOp c .insert = some c' by simp [applyOp, hm]),
    ?_, by simp [spawn, l', l]⟩
  simpa [specInsert, spawn, l] using r'

theorem clearTask_queues (e : Exec) (id : Nat) :
    (clearTask e id).hot = e.hot ∧ (clearTask e id).cold = e.cold ∧
    (clearTask e id).tasks.length = e.tasks.length ∧ (clearTask e id).qlog = e.qlog := by
  unfold clearTask
  cases e.get? id <;> simp [Exec.setTask]

theorem foldl_clearTask_len (l : List Nat) : ∀ e : Exec, (l.foldl clearTask e).tasks.length = e.tasks.length := by
  induction l with
  | nil => intro e; rfl
  | cons a l ih => intro e; rw [List.foldl_cons, ih, (clearTask_queues e a).2.2.1]

theorem qrep_execDrop {e : Exec} (h : QRep e) : QRep (execDrop e) := by
  obtain ⟨c, q, r, l⟩ := h
  obtain ⟨r', l'⟩ := rep_clear r
  exact ⟨clear c, by simpa [execDrop, clearAll] using runOps_snoc q (show applyOp c .clear = some (clear c) from rfl),
    by simpa [execDrop, clearAll] using r', by
    simp only [execDrop, clearAll]; rw [l', l, foldl_clearTask_len]⟩

theorem qrep_remoteWakeB {e : Exec} (h : QRep e) (id n : Nat) : QRep (remoteWakeB e id n).1 := by
  unfold remoteWakeB
  cases e.get? id with
  | none => exact h
  | some t =>
    simp only
    have hs := qrep_setTask h id (remoteSchedTask t).1
    split
    · exact hs
    · split
      · refine qrep_finishSched (qrep_tickFrom (QRep.congr (e := e.setTask id (remoteSchedTask t).1) hs ?_ ?_ ?_) n) id <;> rfl
      · have hB : QRep ({ ({ e.setTask id (remoteSchedTask t).1 with pending := e.pending + 1 } : Exec) with
            outstanding := 1, inflight := some id } : Exec) :=
          QRep.congr (e := e.setTask id (remoteSchedTask t).1) hs rfl rfl rfl
        have hT := qrep_tickFrom hB n
        refine qrep_finishSched (QRep.congr hT ?_ ?_ ?_) id <;> rfl

theorem qrep_apply {e : Exec} (h : QRep e) (op : Op) : QRep (apply e op) := by
  unfold apply applyR
  cases op with
  | spawn sc => simp only; split; exact h; exact qrep_spawn h sc
  | tick n =>
    simp only; split; exact h
    show QRep (tickFrom { e with outstanding := 0 } n).1
    exact qrep_tickFrom (e := { e with outstanding := 0 })
      (QRep.congr (e := e) (e' := { e with outstanding := 0 }) h rfl rfl rfl) n
  | xdrop => simp only; split; exact h; exact qrep_execDrop h
  | hpoll id w =>
    simp only [handlePoll]; cases e.get? id with
    | none => exact h
    | some t => simp only; split; exact h; exact qrep_setTask h _ _
  | rhpoll id w =>
    simp only [remoteHandlePoll]; cases e.get? id with
    | none => exact h
    | some t => simp only; split; exact h; exact qrep_setTask h _ _
  | hdrop id =>
    simp only [handleDrop]; cases e.get? id with
    | none => exact h
    | some t => simp only; split; exact h; exact qrep_setTask (qrep_scheduleLocal h id) _ _
  | hdetach id =>
    simp only [handleDetach]; cases e.get? id with
    | none => exact h
    | some t => simp only; split; exact h; exact qrep_setTask h _ _
  | hcancel id =>
    have hc : QRep (handleCancel e id).1 := by
      simp only [handleCancel, cancelTask]; cases e.get? id with
      | none => exact h
      | some t => simp only; split; exact h; exact qrep_setTask (qrep_scheduleLocal h id) _ _
    simp only
    split
    · exact h
    · simp only [handlePoll]; cases (handleCancel e id).1.get? id with
      | none => exact hc
      | some t => simp only; split; exact hc; exact qrep_setTask hc _ _
  | wake id =>
    simp only [wakeLocal]; cases e.get? id with
    | none => exact h
    | some t => simp only; split; exact h; exact qrep_scheduleLocal h id
  | wdrop id =>
    simp only [wakerDrop]; cases e.get? id with
    | none => exact h
    | some t => simp only; split; exact h; exact qrep_setTask h _ _
  | rwdrop id =>
    simp only [wakerDrop]; cases e.get? id with
    | none => exact h
    | some t => simp only; split; exact h; exact qrep_setTask h _ _
  | rhdrop id =>
    simp only; split; exact h; split; exact h
    simp only [remoteHandleDrop]
    have h1 := qrep_remoteSchedule (e := chargeBudget e) (h.congr rfl rfl rfl) id
    cases (remoteSchedule (chargeBudget e) id).get? id with
    | none => exact h1
    | some t => exact qrep_setTask h1 _ _
  | rhcancel id =>
    simp only; split; exact h; split; exact h
    simp only [remoteHandleCancel]
    have h1 := qrep_remoteSchedule (e := chargeBudget e) (h.congr rfl rfl rfl) id
    cases (remoteSchedule (chargeBudget e) id).get? id with
    | none => exact h1
    | some t => exact qrep_setTask h1 _ _
  | rwake id =>
    simp only; split; exact h; split; exact h
    exact qrep_remoteSchedule (e := chargeBudget e) (h.congr rfl rfl rfl) id
  | rwakeb id n => simp only; split; exact h; exact qrep_remoteWakeB h id n

theorem qrep_new (q : Nat) : QRep (Exec.new q) := ⟨IQ.empty, rfl, rep_empty, rfl⟩

/-- after every program the model's queue is the abstraction of a well-formed intrusive queue -/
theorem qrep_run (q : Nat) (ops : List Op) : QRep (run q ops) := by
  have : ∀ (e : Exec), QRep e → QRep (ops.foldl apply e) := by
    induction ops with
    | nil => intro e h; exact h
    | cons op ops ih => intro e h; exact ih _ (qrep_apply h op)
  exact this _ (qrep_new q)

end Compio.Executor
