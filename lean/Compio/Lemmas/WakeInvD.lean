/-
Preservation of `Inv`, part D: the prefetching iterator of `Executor::tick` (the prefetched id is the head of
the hot list, and is never the task being polled).
-/
import Compio.Lemmas.WakeInvC

namespace Compio.Wake
open Compio.TaskWord Compio.Gen

theorem head_hotPush {d : Nat → Bool} {hot : List Nat} {x n : Nat} (h : hot.head? = some n) :
    (hotPush d hot x).head? = some n := by
  unfold hotPush
  split
  · exact h
  · cases hot with
    | nil => simp at h
    | cons a l => simpa using h

theorem nextHot_head (t : Nat) (rest : List Nat) : nextHot (t :: rest) t = rest.head? := by
  simp [nextHot]

theorem erase_head_of_head {hot : List Nat} {t : Nat} (h : hot.head? = some t) : hot.erase t = hot.tail := by
  cases hot with
  | nil => simp at h
  | cons a l => simp at h; subst h; simp

theorem nextHot_of_head {hot : List Nat} {t : Nat} (h : hot.head? = some t) : nextHot hot t = hot.tail.head? := by
  cases hot with
  | nil => simp at h
  | cons a l => simp at h; subst h; simp [nextHot]

theorem tail_erase_self {hot : List Nat} {t : Nat} (hn : hot.Nodup) (h : hot.head? = some t) :
    hot.tail.erase t = hot.tail := by
  cases hot with
  | nil => simp at h
  | cons a l =>
    simp at h; subst h
    have : a ∉ l := (List.nodup_cons.1 hn).1
    simp [List.erase_of_not_mem this]

theorem tail_head_ne {hot : List Nat} {t : Nat} (hn : hot.Nodup) (h : hot.head? = some t) :
    hot.tail.head? ≠ some t := by
  cases hot with
  | nil => simp at h
  | cons a l =>
    simp at h; subst h
    have : a ∉ l := (List.nodup_cons.1 hn).1
    cases l with
    | nil => simp
    | cons b m => simp at this ⊢; intro e; exact this.1 e.symm

theorem head_erase_ne {hot : List Nat} {c n : Nat} (h : hot.head? = some n) (hne : n ≠ c) :
    (hot.erase c).head? = some n := by
  cases hot with
  | nil => simp at h
  | cons a l =>
    simp at h; subst h
    have : (a == c) = false := by simpa using hne
    simp [List.erase_cons, this]

set_option maxRecDepth 4000 in
set_option maxHeartbeats 4000000 in
theorem g5_rt (s s' : State) (e : RtEv) (h : Inv s) (hs : rtStep s e = some s') :
    (∀ n, nxtOf s'.rt = some n → s'.hot.head? = some n) ∧ (∀ c, curOf s'.rt = some c → nxtOf s'.rt ≠ some c) := by
  have h1 := h.nxtHead
  have h2 := h.nxtNe
  have hn := h.hotNodup
  rt_step hs
  all_goals (refine ⟨?_, ?_⟩)
  all_goals (try (first | exact h1 | exact h2))
  all_goals (try (simp only [nxtOf, curOf, backOf] at *; grind [head_hotPush, nextHot_of_head, erase_head_of_head, tail_erase_self, tail_head_ne, head_erase_ne]))

theorem g5_w (s s' : State) (w : Nat) (h : Inv s) (hs : wStep s w = some s') :
    (∀ n, nxtOf s'.rt = some n → s'.hot.head? = some n) ∧ (∀ c, curOf s'.rt = some c → nxtOf s'.rt ≠ some c) := by
  have h1 := h.nxtHead
  have h2 := h.nxtNe
  w_step hs
  all_goals exact ⟨h1, h2⟩

end Compio.Wake
