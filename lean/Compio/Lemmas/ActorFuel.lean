/-
Fuel independence of `settle` (Model/Actor.lean): with `settleFuel` rounds the actor task always ends blocked
(`nextEvents = []`), so more fuel changes nothing.
-/
import Compio.Lemmas.ActorProgress

namespace Compio.Actor
set_option linter.unusedSimpArgs false
set_option linter.unusedVariables false

def rank (s : St) : Nat :=
  match s.pc with
  | .exited _ | .startFailed => 0
  | .failReturn => 1
  | .failReport => 2
  | .failRelease => 3
  | .finNotify _ => 1
  | .finRelease _ => 2
  | .finPostStop _ => 3
  | .finDropRx _ => 4
  | .finPreStop _ => 5
  | .finBegin _ => 6
  | .polledStop => if s.queue.isEmpty then 9 else 7
  | .atRecv => 8
  | .handling _ _ => 9
  | .postStart => 10
  | .preStarted => 11
  | .init => 12

def measure (s : St) : Nat := 3 * s.queue.length + rank s

theorem measure_le_fuel (s : St) : measure s ≤ settleFuel s := by
  unfold measure settleFuel rank
  split <;> (try split) <;> omega

/-- every batch of the task's own actions strictly decreases the measure -/
theorem batch_decreases (sc : Script) (s s' : St) (hr : InvR s) (hne : nextEvents sc s ≠ [])
    (h : run s (nextEvents sc s) = some s') : measure s' < measure s := by
  have hchan : s.pc.terminal = false → s.chanAlive = true := by
    intro ht
    cases hc : s.chanAlive with
    | true => rfl
    | false => have := (hr.chan hc).1; simp [ht] at this
  unfold nextEvents at h hne
  cases hpc : s.pc with
  | handling it replied =>
    have hc := hchan (by simp [hpc, Pc.terminal])
    simp only [hpc] at h
    by_cases h1 : sc.stopsSelf it = true <;> by_cases h2 : s.stopping = true <;>
      by_cases h3 : (it.call && sc.replies it && !replied) = true <;>
      by_cases h4 : sc.handlerOk it = true <;>
      simp [h1, h2, h3, h4, run, step, hpc, hc, St.obs] at h <;>
      (cases replied <;> simp_all [run, step, St.obs]) <;>
      (try (obtain ⟨_, h⟩ := h)) <;> (try subst h) <;>
      simp [measure, rank, hpc]
  | atRecv =>
    simp only [hpc] at h hne
    by_cases h1 : s.stopSlot = true
    · simp [h1, run, step, hpc] at h; subst h; simp [measure, rank, hpc]
    · by_cases h2 : s.queue.isEmpty = true
      · simp [h1, h2] at hne
      · simp [h1, h2, run, step, hpc] at h; subst h; simp [measure, rank, hpc, h2]
  | polledStop =>
    simp only [hpc] at h
    cases hq : s.queue with
    | nil => simp [run, step, hpc, hq] at h; subst h; simp [measure, rank, hpc, hq]
    | cons it q =>
      simp [run, step, hpc, hq, St.obs] at h; subst h; simp [measure, rank, hpc, hq]; omega
  | preStarted =>
    simp only [hpc] at h
    by_cases h1 : s.futureAlive = true <;> simp [run, step, hpc, h1] at h <;> subst h <;> simp [measure, rank, hpc]
  | init =>
    simp only [hpc] at h
    by_cases h1 : sc.preStart = true <;> simp [run, step, hpc, h1, St.obs] at h <;> subst h <;>
      simp [measure, rank, hpc]
  | postStart =>
    simp only [hpc] at h
    by_cases h1 : sc.postStart = true <;> simp [run, step, hpc, h1, St.obs] at h <;> subst h <;>
      simp [measure, rank, hpc]
  | startFailed => simp [hpc] at hne
  | failRelease => simp [hpc, run, step] at h; subst h; simp [measure, rank, hpc]
  | failReport => simp [hpc, run, step] at h; subst h; simp [measure, rank, hpc]
  | failReturn => simp [hpc, run, step] at h; subst h; simp [measure, rank, hpc]
  | exited e => simp [hpc] at hne
  | finBegin e => simp [hpc, run, step] at h; subst h; simp [measure, rank, hpc]
  | finPreStop e => simp [hpc, run, step, St.obs] at h; subst h; simp [measure, rank, hpc]
  | finDropRx e => simp [hpc, run, step] at h; subst h; simp [measure, rank, hpc]
  | finPostStop e => simp [hpc, run, step, St.obs] at h; subst h; simp [measure, rank, hpc]
  | finRelease e =>
    simp [hpc, run, step] at h; subst h
    by_cases hd : s.detached = true <;> simp [measure, rank, hpc, hd]
  | finNotify e => simp [hpc, run, step] at h; subst h; simp [measure, rank, hpc]

theorem invR_run (s s' : St) (es : List Ev) (hi : InvR s) (h : run s es = some s') : InvR s' := by
  induction es generalizing s with
  | nil => simp [run] at h; subst h; exact hi
  | cons e es ih =>
    simp only [run] at h
    cases hs : step s e with
    | none => simp [hs] at h
    | some s1 => simp [hs] at h; exact ih s1 (invR_step s e s1 hi hs) h

/-- enough fuel ⇒ `settle` stops only because the task is blocked -/
theorem settle_blocked (sc : Script) : ∀ (n : Nat) (s : St), InvR s → measure s ≤ n →
    nextEvents sc (settle sc n s) = [] := by
  intro n
  induction n with
  | zero =>
    intro s hr hm
    simp only [settle]
    cases hne : nextEvents sc s with
    | nil => rfl
    | cons e es =>
      exfalso
      have hen := nextEvents_enabled sc s hr
      cases hrun : run s (nextEvents sc s) with
      | none => simp [hrun] at hen
      | some s' =>
        have := batch_decreases sc s s' hr (by simp [hne]) hrun
        omega
  | succ n ih =>
    intro s hr hm
    simp only [settle]
    cases hne : nextEvents sc s with
    | nil => simp [hne]
    | cons e es =>
      have hen := nextEvents_enabled sc s hr
      cases hrun : run s (nextEvents sc s) with
      | none => simp [hrun] at hen
      | some s' =>
        have hd := batch_decreases sc s s' hr (by simp [hne]) hrun
        rw [hne] at hrun
        simp only [hrun]
        exact ih s' (invR_run s s' _ hr hrun) (by omega)

/-- fuel independence: any fuel beyond `settleFuel` gives the same state -/
theorem settle_fuel_independent (sc : Script) (s : St) (hr : InvR s) (k : Nat) :
    settle sc (settleFuel s + k) s = settle sc (settleFuel s) s := by
  have key : ∀ (n : Nat) (s : St), InvR s → measure s ≤ n → ∀ k, settle sc (n + k) s = settle sc n s := by
    intro n
    induction n with
    | zero =>
      intro s hr hm k
      have hb := settle_blocked sc 0 s hr hm
      simp only [settle] at hb
      cases k with
      | zero => rfl
      | succ k => simp [settle, hb]
    | succ n ih =>
      intro s hr hm k
      have e : n + 1 + k = (n + k) + 1 := by omega
      rw [e]
      simp only [settle]
      cases hne : nextEvents sc s with
      | nil => rfl
      | cons e es =>
        have hen := nextEvents_enabled sc s hr
        cases hrun : run s (nextEvents sc s) with
        | none => simp [hrun] at hen
        | some s' =>
          have hd := batch_decreases sc s s' hr (by simp [hne]) hrun
          rw [hne] at hrun
          simp only [hrun]
          exact ih s' (invR_run s s' _ hr hrun) (by omega) k
  exact key (settleFuel s) s hr (measure_le_fuel s) k

end Compio.Actor
