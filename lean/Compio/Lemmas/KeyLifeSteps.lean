/-
`Inv` is preserved by every event of the key life-cycle LTS: one lemma per event, then `step_inv`.
-/
import Compio.Lemmas.KeyLifeInv
import Compio.Lemmas.PollQueues

namespace Compio.KeyLife

open Compio.PollQueues

/-! ### op-level facts -/

/-- `OpOk` only reads these fields -/
theorem OpOk.congr {d : Drv} {r : Bool} {g : Reg} {o o' : Op} (ok : OpOk d r g o)
    (h1 : o'.rc = o.rc) (h2 : o'.user = o.user) (h3 : o'.inFl = o.inFl) (h4 : o'.chan = o.chan)
    (h5 : o'.poolRun = o.poolRun) (h6 : o'.fd = o.fd) (h7 : o'.dir = o.dir) (h8 : o'.id = o.id)
    (h9 : o'.uaf = o.uaf) (h10 : o'.freed = o.freed) (h11 : o'.returned = o.returned)
    (h12 : o'.kstat = o.kstat) (h13 : o'.pendMore = o.pendMore) (h14 : o'.pendFinal = o.pendFinal) :
    OpOk d r g o' := by
  obtain ⟨a, ⟨b1, b2, b3⟩, c, e, f, g1, g2⟩ := ok
  refine ⟨?_, ⟨?_, ?_, ?_⟩, ?_, ?_, ?_, ?_, ?_⟩
  · simp only [holders, qcount, h1, h2, h3, h4, h5, h6, h7, h8] at a ⊢; exact a
  · rw [h9]; exact b1
  · rw [h1, h10, h11]; exact b2
  · rw [h1, h10, h11]; exact b3
  · rw [h12, h3]; exact c
  · rw [h13, h14, h3]; exact e
  · rw [h3, h12]; exact f
  · rw [h14, h12]; exact g1
  · rw [h13, h14]; exact g2

theorem RcOk.congr {o o' : Op} (h : RcOk o) (h1 : o'.rc = o.rc) (h2 : o'.uaf = o.uaf) (h3 : o'.freed = o.freed)
    (h4 : o'.returned = o.returned) : RcOk o' := by
  obtain ⟨a, b, c⟩ := h
  exact ⟨by rw [h2]; exact a, by rw [h1, h3, h4]; exact b, by rw [h1, h3, h4]; exact c⟩

theorem opok_rc_pos_of_user {d r g} {o : Op} (ok : OpOk d r g o) (hu : 0 < o.user) : 0 < o.rc := by
  rw [ok.rc_eq]; unfold holders; omega

/-- a key handle of the caller is dropped -/
theorem ok_userDrop {drv ring reg} {o : Op} (ok : OpOk drv ring reg o) (hu : 0 < o.user) :
    OpOk drv ring reg ({ o with user := o.user - 1 }.dropRef) := by
  have hrc := opok_rc_pos_of_user ok hu
  obtain ⟨h1, h2, h5, h6, h7, h8, h9⟩ := ok
  refine ⟨?_, rcok_dropRef (h2.congr (o' := { o with user := o.user - 1 }) rfl rfl rfl rfl) hrc, h5, h6, h7, h8, h9⟩
  simp only [Op.dropRef, Op.dropRefs, holders, qcount] at h1 ⊢
  omega

/-- a transient strong reference (token upgrade) is dropped again -/
theorem ok_clone_drop {drv ring reg} {o : Op} (ok : OpOk drv ring reg o) (hrc : 0 < o.rc) (b : Bool) :
    OpOk drv ring reg ({ o.cloneRef with cancelled := b }.dropRef) := by
  obtain ⟨h1, h2, h5, h6, h7, h8, h9⟩ := ok
  refine ⟨?_, rcok_dropRef ((rcok_cloneRef h2 hrc).congr (o' := { o.cloneRef with cancelled := b }) rfl rfl rfl rfl)
    (by simp [Op.cloneRef]), h5, h6, h7, h8, h9⟩
  simp only [Op.dropRef, Op.dropRefs, Op.cloneRef, holders, qcount] at h1 ⊢
  omega

/-- a unique key with a result: the op is moved out -/
theorem ok_takeResult {drv ring reg} {o : Op} (ok : OpOk drv ring reg o) (hu : 0 < o.user) (h1 : o.rc = 1) (b : Bool) :
    OpOk drv ring reg ({ o with cancelled := b }.takeResult) := by
  obtain ⟨a, b2, c, e, f, g1, g2⟩ := ok
  have hh : o.user = 1 ∧ b2n o.inFl = 0 ∧ o.chan.length = 0 ∧ b2n o.poolRun = 0 ∧ qcount reg o = 0 := by
    rw [a] at h1; unfold holders at h1; omega
  refine ⟨?_, rcok_takeResult (b2.congr (o' := { o with cancelled := b }) rfl rfl rfl rfl) (by show 0 < o.rc; omega), c, e, f, g1, g2⟩
  simp only [Op.takeResult, holders, qcount] at hh ⊢
  omega

theorem keeps_congr {f : Op → Op} (h1 : ∀ o, (f o).id = o.id) (h2 : ∀ o, (f o).fd = o.fd)
    (h3 : ∀ o, (f o).dir = o.dir) (h4 : ∀ o, (f o).inFl = o.inFl) (h5 : ∀ o, (f o).poolRun = o.poolRun)
    (h6 : ∀ o, (f o).chan = o.chan) : Keeps f :=
  ⟨h1, h2, h3, fun o h => by rw [h4] at h; exact h, h5, fun o => Or.inl (h6 o)⟩

/-! ### caller-side events that touch one op and nothing else -/

theorem keeps_userDrop : Keeps (fun o : Op => { o with user := o.user - 1 }.dropRef) :=
  keeps_congr (fun _ => rfl) (fun _ => rfl) (fun _ => rfl) (fun _ => rfl) (fun _ => rfl) (fun _ => rfl)

theorem inv_userDrop {c : Cfg} {s s' : State} {id : Nat} (hi : Inv c s)
    (h : step c s (.userDrop id) = some s') : Inv c s' := by
  simp only [step] at h
  split at h
  · rename_i o ho
    split at h
    · rename_i hg
      obtain rfl := Option.some.inj h
      refine inv_modAt hi id _ rfl rfl rfl rfl rfl rfl rfl keeps_userDrop ?_
      intro o' ho' ok
      rw [ho] at ho'; obtain rfl := Option.some.inj ho'
      exact ok_userDrop ok hg.2
    · cases h
  · cases h

/-! ### events that also touch the fd queues (proactor alive) -/

/-- one op is modified and the registry changes, while the proactor is alive -/
theorem inv_modAt_reg {c : Cfg} {s s' : State} (hi : Inv c s) (ha : s.alive = true) (id : Nat) (f : Op → Op)
    (hops : s'.ops = modAt f s.ops id) (hdrv : s'.drv = s.drv) (hring : s'.ring = s.ring)
    (halive : s'.alive = s.alive) (hpc : s'.dropPc = s.dropPc) (hch : s'.chanOpen = s.chanOpen)
    (hkid : ∀ o, (f o).id = o.id ∧ (f o).fd = o.fd ∧ (f o).dir = o.dir)
    (hold : ∀ (j : Nat) (x : Op), j ≠ id → s.ops[j]? = some x → qcount s'.reg x = qcount s.reg x)
    (hq : ∀ fd d i, i ∈ (s'.reg fd).sel d → i ∈ (s.reg fd).sel d)
    (hir : s.drv = .iour → ∀ fd, s'.reg fd = FdQ.empty)
    (hf : ∀ o, s.ops[id]? = some o → OpOk s.drv s.ring s.reg o → OpOk s.drv s.ring s'.reg (f o)) :
    Inv c s' := by
  obtain ⟨hr, hp, hc⟩ := hi.alive_ok ha
  constructor
  · intro j o' h
    rw [hops] at h
    rw [hdrv, hring]
    rcases modAt_cases h with ⟨hij, x, hx, rfl⟩ | ⟨hij, h⟩
    · subst hij
      exact ⟨hf x hx (hi.ops _ x hx).1, by rw [(hkid x).1]; exact (hi.ops _ x hx).2⟩
    · obtain ⟨ok, hid'⟩ := hi.ops j o' h
      refine ⟨⟨?_, ok.rcok, ok.kern, ok.pend, ok.poll_sep, ok.fin, ok.closed⟩, hid'⟩
      rw [ok.rc_eq]; unfold holders; rw [hold j o' (Ne.symm hij) h]
  · intro fd d i hm
    obtain ⟨o, ho, h1, h2⟩ := hi.qmem fd d i (hq fd d i hm)
    rw [hops, getElem?_modAt]
    by_cases hij : id = i
    · subst hij
      simp only [if_true, ho, Option.map_some]
      exact ⟨f o, rfl, by rw [(hkid o).2.1]; exact h1, by rw [(hkid o).2.2]; exact h2⟩
    · simp only [hij, if_false]
      exact ⟨o, ho, h1, h2⟩
  · rw [hdrv]; exact hir
  · intro _; rw [hring, hpc, hch]; exact ⟨hr, hp, hc⟩
  · intro k hk; rw [hpc, hp] at hk; cases hk
  · intro h; rw [halive, ha] at h; cases h
  · intro h; rw [hch, hc] at h; cases h

/-- the other direction's queue never holds the op's key -/
theorem occ_eq_qcount {c : Cfg} {s : State} (hi : Inv c s) {id : Nat} {o : Op} (ho : s.ops[id]? = some o) :
    (s.reg o.fd).occ id = qcount s.reg o := by
  have hid := (hi.ops id o ho).2
  unfold FdQ.occ qcount
  rw [hid]
  have other : ∀ d, d ≠ o.dir → ((s.reg o.fd).sel d).count id = 0 := by
    intro d hd
    apply List.count_eq_zero.mpr
    intro hm
    obtain ⟨x, hx, _, h2⟩ := hi.qmem o.fd d id hm
    rw [ho] at hx; obtain rfl := Option.some.inj hx
    exact hd h2.symm
  cases hdir : o.dir
  · have := other .wr (by rw [hdir]; simp)
    simp only [FdQ.sel] at this ⊢; omega
  · have := other .rd (by rw [hdir]; simp)
    simp only [FdQ.sel] at this ⊢; omega

end Compio.KeyLife
