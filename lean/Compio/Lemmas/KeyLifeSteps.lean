/-
`Inv` is preserved by every event of the key life-cycle LTS: one lemma per event, then `step_inv`.
-/
import Compio.Lemmas.KeyLifeInv
import Compio.Lemmas.PollQueues

namespace Compio.KeyLife

open Compio.PollQueues

/-! ### op-level facts -/

/-- `OpOk` only reads these fields -/
theorem OpOk.congr {d : Drv} {r : Bool} {g : Reg} {o o' : Op} (ok : OpOk d r g o)
    (h1 : o'.rc = o.rc) (h2 : o'.user = o.user) (h3 : o'.inFl = o.inFl) (h4 : o'.chan = o.chan)
    (h5 : o'.poolRun = o.poolRun) (h6 : o'.fd = o.fd) (h7 : o'.dir = o.dir) (h8 : o'.id = o.id)
    (h9 : o'.uaf = o.uaf) (h10 : o'.freed = o.freed) (h11 : o'.returned = o.returned)
    (h12 : o'.kstat = o.kstat) (h13 : o'.pendMore = o.pendMore) (h14 : o'.pendFinal = o.pendFinal) :
    OpOk d r g o' := by
  obtain ⟨a, ⟨b1, b2, b3⟩, c, e, f, g1, g2⟩ := ok
  refine ⟨?_, ⟨?_, ?_, ?_⟩, ?_, ?_, ?_, ?_, ?_⟩
  · simp only [holders, qcount, h1, h2, h3, h4, h5, h6, h7, h8] at a ⊢; exact a
  · rw [h9]; exact b1
  · rw [h1, h10, h11]; exact b2
  · rw [h1, h10, h11]; exact b3
  · rw [h12, h3]; exact c
  · rw [h13, h14, h3]; exact e
  · rw [h3, h12]; exact f
  · rw [h14, h12]; exact g1
  · rw [h13, h14]; exact g2

theorem RcOk.congr {o o' : Op} (h : RcOk o) (h1 : o'.rc = o.rc) (h2 : o'.uaf = o.uaf) (h3 : o'.freed = o.freed)
    (h4 : o'.returned = o.returned) : RcOk o' := by
  obtain ⟨a, b, c⟩ := h
  exact ⟨by rw [h2]; exact a, by rw [h1, h3, h4]; exact b, by rw [h1, h3, h4]; exact c⟩

theorem opok_rc_pos_of_user {d r g} {o : Op} (ok : OpOk d r g o) (hu : 0 < o.user) : 0 < o.rc := by
  rw [ok.rc_eq]; unfold holders; omega

/-- a key handle of the caller is dropped -/
theorem ok_userDrop {drv ring reg} {o : Op} (ok : OpOk drv ring reg o) (hu : 0 < o.user) :
    OpOk drv ring reg ({ o with user := o.user - 1 }.dropRef) := by
  have hrc := opok_rc_pos_of_user ok hu
  obtain ⟨h1, h2, h5, h6, h7, h8, h9⟩ := ok
  refine ⟨?_, rcok_dropRef (h2.congr (o' := { o with user := o.user - 1 }) rfl rfl rfl rfl) hrc, h5, h6, h7, h8, h9⟩
  simp only [Op.dropRef, Op.dropRefs, holders, qcount] at h1 ⊢
  omega

/-- a transient strong reference (token upgrade) is dropped again -/
theorem ok_clone_drop {drv ring reg} {o : Op} (ok : OpOk drv ring reg o) (hrc : 0 < o.rc) (b : Bool) :
    OpOk drv ring reg ({ o.cloneRef with cancelled := b }.dropRef) := by
  obtain ⟨h1, h2, h5, h6, h7, h8, h9⟩ := ok
  refine ⟨?_, rcok_dropRef ((rcok_cloneRef h2 hrc).congr (o' := { o.cloneRef with cancelled := b }) rfl rfl rfl rfl)
    (by simp [Op.cloneRef]), h5, h6, h7, h8, h9⟩
  simp only [Op.dropRef, Op.dropRefs, Op.cloneRef, holders, qcount] at h1 ⊢
  omega

/-- a unique key with a result: the op is moved out -/
theorem ok_takeResult {drv ring reg} {o : Op} (ok : OpOk drv ring reg o) (hu : 0 < o.user) (h1 : o.rc = 1) (b : Bool) :
    OpOk drv ring reg ({ o with cancelled := b }.takeResult) := by
  obtain ⟨a, b2, c, e, f, g1, g2⟩ := ok
  have hh : o.user = 1 ∧ b2n o.inFl = 0 ∧ o.chan.length = 0 ∧ b2n o.poolRun = 0 ∧ qcount reg o = 0 := by
    rw [a] at h1; unfold holders at h1; omega
  refine ⟨?_, rcok_takeResult (b2.congr (o' := { o with cancelled := b }) rfl rfl rfl rfl) (by show 0 < o.rc; omega), c, e, f, g1, g2⟩
  simp only [Op.takeResult, holders, qcount] at hh ⊢
  omega

theorem keeps_congr {f : Op → Op} (h1 : ∀ o, (f o).id = o.id) (h2 : ∀ o, (f o).fd = o.fd)
    (h3 : ∀ o, (f o).dir = o.dir) (h4 : ∀ o, (f o).inFl = o.inFl) (h5 : ∀ o, (f o).poolRun = o.poolRun)
    (h6 : ∀ o, (f o).chan = o.chan) : Keeps f :=
  ⟨h1, h2, h3, fun o h => by rw [h4] at h; exact h, h5, fun o => Or.inl (h6 o)⟩

/-! ### caller-side events that touch one op and nothing else -/

theorem keeps_userDrop : Keeps (fun o : Op => { o with user := o.user - 1 }.dropRef) :=
  keeps_congr (fun _ => rfl) (fun _ => rfl) (fun _ => rfl) (fun _ => rfl) (fun _ => rfl) (fun _ => rfl)

theorem inv_userDrop {c : Cfg} {s s' : State} {id : Nat} (hi : Inv c s)
    (h : step c s (.userDrop id) = some s') : Inv c s' := by
  simp only [step] at h
  split at h
  · rename_i o ho
    split at h
    · rename_i hg
      obtain rfl := Option.some.inj h
      refine inv_modAt hi id _ rfl rfl rfl rfl rfl rfl rfl keeps_userDrop ?_
      intro o' ho' ok
      rw [ho] at ho'; obtain rfl := Option.some.inj ho'
      exact ok_userDrop ok hg.2
    · cases h
  · cases h

/-! ### events that also touch the fd queues (proactor alive) -/

/-- one op is modified and the registry changes, while the proactor is alive -/
theorem inv_modAt_reg {c : Cfg} {s s' : State} (hi : Inv c s) (ha : s.alive = true) (id : Nat) (f : Op → Op)
    (hops : s'.ops = modAt f s.ops id) (hdrv : s'.drv = s.drv) (hring : s'.ring = s.ring)
    (halive : s'.alive = s.alive) (hpc : s'.dropPc = s.dropPc) (hch : s'.chanOpen = s.chanOpen)
    (hkid : ∀ o, (f o).id = o.id ∧ (f o).fd = o.fd ∧ (f o).dir = o.dir)
    (hold : ∀ (j : Nat) (x : Op), j ≠ id → s.ops[j]? = some x → qcount s'.reg x = qcount s.reg x)
    (hq : ∀ fd d i, i ∈ (s'.reg fd).sel d → i ∈ (s.reg fd).sel d)
    (hir : s.drv = .iour → ∀ fd, s'.reg fd = FdQ.empty)
    (hf : ∀ o, s.ops[id]? = some o → OpOk s.drv s.ring s.reg o → OpOk s.drv s.ring s'.reg (f o)) :
    Inv c s' := by
  obtain ⟨hr, hp, hc⟩ := hi.alive_ok ha
  constructor
  · intro j o' h
    rw [hops] at h
    rw [hdrv, hring]
    rcases modAt_cases h with ⟨hij, x, hx, rfl⟩ | ⟨hij, h⟩
    · subst hij
      exact ⟨hf x hx (hi.ops _ x hx).1, by rw [(hkid x).1]; exact (hi.ops _ x hx).2⟩
    · obtain ⟨ok, hid'⟩ := hi.ops j o' h
      refine ⟨⟨?_, ok.rcok, ok.kern, ok.pend, ok.poll_sep, ok.fin, ok.closed⟩, hid'⟩
      rw [ok.rc_eq]; unfold holders; rw [hold j o' (Ne.symm hij) h]
  · intro fd d i hm
    obtain ⟨o, ho, h1, h2⟩ := hi.qmem fd d i (hq fd d i hm)
    rw [hops, getElem?_modAt]
    by_cases hij : id = i
    · subst hij
      simp only [if_true, ho, Option.map_some]
      exact ⟨f o, rfl, by rw [(hkid o).2.1]; exact h1, by rw [(hkid o).2.2]; exact h2⟩
    · simp only [hij, if_false]
      exact ⟨o, ho, h1, h2⟩
  · rw [hdrv]; exact hir
  · intro _; rw [hring, hpc, hch]; exact ⟨hr, hp, hc⟩
  · intro k hk; rw [hpc, hp] at hk; cases hk
  · intro h; rw [halive, ha] at h; cases h
  · intro h; rw [hch, hc] at h; cases h

/-- the other direction's queue never holds the op's key -/
theorem occ_eq_qcount {c : Cfg} {s : State} (hi : Inv c s) {id : Nat} {o : Op} (ho : s.ops[id]? = some o) :
    (s.reg o.fd).occ id = qcount s.reg o := by
  have hid := (hi.ops id o ho).2
  unfold FdQ.occ qcount
  rw [hid]
  have other : ∀ d, d ≠ o.dir → ((s.reg o.fd).sel d).count id = 0 := by
    intro d hd
    apply List.count_eq_zero.mpr
    intro hm
    obtain ⟨x, hx, _, h2⟩ := hi.qmem o.fd d id hm
    rw [ho] at hx; obtain rfl := Option.some.inj hx
    exact hd h2.symm
  cases hdir : o.dir
  · have := other .wr (by rw [hdir]; simp)
    simp only [FdQ.sel] at this ⊢; omega
  · have := other .rd (by rw [hdir]; simp)
    simp only [FdQ.sel] at this ⊢; omega

theorem inv_flag {c : Cfg} {s : State} (hi : Inv c s) (id : Nat) :
    Inv c { s with ops := modAt (fun o => { o with cancelled := true }) s.ops id } :=
  inv_modAt hi id _ rfl rfl rfl rfl rfl rfl rfl
    (keeps_congr (fun _ => rfl) (fun _ => rfl) (fun _ => rfl) (fun _ => rfl) (fun _ => rfl) (fun _ => rfl))
    (fun _ _ ok => ok.congr rfl rfl rfl rfl rfl rfl rfl rfl rfl rfl rfl rfl rfl rfl)

theorem inv_iourCancel {c : Cfg} {s : State} (hi : Inv c s) (id : Nat) : Inv c (iourCancel s id) := by
  unfold iourCancel
  split
  · exact inv_modAt hi id _ rfl rfl rfl rfl rfl rfl rfl
      (keeps_congr (fun _ => rfl) (fun _ => rfl) (fun _ => rfl) (fun _ => rfl) (fun _ => rfl) (fun _ => rfl))
      (fun _ _ ok => ok.congr rfl rfl rfl rfl rfl rfl rfl rfl rfl rfl rfl rfl rfl rfl)
  · exact inv_modAt hi id _ rfl rfl rfl rfl rfl rfl rfl
      (keeps_congr (fun _ => rfl) (fun _ => rfl) (fun _ => rfl) (fun _ => rfl) (fun _ => rfl) (fun _ => rfl))
      (fun _ _ ok => ok.congr rfl rfl rfl rfl rfl rfl rfl rfl rfl rfl rfl rfl rfl rfl)

theorem inv_pollCancel {c : Cfg} {s : State} (hi : Inv c s) (ha : s.alive = true) {id : Nat} {o o' : Op}
    (ho : s.ops[id]? = some o') (hfd : o.fd = o'.fd) (hrc : 0 < o'.rc) : Inv c (pollCancel s id o) := by
  unfold pollCancel
  split
  · exact hi
  · have hid := (hi.ops id o' ho).2
    refine inv_modAt_reg hi ha id _ rfl rfl rfl rfl rfl rfl (fun _ => ⟨rfl, rfl, rfl⟩) ?_ ?_ ?_ ?_
    · intro j x hj hx
      have hxid := (hi.ops j x hx).2
      unfold qcount
      by_cases hf : x.fd = o.fd
      · simp only [hf, upd_same, FdQ.sel_remove, count_filter_ne, hxid, hj, if_false]
      · simp only [upd_other _ _ _ _ hf]
    · intro fd d i hm
      by_cases hf : fd = o.fd
      · subst hf
        simp only [upd_same, FdQ.sel_remove] at hm
        exact (mem_filter_ne.mp hm).1
      · simpa only [upd_other _ _ _ _ hf] using hm
    · intro hd fd
      by_cases hf : fd = o.fd
      · subst hf
        simp [upd_same, hi.iour_reg hd, FdQ.remove, FdQ.empty]
      · simp only [upd_other _ _ _ _ hf]; exact hi.iour_reg hd fd
    · intro x hx ok
      rw [ho] at hx; obtain rfl := Option.some.inj hx
      have hocc : (s.reg o.fd).occ id = qcount s.reg o' := by rw [hfd]; exact occ_eq_qcount hi ho
      obtain ⟨h1, h2, h5, h6, h7, h8, h9⟩ := ok
      have hle : (s.reg o.fd).occ id ≤ o'.cloneRef.rc := by
        rw [hocc]; simp only [Op.cloneRef]; rw [h1]; unfold holders; omega
      refine ⟨?_, (rcok_dropRefs (rcok_cloneRef h2 hrc) hle).congr rfl rfl rfl rfl, h5, h6, h7, h8, h9⟩
      have hq0 : qcount (upd s.reg o.fd ((s.reg o.fd).remove id))
          { (o'.cloneRef.dropRefs ((s.reg o.fd).occ id)) with chan := o'.chan ++ [ECANCELED] } = 0 := by
        unfold qcount
        simp only [Op.dropRefs, Op.cloneRef, ← hfd, upd_same, FdQ.sel_remove, count_filter_ne, hid, if_true]
      simp only [holders, hq0]
      simp only [Op.dropRefs, Op.cloneRef, holders, List.length_append, List.length_singleton] at h1 ⊢
      rw [hocc]
      omega

theorem inv_driverCancel {c : Cfg} {s : State} (hi : Inv c s) (ha : s.alive = true) {id : Nat} {o o' : Op}
    (ho : s.ops[id]? = some o') (hfd : o.fd = o'.fd) (hrc : 0 < o'.rc) : Inv c (driverCancel s id o) := by
  unfold driverCancel
  split
  · exact inv_iourCancel hi id
  · exact inv_pollCancel hi ha ho hfd hrc

theorem driverCancel_user {s : State} {id : Nat} {o o'' : Op} (h : (driverCancel s id o).ops[id]? = some o'') :
    ∃ o1, s.ops[id]? = some o1 ∧ o''.user = o1.user := by
  unfold driverCancel iourCancel pollCancel at h
  split at h
  · split at h
    all_goals
      simp only [getElem?_modAt_self] at h
      cases h1 : s.ops[id]? with
      | none => simp [h1] at h
      | some o1 => simp [h1] at h; exact ⟨o1, rfl, by rw [← h]⟩
  · split at h
    · exact ⟨o'', h, rfl⟩
    · simp only [getElem?_modAt_self] at h
      cases h1 : s.ops[id]? with
      | none => simp [h1] at h
      | some o1 => simp [h1] at h; exact ⟨o1, rfl, by rw [← h]; rfl⟩

theorem driverCancel_alive (s : State) (id : Nat) (o : Op) :
    (driverCancel s id o).alive = s.alive ∧ (driverCancel s id o).drv = s.drv := by
  unfold driverCancel iourCancel pollCancel
  split
  · split <;> exact ⟨rfl, rfl⟩
  · split <;> exact ⟨rfl, rfl⟩

theorem inv_cancelIssue {c : Cfg} {s : State} (hi : Inv c s) (ha : s.alive = true) {id : Nat} {o : Op}
    (ho : s.ops[id]? = some o) (hu : 0 < o.user) : Inv c (cancelIssue s id o) := by
  unfold cancelIssue
  have hi1 := inv_flag hi id
  have ho1 : ({ s with ops := modAt (fun o => { o with cancelled := true }) s.ops id } : State).ops[id]?
      = some { o with cancelled := true } := by
    simp only [getElem?_modAt_self, ho, Option.map_some]
  have hrc : 0 < o.rc := opok_rc_pos_of_user (hi.ops id o ho).1 hu
  have hi2 := inv_driverCancel (o := o) hi1 ha ho1 rfl hrc
  refine inv_modAt hi2 id _ rfl rfl rfl rfl rfl rfl rfl keeps_userDrop ?_
  intro o'' ho'' ok
  obtain ⟨o1, h1, h2⟩ := driverCancel_user ho''
  rw [ho1] at h1; obtain rfl := Option.some.inj h1
  exact ok_userDrop ok (by rw [h2]; exact hu)

theorem inv_cancelKey {c : Cfg} {s : State} (hi : Inv c s) (ha : s.alive = true) {id : Nat} {o : Op}
    (ho : s.ops[id]? = some o) (hu : 0 < o.user) : Inv c (cancelKey s id o) := by
  unfold cancelKey
  split
  · refine inv_modAt hi id _ rfl rfl rfl rfl rfl rfl rfl keeps_userDrop ?_
    intro o' ho' ok
    rw [ho] at ho'; obtain rfl := Option.some.inj ho'
    exact ok_userDrop ok hu
  · split
    · rename_i hq
      refine inv_modAt hi id _ rfl rfl rfl rfl rfl rfl rfl
        (keeps_congr (fun _ => rfl) (fun _ => rfl) (fun _ => rfl) (fun _ => rfl) (fun _ => rfl) (fun _ => rfl)) ?_
      intro o' ho' ok
      rw [ho] at ho'; obtain rfl := Option.some.inj ho'
      exact ok_takeResult ok hu hq.1 true
    · exact inv_cancelIssue hi ha ho hu

theorem inv_userCancel {c : Cfg} {s s' : State} {id : Nat} (hi : Inv c s)
    (h : step c s (.userCancel id) = some s') : Inv c s' := by
  simp only [step] at h
  split at h
  · rename_i o ho
    split at h
    · rename_i hg
      obtain rfl := Option.some.inj h
      exact inv_cancelKey hi hg.1 ho hg.2
    · cases h
  · cases h

/-- `key.clone()` / `token.upgrade()`: one more counted handle on the caller's side -/
theorem inv_clone {c : Cfg} {s : State} (hi : Inv c s) {id : Nat} {o : Op} (ho : s.ops[id]? = some o) (hrc : 0 < o.rc) :
    Inv c { s with ops := modAt (fun o => ({ o.cloneRef with user := o.user + 1 } : Op)) s.ops id } := by
  refine inv_modAt hi id _ rfl rfl rfl rfl rfl rfl rfl
    (keeps_congr (fun _ => rfl) (fun _ => rfl) (fun _ => rfl) (fun _ => rfl) (fun _ => rfl) (fun _ => rfl)) ?_
  intro o' ho' ok
  rw [ho] at ho'; obtain rfl := Option.some.inj ho'
  obtain ⟨h1, h2, h5, h6, h7, h8, h9⟩ := ok
  refine ⟨?_, (rcok_cloneRef h2 hrc).congr rfl rfl rfl rfl, h5, h6, h7, h8, h9⟩
  simp only [Op.cloneRef, holders, qcount] at h1 ⊢
  omega

theorem inv_cloneCancel {c : Cfg} {s s' : State} {id : Nat} (hi : Inv c s)
    (h : step c s (.cloneCancel id) = some s') : Inv c s' := by
  simp only [step] at h
  split at h
  · rename_i o ho
    split at h
    · rename_i hg
      obtain rfl := Option.some.inj h
      have hrc := opok_rc_pos_of_user (hi.ops id o ho).1 hg.2
      refine inv_cancelKey (inv_clone hi ho hrc) hg.1 ?_ (by show 0 < o.user + 1; omega)
      simp only [getElem?_modAt_self, ho, Option.map_some]
    · cases h
  · cases h

theorem ok_flag_userDrop {drv ring reg} {o : Op} (ok : OpOk drv ring reg o) (hu : 0 < o.user) :
    OpOk drv ring reg ({ o with cancelled := true, user := o.user - 1 }.dropRef) := by
  have hrc := opok_rc_pos_of_user ok hu
  obtain ⟨h1, h2, h5, h6, h7, h8, h9⟩ := ok
  refine ⟨?_, rcok_dropRef (h2.congr (o' := { o with cancelled := true, user := o.user - 1 }) rfl rfl rfl rfl) hrc,
    h5, h6, h7, h8, h9⟩
  simp only [Op.dropRef, Op.dropRefs, holders, qcount] at h1 ⊢
  omega

theorem inv_tokenCancel {c : Cfg} {s s' : State} {id : Nat} (hi : Inv c s)
    (h : step c s (.tokenCancel id) = some s') : Inv c s' := by
  simp only [step] at h
  split at h
  · rename_i o ho
    split at h
    · rename_i hg
      split at h
      · obtain rfl := Option.some.inj h; exact hi
      · rename_i hrc0
        obtain rfl := Option.some.inj h
        have hrc : 0 < o.rc := by omega
        have hi0 := inv_clone hi ho hrc
        have ho0 : ({ s with ops := modAt (fun o => ({ o.cloneRef with user := o.user + 1 } : Op)) s.ops id } : State).ops[id]?
            = some { o.cloneRef with user := o.user + 1 } := by
          simp only [getElem?_modAt_self, ho, Option.map_some]
        unfold cancelTok
        split
        · refine inv_modAt hi0 id _ rfl rfl rfl rfl rfl rfl rfl
            (keeps_congr (fun _ => rfl) (fun _ => rfl) (fun _ => rfl) (fun _ => rfl) (fun _ => rfl) (fun _ => rfl)) ?_
          intro o' ho' ok
          rw [ho0] at ho'; obtain rfl := Option.some.inj ho'
          exact ok_flag_userDrop ok (by show 0 < o.user + 1; omega)
        · exact inv_cancelIssue hi0 hg.1 ho0 (by show 0 < o.user + 1; omega)
    · cases h
  · cases h

/-! ### polling driver: submit and readiness -/

theorem not_mem_queue_len {c : Cfg} {s : State} (hi : Inv c s) (fd : Nat) (d : Dir) :
    ((s.reg fd).sel d).count s.ops.length = 0 := by
  apply List.count_eq_zero.mpr
  intro hm
  obtain ⟨x, hx, _, _⟩ := hi.qmem fd d _ hm
  have := (List.getElem?_eq_some_iff.mp hx).1
  omega

theorem inv_pushWait {c : Cfg} {s s' : State} {k : Kind} {fd : Nat} {d : Dir} (hi : Inv c s)
    (h : step c s (.pushWait k fd d) = some s') : Inv c s' := by
  simp only [step] at h
  split at h
  · rename_i hg
    obtain rfl := Option.some.inj h
    refine inv_append hi _ rfl rfl rfl rfl rfl rfl hg.1 rfl ?_ ?_ ?_ ?_
    · -- the new op
      have h0 := not_mem_queue_len hi fd d
      refine ⟨?_, ⟨rfl, by simp [Op.new, Op.cloneRef], by simp [Op.new, Op.cloneRef]⟩, by simp [Op.new, Op.cloneRef],
        by simp [Op.new, Op.cloneRef], by simp [Op.new, Op.cloneRef], by simp [Op.new, Op.cloneRef],
        by simp [Op.new, Op.cloneRef]⟩
      simp only [holders, qcount, Op.new, Op.cloneRef, upd_same, FdQ.sel_pushBack, if_true, count_append_one, h0]
      simp
    · intro j x hx
      have hxid := (hi.ops j x hx).2
      have hj : j < s.ops.length := (List.getElem?_eq_some_iff.mp hx).1
      unfold qcount
      by_cases hf : x.fd = fd
      · simp only [hf, upd_same, FdQ.sel_pushBack]
        split
        · rw [count_append_one]
          have : x.id ≠ s.ops.length := by omega
          simp [this]
        · rfl
      · simp only [upd_other _ _ _ _ hf]
    · intro fd' d' i hm
      by_cases hf : fd' = fd
      · subst hf
        simp only [upd_same, FdQ.sel_pushBack] at hm
        split at hm
        · rename_i hd
          rcases List.mem_append.mp hm with h1 | h1
          · exact Or.inl h1
          · simp at h1; exact Or.inr ⟨h1, rfl, hd.symm⟩
        · exact Or.inl hm
      · simp only [upd_other _ _ _ _ hf] at hm; exact Or.inl hm
    · intro hd; rw [hg.2.1] at hd; cases hd
  · cases h

theorem inv_armed {c : Cfg} {s : State} (hi : Inv c s) (a : Nat → FdQ.Interest) : Inv c { s with armed := a } :=
  ⟨hi.1, hi.2, hi.3, hi.4, hi.5, hi.6, hi.7⟩

theorem inv_fdEvent {c : Cfg} {s s' : State} {fd : Nat} {rd wr : Bool} {r : Option Res} (hi : Inv c s)
    (h : step c s (.fdEvent fd rd wr r) = some s') : Inv c s' := by
  simp only [step] at h
  split at h
  · rename_i hg
    split at h
    · obtain rfl := Option.some.inj h; exact inv_armed hi _
    · rename_i k d q' hpop
      split at h
      · obtain rfl := Option.some.inj h; exact inv_armed hi _
      · rename_i v
        obtain rfl := Option.some.inj h
        obtain ⟨hsel, hoth⟩ := FdQ.popInterest_spec hpop
        have hkm : k ∈ (s.reg fd).sel d := by rw [hsel]; simp
        obtain ⟨ok0, hok0, hfd0, hdir0⟩ := hi.qmem fd d k hkm
        have hid0 := (hi.ops k ok0 hok0).2
        refine inv_modAt_reg hi hg.1 k _ rfl rfl rfl rfl rfl rfl (fun _ => ⟨rfl, rfl, rfl⟩) ?_ ?_ ?_ ?_
        · intro j x hj hx
          have hxid := (hi.ops j x hx).2
          unfold qcount
          by_cases hf : x.fd = fd
          · simp only [hf, upd_same]
            by_cases hd : x.dir = d
            · rw [hd, hsel, List.count_cons]
              have : ¬ (k = x.id) := by omega
              simp [this]
            · rw [hoth _ hd]
          · simp only [upd_other _ _ _ _ hf]
        · intro fd' d' i hm
          by_cases hf : fd' = fd
          · subst hf
            simp only [upd_same] at hm
            by_cases hd : d' = d
            · subst hd; rw [hsel]; exact List.mem_cons_of_mem _ hm
            · rw [hoth _ hd] at hm; exact hm
          · simpa only [upd_other _ _ _ _ hf] using hm
        · intro hd; rw [hg.2.1] at hd; cases hd
        · intro x hx ok
          rw [hok0] at hx; obtain rfl := Option.some.inj hx
          obtain ⟨h1, h2, h5, h6, h7, h8, h9⟩ := ok
          have hq1 : qcount s.reg ok0 = ((q'.sel d).count k) + 1 := by
            unfold qcount; rw [hfd0, hdir0, hid0, hsel]; simp
          have hq2 : qcount (upd s.reg fd q') ({ ok0 with result := some v, produced := ok0.produced ++ [v] }.dropRef)
              = (q'.sel d).count k := by
            unfold qcount
            simp only [Op.dropRef, Op.dropRefs, hfd0, hdir0, hid0, upd_same]
          have hrc : 0 < ok0.rc := by rw [h1]; unfold holders; omega
          refine ⟨?_, rcok_dropRef (h2.congr (o' := { ok0 with result := some v, produced := ok0.produced ++ [v] })
            rfl rfl rfl rfl) hrc, h5, h6, h7, h8, h9⟩
          simp only [holders, hq2]
          simp only [holders, hq1] at h1
          simp only [Op.dropRef, Op.dropRefs]
          omega
  · cases h

end Compio.KeyLife
