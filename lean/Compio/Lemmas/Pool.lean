/- helper lemmas for the C07 model (Compio/Model/Pool.lean) -/
import Compio.Model.Pool

namespace Compio.Pool

/-! ## `next_power_of_two` -/

theorem npow2Go_spec : ∀ (f k n : Nat), n ≤ 2 ^ (k + f) →
    ∃ j, j ≤ k + f ∧ npow2Go f (2 ^ k) n = 2 ^ j ∧ n ≤ 2 ^ j ∧ (k ≤ j) ∧ (k < j → 2 ^ (j - 1) < n)
  | 0, k, n, h => ⟨k, by omega, rfl, by simpa using h, Nat.le_refl _, by omega⟩
  | f + 1, k, n, h => by
    unfold npow2Go
    by_cases hn : n ≤ 2 ^ k
    · rw [if_pos hn]
      exact ⟨k, by omega, rfl, hn, Nat.le_refl _, by omega⟩
    · rw [if_neg hn]
      have h2 : 2 * 2 ^ k = 2 ^ (k + 1) := by rw [Nat.pow_succ]; omega
      rw [h2]
      obtain ⟨j, hj, he, hle, hkj, hlt⟩ := npow2Go_spec f (k + 1) n (by rw [show k + 1 + f = k + (f + 1) by omega]; exact h)
      refine ⟨j, by omega, he, hle, by omega, ?_⟩
      intro _
      by_cases hj1 : k + 1 < j
      · exact hlt hj1
      · have : j = k + 1 := by omega
        subst this
        simpa using Nat.lt_of_not_le hn

theorem nextPow2_pow (n : Nat) (h2 : n ≤ 32768) : ∃ j, j ≤ 15 ∧ nextPow2 n = 2 ^ j ∧ n ≤ 2 ^ j := by
  obtain ⟨j, hj, he, hle, _, _⟩ := npow2Go_spec 15 0 n (by simpa using h2)
  exact ⟨j, by omega, by simpa [nextPow2] using he, hle⟩

theorem pow_dvd_65536 {n j : Nat} (hj : j ≤ 15) (hn : n = 2 ^ j) : n ∣ 65536 := by
  subst hn
  exact Nat.pow_dvd_pow 2 (show j ≤ 16 by omega)

theorem pow_le_32768 {n j : Nat} (hj : j ≤ 15) (hn : n = 2 ^ j) : n ≤ 32768 := by
  subst hn
  exact Nat.pow_le_pow_right (by omega) hj

/-! ## ring index arithmetic -/

theorem mod_ne_of_lt (a b n : Nat) (hab : a < b) (hd : b - a < n) : a % n ≠ b % n := by
  intro h
  have h1 : (b - a) % n = 0 := Nat.sub_mod_eq_zero_of_mod_eq h.symm
  have := Nat.eq_zero_of_dvd_of_lt (Nat.dvd_of_mod_eq_zero h1) hd
  omega

/-- the ids in `cnt` consecutive ring entries starting at the (u16) position `head` -/
def win (entries : List Nat) (n head cnt : Nat) : List Nat :=
  (List.range cnt).map fun j => entries.getD ((head + j) % 65536 % n) 0

theorem window_eq (p : Pool) : p.window = win p.entries p.n p.head (p.tail - p.head) := rfl

theorem win_set_append (entries : List Nat) (n head cnt b : Nat) (hlen : entries.length = n)
    (hn : 0 < n) (hd : n ∣ 65536) (hc : cnt < n) :
    win (entries.set (((head + cnt) % 65536 + 0) % n) b) n head (cnt + 1) = win entries n head cnt ++ [b] := by
  unfold win
  rw [List.range_succ, List.map_append]
  congr 1
  · apply List.map_congr_left
    intro j hj
    have hj : j < cnt := by simpa using hj
    simp only [Nat.add_zero, Nat.mod_mod_of_dvd _ hd, List.getD_eq_getElem?_getD, List.getElem?_set]
    have : (head + cnt) % n ≠ (head + j) % n := by
      have := mod_ne_of_lt (head + j) (head + cnt) n (by omega) (by omega)
      exact fun h => this h.symm
    rw [if_neg this]
  · simp only [List.map_cons, List.map_nil, Nat.add_zero, Nat.mod_mod_of_dvd _ hd,
      List.getD_eq_getElem?_getD, List.getElem?_set]
    have : (head + cnt) % n < entries.length := by rw [hlen]; exact Nat.mod_lt _ hn
    simp [this]

theorem win_succ (entries : List Nat) (n head cnt : Nat) :
    win entries n head (cnt + 1) = entries.getD (head % 65536 % n) 0 :: win entries n (head + 1) cnt := by
  unfold win
  rw [List.range_succ_eq_map]
  simp only [List.map_cons, List.map_map, Nat.add_zero]
  congr 1
  apply List.map_congr_left
  intro j _
  simp only [Function.comp, Nat.succ_eq_add_one]
  congr 3
  omega

theorem win_length (entries : List Nat) (n head cnt : Nat) : (win entries n head cnt).length = cnt := by
  simp [win]

theorem u16_eq_iff (h t : Nat) (hle : h ≤ t) (hd : t - h ≤ 32768) : h % 65536 = t % 65536 ↔ h = t := by
  constructor
  · intro he
    have h1 : (t - h) % 65536 = 0 := Nat.sub_mod_eq_zero_of_mod_eq he.symm
    have := Nat.eq_zero_of_dvd_of_lt (Nat.dvd_of_mod_eq_zero h1) (by omega)
    omega
  · intro he; rw [he]

/-! ## the pool invariant, relative to the ids that are outside the pool

`cs id` = number of completions / guards holding `id` (selected, slot still present),
`ch id` = number of `BufferRef`s to `id` (inside ops or in user hands, slot empty);
`ls`, `lh` their total numbers. -/

/-- indicator -/
def ind (b id : Nat) : Nat := if id = b then 1 else 0

structure Shape (p : Pool) : Prop where
  npos : 0 < p.n
  pow : ∃ j, j ≤ 15 ∧ p.n = 2 ^ j
  slen : p.released = false → p.slots.length = p.n
  elen : p.kind = .ring → p.entries.length = p.n
  ht : p.head ≤ p.tail
  nofault : p.fault = false
  relslots : p.released = true → p.slots = []
  nofreed : p.released = false → p.freed = []
  /-- ring: the tail has advanced by exactly the number of resets since the initial `commit(n)` -/
  tailres : p.kind = .ring → p.tail = p.n + p.resets

structure PoolInv (p : Pool) (cs ch : Nat → Nat) (ls lh : Nat) : Prop where
  shape : Shape p
  cnt : ∀ id, p.freeIds.count id + cs id + ch id + p.freed.count id = if id < p.n then 1 else 0
  len : p.released = false → p.freeIds.length + ls + lh = p.n
  slot : p.released = false → ∀ id, id < p.n →
    p.slots[id]? = some (if p.freeIds.count id + cs id = 1 then some id else none)
  relsel : p.released = true → ∀ id, cs id = 0

theorem freeIds_ring {p : Pool} (hr : p.released = false) (hk : p.kind = .ring) : p.freeIds = p.window := by
  simp [Pool.freeIds, hr, hk]

theorem freeIds_fb {p : Pool} (hr : p.released = false) (hk : p.kind = .fb) : p.freeIds = p.queue := by
  simp [Pool.freeIds, hr, hk]

theorem freeIds_released {p : Pool} (hr : p.released = true) : p.freeIds = [] := by
  simp [Pool.freeIds, hr]

theorem Shape.dvd {p : Pool} (s : Shape p) : p.n ∣ 65536 := by
  obtain ⟨j, hj, hn⟩ := s.pow
  exact pow_dvd_65536 hj hn

theorem Shape.le {p : Pool} (s : Shape p) : p.n ≤ 32768 := by
  obtain ⟨j, hj, hn⟩ := s.pow
  exact pow_le_32768 hj hn

theorem PoolInv.lt_of_cs {p cs ch ls lh} (h : PoolInv p cs ch ls lh) {b : Nat} (hb : 0 < cs b) : b < p.n := by
  have := h.cnt b
  by_cases hlt : b < p.n
  · exact hlt
  · rw [if_neg hlt] at this; omega

theorem PoolInv.lt_of_ch {p cs ch ls lh} (h : PoolInv p cs ch ls lh) {b : Nat} (hb : 0 < ch b) : b < p.n := by
  have := h.cnt b
  by_cases hlt : b < p.n
  · exact hlt
  · rw [if_neg hlt] at this; omega

theorem PoolInv.lt_of_free {p cs ch ls lh} (h : PoolInv p cs ch ls lh) {b : Nat} (hb : b ∈ p.freeIds) : b < p.n := by
  have := h.cnt b
  have hc : 0 < p.freeIds.count b := List.count_pos_iff.mpr hb
  by_cases hlt : b < p.n
  · exact hlt
  · rw [if_neg hlt] at this; omega

/-- the ring never holds more provided buffers than it has entries -/
theorem PoolInv.window_le {p cs ch ls lh} (h : PoolInv p cs ch ls lh) (hk : p.kind = .ring)
    (hr : p.released = false) : p.tail - p.head + ls + lh = p.n := by
  have := h.len hr
  rw [freeIds_ring hr hk, window_eq, win_length] at this
  exact this

theorem ind_self (b : Nat) : ind b b = 1 := by simp [ind]
theorem ind_ne {b id : Nat} (h : id ≠ b) : ind b id = 0 := by simp [ind, h]

theorem count_singleton_ind (b id : Nat) : List.count id [b] = ind b id := by
  simp only [List.count_singleton, ind]
  by_cases h : id = b
  · subst h; simp
  · have : (b == id) = false := by simp; exact fun e => h e.symm
    simp [this, h]

theorem count_cons_ind (b id : Nat) (l : List Nat) : List.count id (b :: l) = List.count id l + ind b id := by
  rw [show b :: l = [b] ++ l from rfl, List.count_append, count_singleton_ind]; omega

@[simp] theorem freeIds_setSlots (p : Pool) (s : List (Option Nat)) : ({ p with slots := s }).freeIds = p.freeIds := rfl

theorem PoolInv.slot_of_cs {p cs ch ls lh} (h : PoolInv p cs ch ls lh) (hr : p.released = false) {b : Nat}
    (hb : 0 < cs b) : p.slots[b]? = some (some b) := by
  have hlt := h.lt_of_cs hb
  have hc := h.cnt b
  rw [if_pos hlt] at hc
  rw [h.slot hr b hlt, if_pos (by omega)]

theorem PoolInv.takeSel {p cs ch ls lh} (h : PoolInv p cs ch ls lh) (hr : p.released = false) {b : Nat}
    (hb : 0 < cs b) {cs' ch' : Nat → Nat} {ls' lh' : Nat}
    (hcs : ∀ id, cs' id + ind b id = cs id) (hch : ∀ id, ch' id = ch id + ind b id)
    (hls : ls' + 1 = ls) (hlh : lh' = lh + 1) :
    p.slotTake b = (some b, { p with slots := p.slots.set b none }) ∧
    PoolInv { p with slots := p.slots.set b none } cs' ch' ls' lh' := by
  have hlt := h.lt_of_cs hb
  have hs := h.slot_of_cs hr hb
  refine ⟨by simp [Pool.slotTake, hs], ?_⟩
  have hc := h.cnt b
  rw [if_pos hlt] at hc
  refine ⟨⟨h.shape.npos, h.shape.pow, ?_, h.shape.elen, h.shape.ht, h.shape.nofault, ?_, h.shape.nofreed, h.shape.tailres⟩, ?_, ?_, ?_, ?_⟩
  · intro _; simpa using h.shape.slen hr
  · intro h'; simp [hr] at h'
  · intro id
    have := h.cnt id; have := hcs id; have := hch id
    simp only [freeIds_setSlots]
    omega
  · intro _
    have := h.len hr
    simp only [freeIds_setSlots]
    omega
  · intro _ id hid
    have hid : id < p.n := hid
    show (p.slots.set b none)[id]? = some (if p.freeIds.count id + cs' id = 1 then some id else none)
    have hl : p.slots.length = p.n := h.shape.slen hr
    rw [List.getElem?_set]
    by_cases hbi : b = id
    · subst hbi
      have := hcs b; rw [ind_self] at this
      have hne : ¬ (p.freeIds.count b + cs' b = 1) := by omega
      simp [hne, hl, hlt]
    · rw [if_neg hbi, h.slot hr id hid]
      have := hcs id; rw [ind_ne (fun e => hbi e.symm)] at this
      have he : cs' id = cs id := by omega
      rw [he]
  · intro h'; simp [hr] at h'


/-- what `BufferRef::drop` does to a live pool, spelled out -/
def dropRefResult (p : Pool) (b : Nat) : Pool :=
  match p.kind with
  | .fb => { p with slots := p.slots.set b (some b), queue := p.queue ++ [b], resets := p.resets + 1 }
  | .ring =>
    { p with slots := p.slots.set b (some b), entries := p.entries.set (ringIdx p.tail16 0 p.n) b,
             tail := p.tail + 1, resets := p.resets + 1,
             fault := p.fault || decide (65536 ≤ p.tail16 + 0) }

theorem dropRef_eq (p : Pool) (b : Nat) (hb : b < p.slots.length) : p.dropRef b = dropRefResult p b := by
  unfold Pool.dropRef Pool.sharedReset dropRefResult Pool.ctrlReset
  rw [if_pos hb]
  cases hk : p.kind <;> rfl

theorem PoolInv.dropHeld {p cs ch ls lh} (h : PoolInv p cs ch ls lh) (hr : p.released = false) {b : Nat}
    (hb : 0 < ch b) {ch' : Nat → Nat} {lh' : Nat}
    (hch : ∀ id, ch' id + ind b id = ch id) (hlh : lh' + 1 = lh) :
    (p.dropRef b).released = false ∧ (p.dropRef b).kind = p.kind ∧ (p.dropRef b).n = p.n ∧
    (p.dropRef b).freeIds = p.freeIds ++ [b] ∧ (p.dropRef b).resets = p.resets + 1 ∧
    PoolInv (p.dropRef b) cs ch' ls lh' := by
  have hlt := h.lt_of_ch hb
  have hl : p.slots.length = p.n := h.shape.slen hr
  rw [dropRef_eq p b (by omega)]
  have hc := h.cnt b
  rw [if_pos hlt] at hc
  have hfree : (dropRefResult p b).freeIds = p.freeIds ++ [b] := by
    cases hk : p.kind
    · -- ring
      have hw := h.window_le hk hr
      have hd := h.shape.dvd
      have hht := h.shape.ht
      have hel := h.shape.elen hk
      simp only [dropRefResult, hk, Pool.freeIds, hr, Pool.window, Pool.tail16]
      have e1 : p.tail + 1 - p.head = (p.tail - p.head) + 1 := by omega
      have e2 : p.tail = p.head + (p.tail - p.head) := by omega
      have := win_set_append p.entries p.n p.head (p.tail - p.head) b hel h.shape.npos hd (by omega)
      rw [← e2] at this
      simp only [win, ringIdx] at this ⊢
      rw [e1]
      simpa using this
    · simp [dropRefResult, hk, Pool.freeIds, hr]
  have hrel : (dropRefResult p b).released = false := by cases hk : p.kind <;> simp [dropRefResult, hk, hr]
  have hkind : (dropRefResult p b).kind = p.kind := by cases hk : p.kind <;> simp [dropRefResult, hk]
  have hn : (dropRefResult p b).n = p.n := by cases hk : p.kind <;> simp [dropRefResult, hk]
  have hslots : (dropRefResult p b).slots = p.slots.set b (some b) := by cases hk : p.kind <;> simp [dropRefResult, hk]
  have hfreed : (dropRefResult p b).freed = p.freed := by cases hk : p.kind <;> simp [dropRefResult, hk]
  have hres : (dropRefResult p b).resets = p.resets + 1 := by cases hk : p.kind <;> simp [dropRefResult, hk]
  refine ⟨hrel, hkind, hn, hfree, hres, ⟨⟨?_, ?_, ?_, ?_, ?_, ?_, ?_, ?_, ?_⟩, ?_, ?_, ?_, ?_⟩⟩
  · rw [hn]; exact h.shape.npos
  · rw [hn]; exact h.shape.pow
  · intro _; rw [hslots, hn]; simpa using hl
  · intro hk'
    rw [hkind] at hk'
    simp only [dropRefResult, hk', List.length_set]
    exact h.shape.elen hk'
  · cases hk : p.kind
    · simp only [dropRefResult, hk]; have := h.shape.ht; omega
    · simp only [dropRefResult, hk]; exact h.shape.ht
  · cases hk : p.kind
    · have hlt' := Nat.mod_lt p.tail (show 0 < 65536 by omega)
      simp only [dropRefResult, hk, h.shape.nofault, Bool.false_or, Pool.tail16, Nat.add_zero]
      exact decide_eq_false (by omega)
    · simp only [dropRefResult, hk]; exact h.shape.nofault
  · intro h'; rw [hrel] at h'; cases h'
  · intro _; rw [hfreed]; exact h.shape.nofreed hr
  · intro hk'
    rw [hkind] at hk'
    have := h.shape.tailres hk'
    simp only [dropRefResult, hk']
    omega
  · intro id
    rw [hfree, hfreed, hn, List.count_append, count_singleton_ind]
    have := h.cnt id; have := hch id
    omega
  · intro _
    rw [hfree, hn, List.length_append]
    have := h.len hr
    simp only [List.length_cons, List.length_nil]
    omega
  · intro _ id hid
    rw [hn] at hid
    rw [hslots, hfree, List.count_append, count_singleton_ind, List.getElem?_set]
    by_cases hbi : b = id
    · subst hbi
      rw [ind_self]
      have hone : p.freeIds.count b + 1 + cs b = 1 := by omega
      simp [hone, hl, hlt]
    · rw [if_neg hbi, h.slot hr id hid, ind_ne (fun e => hbi e.symm)]
      rfl
  · intro h'; rw [hrel] at h'; cases h'

/-- `BufferPool::reset(id)` on a selected id: `take` then `BufferRef::drop` -/
theorem PoolInv.resetSel {p cs ch ls lh} (h : PoolInv p cs ch ls lh) (hr : p.released = false) {b : Nat}
    (hb : 0 < cs b) {cs' : Nat → Nat} {ls' : Nat}
    (hcs : ∀ id, cs' id + ind b id = cs id) (hls : ls' + 1 = ls) :
    (p.reset b).1 = true ∧ (p.reset b).2.released = false ∧ (p.reset b).2.kind = p.kind ∧
    (p.reset b).2.n = p.n ∧ (p.reset b).2.freeIds = p.freeIds ++ [b] ∧
    (p.reset b).2.resets = p.resets + 1 ∧ PoolInv (p.reset b).2 cs' ch ls' lh := by
  have h1 := h.takeSel hr hb (cs' := cs') (ch' := fun id => ch id + ind b id) (ls' := ls') (lh' := lh + 1)
    hcs (fun _ => rfl) hls rfl
  obtain ⟨e1, i1⟩ := h1
  have hr1 : ({ p with slots := p.slots.set b none } : Pool).released = false := hr
  have h2 := i1.dropHeld hr1 (b := b) (ch' := ch) (lh' := lh) (by simp [ind_self]) (fun id => rfl) rfl
  have er : p.reset b = (true, ({ p with slots := p.slots.set b none } : Pool).dropRef b) := by
    simp [Pool.reset, e1, Pool.dropRef]
  rw [er]
  exact ⟨rfl, h2.1, h2.2.1, h2.2.2.1, h2.2.2.2.1, h2.2.2.2.2.1, h2.2.2.2.2.2⟩

/-- KERNEL select on a live ring -/
theorem PoolInv.selectRing {p cs ch ls lh} (h : PoolInv p cs ch ls lh) (hr : p.released = false)
    (hk : p.kind = .ring) :
    (p.head % 65536 = p.tail % 65536 → p.kselect = (none, p) ∧ p.freeIds = []) ∧
    (p.head % 65536 ≠ p.tail % 65536 → ∃ b rest, p.freeIds = b :: rest ∧
      p.kselect = (some b, { p with head := p.head + 1 }) ∧
      ({ p with head := p.head + 1 } : Pool).freeIds = rest ∧
      ∀ {cs' : Nat → Nat} {ls' : Nat}, (∀ id, cs' id = cs id + ind b id) → ls' = ls + 1 →
        PoolInv { p with head := p.head + 1 } cs' ch ls' lh) := by
  have hw := h.window_le hk hr
  have hle := h.shape.le
  have hht := h.shape.ht
  have hiff := u16_eq_iff p.head p.tail hht (by omega)
  constructor
  · intro he
    have : p.head = p.tail := hiff.mp he
    refine ⟨by simp [Pool.kselect, he], ?_⟩
    rw [freeIds_ring hr hk, window_eq, this]
    simp [win]
  · intro hne
    have hlt : p.head < p.tail := by
      rcases Nat.lt_or_ge p.head p.tail with h1 | h1
      · exact h1
      · exact absurd (hiff.mpr (by omega)) hne
    have e1 : p.tail - p.head = (p.tail - (p.head + 1)) + 1 := by omega
    have hwin : p.window = p.entries.getD (p.head % 65536 % p.n) 0 :: win p.entries p.n (p.head + 1) (p.tail - (p.head + 1)) := by
      rw [window_eq, e1, win_succ]
    refine ⟨_, _, by rw [freeIds_ring hr hk]; exact hwin, by simp [Pool.kselect, hne], ?_, ?_⟩
    · simp [Pool.freeIds, hr, hk, Pool.window, win]
    · intro cs' ls' hcs hls
      have hfree' : ({ p with head := p.head + 1 } : Pool).freeIds = win p.entries p.n (p.head + 1) (p.tail - (p.head + 1)) := by
        simp [Pool.freeIds, hr, hk, Pool.window, win]
      have hfree : p.freeIds = p.entries.getD (p.head % 65536 % p.n) 0 :: win p.entries p.n (p.head + 1) (p.tail - (p.head + 1)) := by
        rw [freeIds_ring hr hk]; exact hwin
      refine ⟨⟨h.shape.npos, h.shape.pow, h.shape.slen, h.shape.elen, ?_, h.shape.nofault, h.shape.relslots, h.shape.nofreed, h.shape.tailres⟩, ?_, ?_, ?_, ?_⟩
      · show p.head + 1 ≤ p.tail; omega
      · intro id
        have := h.cnt id
        rw [hfree, count_cons_ind] at this
        rw [hfree', hcs id]
        show _ + _ + _ + p.freed.count id = if id < p.n then 1 else 0
        omega
      · intro _
        have := h.len hr
        rw [hfree] at this
        rw [hfree']
        show _ + _ + _ = p.n
        simp only [List.length_cons] at this
        omega
      · intro _ id hid
        have hid : id < p.n := hid
        have := h.slot hr id hid
        rw [hfree, count_cons_ind] at this
        rw [hfree', hcs id]
        show p.slots[id]? = _
        rw [this]
        have e : List.count id (win p.entries p.n (p.head + 1) (p.tail - (p.head + 1))) + ind (p.entries.getD (p.head % 65536 % p.n) 0) id + cs id
            = List.count id (win p.entries p.n (p.head + 1) (p.tail - (p.head + 1))) + (cs id + ind (p.entries.getD (p.head % 65536 % p.n) 0) id) := by omega
        rw [e]
      · intro h'; have : p.released = true := h'; rw [hr] at this; cases this

/-- `BufferPool::pop` on a live fallback pool: `ctrl.pop()` then `take(id).expect(..)` -/
theorem PoolInv.popFb {p cs ch ls lh} (h : PoolInv p cs ch ls lh) (hr : p.released = false)
    (hk : p.kind = .fb) :
    (p.queue = [] → p.ctrlPop = (none, p)) ∧
    (∀ b rest, p.queue = b :: rest →
      p.ctrlPop = (some b, { p with queue := rest }) ∧
      ({ p with queue := rest } : Pool).slotTake b =
        (some b, { p with queue := rest, slots := p.slots.set b none }) ∧
      ∀ {ch' : Nat → Nat} {lh' : Nat}, (∀ id, ch' id = ch id + ind b id) → lh' = lh + 1 →
        PoolInv { p with queue := rest, slots := p.slots.set b none } cs ch' ls lh') := by
  constructor
  · intro hq; simp [Pool.ctrlPop, hq]
  · intro b rest hq
    have hfree : p.freeIds = b :: rest := by rw [freeIds_fb hr hk, hq]
    have hlt : b < p.n := h.lt_of_free (by rw [hfree]; simp)
    have hc := h.cnt b
    rw [if_pos hlt, hfree, count_cons_ind, ind_self] at hc
    have hs : p.slots[b]? = some (some b) := by
      rw [h.slot hr b hlt, hfree, count_cons_ind, ind_self, if_pos (by omega)]
    refine ⟨by simp [Pool.ctrlPop, hq], by simp [Pool.slotTake, hs], ?_⟩
    intro ch' lh' hch hlh
    have hfree' : ({ p with queue := rest, slots := p.slots.set b none } : Pool).freeIds = rest := by
      simp [Pool.freeIds, hr, hk]
    have hl : p.slots.length = p.n := h.shape.slen hr
    refine ⟨⟨h.shape.npos, h.shape.pow, ?_, h.shape.elen, h.shape.ht, h.shape.nofault, ?_, h.shape.nofreed, h.shape.tailres⟩, ?_, ?_, ?_, ?_⟩
    · intro _; show (p.slots.set b none).length = p.n; simpa using hl
    · intro h'; have : p.released = true := h'; rw [hr] at this; cases this
    · intro id
      have := h.cnt id
      rw [hfree, count_cons_ind] at this
      rw [hfree', hch id]
      show _ + _ + _ + p.freed.count id = if id < p.n then 1 else 0
      omega
    · intro _
      have := h.len hr
      rw [hfree] at this
      rw [hfree']
      show _ + _ + _ = p.n
      simp only [List.length_cons] at this
      omega
    · intro _ id hid
      have hid : id < p.n := hid
      rw [hfree']
      show (p.slots.set b none)[id]? = _
      rw [List.getElem?_set]
      by_cases hbi : b = id
      · subst hbi
        have hne : ¬ (List.count b rest + cs b = 1) := by omega
        simp [hne, hl, hlt]
      · rw [if_neg hbi, h.slot hr id hid, hfree, count_cons_ind, ind_ne (fun e => hbi e.symm)]
        rfl
    · intro h'; have : p.released = true := h'; rw [hr] at this; cases this

/-- a `BufferRef` dropped after the pool was released frees its buffer itself -/
theorem PoolInv.dropHeldReleased {p cs ch ls lh} (h : PoolInv p cs ch ls lh) (hr : p.released = true) {b : Nat}
    {ch' : Nat → Nat} (hch : ∀ id, ch' id + ind b id = ch id) (lh' : Nat) :
    PoolInv { p with freed := p.freed ++ [b] } cs ch' ls lh' := by
  have hfree : ({ p with freed := p.freed ++ [b] } : Pool).freeIds = p.freeIds := rfl
  refine ⟨⟨h.shape.npos, h.shape.pow, ?_, h.shape.elen, h.shape.ht, h.shape.nofault, h.shape.relslots, ?_, h.shape.tailres⟩, ?_, ?_, ?_, h.relsel⟩
  · intro h'; have : p.released = false := h'; rw [hr] at this; cases this
  · intro h'; have : p.released = false := h'; rw [hr] at this; cases this
  · intro id
    have := h.cnt id; have := hch id
    rw [hfree]
    show _ + _ + _ + (p.freed ++ [b]).count id = if id < p.n then 1 else 0
    rw [List.count_append, count_singleton_ind]
    omega
  · intro h'; have : p.released = false := h'; rw [hr] at this; cases this
  · intro h'; have : p.released = false := h'; rw [hr] at this; cases this

/-- ids in a slot table whose entry `i` is `none` or `some (k + i)` -/
theorem count_filterMap_slots : ∀ (l : List (Option Nat)) (k : Nat) (c : Nat → Bool),
    (∀ i, i < l.length → l[i]? = some (if c (k + i) then some (k + i) else none)) →
    ∀ a, (l.filterMap id).count a = if k ≤ a ∧ a < k + l.length ∧ c a = true then 1 else 0
  | [], k, c, _, a => by simp; omega
  | x :: xs, k, c, h, a => by
    have h0 := h 0 (by simp)
    simp only [List.getElem?_cons_zero, Nat.add_zero, Option.some.injEq] at h0
    have hxs : ∀ i, i < xs.length → xs[i]? = some (if c (k + 1 + i) then some (k + 1 + i) else none) := by
      intro i hi
      have := h (i + 1) (by simp; omega)
      simp only [List.getElem?_cons_succ] at this
      rw [this, show k + (i + 1) = k + 1 + i by omega]
    have ih := count_filterMap_slots xs (k + 1) c hxs a
    subst h0
    by_cases hc : c k = true
    · simp only [hc, if_true, List.filterMap_cons_some (show id (some k) = some k from rfl), count_cons_ind, ih, List.length_cons]
      by_cases hid : a = k
      · subst hid; simp [ind_self, hc]; omega
      · rw [ind_ne hid]
        by_cases h1 : k + 1 ≤ a ∧ a < k + 1 + xs.length ∧ c a = true
        · rw [if_pos h1, if_pos ⟨by omega, by omega, h1.2.2⟩]
        · rw [if_neg h1, if_neg (fun h2 => h1 ⟨by omega, by omega, h2.2.2⟩)]
    · have hc' : c k = false := by simpa using hc
      simp only [hc', Bool.false_eq_true, if_false, List.filterMap_cons_none (show id (none : Option Nat) = none from rfl), ih, List.length_cons]
      by_cases h1 : k + 1 ≤ a ∧ a < k + 1 + xs.length ∧ c a = true
      · rw [if_pos h1, if_pos ⟨by omega, by omega, h1.2.2⟩]
      · rw [if_neg h1]
        by_cases hid : a = k
        · subst hid; simp [hc']
        · rw [if_neg (fun h2 => h1 ⟨by omega, by omega, h2.2.2⟩)]

/-- `BufferPoolRoot::release`: everything the pool still owns (free / provided / selected) is deallocated -/
theorem PoolInv.release {p cs ch ls lh} (h : PoolInv p cs ch ls lh) (hr : p.released = false) :
    PoolInv p.release (fun _ => 0) ch 0 lh := by
  have hl : p.slots.length = p.n := h.shape.slen hr
  have hfreed := h.shape.nofreed hr
  have hfree' : p.release.freeIds = [] := freeIds_released rfl
  have hcount := count_filterMap_slots p.slots 0 (fun i => decide (p.freeIds.count i + cs i = 1))
    (by
      intro i hi
      rw [h.slot hr i (by omega)]
      simp)
  refine ⟨⟨h.shape.npos, h.shape.pow, ?_, h.shape.elen, h.shape.ht, h.shape.nofault, ?_, ?_, h.shape.tailres⟩, ?_, ?_, ?_, ?_⟩
  · intro h'; cases h'
  · intro _; rfl
  · intro h'; cases h'
  · intro a
    rw [hfree']
    show 0 + 0 + ch a + (p.freed ++ p.slots.filterMap id).count a = if a < p.n then 1 else 0
    rw [hfreed, List.nil_append, hcount a]
    have hc := h.cnt a
    rw [hfreed] at hc
    simp only [List.count_nil, Nat.add_zero] at hc
    by_cases hlt : a < p.n
    · rw [if_pos hlt] at hc ⊢
      by_cases h1 : p.freeIds.count a + cs a = 1
      · rw [if_pos ⟨by omega, by omega, by simpa using h1⟩]; omega
      · rw [if_neg (by intro h2; exact h1 (by simpa using h2.2.2))]; omega
    · rw [if_neg hlt] at hc ⊢
      rw [if_neg (by intro h2; omega)]; omega
  · intro h'; cases h'
  · intro h'; cases h'
  · intro _ _; rfl


/-! ## world level: who holds what -/

/-- the multishot op currently inside the stream of a source -/
def Src.mop (s : Src) : Option MOp :=
  match s.strm with
  | some { len := _, op := some (some m) } => some m
  | _ => none

def futBuf : Option Fut → List Nat
  | some f => f.buf.toList
  | none => []

def mopBuf : Option MOp → List Nat
  | some m => m.buf.toList
  | none => []

def mopSel : Option MOp → List Nat
  | some m => m.guards.map (·.2)
  | none => []

/-- ids in `BufferGuard`s (selected by a completion, not yet taken) -/
def Src.selIds (s : Src) : List Nat := mopSel s.mop

/-- ids of `BufferRef`s inside the ops of a source -/
def Src.opIds (s : Src) : List Nat := futBuf s.fut ++ mopBuf s.mop

def World.selIds (w : World) : List Nat := w.srcs.flatMap Src.selIds
def World.opIds (w : World) : List Nat := w.srcs.flatMap Src.opIds

def World.cs (w : World) (id : Nat) : Nat := w.selIds.count id
def World.ch (w : World) (id : Nat) : Nat := w.opIds.count id + w.handles.count id

/-- the invariant of the whole system -/
def Inv (w : World) : Prop :=
  PoolInv w.pool w.cs w.ch w.selIds.length (w.opIds.length + w.handles.length) ∧
  w.dead = false ∧ (w.pool.released = true → w.srcs = [])

theorem count_flatMap_set {α : Type} (f : α → List Nat) (a : Nat) :
    ∀ (l : List α) (i : Nat) (x s : α), l[i]? = some s →
      ((l.set i x).flatMap f).count a + (f s).count a = (l.flatMap f).count a + (f x).count a
  | [], i, x, s, h => by simp at h
  | y :: ys, 0, x, s, h => by
    simp only [List.getElem?_cons_zero, Option.some.injEq] at h
    subst h
    simp only [List.set_cons_zero, List.flatMap_cons, List.count_append]
    omega
  | y :: ys, i + 1, x, s, h => by
    simp only [List.getElem?_cons_succ] at h
    have := count_flatMap_set f a ys i x s h
    simp only [List.set_cons_succ, List.flatMap_cons, List.count_append]
    omega

theorem length_flatMap_set {α : Type} (f : α → List Nat) :
    ∀ (l : List α) (i : Nat) (x s : α), l[i]? = some s →
      ((l.set i x).flatMap f).length + (f s).length = (l.flatMap f).length + (f x).length
  | [], i, x, s, h => by simp at h
  | y :: ys, 0, x, s, h => by
    simp only [List.getElem?_cons_zero, Option.some.injEq] at h
    subst h
    simp only [List.set_cons_zero, List.flatMap_cons, List.length_append]
    omega
  | y :: ys, i + 1, x, s, h => by
    simp only [List.getElem?_cons_succ] at h
    have := length_flatMap_set f ys i x s h
    simp only [List.set_cons_succ, List.flatMap_cons, List.length_append]
    omega

@[simp] theorem setSrc_pool (w : World) (i : Nat) (s : Src) : (w.setSrc i s).pool = w.pool := rfl
@[simp] theorem setSrc_handles (w : World) (i : Nat) (s : Src) : (w.setSrc i s).handles = w.handles := rfl
@[simp] theorem setSrc_dead (w : World) (i : Nat) (s : Src) : (w.setSrc i s).dead = w.dead := rfl
@[simp] theorem setSrc_buflen (w : World) (i : Nat) (s : Src) : (w.setSrc i s).buflen = w.buflen := rfl
@[simp] theorem setSrc_srcs (w : World) (i : Nat) (s : Src) : (w.setSrc i s).srcs = w.srcs.set i s := rfl

/-- the token view of a world: everything `Inv` looks at -/
structure SameTok (w w' : World) : Prop where
  cs : ∀ a, w'.cs a = w.cs a
  ch : ∀ a, w'.ch a = w.ch a
  ls : w'.selIds.length = w.selIds.length
  lh : w'.opIds.length + w'.handles.length = w.opIds.length + w.handles.length

theorem PoolInv.congr {p cs ch ls lh cs' ch' ls' lh'} (h : PoolInv p cs ch ls lh)
    (e1 : ∀ a, cs' a = cs a) (e2 : ∀ a, ch' a = ch a) (e3 : ls' = ls) (e4 : lh' = lh) :
    PoolInv p cs' ch' ls' lh' := by
  have : cs' = cs := funext e1
  have : ch' = ch := funext e2
  subst_vars
  exact h

/-- replacing source `i` by one with the same guards and buffers changes nothing that matters -/
theorem sameTok_setSrc (w : World) (i : Nat) (s s' : Src) (hget : w.srcs[i]? = some s)
    (hsel : s'.selIds = s.selIds) (hop : s'.opIds = s.opIds) : SameTok w (w.setSrc i s') := by
  refine ⟨?_, ?_, ?_, ?_⟩
  · intro a
    have := count_flatMap_set Src.selIds a w.srcs i s' s hget
    simp only [World.cs, World.selIds, setSrc_srcs]
    rw [hsel] at this; omega
  · intro a
    have := count_flatMap_set Src.opIds a w.srcs i s' s hget
    simp only [World.ch, World.opIds, setSrc_srcs, setSrc_handles]
    rw [hop] at this; omega
  · have := length_flatMap_set Src.selIds w.srcs i s' s hget
    simp only [World.selIds, setSrc_srcs]
    rw [hsel] at this; omega
  · have := length_flatMap_set Src.opIds w.srcs i s' s hget
    simp only [World.opIds, setSrc_srcs, setSrc_handles]
    rw [hop] at this; omega

theorem Inv.of_sameTok {w w' : World} (h : Inv w) (t : SameTok w w') (hp : w'.pool = w.pool)
    (hd : w'.dead = false) (hs : w.pool.released = true → w'.srcs = []) : Inv w' := by
  refine ⟨?_, hd, ?_⟩
  · rw [hp]; exact h.1.congr t.cs t.ch t.ls t.lh
  · rw [hp]; exact hs

theorem cs_setSrc (w : World) (i : Nat) (s s' : Src) (hget : w.srcs[i]? = some s) (a : Nat) :
    (w.setSrc i s').cs a + s.selIds.count a = w.cs a + s'.selIds.count a :=
  count_flatMap_set Src.selIds a w.srcs i s' s hget

theorem ch_setSrc (w : World) (i : Nat) (s s' : Src) (hget : w.srcs[i]? = some s) (a : Nat) :
    (w.setSrc i s').ch a + s.opIds.count a = w.ch a + s'.opIds.count a := by
  have := count_flatMap_set Src.opIds a w.srcs i s' s hget
  simp only [World.ch, World.opIds, setSrc_srcs, setSrc_handles]
  omega

theorem ls_setSrc (w : World) (i : Nat) (s s' : Src) (hget : w.srcs[i]? = some s) :
    (w.setSrc i s').selIds.length + s.selIds.length = w.selIds.length + s'.selIds.length :=
  length_flatMap_set Src.selIds w.srcs i s' s hget

theorem lh_setSrc (w : World) (i : Nat) (s s' : Src) (hget : w.srcs[i]? = some s) :
    (w.setSrc i s').opIds.length + s.opIds.length = w.opIds.length + s'.opIds.length :=
  length_flatMap_set Src.opIds w.srcs i s' s hget

@[simp] theorem cs_setPool (w : World) (p : Pool) : ({ w with pool := p } : World).cs = w.cs := rfl
@[simp] theorem ch_setPool (w : World) (p : Pool) : ({ w with pool := p } : World).ch = w.ch := rfl

theorem count_erase_ind (l : List Nat) (b a : Nat) (hb : b ∈ l) : (l.erase b).count a + ind b a = l.count a := by
  by_cases h : a = b
  · subst h
    rw [List.count_erase_self, ind_self]
    have : 0 < l.count a := List.count_pos_iff.mpr hb
    omega
  · rw [List.count_erase_of_ne h, ind_ne h]; omega

theorem Inv.evDrop {w : World} (h : Inv w) (id : Nat) : Inv (evDrop w id).1 := by
  unfold Pool.evDrop
  by_cases hm : id ∈ w.handles
  · rw [if_pos hm]
    obtain ⟨hp, hd, hs⟩ := h
    have hcnt : 0 < w.ch id := by
      have : 0 < w.handles.count id := List.count_pos_iff.mpr hm
      simp only [World.ch]; omega
    have hlen := List.length_erase_of_mem hm
    have hpos : 0 < w.handles.length := List.length_pos_of_mem hm
    by_cases hr : w.pool.released = true
    · rw [if_pos hr]
      refine ⟨?_, hd, fun _ => hs hr⟩
      exact hp.dropHeldReleased hr (b := id) (ch' := fun a => w.opIds.count a + (w.handles.erase id).count a)
        (by intro a; have := count_erase_ind w.handles id a hm; simp only [World.ch]; omega) _
    · have hr' : w.pool.released = false := by simpa using hr
      rw [if_neg hr]
      have := hp.dropHeld hr' hcnt (ch' := fun a => w.opIds.count a + (w.handles.erase id).count a)
        (lh' := w.opIds.length + (w.handles.erase id).length)
        (by intro a; have := count_erase_ind w.handles id a hm; simp only [World.ch]; omega)
        (by omega)
      refine ⟨this.2.2.2.2.2, hd, ?_⟩
      intro h'
      have e : (w.pool.dropRef id).released = false := this.1
      have h' : (w.pool.dropRef id).released = true := h'
      rw [e] at h'; cases h'
  · rw [if_neg hm]; exact h

theorem count_le_flatMap {α : Type} (f : α → List Nat) (b : Nat) :
    ∀ (l : List α) (j : Nat) (x : α), l[j]? = some x → (f x).count b ≤ (l.flatMap f).count b
  | [], j, x, hx => by simp at hx
  | y :: ys, 0, x, hx => by
    simp only [List.getElem?_cons_zero, Option.some.injEq] at hx
    subst hx
    simp only [List.flatMap_cons, List.count_append]; omega
  | y :: ys, j + 1, x, hx => by
    simp only [List.getElem?_cons_succ] at hx
    have := count_le_flatMap f b ys j x hx
    simp only [List.flatMap_cons, List.count_append]; omega

theorem optList_count (ob : Option Nat) (a : Nat) :
    ob.toList.count a = match ob with | some b => ind b a | none => 0 := by
  cases ob <;> simp [count_singleton_ind]

/-- the `BufferRef` of an op of source `i` (if any) is dropped and the source is replaced by one
    without it -/
theorem Inv.dropOptSrc {w : World} (h : Inv w) (hr : w.pool.released = false) (i : Nat) (s s' : Src)
    (hget : w.srcs[i]? = some s) (ob : Option Nat)
    (hsel : s'.selIds = s.selIds)
    (hop : ∀ a, s'.opIds.count a + ob.toList.count a = s.opIds.count a)
    (hlen : s'.opIds.length + ob.toList.length = s.opIds.length) :
    Inv ({ w with pool := w.pool.dropOpt ob }.setSrc i s') ∧
    ({ w with pool := w.pool.dropOpt ob }.setSrc i s').pool.released = false := by
  obtain ⟨hp, hd, hs⟩ := h
  have hcs : ∀ a, ({ w with pool := w.pool.dropOpt ob }.setSrc i s').cs a = w.cs a := by
    intro a
    have := cs_setSrc { w with pool := w.pool.dropOpt ob } i s s' hget a
    rw [hsel] at this
    simp only [cs_setPool] at this
    omega
  have hls : ({ w with pool := w.pool.dropOpt ob }.setSrc i s').selIds.length = w.selIds.length := by
    have := ls_setSrc { w with pool := w.pool.dropOpt ob } i s s' hget
    rw [hsel] at this
    have e : ({ w with pool := w.pool.dropOpt ob } : World).selIds = w.selIds := rfl
    rw [e] at this
    omega
  have hch := fun a => ch_setSrc { w with pool := w.pool.dropOpt ob } i s s' hget a
  have hlh := lh_setSrc { w with pool := w.pool.dropOpt ob } i s s' hget
  have e2 : ({ w with pool := w.pool.dropOpt ob } : World).opIds = w.opIds := rfl
  rw [e2] at hlh
  cases ob with
  | none =>
    simp only [Option.toList, List.count_nil, List.length_nil, Nat.add_zero] at hop hlen
    refine ⟨⟨?_, hd, ?_⟩, hr⟩
    · show PoolInv w.pool _ _ _ _
      refine hp.congr hcs ?_ hls ?_
      · intro a; have := hch a; have := hop a; simp only [ch_setPool] at *; omega
      · simp only [setSrc_handles]; omega
    · intro h'; have : w.pool.released = true := h'; rw [hr] at this; cases this
  | some b =>
    simp only [Option.toList, count_singleton_ind, List.length_cons, List.length_nil] at hop hlen
    have hb : 0 < w.ch b := by
      have h1 := hop b; rw [ind_self] at h1
      have h2 : s.opIds.count b ≤ w.opIds.count b := count_le_flatMap Src.opIds b w.srcs i s hget
      simp only [World.ch]; omega
    have := hp.dropHeld hr hb
      (ch' := ({ w with pool := w.pool.dropOpt (some b) }.setSrc i s').ch)
      (lh' := ({ w with pool := w.pool.dropOpt (some b) }.setSrc i s').opIds.length + w.handles.length)
      (by intro a; have := hch a; have := hop a; simp only [ch_setPool] at *; omega)
      (by omega)
    refine ⟨⟨?_, hd, ?_⟩, this.1⟩
    · show PoolInv (w.pool.dropRef b) _ _ _ _
      exact this.2.2.2.2.2.congr hcs (fun _ => rfl) hls rfl
    · intro h'
      have h' : (w.pool.dropRef b).released = true := h'
      rw [this.1] at h'; cases h'

theorem Src.selIds_fut (s : Src) (x : Option Fut) (st : Option Bool) :
    ({ s with fut := x, sockState := st } : Src).selIds = s.selIds := rfl

theorem Src.opIds_fut (s : Src) (x : Option Fut) (st : Option Bool) :
    ({ s with fut := x, sockState := st } : Src).opIds =
      futBuf x ++ mopBuf s.mop := rfl

theorem Inv.finishFut {w : World} (h : Inv w) (hr : w.pool.released = false) (i : Nat) (s : Src) (f : Fut)
    (hget : w.srcs[i]? = some s) (hf : s.fut = some f) (r : Res) (flag now : Bool) :
    Inv (finishFut w i s f r flag now).1 := by
  have hsop : s.opIds = f.buf.toList ++ mopBuf s.mop := by
    simp [Src.opIds, hf, futBuf]
  have hsel' : ∀ st, ({ s with fut := none, sockState := st } : Src).selIds = s.selIds := fun _ => rfl
  have hop' : ∀ st, ({ s with fut := none, sockState := st } : Src).opIds = mopBuf s.mop := fun _ => rfl
  unfold Pool.finishFut
  have hdrop : ∀ st : Option Bool,
      Inv ({ w with pool := w.pool.dropOpt f.buf }.setSrc i { s with fut := none, sockState := st }) := by
    intro st
    refine (h.dropOptSrc hr i s _ hget f.buf (hsel' st) ?_ ?_).1
    · intro a; rw [hop', hsop]; simp only [List.count_append]; omega
    · rw [hop', hsop]; simp only [List.length_append]; omega
  simp only
  split
  · exact hdrop _
  · exact hdrop _
  · exact hdrop _
  · exact hdrop _
  · rename_i k hk0
    generalize sockStateAfter w.pool.kind s flag = st
    cases hb : f.buf with
    | none =>
      simp only
      refine h.of_sameTok (sameTok_setSrc w i s _ hget (hsel' st) ?_) rfl h.2.1 ?_
      · rw [hop', hsop, hb]; rfl
      · intro h'; rw [hr] at h'; cases h'
    | some b =>
      simp only
      obtain ⟨hp, hd, hs⟩ := h
      have e1 : ({ w with handles := w.handles ++ [b] } : World).cs = w.cs := rfl
      have e2 : ∀ a, ({ w with handles := w.handles ++ [b] } : World).ch a = w.ch a + ind b a := by
        intro a
        simp only [World.ch, World.opIds, List.count_append, count_singleton_ind]; omega
      have e3 : ({ w with handles := w.handles ++ [b] } : World).selIds = w.selIds := rfl
      have e4 : ({ w with handles := w.handles ++ [b] } : World).opIds = w.opIds := rfl
      refine ⟨?_, hd, ?_⟩
      · show PoolInv w.pool _ _ _ _
        refine hp.congr ?_ ?_ ?_ ?_
        · intro a
          have := cs_setSrc { w with handles := w.handles ++ [b] } i s { s with fut := none, sockState := st } hget a
          rw [hsel' st, e1] at this; omega
        · intro a
          have := ch_setSrc { w with handles := w.handles ++ [b] } i s { s with fut := none, sockState := st } hget a
          rw [hop' st, hsop, hb, e2] at this
          simp only [List.count_append, Option.toList, count_singleton_ind] at this
          omega
        · have := ls_setSrc { w with handles := w.handles ++ [b] } i s { s with fut := none, sockState := st } hget
          rw [hsel' st, e3] at this; omega
        · have := lh_setSrc { w with handles := w.handles ++ [b] } i s { s with fut := none, sockState := st } hget
          rw [hop' st, hsop, hb, e4] at this
          simp only [List.length_append, Option.toList, List.length_cons, List.length_nil] at this
          simp only [setSrc_handles, List.length_append, List.length_cons, List.length_nil]
          omega
      · intro h'; have : w.pool.released = true := h'; rw [hr] at this; cases this


theorem length_le_flatMap {α : Type} (f : α → List Nat) :
    ∀ (l : List α) (j : Nat) (x : α), l[j]? = some x → (f x).length ≤ (l.flatMap f).length
  | [], j, x, hx => by simp at hx
  | y :: ys, 0, x, hx => by
    simp only [List.getElem?_cons_zero, Option.some.injEq] at hx
    subst hx
    simp only [List.flatMap_cons, List.length_append]; omega
  | y :: ys, j + 1, x, hx => by
    simp only [List.getElem?_cons_succ] at hx
    have := length_le_flatMap f ys j x hx
    simp only [List.flatMap_cons, List.length_append]; omega

/-- generic re-assembly: source `i` replaced, pool and handles replaced, and the pool invariant known
    for the resulting counts -/
theorem Inv.mkSet {w : World} (i : Nat) (s s' : Src) (p' : Pool) (hs' : List Nat)
    (hget : w.srcs[i]? = some s) (hd : w.dead = false) (hrel : p'.released = false)
    (hp' : PoolInv p'
      (fun a => w.cs a + s'.selIds.count a - s.selIds.count a)
      (fun a => w.opIds.count a + s'.opIds.count a - s.opIds.count a + hs'.count a)
      (w.selIds.length + s'.selIds.length - s.selIds.length)
      (w.opIds.length + s'.opIds.length - s.opIds.length + hs'.length)) :
    Inv ({ w with pool := p', handles := hs' }.setSrc i s') := by
  refine ⟨?_, hd, ?_⟩
  · show PoolInv p' _ _ _ _
    refine hp'.congr ?_ ?_ ?_ ?_
    · intro a
      have := cs_setSrc { w with pool := p', handles := hs' } i s s' hget a
      have e : ({ w with pool := p', handles := hs' } : World).cs = w.cs := rfl
      rw [e] at this; omega
    · intro a
      have := count_flatMap_set Src.opIds a w.srcs i s' s hget
      show ((w.srcs.set i s').flatMap Src.opIds).count a + hs'.count a = _
      simp only [World.opIds]
      omega
    · have := ls_setSrc { w with pool := p', handles := hs' } i s s' hget
      have e : ({ w with pool := p', handles := hs' } : World).selIds = w.selIds := rfl
      rw [e] at this; omega
    · have := length_flatMap_set Src.opIds w.srcs i s' s hget
      show ((w.srcs.set i s').flatMap Src.opIds).length + hs'.length = _
      simp only [World.opIds]
      omega
  · intro h'; have : p'.released = true := h'; rw [hrel] at this; cases this

theorem World.cs_ge (w : World) (i : Nat) (s : Src) (hget : w.srcs[i]? = some s) (a : Nat) :
    s.selIds.count a ≤ w.cs a := count_le_flatMap Src.selIds a w.srcs i s hget
theorem World.op_ge (w : World) (i : Nat) (s : Src) (hget : w.srcs[i]? = some s) (a : Nat) :
    s.opIds.count a ≤ w.opIds.count a := count_le_flatMap Src.opIds a w.srcs i s hget
theorem World.ls_ge (w : World) (i : Nat) (s : Src) (hget : w.srcs[i]? = some s) :
    s.selIds.length ≤ w.selIds.length := length_le_flatMap Src.selIds w.srcs i s hget
theorem World.lh_ge (w : World) (i : Nat) (s : Src) (hget : w.srcs[i]? = some s) :
    s.opIds.length ≤ w.opIds.length := length_le_flatMap Src.opIds w.srcs i s hget

/-- KERNEL select + `set_result` adoption on a live ring: the oldest provided buffer becomes a `BufferRef` -/
theorem PoolInv.adopt {p cs ch ls lh} (h : PoolInv p cs ch ls lh) (hr : p.released = false)
    (hk : p.kind = .ring) (hne : p.head % 65536 ≠ p.tail % 65536) :
    ∃ b rest p1 p2, p.freeIds = b :: rest ∧ p.kselect = (some b, p1) ∧ p1.slotTake b = (some b, p2) ∧
      p2.released = false ∧ p2.kind = .ring ∧ p2.freeIds = rest ∧ p2.n = p.n ∧
      ∀ {ch' : Nat → Nat} {lh' : Nat}, (∀ a, ch' a = ch a + ind b a) → lh' = lh + 1 →
        PoolInv p2 cs ch' ls lh' := by
  obtain ⟨b, rest, hfree, hsel, hfree1, hinv⟩ := (h.selectRing hr hk).2 hne
  have h1 := hinv (cs' := fun a => cs a + ind b a) (ls' := ls + 1) (fun _ => rfl) rfl
  have hr1 : ({ p with head := p.head + 1 } : Pool).released = false := hr
  have h2 := h1.takeSel hr1 (b := b) (by simp [ind_self]) (cs' := cs) (ls' := ls)
    (ch' := fun a => ch a + ind b a) (lh' := lh + 1) (fun _ => rfl) (fun _ => rfl) rfl rfl
  refine ⟨b, rest, _, _, hfree, hsel, h2.1, hr, hk, ?_, rfl, ?_⟩
  · rw [freeIds_setSlots]; exact hfree1
  · intro ch' lh' e1 e2
    exact h2.2.congr (fun _ => rfl) e1 rfl e2

theorem PoolInv.dropOpt {p cs ch ls lh} (h : PoolInv p cs ch ls lh) (hr : p.released = false)
    (ob : Option Nat) (hob : ∀ b, ob = some b → 0 < ch b) {ch' : Nat → Nat} {lh' : Nat}
    (hch : ∀ a, ch' a + ob.toList.count a = ch a) (hlh : lh' + ob.toList.length = lh) :
    (p.dropOpt ob).released = false ∧ (p.dropOpt ob).kind = p.kind ∧ (p.dropOpt ob).n = p.n ∧
    (p.dropOpt ob).freeIds = p.freeIds ++ ob.toList ∧ PoolInv (p.dropOpt ob) cs ch' ls lh' := by
  cases ob with
  | none =>
    simp only [Option.toList, List.count_nil, List.length_nil, Nat.add_zero] at hch hlh
    exact ⟨hr, rfl, rfl, by simp [Pool.dropOpt], h.congr (fun _ => rfl) hch rfl hlh⟩
  | some b =>
    simp only [Option.toList, count_singleton_ind, List.length_cons, List.length_nil] at hch hlh
    have := h.dropHeld hr (hob b rfl) hch (by omega)
    exact ⟨this.1, this.2.1, this.2.2.1, this.2.2.2.1, this.2.2.2.2.2⟩

theorem Src.consume_fut (s : Src) (k : Nat) : (s.consume k).fut = s.fut := by
  unfold Src.consume; cases s.kind <;> rfl
theorem Src.consume_strm (s : Src) (k : Nat) : (s.consume k).strm = s.strm := by
  unfold Src.consume; cases s.kind <;> rfl
theorem Src.consume_kind (s : Src) (k : Nat) : (s.consume k).kind = s.kind := by
  unfold Src.consume; cases h : s.kind <;> simp [h]

theorem Src.selIds_of_strm {s s' : Src} (h : s'.strm = s.strm) : s'.selIds = s.selIds := by
  unfold Src.selIds Src.mop; rw [h]

theorem Src.opIds_of {s s' : Src} (h : s'.strm = s.strm) :
    s'.opIds = futBuf s'.fut ++ mopBuf s.mop := by
  unfold Src.opIds Src.mop; rw [h]

/-- only the bookkeeping of the single-shot op of source `i` changes (result, flags, data consumed) -/
theorem Inv.setFutCtl {w : World} (h : Inv w) (i : Nat) (s s' : Src) (f f' : Fut)
    (hget : w.srcs[i]? = some s) (hf : s.fut = some f) (hf' : s'.fut = some f') (hb : f'.buf = f.buf)
    (hst : s'.strm = s.strm) : Inv (w.setSrc i s') := by
  refine h.of_sameTok (sameTok_setSrc w i s s' hget (Src.selIds_of_strm hst) ?_) rfl h.2.1 ?_
  · rw [Src.opIds_of hst, hf']
    simp only [Src.opIds, hf, futBuf, hb]
  · intro hr
    have := h.2.2 hr
    rw [this] at hget; simp at hget

theorem World.ch_pos_of_op (w : World) (i : Nat) (s : Src) (hget : w.srcs[i]? = some s) {c : Nat}
    (hc : c ∈ s.opIds) : 0 < w.ch c := by
  have h1 := w.op_ge i s hget c
  have : 0 < s.opIds.count c := List.count_pos_iff.mpr hc
  simp only [World.ch]; omega

theorem World.cs_pos_of_sel (w : World) (i : Nat) (s : Src) (hget : w.srcs[i]? = some s) {c : Nat}
    (hc : c ∈ s.selIds) : 0 < w.cs c := by
  have h1 := w.cs_ge i s hget c
  have : 0 < s.selIds.count c := List.count_pos_iff.mpr hc
  omega

theorem Inv.adoptFut {w : World} (h : Inv w) (hr : w.pool.released = false) (hk : w.pool.kind = .ring)
    (i : Nat) (s s1 : Src) (f : Fut) (d : Res × Bool) (hget : w.srcs[i]? = some s) (hf : s.fut = some f)
    (hs1 : s1.strm = s.strm) : Inv (adoptFut w i s s1 f d) ∧ (adoptFut w i s s1 f d).pool.released = false
      ∧ (adoptFut w i s s1 f d).pool.kind = .ring := by
  unfold Pool.adoptFut
  by_cases he : w.pool.head % 65536 = w.pool.tail % 65536
  · have := ((h.1.selectRing hr hk).1 he).1
    rw [this]
    exact ⟨h.setFutCtl i s _ f _ hget hf rfl rfl rfl, hr, hk⟩
  · obtain ⟨b, rest, p1, p2, hfree, hsel, htake, hr2, hk2, hfree2, hn2, hinv⟩ := h.1.adopt hr hk he
    rw [hsel]
    simp only [htake]
    have hsop : s.opIds = f.buf.toList ++ mopBuf s.mop := by simp [Src.opIds, hf, futBuf]
    have h2 := hinv (ch' := fun a => w.ch a + ind b a) (lh' := w.opIds.length + w.handles.length + 1) (fun _ => rfl) rfl
    have hob : ∀ c, f.buf = some c → 0 < w.ch c + ind b c := by
      intro c hc
      have := w.ch_pos_of_op i s hget (c := c) (by rw [hsop, hc]; simp)
      omega
    let s' : Src := { s1 with fut := some { f with done := some d, buf := some b } }
    have hsel' : s'.selIds = s.selIds := Src.selIds_of_strm hs1
    have hop' : s'.opIds = [b] ++ mopBuf s.mop := by
      rw [Src.opIds_of (s := s) (s' := s') hs1]; rfl
    have hge := w.op_ge i s hget
    have hlge := w.lh_ge i s hget
    have h3 := h2.dropOpt hr2 f.buf hob
      (ch' := fun a => w.opIds.count a + s'.opIds.count a - s.opIds.count a + w.handles.count a)
      (lh' := w.opIds.length + s'.opIds.length - s.opIds.length + w.handles.length)
      (by
        intro a
        have := hge a
        rw [hop', hsop] at *
        simp only [List.count_append, count_singleton_ind, World.ch] at *
        omega)
      (by
        rw [hop', hsop] at *
        simp only [List.length_append, List.length_cons, List.length_nil] at *
        omega)
    refine ⟨?_, h3.1, by show (p2.dropOpt f.buf).kind = _; rw [h3.2.1, hk2]⟩
    apply Inv.mkSet (w := w) i s s' (p2.dropOpt f.buf) w.handles hget h.2.1 h3.1
    refine h3.2.2.2.2.congr ?_ (fun _ => rfl) ?_ rfl
    · intro a; rw [hsel']; have := w.cs_ge i s hget a; omega
    · rw [hsel']; have := w.ls_ge i s hget; omega

/-- invariant + the pool is live and of kind `k` -/
def Live (w : World) (k : PKind) : Prop := Inv w ∧ w.pool.released = false ∧ w.pool.kind = k

theorem Live.setFutCtl {w : World} {k : PKind} (h : Live w k) (i : Nat) (s s' : Src) (f f' : Fut)
    (hget : w.srcs[i]? = some s) (hf : s.fut = some f) (hf' : s'.fut = some f') (hb : f'.buf = f.buf)
    (hst : s'.strm = s.strm) : Live (w.setSrc i s') k :=
  ⟨h.1.setFutCtl i s s' f f' hget hf hf' hb hst, h.2.1, h.2.2⟩

theorem Live.ringSingle {w : World} (h : Live w .ring) (i : Nat) (s : Src) (f : Fut) (first : Bool)
    (hget : w.srcs[i]? = some s) (hf : s.fut = some f) : Live (ringSingle w i s f first) .ring := by
  unfold Pool.ringSingle
  simp only
  split
  · split
    · exact h.setFutCtl i s _ f _ hget hf rfl rfl rfl
    · exact h
  · exact h.1.adoptFut h.2.1 h.2.2 i s _ f _ hget hf (Src.consume_strm s _)
  · split
    · split
      · exact h.setFutCtl i s _ f _ hget hf rfl rfl rfl
      · exact h.setFutCtl i s _ f _ hget hf rfl rfl rfl
    · split
      · exact h.setFutCtl i s _ f _ hget hf rfl rfl rfl
      · exact h.setFutCtl i s _ f _ hget hf rfl rfl rfl
    · exact h.1.adoptFut h.2.1 h.2.2 i s s f _ hget hf rfl

theorem Live.fbSingle {w : World} {k : PKind} (h : Live w k) (i : Nat) (s : Src) (f : Fut)
    (hget : w.srcs[i]? = some s) (hf : s.fut = some f) : Live (fbSingle w i s f) k := by
  unfold Pool.fbSingle
  simp only
  split
  · exact h
  · exact h.setFutCtl i s _ f _ hget hf rfl rfl (Src.consume_strm s _)
  · exact h.setFutCtl i s _ f _ hget hf rfl rfl rfl

theorem Src.consume_fut' (s : Src) (k : Nat) : (s.consume k).fut = s.fut := Src.consume_fut s k

/-- the multishot receive loop only moves provided buffers into guards -/
theorem ringMulti_spec (cap buflen : Nat) :
    ∀ (fuel : Nat) (chk : Bool) (p : Pool) (s : Src) (m : MOp) (cs ch : Nat → Nat) (ls lh : Nat),
      PoolInv p cs ch ls lh → p.released = false → p.kind = .ring →
      ∃ new : List (Nat × Nat),
        (ringMulti cap buflen fuel chk p s m).2.2.guards = m.guards ++ new ∧
        (ringMulti cap buflen fuel chk p s m).2.2.buf = m.buf ∧
        (ringMulti cap buflen fuel chk p s m).2.1.fut = s.fut ∧
        (ringMulti cap buflen fuel chk p s m).1.released = false ∧
        (ringMulti cap buflen fuel chk p s m).1.kind = .ring ∧
        PoolInv (ringMulti cap buflen fuel chk p s m).1
          (fun a => cs a + (new.map (·.2)).count a) ch (ls + new.length) lh
  | 0, chk, p, s, m, cs, ch, ls, lh, h, hr, hk => by
    refine ⟨[], by simp [ringMulti], rfl, rfl, hr, hk, ?_⟩
    simpa [ringMulti] using h
  | fuel + 1, chk, p, s, m, cs, ch, ls, lh, h, hr, hk => by
    have triv : ∀ (m' : MOp), m'.guards = m.guards → m'.buf = m.buf →
        ∃ new : List (Nat × Nat), m'.guards = m.guards ++ new ∧ m'.buf = m.buf ∧ s.fut = s.fut ∧
          p.released = false ∧ p.kind = .ring ∧
          PoolInv p (fun a => cs a + (new.map (·.2)).count a) ch (ls + new.length) lh := by
      intro m' hg hb
      exact ⟨[], by simp [hg], hb, rfl, hr, hk, by simpa using h⟩
    unfold ringMulti
    simp only
    split
    · exact triv _ rfl rfl
    · split
      · exact triv _ rfl rfl
      · split
        · exact triv _ rfl rfl
        · split
          · exact triv _ rfl rfl
          · exact triv _ rfl rfl
        · rename_i k hpeek
          by_cases he : p.head % 65536 = p.tail % 65536
          · rw [((h.selectRing hr hk).1 he).1]
            exact triv _ rfl rfl
          · obtain ⟨b, rest, hfree, hsel, hfree1, hinv⟩ := (h.selectRing hr hk).2 he
            rw [hsel]
            simp only
            have h1 := hinv (cs' := fun a => cs a + ind b a) (ls' := ls + 1) (fun _ => rfl) rfl
            obtain ⟨new, hg, hb, hfut, hr', hk', hp'⟩ :=
              ringMulti_spec cap buflen fuel (s.kind == .dgram) { p with head := p.head + 1 } (s.consume k)
                { m with guards := m.guards ++ [(k, b)] } _ ch _ lh h1 hr hk
            refine ⟨(k, b) :: new, ?_, hb, ?_, hr', hk', ?_⟩
            · rw [hg]; simp
            · rw [hfut, Src.consume_fut]
            · refine hp'.congr ?_ (fun _ => rfl) ?_ rfl
              · intro a
                simp only [List.map_cons, count_cons_ind]
                omega
              · simp only [List.length_cons]; omega

theorem Src.mop_of_strm {s : Src} {len : Nat} {m : MOp} (h : s.strm = some { len := len, op := some (some m) }) :
    s.mop = some m := by
  simp [Src.mop, h]

/-- only the bookkeeping of the multishot op of source `i` changes -/
theorem Live.setStrmCtl {w : World} {k : PKind} (h : Live w k) (i : Nat) (s s' : Src) (len len' : Nat) (m m' : MOp)
    (hget : w.srcs[i]? = some s) (hs : s.strm = some { len := len, op := some (some m) })
    (hs' : s'.strm = some { len := len', op := some (some m') }) (hfut : s'.fut = s.fut)
    (hg : m'.guards = m.guards) (hb : m'.buf = m.buf) : Live (w.setSrc i s') k := by
  refine ⟨h.1.of_sameTok (sameTok_setSrc w i s s' hget ?_ ?_) rfl h.1.2.1 ?_, h.2.1, h.2.2⟩
  · simp only [Src.selIds, Src.mop_of_strm hs, Src.mop_of_strm hs', mopSel, hg]
  · simp only [Src.opIds, Src.mop_of_strm hs, Src.mop_of_strm hs', mopBuf, hb, hfut]
  · intro hr; rw [h.2.1] at hr; cases hr

theorem fbMulti_spec (cap buflen : Nat) (s : Src) (m : MOp) :
    (fbMulti cap buflen s m).2.guards = m.guards ∧ (fbMulti cap buflen s m).2.buf = m.buf ∧
    (fbMulti cap buflen s m).1.fut = s.fut := by
  unfold fbMulti
  split
  · exact ⟨rfl, rfl, rfl⟩
  · exact ⟨rfl, rfl, Src.consume_fut s _⟩
  · exact ⟨rfl, rfl, rfl⟩

theorem Live.kick {w : World} {k : PKind} (h : Live w k) (i : Nat) (first : Bool) : Live (kick w i first) k := by
  unfold Pool.kick
  split
  · exact h
  · rename_i s hget
    split
    · rename_i f hf
      split
      · exact h
      · cases k with
        | ring =>
          have hk : w.pool.kind = .ring := h.2.2
          simp only [hk]
          exact h.ringSingle i s f first hget hf
        | fb =>
          have hk : w.pool.kind = .fb := h.2.2
          simp only [hk]
          exact h.fbSingle i s f hget hf
    · rename_i hf
      split
      · rename_i len m hs
        split
        · cases k with
          | ring =>
            have hk : w.pool.kind = .ring := h.2.2
            simp only [hk]
            obtain ⟨new, hg, hb, hfut, hr', hk', hp'⟩ :=
              ringMulti_spec len w.buflen (w.pool.tail - w.pool.head + 1) first w.pool s m _ _ _ _ h.1.1 h.2.1 hk
            generalize ringMulti len w.buflen (w.pool.tail - w.pool.head + 1) first w.pool s m = res at *
            obtain ⟨p', s1, m'⟩ := res
            simp only at hg hb hfut hr' hk' hp' ⊢
            let s' : Src := { s1 with strm := some { len := len, op := some (some m') } }
            have hmop : s.mop = some m := Src.mop_of_strm hs
            have hmop' : s'.mop = some m' := Src.mop_of_strm (s := s') rfl
            have hsel : s'.selIds = s.selIds ++ new.map (·.2) := by
              simp only [Src.selIds, hmop, hmop', mopSel, hg, List.map_append]
            have hop : s'.opIds = s.opIds := by
              simp only [Src.opIds, hmop, hmop', mopBuf, hb]
              show futBuf s1.fut ++ _ = _
              rw [hfut]
            refine ⟨?_, hr', hk'⟩
            apply Inv.mkSet (w := w) i s s' p' w.handles hget h.1.2.1 hr'
            refine hp'.congr ?_ ?_ ?_ ?_
            · intro a; rw [hsel, List.count_append]; have := w.cs_ge i s hget a; omega
            · intro a; rw [hop]; have := w.op_ge i s hget a; simp only [World.ch]; omega
            · rw [hsel, List.length_append, List.length_map]; have := w.ls_ge i s hget; omega
            · rw [hop]; have := w.lh_ge i s hget; omega
          | fb =>
            have hk : w.pool.kind = .fb := h.2.2
            simp only [hk]
            obtain ⟨hg, hb, hfut⟩ := fbMulti_spec len w.buflen s m
            generalize fbMulti len w.buflen s m = res at *
            obtain ⟨s1, m'⟩ := res
            exact h.setStrmCtl i s _ len len m m' hget hs rfl hfut hg hb
        · exact h
      · exact h


theorem validSrc_some {w : World} {i : Nat} {s : Src} (h : validSrc w i = some s) :
    w.pool.released = false ∧ w.srcs[i]? = some s := by
  unfold validSrc at h
  by_cases hr : w.pool.released = true
  · rw [if_pos hr] at h; cases h
  · rw [if_neg hr] at h; exact ⟨by simpa using hr, h⟩

theorem Inv.live {w : World} (h : Inv w) (hr : w.pool.released = false) : Live w w.pool.kind := ⟨h, hr, rfl⟩

/-- a source is replaced by one with the same future and stream -/
theorem Live.setSrcCtl {w : World} {k : PKind} (h : Live w k) (i : Nat) (s s' : Src)
    (hget : w.srcs[i]? = some s) (hf : s'.fut = s.fut) (hst : s'.strm = s.strm) : Live (w.setSrc i s') k := by
  refine ⟨h.1.of_sameTok (sameTok_setSrc w i s s' hget (Src.selIds_of_strm hst) ?_) rfl h.1.2.1 ?_, h.2.1, h.2.2⟩
  · rw [Src.opIds_of hst, hf]; rfl
  · intro hr; rw [h.2.1] at hr; cases hr

theorem Inv.evWrite {w : World} (h : Inv w) (i k : Nat) : Inv (evWrite w i k).1 := by
  unfold Pool.evWrite
  split
  · exact h
  · rename_i s hv
    obtain ⟨hr, hget⟩ := validSrc_some hv
    split
    · exact h
    · simp only
      refine ((h.live hr).setSrcCtl i s _ hget ?_ ?_).kick i false |>.1
      · split <;> rfl
      · split <;> rfl

theorem Inv.evClose {w : World} (h : Inv w) (i : Nat) : Inv (evClose w i).1 := by
  unfold Pool.evClose
  split
  · exact h
  · rename_i s hv
    obtain ⟨hr, hget⟩ := validSrc_some hv
    split
    · exact h
    · exact ((h.live hr).setSrcCtl i s { s with eof := true } hget rfl rfl).kick i false |>.1

theorem Inv.evAwait {w : World} (h : Inv w) (i : Nat) : Inv (evAwait w i).1 := by
  unfold Pool.evAwait
  split
  · exact h
  · rename_i s hv
    obtain ⟨hr, hget⟩ := validSrc_some hv
    split
    · exact h
    · rename_i f hf
      split
      · exact h
      · exact h.finishFut hr i s f hget hf _ _ _

theorem Inv.evCancel {w : World} (h : Inv w) (i : Nat) : Inv (evCancel w i).1 := by
  unfold Pool.evCancel
  split
  · exact h
  · rename_i s hv
    obtain ⟨hr, hget⟩ := validSrc_some hv
    split
    · exact h
    · rename_i f hf
      have hsop : s.opIds = f.buf.toList ++ mopBuf s.mop := by simp [Src.opIds, hf, futBuf]
      refine (h.dropOptSrc hr i s { s with fut := none } hget f.buf rfl ?_ ?_).1
      · intro a
        show (mopBuf s.mop).count a + _ = _
        rw [hsop, List.count_append]; omega
      · show (mopBuf s.mop).length + _ = _
        rw [hsop, List.length_append]; omega

theorem Inv.evOpen {w : World} (h : Inv w) (i len : Nat) : Inv (evOpen w i len).1 := by
  unfold Pool.evOpen
  split
  · exact h
  · rename_i s hv
    obtain ⟨hr, hget⟩ := validSrc_some hv
    split
    · exact h
    · rename_i hc
      simp only [Bool.or_eq_true, not_or, Bool.not_eq_true, decide_eq_true_eq] at hc
      have hst : s.strm = none := by
        have := hc.1.1.2
        cases hs : s.strm <;> simp_all
      refine h.of_sameTok (sameTok_setSrc w i s _ hget ?_ ?_) rfl h.2.1 ?_
      · simp [Src.selIds, Src.mop, hst, mopSel]
      · simp [Src.opIds, Src.mop, hst, mopBuf]
      · intro hr'; rw [hr] at hr'; cases hr'

theorem Inv.evSrc {w : World} (h : Inv w) (kind : SKind) (size : Nat) : Inv (evSrc w kind size).1 := by
  unfold Pool.evSrc
  split
  · exact h
  · rename_i hc
    simp only [Bool.or_eq_true, not_or, Bool.not_eq_true, decide_eq_true_eq] at hc
    have hr : w.pool.released = false := by
      have := hc.1.1
      simpa using this
    refine h.of_sameTok ⟨?_, ?_, ?_, ?_⟩ rfl h.2.1 ?_
    · intro a; simp [World.cs, World.selIds, List.flatMap_append, Src.selIds, Src.mop, mopSel]
    · intro a; simp [World.ch, World.opIds, List.flatMap_append, Src.opIds, Src.mop, mopBuf, futBuf]
    · simp [World.selIds, List.flatMap_append, Src.selIds, Src.mop, mopSel]
    · simp [World.opIds, List.flatMap_append, Src.opIds, Src.mop, mopBuf, futBuf]
    · intro hr'; rw [hr] at hr'; cases hr'

theorem Inv.evPop {w : World} (h : Inv w) : Inv (evPop w).1 := by
  unfold Pool.evPop
  split
  · exact h
  · rename_i hr
    have hr : w.pool.released = false := by simpa using hr
    split
    · exact h
    · rename_i hk
      cases hq : w.pool.queue with
      | nil =>
        rw [((h.1.popFb hr hk).1 hq)]
        exact h
      | cons b rest =>
        obtain ⟨hpop, htake, hinv⟩ := (h.1.popFb hr hk).2 b rest hq
        rw [hpop]
        simp only [htake]
        refine ⟨?_, h.2.1, ?_⟩
        · show PoolInv _ _ _ _ _
          refine hinv (ch' := _) (lh' := _) ?_ ?_
          · intro a
            show w.opIds.count a + (w.handles ++ [b]).count a = _
            rw [List.count_append, count_singleton_ind]; simp only [World.ch]; omega
          · show w.opIds.length + (w.handles ++ [b]).length = _
            simp only [List.length_append, List.length_cons, List.length_nil]; omega
        · intro hr'; have : w.pool.released = true := hr'; rw [hr] at this; cases this

theorem Inv.evDropN {w : World} (h : Inv w) (k : Nat) : Inv (evDropN w k).1 := by
  unfold Pool.evDropN
  split
  · exact h
  · exact h.evDrop _

/-- fallback pool: `pool.pop()` at the creation of an op of source `i`; the new source `s'` holds the
    popped buffer in addition to what `s` held -/
theorem Live.popInto {w : World} (h : Live w .fb) (i : Nat) (s : Src) (hget : w.srcs[i]? = some s)
    (b : Nat) (rest : List Nat) (hq : w.pool.queue = b :: rest) (s' : Src)
    (hsel : s'.selIds = s.selIds) (hop : ∀ a, s'.opIds.count a = s.opIds.count a + ind b a)
    (hlen : s'.opIds.length = s.opIds.length + 1) :
    Live ({ w with pool := { w.pool with queue := rest, slots := w.pool.slots.set b none } }.setSrc i s') .fb := by
  obtain ⟨hpop, htake, hinv⟩ := (h.1.1.popFb h.2.1 h.2.2).2 b rest hq
  have hge := w.op_ge i s hget
  have hlge := w.lh_ge i s hget
  have hp' := hinv (ch' := fun a => w.opIds.count a + s'.opIds.count a - s.opIds.count a + w.handles.count a)
    (lh' := w.opIds.length + s'.opIds.length - s.opIds.length + w.handles.length)
    (by intro a; have := hge a; rw [hop a]; simp only [World.ch]; omega)
    (by rw [hlen]; omega)
  refine ⟨?_, h.2.1, h.2.2⟩
  refine Inv.mkSet (w := w) i s s' { w.pool with queue := rest, slots := w.pool.slots.set b none } w.handles
    hget h.1.2.1 h.2.1 (hp'.congr ?_ (fun _ => rfl) ?_ rfl)
  · intro a; rw [hsel]; have := w.cs_ge i s hget a; omega
  · rw [hsel]; have := w.ls_ge i s hget; omega

/-- after the first poll: a ready future is consumed at once, otherwise nothing more happens -/
theorem Live.finishIfDone {w : World} {k : PKind} (h : Live w k) (i : Nat) (o : Out) :
    Inv (match w.srcs[i]? with
      | some s1 =>
        match s1.fut with
        | some f1 =>
          match f1.done with
          | some (r, flag) => finishFut w i s1 f1 r flag true
          | none => (w, o)
        | none => (w, Out.bad)
      | none => (w, Out.bad)).1 := by
  split
  · rename_i s1 hget
    split
    · rename_i f1 hf
      split
      · exact h.1.finishFut h.2.1 i s1 f1 hget hf _ _ _
      · exact h.1
    · exact h.1
  · exact h.1

theorem Inv.evRead {w : World} (h : Inv w) (i len pos : Nat) : Inv (evRead w i len pos).1 := by
  unfold Pool.evRead
  split
  · exact h
  · rename_i s hv
    obtain ⟨hr, hget⟩ := validSrc_some hv
    split
    · exact h
    · rename_i hc
      simp only [Bool.or_eq_true, not_or, Bool.not_eq_true, decide_eq_true_eq] at hc
      have hfut : s.fut = none := by
        have := hc.1.1
        cases hs : s.fut <;> simp_all
      have hsop : s.opIds = mopBuf s.mop := by simp [Src.opIds, hfut, futBuf]
      split
      · -- ring
        rename_i hk
        simp only
        have hl0 : Live (w.setSrc i { s with fut := some { cap := len, pos := pos, pollFirst := s.wantsPollFirst, done := none, buf := none } }) .ring := by
          refine ⟨h.of_sameTok (sameTok_setSrc w i s _ hget rfl ?_) rfl h.2.1 ?_, hr, hk⟩
          · rw [hsop]; rfl
          · intro hr'; rw [hr] at hr'; cases hr'
        have hl1 := hl0.kick i true
        split
        · exact hl1.finishIfDone i _
        · exact hl1.1
      · -- fallback
        rename_i hk
        cases hq : w.pool.queue with
        | nil =>
          rw [((h.1.popFb hr hk).1 hq)]
          exact h
        | cons b rest =>
          obtain ⟨hpop, htake, _⟩ := (h.1.popFb hr hk).2 b rest hq
          rw [hpop]
          simp only [htake]
          have hlw : Live w .fb := ⟨h, hr, hk⟩
          have hl0 := hlw.popInto i s hget b rest hq
            { s with fut := some { cap := len, pos := pos, pollFirst := false, done := none, buf := some b } }
            rfl
            (by intro a; rw [hsop]; show ([b] ++ mopBuf s.mop).count a = _
                rw [List.count_append, count_singleton_ind]; omega)
            (by rw [hsop]; show ([b] ++ mopBuf s.mop).length = _
                simp only [List.length_append, List.length_cons, List.length_nil]; omega)
          have hl1 := hl0.kick i true
          split
          · exact hl1.1
          · exact hl1.finishIfDone i _

/-- `BufferGuard::drop` for a queue of multishot results: every selected id goes back to the pool -/
theorem PoolInv.resetGuards : ∀ (g : List (Nat × Nat)) (p : Pool) (cs ch : Nat → Nat) (ls lh : Nat),
    PoolInv p cs ch ls lh → p.released = false → (∀ a, (g.map (·.2)).count a ≤ cs a) → g.length ≤ ls →
    (p.resetGuards g).released = false ∧ (p.resetGuards g).kind = p.kind ∧ (p.resetGuards g).n = p.n ∧
    (p.resetGuards g).freeIds = p.freeIds ++ g.map (·.2) ∧
    (p.resetGuards g).resets = p.resets + g.length ∧
    PoolInv (p.resetGuards g) (fun a => cs a - (g.map (·.2)).count a) ch (ls - g.length) lh
  | [], p, cs, ch, ls, lh, h, hr, _, _ => by
    refine ⟨hr, rfl, rfl, by simp [Pool.resetGuards], rfl, ?_⟩
    simpa [Pool.resetGuards] using h
  | (k, b) :: rest, p, cs, ch, ls, lh, h, hr, hc, hl => by
    have hb : 0 < cs b := by
      have := hc b
      simp only [List.map_cons, count_cons_ind, ind_self] at this
      omega
    simp only [List.length_cons] at hl
    obtain ⟨_, hr1, hk1, hn1, hf1, hres1, hp1⟩ := h.resetSel hr hb (cs' := fun a => cs a - ind b a) (ls' := ls - 1)
      (by
        intro a
        by_cases ha : a = b
        · subst ha; rw [ind_self]; omega
        · rw [ind_ne ha]; omega)
      (by omega)
    obtain ⟨hr2, hk2, hn2, hf2, hres2, hp2⟩ := PoolInv.resetGuards rest (p.reset b).2 _ ch _ lh hp1 hr1
      (by
        intro a
        have := hc a
        simp only [List.map_cons, count_cons_ind] at this
        omega)
      (by omega)
    simp only [Pool.resetGuards]
    refine ⟨hr2, by rw [hk2, hk1], by rw [hn2, hn1], ?_, ?_, ?_⟩
    · rw [hf2, hf1]; simp
    · rw [hres2, hres1]; simp only [List.length_cons]; omega
    · refine hp2.congr ?_ (fun _ => rfl) ?_ rfl
      · intro a; simp only [List.map_cons, count_cons_ind]; omega
      · simp only [List.length_cons]; omega

theorem Live.terminalItem {w : World} {k : PKind} (h : Live w k) (i : Nat) (s : Src) (len0 len : Nat) (m : MOp)
    (r : Res) (hget : w.srcs[i]? = some s) (hs : s.strm = some { len := len0, op := some (some m) }) :
    Inv (terminalItem w i s len m r).1 := by
  have hmop : s.mop = some m := Src.mop_of_strm hs
  have hsel : s.selIds = m.guards.map (·.2) := by simp [Src.selIds, hmop, mopSel]
  have hsop : s.opIds = futBuf s.fut ++ m.buf.toList := by simp [Src.opIds, hmop, mopBuf]
  let s' : Src := { s with strm := some { len := len, op := some none } }
  have hmop' : s'.mop = none := by simp [Src.mop, s']
  have hsel' : s'.selIds = [] := by simp [Src.selIds, hmop', mopSel]
  have hsop' : s'.opIds = futBuf s.fut := by simp [Src.opIds, hmop', mopBuf, s']
  have hcge := w.cs_ge i s hget
  have hlsge := w.ls_ge i s hget
  have hoge := w.op_ge i s hget
  have hlhge := w.lh_ge i s hget
  obtain ⟨hr0, hk0, hn0, hf0, _, hp0⟩ := PoolInv.resetGuards m.guards w.pool _ _ _ _ h.1.1 h.2.1
    (by intro a; have := hcge a; rw [hsel] at this; exact this)
    (by rw [hsel, List.length_map] at hlsge; exact hlsge)
  -- (A) the buffer of the op (if any) is dropped
  have hA : ∀ ob : Option Nat, ob = m.buf →
      Inv ({ w with pool := (w.pool.resetGuards m.guards).dropOpt ob }.setSrc i s') := by
    intro ob hob
    subst hob
    have h3 := hp0.dropOpt hr0 m.buf
      (by
        intro c hc
        exact w.ch_pos_of_op i s hget (c := c) (by rw [hsop, hc]; simp))
      (ch' := fun a => w.opIds.count a + s'.opIds.count a - s.opIds.count a + w.handles.count a)
      (lh' := w.opIds.length + s'.opIds.length - s.opIds.length + w.handles.length)
      (by
        intro a
        have := hoge a
        rw [hsop', hsop] at *
        simp only [List.count_append, World.ch] at *
        omega)
      (by
        rw [hsop', hsop] at *
        simp only [List.length_append] at *
        omega)
    refine Inv.mkSet (w := w) i s s' _ w.handles hget h.1.2.1 h3.1 (h3.2.2.2.2.congr ?_ (fun _ => rfl) ?_ rfl)
    · intro a; rw [hsel', hsel]; simp
    · rw [hsel', hsel]; simp
  unfold Pool.terminalItem
  simp only
  split
  · exact hA _ rfl
  · exact hA _ rfl
  · exact hA _ rfl
  · rename_i k'
    split
    · rename_i hb
      have := hA none hb.symm
      simpa [Pool.dropOpt] using this
    · rename_i b hb
      split
      · have := hA (some b) hb.symm
        simpa [Pool.dropOpt] using this
      · have hsopb : s.opIds = futBuf s.fut ++ [b] := by rw [hsop, hb]; rfl
        refine Inv.mkSet (w := w) i s s' _ (w.handles ++ [b]) hget h.1.2.1 hr0 (hp0.congr ?_ ?_ ?_ ?_)
        · intro a; rw [hsel', hsel]; simp
        · intro a
          have := hoge a
          rw [hsopb] at this
          rw [hsop', hsopb]
          simp only [List.count_append, count_singleton_ind, World.ch] at *
          omega
        · rw [hsel', hsel]; simp
        · have := hlhge
          rw [hsopb] at this
          rw [hsop', hsopb]
          simp only [List.length_append, List.length_cons, List.length_nil] at *
          omega


theorem getElem?_set_self' {α : Type} (l : List α) (i : Nat) (x y : α) (h : l[i]? = some y) :
    (l.set i x)[i]? = some x := by
  have : i < l.length := by
    rcases Nat.lt_or_ge i l.length with h1 | h1
    · exact h1
    · rw [List.getElem?_eq_none h1] at h; cases h
  simp [this]

theorem Src.mop_none_of_op0 {s : Src} {st : Strm} (hs : s.strm = some st)
    (h0 : (match st.op with | some (some m) => some m | _ => none : Option MOp) = none) : s.mop = none := by
  unfold Src.mop
  rw [hs]
  obtain ⟨len, op⟩ := st
  cases op with
  | none => rfl
  | some o =>
    cases o with
    | none => rfl
    | some m => simp at h0

theorem Src.strm_of_op0 {s : Src} {st : Strm} {m : MOp} (hs : s.strm = some st)
    (h0 : (match st.op with | some (some m) => some m | _ => none : Option MOp) = some m) :
    s.strm = some { len := st.len, op := some (some m) } := by
  rw [hs]
  obtain ⟨len, op⟩ := st
  cases op with
  | none => simp at h0
  | some o =>
    cases o with
    | none => simp at h0
    | some m' =>
      simp only [Option.some.injEq] at h0
      subst h0; rfl

theorem Inv.evNext {w : World} (h : Inv w) (i : Nat) : Inv (evNext w i).1 := by
  unfold Pool.evNext
  split
  · exact h
  · rename_i s hv
    obtain ⟨hr, hget⟩ := validSrc_some hv
    split
    · exact h
    · rename_i st hs
      simp only
      split
      · -- no op inside the stream: create one
        rename_i h0
        have hmop : s.mop = none := Src.mop_none_of_op0 hs h0
        have hsel : s.selIds = [] := by simp [Src.selIds, hmop, mopSel]
        have hsop : s.opIds = futBuf s.fut := by simp [Src.opIds, hmop, mopBuf]
        split
        · rename_i hk
          have hl0 : Live (w.setSrc i { s with strm := some { len := st.len, op := some (some { submitted := true, guards := [], buf := none, fin := none }) } }) .ring := by
            refine ⟨h.of_sameTok (sameTok_setSrc w i s _ hget ?_ ?_) rfl h.2.1 ?_, hr, hk⟩
            · rw [hsel]; rfl
            · rw [hsop]; simp [Src.opIds, Src.mop, mopBuf]
            · intro hr'; rw [hr] at hr'; cases hr'
          exact (hl0.kick i true).1
        · rename_i hk
          cases hq : w.pool.queue with
          | nil =>
            rw [((h.1.popFb hr hk).1 hq)]
            simp only
            refine h.of_sameTok (sameTok_setSrc w i s _ hget ?_ ?_) rfl h.2.1 ?_
            · rw [hsel]; rfl
            · rw [hsop]; simp [Src.opIds, Src.mop, mopBuf]
            · intro hr'; rw [hr] at hr'; cases hr'
          | cons b rest =>
            obtain ⟨hpop, htake, _⟩ := (h.1.popFb hr hk).2 b rest hq
            rw [hpop]
            simp only [htake]
            have hlw : Live w .fb := ⟨h, hr, hk⟩
            split
            · -- pipe
              have hl0 := hlw.popInto i s hget b rest hq
                { s with strm := some { len := st.len, op := some (some { submitted := true, guards := [], buf := some b, fin := none }) } }
                (by rw [hsel]; rfl)
                (by intro a; rw [hsop]; show (futBuf s.fut ++ [b]).count a = _
                    rw [List.count_append, count_singleton_ind])
                (by rw [hsop]; show (futBuf s.fut ++ [b]).length = _
                    simp only [List.length_append, List.length_cons, List.length_nil])
              exact (hl0.kick i true).1
            · -- sockets: the op may complete inside `push`
              obtain ⟨hg, hb, hfut⟩ := fbMulti_spec st.len w.buflen s
                { submitted := true, guards := [], buf := some b, fin := none }
              generalize fbMulti st.len w.buflen s { submitted := true, guards := [], buf := some b, fin := none } = res at *
              obtain ⟨s2, m2⟩ := res
              simp only at hg hb hfut ⊢
              have hl0 := hlw.popInto i s hget b rest hq
                { s2 with strm := some { len := st.len, op := some (some m2) } }
                (by rw [hsel]; simp [Src.selIds, Src.mop, mopSel, hg])
                (by intro a; rw [hsop]
                    show (futBuf s2.fut ++ mopBuf (some m2)).count a = _
                    rw [hfut]; simp only [mopBuf, hb, Option.toList, List.count_append, count_singleton_ind])
                (by rw [hsop]
                    show (futBuf s2.fut ++ mopBuf (some m2)).length = _
                    rw [hfut]; simp only [mopBuf, hb, Option.toList, List.length_append, List.length_cons, List.length_nil])
              split
              · exact hl0.terminalItem i _ st.len st.len m2 _ (getElem?_set_self' _ _ _ _ hget) rfl
              · exact hl0.1
      · -- an op is running
        rename_i m h0
        have hs' := Src.strm_of_op0 hs h0
        have hmop : s.mop = some m := Src.mop_of_strm hs'
        have hlw : Live w w.pool.kind := h.live hr
        split
        · rename_i k b rest hg
          have hsel : s.selIds = b :: rest.map (·.2) := by simp [Src.selIds, hmop, mopSel, hg]
          have hsop : s.opIds = futBuf s.fut ++ mopBuf (some m) := by simp [Src.opIds, hmop]
          let s' : Src := { s with strm := some { len := st.len, op := some (some { m with guards := rest }) } }
          have hsel' : s'.selIds = rest.map (·.2) := by simp [Src.selIds, Src.mop, mopSel, s']
          have hsop' : s'.opIds = s.opIds := by rw [hsop]; simp [Src.opIds, Src.mop, mopBuf, s']
          have hb : 0 < w.cs b := w.cs_pos_of_sel i s hget (by rw [hsel]; simp)
          have hcge := w.cs_ge i s hget
          have hlsge := w.ls_ge i s hget
          have hoge := w.op_ge i s hget
          have hlhge := w.lh_ge i s hget
          obtain ⟨htake, hp1⟩ := h.1.takeSel hr hb
            (cs' := fun a => w.cs a + s'.selIds.count a - s.selIds.count a)
            (ch' := fun a => w.ch a + ind b a) (ls' := w.selIds.length + s'.selIds.length - s.selIds.length)
            (lh' := w.opIds.length + w.handles.length + 1)
            (by intro a; have := hcge a; rw [hsel', hsel] at *; simp only [count_cons_ind] at *; omega)
            (fun _ => rfl)
            (by rw [hsel', hsel] at *; simp only [List.length_cons] at *; omega)
            rfl
          rw [htake]
          simp only
          split
          · -- empty buffer: dropped at once
            have hr1 : ({ w.pool with slots := w.pool.slots.set b none } : Pool).released = false := hr
            have h3 := hp1.dropHeld hr1 (b := b) (by simp [ind_self])
              (ch' := fun a => w.opIds.count a + s'.opIds.count a - s.opIds.count a + w.handles.count a)
              (lh' := w.opIds.length + s'.opIds.length - s.opIds.length + w.handles.length)
              (by intro a; have := hoge a; rw [hsop']; simp only [World.ch]; omega)
              (by rw [hsop']; omega)
            exact Inv.mkSet (w := w) i s s' _ w.handles hget h.2.1 h3.1 h3.2.2.2.2.2
          · refine Inv.mkSet (w := w) i s s' _ (w.handles ++ [b]) hget h.2.1 hr (hp1.congr (fun _ => rfl) ?_ rfl ?_)
            · intro a; have := hoge a; rw [hsop', List.count_append, count_singleton_ind]; simp only [World.ch]; omega
            · rw [hsop']; simp only [List.length_append, List.length_cons, List.length_nil]; omega
        · split
          · exact h
          · exact hlw.terminalItem i s st.len st.len m _ hget hs'

/-- the multishot op `m` of source `i` is dropped as a whole (`inner.buffer` first, then the guards) -/
theorem Live.dropMOp {w : World} {k : PKind} (h : Live w k) (i : Nat) (s s' : Src) (len0 : Nat) (m : MOp)
    (hget : w.srcs[i]? = some s) (hs : s.strm = some { len := len0, op := some (some m) })
    (hs' : s'.mop = none) (hfut : s'.fut = s.fut) :
    Live ({ w with pool := w.pool.dropMOp m }.setSrc i s') k := by
  have hmop : s.mop = some m := Src.mop_of_strm hs
  have hsel : s.selIds = m.guards.map (·.2) := by simp [Src.selIds, hmop, mopSel]
  have hsop : s.opIds = futBuf s.fut ++ m.buf.toList := by simp [Src.opIds, hmop, mopBuf]
  have hsel' : s'.selIds = [] := by simp [Src.selIds, hs', mopSel]
  have hsop' : s'.opIds = futBuf s.fut := by simp [Src.opIds, hs', mopBuf, hfut]
  have hcge := w.cs_ge i s hget
  have hlsge := w.ls_ge i s hget
  have hoge := w.op_ge i s hget
  have hlhge := w.lh_ge i s hget
  have h1 := h.1.1.dropOpt h.2.1 m.buf
    (by intro c hc; exact w.ch_pos_of_op i s hget (c := c) (by rw [hsop, hc]; simp))
    (ch' := fun a => w.opIds.count a + s'.opIds.count a - s.opIds.count a + w.handles.count a)
    (lh' := w.opIds.length + s'.opIds.length - s.opIds.length + w.handles.length)
    (by
      intro a
      have := hoge a
      rw [hsop', hsop] at *
      simp only [List.count_append, World.ch] at *
      omega)
    (by
      rw [hsop', hsop] at *
      simp only [List.length_append] at *
      omega)
  obtain ⟨hr2, hk2, hn2, _, _, hp2⟩ := PoolInv.resetGuards m.guards _ _ _ _ _ h1.2.2.2.2 h1.1
    (by intro a; have := hcge a; rw [hsel] at this; exact this)
    (by rw [hsel, List.length_map] at hlsge; exact hlsge)
  refine ⟨?_, hr2, by show ((w.pool.dropOpt m.buf).resetGuards m.guards).kind = k; rw [hk2, h1.2.1, h.2.2]⟩
  refine Inv.mkSet (w := w) i s s' _ w.handles hget h.1.2.1 hr2 (hp2.congr ?_ (fun _ => rfl) ?_ rfl)
  · intro a; rw [hsel', hsel]; simp
  · rw [hsel', hsel]; simp

theorem Inv.evDstream {w : World} (h : Inv w) (i : Nat) : Inv (evDstream w i).1 := by
  unfold Pool.evDstream
  split
  · exact h
  · rename_i s hv
    obtain ⟨hr, hget⟩ := validSrc_some hv
    split
    · exact h
    · rename_i st hs
      simp only
      have hmop' : ({ s with strm := none } : Src).mop = none := rfl
      unfold Pool.dropStrm
      split
      · rename_i m hop
        have hs' : s.strm = some { len := st.len, op := some (some m) } := by
          rw [hs]; obtain ⟨len, op⟩ := st; simp only at hop; rw [hop]
        exact ((h.live hr).dropMOp i s { s with strm := none } st.len m hget hs' hmop' rfl).1
      · rename_i hop
        have hmop : s.mop = none := by
          unfold Src.mop; rw [hs]
          obtain ⟨len, op⟩ := st
          cases op with
          | none => rfl
          | some o =>
            cases o with
            | none => rfl
            | some m => exact absurd rfl (hop m)
        refine h.of_sameTok (sameTok_setSrc w i s _ hget ?_ ?_) rfl h.2.1 ?_
        · simp [Src.selIds, hmop, hmop']
        · simp [Src.opIds, hmop, hmop']
        · intro hr'; rw [hr] at hr'; cases hr'

/-- everything a source holds goes back to the pool when its future and stream are dropped -/
theorem PoolInv.dropSrc (s : Src) (p : Pool) (c0 h0 : Nat → Nat) (ls0 lh0 : Nat)
    (h : PoolInv p (fun a => c0 a + s.selIds.count a) (fun a => h0 a + s.opIds.count a)
      (ls0 + s.selIds.length) (lh0 + s.opIds.length)) (hr : p.released = false) :
    (p.dropSrc s).released = false ∧ (p.dropSrc s).kind = p.kind ∧ PoolInv (p.dropSrc s) c0 h0 ls0 lh0 := by
  unfold Pool.dropSrc
  -- first the future's buffer
  have h1 : (p.dropFutOpt s.fut).released = false ∧ (p.dropFutOpt s.fut).kind = p.kind ∧
      PoolInv (p.dropFutOpt s.fut) (fun a => c0 a + s.selIds.count a) (fun a => h0 a + (mopBuf s.mop).count a)
        (ls0 + s.selIds.length) (lh0 + (mopBuf s.mop).length) := by
    cases hf : s.fut with
    | none =>
      refine ⟨hr, rfl, h.congr (fun _ => rfl) ?_ rfl ?_⟩
      · intro a; simp [Src.opIds, hf, futBuf]
      · simp [Src.opIds, hf, futBuf]
    | some f =>
      have hsop : s.opIds = f.buf.toList ++ mopBuf s.mop := by simp [Src.opIds, hf, futBuf]
      have := h.dropOpt hr f.buf
        (by intro c hc; simp only [hsop, hc, Option.toList, List.count_append, count_singleton_ind, ind_self]; omega)
        (ch' := fun a => h0 a + (mopBuf s.mop).count a) (lh' := lh0 + (mopBuf s.mop).length)
        (by intro a; simp only [hsop, List.count_append]; omega)
        (by simp only [hsop, List.length_append]; omega)
      exact ⟨this.1, this.2.1, this.2.2.2.2⟩
  obtain ⟨hr1, hk1, hp1⟩ := h1
  generalize p.dropFutOpt s.fut = p1 at *
  cases hst : s.strm with
  | none =>
    have hmop : s.mop = none := by simp [Src.mop, hst]
    simp only [Src.selIds, hmop, mopSel, mopBuf, List.count_nil, List.length_nil, Nat.add_zero] at hp1
    exact ⟨hr1, hk1, hp1⟩
  | some st =>
    show (p1.dropStrm st).released = false ∧ (p1.dropStrm st).kind = p.kind ∧ PoolInv (p1.dropStrm st) c0 h0 ls0 lh0
    unfold Pool.dropStrm
    split
    · rename_i m hop
      have hs' : s.strm = some { len := st.len, op := some (some m) } := by
        rw [hst]; obtain ⟨len, op⟩ := st; simp only at hop; rw [hop]
      have hmop : s.mop = some m := Src.mop_of_strm hs'
      simp only [Src.selIds, hmop, mopSel, mopBuf] at hp1
      unfold Pool.dropMOp
      have h2 := hp1.dropOpt hr1 m.buf
        (by intro c hc; simp only [hc, Option.toList, count_singleton_ind, ind_self]; omega)
        (ch' := h0) (lh' := lh0) (fun _ => rfl) rfl
      obtain ⟨hr3, hk3, _, _, _, hp3⟩ := PoolInv.resetGuards m.guards _ _ _ _ _ h2.2.2.2.2 h2.1
        (by intro a; omega) (by simp)
      refine ⟨hr3, by rw [hk3, h2.2.1, hk1], hp3.congr ?_ (fun _ => rfl) ?_ rfl⟩
      · intro a; simp
      · simp
    · rename_i hop
      have hmop : s.mop = none := by
        unfold Src.mop; rw [hst]
        obtain ⟨len, op⟩ := st
        cases op with
        | none => rfl
        | some o =>
          cases o with
          | none => rfl
          | some m => exact absurd rfl (hop m)
      simp only [Src.selIds, hmop, mopSel, mopBuf, List.count_nil, List.length_nil, Nat.add_zero] at hp1
      exact ⟨hr1, hk1, hp1⟩

theorem PoolInv.dropSrcs : ∀ (l : List Src) (p : Pool) (c0 h0 : Nat → Nat) (ls0 lh0 : Nat),
    PoolInv p (fun a => c0 a + (l.flatMap Src.selIds).count a) (fun a => h0 a + (l.flatMap Src.opIds).count a)
      (ls0 + (l.flatMap Src.selIds).length) (lh0 + (l.flatMap Src.opIds).length) → p.released = false →
    (p.dropSrcs l).released = false ∧ (p.dropSrcs l).kind = p.kind ∧ PoolInv (p.dropSrcs l) c0 h0 ls0 lh0
  | [], p, c0, h0, ls0, lh0, h, hr => by
    refine ⟨hr, rfl, ?_⟩
    simpa [Pool.dropSrcs] using h
  | s :: rest, p, c0, h0, ls0, lh0, h, hr => by
    have h1 := PoolInv.dropSrc s p (fun a => c0 a + (rest.flatMap Src.selIds).count a)
      (fun a => h0 a + (rest.flatMap Src.opIds).count a)
      (ls0 + (rest.flatMap Src.selIds).length) (lh0 + (rest.flatMap Src.opIds).length)
      (h.congr
        (by intro a; simp only [List.flatMap_cons, List.count_append]; omega)
        (by intro a; simp only [List.flatMap_cons, List.count_append]; omega)
        (by simp only [List.flatMap_cons, List.length_append]; omega)
        (by simp only [List.flatMap_cons, List.length_append]; omega)) hr
    have h2 := PoolInv.dropSrcs rest (p.dropSrc s) c0 h0 ls0 lh0 h1.2.2 h1.1
    exact ⟨h2.1, by show ((p.dropSrc s).dropSrcs rest).kind = p.kind; rw [h2.2.1, h1.2.1], h2.2.2⟩

theorem Inv.evRelease {w : World} (h : Inv w) : Inv (evRelease w).1 := by
  unfold Pool.evRelease
  split
  · exact h
  · rename_i hr
    have hr : w.pool.released = false := by simpa using hr
    have h1 := PoolInv.dropSrcs w.srcs w.pool (fun _ => 0) (fun a => w.handles.count a) 0 w.handles.length
      (h.1.congr
        (by intro a; simp [World.cs, World.selIds])
        (by intro a; simp only [World.ch, World.opIds]; omega)
        (by simp [World.selIds])
        (by simp only [World.opIds]; omega)) hr
    have h2 := h1.2.2.release h1.1
    refine ⟨h2.congr ?_ ?_ ?_ ?_, h.2.1, fun _ => rfl⟩
    · intro a; simp [World.cs, World.selIds]
    · intro a; simp [World.ch, World.opIds]
    · simp [World.selIds]
    · simp [World.opIds]


theorem Inv.spinOnce {w : World} (h : Inv w) (i : Nat) : Inv (spinOnce w i).1 := by
  unfold Pool.spinOnce
  simp only
  have h3 := ((h.evWrite i 1).evRead i 1 0).evAwait i
  generalize Pool.evAwait (Pool.evRead (Pool.evWrite w i 1).1 i 1 0).1 i = r at h3 ⊢
  obtain ⟨w3, o⟩ := r
  cases o <;> first | exact h3 | exact h3.evDrop _

theorem Inv.spinN (i : Nat) : ∀ (k : Nat) {w : World}, Inv w → Inv (spinN i k w)
  | 0, w, h => h
  | k + 1, w, h => by
    unfold Pool.spinN
    have h1 := h.spinOnce i
    generalize Pool.spinOnce w i = r at h1 ⊢
    obtain ⟨w', b⟩ := r
    cases b
    · exact h1
    · exact Inv.spinN i k h1

theorem Inv.evSpin {w : World} (h : Inv w) (i k : Nat) : Inv (evSpin w i k).1 := by
  unfold Pool.evSpin
  split
  · exact h
  · split
    · exact h
    · exact h.spinN i k

theorem Inv.evWCancel {w : World} (h : Inv w) (i k : Nat) : Inv (evWCancel w i k).1 := by
  unfold Pool.evWCancel
  split
  · exact h
  · split
    · exact h
    · split
      · have h1 := h.evWrite i k
        generalize Pool.evWrite w i k = r at h1 ⊢
        obtain ⟨w1, o⟩ := r
        cases o <;> first | exact h | exact h1.evCancel i
      · split
        · exact h
        · exact (h.evCancel i).evWrite i k

theorem Inv.evWDstream {w : World} (h : Inv w) (i k : Nat) : Inv (evWDstream w i k).1 := by
  unfold Pool.evWDstream
  split
  · exact h
  · split
    · exact h
    · split
      · have h1 := h.evWrite i k
        generalize Pool.evWrite w i k = r at h1 ⊢
        obtain ⟨w1, o⟩ := r
        cases o <;> first | exact h | exact h1.evDstream i
      · split
        · exact h
        · exact (h.evDstream i).evWrite i k

theorem Inv.evTCancel {w : World} (h : Inv w) (i : Nat) : Inv (evTCancel w i).1 := by
  unfold Pool.evTCancel
  split
  · exact h
  · rename_i s hv
    obtain ⟨hr, hget⟩ := validSrc_some hv
    split
    · exact h
    · rename_i f hf
      split
      · exact h
      · exact ((h.live hr).setFutCtl i s { s with fut := some { f with done := some (.cancelled, false) } } f
          { f with done := some (.cancelled, false) } hget hf rfl rfl rfl).1

theorem Inv.evNextW {w : World} (h : Inv w) (i : Nat) : Inv (evNextW w i).1 := by
  unfold Pool.evNextW
  have h1 := h.evNext i
  generalize Pool.evNext w i = r at h1 ⊢
  obtain ⟨w1, o⟩ := r
  cases o <;> first | exact h1 | exact h1.evNext i

/-- events that only use the pool through the managed ops, the stream adapter, handles and `pop`;
    the raw `BufferPool::take(id)` / `reset(id)` with an arbitrary id are excluded (observation C07a) -/
def Ev.safe : Ev → Bool
  | .take _ => false
  | .reset _ => false
  | _ => true

theorem Inv.step {w : World} (h : Inv w) (e : Ev) (hs : e.safe = true) : Inv (step w e).1 := by
  unfold Pool.step
  rw [if_neg (by rw [h.2.1]; simp)]
  cases e with
  | src kind size => exact h.evSrc kind size
  | write i k => exact h.evWrite i k
  | close i => exact h.evClose i
  | read i len pos => exact h.evRead i len pos
  | await i => exact h.evAwait i
  | cancel i => exact h.evCancel i
  | «open» i len => exact h.evOpen i len
  | next i => exact h.evNext i
  | dstream i => exact h.evDstream i
  | drop id => exact h.evDrop id
  | dropn k => exact h.evDropN k
  | pop => exact h.evPop
  | take id => simp [Ev.safe] at hs
  | reset id => simp [Ev.safe] at hs
  | release => exact h.evRelease
  | spin i k => exact h.evSpin i k
  | wcancel i k => exact h.evWCancel i k
  | wdstream i k => exact h.evWDstream i k
  | nextw i => exact h.evNextW i
  | tcancel i => exact h.evTCancel i

theorem Inv.run : ∀ (evs : List Ev) {w : World}, Inv w → (∀ e ∈ evs, e.safe = true) → Inv (run w evs)
  | [], w, h, _ => h
  | e :: rest, w, h, hs => by
    unfold Pool.run
    exact Inv.run rest (h.step e (hs e (by simp))) (fun e' he' => hs e' (by simp [he']))

theorem count_range (n a : Nat) : (List.range n).count a = if a < n then 1 else 0 := by
  induction n with
  | zero => simp
  | succ n ih =>
    rw [List.range_succ, List.count_append, ih, count_singleton_ind]
    by_cases h1 : a < n
    · rw [if_pos h1, if_pos (by omega), ind_ne (by omega)]
    · by_cases h2 : a = n
      · subst h2; rw [if_neg (by omega), ind_self, if_pos (by omega)]
      · rw [if_neg h1, ind_ne h2, if_neg (by omega)]

/-- `BufControl::new`: the loop of `add_buffer(id, .., id)` on a fresh (zeroed) ring -/
theorem addAll_spec : ∀ (l : List Nat) (p : Pool), p.tail = 0 → p.entries.length = p.n → (∀ id ∈ l, id < p.n) →
    p.n ≤ 65536 →
    (p.addAll l).entries.length = p.n ∧
    (∀ j, j < p.n → (p.addAll l).entries[j]? = if j ∈ l then some j else p.entries[j]?) ∧
    (p.addAll l).fault = p.fault ∧ (p.addAll l).kind = p.kind ∧ (p.addAll l).n = p.n ∧
    (p.addAll l).slots = p.slots ∧ (p.addAll l).queue = p.queue ∧ (p.addAll l).tail = 0 ∧
    (p.addAll l).head = p.head ∧ (p.addAll l).released = p.released ∧ (p.addAll l).freed = p.freed ∧
    (p.addAll l).resets = p.resets
  | [], p, ht, hl, _, _ => by simp [Pool.addAll, hl, ht]
  | id :: rest, p, ht, hl, hlt, hn => by
    have hid : id < p.n := hlt id (by simp)
    have hidx : ringIdx p.tail16 id p.n = id := by
      simp [ringIdx, Pool.tail16, ht, Nat.mod_eq_of_lt hid]
    have hnf : decide (65536 ≤ p.tail16 + id) = false := by
      simp [Pool.tail16, ht]; omega
    obtain ⟨h1, h2, h3, h4, h5, h6, h7, h8, h9, h10, h11, h12⟩ := addAll_spec rest (p.addBuffer id id) ht
      (by simp [Pool.addBuffer, hl]) (fun x hx => hlt x (by simp [hx])) hn
    simp only [Pool.addAll]
    refine ⟨h1, ?_, ?_, h4, h5, h6, h7, h8, h9, h10, h11, h12⟩
    · intro j hj
      rw [h2 j hj]
      by_cases hjr : j ∈ rest
      · simp [hjr]
      · rw [if_neg hjr]
        simp only [Pool.addBuffer, hidx, List.getElem?_set, List.mem_cons, hjr, or_false]
        by_cases hij : id = j
        · subst hij; simp [hl, hid]
        · rw [if_neg hij, if_neg (fun e => hij e.symm)]
    · rw [h3]; simp [Pool.addBuffer, hnf]

theorem Pool.new_inv {kind : PKind} {nb : Nat} {p : Pool} (h : Pool.new kind nb = some p) :
    PoolInv p (fun _ => 0) (fun _ => 0) 0 0 ∧ p.released = false ∧ p.kind = kind ∧
    p.freeIds = List.range p.n ∧ nb ≤ p.n ∧ p.resets = 0 := by
  unfold Pool.new at h
  by_cases hc : nb = 0 ∨ 32768 < nb
  · rw [if_pos hc] at h; cases h
  · rw [if_neg hc] at h
    obtain ⟨j, hj, hpow, hle⟩ := nextPow2_pow nb (by omega)
    have hnpos : 0 < nextPow2 nb := by rw [hpow]; exact Nat.pow_pos (by omega)
    have hn32 : nextPow2 nb ≤ 32768 := pow_le_32768 hj hpow
    cases kind with
    | fb =>
      simp only [Option.some.injEq] at h
      subst h
      refine ⟨⟨⟨hnpos, ⟨j, hj, hpow⟩, ?_, ?_, Nat.le_refl _, rfl, ?_, ?_, ?_⟩, ?_, ?_, ?_, ?_⟩, rfl, rfl, rfl, by rw [hpow]; exact hle, rfl⟩
      · intro _; simp
      · intro h'; cases h'
      · intro h'; cases h'
      · intro _; rfl
      · intro h'; cases h'
      · intro a; simp [Pool.freeIds, count_range]
      · intro _; simp [Pool.freeIds]
      · intro _ a ha
        have ha : a < nextPow2 nb := ha
        simp [Pool.freeIds, count_range, ha]
      · intro h'; cases h'
    | ring =>
      simp only [Option.some.injEq] at h
      subst h
      let p0 : Pool :=
        { kind := .ring, n := nextPow2 nb, slots := (List.range (nextPow2 nb)).map some, queue := [],
          entries := List.replicate (nextPow2 nb) 0, tail := 0, head := 0, released := false, freed := [],
          resets := 0, fault := false }
      obtain ⟨h1, h2, h3, h4, h5, h6, h7, h8, h9, h10, h11, h12⟩ := addAll_spec (List.range (nextPow2 nb)) p0 rfl
        (by simp [p0]) (by intro x hx; simpa [p0] using hx) (by show nextPow2 nb ≤ 65536; omega)
      have hwin : ((p0.addAll (List.range (nextPow2 nb))).commit (nextPow2 nb)).window = List.range (nextPow2 nb) := by
        simp only [Pool.window, Pool.commit, h8, h9, h5]
        show (List.range (0 + nextPow2 nb - 0)).map _ = _
        rw [show 0 + nextPow2 nb - 0 = nextPow2 nb by omega]
        conv => rhs; rw [← List.map_id (List.range (nextPow2 nb))]
        apply List.map_congr_left
        intro x hx
        have hx : x < nextPow2 nb := by simpa using hx
        have hx' : (0 + x) % 65536 % nextPow2 nb = x := by
          rw [Nat.zero_add, Nat.mod_eq_of_lt (show x < 65536 by omega), Nat.mod_eq_of_lt hx]
        rw [hx', List.getD_eq_getElem?_getD, h2 x hx]
        simp [hx]
      have hfree : ((p0.addAll (List.range (nextPow2 nb))).commit (nextPow2 nb)).freeIds = List.range (nextPow2 nb) := by
        simp only [Pool.freeIds, Pool.commit, h10, h4]
        exact hwin
      refine ⟨⟨⟨?_, ?_, ?_, ?_, ?_, ?_, ?_, ?_, ?_⟩, ?_, ?_, ?_, ?_⟩, ?_, ?_, ?_, ?_, ?_⟩
      · show 0 < (p0.addAll _).n; rw [h5]; exact hnpos
      · show ∃ j, j ≤ 15 ∧ (p0.addAll _).n = 2 ^ j; rw [h5]; exact ⟨j, hj, hpow⟩
      · intro _; show (p0.addAll _).slots.length = (p0.addAll _).n; rw [h6, h5]; simp [p0]
      · intro _; show (p0.addAll _).entries.length = (p0.addAll _).n; rw [h1, h5]
      · show (p0.addAll _).head ≤ (p0.addAll _).tail + _; rw [h9]; simp [p0]
      · show (p0.addAll _).fault = false; rw [h3]
      · intro h'; have : (p0.addAll (List.range (nextPow2 nb))).released = true := h'; rw [h10] at this; cases this
      · intro _; show (p0.addAll _).freed = []; rw [h11]
      · intro _; show (p0.addAll _).tail + _ = (p0.addAll _).n + (p0.addAll _).resets; rw [h8, h5, h12]; simp [p0]
      · intro a
        rw [hfree, count_range]
        show _ + 0 + 0 + (p0.addAll _).freed.count a = if a < (p0.addAll _).n then 1 else 0
        rw [h11, h5]; simp [p0]
      · intro _
        rw [hfree]
        show _ + 0 + 0 = (p0.addAll _).n
        rw [h5]; simp [p0]
      · intro _ a ha
        have ha : a < (p0.addAll (List.range (nextPow2 nb))).n := ha
        rw [h5] at ha
        have ha : a < nextPow2 nb := ha
        rw [hfree, count_range]
        show (p0.addAll _).slots[a]? = _
        rw [h6]
        simp [p0, ha]
      · intro h'; have : (p0.addAll (List.range (nextPow2 nb))).released = true := h'; rw [h10] at this; cases this
      · show (p0.addAll _).released = false; rw [h10]
      · show (p0.addAll _).kind = .ring; rw [h4]
      · rw [hfree]; show _ = List.range (p0.addAll _).n; rw [h5]
      · show nb ≤ (p0.addAll _).n; rw [h5]; show nb ≤ nextPow2 nb; rw [hpow]; exact hle
      · show (p0.addAll _).resets = 0; rw [h12]

theorem World.init_inv {kind : PKind} {nb len : Nat} {w : World} (h : World.init kind nb len = some w) :
    Inv w ∧ w.pool.kind = kind ∧ nb ≤ w.pool.n := by
  unfold World.init at h
  cases hp : Pool.new kind nb with
  | none => rw [hp] at h; cases h
  | some p =>
    rw [hp] at h
    simp only [Option.map_some, Option.some.injEq] at h
    subst h
    obtain ⟨h1, h2, h3, h4, h5, _⟩ := Pool.new_inv hp
    refine ⟨⟨h1.congr ?_ ?_ ?_ ?_, rfl, ?_⟩, h3, h5⟩
    · intro a; simp [World.cs, World.selIds]
    · intro a; simp [World.ch, World.opIds]
    · simp [World.selIds]
    · simp [World.opIds]
    · intro hr; have : p.released = true := hr; rw [h2] at this


end Compio.Pool
