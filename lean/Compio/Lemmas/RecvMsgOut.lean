/- helper lemmas for Model/RecvMsgOut.lean (C14: `io_uring_recvmsg_out` parsing) -/
import Compio.Model.RecvMsgOut

namespace Compio.RecvMsgOut

theorem leBytes4_length (v : Nat) : (leBytes4 v).length = 4 := rfl

theorem u8_ofNat_toNat (n : Nat) (h : n < 256) : (UInt8.ofNat n).toNat = n := by
  simp [UInt8.toNat_ofNat']; omega

/-- reading back a little-endian u32 that starts a buffer -/
theorem leU32_leBytes4 (v : Nat) (rest : Bytes) (h : v < 2 ^ 32) : leU32 (leBytes4 v ++ rest) 0 = v := by
  simp only [leU32, leBytes4, List.cons_append, List.nil_append, List.getD_cons_zero, List.getD_cons_succ]
  rw [u8_ofNat_toNat _ (by omega), u8_ofNat_toNat _ (by omega), u8_ofNat_toNat _ (by omega),
    u8_ofNat_toNat _ (by omega)]
  omega

/-- `leU32` only looks at the four bytes at its offset -/
theorem leU32_skip (pre rest : Bytes) (off : Nat) (h : pre.length = off) :
    leU32 (pre ++ rest) off = leU32 rest 0 := by
  subst h
  simp [leU32, List.getD_eq_getElem?_getD, List.getElem?_append_right]

theorem pad_length (bs : Bytes) (n : Nat) (h : bs.length ≤ n) : (pad bs n).length = n := by
  simp [pad]; omega


theorem readHdr_layout (name ctl payload : Bytes) (flags clen : Nat)
    (h1 : name.length < 2 ^ 32) (h2 : ctl.length < 2 ^ 32) (h3 : payload.length < 2 ^ 32)
    (h4 : flags < 2 ^ 32) :
    readHdr (layout name ctl payload flags clen) = ⟨name.length, ctl.length, payload.length, flags⟩ := by
  unfold readHdr layout
  simp only [List.append_assoc]
  have e0 : ∀ (a : Nat) (r : Bytes), a < 2 ^ 32 → leU32 (leBytes4 a ++ r) 0 = a :=
    fun a r h => leU32_leBytes4 a r h
  have e4 : ∀ (a b : Nat) (r : Bytes), b < 2 ^ 32 → leU32 (leBytes4 a ++ (leBytes4 b ++ r)) 4 = b := by
    intro a b r h
    rw [leU32_skip (leBytes4 a) _ 4 rfl]; exact leU32_leBytes4 b r h
  have e8 : ∀ (a b c : Nat) (r : Bytes), c < 2 ^ 32 →
      leU32 (leBytes4 a ++ (leBytes4 b ++ (leBytes4 c ++ r))) 8 = c := by
    intro a b c r h
    rw [← List.append_assoc, leU32_skip (leBytes4 a ++ leBytes4 b) _ 8 rfl]; exact leU32_leBytes4 c r h
  have e12 : ∀ (a b c d : Nat) (r : Bytes), d < 2 ^ 32 →
      leU32 (leBytes4 a ++ (leBytes4 b ++ (leBytes4 c ++ (leBytes4 d ++ r)))) 12 = d := by
    intro a b c d r h
    rw [← List.append_assoc, ← List.append_assoc,
      leU32_skip (leBytes4 a ++ leBytes4 b ++ leBytes4 c) _ 12 rfl]
    exact leU32_leBytes4 d r h
  rw [e0 _ _ h1, e4 _ _ _ h2, e8 _ _ _ _ h3, e12 _ _ _ _ _ h4]

theorem layout_length (name ctl payload : Bytes) (flags clen : Nat)
    (hn : name.length ≤ NLEN) (hc : ctl.length ≤ clen) :
    (layout name ctl payload flags clen).length = HDR + NLEN + clen + payload.length := by
  unfold layout
  simp [pad_length _ _ hn, pad_length _ _ hc, HDR, leBytes4]
  omega

theorem layout_drop_hdr (name ctl payload : Bytes) (flags clen : Nat) :
    (layout name ctl payload flags clen).drop HDR = pad name NLEN ++ pad ctl clen ++ payload := by
  unfold layout
  simp only [List.append_assoc]
  have : HDR = (leBytes4 name.length ++ (leBytes4 ctl.length ++ (leBytes4 payload.length ++ leBytes4 flags))).length := rfl
  rw [← List.append_assoc (leBytes4 payload.length), ← List.append_assoc (leBytes4 ctl.length),
    ← List.append_assoc (leBytes4 name.length), this, List.drop_left]

end Compio.RecvMsgOut
