/-
Specification of one poll of the `handshake` async fn of compio-tls's native-tls back-end
(`TlsShim.pollHandshake`) over the plain scheduled transport.
-/
import Compio.Lemmas.TlsShim

namespace Compio.TlsShim
open Compio.TlsNet

/-- between two polls, with the handshake future in state `fut` -/
structure Rest (sc : Sched) (p : Peer) (b' : Nat) (fut : HsFut) (o : Ossl) (v : View) : Prop where
  loc : Local sc o v
  ctx : o.ctx = false
  link : ∃ a b a', Link o v p a b a' b'
  phase : match fut with
    | .start => Hs o v
    | .mid => Hs o v
    | .flush => o.handshaken = true ∧ o.tape = [] ∧ o.post = 0 ∧ v.tp.hsDone = false
    | .done => o.tape = [] ∧ o.post = 0 ∧ v.tp.wbuf.toList = []
    | .failed => False

def rank : HsFut → Nat
  | .start => 3
  | .mid => 2
  | .flush => 1
  | .done => 0
  | .failed => 0

/-- the endpoint's share of the progress measure -/
def Spot (sc : Sched) (fut : HsFut) (o : Ossl) (v : View) : Nat := S0 sc o v + 4 * K sc * rank fut

theorem ossl_ctx_roundtrip (o : Ossl) (h : o.ctx = false) : { { o with ctx := true } with ctx := false } = o := by
  cases o; simp_all

theorem S0_ctx (sc : Sched) (o : Ossl) (v : View) (c : Bool) : S0 sc { o with ctx := c } v = S0 sc o v := rfl

/-- what one poll of the handshake future leaves behind -/
structure PollPost (sc : Sched) (p : Peer) (b' : Nat) (fut : HsFut) (o : Ossl) (v : View)
    (fut' : HsFut) (o' : Ossl) (v' : View) (r : PollR Unit) : Prop where
  rest : Rest sc p b' fut' o' v'
  me : o'.me = o.me
  mono : Mono v v'
  meas : o'.tape.length + o'.post ≤ o.tape.length + o.post
  first : fut = .start → Spot sc fut' o' v' + K sc + 1 ≤ Spot sc fut o v
  nostart : fut' ≠ .start
  res : match r with
    | .pending .self => v'.own = true ∧ Spot sc fut' o' v' + 1 ≤ Spot sc fut o v ∧ fut' ≠ .done
    | .pending .reg => fut' = .mid ∧ (fut = .start ∨ v'.own = v.own) ∧ Spot sc fut' o' v' ≤ Spot sc fut o v + sc.dr ∧
        v'.rx.q.toList = [] ∧ v'.rx.rwait = true ∧ v'.tp.wbuf.toList = [] ∧ ∃ t, o'.tape = o.me.other :: t
    | .ready () => fut' = .done ∧ Spot sc fut' o' v' + sc.df + 1 ≤ Spot sc fut o v ∧ v'.tp.hsDone = false ∧
        v'.tp.cf = 0
    | .err => False
    | .panic => False

/-- the post-handshake `stream.flush().await` -/
theorem pollFlush_phase {sc : Sched} {p : Peer} {b' : Nat} {o : Ossl} {v : View}
    (hl : Local sc o v) (hc : o.ctx = false) (hk : ∃ a b a', Link o v p a b a' b')
    (hh : o.handshaken = true) (ht : o.tape = []) (hp : o.post = 0) (he : v.tp.hsDone = false) :
    (∃ v', pollFlush sc o v = (o, v', .pending .self) ∧ Rest sc p b' .flush o v' ∧ Mono v v' ∧ v'.own = true ∧
        S0 sc o v' + 1 ≤ S0 sc o v) ∨
    (∃ v', pollFlush sc o v = (o, v', .ready ()) ∧ Rest sc p b' .done o v' ∧ Mono v v' ∧
        S0 sc o v' ≤ S0 sc o v + sc.dfh + K sc ∧ v'.tp.hsDone = false ∧ v'.tp.cf = 0) := by
  have hrt := ossl_ctx_roundtrip o hc
  obtain ⟨a, b, a', hk⟩ := hk
  rcases ioFlush_hs sc o v hl he with
    ⟨hlt, heq⟩ | ⟨v1, heq, hcfd, htx, hwb, hwbl, hrx, hown, hclosed, hcr, hcw, hcf, hhd, hwr⟩
  · left
    refine ⟨{ v with tp := { v.tp with cf := v.tp.cf + 1 }, own := true }, ?_,
      ⟨⟨hl.lim, hl.direct, ?_, hl.open_tx, hl.open_rx, hl.clean, hl.nobuf⟩, hc,
      ⟨a, b, a', ⟨hk.tx, hk.txp, hk.rx, hk.rxp, hk.align⟩⟩, ⟨hh, ht, hp, he⟩⟩,
      ⟨WakeRel.of_eq rfl rfl, fun _ => rfl⟩, rfl, ?_⟩
    · simp [pollFlush, withContext, bioFlush, hh, heq]
      cases o; simp_all
    · obtain ⟨h1, h2, h3⟩ := hl.ctrok
      refine ⟨h1, h2, ?_⟩
      simp only [flushDelay, he] at h3 ⊢; simp; omega
    · have ⟨_, _, h3⟩ := hl.ctrok
      simp only [flushDelay, he] at h3
      simp only [S0, mainPot, ctr, flushDelay, he]
      simp
      omega
  · right
    refine ⟨v1, ?_, ⟨⟨hl.lim, hl.direct, ?_, by rw [hclosed]; exact hl.open_tx, by rw [hrx]; exact hl.open_rx,
        hl.clean, fun _ => hwb⟩, hc,
      ⟨a, b, a', ⟨by rw [htx]; exact hk.tx, hk.txp, by simp only [View.rxs, hrx]; exact hk.rx, hk.rxp, hk.align⟩⟩,
      ⟨ht, hp, hwb⟩⟩, ⟨hwr, fun h => by rw [hown]; exact h⟩, ?_, by rw [hhd]; exact he, hcf⟩
    · simp [pollFlush, withContext, bioFlush, hh, heq]
      cases o; simp_all
    · obtain ⟨h1, h2, h3⟩ := hl.ctrok
      exact ⟨by rw [hcr]; exact h1, by rw [hcw]; exact h2, by rw [hcf]; omega⟩
    · have hmp : mainPot o v1 ≤ mainPot o v := by simp only [mainPot, hwbl]; omega
      have hmul := Nat.mul_le_mul_left (2 * K sc) hmp
      have := b2n_le v1.wake
      have hkk : K sc * b2n v1.wake ≤ K sc := by
        have := Nat.mul_le_mul_left (K sc) this; simpa using this
      simp only [S0, ctr, flushDelay, hhd, he, hcr, hcw, hcf, hcfd]
      simp
      omega

/-- `MidHandshake::poll` followed by `finish_handshake` and the flush -/
def midBody (sc : Sched) (o : Ossl) (v : View) : HsFut × Ossl × View × PollR Unit :=
  match sslDoHandshake sc sc.fuel { o with ctx := true } v with
  | (o, v, .wouldBlock p) => (.mid, { o with ctx := false }, v, .pending p)
  | (o, v, .err) => (.failed, { o with ctx := false }, v, .err)
  | (o, v, .panic) => (.failed, { o with ctx := false }, v, .panic)
  | (o, v, .ok ()) =>
    let o := { o with ctx := false, handshaken := true }
    match pollFlush sc o v with
    | (o, v, .ready ()) => (.done, o, v, .ready ())
    | (o, v, .pending p) => (.flush, o, v, .pending p)
    | (o, v, .err) => (.failed, o, v, .err)
    | (o, v, .panic) => (.failed, o, v, .panic)

theorem pollHandshake_mid (sc : Sched) (o : Ossl) (v : View) : pollHandshake sc .mid o v = midBody sc o v := rfl

theorem pollHandshake_start (sc : Sched) (o : Ossl) (v : View) : pollHandshake sc .start o v =
    (match sslDoHandshake sc sc.fuel { o with ctx := true } v with
      | (o, v, .ok ()) => (.done, { o with ctx := false }, v, .ready ())
      | (o, v, .wouldBlock _) => midBody sc { o with ctx := false } v
      | (o, v, .err) => (.failed, { o with ctx := false }, v, .err)
      | (o, v, .panic) => (.failed, { o with ctx := false }, v, .panic)) := rfl

theorem K4 (sc : Sched) (n : Nat) : 4 * K sc * (n + 1) = 4 * K sc * n + 4 * K sc := by
  rw [Nat.mul_add]; omega

/-- one poll in state `mid` -/
theorem poll_mid_spec {sc : Sched} {p : Peer} {b' : Nat} {o : Ossl} {v : View}
    (hr : Rest sc p b' .mid o v) (hfuel : o.tape.length + o.post < sc.fuel) :
    PollPost sc p b' .mid o v (midBody sc o v).1 (midBody sc o v).2.1 (midBody sc o v).2.2.1
      (midBody sc o v).2.2.2 := by
  obtain ⟨hl, hc, hk, hph⟩ := hr
  have hhs : Hs o v := hph
  have hg : Good sc p b' { o with ctx := true } v :=
    ⟨⟨hl.lim, hl.direct, hl.ctrok, hl.open_tx, hl.open_rx, hl.clean, hl.nobuf⟩,
     ⟨hhs.nohs, hhs.early, hhs.flushed⟩, rfl, by
       obtain ⟨a, b, a', hk⟩ := hk
       exact ⟨a, b, a', ⟨hk.tx, hk.txp, hk.rx, hk.rxp, hk.align⟩⟩⟩
  have hspec := doHs_spec sc p b' sc.fuel { o with ctx := true } v hg hfuel
  generalize hres : sslDoHandshake sc sc.fuel { o with ctx := true } v = res at hspec
  obtain ⟨o1, v1, r⟩ := res
  obtain ⟨⟨hl1, hh1, hc1, hk1⟩, hme, hmono, hmeas, hres1⟩ := hspec
  simp only at hl1 hh1 hc1 hk1 hme hmono hmeas hres1
  have hloc1 : Local sc { o1 with ctx := false } v1 :=
    ⟨hl1.lim, hl1.direct, hl1.ctrok, hl1.open_tx, hl1.open_rx, hl1.clean, hl1.nobuf⟩
  have hlink1 : ∃ a b a', Link { o1 with ctx := false } v1 p a b a' b' := by
    obtain ⟨a, b, a', hk⟩ := hk1
    exact ⟨a, b, a', ⟨hk.tx, hk.txp, hk.rx, hk.rxp, hk.align⟩⟩
  have hrest1 : Rest sc p b' .mid { o1 with ctx := false } v1 :=
    ⟨hloc1, rfl, hlink1, ⟨hh1.nohs, hh1.early, hh1.flushed⟩⟩
  cases r with
  | wouldBlock pd =>
    simp only [midBody, hres]
    refine ⟨hrest1, hme, hmono, hmeas, by simp, by simp, ?_⟩
    cases pd with
    | self =>
      simp only at hres1 ⊢
      exact ⟨hres1.2, by simp only [Spot, S0_ctx] at *; omega, by simp⟩
    | reg =>
      simp only at hres1
      obtain ⟨h1, h2, h3, h4, h5, t, h6⟩ := hres1
      exact ⟨rfl, Or.inr h2, by simp only [Spot, S0_ctx] at *; omega, h3, h4, h5, t, h6⟩
  | err => exact absurd hres1 id
  | panic => exact absurd hres1 id
  | ok u =>
    cases u
    simp only at hres1
    obtain ⟨ht1, hp1, hS1, hown1⟩ := hres1
    -- finish_handshake, then the flush
    have hl2 : Local sc { o1 with ctx := false, handshaken := true } v1 :=
      ⟨hl1.lim, hl1.direct, hl1.ctrok, hl1.open_tx, hl1.open_rx, hl1.clean, hl1.nobuf⟩
    have hk2 : ∃ a b a', Link { o1 with ctx := false, handshaken := true } v1 p a b a' b' := by
      obtain ⟨a, b, a', hk⟩ := hk1
      exact ⟨a, b, a', ⟨hk.tx, hk.txp, hk.rx, hk.rxp, hk.align⟩⟩
    have hS2 : S0 sc { o1 with ctx := false, handshaken := true } v1 = S0 sc o1 v1 := rfl
    rcases pollFlush_phase (p := p) (b' := b') hl2 rfl hk2 rfl ht1 hp1 hh1.early with
      ⟨v2, heq, hrest2, hmono2, hown2, hS⟩ | ⟨v2, heq, hrest2, hmono2, hS, hhd2, hcf2⟩
    · simp only [midBody, hres, heq]
      refine ⟨hrest2, hme, hmono.trans hmono2, by simp [ht1, hp1], by simp, by simp, ?_⟩
      refine ⟨hown2, ?_, by simp⟩
      simp only [Spot, rank, S0_ctx] at *
      have := K4 sc 1
      omega
    · simp only [midBody, hres, heq]
      refine ⟨hrest2, hme, hmono.trans hmono2, by simp [ht1, hp1], by simp, by simp, ?_⟩
      refine ⟨rfl, ?_, hhd2, hcf2⟩
      simp only [Spot, rank, S0_ctx] at *
      have h4 := K4 sc 1
      have : sc.dfh + sc.df < K sc := by unfold K; omega
      omega

theorem pollHandshake_flush (sc : Sched) (o : Ossl) (v : View) : pollHandshake sc .flush o v =
    (match pollFlush sc o v with
      | (o, v, .ready ()) => (.done, o, v, .ready ())
      | (o, v, .pending p) => (.flush, o, v, .pending p)
      | (o, v, .err) => (.failed, o, v, .err)
      | (o, v, .panic) => (.failed, o, v, .panic)) := rfl

/-- one poll in state `flush` (the post-handshake flush was left `Pending`) -/
theorem poll_flush_spec {sc : Sched} {p : Peer} {b' : Nat} {o : Ossl} {v : View}
    (hr : Rest sc p b' .flush o v) :
    PollPost sc p b' .flush o v (pollHandshake sc .flush o v).1 (pollHandshake sc .flush o v).2.1
      (pollHandshake sc .flush o v).2.2.1 (pollHandshake sc .flush o v).2.2.2 := by
  obtain ⟨hl, hc, hk, hh, ht, hp, he⟩ := hr
  rw [pollHandshake_flush]
  rcases pollFlush_phase (p := p) (b' := b') hl hc hk hh ht hp he with
    ⟨v2, heq, hrest2, hmono2, hown2, hS⟩ | ⟨v2, heq, hrest2, hmono2, hS, hhd2, hcf2⟩
  · simp only [heq]
    refine ⟨hrest2, rfl, hmono2, Nat.le_refl _, by simp, by simp, ?_⟩
    refine ⟨hown2, ?_, by simp⟩
    simp only [Spot]; omega
  · simp only [heq]
    refine ⟨hrest2, rfl, hmono2, Nat.le_refl _, by simp, by simp, ?_⟩
    refine ⟨rfl, ?_, hhd2, hcf2⟩
    simp only [Spot, rank]
    have h4 := K4 sc 0
    have : sc.dfh + sc.df < K sc := by unfold K; omega
    omega

/-- one poll in state `start`, provided the engine cannot finish inside this first call (otherwise the
`StartedHandshake::Done` arm returns the stream unflushed, see `Cex.C15.done_path_unflushed`) -/
theorem poll_start_spec {sc : Sched} {p : Peer} {b' : Nat} {o : Ossl} {v : View}
    (hr : Rest sc p b' .start o v) (hfuel : o.tape.length + o.post < sc.fuel)
    (hnd : (sslDoHandshake sc sc.fuel { o with ctx := true } v).2.2 ≠ .ok ()) :
    PollPost sc p b' .start o v (pollHandshake sc .start o v).1 (pollHandshake sc .start o v).2.1
      (pollHandshake sc .start o v).2.2.1 (pollHandshake sc .start o v).2.2.2 := by
  obtain ⟨hl, hc, hk, hph⟩ := hr
  have hhs : Hs o v := hph
  have hg : Good sc p b' { o with ctx := true } v :=
    ⟨⟨hl.lim, hl.direct, hl.ctrok, hl.open_tx, hl.open_rx, hl.clean, hl.nobuf⟩,
     ⟨hhs.nohs, hhs.early, hhs.flushed⟩, rfl, by
       obtain ⟨a, b, a', hk⟩ := hk
       exact ⟨a, b, a', ⟨hk.tx, hk.txp, hk.rx, hk.rxp, hk.align⟩⟩⟩
  have hspec := doHs_spec sc p b' sc.fuel { o with ctx := true } v hg hfuel
  rw [pollHandshake_start]
  generalize hres : sslDoHandshake sc sc.fuel { o with ctx := true } v = res at hspec hnd
  obtain ⟨o1, v1, r⟩ := res
  obtain ⟨⟨hl1, hh1, hc1, hk1⟩, hme, hmono, hmeas, hres1⟩ := hspec
  simp only at hl1 hh1 hc1 hk1 hme hmono hmeas hres1 hnd
  have hloc1 : Local sc { o1 with ctx := false } v1 :=
    ⟨hl1.lim, hl1.direct, hl1.ctrok, hl1.open_tx, hl1.open_rx, hl1.clean, hl1.nobuf⟩
  have hlink1 : ∃ a b a', Link { o1 with ctx := false } v1 p a b a' b' := by
    obtain ⟨a, b, a', hk⟩ := hk1
    exact ⟨a, b, a', ⟨hk.tx, hk.txp, hk.rx, hk.rxp, hk.align⟩⟩
  have hrest1 : Rest sc p b' .mid { o1 with ctx := false } v1 :=
    ⟨hloc1, rfl, hlink1, ⟨hh1.nohs, hh1.early, hh1.flushed⟩⟩
  cases r with
  | ok u => cases u; exact absurd rfl hnd
  | err => exact absurd hres1 id
  | panic => exact absurd hres1 id
  | wouldBlock pd =>
    have hS1 : S0 sc o1 v1 ≤ S0 sc o v + sc.dr := by
      cases pd with
      | self => simp only at hres1; have := hres1.1; simp only [S0_ctx] at this; omega
      | reg => simp only at hres1; have := hres1.1; simp only [S0_ctx] at this; omega
    have hmid := poll_mid_spec hrest1 (by simp only; omega)
    simp only
    generalize midBody sc { o1 with ctx := false } v1 = res2 at hmid
    obtain ⟨fut', o', v', r'⟩ := res2
    obtain ⟨hrest', hme', hmono', hmeas', _, hns', hres'⟩ := hmid
    simp only at hrest' hme' hmono' hmeas' hres' hns'
    have hdr := dr_lt_K sc
    have h43 := K4 sc 2
    have h42 := K4 sc 1
    have h41 := K4 sc 0
    have hbound : Spot sc fut' o' v' ≤ Spot sc .mid { o1 with ctx := false } v1 + sc.dr := by
      cases r' with
      | pending pd' =>
        cases pd' with
        | self => simp only at hres'; omega
        | reg => simp only at hres'; omega
      | ready u => cases u; simp only at hres'; omega
      | err => exact absurd hres' id
      | panic => exact absurd hres' id
    have hfirst : Spot sc fut' o' v' + K sc + 1 ≤ Spot sc .start o v := by
      simp only [Spot, rank, S0_ctx] at hbound ⊢
      omega
    refine ⟨hrest', hme'.trans hme, hmono.trans hmono', Nat.le_trans hmeas' hmeas, fun _ => hfirst, hns', ?_⟩
    dsimp only
    cases r' with
    | pending pd' =>
      cases pd' with
      | self =>
        simp only at hres'
        exact ⟨hres'.1, by omega, hres'.2.2⟩
      | reg =>
        simp only at hres'
        obtain ⟨h1, _, _, h4, h5, h6, t, h7⟩ := hres'
        refine ⟨h1, Or.inl rfl, by omega, h4, h5, h6, t, ?_⟩
        rw [h7, hme]
    | ready u =>
      cases u
      simp only at hres'
      refine ⟨hres'.1, ?_, hres'.2.2⟩
      have := hres'.2.1
      simp only [Spot, rank, S0_ctx] at this ⊢
      omega
    | err => exact absurd hres' id
    | panic => exact absurd hres' id

/-- **one poll of the handshake future**, whatever its state -/
theorem pollHandshake_spec {sc : Sched} {p : Peer} {b' : Nat} {fut : HsFut} {o : Ossl} {v : View}
    (hr : Rest sc p b' fut o v) (hfuel : o.tape.length + o.post < sc.fuel) (hne : fut ≠ .done)
    (hnd : fut = .start → (sslDoHandshake sc sc.fuel { o with ctx := true } v).2.2 ≠ .ok ()) :
    PollPost sc p b' fut o v (pollHandshake sc fut o v).1 (pollHandshake sc fut o v).2.1
      (pollHandshake sc fut o v).2.2.1 (pollHandshake sc fut o v).2.2.2 := by
  cases fut with
  | start => exact poll_start_spec hr hfuel (hnd rfl)
  | mid => rw [pollHandshake_mid]; exact poll_mid_spec hr hfuel
  | flush => exact poll_flush_spec hr
  | done => exact absurd rfl hne
  | failed => exact absurd hr.phase id

end Compio.TlsShim
