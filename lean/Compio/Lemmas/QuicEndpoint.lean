import Compio.Model.QuicEndpoint

namespace Compio.QuicEndpoint
open Compio.Gen.QuicEndpoint

theorem all_etables_drained_by_close : ∀ t : ETbl, t ∈ closeDrains := by
  intro t; cases t <;> decide

/-- `close` on an open endpoint: every table emptied into the wake log, flag set -/
theorem close_open (e : Ep) (h : e.closed = false) :
    (∀ t, e.close.tabs t = []) ∧ e.close.closed = true ∧ e.close.incoming = e.incoming ∧
    (∀ w t, w ∈ e.tabs t → w ∈ e.close.woken) ∧ e.close.untold = 0 ∧ e.close.told = e.told + e.untold := by
  refine ⟨?_, ?_, ?_, ?_, ?_, ?_⟩
  · intro t; cases t
    simp [Ep.close, closeBody, h, Ep.applyClose, Ep.setTab]
  · simp [Ep.close, closeBody, h, Ep.applyClose, Ep.setTab]
  · simp [Ep.close, closeBody, h, Ep.applyClose, Ep.setTab]
  · intro w t hw; cases t
    simp [Ep.close, closeBody, h, Ep.applyClose, Ep.setTab, hw]
  · simp [Ep.close, closeBody, h, Ep.applyClose, Ep.setTab]
  · simp [Ep.close, closeBody, h, Ep.applyClose, Ep.setTab]

theorem close_closed (e : Ep) (h : e.closed = true) : e.close = e := by
  simp [Ep.close, closeBody, h]

theorem close_sets_closed (e : Ep) : e.close.closed = true := by
  cases h : e.closed with
  | true => rw [close_closed e h]; exact h
  | false => exact (close_open e h).2.1

/-- the invariant: once closed, nobody is parked -/
def EInv (e : Ep) : Prop := e.closed = true → (∀ t, e.tabs t = []) ∧ e.untold = 0

theorem einv_init : EInv Ep.init := fun h => by cases h

theorem born_closed : newConnectionBornClosedWhenClosed = true := by decide

theorem applyWake_closed (e : Ep) (w : LoopWake) :
    (e.applyWake w).closed = e.closed ∧ (e.applyWake w).untold = e.untold := by
  cases w <;> exact ⟨rfl, rfl⟩

theorem applyWake_empty (e : Ep) (w : LoopWake) (h : ∀ t, e.tabs t = []) : ∀ t, (e.applyWake w).tabs t = [] := by
  intro t
  cases w with
  | wakeMin t' => simp only [Ep.applyWake, Ep.setTab]; split <;> simp [h]
  | wakeAll t' => simp only [Ep.applyWake, Ep.setTab]; split <;> simp [h]

theorem runChain_keeps (c : List (LoopCond × LoopWake)) : ∀ e : Ep,
    (e.runChain c).closed = e.closed ∧ (e.runChain c).untold = e.untold ∧
      ((∀ t, e.tabs t = []) → ∀ t, (e.runChain c).tabs t = []) := by
  induction c with
  | nil => intro e; exact ⟨rfl, rfl, fun h => h⟩
  | cons p rest ih =>
    intro e
    obtain ⟨c, w⟩ := p
    simp only [Ep.runChain]
    split
    · exact ⟨(applyWake_closed e w).1, (applyWake_closed e w).2, applyWake_empty e w⟩
    · exact ih e

theorem loopTail_keeps (e : Ep) :
    e.loopTail.closed = e.closed ∧ e.loopTail.untold = e.untold ∧
      ((∀ t, e.tabs t = []) → ∀ t, e.loopTail.tabs t = []) := by
  unfold Ep.loopTail
  generalize loopChains = cs
  induction cs generalizing e with
  | nil => exact ⟨rfl, rfl, fun h => h⟩
  | cons c rest ih =>
    rw [List.foldl_cons]
    obtain ⟨h1, h2, h3⟩ := runChain_keeps c e
    obtain ⟨i1, i2, i3⟩ := ih (e.runChain c)
    exact ⟨by rw [i1, h1], by rw [i2, h2], fun h => i3 (h3 h)⟩

theorem poll_after_close (e : Ep) (h : e.closed = true) (w : Nat) :
    e.pollIncoming .endpointStatePollIncoming w = (e, .none) := by
  simp [Ep.pollIncoming, eRegChecksClosed, h]

theorem pollIncoming_closed (e : Ep) (r : EReg) (w : Nat) : (e.pollIncoming r w).1.closed = e.closed := by
  unfold Ep.pollIncoming
  split
  · rfl
  · split <;> rfl

theorem einv_step (e : Ep) (hi : EInv e) (o : EOp) : EInv (e.step o).1 := by
  cases o with
  | poll w =>
    intro hc
    have hcl : e.closed = true := by
      have := pollIncoming_closed e .endpointStatePollIncoming w
      simp only [Ep.step] at hc
      rw [this] at hc; exact hc
    simp only [Ep.step, poll_after_close e hcl w]
    exact hi hcl
  | close =>
    intro _
    cases h : e.closed with
    | true => simp only [Ep.step]; rw [close_closed e h]; exact hi h
    | false => exact ⟨(close_open e h).1, (close_open e h).2.2.2.2.1⟩
  | datagram nc =>
    intro hc
    have key : ∀ e1 : Ep, e1.closed = e.closed → e1.tabs = e.tabs → e1.untold = e.untold →
        e1.loopTail.closed = true → (∀ t, e1.loopTail.tabs t = []) ∧ e1.loopTail.untold = 0 := by
      intro e1 h1 h2 h4 h3
      obtain ⟨k1, k2, k3⟩ := loopTail_keeps e1
      rw [k1, h1] at h3
      exact ⟨k3 (by rw [h2]; exact (hi h3).1), by rw [k2, h4]; exact (hi h3).2⟩
    simp only [Ep.step] at hc ⊢
    split at hc
    · rename_i hcond
      rw [if_pos hcond]
      exact key _ rfl rfl rfl hc
    · rename_i hcond
      rw [if_neg hcond]
      exact key _ rfl rfl rfl hc
  | newConn =>
    intro hc
    simp only [Ep.step] at hc ⊢
    split at hc
    · rename_i hcond
      rw [if_pos hcond]
      exact hi hc
    · rename_i hcond
      -- not born closed: then the endpoint is open (the regenerated flag is `true`)
      simp only [born_closed, Bool.true_and, Bool.not_eq_true] at hcond
      rw [hcond] at hc; cases hc

theorem einv_run (ops : List EOp) : ∀ e : Ep, EInv e → EInv (e.run ops) := by
  induction ops with
  | nil => intro e h; exact h
  | cons o os ih => intro e h; exact ih _ (einv_step e h o)

end Compio.QuicEndpoint
