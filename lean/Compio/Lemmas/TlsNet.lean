/-
Lemmas about the scheduled duplex of `Model/TlsNet.lean` (plain transport; `astream = false`).
-/
import Compio.Model.TlsNet

namespace Compio.TlsNet

namespace Q
variable {α : Type}

@[simp] theorem toList_empty : (Q.empty : Q α).toList = [] := rfl

@[simp] theorem toList_push (q : Q α) (xs : List α) : (q.push xs).toList = q.toList ++ xs := by
  simp [push, toList, List.append_assoc]

theorem hasLen_iff : ∀ (l : List α) (n : Nat), hasLen l n = true ↔ n ≤ l.length
  | _, 0 => by simp [hasLen]
  | [], n + 1 => by simp [hasLen]
  | _ :: l, n + 1 => by simp [hasLen, hasLen_iff l n]

theorem pop_fst (q : Q α) (n : Nat) : (q.pop n).1 = q.toList.take n := by
  unfold pop
  split
  · rename_i h
    have h' := (hasLen_iff _ _).1 h
    simp [toList, List.take_append_of_le_length h']
  · simp [toList]

theorem pop_snd (q : Q α) (n : Nat) : (q.pop n).2.toList = q.toList.drop n := by
  unfold pop
  split
  · rename_i h
    have h' := (hasLen_iff _ _).1 h
    simp [toList, List.drop_append_of_le_length h']
  · simp [toList]

theorem isEmpty_iff (q : Q α) : q.isEmpty = true ↔ q.toList = [] := by
  cases q with
  | mk f b => cases f <;> cases b <;> simp [isEmpty, toList]

theorem isEmpty_false_iff (q : Q α) : q.isEmpty = false ↔ q.toList ≠ [] := by
  have h := isEmpty_iff q
  cases hq : q.isEmpty <;> simp [hq] at h ⊢ <;> exact h

theorem length_eq (q : Q α) : q.length = q.toList.length := by
  simp [length, toList]

end Q

/-- the cells on their way from this endpoint to the peer: in the pipe, then in the endpoint's buffer -/
def View.txs (v : View) : List Cell := v.tx.q.toList ++ v.tp.wbuf.toList

def View.rxs (v : View) : List Cell := v.rx.q.toList

/-- counters never exceed the delays they count towards -/
def CtrOk (sc : Sched) (tp : Tp) : Prop :=
  tp.cr ≤ sc.dr ∧ tp.cw ≤ sc.dw ∧ tp.cf ≤ flushDelay sc tp

/-- remaining `Pending`s before the next read / write / flush call is performed -/
def ctr (sc : Sched) (tp : Tp) : Nat :=
  (sc.dr - tp.cr) + (sc.dw - tp.cw) + (flushDelay sc tp - tp.cf)

/-- the weight of one unit of real progress in the potential: more than any run of consecutive Pendings -/
def K (sc : Sched) : Nat := sc.dr + sc.dw + sc.dfh + sc.df + 1

theorem flushDelay_lt_K (sc : Sched) (tp : Tp) : flushDelay sc tp < K sc := by
  unfold flushDelay K; split <;> omega

theorem pushTx_txs (v : View) (cs : List Cell) :
    (pushTx v cs).tx.q.toList = v.tx.q.toList ++ cs := by
  unfold pushTx
  split
  · rename_i h; simp [List.isEmpty_iff] at h; simp [h]
  · simp

theorem pushTx_other (v : View) (cs : List Cell) :
    (pushTx v cs).tp = v.tp ∧ (pushTx v cs).rx = v.rx ∧ (pushTx v cs).own = v.own
    ∧ (pushTx v cs).tx.closed = v.tx.closed := by
  unfold pushTx; split <;> simp

/-- a push either finds nobody registered (nothing changes but the queue), or wakes the peer -/
theorem pushTx_wake (v : View) (cs : List Cell) :
    (cs = [] ∧ pushTx v cs = v) ∨
    (cs ≠ [] ∧ (pushTx v cs).tx.rwait = false ∧ (pushTx v cs).wake = (v.wake || v.tx.rwait)) := by
  unfold pushTx
  split
  · rename_i h; simp [List.isEmpty_iff] at h; left; simp [h]
  · rename_i h; simp [List.isEmpty_iff] at h; right; simp [h]

end Compio.TlsNet
