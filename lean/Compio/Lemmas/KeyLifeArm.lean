/-
Arming invariant of the polling driver seen from C01/C05: while the proactor is alive, what the poller watches
for a descriptor is exactly `event()` of that descriptor's queues — in particular the user-data key stored in
the poller is the head of a queue, i.e. a key the driver still owns.
-/
import Compio.Lemmas.KeyLifeCancel

namespace Compio.KeyLife

open Compio.PollQueues

def ArmInv (s : State) : Prop := s.alive = true → ∀ fd, s.armed fd = (s.reg fd).event

theorem arm_init (d : Drv) (cap : Nat) : ArmInv (init d cap) := by
  intro _ fd
  simp [init, Reg.empty, FdQ.empty, FdQ.event, noInterest]

theorem driverCancel_arm {c : Cfg} {s : State} (h : ∀ fd, s.armed fd = (s.reg fd).event) (id : Nat) (o : Op)
    (posts : List (Nat × Bool × Res)) :
    ∀ fd, (driverCancel c s id o posts).armed fd = ((driverCancel c s id o posts).reg fd).event := by
  unfold driverCancel
  split
  · obtain ⟨_, _, h3, h4, _⟩ := iourCancel_fields c s id posts
    intro fd; rw [h3, h4]; exact h fd
  · unfold pollCancel
    split
    · exact h
    · intro fd
      by_cases hf : fd = o.fd
      · subst hf; simp only [upd_same]
      · simp only [upd_other _ _ _ _ hf]; exact h fd

theorem cancelIssue_arm {c : Cfg} {s : State} (h : ∀ fd, s.armed fd = (s.reg fd).event) (id : Nat) (o : Op)
    (posts : List (Nat × Bool × Res)) :
    ∀ fd, (cancelIssue c s id o posts).armed fd = ((cancelIssue c s id o posts).reg fd).event := by
  unfold cancelIssue
  exact driverCancel_arm (s := { s with ops := modAt (fun o => { o with cancelled := true }) s.ops id }) h id o posts

theorem cancelKey_arm {c : Cfg} {s : State} (h : ∀ fd, s.armed fd = (s.reg fd).event) (id : Nat) (o : Op)
    (posts : List (Nat × Bool × Res)) :
    ∀ fd, (cancelKey c s id o posts).armed fd = ((cancelKey c s id o posts).reg fd).event := by
  unfold cancelKey
  split
  · exact h
  · split
    · exact h
    · exact cancelIssue_arm h id o posts

theorem cancelTok_arm {c : Cfg} {s : State} (h : ∀ fd, s.armed fd = (s.reg fd).event) (id : Nat) (o : Op)
    (posts : List (Nat × Bool × Res)) :
    ∀ fd, (cancelTok c s id o posts).armed fd = ((cancelTok c s id o posts).reg fd).event := by
  unfold cancelTok
  split
  · exact h
  · exact cancelIssue_arm (s := { s with ops := modAt (fun o => ({ o.cloneRef with user := o.user + 1 } : Op)) s.ops id })
      h id _ posts

theorem step_arm {c : Cfg} {s s' : State} {e : Event} (hinv : Inv c s) (hi : ArmInv s) (h : step c s e = some s') :
    ArmInv s' := by
  cases e with
  | pushWait k fd d =>
    simp only [step] at h
    split at h
    · rename_i hg
      obtain rfl := Option.some.inj h
      intro _ fd'
      have := hi hg.1
      by_cases hf : fd' = fd
      · subst hf; simp only [upd_same]
      · simp only [upd_other _ _ _ _ hf]; exact this fd'
    · cases h
  | fdEvent fd rd wr r =>
    simp only [step] at h
    split at h
    · rename_i hg
      have hb := hi hg.1
      split at h
      · obtain rfl := Option.some.inj h
        intro _ fd'
        by_cases hf : fd' = fd
        · subst hf; simp only [upd_same]
        · simp only [upd_other _ _ _ _ hf]; exact hb fd'
      · split at h
        · obtain rfl := Option.some.inj h
          intro _ fd'
          by_cases hf : fd' = fd
          · subst hf; simp only [upd_same]
          · simp only [upd_other _ _ _ _ hf]; exact hb fd'
        · obtain rfl := Option.some.inj h
          intro _ fd'
          by_cases hf : fd' = fd
          · subst hf; simp only [upd_same]
          · simp only [upd_other _ _ _ _ hf]; exact hb fd'
    · cases h
  | userCancel id posts =>
    simp only [step] at h
    split at h
    · split at h
      · rename_i hg
        obtain rfl := Option.some.inj h
        intro _; exact cancelKey_arm (hi hg.1) _ _ _
      · cases h
    · cases h
  | cloneCancel id posts =>
    simp only [step] at h
    split at h
    · split at h
      · rename_i hg
        obtain rfl := Option.some.inj h
        intro _
        exact cancelKey_arm (s := { s with ops := modAt (fun o => ({ o.cloneRef with user := o.user + 1 } : Op)) s.ops id })
          (hi hg.1) _ _ _
      · cases h
    · cases h
  | tokenCancel id posts =>
    simp only [step] at h
    split at h
    · split at h
      · rename_i hg
        split at h
        · obtain rfl := Option.some.inj h; exact hi
        · obtain rfl := Option.some.inj h
          intro _; exact cancelTok_arm (hi hg.1) _ _ _
      · cases h
    · cases h
  | dropBegin =>
    simp only [step] at h
    split at h
    · obtain rfl := Option.some.inj h; intro ha; cases ha
    · cases h
  | dropStep =>
    simp only [step] at h
    split at h
    · rename_i k hk
      split at h
      · rename_i st _
        obtain rfl := Option.some.inj h
        intro ha
        -- inside `Drop` the proactor is not alive
        have ha' : s.alive = true := by cases st <;> exact ha
        have := (hinv.pc_ok k hk).1
        rw [ha'] at this; cases this
      · cases h
    · cases h
  | userPop id =>
    simp only [step] at h
    split at h
    · split at h
      · split at h
        · split at h
          · obtain rfl := Option.some.inj h; exact hi
          · obtain rfl := Option.some.inj h; exact hi
        · obtain rfl := Option.some.inj h; exact hi
      · cases h
    · cases h
  | kPost id more r =>
    simp only [step] at h
    split at h
    · split at h
      · split at h
        · obtain rfl := Option.some.inj h; exact hi
        · obtain rfl := Option.some.inj h; exact hi
      · cases h
    · cases h
  | poolDone id r =>
    simp only [step] at h
    split at h
    · split at h
      · split at h
        · obtain rfl := Option.some.inj h; exact hi
        · obtain rfl := Option.some.inj h; exact hi
      · cases h
    · cases h
  | pushSq k fd d | pushFail k fd d e | pushBlocking | pushReady k fd d r | pushNotifier | submit
  | pollEntries | pollBlocking =>
    simp only [step] at h
    split at h
    · obtain rfl := Option.some.inj h; exact hi
    · cases h
  | userDrop id | popMulti id | tokenRegister id | tokenDrop id =>
    simp only [step] at h
    split at h
    · split at h
      · obtain rfl := Option.some.inj h; exact hi
      · cases h
    · cases h

theorem run_arm {c : Cfg} (hc : GoodCfg c) : ∀ (evs : List Event) (s s' : State), Inv c s → ArmInv s →
    run c s evs = some s' → s'.hazard = false → ArmInv s' := by
  intro evs
  induction evs with
  | nil => intro s s' _ ha h _; simp [run] at h; subst h; exact ha
  | cons e es ih =>
    intro s s' hi ha h hz
    simp only [run] at h
    split at h
    · rename_i s1 hs1
      have hz1 := run_hazard es s1 s' h hz
      exact ih s1 s' (step_inv hc hi hs1 hz1) (step_arm hi ha hs1) h hz
    · cases h

end Compio.KeyLife
