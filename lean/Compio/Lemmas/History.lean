/-
The Boolean acceptors of Model/History.lean against the `List` notions the invariants speak about.
-/
import Compio.Model.History

namespace Compio.History
set_option linter.unusedSimpArgs false
set_option linter.unusedVariables false

theorem isPrefix_iff : ∀ (l m : List Nat), isPrefix l m = true ↔ l <+: m := by
  intro l
  induction l with
  | nil => intro m; simp [isPrefix]
  | cons a l ih =>
    intro m
    cases m with
    | nil => simp [isPrefix]
    | cons b m =>
      simp only [isPrefix, Bool.and_eq_true, beq_iff_eq, ih, List.cons_prefix_cons]

theorem nodup_iff : ∀ (l : List Nat), nodup l = true ↔ l.Nodup := by
  intro l
  induction l with
  | nil => simp [nodup]
  | cons a l ih =>
    simp only [nodup, Bool.and_eq_true, Bool.not_eq_true', List.nodup_cons, ih]
    constructor
    · rintro ⟨h1, h2⟩; exact ⟨by simpa using h1, h2⟩
    · rintro ⟨h1, h2⟩; exact ⟨by simpa using h1, h2⟩

/-- restricting a duplicate-free list to the elements of one of its subsequences gives that subsequence -/
theorem filter_contains_of_sublist {acc l : List Nat} (hs : acc.Sublist l) (hn : l.Nodup) :
    l.filter acc.contains = acc := by
  induction hs with
  | slnil => simp
  | @cons acc l a hsub ih =>
    simp only [List.nodup_cons] at hn
    have hna : a ∉ acc := fun h => hn.1 (hsub.subset h)
    have : acc.contains a = false := by simpa using hna
    rw [List.filter_cons, this]
    simpa using ih hn.2
  | @cons_cons acc l a hsub ih =>
    simp only [List.nodup_cons] at hn
    have hself : (a :: acc).contains a = true := by simp
    rw [List.filter_cons, hself]
    simp only [if_true, List.cons.injEq, true_and]
    have : l.filter (a :: acc).contains = l.filter acc.contains := by
      apply List.filter_congr
      intro x hx
      have hxa : x ≠ a := fun h => hn.1 (h ▸ hx)
      simp [hxa]
    rw [this]
    exact ih hn.2

end Compio.History
