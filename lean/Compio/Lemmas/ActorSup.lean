/-
Supervision notifications of Model/Actor.lean: which ones an actor issues, how often and in which order.
-/
import Compio.Lemmas.ActorCalls

namespace Compio.Actor
set_option linter.unusedSimpArgs false
set_option linter.unusedVariables false

/-- `post_start` returned `Ok` -/
def startedOk (log : List Obs) : Bool := log.any (· == .hook .postStart true)

/-- program points before `post_start` has returned -/
def Pc.beforePostStart : Pc → Bool
  | .init | .failRelease | .failReport | .failReturn | .startFailed | .preStarted | .postStart => true
  | _ => false

/-- the exit notification, present once the task is past it -/
def exitPart (s : St) : List Nat :=
  match s.pc with
  | .exited e => if s.detached then [] else [exitNote e]
  | _ => []

structure InvN (s : St) : Prop where
  shape : s.notified = (if startedOk s.log then [0] else []) ++ exitPart s
  early : s.pc.beforePostStart = true → startedOk s.log = false
  attached : ∀ e, s.pc = .finNotify e → s.detached = false
  detachedEarly : s.detached = true → startedOk s.log = false
  attachedEarly : s.pc.beforePostStart = true → s.detached = false

theorem invN_init (cap : Nat) (named : Bool) : InvN (St.init cap named) := by
  constructor <;> simp [St.init, startedOk, exitPart, Pc.beforePostStart]

theorem startedOk_snoc (log : List Obs) (o : Obs) :
    startedOk (log ++ [o]) = (startedOk log || o == .hook .postStart true) := by
  simp [startedOk]

theorem invN_step (s : St) (e : Ev) (s' : St) (hi : InvN s) (h : step s e = some s') : InvN s' := by
  obtain ⟨h1, h2, h3, h4, h5⟩ := hi
  cases e <;> simp only [step] at h <;> step_cases h <;>
    (constructor <;>
      simp_all [St.obs, startedOk_snoc, exitPart, Pc.beforePostStart, exitNote] <;>
      (try split) <;> (try simp_all))

end Compio.Actor
