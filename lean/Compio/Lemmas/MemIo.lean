/- helper lemmas for Model/MemIo.lean: the in-memory implementations equal their references -/
import Compio.Lemmas.Buffer
import Compio.Model.MemIo

namespace Compio.Io

theorem drop_min_length (s : Bytes) (pos : Nat) : s.drop (min pos s.length) = s.drop pos := by
  rcases Nat.le_total pos s.length with h | h
  · rw [Nat.min_eq_left h]
  · rw [Nat.min_eq_right h, List.drop_of_length_le h, List.drop_of_length_le (Nat.le_refl _)]

theorem readAt_eq (src : Bytes) (pos off : Nat) : readAt src pos off = (src.drop pos).take off := by
  unfold readAt
  rw [drop_min_length]

theorem sumNat_map_length (bufs : List Bytes) : sumNat (bufs.map List.length) = bufs.flatten.length := by
  induction bufs with
  | nil => rfl
  | cons b r ih => simp [sumNat, ih]

theorem reserveOk_true (len add : Nat) (h : len + add ≤ isizeMax) : reserveOk len add = true := by
  simp [reserveOk, h]

/-- one positional write inside (or at the end of) the vector is an overlay, whichever branch runs -/
theorem vecStep_eq (v : Bytes) (pos : Nat) (s : Bytes) (h : pos ≤ v.length) :
    vecStep v pos s = overlay v pos s := by
  unfold vecStep overlay
  split
  · rename_i hlt
    have hn : min s.length (v.length - pos) = v.length - pos := by omega
    rw [hn]
    have h1 : v.drop (pos + (v.length - pos)) = [] := List.drop_of_length_le (by omega)
    have h2 : v.drop (pos + s.length) = [] := List.drop_of_length_le (by omega)
    rw [h1, h2]
    simp [List.append_assoc]
  · rename_i hge
    have hn : min s.length (v.length - pos) = s.length := by omega
    rw [hn]

theorem writeRef_inside (v : Bytes) (pos : Nat) (bs : Bytes) (h : pos ≤ v.length) :
    writeRef v pos bs = overlay v pos bs := by
  unfold writeRef
  have : pos - v.length = 0 := by omega
  rw [this]
  simp

theorem writeRef_beyond (v : Bytes) (pos : Nat) (bs : Bytes) (h : v.length < pos) :
    writeRef v pos bs = v ++ List.replicate (pos - v.length) 0 ++ bs := by
  unfold writeRef overlay
  have hl : (v ++ List.replicate (pos - v.length) 0).length = pos := by simp; omega
  rw [List.take_of_length_le (by omega), List.drop_of_length_le (by omega)]
  simp

theorem vecWriteAt_ref (v : Bytes) (pos : Nat) (bs : Bytes) (hg : pos + bs.length ≤ isizeMax) :
    vecWriteAt v pos bs = .ok (bs.length, writeRef v pos bs) := by
  unfold vecWriteAt
  have hu : isizeMax < usizeLimit := by decide
  split
  · rename_i h
    rw [writeRef_inside v pos bs h, vecStep_eq v pos bs h]
    split
    · rename_i hlt
      have : reserveOk v.length (bs.length - min bs.length (v.length - pos)) = true :=
      reserveOk_true _ _ (by omega)
      simp [this]
    · rfl
  · rename_i h
    rw [writeRef_beyond v pos bs (by omega)]
    rw [if_neg (by omega)]
    have : reserveOk v.length (pos - v.length + bs.length) = true :=
      reserveOk_true _ _ (by omega)
    simp [this]

theorem vecWriteAt_total (v : Bytes) (pos : Nat) (bs : Bytes) :
    vecWriteAt v pos bs = .panic ∨ vecWriteAt v pos bs = .ok (bs.length, writeRef v pos bs) := by
  unfold vecWriteAt
  split
  · rename_i h
    rw [writeRef_inside v pos bs h, vecStep_eq v pos bs h]
    split
    · split
      · exact Or.inl rfl
      · exact Or.inr rfl
    · exact Or.inr rfl
  · rename_i h
    rw [writeRef_beyond v pos bs (by omega)]
    split
    · exact Or.inl rfl
    · split
      · exact Or.inl rfl
      · exact Or.inr rfl

theorem vecWriteVectoredAtGo_eq : ∀ (bufs : List Bytes) (v : Bytes) (pos : Nat), pos ≤ v.length →
    vecWriteVectoredAtGo v pos bufs = overlay v pos bufs.flatten := by
  intro bufs
  induction bufs with
  | nil => intro v pos _; simp [vecWriteVectoredAtGo]
  | cons s rest ih =>
    intro v pos h
    unfold vecWriteVectoredAtGo
    rw [if_pos h, vecStep_eq v pos s h]
    have hl : pos + s.length ≤ (overlay v pos s).length := by
      rw [overlay_length _ _ _ h]; omega
    rw [ih _ _ hl, overlay_overlay _ _ _ _ h]
    simp

theorem vecWriteVectoredAt_ref (v : Bytes) (pos : Nat) (bufs : List Bytes) (hv : v.length ≤ isizeMax)
    (hg : pos + bufs.flatten.length ≤ isizeMax) :
    vecWriteVectoredAt v pos bufs = .ok (bufs.flatten.length, writeRef v pos bufs.flatten) := by
  unfold vecWriteVectoredAt
  have hu : isizeMax < usizeLimit := by decide
  simp only [sumNat_map_length]
  split
  · rename_i h
    have : reserveOk v.length (bufs.flatten.length - (v.length - pos)) = true :=
      reserveOk_true _ _ (by omega)
    simp only [this]
    rw [vecWriteVectoredAtGo_eq bufs v pos h, writeRef_inside v pos _ h]
    rfl
  · rename_i h
    rw [if_neg (by omega)]
    have : reserveOk v.length (pos - v.length + bufs.flatten.length) = true :=
      reserveOk_true _ _ (by omega)
    simp only [this]
    have hl : pos ≤ (v ++ List.replicate (pos - v.length) 0).length := by simp; omega
    rw [vecWriteVectoredAtGo_eq bufs _ pos hl]
    rfl

theorem foldl_append (bufs : List Bytes) (v : Bytes) : bufs.foldl (· ++ ·) v = v ++ bufs.flatten := by
  induction bufs generalizing v with
  | nil => simp
  | cons b r ih => simp [ih, List.append_assoc]

theorem vecWriteVectored_ref (v : Bytes) (bufs : List Bytes) (hg : v.length + bufs.flatten.length ≤ isizeMax) :
    vecWriteVectored v bufs = .ok (bufs.flatten.length, v ++ bufs.flatten) := by
  unfold vecWriteVectored
  simp only [sumNat_map_length]
  have : reserveOk v.length bufs.flatten.length = true := by apply reserveOk_true; omega
  simp only [this, foldl_append]
  rfl

theorem sliceWriteAt_ref (a : Bytes) (pos : Nat) (bs : Bytes) :
    (sliceWriteAt a pos bs).1 = min bs.length (a.length - min pos a.length) ∧
    (sliceWriteAt a pos bs).2 = overlay a (min pos a.length) (bs.take (sliceWriteAt a pos bs).1) ∧
    (sliceWriteAt a pos bs).2.length = a.length := by
  refine ⟨rfl, ?_, ?_⟩
  · simp only [sliceWriteAt, overlay]
    have : (bs.take (min bs.length (a.length - min pos a.length))).length =
        min bs.length (a.length - min pos a.length) := by
      rw [List.length_take]; omega
    rw [this]
  · simp only [sliceWriteAt]
    simp [List.length_take, List.length_drop]
    omega

end Compio.Io
