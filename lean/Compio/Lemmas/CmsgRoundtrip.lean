/- helper lemmas: the cmsg builder lays messages out contiguously and the iterator/decoder read them back -/
import Compio.Lemmas.Cmsg
import Compio.Lemmas.Frame
namespace Compio.Cmsg
open Compio.Frame (leBytes leVal leVal_leBytes length_leBytes)

abbrev Msg := Bytes × Bytes × Bytes

def Msg.wf (m : Msg) : Prop := m.1.length = 4 ∧ m.2.1.length = 4 ∧ cmsgLen m.2.2.length < 2 ^ 64

/-- on-the-wire form of one control message as the builder lays it out in a zeroed buffer -/
def encodeMsg (m : Msg) : Bytes :=
  leBytes 8 (cmsgLen m.2.2.length) ++ m.1 ++ m.2.1 ++ m.2.2 ++ List.replicate (align m.2.2.length - m.2.2.length) 0

theorem le_align (n : Nat) : n ≤ align n := by unfold align; omega

theorem length_encodeMsg (m : Msg) (h : m.wf) : (encodeMsg m).length = space m.2.2.length := by
  have := le_align m.2.2.length
  simp [encodeMsg, h.1, h.2.1, space, hdr]; omega

theorem sub_append_left (a b : Bytes) (n : Nat) : sub (a ++ b) a.length n = b.take n := by
  simp [sub]

theorem readHeader_at (pre : Bytes) (m : Msg) (rest : Bytes) (h : m.wf) :
    readHeader (pre ++ (encodeMsg m ++ rest)) pre.length = ⟨cmsgLen m.2.2.length, m.1, m.2.1⟩ := by
  obtain ⟨h1, h2, h3⟩ := h
  unfold readHeader
  have e : encodeMsg m ++ rest = leBytes 8 (cmsgLen m.2.2.length) ++ (m.1 ++ (m.2.1 ++ (m.2.2 ++ (List.replicate (align m.2.2.length - m.2.2.length) 0 ++ rest)))) := by
    simp [encodeMsg]
  rw [e]
  have s1 : sub (pre ++ (leBytes 8 (cmsgLen m.2.2.length) ++ (m.1 ++ (m.2.1 ++ (m.2.2 ++ (List.replicate (align m.2.2.length - m.2.2.length) 0 ++ rest)))))) pre.length 8
      = leBytes 8 (cmsgLen m.2.2.length) := by
    simp [sub, List.take_append]
  have s2 : sub (pre ++ (leBytes 8 (cmsgLen m.2.2.length) ++ (m.1 ++ (m.2.1 ++ (m.2.2 ++ (List.replicate (align m.2.2.length - m.2.2.length) 0 ++ rest)))))) (pre.length + 8) 4
      = m.1 := by
    have : pre.length + 8 = (pre ++ leBytes 8 (cmsgLen m.2.2.length)).length := by simp
    rw [this, ← List.append_assoc, sub_append_left]
    simp [List.take_append, h1]
  have s3 : sub (pre ++ (leBytes 8 (cmsgLen m.2.2.length) ++ (m.1 ++ (m.2.1 ++ (m.2.2 ++ (List.replicate (align m.2.2.length - m.2.2.length) 0 ++ rest)))))) (pre.length + 12) 4
      = m.2.1 := by
    have : pre.length + 12 = (pre ++ leBytes 8 (cmsgLen m.2.2.length) ++ m.1).length := by simp [h1]
    rw [this]
    have : pre ++ (leBytes 8 (cmsgLen m.2.2.length) ++ (m.1 ++ (m.2.1 ++ (m.2.2 ++ (List.replicate (align m.2.2.length - m.2.2.length) 0 ++ rest)))))
       = (pre ++ leBytes 8 (cmsgLen m.2.2.length) ++ m.1) ++ (m.2.1 ++ (m.2.2 ++ (List.replicate (align m.2.2.length - m.2.2.length) 0 ++ rest))) := by simp
    rw [this, sub_append_left]
    simp [List.take_append, h2]
  rw [s1, s2, s3, leVal_leBytes]
  have : cmsgLen m.2.2.length % 256 ^ 8 = cmsgLen m.2.2.length := Nat.mod_eq_of_lt (by simpa using h3)
  rw [this]
end Compio.Cmsg

namespace Compio.Cmsg
open Compio.Frame (leBytes leVal leVal_leBytes length_leBytes)

theorem align_hdr_add (n : Nat) : align (hdr + n) = hdr + align n := by
  unfold align hdr; omega

theorem nxthdr_at (pre : Bytes) (m : Msg) (rest : Bytes) (h : m.wf) :
    nxthdr (pre ++ (encodeMsg m ++ rest)) (pre ++ (encodeMsg m ++ rest)).length pre.length
      = if hdr ≤ rest.length then some (pre.length + space m.2.2.length) else none := by
  unfold nxthdr
  simp only [readHeader_at pre m rest h]
  have h1 : ¬ (cmsgLen m.2.2.length < hdr) := by unfold cmsgLen; omega
  simp only [h1, if_false]
  have hl := length_encodeMsg m h
  have : align (cmsgLen m.2.2.length) = space m.2.2.length := by
    unfold cmsgLen space; rw [align_hdr_add]; omega
  rw [this]
  simp only [List.length_append, hl]
  by_cases hr : hdr ≤ rest.length
  · have : ¬ (pre.length + space m.2.2.length + hdr > pre.length + (space m.2.2.length + rest.length)) := by omega
    simp [hr, this]
  · have : pre.length + space m.2.2.length + hdr > pre.length + (space m.2.2.length + rest.length) := by omega
    simp [hr, this]

def flat (ms : List Msg) : Bytes := (ms.map encodeMsg).flatten

/-- offsets and headers the iterator must produce for the accepted messages -/
def hdrsFrom : Nat → List Msg → List (Nat × Header)
  | _, [] => []
  | off, m :: r => (off, ⟨cmsgLen m.2.2.length, m.1, m.2.1⟩) :: hdrsFrom (off + space m.2.2.length) r

theorem hdr_le_length_flat (m : Msg) (r : List Msg) (h : m.wf) : hdr ≤ (flat (m :: r)).length := by
  simp [flat, length_encodeMsg m h, space]; omega

theorem iterFrom_flat : ∀ (ms : List Msg) (pre : Bytes) (fuel : Nat),
    (∀ m ∈ ms, m.wf) → ms ≠ [] → ms.length ≤ fuel →
    iterFrom (pre ++ flat ms) fuel (some pre.length) = hdrsFrom pre.length ms := by
  intro ms
  induction ms with
  | nil => intro _ _ _ h; exact absurd rfl h
  | cons m r ih =>
    intro pre fuel hwf _ hfuel
    obtain ⟨k, rfl⟩ : ∃ k, fuel = k + 1 := ⟨fuel - 1, by simp at hfuel; omega⟩
    have hm := hwf m (by simp)
    have hflat : flat (m :: r) = encodeMsg m ++ flat r := by simp [flat]
    rw [hflat]
    simp only [iterFrom, hdrsFrom]
    rw [readHeader_at pre m (flat r) hm, nxthdr_at pre m (flat r) hm]
    congr 1
    cases r with
    | nil => simp [flat, hdr, iterFrom_none, hdrsFrom]
    | cons m' r' =>
      have hm' := hwf m' (by simp)
      have := hdr_le_length_flat m' r' hm'
      simp only [this, if_true]
      have hpre : pre.length + space m.2.2.length = (pre ++ encodeMsg m).length := by
        simp [length_encodeMsg m hm]
      rw [hpre, ← List.append_assoc]
      exact ih (pre ++ encodeMsg m) k (fun x hx => hwf x (by simp [hx])) (by simp) (by simp at hfuel; omega)

end Compio.Cmsg

namespace Compio.Cmsg
open Compio.Frame (leBytes leVal leVal_leBytes length_leBytes)

theorem decodeData_at (pre : Bytes) (m : Msg) (rest : Bytes) (h : m.wf) :
    decodeData (pre ++ (encodeMsg m ++ rest)) pre.length m.2.2.length = .ok m.2.2 := by
  unfold decodeData
  simp only [readHeader_at pre m rest h]
  have h1 : ¬ (cmsgLen m.2.2.length - cmsgLen 0 < m.2.2.length) := by unfold cmsgLen; omega
  simp only [h1, if_false]
  obtain ⟨h1, h2, _⟩ := h
  have e : pre ++ (encodeMsg m ++ rest)
      = (pre ++ leBytes 8 (cmsgLen m.2.2.length) ++ m.1 ++ m.2.1) ++ (m.2.2 ++ (List.replicate (align m.2.2.length - m.2.2.length) 0 ++ rest)) := by
    simp [encodeMsg]
  have l : pre.length + hdr = (pre ++ leBytes 8 (cmsgLen m.2.2.length) ++ m.1 ++ m.2.1).length := by
    simp [h1, h2, hdr]
  rw [e, l, sub_append_left]
  simp

def decodeAll (buf : Bytes) : Nat → List Msg → List Decoded
  | _, [] => []
  | off, m :: r => decodeData buf off m.2.2.length :: decodeAll buf (off + space m.2.2.length) r

theorem decodeAll_flat : ∀ (ms : List Msg) (pre : Bytes), (∀ m ∈ ms, m.wf) →
    decodeAll (pre ++ flat ms) pre.length ms = ms.map (fun m => Decoded.ok m.2.2) := by
  intro ms
  induction ms with
  | nil => intro _ _; rfl
  | cons m r ih =>
    intro pre hwf
    have hm := hwf m (by simp)
    have hflat : flat (m :: r) = encodeMsg m ++ flat r := by simp [flat]
    simp only [decodeAll, List.map_cons, hflat]
    rw [decodeData_at pre m (flat r) hm]
    congr 1
    have hpre : pre.length + space m.2.2.length = (pre ++ encodeMsg m).length := by
      simp [length_encodeMsg m hm]
    rw [hpre, ← List.append_assoc]
    exact ih (pre ++ encodeMsg m) (fun x hx => hwf x (by simp [hx]))

/-- what the builder state must look like after the accepted messages `acc` -/
structure BInv (b : Builder) (acc : List Msg) : Prop where
  bytes : b.bytes = flat acc ++ List.replicate (b.cap - (flat acc).length) 0
  len : b.len = (flat acc).length
  fits : (flat acc).length ≤ b.cap
  off : b.offset = if (flat acc).length + hdr ≤ b.cap then some (flat acc).length else none

theorem binv_new (cap : Nat) (b : Builder) (h : Builder.new cap = .ok b) : BInv b [] := by
  unfold Builder.new at h
  split at h
  · simp at h
  · simp at h
    subst h
    constructor <;> simp [flat, firsthdr]

theorem flat_snoc (acc : List Msg) (m : Msg) : flat (acc ++ [m]) = flat acc ++ encodeMsg m := by
  simp [flat]

theorem patch_zero (A X : Bytes) (k : Nat) :
    patch (A ++ List.replicate k 0) A.length X = A ++ X ++ List.replicate (k - X.length) 0 := by
  unfold patch
  simp [List.drop_append]

theorem push_inv (b : Builder) (acc : List Msg) (m : Msg) (hb : BInv b acc) (hm : m.wf) :
    ((b.push m.1 m.2.1 m.2.2).2 = .ok ∧ BInv (b.push m.1 m.2.1 m.2.2).1 (acc ++ [m])) ∨
    ((b.push m.1 m.2.1 m.2.2).2 = .small ∧ (b.push m.1 m.2.1 m.2.2).1 = b) := by
  unfold Builder.push
  rw [hb.off]
  by_cases h1 : (flat acc).length + hdr ≤ b.cap
  · simp only [h1, if_true]
    by_cases h2 : (flat acc).length + space m.2.2.length ≤ b.cap
    · left
      simp only [h2, if_true, true_and]
      have hal := le_align m.2.2.length
      have hsp : space m.2.2.length = align m.2.2.length + hdr := rfl
      have hX : (leBytes 8 (cmsgLen m.2.2.length) ++ m.1 ++ m.2.1 ++ m.2.2).length = hdr + m.2.2.length := by
        simp only [List.length_append, length_leBytes, hm.1, hm.2.1, hdr]
      have hrep : List.replicate (b.cap - (flat acc).length - (hdr + m.2.2.length)) (0 : UInt8)
          = List.replicate (align m.2.2.length - m.2.2.length) 0
            ++ List.replicate (b.cap - (flat acc).length - space m.2.2.length) 0 := by
        rw [List.replicate_append_replicate]; congr 1; omega
      have hpatch : patch b.bytes (flat acc).length (leBytes 8 (cmsgLen m.2.2.length) ++ m.1 ++ m.2.1 ++ m.2.2)
          = flat acc ++ (encodeMsg m ++ List.replicate (b.cap - (flat acc).length - space m.2.2.length) 0) := by
        rw [hb.bytes, patch_zero, hX, hrep]
        simp [encodeMsg]
      have hlen := length_encodeMsg m hm
      have hcap : (flat acc ++ (encodeMsg m ++ List.replicate (b.cap - (flat acc).length - space m.2.2.length) 0)).length = b.cap := by
        simp [hlen]; omega
      constructor
      · simp only [hpatch, flat_snoc, List.length_append, hlen]
        rw [List.append_assoc]
        congr 2
        congr 1
        omega
      · simp [flat_snoc, hb.len, hlen]
      · simp only [flat_snoc, List.length_append, hlen]; omega
      · simp only [hpatch]
        have := nxthdr_at (flat acc) m (List.replicate (b.cap - (flat acc).length - space m.2.2.length) 0) hm
        rw [hcap] at this
        rw [this]
        simp only [flat_snoc, List.length_append, hlen, List.length_replicate]
        by_cases h3 : (flat acc).length + space m.2.2.length + hdr ≤ b.cap
        · have : hdr ≤ b.cap - (flat acc).length - space m.2.2.length := by omega
          simp [h3, this]
        · have : ¬ (hdr ≤ b.cap - (flat acc).length - space m.2.2.length) := by omega
          simp [h3, this]
    · right; simp [h2]
  · right; simp [h1]

end Compio.Cmsg

namespace Compio.Cmsg

def accepted : List Msg → List PushResult → List Msg
  | m :: ms, .ok :: rs => m :: accepted ms rs
  | _ :: ms, .small :: rs => accepted ms rs
  | _, _ => []

theorem pushAll_cons (b : Builder) (m : Msg) (ms : List Msg) :
    b.pushAll (m :: ms) =
      (((b.push m.1 m.2.1 m.2.2).1.pushAll ms).1, (b.push m.1 m.2.1 m.2.2).2 :: ((b.push m.1 m.2.1 m.2.2).1.pushAll ms).2) := by
  obtain ⟨l, t, d⟩ := m
  simp [Builder.pushAll]

theorem pushAll_inv : ∀ (msgs : List Msg) (b : Builder) (acc : List Msg), BInv b acc →
    (∀ m ∈ msgs, m.wf) → BInv (b.pushAll msgs).1 (acc ++ accepted msgs (b.pushAll msgs).2) := by
  intro msgs
  induction msgs with
  | nil => intro b acc hb _; simpa [Builder.pushAll, accepted] using hb
  | cons m ms ih =>
    intro b acc hb hwf
    rw [pushAll_cons]
    rcases push_inv b acc m hb (hwf m (by simp)) with ⟨hr, hinv⟩ | ⟨hr, hsame⟩
    · simp only [hr, accepted]
      have := ih _ _ hinv (fun x hx => hwf x (by simp [hx]))
      simpa [List.append_assoc] using this
    · simp only [hr, accepted, hsame]
      exact ih b acc hb (fun x hx => hwf x (by simp [hx]))

theorem length_flat_ge : ∀ (ms : List Msg), (∀ m ∈ ms, m.wf) → hdr * ms.length ≤ (flat ms).length := by
  intro ms
  induction ms with
  | nil => intro _; simp
  | cons m r ih =>
    intro hwf
    have := ih (fun x hx => hwf x (by simp [hx]))
    have hl := length_encodeMsg m (hwf m (by simp))
    have : flat (m :: r) = encodeMsg m ++ flat r := by simp [flat]
    rw [this, List.length_append, hl]
    simp only [List.length_cons, space]
    unfold hdr at *
    omega

theorem finish_eq (b : Builder) (acc : List Msg) (hb : BInv b acc) : b.finish = flat acc := by
  unfold Builder.finish
  rw [hb.bytes, hb.len]
  simp

theorem iter_flat (acc : List Msg) (hwf : ∀ m ∈ acc, m.wf) (hne : acc ≠ []) :
    iter (flat acc) = .msgs (hdrsFrom 0 acc) := by
  have hlen := length_flat_ge acc hwf
  have hpos : 0 < acc.length := by cases acc <;> simp_all
  unfold iter
  have h1 : ¬ ((flat acc).length < space 0) := by
    unfold space align hdr at *; omega
  simp only [h1, if_false]
  have h2 : firsthdr (flat acc).length = some 0 := by
    unfold firsthdr hdr at *
    have : (flat acc).length ≥ 16 := by omega
    simp [this]
  rw [h2]
  have := iterFrom_flat acc [] (iterFuel (flat acc)) hwf hne (by unfold iterFuel hdr at *; omega)
  simpa using congrArg IterResult.msgs this

end Compio.Cmsg

namespace Compio.Cmsg

theorem accepted_subset : ∀ (ms : List Msg) (rs : List PushResult) (m : Msg), m ∈ accepted ms rs → m ∈ ms := by
  intro ms
  induction ms with
  | nil => intro rs m h; cases rs <;> simp [accepted] at h
  | cons x xs ih =>
    intro rs m h
    cases rs with
    | nil => simp [accepted] at h
    | cons r rs =>
      cases r with
      | ok =>
        simp only [accepted, List.mem_cons] at h
        rcases h with rfl | h
        · simp
        · exact List.mem_cons_of_mem _ (ih rs m h)
      | small =>
        simp only [accepted] at h
        exact List.mem_cons_of_mem _ (ih rs m h)

theorem push_ok (b : Builder) (acc : List Msg) (m : Msg) (hb : BInv b acc)
    (hfit : (flat acc).length + space m.2.2.length ≤ b.cap) : (b.push m.1 m.2.1 m.2.2).2 = .ok := by
  unfold Builder.push
  rw [hb.off]
  have h1 : (flat acc).length + hdr ≤ b.cap := by unfold space at hfit; omega
  simp [h1, hfit]

theorem push_cap (b : Builder) (l t d : Bytes) : (b.push l t d).1.cap = b.cap := by
  unfold Builder.push
  split
  · rfl
  · split <;> rfl

/-- every message of a list whose total space fits the buffer is accepted -/
theorem pushAll_all_ok : ∀ (msgs : List Msg) (b : Builder) (acc : List Msg), BInv b acc →
    (∀ m ∈ msgs, m.wf) → (flat acc).length + (flat msgs).length ≤ b.cap →
    accepted msgs (b.pushAll msgs).2 = msgs := by
  intro msgs
  induction msgs with
  | nil => intro b acc _ _ _; simp [Builder.pushAll, accepted]
  | cons m ms ih =>
    intro b acc hb hwf hfit
    have hm := hwf m (by simp)
    have hl := length_encodeMsg m hm
    have hflat : flat (m :: ms) = encodeMsg m ++ flat ms := by simp [flat]
    rw [hflat, List.length_append, hl] at hfit
    rw [pushAll_cons]
    have hok := push_ok b acc m hb (by omega)
    rcases push_inv b acc m hb hm with ⟨_, hinv⟩ | ⟨hr, _⟩
    · simp only [hok, accepted]
      congr 1
      apply ih _ _ hinv (fun x hx => hwf x (by simp [hx]))
      rw [push_cap, flat_snoc, List.length_append, hl]
      omega
    · rw [hok] at hr; cases hr

end Compio.Cmsg
