/-
The two-party progress argument of C15: every poll of the executor preserves the global invariant and
lowers the progress measure; an unfinished system always has a runnable task.
-/
import Compio.Lemmas.TlsHs
import Compio.Model.TlsSys

namespace Compio.TlsSys
open Compio.TlsNet Compio.TlsShim

/-- an endpoint task that only performs the handshake, not finished yet -/
structure TaskHs (t : Task) (fut : HsFut) (o : Ossl) : Prop where
  s : t.s = .ossl fut o
  pc : t.pc = .hs
  steps : t.steps = []
  idx : t.idx = 0
  res : t.res.length = 1

/-- ... and after it has finished -/
structure TaskDone (t : Task) (o : Ossl) : Prop where
  s : t.s = .ossl .done o
  pc : t.pc = .finished
  res : t.res = [.ok 0]

theorem setRes_one (l : List StepRes) (h : l.length = 1) (r : StepRes) : setRes l 0 r = [r] := by
  cases l with
  | nil => simp at h
  | cons x xs =>
    cases xs with
    | nil => simp [setRes]
    | cons _ _ => simp at h

/-- one poll of a handshake-only task, in terms of the poll of the handshake future -/
theorem pollTask_hs (sc : Sched) (f : Nat) (t : Task) (v : View) {fut : HsFut} {o : Ossl} (ht : TaskHs t fut o) :
    pollTask sc (f + 2) t v =
      (match TlsShim.pollHandshake sc fut o v with
        | (fut', o', v', .ready ()) =>
          ({ t with s := .ossl fut' o', pc := .finished, res := [.ok 0] },
            { v' with tp := { v'.tp with hsDone := true } }, .done)
        | (fut', o', v', .pending p) => ({ t with s := .ossl fut' o', res := [.running 0] }, v', .pending p)
        | (fut', o', v', .err) =>
          ({ t with s := .ossl fut' o', pc := .finished, res := [.err] },
            { v' with tp := { v'.tp with hsDone := true } }, .done)
        | (fut', o', v', .panic) => ({ t with s := .ossl fut' o' }, v', .panic)) := by
  obtain ⟨hs, hpc, hst, hidx, hres⟩ := ht
  rw [pollTask]
  simp only [hpc, hs, Stream.pollHandshake]
  generalize TlsShim.pollHandshake sc fut o v = r
  obtain ⟨fut', o', v', r⟩ := r
  cases r with
  | ready u =>
    cases u
    simp only [setRes_one _ hres]
    rw [pollTask]
    simp [hst]
  | pending p => simp [setRes_one _ hres]
  | err => simp [hidx, setRes_one _ hres]
  | panic => simp

/-- an endpoint's share of the progress measure between polls -/
def Epot (sc : Sched) (fut : HsFut) (o : Ossl) (tp : Tp) : Nat :=
  2 * K sc * (3 * (o.tape.length + o.post) + tp.wbuf.length + b2n o.written) + ctr sc tp + 4 * K sc * rank fut

theorem Spot_eq (sc : Sched) (fut : HsFut) (o : Ossl) (v : View) :
    Spot sc fut o v = Epot sc fut o v.tp + K sc * b2n v.wake := by
  simp only [Spot, S0, mainPot, Epot]; omega

/-- what one poll of a handshake-only endpoint task does -/
theorem side_poll {sc : Sched} {p : Peer} {b' : Nat} {fut : HsFut} {o : Ossl} {t : Task} {tp : Tp} {tx rx : Pipe}
    (ht : TaskHs t fut o) (hrest : Rest sc p b' fut o ⟨tp, tx, rx, false, false⟩)
    (hfuel : o.tape.length + o.post + 2 < sc.fuel) (hne : fut ≠ .done)
    (hnd : fut = .start →
      (sslDoHandshake sc sc.fuel { o with ctx := true } ⟨tp, tx, rx, false, false⟩).2.2 ≠ .ok ()) :
    ∃ t' v' r fut' o', pollTask sc sc.fuel t ⟨tp, tx, rx, false, false⟩ = (t', v', r) ∧
      Rest sc p b' fut' o' v' ∧ o'.me = o.me ∧ Mono ⟨tp, tx, rx, false, false⟩ v' ∧
      o'.tape.length + o'.post ≤ o.tape.length + o.post ∧ fut' ≠ .start ∧
      ((∃ pd, r = .pending pd ∧ TaskHs t' fut' o' ∧ fut' ≠ .done ∧ v'.tp.hsDone = false ∧
          Epot sc fut' o' v'.tp + K sc * b2n v'.wake + K sc * b2n v'.own + 1 ≤ Epot sc fut o tp + K sc ∧
          (v'.own = false → fut' = .mid ∧ v'.rx.q.toList = [] ∧ v'.rx.rwait = true ∧ v'.tp.wbuf.toList = [] ∧
            ∃ tl, o'.tape = o.me.other :: tl)) ∨
       (r = .done ∧ TaskDone t' o' ∧ fut' = .done ∧ v'.tp.hsDone = true ∧
          Epot sc .done o' v'.tp + K sc * b2n v'.wake + 1 ≤ Epot sc fut o tp)) := by
  obtain ⟨f, hf⟩ : ∃ f, sc.fuel = f + 2 := ⟨sc.fuel - 2, by omega⟩
  have hspec := pollHandshake_spec hrest (by omega) hne hnd
  have hS := Spot_eq sc fut o ⟨tp, tx, rx, false, false⟩
  simp only [b2n, Bool.false_eq_true, if_false, Nat.mul_zero, Nat.add_zero] at hS
  have hKdr := dr_lt_K sc
  conv => enter [1, t', 1, v', 1, r, 1, fut', 1, o', 1]; rw [hf, pollTask_hs sc f t _ ht]
  generalize TlsShim.pollHandshake sc fut o ⟨tp, tx, rx, false, false⟩ = res at hspec
  obtain ⟨fut', o', v', r⟩ := res
  obtain ⟨hrest', hme, hmono, hmeas, hfirst, hns, hres⟩ := hspec
  simp only at hrest' hme hmono hmeas hfirst hns hres
  have hS' := Spot_eq sc fut' o' v'
  cases r with
  | pending pd =>
    refine ⟨_, _, _, fut', o', rfl, hrest', hme, hmono, hmeas, hns, Or.inl ⟨pd, rfl, ?_, ?_, ?_, ?_, ?_⟩⟩
    · exact ⟨rfl, ht.pc, ht.steps, ht.idx, rfl⟩
    · cases pd with
      | self => exact hres.2.2
      | reg => rw [hres.1]; simp
    · have hph := hrest'.phase
      cases fut' with
      | start => exact absurd rfl hns
      | mid => exact hph.early
      | flush => exact hph.2.2.2
      | done =>
        cases pd with
        | self => exact absurd rfl hres.2.2
        | reg => have := hres.1; simp at this
      | failed => exact absurd hph id
    · cases pd with
      | self =>
        obtain ⟨hown, hdec, _⟩ := hres
        have hb : b2n v'.own = 1 := by simp [b2n, hown]
        rw [hb]
        omega
      | reg =>
        obtain ⟨_, hor, hdec, _⟩ := hres
        rcases hor with hstart | hown
        · have := hfirst hstart
          have hb := b2n_le v'.own
          have : K sc * b2n v'.own ≤ K sc := by
            have := Nat.mul_le_mul_left (K sc) hb; simpa using this
          omega
        · have hown' : v'.own = false := hown
          have hb : b2n v'.own = 0 := by simp [b2n, hown']
          rw [hb]
          omega
    · intro hown
      cases pd with
      | self => have := hres.1; rw [hown] at this; simp at this
      | reg =>
        obtain ⟨h1, _, _, h4, h5, h6, tl, h7⟩ := hres
        exact ⟨h1, h4, h5, h6, tl, h7⟩
  | ready u =>
    cases u
    obtain ⟨hfd, hdec, hhd, hcf⟩ := hres
    subst hfd
    refine ⟨_, _, _, .done, o', rfl, ?_, hme, ?_, hmeas, by simp, Or.inr ⟨rfl, ⟨rfl, rfl, rfl⟩, rfl, rfl, ?_⟩⟩
    · obtain ⟨hl, hc, hk, hph⟩ := hrest'
      refine ⟨⟨hl.lim, hl.direct, ?_, hl.open_tx, hl.open_rx, hl.clean, hl.nobuf⟩, hc, ?_, hph⟩
      · obtain ⟨h1, h2, _⟩ := hl.ctrok
        exact ⟨h1, h2, by simp [hcf]⟩
      · obtain ⟨a, b, a', hk⟩ := hk
        exact ⟨a, b, a', ⟨hk.tx, hk.txp, hk.rx, hk.rxp, hk.align⟩⟩
    · exact ⟨⟨hmono.1.1, hmono.1.2⟩, hmono.2⟩
    · simp only [Epot, ctr, flushDelay, hhd, hcf] at hS' ⊢
      simp only [Epot, ctr, flushDelay] at hS
      simp at hS' ⊢
      omega
  | err => exact absurd hres id
  | panic => exact absurd hres id

/-! ### helper facts about the tapes -/

/-- a server cell followed (somewhere later) by a client cell: the handshake has at least a client flight
after a server flight, so neither side can finish inside its first poll -/
def HasSC (l : List Side) : Prop := ∃ l1 l2, l = l1 ++ Side.server :: l2 ∧ Side.client ∈ l2

/-- the engine cannot finish while the peer still has a cell of its own to send -/
theorem not_ok_of {sc : Sched} {p : Peer} {b' : Nat} {o : Ossl} {v : View} (g : Good sc p b' o v)
    (hfuel : o.tape.length + o.post < sc.fuel) {x : Side} (hx : x ∈ p.tape) (hxo : x = o.me.other) :
    (sslDoHandshake sc sc.fuel o v).2.2 ≠ .ok () := by
  intro hok
  have hspec := doHs_spec sc p b' sc.fuel o v g hfuel
  obtain ⟨⟨_, _, _, a, b, a', hk⟩, hme, _, _, hres⟩ := hspec
  rw [hok] at hres
  simp only at hres
  have hal := hk.align
  rw [hres.1, hme] at hal
  rcases hal with ⟨X, h1, h2, _, _⟩ | ⟨Y, h1, _, _, _⟩
  · simp at h1
    rw [h1] at hx
    have := h2 x hx
    rw [hxo] at this
    exact Side.other_ne _ this
  · have : p.tape = [] := by
      have := congrArg List.length h1; simp at this
      exact List.eq_nil_of_length_eq_zero (by omega)
    rw [this] at hx; simp at hx

theorem client_cell_of {m p : List Side} {a a' : Nat} (h : Align .client m p a a') (hsc : HasSC p)
    (hlen : m.length ≤ p.length) : Side.client ∈ m := by
  obtain ⟨l1, l2, hp, hc⟩ := hsc
  rcases h with ⟨X, h1, h2, _, _⟩ | ⟨Y, h1, _, _, _⟩
  · rw [hp] at h1
    rcases List.append_eq_append_iff.1 h1 with ⟨a1, hX, hm⟩ | ⟨c1, _, hm⟩
    · cases a1 with
      | nil => simp at hm; rw [← hm]; simp [hc]
      | cons y ys =>
        simp only [List.cons_append, List.cons.injEq] at hm
        have : Side.server ∈ X := by rw [hX, ← hm.1]; simp
        have := h2 _ this
        simp at this
    · rw [hm]; simp [hc]
  · have hY : Y = [] := by
      have := congrArg List.length h1; simp at this
      exact List.eq_nil_of_length_eq_zero (by omega)
    subst hY
    simp at h1; rw [h1, hp]; simp [hc]

theorem server_cell_of_hasSC {l : List Side} (h : HasSC l) : Side.server ∈ l := by
  obtain ⟨l1, l2, hp, _⟩ := h; rw [hp]; simp

/-! ### the global invariant -/

def Sys.viewC (y : Sys) : View := ⟨y.tpC, y.c2s, y.s2c, false, false⟩
def Sys.viewS (y : Sys) : View := ⟨y.tpS, y.s2c, y.c2s, false, false⟩

/-- the phase clause of `Rest` -/
def PhaseOk (fut : HsFut) (o : Ossl) (v : View) : Prop :=
  match fut with
  | .start => Hs o v
  | .mid => Hs o v
  | .flush => o.handshaken = true ∧ o.tape = [] ∧ o.post = 0 ∧ v.tp.hsDone = false
  | .done => o.tape = [] ∧ o.post = 0 ∧ v.tp.wbuf.toList = []
  | .failed => False

structure InvW (y : Sys) (fc : HsFut) (oc : Ossl) (fs : HsFut) (os : Ossl) (a b a' b' : Nat) : Prop where
  tc : if y.doneC then TaskDone y.c oc ∧ fc = .done else TaskHs y.c fc oc ∧ fc ≠ .done
  ts : if y.doneS then TaskDone y.s os ∧ fs = .done else TaskHs y.s fs os ∧ fs ≠ .done
  mec : oc.me = .client
  mes : os.me = .server
  locC : Local y.sc oc y.viewC
  locS : Local y.sc os y.viewS
  ctxC : oc.ctx = false
  ctxS : os.ctx = false
  link : Link oc y.viewC ⟨os.tape, y.tpS.wbuf.toList⟩ a b a' b'
  phC : PhaseOk fc oc y.viewC
  phS : PhaseOk fs os y.viewS
  fuelC : oc.tape.length + oc.post + 2 < y.sc.fuel
  fuelS : os.tape.length + os.post + 2 < y.sc.fuel
  waitC : y.doneC = false → y.flagC = false →
    fc = .mid ∧ y.s2c.q.toList = [] ∧ y.s2c.rwait = true ∧ y.tpC.wbuf.toList = [] ∧ ∃ t, oc.tape = .server :: t
  waitS : y.doneS = false → y.flagS = false →
    fs = .mid ∧ y.c2s.q.toList = [] ∧ y.c2s.rwait = true ∧ y.tpS.wbuf.toList = [] ∧ ∃ t, os.tape = .client :: t
  startC : fc = .start → y.flagC = true ∧ fs = .start
  startS : fs = .start → y.flagS = true ∧ HasSC os.tape ∧ oc.tape.length + oc.post ≤ os.tape.length
  nopanic : y.panicked = false

def Inv (y : Sys) : Prop := ∃ fc oc fs os a b a' b', InvW y fc oc fs os a b a' b'

/-- the link seen from the server -/
theorem link_symm {oc os : Ossl} {vc vs : View} {a b a' b' : Nat} (hmc : oc.me = .client) (hms : os.me = .server)
    (htx : vs.tx = vc.rx) (hrx : vs.rx = vc.tx)
    (h : Link oc vc ⟨os.tape, vs.tp.wbuf.toList⟩ a b a' b') : Link os vs ⟨oc.tape, vc.tp.wbuf.toList⟩ a' b' a b := by
  obtain ⟨h1, h2, h3, h4, h5⟩ := h
  refine ⟨?_, h4, ?_, h2, ?_⟩
  · simp only [View.txs, htx]; simpa [View.rxs] using h3
  · simp only [View.rxs, hrx]; simpa [View.txs] using h1
  · have := h5.symm
    rw [hmc] at this
    rw [hms]; exact this

/-! ### irrelevance of the per-poll flags of a view -/

theorem local_review {sc : Sched} {o : Ossl} {v : View} (h : Local sc o v) (w x : Bool) :
    Local sc o ⟨v.tp, v.tx, v.rx, w, x⟩ :=
  ⟨h.lim, h.direct, h.ctrok, h.open_tx, h.open_rx, h.clean, h.nobuf⟩

theorem link_review {o : Ossl} {v : View} {p : Peer} {a b a' b' : Nat} (h : Link o v p a b a' b') (w x : Bool) :
    Link o ⟨v.tp, v.tx, v.rx, w, x⟩ p a b a' b' :=
  ⟨h.tx, h.txp, h.rx, h.rxp, h.align⟩

theorem phase_review {fut : HsFut} {o : Ossl} {v : View} (h : PhaseOk fut o v) (tx rx : Pipe) (w x : Bool) :
    PhaseOk fut o ⟨v.tp, tx, rx, w, x⟩ := by
  cases fut with
  | start => exact ⟨h.nohs, h.early, h.flushed⟩
  | mid => exact ⟨h.nohs, h.early, h.flushed⟩
  | flush => exact h
  | done => exact h
  | failed => exact h

theorem Rest.phaseOk {sc : Sched} {p : Peer} {b' : Nat} {fut : HsFut} {o : Ossl} {v : View}
    (h : Rest sc p b' fut o v) : PhaseOk fut o v := by
  have := h.phase
  cases fut <;> exact this

theorem PhaseOk.toRest {sc : Sched} {p : Peer} {b' : Nat} {fut : HsFut} {o : Ossl} {v : View}
    (hl : Local sc o v) (hc : o.ctx = false) (hk : ∃ a b a', Link o v p a b a' b') (h : PhaseOk fut o v) :
    Rest sc p b' fut o v := by
  refine ⟨hl, hc, hk, ?_⟩
  cases fut <;> exact h

theorem b2n_or_and (x w nd : Bool) : b2n ((x || w) && nd) ≤ b2n (x && nd) + b2n w := by
  cases x <;> cases w <;> cases nd <;> simp [b2n]

/-! ### the progress measure of the system -/

def Sys.phi (y : Sys) : Nat :=
  match y.c.s, y.s.s with
  | .ossl fc oc, .ossl fs os =>
    Epot y.sc fc oc y.tpC + Epot y.sc fs os y.tpS + K y.sc * b2n (y.flagC && !y.doneC)
      + K y.sc * b2n (y.flagS && !y.doneS)
  | _, _ => 0

theorem pollClient_pending (y : Sys) (t' : Task) (v' : View) (pd : Pend)
    (h : pollTask y.sc y.sc.fuel y.c ⟨y.tpC, y.c2s, y.s2c, false, false⟩ = (t', v', .pending pd)) :
    pollClient { y with flagC := false } =
      { y with c := t', tpC := v'.tp, c2s := v'.tx, s2c := v'.rx, polls := y.polls + 1,
               flagS := (y.flagS || v'.wake), flagC := v'.own } := by
  unfold pollClient
  simp [h]

theorem pollClient_done (y : Sys) (t' : Task) (v' : View)
    (h : pollTask y.sc y.sc.fuel y.c ⟨y.tpC, y.c2s, y.s2c, false, false⟩ = (t', v', .done)) :
    pollClient { y with flagC := false } =
      { y with c := t', tpC := v'.tp, c2s := v'.tx, s2c := v'.rx, polls := y.polls + 1,
               flagS := (y.flagS || v'.wake), flagC := v'.own, doneC := true } := by
  unfold pollClient
  simp [h]

theorem pollServer_pending (y : Sys) (t' : Task) (v' : View) (pd : Pend)
    (h : pollTask y.sc y.sc.fuel y.s ⟨y.tpS, y.s2c, y.c2s, false, false⟩ = (t', v', .pending pd)) :
    pollServer { y with flagS := false } =
      { y with s := t', tpS := v'.tp, s2c := v'.tx, c2s := v'.rx, polls := y.polls + 1,
               flagC := (y.flagC || v'.wake), flagS := v'.own } := by
  unfold pollServer
  simp [h]

theorem pollServer_done (y : Sys) (t' : Task) (v' : View)
    (h : pollTask y.sc y.sc.fuel y.s ⟨y.tpS, y.s2c, y.c2s, false, false⟩ = (t', v', .done)) :
    pollServer { y with flagS := false } =
      { y with s := t', tpS := v'.tp, s2c := v'.tx, c2s := v'.rx, polls := y.polls + 1,
               flagC := (y.flagC || v'.wake), flagS := v'.own, doneS := true } := by
  unfold pollServer
  simp [h]

theorem InvW.streamS {y : Sys} {fc : HsFut} {oc : Ossl} {fs : HsFut} {os : Ossl} {a b a' b' : Nat}
    (w : InvW y fc oc fs os a b a' b') : y.s.s = .ossl fs os := by
  have := w.ts
  split at this
  · rw [this.2]; exact this.1.s
  · exact this.1.s

theorem InvW.streamC {y : Sys} {fc : HsFut} {oc : Ossl} {fs : HsFut} {os : Ossl} {a b a' b' : Nat}
    (w : InvW y fc oc fs os a b a' b') : y.c.s = .ossl fc oc := by
  have := w.tc
  split at this
  · rw [this.2]; exact this.1.s
  · exact this.1.s

theorem mul_b2n_le (k : Nat) (b : Bool) : k * b2n b ≤ k := by
  have := Nat.mul_le_mul_left k (b2n_le b); simpa using this

/-- **a poll of the client** preserves the invariant and lowers the progress measure -/
theorem client_step {y : Sys} (h : Inv y) (hf : y.flagC = true) (hd : y.doneC = false) :
    Inv (pollClient { y with flagC := false }) ∧ (pollClient { y with flagC := false }).phi < y.phi ∧
      (∀ fc oc, (pollClient { y with flagC := false }).c.s = .ossl fc oc → fc ≠ .start) := by
  obtain ⟨fc, oc, fs, os, a, b, a', b', w⟩ := h
  have htc := w.tc
  simp only [hd, Bool.false_eq_true, if_false] at htc
  obtain ⟨htask, hnd⟩ := htc
  have hrest : Rest y.sc ⟨os.tape, y.tpS.wbuf.toList⟩ b' fc oc ⟨y.tpC, y.c2s, y.s2c, false, false⟩ :=
    PhaseOk.toRest w.locC w.ctxC ⟨a, b, a', w.link⟩ w.phC
  have hnotok : fc = .start →
      (sslDoHandshake y.sc y.sc.fuel { oc with ctx := true } ⟨y.tpC, y.c2s, y.s2c, false, false⟩).2.2 ≠ .ok () := by
    intro hst
    have hss := (w.startS (w.startC hst).2).2.1
    have hph : Hs oc y.viewC := by have := w.phC; rw [hst] at this; exact this
    refine not_ok_of (p := ⟨os.tape, y.tpS.wbuf.toList⟩) (b' := b') (x := .server) ?_ ?_ (server_cell_of_hasSC hss) ?_
    · exact ⟨⟨w.locC.lim, w.locC.direct, w.locC.ctrok, w.locC.open_tx, w.locC.open_rx, w.locC.clean, w.locC.nobuf⟩,
        ⟨hph.nohs, hph.early, hph.flushed⟩, rfl, a, b, a',
        ⟨w.link.tx, w.link.txp, w.link.rx, w.link.rxp, w.link.align⟩⟩
    · have := w.fuelC; simp only; omega
    · simp [w.mec, Side.other]
  obtain ⟨t', v', r, fut', o', heq, hrest', hme, hmono, hmeas, hns, hcases⟩ :=
    side_poll htask hrest w.fuelC hnd hnotok
  have hme' : o'.me = .client := hme.trans w.mec
  obtain ⟨hl', hc', ⟨a2, b2, a2', hk'⟩, _⟩ := hrest'
  have hph' := (Rest.phaseOk (sc := y.sc) (p := ⟨os.tape, y.tpS.wbuf.toList⟩) (b' := b')
    ⟨hl', hc', ⟨a2, b2, a2', hk'⟩, ‹_›⟩)
  have hphi : y.phi = Epot y.sc fc oc y.tpC + Epot y.sc fs os y.tpS + K y.sc * b2n (y.flagC && !y.doneC)
      + K y.sc * b2n (y.flagS && !y.doneS) := by
    have h1 : y.c.s = .ossl fc oc := htask.s
    have h2 : y.s.s = .ossl fs os := w.streamS
    simp only [Sys.phi, h1, h2]
  have hlocS' : Local y.sc os ⟨y.tpS, v'.rx, v'.tx, false, false⟩ :=
    ⟨w.locS.lim, w.locS.direct, w.locS.ctrok, hl'.open_rx, hl'.open_tx, w.locS.clean, w.locS.nobuf⟩
  have hwaitS' : y.doneS = false → (y.flagS || v'.wake) = false →
      fs = .mid ∧ v'.tx.q.toList = [] ∧ v'.tx.rwait = true ∧ y.tpS.wbuf.toList = [] ∧ ∃ t, os.tape = .client :: t := by
    intro hds hfl
    have hfs : y.flagS = false := by cases hx : y.flagS <;> simp [hx] at hfl ⊢
    have hwk : v'.wake = false := by cases hx : v'.wake <;> simp [hx] at hfl ⊢
    obtain ⟨g1, g2, g3, g4, g5⟩ := w.waitS hds hfs
    obtain ⟨e1, e2⟩ := hmono.1.2 hwk g3
    exact ⟨g1, by rw [e1]; exact g2, e2, g4, g5⟩
  have hstartS' : fs = .start → (y.flagS || v'.wake) = true ∧ HasSC os.tape ∧ o'.tape.length + o'.post ≤ os.tape.length := by
    intro hst
    obtain ⟨g1, g2, g3⟩ := w.startS hst
    exact ⟨by simp [g1], g2, by omega⟩
  rcases hcases with ⟨pd, hr, htask', hnd', hhd', hpot, hwait⟩ | ⟨hr, htd, hfd, hhd', hpot⟩
  · subst hr
    rw [pollClient_pending y t' v' pd heq]
    refine ⟨?_, ?_, ?_⟩
    rotate_left 2
    · intro fc2 oc2 hs2
      have h1 : t'.s = .ossl fut' o' := htask'.s
      simp only [h1, Stream.ossl.injEq] at hs2
      rw [← hs2.1]; exact hns
    · refine ⟨fut', o', fs, os, a2, b2, a2', b', ?_⟩
      refine ⟨?_, w.ts, hme', w.mes, local_review hl' false false, hlocS', hc', w.ctxS, link_review hk' false false,
        phase_review hph' _ _ false false, phase_review w.phS _ _ false false,
        (by have := w.fuelC; show o'.tape.length + o'.post + 2 < y.sc.fuel; omega), w.fuelS, ?_, hwaitS', ?_, hstartS', w.nopanic⟩
      · simp only [hd, Bool.false_eq_true, if_false]; exact ⟨htask', hnd'⟩
      · intro _ hown
        obtain ⟨g1, g2, g3, g4, tl, g5⟩ := hwait hown
        exact ⟨g1, g2, g3, g4, tl, by rw [g5, w.mec]; rfl⟩
      · intro hst; exact absurd hst hns
    · have h1 : t'.s = .ossl fut' o' := htask'.s
      have h2 : y.s.s = .ossl fs os := w.streamS
      rw [hphi]
      simp only [Sys.phi, h1, h2]
      have hb := b2n_or_and y.flagS v'.wake (!y.doneS)
      have hk1 := Nat.mul_le_mul_left (K y.sc) hb
      rw [Nat.mul_add] at hk1
      have hA : b2n (y.flagC && !y.doneC) = 1 := by simp [hf, hd, b2n]
      have hB : b2n (v'.own && !y.doneC) = b2n v'.own := by simp [hd]
      rw [hA, hB]
      omega
  · subst hr
    subst hfd
    rw [pollClient_done y t' v' heq]
    refine ⟨?_, ?_, ?_⟩
    rotate_left 2
    · intro fc2 oc2 hs2
      have h1 : t'.s = .ossl .done o' := htd.s
      simp only [h1, Stream.ossl.injEq] at hs2
      rw [← hs2.1]; simp
    · refine ⟨.done, o', fs, os, a2, b2, a2', b', ?_⟩
      refine ⟨?_, w.ts, hme', w.mes, local_review hl' false false, hlocS', hc', w.ctxS, link_review hk' false false,
        phase_review hph' _ _ false false, phase_review w.phS _ _ false false,
        (by have := w.fuelC; show o'.tape.length + o'.post + 2 < y.sc.fuel; omega), w.fuelS, ?_, hwaitS', ?_, hstartS', w.nopanic⟩
      · simp only [if_true]; exact ⟨htd, trivial⟩
      · intro hdc; simp at hdc
      · intro hst; simp at hst
    · have h1 : t'.s = .ossl .done o' := htd.s
      have h2 : y.s.s = .ossl fs os := w.streamS
      rw [hphi]
      simp only [Sys.phi, h1, h2]
      have hb := b2n_or_and y.flagS v'.wake (!y.doneS)
      have hk1 := Nat.mul_le_mul_left (K y.sc) hb
      rw [Nat.mul_add] at hk1
      have hA : b2n (y.flagC && !y.doneC) = 1 := by simp [hf, hd, b2n]
      have hB : b2n (v'.own && !true) = 0 := by simp [b2n]
      rw [hA, hB]
      omega

/-- the link seen from the client again -/
theorem link_symm' {oc os : Ossl} {vc vs : View} {a b a' b' : Nat} (hmc : oc.me = .client) (hms : os.me = .server)
    (htx : vc.tx = vs.rx) (hrx : vc.rx = vs.tx)
    (h : Link os vs ⟨oc.tape, vc.tp.wbuf.toList⟩ a' b' a b) : Link oc vc ⟨os.tape, vs.tp.wbuf.toList⟩ a b a' b' := by
  obtain ⟨h1, h2, h3, h4, h5⟩ := h
  refine ⟨?_, h4, ?_, h2, ?_⟩
  · simp only [View.txs, htx]; simpa [View.rxs] using h3
  · simp only [View.rxs, hrx]; simpa [View.txs] using h1
  · have := h5.symm
    rw [hms] at this
    rw [hmc]; exact this

/-- **a poll of the server** preserves the invariant and lowers the progress measure (the client has been
polled at least once before: in `round` the client comes first) -/
theorem server_step {y : Sys} (h : Inv y) (hf : y.flagS = true) (hd : y.doneS = false)
    (hcs : ∀ fc oc, y.c.s = .ossl fc oc → fc ≠ .start) :
    Inv (pollServer { y with flagS := false }) ∧ (pollServer { y with flagS := false }).phi < y.phi := by
  obtain ⟨fc, oc, fs, os, a, b, a', b', w⟩ := h
  have hfc : fc ≠ .start := hcs fc oc w.streamC
  have hts := w.ts
  simp only [hd, Bool.false_eq_true, if_false] at hts
  obtain ⟨htask, hnd⟩ := hts
  have hlinkS : Link os ⟨y.tpS, y.s2c, y.c2s, false, false⟩ ⟨oc.tape, y.tpC.wbuf.toList⟩ a' b' a b :=
    link_symm (vc := y.viewC) (vs := ⟨y.tpS, y.s2c, y.c2s, false, false⟩) w.mec w.mes rfl rfl w.link
  have hrest : Rest y.sc ⟨oc.tape, y.tpC.wbuf.toList⟩ b fs os ⟨y.tpS, y.s2c, y.c2s, false, false⟩ :=
    PhaseOk.toRest w.locS w.ctxS ⟨a', b', a, hlinkS⟩ w.phS
  have hnotok : fs = .start →
      (sslDoHandshake y.sc y.sc.fuel { os with ctx := true } ⟨y.tpS, y.s2c, y.c2s, false, false⟩).2.2 ≠ .ok () := by
    intro hst
    obtain ⟨_, hsc, hlen⟩ := w.startS hst
    have hal : Align .client oc.tape os.tape a a' := by have := w.link.align; rw [w.mec] at this; exact this
    have hcell := client_cell_of hal hsc (by omega)
    have hph : Hs os y.viewS := by have := w.phS; rw [hst] at this; exact this
    refine not_ok_of (p := ⟨oc.tape, y.tpC.wbuf.toList⟩) (b' := b) (x := .client) ?_ ?_ hcell ?_
    · exact ⟨⟨w.locS.lim, w.locS.direct, w.locS.ctrok, w.locS.open_tx, w.locS.open_rx, w.locS.clean, w.locS.nobuf⟩,
        ⟨hph.nohs, hph.early, hph.flushed⟩, rfl, a', b', a,
        ⟨hlinkS.tx, hlinkS.txp, hlinkS.rx, hlinkS.rxp, hlinkS.align⟩⟩
    · have := w.fuelS; simp only; omega
    · simp [w.mes, Side.other]
  obtain ⟨t', v', r, fut', o', heq, hrest', hme, hmono, hmeas, hns, hcases⟩ :=
    side_poll htask hrest w.fuelS hnd hnotok
  have hme' : o'.me = .server := hme.trans w.mes
  obtain ⟨hl', hc', ⟨a2', b2', a2, hk'⟩, hphase'⟩ := hrest'
  have hph' := (Rest.phaseOk (sc := y.sc) (p := ⟨oc.tape, y.tpC.wbuf.toList⟩) (b' := b)
    ⟨hl', hc', ⟨a2', b2', a2, hk'⟩, hphase'⟩)
  have hphi : y.phi = Epot y.sc fc oc y.tpC + Epot y.sc fs os y.tpS + K y.sc * b2n (y.flagC && !y.doneC)
      + K y.sc * b2n (y.flagS && !y.doneS) := by
    simp only [Sys.phi, w.streamC, w.streamS]
  have hlocC' : Local y.sc oc ⟨y.tpC, v'.rx, v'.tx, false, false⟩ :=
    ⟨w.locC.lim, w.locC.direct, w.locC.ctrok, hl'.open_rx, hl'.open_tx, w.locC.clean, w.locC.nobuf⟩
  have hlinkC' : Link oc ⟨y.tpC, v'.rx, v'.tx, false, false⟩ ⟨o'.tape, v'.tp.wbuf.toList⟩ a2 b a2' b2' :=
    link_symm' (vc := ⟨y.tpC, v'.rx, v'.tx, false, false⟩) (vs := v') w.mec hme' rfl rfl hk'
  have hwaitC' : y.doneC = false → (y.flagC || v'.wake) = false →
      fc = .mid ∧ v'.tx.q.toList = [] ∧ v'.tx.rwait = true ∧ y.tpC.wbuf.toList = [] ∧ ∃ t, oc.tape = .server :: t := by
    intro hds hfl
    have hfs : y.flagC = false := by cases hx : y.flagC <;> simp [hx] at hfl ⊢
    have hwk : v'.wake = false := by cases hx : v'.wake <;> simp [hx] at hfl ⊢
    obtain ⟨g1, g2, g3, g4, g5⟩ := w.waitC hds hfs
    obtain ⟨e1, e2⟩ := hmono.1.2 hwk g3
    exact ⟨g1, by rw [e1]; exact g2, e2, g4, g5⟩
  have hstartC' : fc = .start → (y.flagC || v'.wake) = true ∧ fut' = .start := fun hst => absurd hst hfc
  rcases hcases with ⟨pd, hr, htask', hnd', hhd', hpot, hwait⟩ | ⟨hr, htd, hfd, hhd', hpot⟩
  · subst hr
    rw [pollServer_pending y t' v' pd heq]
    constructor
    · refine ⟨fc, oc, fut', o', a2, b, a2', b2', ?_⟩
      refine ⟨w.tc, ?_, w.mec, hme', hlocC', local_review hl' false false, w.ctxC, hc', hlinkC',
        phase_review w.phC _ _ false false, phase_review hph' _ _ false false, w.fuelC,
        (by have := w.fuelS; show o'.tape.length + o'.post + 2 < y.sc.fuel; omega), hwaitC', ?_, hstartC', ?_, w.nopanic⟩
      · simp only [hd, Bool.false_eq_true, if_false]; exact ⟨htask', hnd'⟩
      · intro _ hown
        obtain ⟨g1, g2, g3, g4, tl, g5⟩ := hwait hown
        exact ⟨g1, g2, g3, g4, tl, by rw [g5, w.mes]; rfl⟩
      · intro hst; exact absurd hst hns
    · have h1 : t'.s = .ossl fut' o' := htask'.s
      rw [hphi]
      simp only [Sys.phi, h1, w.streamC]
      have hb := b2n_or_and y.flagC v'.wake (!y.doneC)
      have hk1 := Nat.mul_le_mul_left (K y.sc) hb
      rw [Nat.mul_add] at hk1
      have hA : b2n (y.flagS && !y.doneS) = 1 := by simp [hf, hd, b2n]
      have hB : b2n (v'.own && !y.doneS) = b2n v'.own := by simp [hd]
      rw [hA, hB]
      omega
  · subst hr
    subst hfd
    rw [pollServer_done y t' v' heq]
    constructor
    · refine ⟨fc, oc, .done, o', a2, b, a2', b2', ?_⟩
      refine ⟨w.tc, ?_, w.mec, hme', hlocC', local_review hl' false false, w.ctxC, hc', hlinkC',
        phase_review w.phC _ _ false false, phase_review hph' _ _ false false, w.fuelC,
        (by have := w.fuelS; show o'.tape.length + o'.post + 2 < y.sc.fuel; omega), hwaitC', ?_, hstartC', ?_, w.nopanic⟩
      · simp only [if_true]; exact ⟨htd, trivial⟩
      · intro hdc; simp at hdc
      · intro hst; simp at hst
    · have h1 : t'.s = .ossl .done o' := htd.s
      rw [hphi]
      simp only [Sys.phi, h1, w.streamC]
      have hb := b2n_or_and y.flagC v'.wake (!y.doneC)
      have hk1 := Nat.mul_le_mul_left (K y.sc) hb
      rw [Nat.mul_add] at hk1
      have hA : b2n (y.flagS && !y.doneS) = 1 := by simp [hf, hd, b2n]
      have hB : b2n (v'.own && !true) = 0 := by simp [b2n]
      rw [hA, hB]
      omega

theorem hsN_postN_nil {a b : Nat} (h : [] = hsN a ++ postN b) : a = 0 ∧ b = 0 := by
  have := congrArg List.length h
  rw [length_hsN_postN] at this
  simp at this; omega

/-- **no deadlock**: an unfinished system always has a task whose wake flag is set -/
theorem runnable_of_inv {y : Sys} (h : Inv y) (hnd : y.allDone = false) : y.runnable = true := by
  obtain ⟨fc, oc, fs, os, a, b, a', b', w⟩ := h
  cases hr : y.runnable with
  | true => rfl
  | false =>
    exfalso
    simp only [Sys.runnable, Bool.or_eq_false_iff, Bool.and_eq_false_iff, Bool.not_eq_false'] at hr
    simp only [Sys.allDone, Bool.and_eq_false_iff] at hnd
    have htx := w.link.tx
    have hrx := w.link.rx
    have hal : Align .client oc.tape os.tape a a' := by have := w.link.align; rw [w.mec] at this; exact this
    simp only [View.txs, View.rxs, Sys.viewC] at htx hrx
    -- facts about a finished side
    have hdoneS : y.doneS = true → os.tape = [] ∧ y.tpS.wbuf.toList = [] := by
      intro hd
      have hts := w.ts
      simp only [hd, if_true] at hts
      have hph := w.phS
      rw [hts.2] at hph
      exact ⟨hph.1, hph.2.2⟩
    have hdoneC : y.doneC = true → oc.tape = [] ∧ y.tpC.wbuf.toList = [] := by
      intro hd
      have htc := w.tc
      simp only [hd, if_true] at htc
      have hph := w.phC
      rw [htc.2] at hph
      exact ⟨hph.1, hph.2.2⟩
    cases hdc : y.doneC with
    | false =>
      have hfc : y.flagC = false := by
        rcases hr.1 with h1 | h1
        · exact h1
        · rw [hdc] at h1; simp at h1
      obtain ⟨_, c2, _, c4, tc, c5⟩ := w.waitC hdc hfc
      cases hds : y.doneS with
      | false =>
        have hfs : y.flagS = false := by
          rcases hr.2 with h1 | h1
          · exact h1
          · rw [hds] at h1; simp at h1
        obtain ⟨_, s2, _, s4, ts, s5⟩ := w.waitS hds hfs
        rw [s2, c4] at htx
        rw [c2, s4] at hrx
        have ha := (hsN_postN_nil htx).1
        have ha' := (hsN_postN_nil hrx).1
        subst ha; subst ha'
        rcases hal with ⟨X, h1, _, h3, _⟩ | ⟨Y, h1, _, h3, _⟩
        · have : X = [] := List.eq_nil_of_length_eq_zero h3
          subst this
          rw [c5, s5] at h1; simp at h1
        · have : Y = [] := List.eq_nil_of_length_eq_zero h3
          subst this
          rw [c5, s5] at h1; simp at h1
      | true =>
        obtain ⟨d1, d2⟩ := hdoneS hds
        rw [c2, d2] at hrx
        have ha' := (hsN_postN_nil hrx).1
        subst ha'
        rw [d1, c5] at hal
        rcases hal with ⟨X, h1, _, _, _⟩ | ⟨Y, h1, _, h3, _⟩
        · simp at h1
        · have : Y = [] := List.eq_nil_of_length_eq_zero h3
          subst this; simp at h1
    | true =>
      have hds : y.doneS = false := by
        rcases hnd with h1 | h1
        · rw [hdc] at h1; simp at h1
        · exact h1
      have hfs : y.flagS = false := by
        rcases hr.2 with h1 | h1
        · exact h1
        · rw [hds] at h1; simp at h1
      obtain ⟨_, s2, _, _, ts, s5⟩ := w.waitS hds hfs
      obtain ⟨d1, d2⟩ := hdoneC hdc
      rw [s2, d2] at htx
      have ha := (hsN_postN_nil htx).1
      subst ha
      rw [d1, s5] at hal
      rcases hal with ⟨X, h1, _, h3, _⟩ | ⟨Y, h1, _, _, _⟩
      · have : X = [] := List.eq_nil_of_length_eq_zero h3
        subst this; simp at h1
      · simp at h1

/-- **one pass of the executor** over an unfinished system -/
theorem round_step {y : Sys} (h : Inv y) (hr : y.runnable = true) : Inv (round y) ∧ (round y).phi < y.phi := by
  unfold round
  by_cases hc : (y.flagC && !y.doneC) = true
  · have hf : y.flagC = true := by cases hx : y.flagC <;> simp [hx] at hc ⊢
    have hd : y.doneC = false := by cases hx : y.doneC <;> simp [hx] at hc ⊢
    obtain ⟨hi1, hp1, hns⟩ := client_step h hf hd
    simp only [hc, if_true]
    generalize pollClient { y with flagC := false } = y1 at hi1 hp1 hns
    by_cases hs : (y1.flagS && !y1.doneS) = true
    · have hf1 : y1.flagS = true := by cases hx : y1.flagS <;> simp [hx] at hs ⊢
      have hd1 : y1.doneS = false := by cases hx : y1.doneS <;> simp [hx] at hs ⊢
      obtain ⟨hi2, hp2⟩ := server_step hi1 hf1 hd1 hns
      simp only [hs, if_true]
      exact ⟨hi2, by omega⟩
    · simp only [hs, Bool.false_eq_true, if_false]
      exact ⟨hi1, hp1⟩
  · simp only [hc, Bool.false_eq_true, if_false]
    have hs : (y.flagS && !y.doneS) = true := by
      simp only [Sys.runnable, Bool.or_eq_true] at hr
      rcases hr with h1 | h1
      · exact absurd h1 hc
      · exact h1
    have hf1 : y.flagS = true := by cases hx : y.flagS <;> simp [hx] at hs ⊢
    have hd1 : y.doneS = false := by cases hx : y.doneS <;> simp [hx] at hs ⊢
    have hns : ∀ fc oc, y.c.s = .ossl fc oc → fc ≠ .start := by
      obtain ⟨fc, oc, fs, os, a, b, a', b', w⟩ := h
      intro fc2 oc2 hs2 hst
      rw [w.streamC] at hs2
      simp only [Stream.ossl.injEq] at hs2
      rw [← hs2.1] at hst
      have hfl := (w.startC hst).1
      have htc := w.tc
      cases hdc : y.doneC with
      | true => simp only [hdc, if_true] at htc; rw [htc.2] at hst; simp at hst
      | false => rw [hfl, hdc] at hc; simp at hc
    simp only [hs, if_true]
    exact server_step h hf1 hd1 hns

/-- **termination of the executor loop**: with more fuel than the progress measure, `run` ends with both
tasks finished -/
theorem run_done : ∀ (fuel : Nat) (y : Sys), Inv y → y.phi < fuel →
    (run fuel y).2 = .done ∧ Inv (run fuel y).1 ∧ (run fuel y).1.allDone = true := by
  intro fuel
  induction fuel with
  | zero => intro y _ h; omega
  | succ fuel ih =>
    intro y hi hp
    rw [run]
    by_cases hd : y.allDone = true
    · simp only [hd, if_true]; exact ⟨trivial, hi, trivial⟩
    · have hd' : y.allDone = false := by simpa using hd
      have hr := runnable_of_inv hi hd'
      simp only [hd', Bool.false_eq_true, if_false, hr, Bool.not_true]
      obtain ⟨hi2, hp2⟩ := round_step hi hr
      exact ih _ hi2 (by omega)

/-- explicit bound on the number of executor passes of a handshake: `O((delays + 1) * (cells + post))` -/
def hsBound (sc : Sched) (tape : List Side) (post : Nat) : Nat :=
  2 * K sc * (3 * (tape.length + 0)) + 2 * K sc * (3 * (tape.length + post)) + 2 * (sc.dr + sc.dw + sc.dfh)
    + 26 * K sc + 1

/-- the initial state of a handshake-only run satisfies the invariant -/
theorem init_inv (sc : Sched) (tape : List Side) (post : Nat) (hlim : 1 ≤ sc.lim) (hdir : sc.astream = false)
    (hwf : HasSC tape) (hfuel : tape.length + post + 2 < sc.fuel) :
    Inv (Sys.init sc false tape post [] []) ∧ (Sys.init sc false tape post [] []).phi < hsBound sc tape post := by
  constructor
  · refine ⟨.start, Ossl.new .client tape 0, .start, Ossl.new .server tape post, 0, 0, 0, 0, ?_⟩
    have hctr : CtrOk sc Tp.new := by simp [CtrOk, Tp.new]
    refine ⟨?_, ?_, rfl, rfl, ?_, ?_, rfl, rfl, ?_, ?_, ?_, ?_, ?_, ?_, ?_, ?_, ?_, rfl⟩
    · simp [Sys.init, Sys.initX, mkTask, mkStream]
      exact ⟨rfl, rfl, rfl, rfl, rfl⟩
    · simp [Sys.init, Sys.initX, mkTask, mkStream]
      exact ⟨rfl, rfl, rfl, rfl, rfl⟩
    · exact ⟨hlim, hdir, hctr, rfl, rfl, ⟨rfl, rfl, rfl⟩, fun _ => rfl⟩
    · exact ⟨hlim, hdir, hctr, rfl, rfl, ⟨rfl, rfl, rfl⟩, fun _ => rfl⟩
    · refine ⟨rfl, fun _ => rfl, rfl, fun _ => rfl, ?_⟩
      left; exact ⟨[], rfl, by simp, rfl, rfl⟩
    · exact ⟨rfl, rfl, fun _ => rfl⟩
    · exact ⟨rfl, rfl, fun _ => rfl⟩
    · simp [Sys.init, Sys.initX, Ossl.new]; omega
    · simp [Sys.init, Sys.initX, Ossl.new]; omega
    · intro _ h; simp [Sys.init, Sys.initX] at h
    · intro _ h; simp [Sys.init, Sys.initX] at h
    · intro _; exact ⟨rfl, rfl⟩
    · intro _; exact ⟨rfl, hwf, by simp [Ossl.new]⟩
  · simp only [Sys.phi, Sys.init, Sys.initX, mkTask, mkStream, Bool.false_eq_true, if_false, Epot, Ossl.new, Tp.new, ctr,
      flushDelay, rank, hsBound, b2n, Q.length, Q.empty]
    simp
    have h1 := K4 sc 2
    omega

end Compio.TlsSys
