/-
Preservation of `Inv`, part B: the coverage facts (a queued id / a woken main future is covered by the flag).
-/
import Compio.Lemmas.WakeInvA

namespace Compio.Wake
open Compio.TaskWord Compio.Gen

set_option maxRecDepth 4000 in
set_option maxHeartbeats 4000000 in
theorem g3_rt (s s' : State) (e : RtEv) (h : Inv s) (hs : rtStep s e = some s') :
    (s'.sync ≠ [] → cov s' = true ∨ 0 < cnt s' aboutP) ∧
    (∀ w, (s'.wk w).kind = .main → inflightP (s'.wk w) = true → (s'.wk w).seq0 ≤ s'.mainSeq) ∧
    (∀ w, (s'.wk w).kind = .main → inflightP (s'.wk w) = true → (s'.wk w).seq0 = s'.mainSeq → covM s' = true) ∧
    (s'.mainWoken = true → covM s' = true) := by
  have h1 := h.covSync
  have h2 := h.mseqLe
  have h3 := h.covMainW
  have h4 := h.covMain
  have hp := h.pend
  have hf := h.flagLe
  have hwn := wake_nbit hf
  have hrs := reset_snd hf
  have hx := h.extOnly
  have hsync : s.pending = 0 → s.sync = [] := by
    intro h0
    have : s.sync.length = 0 := by omega
    exact List.eq_nil_of_length_eq_zero this
  rt_step hs
  all_goals (refine ⟨?_, ?_, ?_, ?_⟩)
  all_goals (try (first | exact h1 | exact h2 | exact h3 | exact h4))
  all_goals (try (simp only [cnt, cov, covM, covOf, phase, mphase, retPhase, backPhase, reset_fst, set_eq, drained, extPc] at *; grind [nbit]))

set_option maxRecDepth 4000 in
set_option maxHeartbeats 4000000 in
theorem g3_w (s s' : State) (w : Nat) (hw : w < s.cfg.nw) (hrw : s.cfg.rewake = true) (h : Inv s)
    (hs : wStep s w = some s') :
    (s'.sync ≠ [] → cov s' = true ∨ 0 < cnt s' aboutP) ∧
    (∀ w, (s'.wk w).kind = .main → inflightP (s'.wk w) = true → (s'.wk w).seq0 ≤ s'.mainSeq) ∧
    (∀ w, (s'.wk w).kind = .main → inflightP (s'.wk w) = true → (s'.wk w).seq0 = s'.mainSeq → covM s' = true) ∧
    (s'.mainWoken = true → covM s' = true) := by
  have h1 := h.covSync
  have h2 := h.mseqLe
  have h3 := h.covMainW
  have h4 := h.covMain
  have hf := h.flagLe
  have hwn := wake_nbit hf
  have hnpw := h.notPushed w
  have h2w := h.mseqLe w
  have h3w := h.covMainW w
  simp only [cnt, cntUpTo_split _ _ _ _ hw] at h1
  w_step hs
  all_goals (refine ⟨?_, ?_, ?_, ?_⟩)
  all_goals (try (first | exact h2 | exact h3 | exact h4))
  all_goals (try (simp only [cnt, cntUpTo_split _ _ _ _ hw, cntExcept_upd, upd_same, upd, aboutP, inflightP, prePush, cov, covM, covOf] at *; grind [nbit]))

end Compio.Wake
