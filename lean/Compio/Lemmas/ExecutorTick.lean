/-
The loop of `Executor::tick` (prefetching hot-queue iterator): induction principle, preservation of the
invariant, FIFO order, progress of every hot task, exact poll accounting.
-/
import Compio.Lemmas.Executor

namespace Compio.Executor
open Compio.TaskWord Compio.Gen
set_option linter.unusedSimpArgs false
set_option linter.unusedVariables false

/-! ## The loop of `tick` -/

theorem tickLoop_zero (c : Option Nat) (e : Exec) (log : List Nat) : tickLoop 0 c e log = (e, log) := by
  simp [tickLoop]

theorem tickLoop_none (n : Nat) (e : Exec) (log : List Nat) : tickLoop n none e log = (e, log) := by
  cases n <;> simp [tickLoop]

theorem tickLoop_succ (n id : Nat) (e : Exec) (log : List Nat) :
    tickLoop (n + 1) (some id) e log =
      tickLoop n (nextHot e.hot id) (tickStep e id).1 (if (tickStep e id).2 then log ++ [id] else log) := by
  simp [tickLoop]

/-- the log is only appended to -/
theorem tickLoop_log (n : Nat) : ∀ (c : Option Nat) (e : Exec) (log : List Nat),
    tickLoop n c e log = ((tickLoop n c e []).1, log ++ (tickLoop n c e []).2) := by
  induction n with
  | zero => intro c e log; simp [tickLoop_zero]
  | succ n ih =>
    intro c e log
    cases c with
    | none => simp [tickLoop_none]
    | some id =>
      rw [tickLoop_succ, tickLoop_succ, ih _ _ (if (tickStep e id).2 then log ++ [id] else log),
        ih _ _ (if (tickStep e id).2 then [] ++ [id] else [])]
      cases (tickStep e id).2 <;> simp

theorem nextHot_head (id : Nat) (rest : List Nat) : nextHot (id :: rest) id = rest.head? := by
  simp [nextHot]

/-- induction principle for the loop of `tick` started at the head of the hot list: the cursor always is
the head of the current hot list (the prefetched successor), and the loop ends early only when the list
had a single element left -/
theorem tickLoop_induct (P : Nat → Exec → Exec × List Nat → Prop)
    (h0 : ∀ e, Inv e → P 0 e (e, []))
    (hnil : ∀ n e, Inv e → e.hot = [] → P n e (e, []))
    (hlast : ∀ n e id t, Inv e → e.hot = [id] → e.get? id = some t → StepFacts e id [] t (tickStep e id) →
        P (n + 1) e ((tickStep e id).1, if (tickStep e id).2 then [id] else []))
    (hstep : ∀ n e id rest t r, Inv e → e.hot = id :: rest → rest ≠ [] → e.get? id = some t →
        StepFacts e id rest t (tickStep e id) →
        r = tickLoop n (tickStep e id).1.hot.head? (tickStep e id).1 [] → P n (tickStep e id).1 r →
        P (n + 1) e (r.1, (if (tickStep e id).2 then [id] else []) ++ r.2)) :
    ∀ n e, Inv e → P n e (tickLoop n e.hot.head? e []) := by
  intro n
  induction n with
  | zero => intro e h; rw [tickLoop_zero]; exact h0 e h
  | succ n ih =>
    intro e h
    rcases hh : e.hot with _ | ⟨id, rest⟩
    · simp only [List.head?_nil, tickLoop_none]; exact hnil _ e h hh
    · obtain ⟨t, hg, _, sf⟩ := tickStep_facts h hh
      simp only [List.head?_cons]
      rw [tickLoop_succ, hh, nextHot_head]
      rcases rest with _ | ⟨y, ys⟩
      · simp only [List.head?_nil, tickLoop_none, List.nil_append]
        exact hlast n e id t h hh hg sf
      · have hhd : (y :: ys).head? = (tickStep e id).1.hot.head? := by
          obtain ⟨w, h1⟩ := sf.hot
          rw [h1]; simp
        rw [hhd, tickLoop_log]
        have := hstep n e id (y :: ys) t _ h hh (by simp) hg sf rfl (ih _ sf.inv)
        simpa using this

theorem tickLoop_inv (n : Nat) (e : Exec) (h : Inv e) : Inv (tickLoop n e.hot.head? e []).1 := by
  refine tickLoop_induct (fun _ _ r => Inv r.1) ?_ ?_ ?_ ?_ n e h
  · intro e h; exact h
  · intro _ e h _; exact h
  · intro _ e id t h hh hg sf; exact sf.inv
  · intro _ e id rest t r h hh hne hg sf _ hr; exact hr

/-- task `x` exists and is not cancelled -/
def liveIn (e : Exec) (x : Nat) : Prop := ∃ t, e.get? x = some t ∧ t.word.notCancelled = true
/-- task `x` exists and is cancelled (handle dropped / `cancel` called / dropped by the executor) -/
def cancelledIn (e : Exec) (x : Nat) : Prop := ∃ t, e.get? x = some t ∧ t.word.notCancelled = false

theorem StepFacts.live_frame {e : Exec} {id : Nat} {rest : List Nat} {t : TaskSt} {s : Exec × Bool}
    (sf : StepFacts e id rest t s) {x : Nat} (hx : x ≠ id) : (liveIn s.1 x ↔ liveIn e x) ∧ (cancelledIn s.1 x ↔ cancelledIn e x) := by
  simp [liveIn, cancelledIn, sf.frame x hx]

/-- the loop never adds a task to the queue, and a live task that stays queued stays live -/
theorem tickLoop_sub (n : Nat) (e : Exec) (h : Inv e) :
    (∀ x, inMap (tickLoop n e.hot.head? e []).1 x = true → inMap e x = true) ∧
    (∀ x, liveIn e x → inMap (tickLoop n e.hot.head? e []).1 x = true → liveIn (tickLoop n e.hot.head? e []).1 x) := by
  refine tickLoop_induct (fun _ e r => (∀ x, inMap r.1 x = true → inMap e x = true) ∧
      (∀ x, liveIn e x → inMap r.1 x = true → liveIn r.1 x)) ?_ ?_ ?_ ?_ n e h
  · intro e h; exact ⟨fun _ hx => hx, fun _ hx _ => hx⟩
  · intro _ e h _; exact ⟨fun _ hx => hx, fun _ hx _ => hx⟩
  · intro _ e id t h hh hg sf
    refine ⟨sf.sub, ?_⟩
    intro x hl hin
    by_cases hx : x = id
    · subst hx
      obtain ⟨t', hg', _, hn⟩ := sf.task
      exact ⟨t', hg', hn hin⟩
    · exact (sf.live_frame hx).1.mpr hl
  · intro _ e id rest t r h hh hne hg sf _ ⟨hr1, hr2⟩
    refine ⟨fun x hx => sf.sub x (hr1 x hx), ?_⟩
    intro x hl hin
    apply hr2 x _ hin
    by_cases hx : x = id
    · subst hx
      obtain ⟨t', hg', _, hn⟩ := sf.task
      exact ⟨t', hg', hn (hr1 x hin)⟩
    · exact (sf.live_frame hx).1.mpr hl

theorem StepFacts.hot_get {e : Exec} {id : Nat} {rest : List Nat} {t : TaskSt} {s : Exec × Bool}
    (sf : StepFacts e id rest t s) {p x : Nat} (hp : rest[p]? = some x) : s.1.hot[p]? = some x := by
  have hl : p < rest.length := (List.getElem?_eq_some_iff.mp hp).1
  obtain ⟨w, h1⟩ := sf.hot
  rw [h1, List.getElem?_append_left hl]; exact hp

/-- every task among the first `n` of the hot list is visited by `tick`: polled if live, dropped and
removed if cancelled -/
theorem tickLoop_visit (n : Nat) (e : Exec) (h : Inv e) :
    ∀ p x, e.hot[p]? = some x → p < n →
      (cancelledIn e x → inMap (tickLoop n e.hot.head? e []).1 x = false) ∧
      (liveIn e x → x ∈ (tickLoop n e.hot.head? e []).2) := by
  refine tickLoop_induct (fun n e r => ∀ p x, e.hot[p]? = some x → p < n →
      (cancelledIn e x → inMap r.1 x = false) ∧ (liveIn e x → x ∈ r.2)) ?_ ?_ ?_ ?_ n e h
  · intro e h p x _ hp; omega
  · intro _ e h hh p x hx; simp [hh] at hx
  · intro _ e id t h hh hg sf p x hx _
    rw [hh] at hx
    have hp0 : p = 0 := by
      rcases p with _ | p
      · rfl
      · simp at hx
    subst hp0
    simp at hx; subst hx
    constructor
    · rintro ⟨t', hg', hc⟩
      rw [hg] at hg'; cases hg'
      exact sf.gone (by rw [sf.polled, hc])
    · rintro ⟨t', hg', hc⟩
      rw [hg] at hg'; cases hg'
      rw [sf.polled, hc]; simp
  · intro n e id rest t r h hh hne hg sf hr0 hr p x hx hp
    have hsub := (tickLoop_sub n _ sf.inv).1
    rw [← hr0] at hsub
    rw [hh] at hx
    rcases p with _ | p
    · simp at hx; subst hx
      constructor
      · rintro ⟨t', hg', hc⟩
        rw [hg] at hg'; cases hg'
        have hgone := sf.gone (by rw [sf.polled, hc])
        show inMap r.1 id = false
        cases hin : inMap r.1 id
        · rfl
        · rw [hsub id hin] at hgone; cases hgone
      · rintro ⟨t', hg', hc⟩
        rw [hg] at hg'; cases hg'
        rw [sf.polled, hc]; simp
    · simp at hx
      have hne' : x ≠ id := by
        have hnd := h.q.hnd
        rw [hh, List.nodup_cons] at hnd
        intro hxe; subst hxe
        exact hnd.1 (List.mem_of_getElem? hx)
      have := hr p x (sf.hot_get hx) (by omega)
      rw [(sf.live_frame hne').1, (sf.live_frame hne').2] at this
      exact ⟨this.1, fun hl => List.mem_append_right _ (this.2 hl)⟩

/-- a hot task behind the first `n` moves up by exactly `n` positions -/
theorem tickLoop_shift (n : Nat) (e : Exec) (h : Inv e) :
    ∀ p x, e.hot[p]? = some x → n ≤ p → (tickLoop n e.hot.head? e []).1.hot[p - n]? = some x := by
  refine tickLoop_induct (fun n e r => ∀ p x, e.hot[p]? = some x → n ≤ p → r.1.hot[p - n]? = some x)
    ?_ ?_ ?_ ?_ n e h
  · intro e h p x hx _; simpa using hx
  · intro _ e h hh p x hx; simp [hh] at hx
  · intro n e id t h hh hg sf p x hx hp
    rw [hh] at hx
    rcases p with _ | p
    · omega
    · simp at hx
  · intro n e id rest t r h hh hne hg sf _ hr p x hx hp
    rw [hh] at hx
    rcases p with _ | p
    · omega
    · simp at hx
      have := hr p x (sf.hot_get hx) (by omega)
      simpa using this

/-- `tick` polls in hot-queue order: position `p` of the poll log is position `p` of the hot list, as long
as the hot tasks up to `p` are live (a cancelled one is dropped instead of polled) -/
theorem tickLoop_order (n : Nat) (e : Exec) (h : Inv e) :
    ∀ p x, p < n → e.hot[p]? = some x → (∀ q y, q ≤ p → e.hot[q]? = some y → liveIn e y) →
      (tickLoop n e.hot.head? e []).2[p]? = some x := by
  refine tickLoop_induct (fun n e r => ∀ p x, p < n → e.hot[p]? = some x →
      (∀ q y, q ≤ p → e.hot[q]? = some y → liveIn e y) → r.2[p]? = some x) ?_ ?_ ?_ ?_ n e h
  · intro e h p x hp; omega
  · intro _ e h hh p x _ hx; simp [hh] at hx
  · intro n e id t h hh hg sf p x _ hx hl
    rw [hh] at hx
    have hp0 : p = 0 := by
      rcases p with _ | p
      · rfl
      · simp at hx
    subst hp0
    simp at hx; subst hx
    obtain ⟨t', hg', hc⟩ := hl 0 id (Nat.le_refl _) (by simp [hh])
    rw [hg] at hg'; cases hg'
    simp [sf.polled, hc]
  · intro n e id rest t r h hh hne hg sf _ hr p x hp hx hl
    obtain ⟨t', hg', hc⟩ := hl 0 id (Nat.zero_le _) (by simp [hh])
    rw [hg] at hg'; cases hg'
    have hnd := h.q.hnd
    rw [hh, List.nodup_cons] at hnd
    rw [hh] at hx
    rcases p with _ | p
    · simp at hx; subst hx
      simp [sf.polled, hc]
    · simp at hx
      have hpl : p < rest.length := (List.getElem?_eq_some_iff.mp hx).1
      obtain ⟨w, hw⟩ := sf.hot
      have := hr p x (by omega) (sf.hot_get hx) (by
        intro q y hq hy
        rw [hw, List.getElem?_append_left (by omega)] at hy
        have hne' : y ≠ id := by
          intro hye; subst hye; exact hnd.1 (List.mem_of_getElem? hy)
        exact (sf.live_frame hne').1.mpr (hl (q + 1) y (by omega) (by simp [hh, hy])))
      simp [sf.polled, hc, this]

/-- ... hence the log starts with the first `n` hot tasks when these are live -/
theorem tickLoop_order_take (n : Nat) (e : Exec) (h : Inv e) (hl : ∀ x, x ∈ e.hot.take n → liveIn e x) :
    ∃ extra, (tickLoop n e.hot.head? e []).2 = e.hot.take n ++ extra := by
  refine ⟨(tickLoop n e.hot.head? e []).2.drop (e.hot.take n).length, ?_⟩
  have key : (tickLoop n e.hot.head? e []).2.take (e.hot.take n).length = e.hot.take n := by
    apply List.ext_getElem?
    intro i
    by_cases hi : i < (e.hot.take n).length
    · have hin : i < n := by simp at hi; omega
      have hx : e.hot[i]? = (e.hot.take n)[i]? := by simp [List.getElem?_take, hin]
      obtain ⟨x, hxe⟩ : ∃ x, (e.hot.take n)[i]? = some x := ⟨_, List.getElem?_eq_getElem hi⟩
      have := tickLoop_order n e h i x hin (by rw [hx, hxe]) (by
        intro q y hq hy
        apply hl y
        have hqn : q < n := by omega
        have : (e.hot.take n)[q]? = some y := by simp [List.getElem?_take, hqn, hy]
        exact List.mem_of_getElem? this)
      rw [List.getElem?_take, if_pos hi, this, hxe]
    · rw [List.getElem?_eq_none (by simp at hi ⊢; omega), List.getElem?_eq_none (by omega)]
  conv => lhs; rw [← List.take_append_drop (e.hot.take n).length (tickLoop n e.hot.head? e []).2]
  rw [key]

/-- polls happen exactly as logged: the poll counter of every task grows by its number of occurrences in
the log, nothing else polls -/
theorem tickLoop_polls (n : Nat) (e : Exec) (h : Inv e) :
    ∀ x t, e.get? x = some t →
      ∃ t', (tickLoop n e.hot.head? e []).1.get? x = some t' ∧
        t'.polls = t.polls + (tickLoop n e.hot.head? e []).2.count x := by
  refine tickLoop_induct (fun n e r => ∀ x t, e.get? x = some t →
      ∃ t', r.1.get? x = some t' ∧ t'.polls = t.polls + r.2.count x) ?_ ?_ ?_ ?_ n e h
  · intro e h x t hx; exact ⟨t, hx, by simp⟩
  · intro _ e h hh x t hx; exact ⟨t, hx, by simp⟩
  · intro n e id t h hh hg sf x tx hx
    by_cases hxi : x = id
    · subst hxi
      rw [hg] at hx; cases hx
      obtain ⟨t', hg', hp, _⟩ := sf.task
      refine ⟨t', hg', ?_⟩
      rw [hp]; cases (tickStep e x).2 <;> simp
    · refine ⟨tx, by rw [sf.frame x hxi]; exact hx, ?_⟩
      cases (tickStep e id).2 <;> simp [List.count_cons, Ne.symm hxi]
  · intro n e id rest t r h hh hne hg sf _ hr x tx hx
    by_cases hxi : x = id
    · subst hxi
      rw [hg] at hx; cases hx
      obtain ⟨t', hg', hp, _⟩ := sf.task
      obtain ⟨t'', hg'', hp'⟩ := hr x t' hg'
      refine ⟨t'', hg'', ?_⟩
      rw [hp', hp]; cases (tickStep e x).2 <;> simp [List.count_cons] <;> omega
    · obtain ⟨t'', hg'', hp'⟩ := hr x tx (by rw [sf.frame x hxi]; exact hx)
      refine ⟨t'', hg'', ?_⟩
      rw [hp']; cases (tickStep e id).2 <;> simp [List.count_cons, Ne.symm hxi]

/-- tasks outside the queue are not touched by the loop of `tick` -/
theorem tickLoop_frame (n : Nat) (e : Exec) (h : Inv e) :
    ∀ x, inMap e x = false → (tickLoop n e.hot.head? e []).1.get? x = e.get? x := by
  refine tickLoop_induct (fun _ e r => ∀ x, inMap e x = false → r.1.get? x = e.get? x) ?_ ?_ ?_ ?_ n e h
  · intro e h x _; rfl
  · intro _ e h _ x _; rfl
  · intro _ e id t h hh hg sf x hx
    have hne : x ≠ id := by
      intro hxe; subst hxe
      rw [inMap_false_iff] at hx; exact hx (Or.inl (by simp [hh]))
    exact sf.frame x hne
  · intro _ e id rest t r h hh hne hg sf _ hr x hx
    have hne : x ≠ id := by
      intro hxe; subst hxe
      rw [inMap_false_iff] at hx; exact hx (Or.inl (by simp [hh]))
    have : inMap (tickStep e id).1 x = false := by
      cases hin : inMap (tickStep e id).1 x
      · rfl
      · rw [sf.sub x hin] at hx; cases hx
    show r.1.get? x = e.get? x
    rw [hr x this, sf.frame x hne]

end Compio.Executor
