/-
Helper lemmas for C02: the polling driver's queue / registration invariant `QInv` and its preservation by
every driver call, for operations that wait for (at most) one descriptor.
-/
import Compio.Model.PollDriver
import Compio.Lemmas.Completion

namespace Compio.PollDriver
open Compio.Completion

theorem upd_self {α : Type} (f : Nat → α) (k : Nat) (v : α) (h : f k = v) : upd f k v = f := by
  funext x; by_cases hx : x = k <;> simp [upd, hx, h]

theorem upd_apply {α : Type} (f : Nat → α) (k : Nat) (v : α) (x : Nat) :
    upd f k v x = if x = k then v else f x := rfl

/-! ### FdQueue -/

namespace FdQueue

@[simp] theorem get_pushBack_same (q : FdQueue) (id : Id) (d : Dir) : (q.pushBack id d).get d = q.get d ++ [id] := by
  cases d <;> rfl

theorem get_pushBack_other (q : FdQueue) (id : Id) (d d' : Dir) (h : d' ≠ d) : (q.pushBack id d).get d' = q.get d' := by
  cases d <;> cases d' <;> first | rfl | exact (h rfl).elim

@[simp] theorem get_pushFront_same (q : FdQueue) (id : Id) (d : Dir) : (q.pushFront id d).get d = id :: q.get d := by
  cases d <;> rfl

theorem get_pushFront_other (q : FdQueue) (id : Id) (d d' : Dir) (h : d' ≠ d) : (q.pushFront id d).get d' = q.get d' := by
  cases d <;> cases d' <;> first | rfl | exact (h rfl).elim

@[simp] theorem get_remove (q : FdQueue) (id : Id) (d : Dir) : (q.remove id).get d = (q.get d).filter (· ≠ id) := by
  cases d <;> rfl

theorem removeLast_pushBack (q : FdQueue) (id : Id) (d : Dir) : (q.pushBack id d).removeLast d = q := by
  cases d <;> simp [pushBack, removeLast]

theorem isEmpty_iff (q : FdQueue) : q.isEmpty = true ↔ q.readQ = [] ∧ q.writeQ = [] := by
  simp [isEmpty, List.isEmpty_iff]

theorem isEmpty_false_iff (q : FdQueue) : q.isEmpty = false ↔ q.readQ ≠ [] ∨ q.writeQ ≠ [] := by
  cases hr : q.readQ <;> cases hw : q.writeQ <;> simp [isEmpty, hr, hw]

theorem pushBack_nonempty (q : FdQueue) (id : Id) (d : Dir) : (q.pushBack id d).isEmpty = false := by
  cases d <;> simp [pushBack, isEmpty]

theorem pushFront_nonempty (q : FdQueue) (id : Id) (d : Dir) : (q.pushFront id d).isEmpty = false := by
  cases d <;> simp [pushFront, isEmpty]

/-- `event()` arms exactly the non-empty directions -/
theorem event_readable (q : FdQueue) : q.event.readable = !q.readQ.isEmpty := rfl
theorem event_writable (q : FdQueue) : q.event.writable = !q.writeQ.isEmpty := rfl

theorem event_flags_of_nonempty (q : FdQueue) (h : q.isEmpty = false) :
    (!q.event.readable && !q.event.writable) = false := by
  cases hr : q.readQ <;> cases hw : q.writeQ <;> simp_all [isEmpty, event]

theorem event_flags_of_empty (q : FdQueue) (h : q.isEmpty = true) :
    (!q.event.readable && !q.event.writable) = true := by
  rw [isEmpty_iff] at h
  simp [event, h.1, h.2]

/-- the key of `event()` is the head of one of the queues -/
theorem event_key_mem (q : FdQueue) (h : q.isEmpty = false) :
    (∃ rest, q.writeQ = q.event.key :: rest) ∨ (q.writeQ = [] ∧ ∃ rest, q.readQ = q.event.key :: rest) := by
  cases hw : q.writeQ with
  | cons k rest => left; exact ⟨rest, by simp [event, hw]⟩
  | nil =>
    right
    cases hr : q.readQ with
    | nil => simp [isEmpty, hr, hw] at h
    | cons k rest => exact ⟨rfl, rest, by simp [event, hw, hr]⟩

theorem event_key_in (q : FdQueue) (h : q.isEmpty = false) : ∃ d, q.event.key ∈ q.get d := by
  rcases event_key_mem q h with ⟨rest, hw⟩ | ⟨_, rest, hr⟩
  · exact ⟨.write, by show q.event.key ∈ q.writeQ; rw [hw]; simp⟩
  · exact ⟨.read, by show q.event.key ∈ q.readQ; rw [hr]; simp⟩

/-- `pop_interest` removes the head of one direction -/
theorem popInterest_some {q : FdQueue} {ev : Event} {id : Id} {q' : FdQueue} (h : q.popInterest ev = some (id, q')) :
    ∃ d, q.get d = id :: q'.get d ∧ (∀ d', d' ≠ d → q'.get d' = q.get d') ∧ q = q'.pushFront id d := by
  unfold popInterest at h
  split at h
  · rename_i k rest _ hr
    simp at h
    obtain ⟨rfl, rfl⟩ := h
    refine ⟨.read, ?_, ?_, ?_⟩
    · simpa [get] using hr
    · intro d' hd; cases d' <;> first | rfl | exact (hd rfl).elim
    · cases q; simp_all [pushFront]
  · split at h
    · rename_i k rest _ hw
      simp at h
      obtain ⟨rfl, rfl⟩ := h
      refine ⟨.write, ?_, ?_, ?_⟩
      · simpa [get] using hw
      · intro d' hd; cases d' <;> first | rfl | exact (hd rfl).elim
      · cases q; simp_all [pushFront]
    · cases h

/-- a matching readiness flag makes `pop_interest` return the head of that direction
    (read first when both are reported) -/
theorem popInterest_read (q : FdQueue) (ev : Event) (k : Id) (rest : List Id)
    (hr : q.readQ = k :: rest) (hev : ev.readable = true) :
    q.popInterest ev = some (k, { q with readQ := rest }) := by
  simp [popInterest, hr, hev]

theorem popInterest_write (q : FdQueue) (ev : Event) (k : Id) (rest : List Id)
    (hw : q.writeQ = k :: rest) (hev : ev.writable = true) (hnr : ev.readable = false ∨ q.readQ = []) :
    q.popInterest ev = some (k, { q with writeQ := rest }) := by
  rcases hnr with h | h <;> simp [popInterest, hw, hev, h]

end FdQueue

/-! ### queues of a state -/

section
variable {W : Type}

/-- `id` sits in some readiness queue of the driver -/
def queuedP (s : St W) (id : Id) : Prop := ∃ fd d, id ∈ s.queue fd d

theorem queue_of_reg_none {s : St W} {fd : Fd} (h : s.reg fd = none) (d : Dir) : s.queue fd d = [] := by
  simp [St.queue, h]

theorem queue_of_reg_some {s : St W} {fd : Fd} {q : FdQueue} (h : s.reg fd = some q) (d : Dir) :
    s.queue fd d = q.get d := by
  simp [St.queue, h]

/-- the registration of `fd` is consistent with its queues; while `pend fd` holds (an event for `fd` was
    reported by `epoll_wait` and not handled yet) only the registered key is known -/
def Armed (pend : Fd → Prop) (s : St W) (fd : Fd) : Prop :=
  match s.reg fd with
  | none => s.epoll fd = none
  | some q => q.isEmpty = false ∧
      ∃ ev, s.epoll fd = some ev ∧ ev.key = q.event.key ∧ (¬ pend fd → ev = q.event)

structure QInv (pend : Fd → Prop) (s : St W) : Prop where
  /-- a queued operation waits for exactly that descriptor and direction and is not marked ready -/
  tracked : ∀ fd d id, id ∈ s.queue fd d → s.track id = [⟨fd, d, false⟩]
  nodup : ∀ fd d, (s.queue fd d).Nodup
  armed : ∀ fd, Armed pend s fd
  /-- FIFO: every queue is a subsequence of the submission order -/
  fifo : ∀ fd d, (s.queue fd d).Sublist (s.pushed fd d)
  /-- a pending, not cancelled operation that waits for a descriptor is queued -/
  live : ∀ id, (∃ w, s.keys.slot id = .pending w) → s.track id ≠ [] → s.cancelled id = false → queuedP s id

/-- the full invariant of the polling driver model -/
structure Inv (pend : Fd → Prop) (s : St W) : Prop where
  q : QInv pend s
  k : KInv s.keys s.chan (queuedP s) s.pool

def noPend : Fd → Prop := fun _ => False

theorem Armed.reg_none {pend : Fd → Prop} {s : St W} {fd : Fd} (h : Armed pend s fd) (hr : s.reg fd = none) :
    s.epoll fd = none := by
  unfold Armed at h; rw [hr] at h; exact h

theorem Armed.reg_some {pend : Fd → Prop} {s : St W} {fd : Fd} {q : FdQueue} (h : Armed pend s fd)
    (hr : s.reg fd = some q) :
    q.isEmpty = false ∧ ∃ ev, s.epoll fd = some ev ∧ ev.key = q.event.key ∧ (¬ pend fd → ev = q.event) := by
  unfold Armed at h; rw [hr] at h; exact h

/-- a queued operation is in exactly one queue -/
theorem QInv.unique {pend : Fd → Prop} {s : St W} (h : QInv pend s) {fd fd' : Fd} {d d' : Dir} {id : Id}
    (h1 : id ∈ s.queue fd d) (h2 : id ∈ s.queue fd' d') : fd = fd' ∧ d = d' := by
  have t1 := h.tracked fd d id h1
  have t2 := h.tracked fd' d' id h2
  rw [t1] at t2
  simp at t2
  exact t2

theorem Inv.init (w : W) : Inv noPend ({ world := w } : St W) where
  q := {
    tracked := by intro fd d id h; simp [St.queue] at h
    nodup := by intro fd d; simp [St.queue]
    armed := by intro fd; simp [Armed]
    fifo := by intro fd d; simp [St.queue]
    live := by intro id _ h; simp at h }
  k := by
    have : queuedP ({ world := w } : St W) = fun _ => False := by
      funext id; simp [queuedP, St.queue]
    rw [this]; exact KInv.init

end

/-! ### exact results of the registration primitives under the invariant -/

section
variable {W : Type}

theorem St.reg_eta (s : St W) (fd : Fd) (h : s.reg fd = none) : { s with reg := upd s.reg fd none } = s := by
  rw [upd_self s.reg fd none h]

/-- `submit` succeeds: the key is appended, the descriptor (re-)armed with `event()` -/
theorem submit_ok (ops : Ops W) (s : St W) (id : Id) (fd : Fd) (d : Dir) {pend : Fd → Prop}
    (harm : Armed pend s fd) (hadd : s.reg fd = none → ops.addFails fd = none) :
    submit ops s id fd d =
      (notePushed { s with reg := upd s.reg fd (some (((s.reg fd).getD {}).pushBack id d)),
                           epoll := upd s.epoll fd (some (((s.reg fd).getD {}).pushBack id d).event) } id fd d,
       none) := by
  unfold submit
  cases hr : s.reg fd with
  | none =>
    have he := harm.reg_none hr
    simp [epollAdd, hadd hr, he]
  | some q =>
    obtain ⟨_, ev, he, _⟩ := harm.reg_some hr
    simp [epollModify, he]

/-- `submit` fails (epoll refuses the descriptor): the push is rolled back completely -/
theorem submit_fail (ops : Ops W) (s : St W) (id : Id) (fd : Fd) (d : Dir) (e : Nat)
    (hr : s.reg fd = none) (hadd : ops.addFails fd = some e) :
    submit ops s id fd d = (s, some e) := by
  unfold submit
  simp only [hr, Option.isNone_none, if_true, epollAdd, hadd, Option.getD_none]
  rw [FdQueue.removeLast_pushBack]
  have : ({} : FdQueue).isEmpty = true := rfl
  simp only [this, if_true]
  rw [St.reg_eta s fd hr]

/-- `submit_front` on a registered descriptor -/
theorem submitFront_ok (ops : Ops W) (s : St W) (id : Id) (fd : Fd) (d : Dir) (q : FdQueue) (ev : Event)
    (hr : s.reg fd = some q) (he : s.epoll fd = some ev) :
    submitFront ops s id fd d =
      ({ s with reg := upd s.reg fd (some (q.pushFront id d)),
                epoll := upd s.epoll fd (some (q.pushFront id d).event) }, none) := by
  unfold submitFront
  simp [hr, epollModify, he]

theorem renew_delete (s : St W) (fd : Fd) (ev ev0 : Event) (hf : (!ev.readable && !ev.writable) = true)
    (he : s.epoll fd = some ev0) :
    renew s fd ev = ({ s with epoll := upd s.epoll fd none, reg := upd s.reg fd none }, none) := by
  unfold renew
  simp only [hf, if_true, epollDelete, he, Option.isSome_some]

theorem renew_modify (s : St W) (fd : Fd) (ev ev0 : Event) (hf : (!ev.readable && !ev.writable) = false)
    (he : s.epoll fd = some ev0) :
    renew s fd ev = ({ s with epoll := upd s.epoll fd (some ev) }, none) := by
  unfold renew
  simp [hf, epollModify, he]

/-- `renew` with the current `event()` of the queue `q` that is stored for `fd` -/
theorem renew_queue (s : St W) (fd : Fd) (q : FdQueue) (ev0 : Event) (he : s.epoll fd = some ev0) :
    renew s fd q.event =
      (if q.isEmpty then { s with epoll := upd s.epoll fd none, reg := upd s.reg fd none }
       else { s with epoll := upd s.epoll fd (some q.event) }, none) := by
  cases hq : q.isEmpty with
  | true => rw [renew_delete s fd q.event ev0 (FdQueue.event_flags_of_empty q hq) he]; simp
  | false => rw [renew_modify s fd q.event ev0 (FdQueue.event_flags_of_nonempty q hq) he]; simp

/-- `remove_one` on a registered descriptor -/
theorem removeOne_some (s : St W) (id : Id) (fd : Fd) (q : FdQueue) (ev0 : Event)
    (hr : s.reg fd = some q) (he : s.epoll fd = some ev0) :
    removeOne s id fd =
      (if (q.remove id).isEmpty then { s with epoll := upd s.epoll fd none, reg := upd s.reg fd none }
       else { s with epoll := upd s.epoll fd (some (q.remove id).event), reg := upd s.reg fd (some (q.remove id)) },
       none) := by
  unfold removeOne
  simp only [hr]
  rw [renew_queue _ fd (q.remove id) ev0 (by simpa using he)]
  cases hq : (q.remove id).isEmpty with
  | true =>
    simp only [if_true]
    congr 1
    have : upd (upd s.reg fd none) fd none = upd s.reg fd none := by
      funext x; by_cases hx : x = fd <;> simp [upd, hx]
    simp [this]
  | false => simp

theorem removeOne_none (s : St W) (id : Id) (fd : Fd) (hr : s.reg fd = none) : removeOne s id fd = (s, none) := by
  unfold removeOne; simp [hr]

end

/-! ### generic preservation lemmas for `QInv` -/

section
variable {W : Type}

theorem queue_congr {s s' : St W} (h : s'.reg = s.reg) (fd : Fd) (d : Dir) : s'.queue fd d = s.queue fd d := by
  simp [St.queue, h]

theorem queuedP_congr {s s' : St W} (h : s'.reg = s.reg) : queuedP s' = queuedP s := by
  funext id; simp [queuedP, queue_congr h]

theorem pushed_congr {s s' : St W} (hr : s'.pushedR = s.pushedR) (hw : s'.pushedW = s.pushedW) (fd : Fd) (d : Dir) :
    s'.pushed fd d = s.pushed fd d := by
  cases d <;> simp [St.pushed, hr, hw]

/-- nothing about the queues changes (only results / channel / pool / world / user flags, and the tracks of
    operations that are not queued) -/
theorem QInv.congr {pend : Fd → Prop} {s s' : St W} (h : QInv pend s)
    (hreg : s'.reg = s.reg) (hep : s'.epoll = s.epoll) (htr : ∀ x, queuedP s x → s'.track x = s.track x)
    (hpr : s'.pushedR = s.pushedR) (hpw : s'.pushedW = s.pushedW)
    (hlive : ∀ id, (∃ w, s'.keys.slot id = .pending w) → s'.track id ≠ [] → s'.cancelled id = false →
               (∃ w, s.keys.slot id = .pending w) ∧ s.track id ≠ [] ∧ s.cancelled id = false) :
    QInv pend s' where
  tracked := by
    intro fd d id hm
    rw [queue_congr hreg] at hm
    rw [htr id ⟨fd, d, hm⟩]; exact h.tracked fd d id hm
  nodup := by intro fd d; rw [queue_congr hreg]; exact h.nodup fd d
  armed := by
    intro fd
    have := h.armed fd
    unfold Armed at this ⊢
    rw [hreg, hep]; exact this
  fifo := by intro fd d; rw [queue_congr hreg, pushed_congr hpr hpw]; exact h.fifo fd d
  live := by
    intro id hp ht hc
    obtain ⟨hp', ht', hc'⟩ := hlive id hp ht hc
    rw [queuedP_congr hreg]
    exact h.live id hp' ht' hc'

/-- the queue of an optional registry entry -/
def qget (X : Option FdQueue) (d : Dir) : List Id :=
  match X with
  | none => []
  | some q => q.get d

theorem queue_eq_qget (s : St W) (fd : Fd) (d : Dir) : s.queue fd d = qget (s.reg fd) d := by
  unfold St.queue qget; cases s.reg fd <;> rfl

theorem queue_upd (s s' : St W) (fd : Fd) (X : Option FdQueue) (hreg : s'.reg = upd s.reg fd X) (x : Fd) (d : Dir) :
    s'.queue x d = if x = fd then qget X d else s.queue x d := by
  rw [queue_eq_qget, queue_eq_qget, hreg]
  by_cases hx : x = fd
  · subst hx; simp [upd]
  · simp [upd, hx]

/-- the registration of ONE descriptor `fd` is replaced; everything else about the queues stays -/
theorem QInv.localUpdate {pend pend' : Fd → Prop} {s s' : St W} (h : QInv pend s) (fd : Fd) (X : Option FdQueue)
    (hreg : s'.reg = upd s.reg fd X)
    (hep : ∀ x, x ≠ fd → s'.epoll x = s.epoll x)
    (hpend : ∀ x, x ≠ fd → pend x → pend' x)
    (harm : Armed pend' s' fd)
    (htr : ∀ d id, id ∈ s'.queue fd d → s'.track id = [⟨fd, d, false⟩])
    (htr' : ∀ x d id, x ≠ fd → id ∈ s.queue x d → s'.track id = s.track id)
    (hnd : ∀ d, (s'.queue fd d).Nodup)
    (hfifo : ∀ d, (s'.queue fd d).Sublist (s'.pushed fd d))
    (hpushed : ∀ x d, x ≠ fd → s'.pushed x d = s.pushed x d)
    (hlive : ∀ id, (∃ w, s'.keys.slot id = .pending w) → s'.track id ≠ [] → s'.cancelled id = false → queuedP s' id) :
    QInv pend' s' where
  tracked := by
    intro x d id hm
    by_cases hx : x = fd
    · subst hx; exact htr d id hm
    · rw [queue_upd s s' fd X hreg] at hm
      simp only [hx, if_false] at hm
      rw [htr' x d id hx hm]; exact h.tracked x d id hm
  nodup := by
    intro x d
    by_cases hx : x = fd
    · subst hx; exact hnd d
    · rw [queue_upd s s' fd X hreg]; simp only [hx, if_false]; exact h.nodup x d
  armed := by
    intro x
    by_cases hx : x = fd
    · subst hx; exact harm
    · have := h.armed x
      unfold Armed at this ⊢
      rw [hreg, hep x hx]
      simp only [upd, hx, if_false]
      cases hr : s.reg x with
      | none => rw [hr] at this; exact this
      | some q =>
        rw [hr] at this
        obtain ⟨a, ev, b, c, e⟩ := this
        exact ⟨a, ev, b, c, fun hn => e (fun hp => hn (hpend x hx hp))⟩
  fifo := by
    intro x d
    by_cases hx : x = fd
    · subst hx; exact hfifo d
    · rw [queue_upd s s' fd X hreg, hpushed x d hx]; simp only [hx, if_false]; exact h.fifo x d
  live := hlive

end

/-! ### steps that do not touch the queues -/

section
variable {W : Type}

theorem inv_jobDone {s : St W} (h : Inv noPend s) (id : Id) (r : Res) (hp : id ∈ s.pool) :
    Inv noPend (jobDone s id r) := by
  have hsrc := h.k.poolFresh id hp
  have hpend := h.k.pending_of_fresh hsrc (Or.inr hp)
  refine ⟨h.q.congr rfl rfl (fun _ _ => rfl) rfl rfl ?_, ?_⟩
  · intro x hx ht hc; exact ⟨by simpa [jobDone] using hx, ht, hc⟩
  · have hq : queuedP (jobDone s id r) = queuedP s := queuedP_congr rfl
    rw [hq]
    show KInv (s.keys.produce id r) (s.chan ++ [(id, r)]) (queuedP s) (s.pool.erase id)
    refine h.k.produceChan r hsrc ?_ ?_ (h.k.poolNodup.erase id) hpend
    · intro x hx
      refine ⟨hx, ?_⟩
      rintro rfl
      exact (h.k.qFresh x hx).2 hp
    · intro x hx
      exact ⟨List.mem_of_mem_erase hx, fun e => by subst e; exact (h.k.poolNodup.mem_erase_iff.1 hx).1 rfl⟩

theorem inv_pop {s : St W} (h : Inv noPend s) (id : Id) : Inv noPend (pop s id).1 := by
  unfold pop
  refine ⟨h.q.congr rfl rfl (fun _ _ => rfl) rfl rfl ?_, ?_⟩
  · intro x hx ht hc
    refine ⟨?_, ht, hc⟩
    simp only at hx
    cases hs : s.keys.slot id with
    | ready r =>
      rw [pop_ready _ _ _ hs] at hx
      simp only [upd] at hx
      by_cases hxi : x = id
      · simp [hxi] at hx
      · simpa [hxi] using hx
    | free => rw [pop_not_ready _ _ (by intro r; rw [hs]; simp)] at hx; exact hx
    | pending w => rw [pop_not_ready _ _ (by intro r; rw [hs]; simp)] at hx; exact hx
  · have hq : queuedP (match s.keys.pop id with | (ks, r) => ({ s with keys := ks }, r)).1 = queuedP s :=
      queuedP_congr rfl
    rw [hq]
    exact h.k.pop id

theorem inv_setWaker {s : St W} (h : Inv noPend s) (id : Id) (w : WakerId) : Inv noPend (setWaker s id w) := by
  refine ⟨h.q.congr rfl rfl (fun _ _ => rfl) rfl rfl ?_, ?_⟩
  · intro x hx ht hc
    refine ⟨?_, ht, hc⟩
    simp only [setWaker, setWaker_slot] at hx
    by_cases hxi : x = id
    · subst hxi
      simp only [if_true] at hx
      cases hs : s.keys.slot x with
      | free => rw [hs] at hx; simp [Slot.setWaker] at hx
      | pending w' => exact ⟨w', rfl⟩
      | ready r => rw [hs] at hx; simp [Slot.setWaker] at hx
    · simpa [hxi] using hx
  · have hq : queuedP (setWaker s id w) = queuedP s := queuedP_congr rfl
    rw [hq]
    exact h.k.setWaker id w

end

/-! ### push -/

section
variable {W : Type}

theorem not_queued_of_track_nil {pend : Fd → Prop} {s : St W} (h : QInv pend s) {id : Id} (ht : s.track id = []) :
    ¬ queuedP s id := by
  rintro ⟨fd, d, hm⟩
  have := h.tracked fd d id hm
  rw [ht] at this; cases this

@[simp] theorem notePushed_reg (s : St W) (id : Id) (fd : Fd) (d : Dir) : (notePushed s id fd d).reg = s.reg := by
  cases d <;> rfl
@[simp] theorem notePushed_epoll (s : St W) (id : Id) (fd : Fd) (d : Dir) : (notePushed s id fd d).epoll = s.epoll := by
  cases d <;> rfl
@[simp] theorem notePushed_track (s : St W) (id : Id) (fd : Fd) (d : Dir) : (notePushed s id fd d).track = s.track := by
  cases d <;> rfl
@[simp] theorem notePushed_keys (s : St W) (id : Id) (fd : Fd) (d : Dir) : (notePushed s id fd d).keys = s.keys := by
  cases d <;> rfl
@[simp] theorem notePushed_chan (s : St W) (id : Id) (fd : Fd) (d : Dir) : (notePushed s id fd d).chan = s.chan := by
  cases d <;> rfl
@[simp] theorem notePushed_pool (s : St W) (id : Id) (fd : Fd) (d : Dir) : (notePushed s id fd d).pool = s.pool := by
  cases d <;> rfl
@[simp] theorem notePushed_cancelled (s : St W) (id : Id) (fd : Fd) (d : Dir) :
    (notePushed s id fd d).cancelled = s.cancelled := by
  cases d <;> rfl

theorem notePushed_pushed (s : St W) (id : Id) (fd : Fd) (d : Dir) (x : Fd) (d' : Dir) :
    (notePushed s id fd d).pushed x d' = if x = fd ∧ d' = d then s.pushed fd d ++ [id] else s.pushed x d' := by
  cases d <;> cases d' <;> by_cases hx : x = fd <;> simp [notePushed, St.pushed, upd, hx]

theorem getD_get (s : St W) (fd : Fd) (d : Dir) : ((s.reg fd).getD {}).get d = s.queue fd d := by
  unfold St.queue
  cases s.reg fd <;> simp [FdQueue.get] <;> cases d <;> rfl

/-- a fresh operation is appended to the queue (`fd`, `d`) and the descriptor re-armed -/
theorem qinv_enqueue {s s' : St W} (hq : QInv noPend s) (id : Id) (fd : Fd) (d : Dir)
    (hnq : ¬ queuedP s id)
    (hreg : s'.reg = upd s.reg fd (some (((s.reg fd).getD {}).pushBack id d)))
    (hep : s'.epoll = upd s.epoll fd (some (((s.reg fd).getD {}).pushBack id d).event))
    (htrack : s'.track = upd s.track id [⟨fd, d, false⟩])
    (hslot : ∀ x, x ≠ id → s'.keys.slot x = s.keys.slot x)
    (hcanc : s'.cancelled = s.cancelled)
    (hpushed : ∀ x d', s'.pushed x d' = if x = fd ∧ d' = d then s.pushed fd d ++ [id] else s.pushed x d') :
    QInv noPend s' ∧ (∀ x, queuedP s' x ↔ queuedP s x ∨ x = id) := by
  have hqueue : ∀ x d', s'.queue x d' =
      if x = fd ∧ d' = d then s.queue fd d ++ [id] else s.queue x d' := by
    intro x d'
    rw [queue_upd s s' fd _ hreg]
    by_cases hx : x = fd
    · subst hx
      simp only [true_and, if_true, qget]
      by_cases hd : d' = d
      · subst hd; simp [getD_get]
      · simp [hd, FdQueue.get_pushBack_other _ _ _ _ hd, getD_get]
    · simp [hx]
  have hmono : ∀ x, queuedP s' x ↔ queuedP s x ∨ x = id := by
    intro x
    constructor
    · rintro ⟨f, dd, hm⟩
      rw [hqueue] at hm
      by_cases hc : f = fd ∧ dd = d
      · simp only [hc, and_self, if_true, List.mem_append, List.mem_singleton] at hm
        rcases hm with hm | hm
        · exact Or.inl ⟨fd, d, hm⟩
        · exact Or.inr hm
      · simp only [hc, if_false] at hm; exact Or.inl ⟨f, dd, hm⟩
    · rintro (⟨f, dd, hm⟩ | rfl)
      · refine ⟨f, dd, ?_⟩
        rw [hqueue]
        by_cases hc : f = fd ∧ dd = d
        · obtain ⟨rfl, rfl⟩ := hc; simp [hm]
        · simp [hc, hm]
      · exact ⟨fd, d, by rw [hqueue]; simp⟩
  refine ⟨?_, hmono⟩
  have hnotin : id ∉ s.queue fd d := fun hm => hnq ⟨fd, d, hm⟩
  refine hq.localUpdate fd _ hreg ?_ (fun _ _ hp => hp) ?_ ?_ ?_ ?_ ?_ ?_ ?_
  · intro x hx; rw [hep]; simp [upd, hx]
  · -- armed
    unfold Armed
    rw [hreg, hep]
    simp only [upd_same]
    exact ⟨FdQueue.pushBack_nonempty _ _ _, _, rfl, rfl, fun _ => rfl⟩
  · intro d' x hm
    rw [hqueue] at hm
    rw [htrack]
    by_cases hd : d' = d
    · subst hd
      simp only [and_self, if_true, List.mem_append, List.mem_singleton] at hm
      rcases hm with hm | rfl
      · have hne : x ≠ id := fun e => hnotin (e ▸ hm)
        simp only [upd, hne, if_false]; exact hq.tracked fd d' x hm
      · simp
    · simp only [hd, and_false, if_false] at hm
      have hne : x ≠ id := fun e => hnq ⟨fd, d', e ▸ hm⟩
      simp only [upd, hne, if_false]; exact hq.tracked fd d' x hm
  · intro x d' y hx hm
    have hne : y ≠ id := fun e => hnq ⟨x, d', e ▸ hm⟩
    rw [htrack]; simp [upd, hne]
  · intro d'
    rw [hqueue]
    by_cases hd : d' = d
    · subst hd
      simp only [and_self, if_true]
      exact List.nodup_append.2 ⟨hq.nodup fd d', (by simp), by
        intro a ha b hb; simp at hb; subst hb; intro e; exact hnotin (e ▸ ha)⟩
    · simp only [hd, and_false, if_false]; exact hq.nodup fd d'
  · intro d'
    rw [hqueue, hpushed]
    by_cases hd : d' = d
    · subst hd
      simp only [and_self, if_true]
      exact List.Sublist.append (hq.fifo fd d') (List.Sublist.refl _)
    · simp only [hd, and_false, if_false]; exact hq.fifo fd d'
  · intro x d' hx; rw [hpushed]; simp [hx]
  · intro x hp ht hc
    by_cases hxi : x = id
    · exact (hmono x).2 (Or.inr hxi)
    · rw [hslot x hxi] at hp
      rw [htrack] at ht
      simp only [upd, hxi, if_false] at ht
      rw [hcanc] at hc
      exact (hmono x).2 (Or.inl (hq.live x hp ht hc))

end

section
variable {W : Type}

theorem inv_push (ops : Ops W) {s : St W} (h : Inv noPend s) (id : Id) (d : Decision)
    (hsingle : match d with | .wait args => args.length ≤ 1 | _ => True)
    (hfree : s.keys.slot id = .free) (hsrc : s.keys.src id = []) (htrack : s.track id = [])
    (hpool : id ∉ s.pool) : Inv noPend (push ops s id d).1 := by
  have hnq : ¬ queuedP s id := not_queued_of_track_nil h.q htrack
  have hk0 : KInv (s.keys.alloc id) s.chan (queuedP s) s.pool := h.k.alloc hfree hsrc
  have hpend0 : ∃ w, (s.keys.alloc id).slot id = .pending w := ⟨none, by simp⟩
  -- the "ready at once" outcome, whatever the tracks of `id` were set to
  have himm : ∀ (r : Res) (ts : List Track),
      Inv noPend { s with keys := (s.keys.alloc id).immediate id r, track := upd s.track id ts } := by
    intro r ts
    refine ⟨h.q.congr rfl rfl ?_ rfl rfl ?_, ?_⟩
    · intro x hq
      have : x ≠ id := fun e => hnq (e ▸ hq)
      simp [upd, this]
    · intro x hx ht hc
      have hx' : ∃ w, ((s.keys.alloc id).immediate id r).slot x = .pending w := hx
      have ht' : upd s.track id ts x ≠ [] := ht
      rw [immediate_slot _ id r none (by simp)] at hx'
      by_cases hxi : x = id
      · simp [hxi] at hx'
      · simp only [hxi, if_false, alloc_slot] at hx'
        simp only [upd, hxi, if_false] at ht'
        exact ⟨hx', ht', hc⟩
    · have hq : queuedP ({ s with keys := (s.keys.alloc id).immediate id r,
                                  track := upd s.track id ts } : St W) = queuedP s := queuedP_congr rfl
      rw [hq]
      exact hk0.immediate r (by simpa using hsrc) hpend0 hpool hnq
  -- pending without being queued (blocking job / no descriptor to wait for)
  have hidle : ∀ (pool' : List Id), KInv (s.keys.alloc id) s.chan (queuedP s) pool' →
      Inv noPend { s with keys := s.keys.alloc id, track := upd s.track id [], pool := pool' } := by
    intro pool' hk
    refine ⟨h.q.congr rfl rfl ?_ rfl rfl ?_, ?_⟩
    · intro x hq
      have : x ≠ id := fun e => hnq (e ▸ hq)
      simp [upd, this]
    · intro x hx ht hc
      have hx' : ∃ w, (s.keys.alloc id).slot x = .pending w := hx
      have ht' : upd s.track id [] x ≠ [] := ht
      by_cases hxi : x = id
      · subst hxi; simp [upd] at ht'
      · simp only [alloc_slot, hxi, if_false] at hx'
        simp only [upd, hxi, if_false] at ht'
        exact ⟨hx', ht', hc⟩
    · have hq : queuedP ({ s with keys := s.keys.alloc id, track := upd s.track id [],
                                  pool := pool' } : St W) = queuedP s := queuedP_congr rfl
      rw [hq]; exact hk
  unfold push
  cases d with
  | fail code =>
    have := himm (.err code) []
    rw [upd_self _ _ _ htrack] at this
    exact this
  | completed n =>
    have := himm (.ok n) []
    rw [upd_self _ _ _ htrack] at this
    exact this
  | blocking =>
    have := hidle (id :: s.pool) (hk0.poolAdd (by simpa using hsrc) hnq hpool hpend0)
    rw [upd_self _ _ _ htrack] at this
    exact this
  | wait args =>
    simp only at hsingle
    match args, hsingle with
    | [], _ =>
      simp only [List.map_nil, submitAll]
      exact hidle s.pool hk0
    | [a], _ =>
      obtain ⟨fd, dd⟩ := a
      simp only [List.map_cons, List.map_nil, submitAll]
      by_cases hbad : s.reg fd = none ∧ ∃ e, ops.addFails fd = some e
      · obtain ⟨hr, e, hadd⟩ := hbad
        rw [submit_fail ops _ id fd dd e (by simpa using hr) hadd]
        simp only [removeAll]
        rw [removeOne_none _ id fd (by simpa using hr)]
        exact himm (.err e) _
      · have harm : Armed noPend
            ({ s with keys := s.keys.alloc id, track := upd s.track id [⟨fd, dd, false⟩] } : St W) fd := by
          have := h.q.armed fd
          unfold Armed at this ⊢
          exact this
        rw [submit_ok ops _ id fd dd harm (by
          intro hr
          cases hadd : ops.addFails fd with
          | none => rfl
          | some e => exact (hbad ⟨by simpa using hr, e, hadd⟩).elim)]
        have key : ∀ s2 : St W, s2 = notePushed ({ s with
              keys := s.keys.alloc id, track := upd s.track id [⟨fd, dd, false⟩],
              reg := upd s.reg fd (some (((s.reg fd).getD {}).pushBack id dd)),
              epoll := upd s.epoll fd (some (((s.reg fd).getD {}).pushBack id dd).event) } : St W) id fd dd →
            Inv noPend s2 := by
          intro s2 hs2
          obtain ⟨hq', hmono⟩ := qinv_enqueue (s' := s2) h.q id fd dd hnq
            (by rw [hs2]; simp) (by rw [hs2]; simp) (by rw [hs2]; simp)
            (by intro x hx; rw [hs2]; simp [hx]) (by rw [hs2]; simp)
            (by intro x d'; rw [hs2, notePushed_pushed]; rfl)
          refine ⟨hq', ?_⟩
          have e1 : s2.keys = s.keys.alloc id := by rw [hs2]; simp
          have e2 : s2.chan = s.chan := by rw [hs2]; simp
          have e3 : s2.pool = s.pool := by rw [hs2]; simp
          rw [e1, e2, e3]
          refine hk0.requeue ?_ ?_
          · intro x hx
            rcases (hmono x).1 hx with hx | rfl
            · exact Or.inl hx
            · exact Or.inr ⟨by simpa using hsrc, hpool, hpend0⟩
          · intro x hfr hx
            rcases (hmono x).1 hx with hx | rfl
            · exact hx
            · simp at hfr
        exact key _ rfl

end

/-! ### cancel -/

section
variable {W : Type}

theorem qget_ite (q : FdQueue) (d : Dir) : qget (if q.isEmpty then none else some q) d = q.get d := by
  cases hq : q.isEmpty with
  | false => simp [qget]
  | true =>
    rw [FdQueue.isEmpty_iff] at hq
    cases d <;> simp [qget, FdQueue.get, hq.1, hq.2]

/-- `id` is removed from the queue it sits in (`remove_one` + `renew`) -/
theorem qinv_remove {s s' : St W} (hq : QInv noPend s) (id : Id) (fd : Fd) (d : Dir) (q : FdQueue)
    (hr : s.reg fd = some q) (hm : id ∈ q.get d)
    (hreg : s'.reg = upd s.reg fd (if (q.remove id).isEmpty then none else some (q.remove id)))
    (hep : s'.epoll = upd s.epoll fd (if (q.remove id).isEmpty then none else some (q.remove id).event))
    (htrack : s'.track = s.track)
    (hpr : s'.pushedR = s.pushedR) (hpw : s'.pushedW = s.pushedW)
    (hslot : ∀ x, x ≠ id → ((∃ w, s'.keys.slot x = .pending w) → ∃ w, s.keys.slot x = .pending w))
    (hcanc : ∀ x, x ≠ id → s'.cancelled x = s.cancelled x) (hcid : s'.cancelled id = true) :
    QInv noPend s' ∧ (∀ x, queuedP s' x ↔ queuedP s x ∧ x ≠ id) := by
  have hqueue : ∀ x d', s'.queue x d' = if x = fd then (s.queue fd d').filter (· ≠ id) else s.queue x d' := by
    intro x d'
    rw [queue_upd s s' fd _ hreg]
    by_cases hx : x = fd
    · simp only [hx, if_true, qget_ite, FdQueue.get_remove, queue_of_reg_some hr]
    · simp [hx]
  have hmem : id ∈ s.queue fd d := by rw [queue_of_reg_some hr]; exact hm
  have hmono : ∀ x, queuedP s' x ↔ queuedP s x ∧ x ≠ id := by
    intro x
    constructor
    · rintro ⟨f, dd, hx⟩
      rw [hqueue] at hx
      by_cases hf : f = fd
      · subst hf
        simp only [if_true, List.mem_filter, decide_eq_true_eq] at hx
        exact ⟨⟨f, dd, hx.1⟩, hx.2⟩
      · simp only [hf, if_false] at hx
        refine ⟨⟨f, dd, hx⟩, ?_⟩
        rintro rfl
        exact hf (hq.unique hx hmem).1
    · rintro ⟨⟨f, dd, hx⟩, hne⟩
      refine ⟨f, dd, ?_⟩
      rw [hqueue]
      by_cases hf : f = fd
      · subst hf; simp [hx, hne]
      · simp [hf, hx]
  refine ⟨?_, hmono⟩
  refine hq.localUpdate fd _ hreg ?_ (fun _ _ hp => hp) ?_ ?_ ?_ ?_ ?_ ?_ ?_
  · intro x hx; rw [hep]; simp [upd, hx]
  · unfold Armed
    rw [hreg, hep]
    simp only [upd_same]
    cases he : (q.remove id).isEmpty with
    | true => simp
    | false => simp only [Bool.false_eq_true, if_false]; exact ⟨he, _, rfl, rfl, fun _ => rfl⟩
  · intro d' x hx
    rw [hqueue] at hx
    simp only [if_true, List.mem_filter] at hx
    rw [htrack]; exact hq.tracked fd d' x hx.1
  · intro x d' y _ _; rw [htrack]
  · intro d'
    rw [hqueue]; simp only [if_true]
    exact (hq.nodup fd d').filter _
  · intro d'
    rw [hqueue, pushed_congr hpr hpw]; simp only [if_true]
    exact (List.filter_sublist).trans (hq.fifo fd d')
  · intro x d' _; exact pushed_congr hpr hpw x d'
  · intro x hp ht hc
    by_cases hxi : x = id
    · subst hxi; rw [hcid] at hc; cases hc
    · rw [htrack] at ht
      rw [hcanc x hxi] at hc
      exact (hmono x).2 ⟨hq.live x (hslot x hxi hp) ht hc, hxi⟩

theorem Inv.gaveUp {pend : Fd → Prop} {s : St W} (h : Inv pend s) (g : Id → Bool) :
    Inv pend { s with gaveUp := g } := by
  refine ⟨h.q.congr rfl rfl (fun _ _ => rfl) rfl rfl (fun x hx ht hc => ⟨hx, ht, hc⟩), ?_⟩
  have hq : queuedP ({ s with gaveUp := g } : St W) = queuedP s := queuedP_congr rfl
  rw [hq]; exact h.k

/-- marking an operation cancelled without touching anything else -/
theorem Inv.markCancelled {s : St W} (h : Inv noPend s) (id : Id) :
    Inv noPend { s with cancelled := upd s.cancelled id true } := by
  refine ⟨h.q.congr rfl rfl (fun _ _ => rfl) rfl rfl ?_, ?_⟩
  · intro x hx ht hc
    have hc' : upd s.cancelled id true x = false := hc
    by_cases hxi : x = id
    · subst hxi; simp at hc'
    · simp only [upd, hxi, if_false] at hc'
      exact ⟨hx, ht, hc'⟩
  · have hq : queuedP ({ s with cancelled := upd s.cancelled id true } : St W) = queuedP s := queuedP_congr rfl
    rw [hq]; exact h.k

/-- `Driver::cancel` for a pending, not yet cancelled operation -/
theorem inv_driverCancel {s : St W} (h : Inv noPend s) (id : Id)
    (hp : ∃ w, s.keys.slot id = .pending w) (hc : s.cancelled id = false) :
    Inv noPend (driverCancel { s with cancelled := upd s.cancelled id true } id) := by
  unfold driverCancel
  cases ht : s.track id with
  | nil => simp only [ht]; exact h.markCancelled id
  | cons t ts =>
    simp only [ht]
    -- the operation is queued at exactly one place
    obtain ⟨fd, d, hm⟩ := h.q.live id hp (by rw [ht]; simp) hc
    have htr := h.q.tracked fd d id hm
    rw [ht] at htr
    simp only [List.cons.injEq] at htr
    obtain ⟨rfl, rfl⟩ := htr
    simp only [List.map_cons, List.map_nil, cancelFds]
    -- registry entry and registration exist
    cases hr : s.reg fd with
    | none => rw [queue_of_reg_none hr] at hm; cases hm
    | some q =>
      obtain ⟨_, ev, he, _⟩ := (h.q.armed fd).reg_some hr
      rw [removeOne_some _ id fd q ev (by simpa using hr) (by simpa using he)]
      simp only [cancelFds]
      have hmq : id ∈ q.get d := by rw [← queue_of_reg_some hr]; exact hm
      have key : ∀ s2 : St W,
          s2.reg = upd s.reg fd (if (q.remove id).isEmpty then none else some (q.remove id)) →
          s2.epoll = upd s.epoll fd (if (q.remove id).isEmpty then none else some (q.remove id).event) →
          s2.track = s.track → s2.pushedR = s.pushedR → s2.pushedW = s.pushedW →
          s2.keys = s.keys.produce id (.err ECANCELED) → s2.chan = s.chan ++ [(id, .err ECANCELED)] →
          s2.pool = s.pool → s2.cancelled = upd s.cancelled id true → Inv noPend s2 := by
        intro s2 e1 e2 e3 e4 e5 e6 e7 e8 e9
        obtain ⟨hq', hmono⟩ := qinv_remove (s' := s2) h.q id fd d q hr hmq e1 e2 e3 e4 e5
          (by intro x _ hx; rw [e6] at hx; simpa using hx)
          (by intro x hx; rw [e9]; simp [upd, hx]) (by rw [e9]; simp)
        refine ⟨hq', ?_⟩
        rw [e6, e7, e8]
        have hsrc : s.keys.src id = [] := (h.k.qFresh id ⟨fd, d, hm⟩).1
        exact h.k.produceChan _ hsrc (fun x hx => (hmono x).1 hx) (fun x hx => ⟨hx, by
          rintro rfl; exact (h.k.qFresh x ⟨fd, d, hm⟩).2 hx⟩) h.k.poolNodup hp
      cases hemp : (q.remove id).isEmpty with
      | true => exact key _ (by simp [hemp]) (by simp [hemp]) rfl rfl rfl rfl rfl rfl rfl
      | false => exact key _ (by simp [hemp]) (by simp [hemp]) rfl rfl rfl rfl rfl rfl rfl

theorem inv_cancelToken {s : St W} (h : Inv noPend s) (id : Id) : Inv noPend (cancelToken s id).1 := by
  unfold cancelToken
  cases hs : s.keys.slot id with
  | free => simp only; exact h
  | ready r =>
    simp only [Slot.isReady, Bool.or_true, if_true]
    exact h.markCancelled id
  | pending w =>
    simp only [Slot.isReady, Bool.or_false]
    cases hc : s.cancelled id with
    | true => simp only [if_true]; exact h.markCancelled id
    | false =>
      simp only [Bool.false_eq_true, if_false]
      exact inv_driverCancel h id ⟨w, hs⟩ hc

theorem inv_cancelDrop {s : St W} (h : Inv noPend s) (id : Id) (hnf : s.keys.slot id ≠ .free) :
    Inv noPend (cancelDrop s id).1 := by
  unfold cancelDrop
  cases hc : s.cancelled id with
  | true => simp only [if_true]; exact h.gaveUp _
  | false =>
    simp only [Bool.false_eq_true, if_false]
    cases hs : s.keys.slot id with
    | free => exact (hnf hs).elim
    | ready r =>
      rw [pop_ready _ _ _ (by simpa using hs)]
      simp only
      have h1 := h.markCancelled id
      have h2 := inv_pop h1 id
      unfold pop at h2
      rw [pop_ready _ _ _ (by simpa using hs)] at h2
      exact h2
    | pending w =>
      rw [pop_not_ready _ _ (by intro r; simp [hs])]
      simp only
      exact (inv_driverCancel h id ⟨w, hs⟩ hc).gaveUp _

end

/-! ### poll: `epoll_wait`, the `completed` channel -/

section
variable {W : Type}

def disarm (ev : Event) : Event := { ev with readable := false, writable := false }

/-- what `deliver` (one-shot `epoll_wait`) does -/
theorem deliver_spec : ∀ (fired : List Fired) (s s' : St W) (evs : List Event),
    deliver s fired = .ok (s', evs) →
    (fired.map (·.fd)).Nodup ∧
    s'.reg = s.reg ∧ s'.track = s.track ∧ s'.chan = s.chan ∧ s'.pool = s.pool ∧ s'.cancelled = s.cancelled ∧
    s'.keys = s.keys ∧ s'.world = s.world ∧ s'.pushedR = s.pushedR ∧ s'.pushedW = s.pushedW ∧
    (∀ x, x ∉ fired.map (·.fd) → s'.epoll x = s.epoll x) ∧
    (∀ f ∈ fired, ∃ ev, s.epoll f.fd = some ev ∧ (ev.readable || ev.writable) = true ∧
        s'.epoll f.fd = some (disarm ev)) ∧
    evs = fired.map (fun f => ⟨((s.epoll f.fd).getD ⟨0, false, false⟩).key, f.readable, f.writable⟩) := by
  intro fired
  induction fired with
  | nil =>
    intro s s' evs h
    simp only [deliver, Except.ok.injEq, Prod.mk.injEq] at h
    obtain ⟨rfl, rfl⟩ := h
    simp
  | cons f rest ih =>
    intro s s' evs h
    unfold deliver at h
    cases he : s.epoll f.fd with
    | none => simp [he] at h
    | some ev =>
      simp only [he] at h
      by_cases harm : (!(ev.readable || ev.writable)) = true
      · simp [harm] at h
      · simp only [harm, Bool.false_eq_true, if_false] at h
        have harm' : (ev.readable || ev.writable) = true := by
          cases hr : ev.readable <;> cases hw : ev.writable <;> simp_all
        cases hrec : deliver ({ s with epoll := upd s.epoll f.fd (some { ev with readable := false, writable := false }) } : St W) rest with
        | error e => simp [hrec] at h
        | ok p =>
          obtain ⟨s2, evs2⟩ := p
          simp only [hrec, Except.ok.injEq, Prod.mk.injEq] at h
          obtain ⟨rfl, rfl⟩ := h
          obtain ⟨hnd, e1, e2, e3, e4, e5, e6, e7, e8, e9, hother, hfired, hevs⟩ := ih _ _ _ hrec
          have hnotin : f.fd ∉ rest.map (·.fd) := by
            intro hm
            obtain ⟨g, hg, hgf⟩ := List.mem_map.1 hm
            obtain ⟨ev', h1, h2, _⟩ := hfired g hg
            simp only [hgf, upd_same, Option.some.injEq] at h1
            subst h1
            simp at h2
          refine ⟨?_, e1, e2, e3, e4, e5, e6, e7, e8, e9, ?_, ?_, ?_⟩
          · rw [List.map_cons]; exact List.nodup_cons.2 ⟨hnotin, hnd⟩
          · intro x hx
            simp only [List.map_cons, List.mem_cons, not_or] at hx
            rw [hother x hx.2]
            simp [upd, hx.1]
          · intro g hg
            rcases List.mem_cons.1 hg with rfl | hg
            · refine ⟨ev, he, harm', ?_⟩
              rw [hother _ hnotin]; simp [disarm]
            · obtain ⟨ev', h1, h2, h3⟩ := hfired g hg
              have hne : g.fd ≠ f.fd := by
                intro e; exact hnotin (e ▸ List.mem_map.2 ⟨g, hg, rfl⟩)
              simp only [upd, hne, if_false] at h1
              exact ⟨ev', h1, h2, h3⟩
          · simp only [List.map_cons, List.cons.injEq, he, Option.getD_some, true_and]
            rw [hevs]
            apply List.map_congr_left
            intro g hg
            have hne : g.fd ≠ f.fd := by
              intro e; exact hnotin (e ▸ List.mem_map.2 ⟨g, hg, rfl⟩)
            simp [upd, hne]

theorem pollCompleted_eq (s : St W) :
    pollCompleted s = ({ s with chan := [], keys := notifyAll s.keys s.chan }, !s.chan.isEmpty) := by
  unfold pollCompleted notifyAll
  have : ∀ (chan : List (Id × Res)) (acc : St W),
      chan.foldl (fun (acc : St W) (e : Id × Res) => { acc with keys := acc.keys.notify e.1 e.2 }) acc =
        { acc with keys := chan.foldl (fun ks e => ks.notify e.1 e.2) acc.keys } := by
    intro chan
    induction chan with
    | nil => intro acc; rfl
    | cons e rest ih => intro acc; simp only [List.foldl_cons]; rw [ih]
  rw [this]

theorem inv_pollCompleted {pend : Fd → Prop} {s : St W} (h : Inv pend s) : Inv pend (pollCompleted s).1 := by
  rw [pollCompleted_eq]
  refine ⟨h.q.congr rfl rfl (fun _ _ => rfl) rfl rfl ?_, ?_⟩
  · intro x hx ht hc
    obtain ⟨w, hw⟩ := hx
    exact ⟨⟨w, notifyAll_slot_pending _ _ x w hw⟩, ht, hc⟩
  · have hq : queuedP ({ s with chan := [], keys := notifyAll s.keys s.chan } : St W) = queuedP s := queuedP_congr rfl
    rw [hq]
    exact kinv_notifyAll _ _ (by simpa using h.k)

end

/-! ### `poll_one` for an operation that waits for one descriptor -/

section
variable {W : Type}

theorem handleEvent_single (fd : Fd) (d : Dir) :
    handleEvent [⟨fd, d, false⟩] fd = ([⟨fd, d, true⟩], true) := by
  simp [handleEvent]

theorem upd_upd {α : Type} (f : Nat → α) (k : Nat) (a b : α) : upd (upd f k a) k b = upd f k b := by
  funext x; by_cases hx : x = k <;> simp [upd, hx]

/-- the event matches no waiting operation: only the registration is renewed -/
theorem pollOne_nopop (ops : Ops W) (s : St W) (ev : Event) (fd : Fd) (q : FdQueue) (ev0 : Event)
    (hr : s.reg fd = some q) (he : s.epoll fd = some ev0) (hne : q.isEmpty = false)
    (hpop : q.popInterest ev = none) :
    pollOne ops s ev fd = .ok ({ s with epoll := upd s.epoll fd (some q.event) }, none) := by
  unfold pollOne
  simp only [hr]
  unfold pollOneBody
  simp only [hpop, hr]
  rw [renew_queue s fd q ev0 he]
  simp [hne]

/-- the head operation runs and completes -/
theorem pollOne_ready (ops : Ops W) (s : St W) (ev : Event) (fd : Fd) (q q' : FdQueue) (ev0 : Event)
    (id : Id) (d : Dir) (res : Res) (w' : W)
    (hr : s.reg fd = some q) (he : s.epoll fd = some ev0)
    (hpop : q.popInterest ev = some (id, q')) (htr : s.track id = [⟨fd, d, false⟩])
    (hop : ops.operate s.world id = (some res, w')) :
    ∃ s', pollOne ops s ev fd = .ok (s', none) ∧
      s'.reg = upd s.reg fd (if q'.isEmpty then none else some q') ∧
      s'.epoll = upd s.epoll fd (if q'.isEmpty then none else some q'.event) ∧
      s'.track = upd s.track id [⟨fd, d, true⟩] ∧
      s'.keys = (s.keys.produce id res).notify id res ∧
      s'.chan = s.chan ∧ s'.pool = s.pool ∧ s'.cancelled = s.cancelled ∧
      s'.pushedR = s.pushedR ∧ s'.pushedW = s.pushedW ∧ s'.world = w' := by
  unfold pollOne
  simp only [hr]
  unfold pollOneBody
  simp only [hpop, htr, handleEvent_single, if_true, hop, upd_same]
  rw [renew_queue _ fd q' ev0 (by simpa using he)]
  cases hq : q'.isEmpty with
  | true => exact ⟨_, rfl, by simp [upd_upd], by simp, rfl, rfl, rfl, rfl, rfl, rfl, rfl, rfl⟩
  | false => exact ⟨_, rfl, by simp, by simp, rfl, rfl, rfl, rfl, rfl, rfl, rfl, rfl⟩

/-- the head operation runs and is not ready after all: it goes back to the front, the state of the
    queues is what it was, the descriptor is armed again -/
theorem pollOne_pending (ops : Ops W) (s : St W) (ev : Event) (fd : Fd) (q q' : FdQueue) (ev0 : Event)
    (id : Id) (d : Dir) (w' : W)
    (hr : s.reg fd = some q) (he : s.epoll fd = some ev0)
    (hpop : q.popInterest ev = some (id, q')) (hq : q = q'.pushFront id d)
    (htr : s.track id = [⟨fd, d, false⟩])
    (hop : ops.operate s.world id = (none, w')) :
    ∃ s', pollOne ops s ev fd = .ok (s', none) ∧
      s'.reg = s.reg ∧ s'.epoll = upd s.epoll fd (some q.event) ∧ s'.track = s.track ∧
      s'.keys = s.keys ∧ s'.chan = s.chan ∧ s'.pool = s.pool ∧ s'.cancelled = s.cancelled ∧
      s'.pushedR = s.pushedR ∧ s'.pushedW = s.pushedW ∧ s'.world = w' := by
  unfold pollOne
  simp only [hr]
  unfold pollOneBody
  simp only [hpop, htr, handleEvent_single, if_true, hop, upd_same, resetTracks, List.map_cons, List.map_nil,
    submitFrontAll]
  rw [submitFront_ok ops _ id fd d q' ev0 (by simp) (by simpa using he)]
  simp only [upd_same]
  rw [renew_queue _ fd (q'.pushFront id d) (q'.pushFront id d).event (by simp)]
  simp only [FdQueue.pushFront_nonempty, Bool.false_eq_true, if_false]
  refine ⟨_, rfl, ?_, ?_, ?_, rfl, rfl, rfl, rfl, rfl, rfl, rfl⟩
  · simp only [upd_upd]; rw [← hq]; exact upd_self _ _ _ hr
  · simp only [upd_upd]; rw [← hq]
  · simp only [upd_upd]; exact upd_self _ _ _ htr

end

section
variable {W : Type}

/-- the queues of `fd` lose exactly the operation `id` (pop of the head / removal), `fd` is re-armed -/
theorem qinv_shrink {pend pend' : Fd → Prop} {s s' : St W} (hq : QInv pend s) (id : Id) (fd : Fd)
    (q q' : FdQueue) (hr : s.reg fd = some q)
    (hsub : ∀ d', (q'.get d').Sublist (q.get d'))
    (hmem : ∀ d' x, x ∈ q'.get d' ↔ x ∈ q.get d' ∧ x ≠ id)
    (hidq : ∃ d, id ∈ q.get d)
    (hpend : ∀ x, x ≠ fd → pend x → pend' x)
    (hreg : s'.reg = upd s.reg fd (if q'.isEmpty then none else some q'))
    (hep : s'.epoll = upd s.epoll fd (if q'.isEmpty then none else some q'.event))
    (htrack : ∀ x, x ≠ id → s'.track x = s.track x)
    (hpr : s'.pushedR = s.pushedR) (hpw : s'.pushedW = s.pushedW)
    (hslot : ∀ x, x ≠ id → ((∃ w, s'.keys.slot x = .pending w) → ∃ w, s.keys.slot x = .pending w))
    (hcanc : s'.cancelled = s.cancelled)
    (hdead : ¬ ((∃ w, s'.keys.slot id = .pending w) ∧ s'.track id ≠ [] ∧ s'.cancelled id = false)) :
    QInv pend' s' ∧ (∀ x, queuedP s' x ↔ queuedP s x ∧ x ≠ id) := by
  have hqueue : ∀ x d', s'.queue x d' = if x = fd then q'.get d' else s.queue x d' := by
    intro x d'
    rw [queue_upd s s' fd _ hreg]
    by_cases hx : x = fd
    · simp only [hx, if_true, qget_ite]
    · simp [hx]
  obtain ⟨d, hidq⟩ := hidq
  have hmemS : id ∈ s.queue fd d := by rw [queue_of_reg_some hr]; exact hidq
  have hmono : ∀ x, queuedP s' x ↔ queuedP s x ∧ x ≠ id := by
    intro x
    constructor
    · rintro ⟨f, dd, hx⟩
      rw [hqueue] at hx
      by_cases hf : f = fd
      · subst hf
        simp only [if_true] at hx
        have := (hmem dd x).1 hx
        exact ⟨⟨f, dd, by rw [queue_of_reg_some hr]; exact this.1⟩, this.2⟩
      · simp only [hf, if_false] at hx
        refine ⟨⟨f, dd, hx⟩, ?_⟩
        rintro rfl
        exact hf (hq.unique hx hmemS).1
    · rintro ⟨⟨f, dd, hx⟩, hne⟩
      refine ⟨f, dd, ?_⟩
      rw [hqueue]
      by_cases hf : f = fd
      · subst hf
        simp only [if_true]
        rw [queue_of_reg_some hr] at hx
        exact (hmem dd x).2 ⟨hx, hne⟩
      · simp [hf, hx]
  refine ⟨?_, hmono⟩
  refine hq.localUpdate fd _ hreg ?_ hpend ?_ ?_ ?_ ?_ ?_ ?_ ?_
  · intro x hx; rw [hep]; simp [upd, hx]
  · unfold Armed
    rw [hreg, hep]
    simp only [upd_same]
    cases he : q'.isEmpty with
    | true => simp
    | false => simp only [Bool.false_eq_true, if_false]; exact ⟨he, _, rfl, rfl, fun _ => rfl⟩
  · intro d' x hx
    rw [hqueue] at hx
    simp only [if_true] at hx
    have := (hmem d' x).1 hx
    rw [htrack x this.2]
    exact hq.tracked fd d' x (by rw [queue_of_reg_some hr]; exact this.1)
  · intro x d' y hx hy
    have hne : y ≠ id := by
      rintro rfl
      exact hx (hq.unique hy hmemS).1
    exact htrack y hne
  · intro d'
    rw [hqueue]; simp only [if_true]
    have := hq.nodup fd d'
    rw [queue_of_reg_some hr] at this
    exact (hsub d').nodup this
  · intro d'
    rw [hqueue, pushed_congr hpr hpw]; simp only [if_true]
    have := hq.fifo fd d'
    rw [queue_of_reg_some hr] at this
    exact (hsub d').trans this
  · intro x d' _; exact pushed_congr hpr hpw x d'
  · intro x hp ht hc
    by_cases hxi : x = id
    · subst hxi; exact (hdead ⟨hp, ht, hc⟩).elim
    · rw [htrack x hxi] at ht
      rw [hcanc] at hc
      exact (hmono x).2 ⟨hq.live x (hslot x hxi hp) ht hc, hxi⟩

/-- only the registration of `fd` is renewed with the current `event()` -/
theorem inv_rearm {pend pend' : Fd → Prop} {s s' : St W} (h : Inv pend s) (fd : Fd) (q : FdQueue)
    (hr : s.reg fd = some q)
    (hpend : ∀ x, x ≠ fd → pend x → pend' x)
    (hreg : s'.reg = s.reg) (hep : s'.epoll = upd s.epoll fd (some q.event)) (htrack : s'.track = s.track)
    (hkeys : s'.keys = s.keys) (hchan : s'.chan = s.chan) (hpool : s'.pool = s.pool)
    (hcanc : s'.cancelled = s.cancelled) (hpr : s'.pushedR = s.pushedR) (hpw : s'.pushedW = s.pushedW) :
    Inv pend' s' := by
  have hne := ((h.q.armed fd).reg_some hr).1
  have hqP : queuedP s' = queuedP s := queuedP_congr hreg
  refine ⟨?_, ?_⟩
  · refine h.q.localUpdate fd (some q) (by rw [hreg]; exact (upd_self _ _ _ hr).symm) ?_ hpend ?_ ?_ ?_ ?_ ?_ ?_ ?_
    · intro x hx; rw [hep]; simp [upd, hx]
    · unfold Armed
      rw [hreg, hr, hep]
      simp only [upd_same]
      exact ⟨hne, _, rfl, rfl, fun _ => rfl⟩
    · intro d x hx
      rw [queue_congr hreg] at hx
      rw [htrack]; exact h.q.tracked fd d x hx
    · intro x d y _ _; rw [htrack]
    · intro d; rw [queue_congr hreg]; exact h.q.nodup fd d
    · intro d; rw [queue_congr hreg, pushed_congr hpr hpw]; exact h.q.fifo fd d
    · intro x d _; exact pushed_congr hpr hpw x d
    · intro x hp ht hc
      rw [hkeys] at hp; rw [htrack] at ht; rw [hcanc] at hc
      rw [hqP]; exact h.q.live x hp ht hc
  · rw [hkeys, hchan, hpool, hqP]; exact h.k

end

section
variable {W : Type}

/-- `poll_one` on a registered descriptor whose operations wait for one descriptor each: never fails, never
    panics, keeps the invariant, re-arms the descriptor and leaves all other descriptors alone. -/
theorem inv_pollOne (ops : Ops W) {pend : Fd → Prop} {s : St W} (h : Inv pend s) (fd : Fd) (q : FdQueue)
    (ev : Event) (hr : s.reg fd = some q) :
    ∃ s', pollOne ops s ev fd = .ok (s', none) ∧ Inv (fun x => pend x ∧ x ≠ fd) s' ∧
      (∀ x, x ≠ fd → s'.reg x = s.reg x) ∧ s'.chan = s.chan := by
  obtain ⟨hne, ev0, he, _, _⟩ := (h.q.armed fd).reg_some hr
  have hpend : ∀ x, x ≠ fd → pend x → (pend x ∧ x ≠ fd) := fun x hx hp => ⟨hp, hx⟩
  cases hpop : q.popInterest ev with
  | none =>
    refine ⟨_, pollOne_nopop ops s ev fd q ev0 hr he hne hpop, ?_, fun _ _ => rfl, rfl⟩
    exact inv_rearm h fd q hr hpend rfl rfl rfl rfl rfl rfl rfl rfl rfl
  | some p =>
    obtain ⟨id, q'⟩ := p
    obtain ⟨d, hget, hother, hqeq⟩ := FdQueue.popInterest_some hpop
    have hidq : id ∈ q.get d := by rw [hget]; simp
    have hmemS : id ∈ s.queue fd d := by rw [queue_of_reg_some hr]; exact hidq
    have htr := h.q.tracked fd d id hmemS
    cases hop : ops.operate s.world id with
    | mk ores w' =>
      cases ores with
      | none =>
        obtain ⟨s', hs', e1, e2, e3, e4, e5, e6, e7, e8, e9, _⟩ :=
          pollOne_pending ops s ev fd q q' ev0 id d w' hr he hpop hqeq htr hop
        refine ⟨s', hs', ?_, fun x _ => by rw [e1], e5⟩
        exact inv_rearm h fd q hr hpend e1 e2 e3 e4 e5 e6 e7 e8 e9
      | some res =>
        obtain ⟨s', hs', e1, e2, e3, e4, e5, e6, e7, e8, e9, _⟩ :=
          pollOne_ready ops s ev fd q q' ev0 id d res w' hr he hpop htr hop
        refine ⟨s', hs', ?_, fun x hx => by rw [e1]; simp [upd, hx], e5⟩
        have hnd := h.q.nodup fd d
        rw [queue_of_reg_some hr, hget] at hnd
        have hnotin : id ∉ q'.get d := (List.nodup_cons.1 hnd).1
        have hsrc : s.keys.src id = [] := (h.k.qFresh id ⟨fd, d, hmemS⟩).1
        have hnp : id ∉ s.pool := (h.k.qFresh id ⟨fd, d, hmemS⟩).2
        have hpnd := h.k.pending_of_fresh hsrc (Or.inl ⟨fd, d, hmemS⟩)
        obtain ⟨w0, hw0⟩ := hpnd
        have hslotid : s'.keys.slot id = .ready res := by
          rw [e4, (notify_pending (s.keys.produce id res) id res w0 (by simpa using hw0)).1]; simp
        obtain ⟨hq', hmono⟩ := qinv_shrink (pend' := fun x => pend x ∧ x ≠ fd) (s' := s') h.q id fd q q' hr
          (by
            intro d'
            by_cases hd : d' = d
            · subst hd; rw [hget]; exact List.sublist_cons_self _ _
            · rw [hother d' hd]; exact List.Sublist.refl _)
          (by
            intro d' x
            by_cases hd : d' = d
            · subst hd
              rw [hget]
              constructor
              · intro hx; exact ⟨List.mem_cons_of_mem _ hx, fun e => hnotin (e ▸ hx)⟩
              · rintro ⟨hx, hne'⟩
                rcases List.mem_cons.1 hx with rfl | hx
                · exact (hne' rfl).elim
                · exact hx
            · rw [hother d' hd]
              constructor
              · intro hx
                refine ⟨hx, ?_⟩
                rintro rfl
                have hx' : x ∈ s.queue fd d' := by rw [queue_of_reg_some hr]; exact hx
                exact hd (h.q.unique hx' hmemS).2
              · exact fun hx => hx.1)
          ⟨d, hidq⟩ hpend e1 e2
          (by intro x hx; rw [e3]; simp [upd, hx])
          e8 e9
          (by
            intro x hx hp
            rw [e4] at hp
            obtain ⟨w, hw⟩ := hp
            rw [(notify_frame _ id res x hx).1] at hw
            exact ⟨w, by simpa using hw⟩)
          e7
          (by rintro ⟨⟨w, hw⟩, _⟩; rw [hslotid] at hw; cases hw)
        refine ⟨hq', ?_⟩
        rw [e4, e5, e6]
        exact h.k.complete res hsrc ⟨w0, hw0⟩ hnp (fun x hx => ((hmono x).1 hx).1) (fun hx => ((hmono id).1 hx).2 rfl)

/-- the key registered for a descriptor: head of its write queue, else of its read queue -/
def keyOf (s : St W) (fd : Fd) : Id :=
  match s.reg fd with
  | some q => q.event.key
  | none => 0

def mkEv (s : St W) (f : Fired) : Event := ⟨keyOf s f.fd, f.readable, f.writable⟩

/-- the loop over the reported events: every event is attributed to the right descriptor and handled;
    nothing is skipped, no error, no panic -/
theorem inv_eventLoop (ops : Ops W) : ∀ (fired : List Fired) (s : St W),
    Inv (fun x => x ∈ fired.map (·.fd)) s → (fired.map (·.fd)).Nodup →
    (∀ f ∈ fired, ∃ q, s.reg f.fd = some q) →
    ∃ s', eventLoop ops s (fired.map (mkEv s)) = .ok (s', .ok) ∧ Inv noPend s' ∧ s'.chan = s.chan := by
  intro fired
  induction fired with
  | nil =>
    intro s h _ _
    refine ⟨s, rfl, ?_, rfl⟩
    have : (fun x => x ∈ ([] : List Fired).map (·.fd)) = noPend := by funext x; simp [noPend]
    rw [this] at h; exact h
  | cons f rest ih =>
    intro s h hnd hregs
    rw [List.map_cons] at hnd
    obtain ⟨hnotin, hnd'⟩ := List.nodup_cons.1 hnd
    obtain ⟨q, hr⟩ := hregs f (List.mem_cons_self)
    obtain ⟨hne, ev0, he, _, _⟩ := (h.q.armed f.fd).reg_some hr
    -- the key in the event is a queue head of this very descriptor, so `next_fd` finds this descriptor
    have hkey : keyOf s f.fd = q.event.key := by simp [keyOf, hr]
    obtain ⟨d, hkd⟩ := FdQueue.event_key_in q hne
    have hmemS : keyOf s f.fd ∈ s.queue f.fd d := by rw [queue_of_reg_some hr, hkey]; exact hkd
    have htr := h.q.tracked f.fd d _ hmemS
    have hsrc := (h.k.qFresh _ ⟨f.fd, d, hmemS⟩).1
    obtain ⟨w0, hw0⟩ := h.k.pending_of_fresh hsrc (Or.inl ⟨f.fd, d, hmemS⟩)
    obtain ⟨s1, hs1, hinv1, hframe, hchan1⟩ := inv_pollOne ops h f.fd q (mkEv s f) hr
    -- the remaining events still carry the registered keys
    have hmk : rest.map (mkEv s) = rest.map (mkEv s1) := by
      apply List.map_congr_left
      intro g hg
      have hne' : g.fd ≠ f.fd := fun e => hnotin (e ▸ List.mem_map.2 ⟨g, hg, rfl⟩)
      simp [mkEv, keyOf, hframe g.fd hne']
    have hinv1' : Inv (fun x => x ∈ rest.map (·.fd)) s1 := by
      have : (fun x => (x ∈ (f :: rest).map (·.fd)) ∧ x ≠ f.fd) = (fun x => x ∈ rest.map (·.fd)) := by
        funext x
        apply propext
        simp only [List.map_cons, List.mem_cons]
        constructor
        · rintro ⟨h1 | h1, h2⟩
          · exact (h2 h1).elim
          · exact h1
        · intro h1
          exact ⟨Or.inr h1, fun e => hnotin (e ▸ h1)⟩
      rw [this] at hinv1; exact hinv1
    obtain ⟨s', hs', hinv', hchan'⟩ := ih s1 hinv1' hnd' (by
      intro g hg
      have hne' : g.fd ≠ f.fd := fun e => hnotin (e ▸ List.mem_map.2 ⟨g, hg, rfl⟩)
      rw [hframe g.fd hne']
      exact hregs g (List.mem_cons_of_mem _ hg))
    refine ⟨s', ?_, hinv', hchan'.trans hchan1⟩
    rw [List.map_cons]
    unfold eventLoop
    have hfree : (s.keys.slot (mkEv s f).key == Slot.free) = false := by
      simp [mkEv, hw0]
    simp only [hfree, Bool.false_eq_true, if_false]
    have htr' : s.track (mkEv s f).key = [⟨f.fd, d, false⟩] := htr
    simp only [htr', nextFd, List.find?, Bool.not_false, Option.map_some]
    rw [hs1]
    simp only
    rw [hmk]; exact hs'

end

section
variable {W : Type}

theorem deliver_error : ∀ (fired : List Fired) (s : St W) (e : Fault),
    deliver s fired = .error e → ∃ m, e = .reject m := by
  intro fired
  induction fired with
  | nil => intro s e h; simp [deliver] at h
  | cons f rest ih =>
    intro s e h
    unfold deliver at h
    cases he : s.epoll f.fd with
    | none => simp only [he] at h; cases h; exact ⟨_, rfl⟩
    | some ev =>
      simp only [he] at h
      by_cases harm : (!(ev.readable || ev.writable)) = true
      · simp only [harm, if_true] at h; cases h; exact ⟨_, rfl⟩
      · simp only [harm, Bool.false_eq_true, if_false] at h
        cases hrec : deliver ({ s with epoll := upd s.epoll f.fd (some { ev with readable := false, writable := false }) } : St W) rest with
        | error e' =>
          simp only [hrec] at h
          cases h
          exact ih _ _ hrec
        | ok p => simp [hrec] at h

/-- after `epoll_wait`: the reported descriptors are disarmed but still carry the key of a queue head -/
theorem inv_deliver {s s1 : St W} (h : Inv noPend s) (fired : List Fired) (evs : List Event)
    (hd : deliver s fired = .ok (s1, evs)) :
    Inv (fun x => x ∈ fired.map (·.fd)) s1 ∧ (fired.map (·.fd)).Nodup ∧
    (∀ f ∈ fired, ∃ q, s1.reg f.fd = some q) ∧ evs = fired.map (mkEv s1) ∧
    s1.chan = s.chan := by
  obtain ⟨hnd, e1, e2, e3, e4, e5, e6, _, e8, e9, hother, hfired, hevs⟩ := deliver_spec fired s s1 evs hd
  have hregs : ∀ f ∈ fired, ∃ q, s.reg f.fd = some q ∧ s.epoll f.fd = some q.event := by
    intro f hf
    obtain ⟨ev, h1, _, _⟩ := hfired f hf
    cases hr : s.reg f.fd with
    | none => have := (h.q.armed f.fd).reg_none hr; rw [this] at h1; cases h1
    | some q =>
      obtain ⟨_, ev', h2, _, h4⟩ := (h.q.armed f.fd).reg_some hr
      have : ev' = q.event := h4 (fun hp => hp)
      exact ⟨q, rfl, by rw [h2, this]⟩
  refine ⟨⟨?_, ?_⟩, hnd, ?_, ?_, e3⟩
  · -- queue invariant: only the registrations of the reported descriptors changed (flags cleared)
    refine ⟨?_, ?_, ?_, ?_, ?_⟩
    · intro fd d id hm; rw [queue_congr e1] at hm; rw [e2]; exact h.q.tracked fd d id hm
    · intro fd d; rw [queue_congr e1]; exact h.q.nodup fd d
    · intro fd
      by_cases hm : fd ∈ fired.map (·.fd)
      · obtain ⟨f, hf, rfl⟩ := List.mem_map.1 hm
        obtain ⟨q, hq1, hq2⟩ := hregs f hf
        obtain ⟨ev, h1, _, h3⟩ := hfired f hf
        rw [hq2] at h1
        cases h1
        unfold Armed
        rw [e1, hq1]
        exact ⟨((h.q.armed f.fd).reg_some hq1).1, _, h3, rfl, fun hn => (hn hm).elim⟩
      · have := h.q.armed fd
        unfold Armed at this ⊢
        rw [e1, hother fd hm]
        cases hr : s.reg fd with
        | none => rw [hr] at this; exact this
        | some q =>
          rw [hr] at this
          obtain ⟨a, ev, b, c, e⟩ := this
          exact ⟨a, ev, b, c, fun _ => e (fun hp => hp)⟩
    · intro fd d; rw [queue_congr e1, pushed_congr e8 e9]; exact h.q.fifo fd d
    · intro id hp ht hc
      rw [e6] at hp; rw [e2] at ht; rw [e5] at hc
      rw [queuedP_congr e1]; exact h.q.live id hp ht hc
  · rw [e6, e3, e4, queuedP_congr e1]; exact h.k
  · intro f hf
    obtain ⟨q, hq1, _⟩ := hregs f hf
    exact ⟨q, by rw [e1]; exact hq1⟩
  · rw [hevs]
    apply List.map_congr_left
    intro f hf
    obtain ⟨q, hq1, hq2⟩ := hregs f hf
    simp [mkEv, keyOf, e1, hq1, hq2]

/-- `Driver::poll` keeps the invariant; it cannot panic and (for operations waiting for one descriptor)
    cannot fail: it reports `Ok` or the timeout -/
theorem inv_poll (ops : Ops W) {s : St W} (h : Inv noPend s) (t : Bool) (fired : List Fired) :
    (∃ m, poll ops s t fired = .error (.reject m)) ∨
    (∃ s' r, poll ops s t fired = .ok (s', r) ∧ Inv noPend s' ∧ (r = .ok ∨ r = .timedOut)) := by
  unfold poll
  cases hd : deliver s fired with
  | error e =>
    obtain ⟨m, rfl⟩ := deliver_error fired s e hd
    exact Or.inl ⟨m, rfl⟩
  | ok p =>
    obtain ⟨s1, evs⟩ := p
    right
    obtain ⟨hinv1, hnd, hregs, hevs, hchan⟩ := inv_deliver h fired evs hd
    simp only
    cases hfe : evs.isEmpty with
    | true =>
      simp only [if_true]
      have hfn : fired = [] := by
        rw [hevs] at hfe
        cases fired with
        | nil => rfl
        | cons a l => simp at hfe
      have hpe : (fun x => x ∈ fired.map (·.fd)) = noPend := by
        funext x; simp [hfn, noPend]
      rw [hpe] at hinv1
      have hc := inv_pollCompleted hinv1
      cases hpc : pollCompleted s1 with
      | mk s2 b =>
        rw [hpc] at hc
        cases b with
        | true => exact ⟨s2, .ok, rfl, hc, Or.inl rfl⟩
        | false =>
          cases t with
          | true => exact ⟨s2, .timedOut, rfl, hc, Or.inr rfl⟩
          | false => exact ⟨s2, .ok, rfl, hc, Or.inl rfl⟩
    | false =>
      simp only [Bool.false_eq_true, if_false]
      -- optional drain of the channel first: registrations untouched
      have key : ∀ s2 : St W, Inv (fun x => x ∈ fired.map (·.fd)) s2 → s2.reg = s1.reg →
          ∃ s' r, eventLoop ops s2 evs = .ok (s', r) ∧ Inv noPend s' ∧ (r = .ok ∨ r = .timedOut) := by
        intro s2 hinv2 hreg
        have hmk : evs = fired.map (mkEv s2) := by
          rw [hevs]
          apply List.map_congr_left
          intro f _
          simp [mkEv, keyOf, hreg]
        obtain ⟨s', hs', hinv', _⟩ := inv_eventLoop ops fired s2 hinv2 hnd (by
          intro f hf; rw [hreg]; exact hregs f hf)
        exact ⟨s', .ok, by rw [hmk]; exact hs', hinv', Or.inl rfl⟩
      cases hcc : (!s.chan.isEmpty) with
      | true =>
        simp only [if_true]
        exact key _ (inv_pollCompleted hinv1) (by rw [pollCompleted_eq])
      | false =>
        simp only [Bool.false_eq_true, if_false]
        exact key _ hinv1 rfl

end

/-! ### every step, every run -/

section
variable {W : Type}

theorem step_inv (ops : Ops W) {s : St W} (h : Inv noPend s) (e : Step) (hs : e.single) :
    (∃ m, step ops s e = .error (.reject m)) ∨ (∃ s', step ops s e = .ok s' ∧ Inv noPend s') := by
  cases e with
  | push id d =>
    simp only [step]
    by_cases hg : (s.keys.slot id != .free || !(s.keys.src id).isEmpty || !(s.track id).isEmpty || s.pool.contains id) = true
    · simp only [hg, if_true]; exact Or.inl ⟨_, rfl⟩
    · simp only [hg, Bool.false_eq_true, if_false]
      right
      simp only [Bool.or_eq_true, bne_iff_ne, ne_eq, Bool.not_eq_true', List.isEmpty_eq_false_iff,
        List.contains_eq_mem, decide_eq_true_eq, not_or, Decidable.not_not] at hg
      obtain ⟨⟨⟨h1, h2⟩, h3⟩, h4⟩ := hg
      refine ⟨_, rfl, inv_push ops h id d ?_ h1 ?_ ?_ h4⟩
      · cases d <;> simp_all [Step.single]
      · cases hsrc : s.keys.src id with
        | nil => rfl
        | cons a l => rw [hsrc] at h2; simp at h2
      · cases htr : s.track id with
        | nil => rfl
        | cons a l => rw [htr] at h3; simp at h3
  | jobDone id r =>
    simp only [step]
    by_cases hg : s.pool.contains id = true
    · simp only [hg, if_true]
      exact Or.inr ⟨_, rfl, inv_jobDone h id r (by simpa using hg)⟩
    · simp only [hg, Bool.false_eq_true, if_false]; exact Or.inl ⟨_, rfl⟩
  | poll t fired =>
    simp only [step]
    rcases inv_poll ops h t fired with ⟨m, hm⟩ | ⟨s', r, hp, hinv, _⟩
    · rw [hm]; exact Or.inl ⟨m, rfl⟩
    · rw [hp]; exact Or.inr ⟨s', rfl, hinv⟩
  | pop id =>
    simp only [step]
    cases hg : s.gaveUp id with
    | true => simp only [if_true]; exact Or.inl ⟨_, rfl⟩
    | false => simp only [Bool.false_eq_true, if_false]; exact Or.inr ⟨_, rfl, inv_pop h id⟩
  | setWaker id w =>
    simp only [step]
    cases hg : s.gaveUp id with
    | true => simp only [if_true]; exact Or.inl ⟨_, rfl⟩
    | false => simp only [Bool.false_eq_true, if_false]; exact Or.inr ⟨_, rfl, inv_setWaker h id w⟩
  | cancelToken id =>
    exact Or.inr ⟨_, rfl, inv_cancelToken h id⟩
  | cancelDrop id =>
    simp only [step]
    by_cases hg : (s.gaveUp id || s.keys.slot id == .free) = true
    · simp only [hg, if_true]; exact Or.inl ⟨_, rfl⟩
    · simp only [hg, Bool.false_eq_true, if_false]
      simp only [Bool.or_eq_true, beq_iff_eq, not_or] at hg
      exact Or.inr ⟨_, rfl, inv_cancelDrop h id hg.2⟩

/-- The invariant holds after every accepted sequence of driver calls and environment actions, and no
    sequence makes the driver panic. -/
theorem run_inv (ops : Ops W) : ∀ (steps : List Step) (s : St W), Inv noPend s → (∀ e ∈ steps, e.single) →
    (∃ m, run ops s steps = .error (.reject m)) ∨ (∃ s', run ops s steps = .ok s' ∧ Inv noPend s') := by
  intro steps
  induction steps with
  | nil => intro s h _; exact Or.inr ⟨s, rfl, h⟩
  | cons e rest ih =>
    intro s h hs
    unfold run
    rcases step_inv ops h e (hs e List.mem_cons_self) with ⟨m, hm⟩ | ⟨s1, h1, hinv1⟩
    · rw [hm]; exact Or.inl ⟨m, rfl⟩
    · rw [h1]; exact ih s1 hinv1 (fun e' he' => hs e' (List.mem_cons_of_mem _ he'))

end

section
variable {W : Type}

theorem pollCompleted_reg (s : St W) : (pollCompleted s).1.reg = s.reg := by rw [pollCompleted_eq]
theorem pollCompleted_track (s : St W) : (pollCompleted s).1.track = s.track := by rw [pollCompleted_eq]
theorem pollCompleted_world (s : St W) : (pollCompleted s).1.world = s.world := by rw [pollCompleted_eq]

/-- draining the `completed` channel does not complete an operation that is still queued -/
theorem pollCompleted_keeps_queued {pend : Fd → Prop} {s : St W} (h : Inv pend s) (x : Id)
    (hq : queuedP s x) (w : Option WakerId) (hw : s.keys.slot x = .pending w) :
    (pollCompleted s).1.keys.slot x = .pending w ∧ (pollCompleted s).1.keys.fin x = [] := by
  have h2 := (inv_pollCompleted h).k
  have hq2 : queuedP (pollCompleted s).1 x := by
    rw [queuedP_congr (pollCompleted_reg s)]; exact hq
  have hs2 := (h2.qFresh x hq2).1
  have hf2 := (h2.fin_of_src_nil hs2).1
  obtain ⟨w2, hw2⟩ := h2.pending_of_fresh hs2 (Or.inl hq2)
  have hw2' := hw2
  rw [pollCompleted_eq] at hw2'
  have := notifyAll_slot_pending _ _ x w2 hw2'
  rw [hw] at this
  cases this
  exact ⟨hw2, hf2⟩

end

theorem sublist_cons_mem {α : Type} {x y : α} {rest : List α} : ∀ {l : List α},
    (x :: rest).Sublist l → y ∈ rest → ∃ l1 l2, l = l1 ++ x :: l2 ∧ y ∈ l2 := by
  intro l
  induction l with
  | nil => intro h; cases h
  | cons a l ih =>
    intro h hy
    cases h with
    | cons _ h' =>
      obtain ⟨l1, l2, e, hm⟩ := ih h' hy
      exact ⟨a :: l1, l2, by rw [e]; rfl, hm⟩
    | cons_cons _ h' => exact ⟨[], l, rfl, h'.subset hy⟩



section
variable {W : Type}

/-- `Driver::poll` leaves nothing in the `completed` channel: whatever was queued when it was called (results
    of thread-pool jobs, ECANCELED entries of cancelled operations) has been handed to `set_result` -/
theorem poll_chan_nil (ops : Ops W) {s s' : St W} {r : PollRes} (h : Inv noPend s) (t : Bool) (fired : List Fired)
    (hp : poll ops s t fired = .ok (s', r)) : s'.chan = [] := by
  unfold poll at hp
  cases hd : deliver s fired with
  | error e => rw [hd] at hp; cases hp
  | ok p =>
    obtain ⟨s1, evs⟩ := p
    rw [hd] at hp
    obtain ⟨hinv1, hnd, hregs, hevs, hchan⟩ := inv_deliver h fired evs hd
    simp only at hp
    cases hfe : evs.isEmpty with
    | true =>
      simp only [hfe, if_true] at hp
      rw [pollCompleted_eq] at hp
      cases hb : (!s1.chan.isEmpty) with
      | true => simp only [hb] at hp; cases hp; rfl
      | false =>
        simp only [hb] at hp
        cases t with
        | true => simp only [if_true] at hp; cases hp; rfl
        | false => simp only [Bool.false_eq_true, if_false] at hp; cases hp; rfl
    | false =>
      simp only [hfe, Bool.false_eq_true, if_false] at hp
      have key : ∀ s2 : St W, Inv (fun x => x ∈ fired.map (·.fd)) s2 → s2.reg = s1.reg → s2.chan = [] →
          eventLoop ops s2 evs = .ok (s', r) → s'.chan = [] := by
        intro s2 hinv2 hreg hc2 hev
        have hmk : evs = fired.map (mkEv s2) := by
          rw [hevs]
          apply List.map_congr_left
          intro f _
          simp [mkEv, keyOf, hreg]
        obtain ⟨s3, hs3, _, hchan3⟩ := inv_eventLoop ops fired s2 hinv2 hnd (by
          intro f hf; rw [hreg]; exact hregs f hf)
        rw [hmk, hs3] at hev
        cases hev
        rw [hchan3]; exact hc2
      cases hcc : (!s.chan.isEmpty) with
      | true =>
        simp only [hcc, if_true] at hp
        exact key _ (inv_pollCompleted hinv1) (by rw [pollCompleted_eq]) (by rw [pollCompleted_eq]) hp
      | false =>
        simp only [hcc, Bool.false_eq_true, if_false] at hp
        have : s1.chan = [] := by
          rw [hchan]
          cases hc : s.chan with
          | nil => rfl
          | cons a l => rw [hc] at hcc; simp at hcc
        exact key _ hinv1 rfl this hp

end

end Compio.PollDriver
