/- helper lemmas for the control-message model -/
import Compio.Model.Cmsg

namespace Compio.Cmsg

theorem iterFrom_none (buf : Bytes) (n : Nat) : iterFrom buf n none = [] := by
  cases n <;> rfl

theorem nxthdr_some (buf : Bytes) (len off next : Nat) (h : nxthdr buf len off = some next) :
    off + hdr ≤ next ∧ next + hdr ≤ len := by
  unfold nxthdr at h
  simp only at h
  split at h
  · simp at h
  · split at h
    · simp at h
    · rename_i h1 h2
      simp at h
      subst h
      have : hdr ≤ align (readHeader buf off).len := by
        unfold align hdr at *
        omega
      omega

theorem iterFrom_in_bounds (buf : Bytes) : ∀ (fuel : Nat) (o : Option Nat),
    (∀ off, o = some off → off + hdr ≤ buf.length) →
    ∀ x ∈ iterFrom buf fuel o, x.1 + hdr ≤ buf.length := by
  intro fuel
  induction fuel with
  | zero => intro o _ x hx; simp [iterFrom] at hx
  | succ n ih =>
    intro o ho x hx
    cases o with
    | none => simp [iterFrom] at hx
    | some off =>
      simp only [iterFrom, List.mem_cons] at hx
      rcases hx with rfl | hx
      · exact ho off rfl
      · exact ih _ (fun nx hnx => (nxthdr_some buf _ off nx hnx).2) x hx

theorem iterFrom_succ (buf : Bytes) : ∀ (fuel off : Nat),
    (buf.length - off) / hdr + 1 ≤ fuel → off + hdr ≤ buf.length →
    iterFrom buf (fuel + 1) (some off) = iterFrom buf fuel (some off) := by
  intro fuel
  induction fuel with
  | zero => intro off h; unfold hdr at h; omega
  | succ k ih =>
    intro off h hb
    simp only [iterFrom]
    congr 1
    cases hn : nxthdr buf buf.length off with
    | none => simp [iterFrom_none]
    | some next =>
      have := nxthdr_some buf _ off next hn
      apply ih next _ this.2
      unfold hdr at *
      omega

theorem iterFrom_add (buf : Bytes) (fuel off : Nat)
    (h : (buf.length - off) / hdr + 1 ≤ fuel) (hb : off + hdr ≤ buf.length) :
    ∀ k, iterFrom buf (fuel + k) (some off) = iterFrom buf fuel (some off) := by
  intro k
  induction k with
  | zero => rfl
  | succ k ih =>
    rw [← Nat.add_assoc, iterFrom_succ buf (fuel + k) off (by omega) hb, ih]

theorem iterFrom_stable (buf : Bytes) (fuel : Nat) (h : iterFuel buf ≤ fuel) :
    iterFrom buf fuel (firsthdr buf.length) = iterFrom buf (iterFuel buf) (firsthdr buf.length) := by
  unfold firsthdr
  split
  · rename_i hl
    obtain ⟨k, rfl⟩ : ∃ k, fuel = iterFuel buf + k := ⟨fuel - iterFuel buf, by omega⟩
    exact iterFrom_add buf (iterFuel buf) 0 (by unfold iterFuel; simp) (by omega) k
  · simp [iterFrom_none]

end Compio.Cmsg
