/-
Consequences of the lifecycle automaton (`lifeStep`, Model/Actor.lean): which hooks a word contains, that
handlers are bracketed, and the capacity field is constant.
-/
import Compio.Lemmas.Actor

namespace Compio.Actor
set_option linter.unusedSimpArgs false
set_option linter.unusedVariables false

def hookName : Obs → Option Hook
  | .hook h _ => some h
  | _ => none

/-- the hooks of a log, in order -/
def hookNames (log : List Obs) : List Hook := log.filterMap hookName

/-- hooks that ran when the automaton is in a given state -/
def hooksAt : Life → List Hook → Prop
  | .fresh, h => h = []
  | .deadStart, h => h = [.preStart]
  | .started, h => h = [.preStart]
  | .running, h => h = [.preStart, .postStart]
  | .inHandler _, h => h = [.preStart, .postStart]
  | .closing, h => h = [.preStart, .postStart]
  | .stopped1, h => h = [.preStart, .postStart, .preStop] ∨ h = [.preStart, .preStop]
  | .done, h => h = [.preStart, .postStart, .preStop, .postStop] ∨ h = [.preStart, .preStop, .postStop]

theorem hooks_step (l l' : Life) (o : Obs) (h : List Hook) (hs : lifeStep l o = some l') (ha : hooksAt l h) :
    hooksAt l' (h ++ (hookName o).toList) := by
  cases l <;> cases o <;> simp only [lifeStep] at hs <;>
    (try (rename_i hk ok; cases hk <;> cases ok <;> simp only [lifeStep] at hs)) <;>
    (try (split at hs)) <;> (try (split at hs)) <;> (try (cases hs)) <;>
    simp_all [hooksAt, hookName] <;> (rcases ha with rfl | rfl <;> simp)

theorem hooks_along : ∀ (log : List Obs) (l l' : Life) (h : List Hook),
    lifeRun l log = some l' → hooksAt l h → hooksAt l' (h ++ hookNames log) := by
  intro log
  induction log with
  | nil => intro l l' h hr ha; simp [lifeRun] at hr; subst hr; simpa [hookNames] using ha
  | cons o log ih =>
    intro l l' h hr ha
    simp only [lifeRun] at hr
    cases hs : lifeStep l o with
    | none => simp [hs] at hr
    | some l1 =>
      simp only [hs] at hr
      have := ih l1 l' _ hr (hooks_step l l1 o h hs ha)
      have e : hookNames (o :: log) = (hookName o).toList ++ hookNames log := by
        unfold hookNames
        cases ho : hookName o <;> simp [List.filterMap_cons, ho]
      rw [e, ← List.append_assoc]
      exact this

/-- every handler entry is directly followed by the return of the same handler (or is the last event) -/
theorem handler_bracketed (l l' : Life) (pre post : List Obs) (m : Nat)
    (h : lifeRun l (pre ++ .hs m :: post) = some l') :
    post = [] ∨ ∃ ok post', post = .he m ok :: post' := by
  rw [lifeRun_append] at h
  cases h1 : lifeRun l pre with
  | none => simp [h1] at h
  | some l1 =>
    simp only [h1, Option.bind_some, lifeRun] at h
    cases h2 : lifeStep l1 (.hs m) with
    | none => simp [h2] at h
    | some l2 =>
      simp only [h2] at h
      have hl2 : l2 = .inHandler m := by
        cases l1 <;> simp [lifeStep] at h2
        exact h2.symm
      subst hl2
      cases post with
      | nil => exact Or.inl rfl
      | cons o post' =>
        right
        simp only [lifeRun] at h
        cases o with
        | he m' ok =>
          by_cases hm : m = m'
          · subst hm; exact ⟨ok, post', rfl⟩
          · simp [lifeStep, hm] at h
        | hs _ => simp [lifeStep] at h
        | hook _ _ => simp [lifeStep] at h

/-- (Cap) the capacity never changes -/
theorem cap_step (s : St) (e : Ev) (s' : St) (h : step s e = some s') : s'.cap = s.cap := by
  cases e <;> simp only [step] at h <;> step_cases h <;> simp_all [St.obs]

end Compio.Actor
