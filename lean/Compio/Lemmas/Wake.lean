/-
Helper lemmas for the wake-up model (Compio.Model.Wake): algebra of the regenerated flag and task-word
functions, counting of waker threads, frame lemmas of the step functions.
-/
import Compio.Model.Wake

namespace Compio.Wake
open Compio.TaskWord
open Compio.Gen

/-! ### the awake flag (Gen/AwakeFlag.lean) on {0,1,2,3} -/

/-- the NOTIFIED bit -/
def nbit (f : Nat) : Bool := f % 2 == 1

theorem flag_cases {f : Nat} (h : f ≤ 3) : f = 0 ∨ f = 1 ∨ f = 2 ∨ f = 3 := by omega

theorem wake_le {f : Nat} (h : f ≤ 3) : (AwakeFlag.wake f).1 ≤ 3 := by
  rcases flag_cases h with rfl | rfl | rfl | rfl <;> decide

theorem wake_nbit {f : Nat} (h : f ≤ 3) : nbit (AwakeFlag.wake f).1 = true := by
  rcases flag_cases h with rfl | rfl | rfl | rfl <;> decide

theorem wake_ret {f : Nat} (h : f ≤ 3) : (AwakeFlag.wake f).2 = (f != 0) := by
  rcases flag_cases h with rfl | rfl | rfl | rfl <;> decide

theorem wake_le1 {f : Nat} (h : f ≤ 1) : (AwakeFlag.wake f).1 = 1 := by
  have : f = 0 ∨ f = 1 := by omega
  rcases this with rfl | rfl <;> decide

theorem reset_fst (f : Nat) : (AwakeFlag.reset f).1 = 0 := by
  simp [AwakeFlag.reset, AwakeFlag.IDLE]

theorem reset_snd {f : Nat} (h : f ≤ 3) : (AwakeFlag.reset f).2 = nbit f := by
  rcases flag_cases h with rfl | rfl | rfl | rfl <;> decide

theorem set_eq (f : Nat) : AwakeFlag.set f = 2 := by
  simp [AwakeFlag.set, AwakeFlag.AWAKE]

theorem new_eq : AwakeFlag.new = 0 := by
  simp [AwakeFlag.new, AwakeFlag.IDLE]


/-! ### counting waker threads -/

def cntUpTo (n : Nat) (f : Nat → Wk) (p : Wk → Bool) : Nat :=
  match n with
  | 0 => 0
  | n + 1 => cntUpTo n f p + (if p (f n) then 1 else 0)

theorem cntUpTo_upd_ge (n : Nat) (f : Nat → Wk) (p : Wk → Bool) (w : Nat) (k : Wk) (hw : n ≤ w) :
    cntUpTo n (upd f w k) p = cntUpTo n f p := by
  induction n with
  | zero => rfl
  | succ n ih =>
    have h1 : n ≠ w := by omega
    simp [cntUpTo, ih (by omega), upd, h1]

theorem cntUpTo_upd (n : Nat) (f : Nat → Wk) (p : Wk → Bool) (w : Nat) (k : Wk) (hw : w < n) :
    cntUpTo n (upd f w k) p + (if p (f w) then 1 else 0) = cntUpTo n f p + (if p k then 1 else 0) := by
  induction n with
  | zero => omega
  | succ n ih =>
    by_cases h : w = n
    · subst h
      simp only [cntUpTo, upd_same]
      rw [cntUpTo_upd_ge _ _ _ _ _ (Nat.le_refl _)]
      omega
    · have hw' : w < n := by omega
      have := ih hw'
      have h2 : n ≠ w := fun e => h e.symm
      simp only [cntUpTo, upd_other f w n k h2]
      omega

theorem cntUpTo_pos_of (n : Nat) (f : Nat → Wk) (p : Wk → Bool) (w : Nat) (hw : w < n) (hp : p (f w) = true) :
    0 < cntUpTo n f p := by
  induction n with
  | zero => omega
  | succ n ih =>
    by_cases h : w = n
    · subst h; simp [cntUpTo, hp]
    · have := ih (by omega); simp only [cntUpTo]; omega

theorem cntUpTo_pos (n : Nat) (f : Nat → Wk) (p : Wk → Bool) (h : 0 < cntUpTo n f p) :
    ∃ w, w < n ∧ p (f w) = true := by
  induction n with
  | zero => simp [cntUpTo] at h
  | succ n ih =>
    simp only [cntUpTo] at h
    by_cases hp : p (f n) = true
    · exact ⟨n, by omega, hp⟩
    · simp [hp] at h
      obtain ⟨w, hw, hpw⟩ := ih h
      exact ⟨w, by omega, hpw⟩


/-- the same count, leaving out thread `w` -/
def cntExcept (n : Nat) (f : Nat → Wk) (p : Wk → Bool) (w : Nat) : Nat :=
  match n with
  | 0 => 0
  | n + 1 => cntExcept n f p w + (if n = w then 0 else if p (f n) then 1 else 0)

theorem cntExcept_ge (n : Nat) (f : Nat → Wk) (p : Wk → Bool) (w : Nat) (hw : n ≤ w) :
    cntExcept n f p w = cntUpTo n f p := by
  induction n with
  | zero => rfl
  | succ n ih =>
    have h1 : n ≠ w := by omega
    simp [cntExcept, cntUpTo, ih (by omega), h1]

theorem cntUpTo_split (n : Nat) (f : Nat → Wk) (p : Wk → Bool) (w : Nat) (hw : w < n) :
    cntUpTo n f p = cntExcept n f p w + (if p (f w) then 1 else 0) := by
  induction n with
  | zero => omega
  | succ n ih =>
    by_cases h : n = w
    · subst h
      simp [cntExcept, cntUpTo, cntExcept_ge n f p n (Nat.le_refl _)]
    · have := ih (by omega)
      simp only [cntExcept, cntUpTo, h, if_false]
      omega

theorem cntExcept_upd (n : Nat) (f : Nat → Wk) (p : Wk → Bool) (w : Nat) (k : Wk) :
    cntExcept n (upd f w k) p w = cntExcept n f p w := by
  induction n with
  | zero => rfl
  | succ n ih =>
    by_cases h : n = w
    · subst h; simp [cntExcept, ih]
    · simp [cntExcept, ih, h, upd]

/-! ### the task word (Gen/TaskState.lean) -/

section word
attribute [local simp] TaskState.startScheduling TaskState.finishScheduling TaskState.unschedule
  TaskState.setCancelled TaskState.finishRunning TaskState.setDropped TaskState.isScheduled
  TaskState.isCompleted TaskState.isCancelled Word.setFlags Word.clearFlags Word.set Word.get

theorem sched_start (w : Word) : TaskState.isScheduled (TaskState.startScheduling w) = true := by simp
theorem sched_unsched (w : Word) : TaskState.isScheduled (TaskState.unschedule w) = false := by simp
theorem sched_finish (w : Word) : TaskState.isScheduled (TaskState.finishScheduling w) = TaskState.isScheduled w := by simp
theorem sched_cancel (w : Word) : TaskState.isScheduled (TaskState.setCancelled w) = TaskState.isScheduled w := by simp
theorem sched_dropped (w : Word) : TaskState.isScheduled (TaskState.setDropped w) = TaskState.isScheduled w := by simp
theorem sched_finrun (w : Word) : TaskState.isScheduled (TaskState.finishRunning w) = TaskState.isScheduled w := by simp
theorem canc_start (w : Word) : TaskState.isCancelled (TaskState.startScheduling w) = TaskState.isCancelled w := by simp
theorem canc_finish (w : Word) : TaskState.isCancelled (TaskState.finishScheduling w) = TaskState.isCancelled w := by simp
theorem canc_unsched (w : Word) : TaskState.isCancelled (TaskState.unschedule w) = TaskState.isCancelled w := by simp
theorem canc_cancel (w : Word) : TaskState.isCancelled (TaskState.setCancelled w) = true := by simp
theorem canc_dropped (w : Word) : TaskState.isCancelled (TaskState.setDropped w) = true := by simp
theorem canc_finrun (w : Word) : TaskState.isCancelled (TaskState.finishRunning w) = TaskState.isCancelled w := by simp
theorem compl_unsched (w : Word) : TaskState.isCompleted (TaskState.unschedule w) = TaskState.isCompleted w := by simp
theorem compl_start (w : Word) : TaskState.isCompleted (TaskState.startScheduling w) = TaskState.isCompleted w := by simp
theorem compl_finish (w : Word) : TaskState.isCompleted (TaskState.finishScheduling w) = TaskState.isCompleted w := by simp
theorem compl_cancel (w : Word) : TaskState.isCompleted (TaskState.setCancelled w) = TaskState.isCompleted w := by simp
theorem compl_dropped (w : Word) : TaskState.isCompleted (TaskState.setDropped w) = TaskState.isCompleted w := by simp
theorem compl_finrun (w : Word) : TaskState.isCompleted (TaskState.finishRunning w) = true := by simp
theorem canc_new : TaskState.isCancelled (TaskState.new 2) = false := by
  simp [TaskState.new, Word.zero, Word.withCount]
theorem sched_new : TaskState.isScheduled (TaskState.new 2) = false := by
  simp [TaskState.new, Word.zero, Word.withCount]
theorem compl_new : TaskState.isCompleted (TaskState.new 2) = false := by
  simp [TaskState.new, Word.zero, Word.withCount]

end word

/-! ### predicates on waker threads, phases of the runtime thread, the invariant -/

def cnt (s : State) (p : Wk → Bool) : Nat := cntUpTo s.cfg.nw s.wk p

theorem cnt_pos_iff (s : State) (p : Wk → Bool) : 0 < cnt s p ↔ ∃ w, w < s.cfg.nw ∧ p (s.wk w) = true :=
  ⟨cntUpTo_pos _ _ _, fun ⟨w, hw, hp⟩ => cntUpTo_pos_of _ _ _ w hw hp⟩

def isTaskKind : Kind → Bool
  | .main => false
  | .task _ => true

/-- holds a reservation in `pending` that is not matched by a queue entry -/
def resvP (k : Wk) : Bool :=
  isTaskKind k.kind && !k.pushed &&
    (k.pc == .push || k.pc == .spin || k.pc == .dwake || k.pc == .cas || k.pc == .write)

/-- passed the SCHEDULED check for task t and has not pushed (or bailed out) yet -/
def holdsP (t : Nat) (k : Wk) : Bool :=
  k.kind == .task t && !k.pushed &&
    (k.pc == .load || k.pc == .reserve || k.pc == .push || k.pc == .spin || k.pc == .dwake || k.pc == .cas
      || k.pc == .write)

/-- has pushed and is about to wake the driver -/
def aboutP (k : Wk) : Bool := k.pushed && k.pc == .dwake

/-- took the NOTIFIED bit from IDLE and has not signalled the kernel object yet -/
def inflightP (k : Wk) : Bool := k.pc == .cas || k.pc == .write

def writeP (k : Wk) : Bool := k.pc == .write

inductive Phase where
  | pre      -- the runtime thread will start a poll of the main future and a drain before it can block
  | post     -- after the drain of this iteration, before the flag is reset
  | sleep    -- own loop: between `reset` and the return of the kernel wait
  | xsleep   -- external loop: between `flush`'s reset and the return of the wait on the fd
  deriving DecidableEq, Repr

def backPhase : Back → Phase
  | .main => .pre
  | .task _ _ _ => .post

def retPhase : Ret → Phase
  | .tick => .pre
  | .loc _ b => backPhase b

def phase (l : Loop) : RtPc → Phase
  | .mainStart => .pre
  | .poll b => backPhase b
  | .drainCheck r | .draining r _ => retPhase r
  | .lwake b | .lcas b | .lwrite b => backPhase b
  | .run _ _ | .xarm | .xsubmit | .xreset => .post
  | .xwait => .xsleep
  | .xclear => .pre
  | .reset => match l with
    | .own => .post
    | .ext => .pre
  | .arm | .submit | .wait => match l with
    | .own => .sleep
    | .ext => .pre
  | .pclear | .pswap | .setAwake1 | .consume | .clear | .setAwake2 => .pre

/-- the same for the main future: it has been polled already once the runtime thread is past `mainStart` -/
def mphase (l : Loop) : RtPc → Phase
  | .mainStart => .pre
  | .poll _ | .drainCheck _ | .draining _ _ | .lwake _ | .lcas _ | .lwrite _ => .post
  | pc => phase l pc

/-- "the runtime thread cannot block before it looks again" -/
def covOf (s : State) : Phase → Bool
  | .pre => true
  | .post => nbit s.flag
  | .sleep => !s.needWait || nbit s.flag
  | .xsleep => s.zero || nbit s.flag

def cov (s : State) : Bool := covOf s (phase s.cfg.loop s.rt)
def covM (s : State) : Bool := covOf s (mphase s.cfg.loop s.rt)

def drained : RtPc → Nat
  | .draining _ d => d
  | _ => 0

/-- before the push of `Remote::schedule` -/
def prePush : WPc → Bool
  | .sched | .load | .reserve | .push | .spin => true
  | _ => false

def inCall (k : Wk) : Bool := !(k.pc == .idle || k.pc == .sched)

def isLwrite : RtPc → Bool
  | .lwrite _ => true
  | _ => false

/-- program points of the external loop (compio-compat `drive`) -/
def extPc : RtPc → Bool
  | .xarm | .xsubmit | .xreset | .xwait | .xclear => true
  | _ => false

/-- the tick-loop context of a program point inside a poll (or inside a same-thread wake issued by it) -/
def backOf : RtPc → Option Back
  | .poll b | .lwake b | .lcas b | .lwrite b => some b
  | .drainCheck (.loc _ b) | .draining (.loc _ b) _ => some b
  | _ => none

/-- the id prefetched by the `iter_hot()` iterator, if the runtime thread is inside the tick loop -/
def nxtOf : RtPc → Option Nat
  | .run nxt _ => nxt
  | pc => match backOf pc with
    | some (.task _ nxt _) => nxt
    | _ => none

/-- the task being polled -/
def curOf (pc : RtPc) : Option Nat :=
  match backOf pc with
  | some (.task c _ _) => some c
  | _ => none

def isLcas : RtPc → Bool
  | .lcas _ => true
  | _ => false

def waitPcs : RtPc → Bool
  | .reset | .arm | .submit | .wait | .xarm | .xsubmit | .xreset | .xwait | .xclear => true
  | _ => false

structure Inv (s : State) : Prop where
  flagLe : s.flag ≤ 3
  noUflow : s.uflow = false
  pend : s.pending = s.sync.length + cnt s resvP + drained s.rt
  hotLive : ∀ t, t ∈ s.hot → s.dropped t = false
  hotNodup : s.hot.Nodup
  notPushed : ∀ w, prePush (s.wk w).pc = true → (s.wk w).pushed = false
  extOnly : extPc s.rt = true → s.cfg.loop = .ext
  compl : ∀ t, TaskState.isCompleted (s.word t) = true → s.dropped t = true
  sched : ∀ t, TaskState.isScheduled (s.word t) = true → s.dropped t = false →
    TaskState.isCancelled (s.word t) = false → t ∈ s.sync ∨ t ∈ s.hot ∨ 0 < cnt s (holdsP t)
  seqLe : ∀ w t, (s.wk w).kind = .task t → inCall (s.wk w) = true → (s.wk w).seq0 ≤ s.pollSeq t
  unserved : ∀ w t, (s.wk w).kind = .task t → inCall (s.wk w) = true → (s.wk w).seq0 = s.pollSeq t →
    TaskState.isScheduled (s.word t) = true
  wokenSched : ∀ t, s.woken t = true → TaskState.isScheduled (s.word t) = true
  covSync : s.sync ≠ [] → cov s = true ∨ 0 < cnt s aboutP
  mseqLe : ∀ w, (s.wk w).kind = .main → inflightP (s.wk w) = true → (s.wk w).seq0 ≤ s.mainSeq
  covMainW : ∀ w, (s.wk w).kind = .main → inflightP (s.wk w) = true → (s.wk w).seq0 = s.mainSeq → covM s = true
  covMain : s.mainWoken = true → covM s = true
  kq : s.cfg.drv = .iour → s.rt ≠ .clear → s.arm = .live → 0 < s.efd → s.cq = true
  cqLive : s.cq = true → s.arm = .live
  armW : s.cfg.drv = .iour → s.rt = .wait → s.arm = .live
  armS : s.cfg.drv = .iour → s.rt = .submit → s.arm ≠ .needPush
  armXW : s.cfg.drv = .iour → (s.rt = .xwait ∨ s.rt = .xreset) → s.arm = .live
  armXS : s.cfg.drv = .iour → s.rt = .xsubmit → s.arm ≠ .needPush
  sleepFlag : (phase s.cfg.loop s.rt = .sleep ∨ phase s.cfg.loop s.rt = .xsleep) → s.flag ≤ 1
  sig : phase s.cfg.loop s.rt = .sleep → nbit s.flag = true → 0 < cnt s inflightP ∨ 0 < s.efd
  xsig : phase s.cfg.loop s.rt = .xsleep → nbit s.flag = true → 0 < cnt s inflightP ∨ fdReadable s = true
  pn : s.pnot = true → 0 < s.efd ∨ 0 < cnt s writeP ∨ s.rt = .pswap ∨ isLwrite s.rt = true
  zeroHot : waitPcs s.rt = true → s.hot ≠ [] → s.zero = true
  iourPc : (s.rt = .consume ∨ s.rt = .clear) → s.cfg.drv = .iour
  pnotPoll : s.pnot = true → s.cfg.drv = .poll
  casPoll : ∀ w, (s.wk w).pc = .cas → s.cfg.drv = .poll
  lcasPoll : isLcas s.rt = true → s.cfg.drv = .poll
  nxtHead : ∀ n, nxtOf s.rt = some n → s.hot.head? = some n
  nxtNe : ∀ c, curOf s.rt = some c → nxtOf s.rt ≠ some c

end Compio.Wake
